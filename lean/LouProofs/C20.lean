/-
  C20 — table names resolve by a fixed precedence.

  Property text (fixed):
    "Which file a table name denotes is determined only by the name, the file it is
     included from (or the first table of its list), LOUIS_TABLEPATH and the files
     present: a match relative to the including file's directory wins over a match
     for the name as given (absolute or in the working directory), which wins over
     LOUIS_TABLEPATH directories in listed order.  A name found nowhere makes
     compilation fail with an error, and the choice is the same on every call
     regardless of what was loaded before."

  Everything below is about `Lou.Resolve` (LouModel/Resolve.lean), the transcription
  of resolveSubtable / _lou_getTablePath / _lou_defaultTableResolver, and holds for
  ALL file systems `fs : String → FileKind`, names, bases and search paths.

  Full statement wanted:
    (P)  resolveSubtable returns the first regular file of the explicit list
           [dir(base) ++ name]? ++ [name] ++ [d₁/name, d₁/liblouis/tables/name, …, dₙ/name]
         (no `liblouis/tables` variant for the last search-path entry), or none.
  (P) is FALSE without a length hypothesis: every candidate is guarded by a
  `strlen … >= MAX_TABLEFILE_SIZE` test whose failure abandons the whole resolution
  (`goto failure`), so an over-long early candidate hides a later one that exists
  (`overflow_hides_later_candidate`).  Proved instead:
    * `resolve_precedence`        — (P) for the candidate list CUT at the first failing
                                     length test (`candidates`), no hypothesis;
    * `candidates_eq_of_fits`     — under `Fits` (all candidates and the base shorter
                                     than 4096 bytes) the cut list is the explicit list;
    * `resolve_precedence_fits`   — (P) under `Fits`.
  Other hypotheses forced by the code, visible in the statements:
    * list members after the first are resolved against the first member's NAME AS
      GIVEN, not against the file it denotes (`list_base_rule`);
    * the built-in directory is searched only when LOUIS_TABLEPATH is unset or empty
      (`searchpath_order`); a comma inside the data path splits it (`searchpath_entries`).
-/
import LouModel.Resolve

namespace Lou.C20
open Lou Lou.Resolve

/-! ### the candidate list -/

/-- candidates contributed by the search-path entries, cut at the first failing length test -/
def pathCands (table : String) : List String → List String
  | [] => []
  | e :: rest =>
    if strlen (dirOf e) + strlen table + 1 ≥ MAX_TABLEFILE_SIZE then []
    else cand1 table e ::
      (match rest with
       | [] => []
       | _ :: _ =>
         if strlen (dirOf e) + 8 + 6 + strlen table + 3 ≥ MAX_TABLEFILE_SIZE then []
         else cand2 table e :: pathCands table rest)

def tailCands (table searchPath : String) : List String :=
  if strlen table ≥ MAX_TABLEFILE_SIZE then []
  else table :: (if searchPath = "" then [] else pathCands table (entries searchPath))

/-- every file name `resolveSubtable` may return, in the order it tries them -/
def candidates (table : String) (base : Option String) (searchPath : String) : List String :=
  if table = "" then []
  else match base with
    | none => tailCands table searchPath
    | some b =>
      if strlen b ≥ MAX_TABLEFILE_SIZE then []
      else if strlen (dirPrefix b) + strlen table ≥ MAX_TABLEFILE_SIZE then []
      else (dirPrefix b ++ table) :: tailCands table searchPath

/-- the explicit list: both variants for every entry but the last, one for the last -/
def pathCandsU (table : String) : List String → List String
  | [] => []
  | [e] => [cand1 table e]
  | e :: e' :: rest => cand1 table e :: cand2 table e :: pathCandsU table (e' :: rest)

/-- the explicit candidate list of the property, without any length test -/
def candidatesU (table : String) (base : Option String) (searchPath : String) : List String :=
  (match base with | some b => [dirPrefix b ++ table] | none => []) ++ [table] ++
  (if searchPath = "" then [] else pathCandsU table (entries searchPath))

/-- `pathCandsU` in closed form -/
theorem pathCandsU_eq (table : String) (es : List String) (e : String) :
    pathCandsU table (es ++ [e]) =
      (es.flatMap fun d => [cand1 table d, cand2 table d]) ++ [cand1 table e] := by
  induction es with
  | nil => rfl
  | cons a as ih =>
    cases as with
    | nil => rfl
    | cons b bs =>
      have : (a :: b :: bs ++ [e]) = a :: b :: (bs ++ [e]) := rfl
      rw [this, pathCandsU]
      have ih' : pathCandsU table (b :: (bs ++ [e])) = _ := ih
      rw [ih']
      simp [List.flatMap_cons]

/-- the length hypothesis under which no `goto failure` is taken -/
def Fits (table : String) (base : Option String) (searchPath : String) : Prop :=
  (∀ b, base = some b → strlen b < MAX_TABLEFILE_SIZE) ∧
  ∀ c ∈ candidatesU table base searchPath, strlen c < MAX_TABLEFILE_SIZE

/-! ### resolve_precedence -/

theorem searchLoop_eq_find (fs : FS) (table : String) (es : List String) :
    searchLoop fs table es = (pathCands table es).find? (isFile fs) := by
  induction es with
  | nil => rfl
  | cons e rest ih =>
    unfold searchLoop pathCands
    by_cases h1 : strlen (dirOf e) + strlen table + 1 ≥ MAX_TABLEFILE_SIZE
    · rw [if_pos h1, if_pos h1]; rfl
    · rw [if_neg h1, if_neg h1, List.find?_cons]
      cases hc : isFile fs (cand1 table e)
      · simp only [Bool.false_eq_true, if_false]
        cases rest with
        | nil => rfl
        | cons e' r =>
          simp only
          by_cases h2 : strlen (dirOf e) + 8 + 6 + strlen table + 3 ≥ MAX_TABLEFILE_SIZE
          · rw [if_pos h2, if_pos h2]; rfl
          · rw [if_neg h2, if_neg h2, List.find?_cons]
            cases hc2 : isFile fs (cand2 table e)
            · simp only [Bool.false_eq_true, if_false]; exact ih
            · simp
      · simp

theorem resolveTail_eq_find (fs : FS) (table sp : String) :
    resolveTail fs table sp = (tailCands table sp).find? (isFile fs) := by
  unfold resolveTail tailCands
  by_cases h : strlen table ≥ MAX_TABLEFILE_SIZE
  · rw [if_pos h, if_pos h]; rfl
  · rw [if_neg h, if_neg h, List.find?_cons]
    cases hc : isFile fs table
    · simp only [Bool.false_eq_true, if_false]
      by_cases hs : sp = ""
      · rw [if_pos hs, if_pos hs]; rfl
      · rw [if_neg hs, if_neg hs]; exact searchLoop_eq_find fs table _
    · simp

/-- **resolve_precedence.**  For every file system, name, base and search path the
    resolver returns the FIRST candidate, in the order of `candidates`, that is a
    regular file (`stat` succeeds and the S_IFDIR bit is clear), and NULL when there
    is none.  Nothing else about the file system is consulted. -/
theorem resolve_precedence (fs : FS) (table : String) (base : Option String) (sp : String) :
    resolveSubtable fs table base sp = (candidates table base sp).find? (isFile fs) := by
  unfold resolveSubtable candidates
  by_cases ht : table = ""
  · rw [if_pos ht, if_pos ht]; rfl
  · rw [if_neg ht, if_neg ht]
    cases base with
    | none => exact resolveTail_eq_find fs table sp
    | some b =>
      simp only
      by_cases h1 : strlen b ≥ MAX_TABLEFILE_SIZE
      · rw [if_pos h1, if_pos h1]; rfl
      · rw [if_neg h1, if_neg h1]
        by_cases h2 : strlen (dirPrefix b) + strlen table ≥ MAX_TABLEFILE_SIZE
        · rw [if_pos h2, if_pos h2]; rfl
        · rw [if_neg h2, if_neg h2, List.find?_cons]
          cases hc : isFile fs (dirPrefix b ++ table)
          · simp only [Bool.false_eq_true, if_false]; exact resolveTail_eq_find fs table sp
          · simp

theorem strlen_cand1 (t e : String) : strlen (cand1 t e) = strlen (dirOf e) + strlen t + 1 := by
  have h : strlen "/" = 1 := by decide
  simp only [cand1, strlen, String.utf8ByteSize_append] at *
  omega

theorem strlen_cand2 (t e : String) : strlen (cand2 t e) = strlen (dirOf e) + 8 + 6 + strlen t + 3 := by
  have h : strlen "/liblouis/tables/" = 17 := by decide
  simp only [cand2, strlen, String.utf8ByteSize_append] at *
  omega

theorem pathCands_eq_of_fits (table : String) (es : List String)
    (h : ∀ c ∈ pathCandsU table es, strlen c < MAX_TABLEFILE_SIZE) :
    pathCands table es = pathCandsU table es := by
  induction es with
  | nil => rfl
  | cons e rest ih =>
    cases rest with
    | nil =>
      have h1 := h (cand1 table e) (by simp [pathCandsU])
      rw [strlen_cand1] at h1
      unfold pathCands pathCandsU
      rw [if_neg (by omega)]
    | cons e' r =>
      have h1 := h (cand1 table e) (by simp [pathCandsU])
      have h2 := h (cand2 table e) (by simp [pathCandsU])
      rw [strlen_cand1] at h1
      rw [strlen_cand2] at h2
      have ih' := ih (fun c hc => h c (by simp only [pathCandsU, List.mem_cons]; exact Or.inr (Or.inr hc)))
      unfold pathCands pathCandsU
      rw [if_neg (by omega)]
      simp only
      rw [if_neg (by omega), ih']

/-- under `Fits` the cut candidate list is the explicit one -/
theorem candidates_eq_of_fits (table : String) (base : Option String) (sp : String)
    (ht : table ≠ "") (hf : Fits table base sp) :
    candidates table base sp = candidatesU table base sp := by
  obtain ⟨hb, hc⟩ := hf
  have htab : strlen table < MAX_TABLEFILE_SIZE := hc table (by simp [candidatesU])
  have htail : tailCands table sp = [table] ++ (if sp = "" then [] else pathCandsU table (entries sp)) := by
    unfold tailCands
    rw [if_neg (by omega)]
    by_cases hs : sp = ""
    · simp [hs]
    · rw [if_neg hs, if_neg hs]
      rw [pathCands_eq_of_fits]
      · rfl
      · intro c hcm
        exact hc c (by simp [candidatesU, hs, hcm])
  unfold candidates
  rw [if_neg ht]
  cases base with
  | none => simp only [candidatesU, List.nil_append]; exact htail
  | some b =>
    have h1 := hb b rfl
    have h2 : strlen (dirPrefix b ++ table) < MAX_TABLEFILE_SIZE := hc _ (by simp [candidatesU])
    simp only [strlen, String.utf8ByteSize_append] at h1 h2
    show (if strlen b ≥ MAX_TABLEFILE_SIZE then [] else
      if strlen (dirPrefix b) + strlen table ≥ MAX_TABLEFILE_SIZE then []
      else (dirPrefix b ++ table) :: tailCands table sp) = _
    rw [if_neg (by simp only [strlen]; omega), if_neg (by simp only [strlen]; omega), htail]
    simp [candidatesU]

/-- **resolve_precedence** in the property's wording: when no candidate reaches 4096
    bytes the result is the first regular file of
    `[dir(base)++name]? ++ [name] ++ [d₁/name, d₁/liblouis/tables/name, …, dₙ/name]`. -/
theorem resolve_precedence_fits (fs : FS) (table : String) (base : Option String) (sp : String)
    (ht : table ≠ "") (hf : Fits table base sp) :
    resolveSubtable fs table base sp = (candidatesU table base sp).find? (isFile fs) := by
  rw [resolve_precedence, candidates_eq_of_fits table base sp ht hf]

/-- a returned name is a candidate and is a regular file; everything tried before it is not -/
theorem resolve_some_iff (fs : FS) (table : String) (base : Option String) (sp p : String) :
    resolveSubtable fs table base sp = some p ↔
      isFile fs p = true ∧ ∃ pre post, candidates table base sp = pre ++ p :: post ∧
        ∀ c ∈ pre, isFile fs c = false := by
  rw [resolve_precedence, List.find?_eq_some_iff_append]
  constructor
  · rintro ⟨h, pre, post, he, hn⟩
    exact ⟨h, pre, post, he, fun c hc => by simpa using hn c hc⟩
  · rintro ⟨h, pre, post, he, hn⟩
    exact ⟨h, pre, post, he, fun c hc => by simp [hn c hc]⟩

/-- the empty name never resolves (4636) -/
theorem resolve_empty (fs : FS) (base : Option String) (sp : String) :
    resolveSubtable fs "" base sp = none := by
  simp [resolveSubtable]

/-! ### resolve_pure -/

theorem find?_congr_mem {α} (p q : α → Bool) (l : List α) (h : ∀ x ∈ l, p x = q x) :
    l.find? p = l.find? q := by
  induction l with
  | nil => rfl
  | cons a as ih =>
    rw [List.find?_cons, List.find?_cons, h a (by simp), ih (fun x hx => h x (by simp [hx]))]

/-- **resolve_pure.**  The result is a function of (name, base, search path) and of
    the regular-file status of the CANDIDATES only.  It rules out any dependence on:
    earlier calls or loaded tables (there is no state argument and none is needed
    to reproduce the C function — its only `static` is the `stat` buffer, overwritten
    before each use); the contents, permissions, size or time of any file; files that
    are not candidates; whether a non-matching candidate is absent or a directory. -/
theorem resolve_pure (fs₁ fs₂ : FS) (table : String) (base : Option String) (sp : String)
    (h : ∀ c ∈ candidates table base sp, isFile fs₁ c = isFile fs₂ c) :
    resolveSubtable fs₁ table base sp = resolveSubtable fs₂ table base sp := by
  rw [resolve_precedence, resolve_precedence]
  exact find?_congr_mem _ _ _ h

theorem resolveList_congr (fs₁ fs₂ : FS) (sp : String)
    (h : ∀ p, isFile fs₁ p = isFile fs₂ p) (ms : List String) (base : Option String) (first : Bool) :
    resolveList fs₁ sp ms base first = resolveList fs₂ sp ms base first := by
  induction ms generalizing base first with
  | nil => rfl
  | cons m ms ih =>
    unfold resolveList
    rw [resolve_pure fs₁ fs₂ m base sp (fun c _ => h c), ih]

/-- **resolve_pure** for the whole resolver: the answer (files and log) is a function of
    the list, the base, LOUIS_TABLEPATH, the data path, TABLESDIR and of which paths are
    regular files — of nothing else. -/
theorem resolver_pure (fs₁ fs₂ : FS) (env dp : Option String) (td list : String) (base : Option String)
    (h : ∀ p, isFile fs₁ p = isFile fs₂ p) :
    defaultTableResolver fs₁ env dp td list base = defaultTableResolver fs₂ env dp td list base := by
  unfold defaultTableResolver
  rw [resolveList_congr fs₁ fs₂ _ h]

/-! ### resolve_none_fails -/

/-- **resolve_none_fails** (single name): NULL exactly when no candidate is a regular file -/
theorem resolve_none_iff (fs : FS) (table : String) (base : Option String) (sp : String) :
    resolveSubtable fs table base sp = none ↔ ∀ c ∈ candidates table base sp, fs c ≠ FileKind.file := by
  rw [resolve_precedence, List.find?_eq_none]
  simp [isFile]

theorem resolve_none_fails (fs : FS) (table : String) (base : Option String) (sp : String)
    (h : ∀ c ∈ candidates table base sp, fs c ≠ FileKind.file) :
    resolveSubtable fs table base sp = none :=
  (resolve_none_iff fs table base sp).mpr h

/-- under `Fits`: a name present at none of the explicit candidates resolves to NULL -/
theorem resolve_none_fails_fits (fs : FS) (table : String) (base : Option String) (sp : String)
    (hf : Fits table base sp) (h : ∀ c ∈ candidatesU table base sp, fs c ≠ FileKind.file) :
    resolveSubtable fs table base sp = none := by
  by_cases ht : table = ""
  · subst ht; exact resolve_empty fs base sp
  · apply resolve_none_fails
    rw [candidates_eq_of_fits table base sp ht hf]; exact h

theorem resolveList_cons_false (fs : FS) (sp : String) (b : Option String) (m : String) (ms : List String) :
    resolveList fs sp (m :: ms) b false =
      match resolveSubtable fs m b sp with
      | none => .error m
      | some p =>
        match resolveList fs sp ms b false with
        | .ok ps => .ok (p :: ps)
        | .error e => .error e := by
  rw [resolveList]; simp only [Bool.false_eq_true, if_false]; rfl

theorem resolveList_tail_ok (fs : FS) (sp : String) (b : Option String) (ms : List String) :
    (∃ ps, resolveList fs sp ms b false = .ok ps) ↔ ∀ m ∈ ms, resolveSubtable fs m b sp ≠ none := by
  induction ms with
  | nil => simp [resolveList]
  | cons m ms ih =>
    rw [resolveList_cons_false]
    constructor
    · rintro ⟨ps, h⟩ m' hm'
      cases hm : resolveSubtable fs m b sp with
      | none => rw [hm] at h; cases h
      | some p =>
        rw [hm] at h
        cases hr : resolveList fs sp ms b false with
        | error e => rw [hr] at h; cases h
        | ok qs =>
          rcases List.mem_cons.mp hm' with rfl | h'
          · rw [hm]; exact Option.some_ne_none _
          · exact ih.mp ⟨qs, hr⟩ m' h'
    · intro h
      obtain ⟨qs, hq⟩ := ih.mpr (fun m' hm' => h m' (List.mem_cons_of_mem _ hm'))
      cases hm : resolveSubtable fs m b sp with
      | none => exact absurd hm (h m List.mem_cons_self)
      | some p => exact ⟨p :: qs, by simp [hq]⟩

theorem some_map_inj {l l' : List String} (h : l.map some = l'.map some) : l = l' :=
  (List.map_inj_right (fun _ _ h => Option.some.inj h)).mp h

theorem resolveList_tail_eq (fs : FS) (sp : String) (b : Option String) (ms ps : List String) :
    resolveList fs sp ms b false = .ok ps ↔
      ms.map (fun m => resolveSubtable fs m b sp) = ps.map some := by
  induction ms generalizing ps with
  | nil => cases ps <;> simp [resolveList]
  | cons m ms ih =>
    rw [resolveList_cons_false]
    cases hm : resolveSubtable fs m b sp with
    | none => cases ps <;> simp [hm]
    | some p =>
      cases hr : resolveList fs sp ms b false with
      | ok qs =>
        have hq := (ih qs).mp hr
        cases ps with
        | nil => simp
        | cons q ps' =>
          simp only [List.map_cons, hm, List.cons.injEq, Option.some.injEq, Except.ok.injEq]
          constructor
          · rintro ⟨rfl, rfl⟩; exact ⟨rfl, hq⟩
          · rintro ⟨rfl, h2⟩
            refine ⟨rfl, ?_⟩
            rw [hq] at h2
            exact some_map_inj h2
      | error e =>
        cases ps with
        | nil => simp
        | cons q ps' =>
          simp only [List.map_cons, hm, List.cons.injEq, Option.some.injEq, reduceCtorEq, false_iff, not_and]
          intro _ h2
          have := (ih ps').mpr h2
          rw [hr] at this; cases this

/-- **list_base_rule.**  For a list `m₀,m₁,…,mₖ` resolved with base `b` (NULL from
    lou_getTable/compileTable, the including file from `include`), the resolver
    succeeds with `p₀ … pₖ` exactly when `m₀` resolves against `b` to `p₀` and every
    later `mᵢ` resolves to `pᵢ` against **the string `m₀`** — the first member's name as
    written in the list, not `p₀`, the file it denotes. -/
theorem list_base_rule (fs : FS) (sp m₀ : String) (ms : List String) (b : Option String) (ps : List String) :
    resolveList fs sp (m₀ :: ms) b true = .ok ps ↔
      ∃ p₀ ps', ps = p₀ :: ps' ∧ resolveSubtable fs m₀ b sp = some p₀ ∧
        ms.map (fun m => resolveSubtable fs m (some m₀) sp) = ps'.map some := by
  unfold resolveList
  cases hm : resolveSubtable fs m₀ b sp with
  | none => simp
  | some p =>
    simp only [if_true]
    cases hr : resolveList fs sp ms (some m₀) false with
    | ok qs =>
      have := (resolveList_tail_eq fs sp (some m₀) ms qs).mp hr
      constructor
      · intro h; cases h; exact ⟨p, qs, rfl, rfl, this⟩
      · rintro ⟨p₀, ps', rfl, hp, h2⟩
        cases hp
        rw [this] at h2
        have : qs = ps' := some_map_inj h2
        rw [this]
    | error e =>
      constructor
      · intro h; cases h
      · rintro ⟨p₀, ps', rfl, _, h2⟩
        have := (resolveList_tail_eq fs sp (some m₀) ms ps').mpr h2
        rw [hr] at this; cases this

theorem entries_ne_nil (s : String) : entries s ≠ [] := by simp [entries, fieldsL]

/-- **resolve_none_fails** (list): the resolver returns NULL as a whole — no partial
    list — exactly when SOME member does not resolve (the first against the given
    base, the others against the first member's name); and then it has logged at least
    one message at level ERROR, while on success it logs nothing at INFO or above. -/
theorem resolver_fails_iff (fs : FS) (env dp : Option String) (td list : String) (base : Option String) :
    (defaultTableResolver fs env dp td list base).files = none ↔
      ∃ m₀ ms, entries list = m₀ :: ms ∧
        (resolveSubtable fs m₀ base (getTablePath env dp td) = none ∨
         ∃ m ∈ ms, resolveSubtable fs m (some m₀) (getTablePath env dp td) = none) := by
  unfold defaultTableResolver
  cases he : entries list with
  | nil => exact absurd he (entries_ne_nil list)
  | cons m₀ ms =>
    generalize getTablePath env dp td = sp
    unfold resolveList
    cases hm : resolveSubtable fs m₀ base sp with
    | none => simp only [true_iff]; exact ⟨m₀, ms, rfl, Or.inl hm⟩
    | some p =>
      simp only [if_true]
      cases hr : resolveList fs sp ms (some m₀) false with
      | ok qs =>
        have := (resolveList_tail_ok fs sp (some m₀) ms).mp ⟨qs, hr⟩
        simp only [reduceCtorEq, false_iff]
        rintro ⟨m, ms', hcons, h⟩
        cases hcons
        rcases h with h | ⟨m', hm', h'⟩
        · rw [hm] at h; cases h
        · exact this m' hm' h'
      | error e =>
        simp only [true_iff]
        refine ⟨m₀, ms, rfl, Or.inr ?_⟩
        apply Classical.byContradiction
        intro hcon
        have : ∀ m ∈ ms, resolveSubtable fs m (some m₀) sp ≠ none := fun m hm' hn => hcon ⟨m, hm', hn⟩
        obtain ⟨ps, hps⟩ := (resolveList_tail_ok fs sp (some m₀) ms).mpr this
        rw [hr] at hps; cases hps

theorem resolver_fail_logs_error (fs : FS) (env dp : Option String) (td list : String) (base : Option String)
    (h : (defaultTableResolver fs env dp td list base).files = none) :
    ∃ m ∈ (defaultTableResolver fs env dp td list base).log, m.1 = LOG_ERROR := by
  unfold defaultTableResolver at *
  cases hr : resolveList fs (getTablePath env dp td) (entries list) base true with
  | ok ps => rw [hr] at h; cases h
  | error m => exact ⟨_, List.mem_cons_self, rfl⟩

theorem resolver_ok_logs_nothing (fs : FS) (env dp : Option String) (td list : String) (base : Option String)
    (ps : List String) (h : (defaultTableResolver fs env dp td list base).files = some ps) :
    (defaultTableResolver fs env dp td list base).log = [] ∧ ps.length = (entries list).length := by
  unfold defaultTableResolver at *
  cases hr : resolveList fs (getTablePath env dp td) (entries list) base true with
  | ok qs =>
    rw [hr] at h
    simp only [Option.some.injEq] at h
    subst h
    refine ⟨rfl, ?_⟩
    cases he : entries list with
    | nil => exact absurd he (entries_ne_nil list)
    | cons m₀ ms =>
      rw [he] at hr
      obtain ⟨p₀, ps', rfl, _, h2⟩ := (list_base_rule fs _ m₀ ms base qs).mp hr
      have := congrArg List.length h2
      simp only [List.length_map] at this
      simp [this]
  | error m => rw [hr] at h; cases h

/-- an unresolved `include` never compiles a file (the caller does `errorCount++; return 0`) -/
theorem include_unresolved (fs : FS) (env dp : Option String) (td inc file : String)
    (h : (resolveTable fs env dp td inc (some file)).files = none) :
    (includeResolve fs env dp td inc file).1 = IncludeOutcome.unresolved := by
  unfold includeResolve
  simp only [h]

/-! ### searchpath_order -/

theorem splitL_append_sep (sep : Char) (a b : List Char) :
    splitL sep (a ++ sep :: b) =
      ((splitL sep a).1, (splitL sep a).2 ++ (splitL sep b).1 :: (splitL sep b).2) := by
  induction a with
  | nil => simp [splitL]
  | cons x xs ih =>
    simp only [List.cons_append, splitL, ih]
    by_cases hx : x = sep <;> simp [hx]

theorem fieldsL_append_sep (sep : Char) (a b : List Char) :
    fieldsL sep (a ++ sep :: b) = fieldsL sep a ++ fieldsL sep b := by
  simp [fieldsL, splitL_append_sep]

theorem entries_append_comma (a b : String) :
    entries (a ++ "," ++ b) = entries a ++ entries b := by
  have : (a ++ "," ++ b).toList = a.toList ++ ',' :: b.toList := by
    simp [String.toList_append]
  simp [entries, this, fieldsL_append_sep]

theorem entries_intercalate (p : String) (ps : List String) :
    entries (",".intercalate (p :: ps)) = (p :: ps).flatMap entries := by
  induction ps generalizing p with
  | nil =>
    have : ",".intercalate [p] = p := by
      apply String.toList_inj.mp
      simp
    simp [this]
  | cons q qs ih =>
    have : ",".intercalate (p :: q :: qs) = p ++ "," ++ ",".intercalate (q :: qs) := by
      apply String.toList_inj.mp
      simp [String.toList_intercalate, String.toList_append]
    rw [this, entries_append_comma, ih]
    simp [List.flatMap_cons]

theorem searchParts_ne_nil (env dp : Option String) (td : String) : searchParts env dp td ≠ [] := by
  unfold searchParts
  cases nonEmpty? env <;> simp

/-- **searchpath_entries.**  The directories `resolveSubtable` walks are the
    comma-separated fields of the parts `_lou_getTablePath` wrote, in order of writing. -/
theorem searchpath_entries (env dp : Option String) (td : String) :
    entries (getTablePath env dp td) = (searchParts env dp td).flatMap entries := by
  unfold getTablePath
  cases h : searchParts env dp td with
  | nil => exact absurd h (searchParts_ne_nil env dp td)
  | cons p ps => exact entries_intercalate p ps

/-- **searchpath_order.**  `_lou_getTablePath` lists: first the LOUIS_TABLEPATH
    directories in the order listed (when the variable is set and not empty); then
    `<dataPath>/liblouis/tables` (when a non-empty data path was set with
    lou_setDataPath); then the built-in TABLESDIR — **only when LOUIS_TABLEPATH is unset
    or empty**.  Nothing else, and never an empty search path. -/
theorem searchpath_order (env dp : Option String) (td : String) :
    entries (getTablePath env dp td) =
      (match nonEmpty? env with | some e => entries e | none => []) ++
      (match nonEmpty? dp with | some d => entries (d ++ "/liblouis/tables") | none => []) ++
      (match nonEmpty? env with | some _ => [] | none => entries td) := by
  rw [searchpath_entries]
  unfold searchParts
  cases nonEmpty? env <;> cases nonEmpty? dp <;> simp [List.flatMap_cons]

/-- the four shapes of the search path string itself -/
theorem getTablePath_cases (e d td : String) (he : e ≠ "") (hd : d ≠ "") :
    getTablePath (some e) none td = e ∧
    getTablePath (some e) (some d) td = e ++ "," ++ (d ++ "/liblouis/tables") ∧
    getTablePath none (some d) td = (d ++ "/liblouis/tables") ++ "," ++ td ∧
    getTablePath none none td = td ∧
    getTablePath (some "") none td = td := by
  have h1 : ∀ a b : String, ",".intercalate [a, b] = a ++ "," ++ b := by
    intro a b
    apply String.toList_inj.mp
    simp [String.toList_append]
  have h0 : ∀ a : String, ",".intercalate [a] = a := by
    intro a
    apply String.toList_inj.mp
    simp
  simp [getTablePath, searchParts, nonEmpty?, he, hd, h1, h0]

/-! ### the three precedence clauses of the property text -/

/-- **(1) a match relative to the including file's directory wins** over everything
    else, whatever else exists: the name as given, any search-path directory. -/
theorem base_dir_wins (fs : FS) (table b sp : String) (ht : table ≠ "")
    (hb : strlen b < MAX_TABLEFILE_SIZE) (hl : strlen (dirPrefix b) + strlen table < MAX_TABLEFILE_SIZE)
    (h : fs (dirPrefix b ++ table) = FileKind.file) :
    resolveSubtable fs table (some b) sp = some (dirPrefix b ++ table) := by
  unfold resolveSubtable
  rw [if_neg ht]
  simp only
  rw [if_neg (by omega), if_neg (by omega), if_pos (by simp [isFile, h])]

/-- what "tried and not matched relative to the base" means -/
def BaseMiss (fs : FS) (table : String) (base : Option String) : Prop :=
  ∀ b, base = some b → strlen b < MAX_TABLEFILE_SIZE ∧
    strlen (dirPrefix b) + strlen table < MAX_TABLEFILE_SIZE ∧ fs (dirPrefix b ++ table) ≠ FileKind.file

theorem resolve_of_baseMiss (fs : FS) (table : String) (base : Option String) (sp : String)
    (ht : table ≠ "") (hb : BaseMiss fs table base) :
    resolveSubtable fs table base sp = resolveTail fs table sp := by
  unfold resolveSubtable
  rw [if_neg ht]
  cases base with
  | none => rfl
  | some b =>
    obtain ⟨h1, h2, h3⟩ := hb b rfl
    simp only
    rw [if_neg (by omega), if_neg (by omega), if_neg (by simp [isFile, h3])]

/-- **(2) the name as given** (absolute, or relative to the working directory — `fs`
    is applied to the very string) **wins over every search-path directory** when
    there is no match relative to the base. -/
theorem as_given_wins (fs : FS) (table : String) (base : Option String) (sp : String)
    (ht : table ≠ "") (hl : strlen table < MAX_TABLEFILE_SIZE) (hb : BaseMiss fs table base)
    (h : fs table = FileKind.file) :
    resolveSubtable fs table base sp = some table := by
  rw [resolve_of_baseMiss fs table base sp ht hb]
  unfold resolveTail
  rw [if_neg (by omega), if_pos (by simp [isFile, h])]

/-- both variants of a non-last entry were tried (lengths fine) and are not regular files -/
def EntryMiss (fs : FS) (table e : String) : Prop :=
  strlen (cand2 table e) < MAX_TABLEFILE_SIZE ∧
  fs (cand1 table e) ≠ FileKind.file ∧ fs (cand2 table e) ≠ FileKind.file

theorem searchLoop_skip (fs : FS) (table : String) (pre : List String) (e : String) (post : List String)
    (hpre : ∀ d ∈ pre, EntryMiss fs table d) :
    searchLoop fs table (pre ++ e :: post) = searchLoop fs table (e :: post) := by
  induction pre with
  | nil => rfl
  | cons d ds ih =>
    obtain ⟨h1, h2, h3⟩ := hpre d (by simp)
    rw [strlen_cand2] at h1
    have hne : ∃ x xs, ds ++ e :: post = x :: xs := by cases ds <;> simp
    obtain ⟨x, xs, hx⟩ := hne
    rw [List.cons_append, hx]
    unfold searchLoop
    rw [if_neg (by omega), if_neg (by simp [isFile, h2])]
    simp only
    rw [if_neg (by omega), if_neg (by simp [isFile, h3]), ← hx]
    exact ih (fun d' hd' => hpre d' (by simp [hd']))

/-- **(3) search-path directories in listed order.**  With no match relative to the
    base and none for the name as given, the entry `e` of the search path wins if
    `e/name` is a regular file and, for every entry listed BEFORE it, neither
    `d/name` nor `d/liblouis/tables/name` is.  What comes after `e` is irrelevant. -/
theorem path_order (fs : FS) (table : String) (base : Option String) (sp : String)
    (pre : List String) (e : String) (post : List String)
    (ht : table ≠ "") (hl : strlen table < MAX_TABLEFILE_SIZE) (hb : BaseMiss fs table base)
    (hg : fs table ≠ FileKind.file) (hs : sp ≠ "")
    (he : entries sp = pre ++ e :: post) (hpre : ∀ d ∈ pre, EntryMiss fs table d)
    (hle : strlen (cand1 table e) < MAX_TABLEFILE_SIZE) (h : fs (cand1 table e) = FileKind.file) :
    resolveSubtable fs table base sp = some (cand1 table e) := by
  rw [resolve_of_baseMiss fs table base sp ht hb]
  unfold resolveTail
  rw [if_neg (by omega), if_neg (by simp [isFile, hg]), if_neg hs, he,
    searchLoop_skip fs table pre e post hpre]
  rw [strlen_cand1] at hle
  unfold searchLoop
  rw [if_neg (by omega), if_pos (by simp [isFile, h])]

/-- (3′) the `liblouis/tables` variant of an entry that is NOT the last one ranks
    directly after the entry itself and before every later entry -/
theorem path_order_variant (fs : FS) (table : String) (base : Option String) (sp : String)
    (pre : List String) (e e' : String) (post : List String)
    (ht : table ≠ "") (hl : strlen table < MAX_TABLEFILE_SIZE) (hb : BaseMiss fs table base)
    (hg : fs table ≠ FileKind.file) (hs : sp ≠ "")
    (he : entries sp = pre ++ e :: e' :: post) (hpre : ∀ d ∈ pre, EntryMiss fs table d)
    (hle : strlen (cand2 table e) < MAX_TABLEFILE_SIZE)
    (h1 : fs (cand1 table e) ≠ FileKind.file) (h : fs (cand2 table e) = FileKind.file) :
    resolveSubtable fs table base sp = some (cand2 table e) := by
  rw [resolve_of_baseMiss fs table base sp ht hb]
  unfold resolveTail
  rw [if_neg (by omega), if_neg (by simp [isFile, hg]), if_neg hs, he,
    searchLoop_skip fs table pre e (e' :: post) hpre]
  rw [strlen_cand2] at hle
  unfold searchLoop
  rw [if_neg (by omega), if_neg (by simp [isFile, h1])]
  simp only
  rw [if_neg (by omega), if_pos (by simp [isFile, h])]

/-- LOUIS_TABLEPATH directories come before the data path and before nothing else:
    the property's "LOUIS_TABLEPATH directories in listed order", end to end through
    `_lou_getTablePath` -/
theorem tablepath_dirs_first (env : String) (dp : Option String) (td : String) (henv : env ≠ "") :
    ∃ rest, entries (getTablePath (some env) dp td) = entries env ++ rest := by
  rw [searchpath_order]
  simp only [nonEmpty?, henv, if_false, List.append_nil]
  exact ⟨_, rfl⟩

/-! ### the directory of the base -/

theorem dirPrefixL_append_sep (d f : List Char) (hf : f.any isSep = false) :
    dirPrefixL (d ++ '/' :: f) = d ++ ['/'] := by
  induction d with
  | nil => simp [dirPrefixL, hf, isSep]
  | cons c cs ih =>
    have : (cs ++ '/' :: f).any isSep = true := by simp [isSep]
    simp [dirPrefixL, this, ih]

/-- the "including file's directory": for a base `d/f` with no separator in `f` the
    candidate is `d/` ++ name -/
theorem dirPrefix_dir_file (d f : String) (hf : f.toList.any isSep = false) :
    dirPrefix (d ++ "/" ++ f) = d ++ "/" := by
  apply String.toList_inj.mp
  have : (d ++ "/" ++ f).toList = d.toList ++ '/' :: f.toList := by simp [String.toList_append]
  simp [dirPrefix, this, dirPrefixL_append_sep _ _ hf, String.toList_append]

/-- a base without any separator has the empty directory: the candidate relative to
    it is the name as given (this is what happens to the 2nd… members of a list whose
    first member is a plain name found on the search path) -/
theorem dirPrefix_plain (f : String) (hf : f.toList.any isSep = false) : dirPrefix f = "" := by
  apply String.toList_inj.mp
  have : ∀ l : List Char, l.any isSep = false → dirPrefixL l = [] := by
    intro l hl
    cases l with
    | nil => rfl
    | cons c cs =>
      simp only [List.any_cons, Bool.or_eq_false_iff] at hl
      simp [dirPrefixL, hl.1, hl.2]
  simp [dirPrefix, this _ hf]

/-! ### the negation of the unrestricted statement, and non-vacuity -/

/-- a file system given by the list of its regular files and of its directories -/
def fsOf (files dirs : List String) : FS := fun p =>
  if p ∈ files then .file else if p ∈ dirs then .dir else .none

/-- **overflow_hides_later_candidate.**  (P) without `Fits` is false: if the first
    search-path entry is so long that `dir/name` reaches 4096 bytes, resolution is
    abandoned although the name exists in the second entry. -/
theorem overflow_hides_later_candidate (fs : FS) (table e₁ e₂ : String) (rest : List String)
    (ht : table ≠ "") (hl : strlen table < MAX_TABLEFILE_SIZE) (hg : fs table ≠ FileKind.file)
    (hlong : strlen (dirOf e₁) + strlen table + 1 ≥ MAX_TABLEFILE_SIZE)
    (sp : String) (hs : sp ≠ "") (he : entries sp = e₁ :: e₂ :: rest) :
    resolveSubtable fs table none sp = none ∧ cand1 table e₂ ∈ candidatesU table none sp := by
  constructor
  · unfold resolveSubtable resolveTail
    rw [if_neg ht]
    simp only
    rw [if_neg (by omega), if_neg (by simp [isFile, hg]), if_neg hs, he]
    unfold searchLoop
    rw [if_pos hlong]
  · simp only [candidatesU, hs, if_false, he]
    cases rest <;> simp [pathCandsU]

-- non-vacuity: the three clauses, the variant rule, the last-entry rule, directories are skipped
example : resolveSubtable (fsOf ["/d/x", "x", "/p1/x", "/p2/x"] []) "x" (some "/d/main.ctb") "/p1,/p2" = some "/d/x" := by decide
example : resolveSubtable (fsOf ["x", "/p1/x", "/p2/x"] ["/d/x"]) "x" (some "/d/main.ctb") "/p1,/p2" = some "x" := by decide
example : resolveSubtable (fsOf ["/p1/x", "/p2/x"] []) "x" (some "/d/main.ctb") "/p1,/p2" = some "/p1/x" := by decide
example : resolveSubtable (fsOf ["/p1/liblouis/tables/x", "/p2/x"] []) "x" (some "/d/main.ctb") "/p1,/p2" = some "/p1/liblouis/tables/x" := by decide
example : resolveSubtable (fsOf ["/p2/x"] []) "x" (some "/d/main.ctb") "/p1,/p2" = some "/p2/x" := by decide
/-- the last entry has no `liblouis/tables` variant -/
example : resolveSubtable (fsOf ["/p2/liblouis/tables/x"] []) "x" (some "/d/main.ctb") "/p1,/p2" = none := by decide
/-- an absolute name is still first tried *below* the base directory, by plain concatenation -/
example : resolveSubtable (fsOf ["/d//abs/x", "/abs/x"] []) "/abs/x" (some "/d/main.ctb") "/p1" = some "/d//abs/x" := by decide
/-- backslash ends the base directory too -/
example : dirPrefix "d\\main.ctb" = "d\\" := by decide
/-- an empty entry is "." -/
example : candidatesU "x" none "/p1,,/p2" = ["x", "/p1/x", "/p1/liblouis/tables/x", "./x", "./liblouis/tables/x", "/p2/x"] := by decide
example : candidates "x" (some "/d/m") "/p1,/p2" = ["/d/x", "x", "/p1/x", "/p1/liblouis/tables/x", "/p2/x"] := by decide
example : Fits "x" (some "/d/m") "/p1,/p2" := by
  refine ⟨fun b hb => ?_, fun c hc => ?_⟩
  · cases hb; decide
  · have : candidatesU "x" (some "/d/m") "/p1,/p2" = ["/d/x", "x", "/p1/x", "/p1/liblouis/tables/x", "/p2/x"] := by decide
    rw [this] at hc
    simp only [List.mem_cons, List.not_mem_nil, or_false] at hc
    rcases hc with rfl | rfl | rfl | rfl | rfl <;> decide
/-- list: the second member is looked up beside the first member's NAME, not beside the file found for it -/
example : (defaultTableResolver (fsOf ["/p1/main.ctb", "/p1/x", "x"] []) (some "/p1") none "/td" "main.ctb,x" none).files
    = some ["/p1/main.ctb", "x"] := by decide
example : (defaultTableResolver (fsOf ["/d/main.ctb", "/d/x", "x"] []) (some "/p1") none "/td" "/d/main.ctb,x" none).files
    = some ["/d/main.ctb", "/d/x"] := by decide
/-- one missing member fails the whole list, with two ERROR messages when LOUIS_TABLEPATH is set -/
example : defaultTableResolver (fsOf ["/d/main.ctb"] []) (some "/p1") none "/td" "/d/main.ctb,x" none
    = { files := none, log := [(LOG_ERROR, "Cannot resolve table 'x'"), (LOG_ERROR, "LOUIS_TABLEPATH=/p1")] } := by decide
example : getTablePath (some "/p1,/p2") (some "/dp") "/td" = "/p1,/p2,/dp/liblouis/tables" := by decide
example : getTablePath none (some "/dp") "/td" = "/dp/liblouis/tables,/td" := by decide

end Lou.C20
