/-
  BackCOK.lean — the backward main pass with context rules (`BackC.translateC`) satisfies the clauses E1/E3 of the
  backward engine contract: output within the capacity, consumed length within the input.
-/
import LouModel.BackwardCtx
import LouProofs.BackOK
import LouProofs.C06Pass

namespace Lou.BackCOK
open Lou Lou.Gen Lou.Back Lou.BackC Lou.BackOK Lou.Pass Lou.C06Pass

theorem copyChars_cap (t : Table) (mode : Nat) (input : List Nat) (max : Nat) :
    ∀ (k : Nat) (frm to : Int) (o : Out), o.chars.length ≤ max →
      (copyChars t mode input max k frm to o).1.chars.length ≤ max := by
  intro k
  induction k with
  | zero => intro frm to o ho; simpa [copyChars] using ho
  | succ k ih =>
    intro frm to o ho
    unfold copyChars
    split
    · cases hp : putCharacter t mode (Pass.elem input frm) frm.toNat input max o with
      | none => simpa using ho
      | some o' => simp only []; exact ih _ _ _ (putCharacter_cap _ _ _ _ _ _ _ _ ho hp).1
    · simpa using ho

theorem moveOut_cap (o : Out) (dsm dsr max : Nat) (ho : o.chars.length ≤ max) : (moveOut o dsm dsr).chars.length ≤ max := by
  unfold moveOut
  simp only [List.length_take, List.length_append, List.length_drop]
  omega

def ActCOK (n max : Nat) (m : Pass.Match) : ActC → Prop
  | .unsupported => True
  | .fail o' _ => o'.chars.length ≤ max
  | .ok o' np' _ => o'.chars.length ≤ max ∧ (np' = m.endReplace ∨ np' = m.endMatch)

theorem actLoopC_ok (t : Table) (mode : Nat) (p input : List Nat) (m : Pass.Match) (n max dsm : Nat) :
    ∀ (fuel ic : Nat) (o : Out) (dsr : Nat) (np : Int) (vars : List Nat),
      o.chars.length ≤ max → (np = m.endReplace ∨ np = m.endMatch) →
      ActCOK n max m (actLoopC t mode p input m max dsm fuel ic o dsr np vars) := by
  intro fuel
  induction fuel with
  | zero => intro ic o dsr np vars _ _; simp [actLoopC, ActCOK]
  | succ f ih =>
    intro ic o dsr np vars ho hnp
    unfold actLoopC
    by_cases hend : ic ≥ p.length
    · simp only [hend, ↓reduceIte]; exact ⟨ho, hnp⟩
    · simp only [hend, ↓reduceIte]
      by_cases hlit : (Pass.ins p ic == pass_string || Pass.ins p ic == pass_dots) = true
      · simp only [hlit, ↓reduceIte]
        by_cases hcap : o.chars.length + Pass.ins p (ic + 1) > max
        · simp only [hcap, ↓reduceIte]; exact ho
        · simp only [hcap, ↓reduceIte]
          have hl : (Pass.literal p ic).length ≤ Pass.ins p (ic + 1) := by
            unfold Pass.literal; simp only [List.length_take]; omega
          apply ih _ _ _ _ _ _ hnp
          simp only [List.length_append]; omega
      · simp only [hlit, Bool.false_eq_true, ↓reduceIte]
        by_cases hom : (Pass.ins p ic == pass_omit) = true
        · simp only [hom, ↓reduceIte]; exact ih _ _ _ _ _ ho hnp
        · simp only [hom, Bool.false_eq_true, ↓reduceIte]
          by_cases hcp : (Pass.ins p ic == pass_copy) = true
          · simp only [hcp, ↓reduceIte]
            by_cases hguard : (decide (dsr - dsm > 0) && decide (dsr + (dsr - dsm) > max)) = true
            · simp only [hguard, ↓reduceIte]; exact ho
            simp only [hguard, Bool.false_eq_true, ↓reduceIte]
            have ho1 : (if dsr - dsm > 0 then moveOut o dsm dsr else o).chars.length ≤ max := by
              split
              · exact moveOut_cap o dsm dsr max ho
              · exact ho
            have hc := copyChars_cap t mode input max (m.endReplace - m.startReplace).toNat m.startReplace m.endReplace _ ho1
            generalize copyChars t mode input max (m.endReplace - m.startReplace).toNat m.startReplace m.endReplace
              (if dsr - dsm > 0 then moveOut o dsm dsr else o) = cr at hc
            obtain ⟨o2, b⟩ := cr
            cases b
            · exact hc
            · exact ih _ _ _ _ _ hc (Or.inr rfl)
          · simp only [hcp, Bool.false_eq_true, ↓reduceIte]
            cases hv : Pass.varAction p ic vars with
            | none => simp [ActCOK]
            | some vl => exact ih _ _ _ _ _ ho hnp

theorem actionC_ok (t : Table) (mode : Nat) (p input : List Nat) (m : Pass.Match) (ic n max : Nat) (o : Out) (vars : List Nat)
    (ho : o.chars.length ≤ max) : ActCOK n max m (actionC t mode p input m ic max o vars) := by
  unfold actionC
  have hc := copyChars_cap t mode input max (m.startReplace - m.startMatch).toNat m.startMatch m.startReplace o ho
  generalize copyChars t mode input max (m.startReplace - m.startMatch).toNat m.startMatch m.startReplace o = cr at hc
  obtain ⟨o1, b⟩ := cr
  cases b
  · exact hc
  · exact actLoopC_ok t mode p input m n max o.chars.length _ _ _ _ _ _ hc (Or.inl rfl)


/-! ### selection -/

theorem walkChainC_props (t : Table) (mode : Nat) (ctx : Back.Ctx) (input : List Nat) (pos length before prevOp : Nat) (vars : List Nat) :
    ∀ (chain : List Nat) (s : SelC), walkChainC t mode ctx input pos length before prevOp vars chain = some s →
      s.sel.dotslen ≤ length ∧ ∀ r m ic, s.ctx = some (r, m, ic) → MatchOKB input.length pos m := by
  intro chain
  induction chain with
  | nil => intro s h; simp [walkChainC] at h
  | cons i rest ih =>
    intro s h
    unfold walkChainC at h
    split at h
    · cases h
    · rename_i r hr
      split at h
      · simp only [] at h
        split at h
        · rename_i hc
          simp only [Bool.and_eq_true, decide_eq_true_eq] at hc
          split at h
          · cases h; exact ⟨hc.1, fun r' m ic hx => by cases hx⟩
          · rename_i m ic ht
            cases h
            refine ⟨hc.1, ?_⟩
            intro r' m' ic' hx
            simp only [Option.some.injEq, Prod.mk.injEq] at hx
            obtain ⟨-, rfl, -⟩ := hx
            exact backTest_bounds _ _ _ _ (by omega) _ _ _ ht
          · exact ih s h
        · exact ih s h
      · simp only [] at h
        split at h
        · rename_i hc
          cases h
          simp only [Bool.and_eq_true, decide_eq_true_eq] at hc
          exact ⟨hc.1.1.1, fun r' m ic hx => by cases hx⟩
        · exact ih s h

theorem selectRuleC_props (t : Table) (mode : Nat) (ctx : Back.Ctx) (input : List Nat) (pos before prevOp : Nat) (vars : List Nat)
    (hp : pos < input.length) :
    (selectRuleC t mode ctx input pos before prevOp vars).sel.dotslen ≤ input.length - pos ∧
    ∀ r m ic, (selectRuleC t mode ctx input pos before prevOp vars).ctx = some (r, m, ic) → MatchOKB input.length pos m := by
  unfold selectRuleC
  simp only []
  split
  · rename_i s hs
    split at hs
    · cases hs
    · exact walkChainC_props _ _ _ _ _ _ _ _ _ _ _ hs
  · split
    · rename_i s hs
      split at hs
      · have := walkChainC_props _ _ _ _ _ _ _ _ _ _ _ hs
        exact ⟨by have := this.1; omega, this.2⟩
      · cases hs
    · exact ⟨by simp only []; omega, fun r m ic hx => by cases hx⟩

/-! ### the pieces of an iteration -/

theorem emitPlain_ok (t : Table) (mode : Nat) (input : List Nat) (max : Nat) (sel : Back.Sel) (st : St) (p' : Nat) (o' : Out)
    (h1 : st.out.chars.length ≤ max) (hp : st.pos < input.length) (hd : sel.dotslen ≤ input.length - st.pos)
    (h : emitPlain t mode input max sel st = some (p', o')) : o'.chars.length ≤ max ∧ p' ≤ input.length := by
  unfold emitPlain at h
  split at h
  · cases hu : undefinedDots (inAt input st.pos) mode st.pos max st.out with
    | none => simp [hu] at h
    | some o1 =>
      simp only [hu, Option.map_some, Option.some.injEq, Prod.mk.injEq] at h
      obtain ⟨rfl, rfl⟩ := h
      exact ⟨(undefinedDots_cap _ _ _ _ _ _ h1 hu).1, by omega⟩
  · split at h
    · cases h
    · rename_i r hr
      split at h
      · cases hu : updatePositions r.chars r.dots.length st.pos input max st.out with
        | none => simp [hu] at h
        | some o1 =>
          simp only [hu, Option.map_some, Option.some.injEq, Prod.mk.injEq] at h
          obtain ⟨rfl, rfl⟩ := h
          exact ⟨(updatePositions_cap _ _ _ _ _ _ _ hu).1, by omega⟩
      · obtain ⟨a, -, c⟩ := each_cap t mode input max _ _ _ _ _ h1 h
        exact ⟨a, by omega⟩

theorem replC_ok (t : Table) (mode : Nat) (input : List Nat) (max : Nat) (s : SelC) (st : St) (vars : List Nat)
    (p' : Nat) (o' : Out) (vars1 : List Nat)
    (h1 : st.out.chars.length ≤ max) (hp : st.pos < input.length) (hd : s.sel.dotslen ≤ input.length - st.pos)
    (hm : ∀ r m ic, s.ctx = some (r, m, ic) → MatchOKB input.length st.pos m)
    (h : (replC t mode input max s st vars).1 = some (p', o', vars1)) : o'.chars.length ≤ max ∧ p' ≤ input.length := by
  unfold replC at h
  split at h
  · rename_i r m ic hctx
    have hmm := hm r m ic hctx
    have ha := actionC_ok t mode r.dots input m ic input.length max st.out vars h1
    obtain ⟨m0, m1, m2, m3, m4, m5, m6⟩ := hmm
    split at h
    · cases h
    · cases h
    · rename_i o1 np vs hact
      rw [hact] at ha
      simp only [Option.some.injEq, Prod.mk.injEq] at h
      obtain ⟨rfl, rfl, -⟩ := h
      refine ⟨ha.1, ?_⟩
      rcases ha.2 with rfl | rfl <;> omega
  · cases he : emitPlain t mode input max s.sel st with
    | none => simp [he] at h
    | some x =>
      obtain ⟨q, o1⟩ := x
      simp only [he, Option.map_some, Option.some.injEq, Prod.mk.injEq] at h
      obtain ⟨rfl, rfl, -⟩ := h
      exact emitPlain_ok t mode input max s.sel st _ _ h1 hp hd he

theorem afterC_ok (t : Table) (mode : Nat) (input : List Nat) (max : Nat) (p' : Nat) (o' : Out) (vars1 : List Nat)
    (p2 : Nat) (o2 : Out) (vars2 : List Nat) (op2 : Nat)
    (h1 : o'.chars.length ≤ max) (hp : p' ≤ input.length)
    (h : afterC t mode input max p' o' vars1 = some (p2, o2, vars2, op2)) : o2.chars.length ≤ max ∧ p2 ≤ input.length := by
  unfold afterC at h
  split at h
  · cases h
  · rename_i r m ic hsel
    obtain ⟨_, _, _, _, ht, _⟩ := select_first _ _ _ _ _ _ _ _ _ hsel
    simp only [testOf, ↓reduceIte] at ht
    obtain ⟨m0, m1, m2, m3, m4, m5, m6⟩ := backTest_bounds _ _ _ _ (by omega) _ _ _ ht
    have ha := actionC_ok t mode r.dots input m ic input.length max o' vars1 h1
    split at h
    · cases h
    · rename_i o'' vs hact
      rw [hact] at ha
      simp only [Option.some.injEq, Prod.mk.injEq] at h
      obtain ⟨rfl, rfl, -, -⟩ := h
      exact ⟨ha, hp⟩
    · rename_i o'' np vs hact
      rw [hact] at ha
      simp only [Option.some.injEq, Prod.mk.injEq] at h
      obtain ⟨rfl, rfl, -, -⟩ := h
      refine ⟨ha.1, ?_⟩
      rcases ha.2 with rfl | rfl <;> omega
  · simp only [Option.some.injEq, Prod.mk.injEq] at h
    obtain ⟨rfl, rfl, -, -⟩ := h
    exact ⟨h1, hp⟩

def StInvC (n max : Nat) (sc : StC) : Prop := sc.st.out.chars.length ≤ max ∧ sc.st.pos ≤ n ∧ sc.st.srcword ≤ n

theorem finishC_inv (t : Table) (input : List Nat) (st : St) (p2 : Nat) (o2 : Out) (op2 max : Nat)
    (h1 : o2.chars.length ≤ max) (hp : p2 ≤ input.length) (hs : st.srcword ≤ input.length) :
    (finishC t input st p2 o2 op2).out.chars.length ≤ max ∧ (finishC t input st p2 o2 op2).pos ≤ input.length ∧
    (finishC t input st p2 o2 op2).srcword ≤ input.length := by
  unfold finishC
  simp only []
  split <;> exact ⟨h1, hp, by first | exact hp | exact hs⟩

theorem stepC_ok (t : Table) (mode : Nat) (input : List Nat) (max : Nat) (sc : StC)
    (h : StInvC input.length max sc) (hp : sc.st.pos < input.length) :
    StInvC input.length max (stepC t mode input max sc).1 := by
  obtain ⟨h1, h2, h3⟩ := h
  unfold stepC
  simp only []
  have hsp := selectRuleC_props t mode (headCtx t sc.st) input sc.st.pos (beforeAttrs t sc.st.out) sc.st.prevOp sc.vars hp
  generalize selectRuleC t mode (headCtx t sc.st) input sc.st.pos (beforeAttrs t sc.st.out) sc.st.prevOp sc.vars = s at hsp
  split
  · exact ⟨h1, h2, h3⟩
  · split
    · exact ⟨h1, by show sc.st.pos + s.sel.dotslen ≤ _; have := hsp.1; omega, h3⟩
    · split
      · exact ⟨h1, h2, h3⟩
      · split
        · exact ⟨h1, h2, h3⟩
        · split
          · exact ⟨h1, h2, h3⟩
          · rename_i p' o' vars1 hrepl
            have hr := replC_ok t mode input max s _ sc.vars p' o' vars1 h1 hp hsp.1 hsp.2 hrepl
            split
            · exact ⟨h1, h2, h3⟩
            · rename_i p2 o2 vars2 op2 haft
              have ha := afterC_ok t mode input max p' o' vars1 p2 o2 vars2 op2 hr.1 hr.2 haft
              exact finishC_inv t input _ p2 o2 op2 max ha.1 ha.2 h3

theorem loopC_ok (t : Table) (mode : Nat) (input : List Nat) (max : Nat) :
    ∀ (fuel : Nat) (sc : StC), StInvC input.length max sc → StInvC input.length max (loopC t mode input max fuel sc).1 := by
  intro fuel
  induction fuel with
  | zero => intro sc h; exact h
  | succ f ih =>
    intro sc h
    unfold loopC
    split
    · rename_i hlt
      have hs := stepC_ok t mode input max sc h hlt
      generalize stepC t mode input max sc = r at hs
      obtain ⟨sc', done⟩ := r
      simp only []
      split
      · exact hs
      · exact ih sc' hs
    · exact h

/-- **translateC_contract** (backward): output within the capacity, consumed length within the input -/
theorem translateC_contract (t : Table) (mode : Nat) (input : List Nat) (max : Nat) (cpos : Int) (r : PassResult)
    (h : translateC t mode input max cpos = .done r) : r.out.length ≤ max ∧ r.realInlen ≤ input.length := by
  have hinv := loopC_ok t mode input max (4 * input.length + 4) { st := { out := { cpos := cpos, cstat := 0 } } }
    ⟨Nat.zero_le _, Nat.zero_le _, Nat.zero_le _⟩
  unfold translateC at h
  generalize loopC t mode input max (4 * input.length + 4) { st := { out := { cpos := cpos, cstat := 0 } } } = lr at hinv h
  obtain ⟨sc, fin⟩ := lr
  simp only [] at h hinv
  obtain ⟨i1, i2, i3⟩ := hinv
  split at h
  · cases h
  · split at h
    · cases h
    · split at h
      · cases h
      · simp only [ResC.done.injEq] at h
        subst h
        dsimp only
        split
        · refine ⟨by simp only [List.length_take]; omega, ?_⟩
          split
          · exact skip_le t input _ _ _ _ (by omega)
          · omega
        · refine ⟨i1, ?_⟩
          split
          · exact skip_le t input _ _ _ _ i2
          · exact i2

end Lou.BackCOK
