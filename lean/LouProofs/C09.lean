/-
  C09 — dotsIO, ucBrl and the display table only re-encode cells (driver part).

  For an engine whose results do not depend on the dotsIO/ucBrl bits (`ModeBlind`;
  proved for the modelled engines in Layer B, and checked on every shipped table by
  comparing the H4 traces of the three encodings of the same call):
    * `enc_default`  : default output = display image of the dotsIO output, cell by cell;
                       consumed length, produced length and both maps equal
    * `enc_ucbrl`    : ucBrl output = low eight dots of each cell in the Unicode braille block
    * `typeform_out` : on return typeform[k] = '8' iff output cell k has dot 7 or 8, else '0'
    * `back_decode`  : back-translating characters = back-translating (dotsIO) their
                       lou_charToDots image (for input without NUL)
    * `back_unicode` : dotsIO back-translation accepts U+28xx in place of flagged dot patterns
                       (false on the tree as found — F8 — and repaired)
-/
import LouModel.Driver
import LouProofs.C07

namespace Lou.C09
open Lou Lou.Drv

/-- the two encoding bits -/
def encBits : Nat := mDotsIO ||| mUcBrl

/-- two `EngInit`s that differ at most in the encoding bits of `mode` -/
def SameButEnc (i j : EngInit) : Prop :=
  i.typebuf = j.typebuf ∧ i.haveEmphasis = j.haveEmphasis ∧ i.srcSpacing = j.srcSpacing ∧
  i.mode ||| encBits = j.mode ||| encBits

/-- the engine does not look at the encoding bits -/
def ModeBlind (e : Engine) : Prop := ∀ i j hist pin, SameButEnc i j → e i hist pin = e j hist pin

theorem fwdStep_congr (e : Engine) (i j : EngInit) (cap : Nat) (h : ∀ hist pin, e i hist pin = e j hist pin) :
    fwdStep e i cap = fwdStep e j cap := by
  funext s p; unfold fwdStep; simp only [h]

/-- the pass loop is the same for two argument records that differ only in the encoding bits -/
theorem fwdRun_enc (t : TableInfo) (e : Engine) (a b : Args) (hb : ModeBlind e)
    (hin : a.inbuf = b.inbuf) (hout : a.outlen = b.outlen) (htf : a.typeform = b.typeform)
    (hsp : a.spacing = b.spacing) (hcur : a.cursor = b.cursor)
    (hmode : a.mode ||| encBits = b.mode ||| encBits) :
    fwdRun t e a = fwdRun t e b := by
  unfold fwdRun
  dsimp only
  have hini : SameButEnc (initFwd a (cutAtNul a.inbuf)) (initFwd b (cutAtNul b.inbuf)) := by
    unfold SameButEnc initFwd
    simp only [hin, htf, hsp]
    exact ⟨trivial, trivial, trivial, hmode⟩
  rw [fwdStep_congr e _ _ a.outlen (fun hist pin => hb _ _ hist pin hini)]
  simp only [fwdCursorInit, hin, hout, hcur]

/-- **enc_default / enc_ucbrl / typeform_out**, stated on the final stage for one and the same
    driver state: the three encodings differ only in how each cell is written -/
theorem finish_encodings (disp : Nat → Nat) (a : Args) (s : FwdState) (m0 : Nat)
    (h0 : hasBit m0 mDotsIO = false)
    (hdef : (fwdFinish disp { a with mode := m0 } s).ret = 1) :
    let rD := fwdFinish disp { a with mode := m0 } s
    let rI := fwdFinish disp { a with mode := mDotsIO } s
    let rU := fwdFinish disp { a with mode := mDotsIO ||| mUcBrl } s
    rI.ret = 1 ∧ rU.ret = 1 ∧
    rI.outbuf = s.output ∧
    rD.outbuf = s.output.map disp ∧
    rU.outbuf = s.output.map (fun c => (c &&& 0xff) ||| LOU_ROW_BRAILLE) ∧
    rD.inlen = rI.inlen ∧ rD.outlen = rI.outlen ∧ rD.inputPos = rI.inputPos ∧ rD.outputPos = rI.outputPos ∧
    rU.inlen = rI.inlen ∧ rU.outlen = rI.outlen ∧
    rD.typeform = rI.typeform ∧ rI.typeform = a.typeform.map (fun _ => s.output.map typeformCell) := by
  intro rD rI rU
  have hI : s.output.map (encodeCell mDotsIO disp) = s.output.map some := by
    apply List.map_congr_left; intro c _; simp [encodeCell, hasBit, mDotsIO, mUcBrl]
  have hU : s.output.map (encodeCell (mDotsIO ||| mUcBrl) disp) =
      s.output.map (fun c => some ((c &&& 0xff) ||| LOU_ROW_BRAILLE)) := by
    apply List.map_congr_left; intro c _; simp [encodeCell, hasBit, mDotsIO, mUcBrl]
  have hD : ¬ (s.output.map (encodeCell m0 disp)).any Option.isNone = true := by
    intro hb
    simp only [fwdFinish, hb, if_true, failResult] at hdef
    cases hdef
  have hDmap : s.output.map (encodeCell m0 disp) = s.output.map (fun c => some (disp c)) := by
    apply List.map_congr_left
    intro c hc
    unfold encodeCell
    simp only [h0, Bool.false_eq_true, if_false]
    by_cases hz : (disp c == 0) = true
    · exfalso; apply hD
      rw [List.any_eq_true]
      exact ⟨none, List.mem_map.mpr ⟨c, hc, by simp [encodeCell, h0, hz]⟩, rfl⟩
    · simp [hz]
  simp only [rD, rI, rU, fwdFinish, hI, hU, hDmap]
  simp [List.filterMap_map, Function.comp_def]

/-- `typeformCell` is '8' exactly for cells with dot 7 or dot 8 -/
theorem typeformCell_spec (c : Nat) :
    (typeformCell c = '8'.toNat ↔ (c &&& (LOU_DOT_7 ||| LOU_DOT_8)) ≠ 0) ∧
    (typeformCell c = '0'.toNat ↔ (c &&& (LOU_DOT_7 ||| LOU_DOT_8)) = 0) := by
  unfold typeformCell
  by_cases h : (c &&& (LOU_DOT_7 ||| LOU_DOT_8)) = 0
  · simp [h]
  · simp [h]

/-! ### backward -/

/-- the input decoder in character mode equals the decoder in dotsIO mode applied to the
    `lou_charToDots` image, provided the display table flags its cells (LOU_DOTS) -/
theorem back_decode (dotsFor : Nat → Nat) (m : Nat) (hm : hasBit m mDotsIO = false) (l : List Nat)
    (hflag : ∀ c ∈ l, dotsFor c &&& LOU_DOTS ≠ 0 ∧ dotsFor c ||| LOU_DOTS = dotsFor c) :
    decodeInput m dotsFor l = decodeInput (m ||| mDotsIO) dotsFor (l.map dotsFor) := by
  unfold decodeInput
  rw [List.map_map]
  apply List.map_congr_left
  intro c hc
  have h1 : hasBit (m ||| mDotsIO) mDotsIO = true := by
    simp [hasBit, mDotsIO, Nat.and_or_distrib_right]
  simp only [hm, h1, Bool.false_eq_true, if_false, if_true, Function.comp]
  unfold decodeDotsIO
  have := hflag c hc
  rw [if_neg (by intro h; exact this.1 h.1)]
  exact this.2.symm

/-- Unicode braille cells and flagged dot patterns decode to the same cell (after the F8 repair
    the C maps U+28xx to `(c & 0xff) | LOU_DOTS` before ORing the flag) -/
theorem back_unicode (d : Nat) (hd : d < 256) :
    decodeDotsIO (LOU_ROW_BRAILLE ||| d) = decodeDotsIO (LOU_DOTS ||| d) := by
  unfold decodeDotsIO LOU_ROW_BRAILLE LOU_DOTS
  have h : ∀ d : Fin 256, ((if (0x2800 ||| d.val) &&& 0x8000 = 0 ∧ (0x2800 ||| d.val) &&& 0xff00 = 0x2800
      then ((0x2800 ||| d.val) &&& 0xff) ||| 0x8000 else (0x2800 ||| d.val)) ||| 0x8000) =
      ((if (0x8000 ||| d.val) &&& 0x8000 = 0 ∧ (0x8000 ||| d.val) &&& 0xff00 = 0x2800
      then ((0x8000 ||| d.val) &&& 0xff) ||| 0x8000 else (0x8000 ||| d.val)) ||| 0x8000) := by
    decide +kernel
  exact h ⟨d, hd⟩

end Lou.C09
