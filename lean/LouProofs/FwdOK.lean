/-
  FwdOK.lean — the F0 model of the forward main pass (`Fwd.translate`) satisfies the engine contract E1–E5 of Layer A
  for every table, mode, input, capacity and cursor.
-/
import LouModel.Forward
import LouProofs.Contract

namespace Lou.FwdOK
open Lou Lou.Gen Lou.Fwd

/-- well-formed output of the main pass: one map entry per cell, within the capacity, entries in [0, n] -/
def OutOK (n max : Nat) (o : Out) : Prop :=
  o.map.length = o.cells.length ∧ o.cells.length ≤ max ∧ ∀ x ∈ o.map, 0 ≤ x ∧ x ≤ (n : Int)

theorem updatePositions_ok (oc : List Nat) (il : Nat) (pos : Nat) (input : List Nat) (max : Nat) (o o' : Out)
    (ho : OutOK input.length max o) (h : updatePositions oc il 0 pos input max o = some o') :
    OutOK input.length max o' ∧ o.cells.length ≤ o'.cells.length ∧ pos + il ≤ input.length ∧
      o'.cells.take o.cells.length = o.cells ∧ o'.map.take o.cells.length = o.map := by
  unfold updatePositions at h
  split at h
  · cases h
  · rename_i hc
    simp only [Bool.or_eq_true, decide_eq_true_eq, not_or, Nat.not_lt] at hc
    obtain ⟨h1, h2, h3⟩ := ho
    cases h
    refine ⟨⟨by simp [h1], by simp; omega, ?_⟩, by simp, by omega, by simp, ?_⟩
    · intro x hx
      rcases List.mem_append.mp hx with hx | hx
      · exact h3 x hx
      · have := List.eq_of_mem_replicate hx; omega
    · simp only []; rw [← h1]; simp

/-- `o'` is a well-formed output at least as long as `o` -/
def Grow (n max : Nat) (o o' : Out) : Prop := OutOK n max o' ∧ o.cells.length ≤ o'.cells.length

theorem up_grow (oc : List Nat) (il pos : Nat) (input : List Nat) (max : Nat) (o o' : Out)
    (ho : OutOK input.length max o) (h : updatePositions oc il 0 pos input max o = some o') :
    Grow input.length max o o' ∧ pos + il ≤ input.length := by
  obtain ⟨a, b, c, -, -⟩ := updatePositions_ok oc il pos input max o o' ho h
  exact ⟨⟨a, b⟩, c⟩

theorem undefinedCharacter_ok (t : Table) (mode c pos : Nat) (input : List Nat) (max : Nat) (o o' : Out)
    (ho : OutOK input.length max o) (h : undefinedCharacter t mode c pos input max o = some o') :
    Grow input.length max o o' := by
  unfold undefinedCharacter at h
  split at h
  · exact (up_grow _ _ _ _ _ _ _ ho h).1
  · exact (up_grow _ _ _ _ _ _ _ ho h).1

theorem putCharacter_ok (t : Table) (mode c pos : Nat) (input : List Nat) (max : Nat) (o o' : Out)
    (ho : OutOK input.length max o) (h : putCharacter t mode c pos input max o = some o') :
    Grow input.length max o o' := by
  unfold putCharacter at h
  simp only [] at h
  split at h
  · exact (up_grow _ _ _ _ _ _ _ ho h).1
  · exact undefinedCharacter_ok _ _ _ _ _ _ _ _ ho h

theorem insertNumberSign_ok (t : Table) (input : List Nat) (pos prevOp before max : Nat) (o o' : Out)
    (ho : OutOK input.length max o) (h : insertNumberSign t input pos prevOp before max o = some o') :
    Grow input.length max o o' := by
  unfold insertNumberSign at h
  split at h
  · split at h
    · exact (up_grow _ _ _ _ _ _ _ ho h).1
    · cases h; exact ⟨ho, Nat.le_refl _⟩
  · cases h; exact ⟨ho, Nat.le_refl _⟩

theorem each_ok (t : Table) (mode : Nat) (input : List Nat) (max : Nat) :
    ∀ (k p : Nat) (o : Out), p ≤ input.length → (0 < k → p < input.length) → OutOK input.length max o →
      Grow input.length max o (emit.each t mode input max k p o).2.1 ∧
      p ≤ (emit.each t mode input max k p o).1 ∧ (emit.each t mode input max k p o).1 ≤ input.length := by
  intro k
  induction k with
  | zero => intro p o hp _ ho; simp [emit.each]; exact ⟨⟨ho, Nat.le_refl _⟩, hp⟩
  | succ k ih =>
    intro p o hp hk ho
    have hlt : p < input.length := hk (Nat.succ_pos _)
    unfold emit.each
    cases hpc : putCharacter t mode (inAt input p) p input max o with
    | none => simp only []; exact ⟨⟨ho, Nat.le_refl _⟩, Nat.le_refl _, hp⟩
    | some o' =>
      have hg := putCharacter_ok _ _ _ _ _ _ _ _ ho hpc
      simp only []
      split
      · exact ⟨hg, by omega, by omega⟩
      · rename_i hnge
        have hr := ih (p + 1) o' (by omega) (fun _ => by omega) hg.1
        have h1 := hg.2
        have h2 := hr.1.2
        exact ⟨⟨hr.1.1, by omega⟩, by omega, hr.2.2⟩

/-- the emission of one iteration: well-formed, no shorter, and the position moves forward inside the input -/
theorem emit_ok (t : Table) (mode : Nat) (input : List Nat) (max : Nat) (s : Sel) (pos : Nat) (o : Out)
    (hp : pos < input.length) (ho : OutOK input.length max o) :
    Grow input.length max o (emit t mode input max s pos o).2.1 ∧
    pos ≤ (emit t mode input max s pos o).1 ∧ (emit t mode input max s pos o).1 ≤ input.length := by
  unfold emit
  split
  · cases hpc : putCharacter t mode (inAt input pos) pos input max o with
    | none => simp only []; exact ⟨⟨ho, Nat.le_refl _⟩, Nat.le_refl _, by omega⟩
    | some o' => simp only []; exact ⟨putCharacter_ok _ _ _ _ _ _ _ _ ho hpc, by omega, by omega⟩
  · split
    · simp only []; exact ⟨⟨ho, Nat.le_refl _⟩, Nat.le_refl _, by omega⟩
    · split
      · rename_i r hr hd
        cases hu : updatePositions r.dots s.charslen 0 pos input max o with
        | none => simp only []; exact ⟨⟨ho, Nat.le_refl _⟩, Nat.le_refl _, by omega⟩
        | some o' =>
          obtain ⟨hg, hb⟩ := up_grow _ _ _ _ _ _ _ ho hu
          simp only []; exact ⟨hg, by omega, hb⟩
      · exact each_ok t mode input max s.charslen pos o (by omega) (fun _ => hp) ho

/-- invariant of the main loop -/
def StInv (n max : Nat) (st : St) : Prop :=
  OutOK n max st.out ∧ st.pos ≤ n ∧ st.lastOut ≤ st.out.cells.length ∧ st.lastIn ≤ st.pos

theorem step_ok (t : Table) (mode : Nat) (input : List Nat) (max : Nat) (st : St)
    (h : StInv input.length max st) : StInv input.length max (step t mode input max st).1 := by
  unfold step
  -- the lastWord bookkeeping keeps the invariant
  have h0 : StInv input.length max
      (if (st.pos > 0 && isSpace t (inAt input (st.pos - 1)) && st.transOpcode != CTO_JoinableWord) = true then
        { st with lastIn := st.pos, lastOut := st.out.cells.length } else st) := by
    split
    · exact ⟨h.1, h.2.1, Nat.le_refl _, Nat.le_refl _⟩
    · exact h
  generalize (if (st.pos > 0 && isSpace t (inAt input (st.pos - 1)) && st.transOpcode != CTO_JoinableWord) = true then
        { st with lastIn := st.pos, lastOut := st.out.cells.length } else st) = s1 at h0
  simp only []
  obtain ⟨i1, i2, i3, i4⟩ := h0
  split
  · exact ⟨i1, i2, i3, i4⟩
  · rename_i hne
    have hlt : s1.pos < input.length := by
      have : s1.pos ≠ input.length := by simpa using hne
      omega
    split
    · exact ⟨i1, i2, i3, i4⟩
    · rename_i o1 hins
      have hg1 := insertNumberSign_ok _ _ _ _ _ _ _ _ i1 hins
      have hem := emit_ok t mode input max
        (selectRule t mode s1.dontContract input s1.pos (beforeAttrs t input s1.pos) s1.prevOp) s1.pos o1 hlt hg1.1
      generalize emit t mode input max
        (selectRule t mode s1.dontContract input s1.pos (beforeAttrs t input s1.pos) s1.prevOp) s1.pos o1 = e at hem
      obtain ⟨p', o2, b⟩ := e
      simp only [] at hem
      have hl1 := hg1.2
      have hl2 := hem.1.2
      cases b
      · simp only []; refine ⟨hem.1.1, hem.2.2, ?_, ?_⟩ <;> dsimp only <;> omega
      · simp only []; refine ⟨hem.1.1, hem.2.2, ?_, ?_⟩ <;> dsimp only <;> omega

theorem loop_ok (t : Table) (mode : Nat) (input : List Nat) (max : Nat) :
    ∀ (fuel : Nat) (st : St), StInv input.length max st → StInv input.length max (loop t mode input max fuel st) := by
  intro fuel
  induction fuel with
  | zero => intro st h; exact h
  | succ f ih =>
    intro st h
    unfold loop
    have hs := step_ok t mode input max st h
    generalize step t mode input max st = r at hs
    obtain ⟨st', done⟩ := r
    simp only []
    split
    · exact hs
    · exact ih st' hs

theorem skip_le (t : Table) (input : List Nat) : ∀ (fuel p : Nat), p ≤ input.length →
    translate.skip t input fuel p ≤ input.length := by
  intro fuel
  induction fuel with
  | zero => intro p h; simpa [translate.skip] using h
  | succ f ih =>
    intro p h
    unfold translate.skip
    split
    · rename_i hc
      simp only [Bool.and_eq_true, decide_eq_true_eq] at hc
      exact ih (p + 1) (by omega)
    · exact h

/-- **translate_contract**: the model of the main pass satisfies the engine contract E1–E4 (and E5: no negative
    map entry) for every table, mode, input, capacity and cursor -/
theorem translate_contract (t : Table) (mode : Nat) (input : List Nat) (max : Nat) (cpos cstat : Int) :
    let r := translate t mode input max cpos cstat
    r.out.length ≤ max ∧ r.map.length = r.out.length ∧ r.realInlen ≤ input.length ∧
    ∀ x ∈ r.map, 0 ≤ x ∧ x ≤ (input.length : Int) := by
  have hinv := loop_ok t mode input max (input.length + 2) { out := { cpos := cpos, cstat := cstat } }
    ⟨⟨rfl, Nat.zero_le _, by simp⟩, Nat.zero_le _, Nat.zero_le _, Nat.zero_le _⟩
  unfold translate
  generalize loop t mode input max (input.length + 2) { out := { cpos := cpos, cstat := cstat } } = st at hinv
  obtain ⟨⟨o1, o2, o3⟩, hp, hlo, hli⟩ := hinv
  simp only []
  split
  · rename_i hc
    refine ⟨?_, ?_, ?_, ?_⟩
    · simp only [List.length_take]; omega
    · simp only [List.length_take]; omega
    · split
      · exact skip_le t input _ _ (by omega)
      · omega
    · intro x hx; exact o3 x (List.mem_of_mem_take hx)
  · refine ⟨o2, o1, ?_, o3⟩
    split
    · exact skip_le t input _ _ hp
    · exact hp

end Lou.FwdOK
