/-
  C09 — `ModeBlind`, part 2: the B0 backward main pass.  The mode reaches `noUndefined` (undefinedDots) and
  `partialTrans` (isEndWord and two rule conditions), neither an encoding bit.
-/
import LouModel.Backward
import LouProofs.ModeBlindF

namespace Lou.C09B
open Lou Lou.Gen Lou.Back Lou.C09

theorem undefinedDots_enc (d m pos maxlen : Nat) (o : Out) :
    undefinedDots d (m ||| encBits) pos maxlen o = undefinedDots d m pos maxlen o := by
  unfold undefinedDots
  simp only [hasBit_enc_noUndefined]

theorem putCharacter_enc (t : Table) (m d pos : Nat) (input : List Nat) (maxlen : Nat) (o : Out) :
    putCharacter t (m ||| encBits) d pos input maxlen o = putCharacter t m d pos input maxlen o := by
  unfold putCharacter
  simp only [undefinedDots_enc]

theorem isEndWord_enc (t : Table) (m : Nat) (input : List Nat) (pos dotslen : Nat) :
    isEndWord t (m ||| encBits) input pos dotslen = isEndWord t m input pos dotslen := by
  unfold isEndWord
  simp only [hasBit_enc_partialTrans]

theorem opcodeAccepts_enc (t : Table) (m : Nat) (ctx : Ctx) (input : List Nat) (pos : Nat) (r : Rule) (dotslen before after prevOp : Nat) :
    opcodeAccepts t (m ||| encBits) ctx input pos r dotslen before after prevOp =
      opcodeAccepts t m ctx input pos r dotslen before after prevOp := by
  unfold opcodeAccepts
  simp only [hasBit_enc_partialTrans, isEndWord_enc]

theorem walkChain_enc (t : Table) (m : Nat) (ctx : Ctx) (input : List Nat) (pos length before prevOp : Nat) (chain : List Nat) :
    walkChain t (m ||| encBits) ctx input pos length before prevOp chain =
      walkChain t m ctx input pos length before prevOp chain := by
  induction chain with
  | nil => rfl
  | cons i rest ih =>
    unfold walkChain
    simp only [opcodeAccepts_enc, ih]

theorem selectRule_enc (t : Table) (m : Nat) (ctx : Ctx) (input : List Nat) (pos before prevOp : Nat) :
    selectRule t (m ||| encBits) ctx input pos before prevOp = selectRule t m ctx input pos before prevOp := by
  unfold selectRule
  simp only [walkChain_enc]

theorem step_each_enc (t : Table) (m : Nat) (input : List Nat) (maxlen : Nat) (k : Nat) : ∀ (p : Nat) (o : Out),
    step.each t (m ||| encBits) input maxlen k p o = step.each t m input maxlen k p o := by
  induction k with
  | zero => intro p o; rfl
  | succ k ih =>
    intro p o
    unfold step.each
    simp only [putCharacter_enc, ih]

theorem step_enc (t : Table) (m : Nat) (input : List Nat) (maxlen : Nat) (st : St) :
    step t (m ||| encBits) input maxlen st = step t m input maxlen st := by
  unfold step
  simp only [selectRule_enc, undefinedDots_enc, step_each_enc]

theorem loop_enc (t : Table) (m : Nat) (input : List Nat) (maxlen : Nat) (fuel : Nat) : ∀ st : St,
    loop t (m ||| encBits) input maxlen fuel st = loop t m input maxlen fuel st := by
  induction fuel with
  | zero => intro st; rfl
  | succ f ih =>
    intro st
    unfold loop
    simp only [step_enc, ih]

/-- **the B0 backward main pass ignores the encoding bits** -/
theorem translate_enc (t : Table) (m : Nat) (input : List Nat) (maxlen : Nat) (cpos : Int) :
    translate t (m ||| encBits) input maxlen cpos = translate t m input maxlen cpos := by
  unfold translate
  simp only [loop_enc]

theorem translate_sameEnc (t : Table) (m m' : Nat) (h : m ||| encBits = m' ||| encBits) (input : List Nat) (maxlen : Nat)
    (cpos : Int) : translate t m input maxlen cpos = translate t m' input maxlen cpos := by
  rw [← translate_enc t m, ← translate_enc t m', h]

end Lou.C09B
