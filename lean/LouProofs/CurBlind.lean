/-
  CurBlind.lean — the Layer B forward engines are blind to the cursor and to the spacing array: what a pass emits, maps
  and consumes does not depend on them.  This discharges the blindness hypotheses of C10's optargs theorems for the
  modelled engines (`model_optargs`).
-/
import LouProofs.ModelEngine
import LouProofs.C10

namespace Lou.CurBlind
open Lou Lou.Gen Lou.Fwd

/-- forget the cursor bookkeeping of an output -/
def er (o : Out) : Out := { o with cpos := 0, cstat := 0 }

@[simp] theorem er_cells (o : Out) : (er o).cells = o.cells := rfl
@[simp] theorem er_map (o : Out) : (er o).map = o.map := rfl
@[simp] theorem er_er (o : Out) : er (er o) = er o := rfl

/-- what `updatePositions` does to cells and map (it never looks at the cursor for these) -/
def upER (oc : List Nat) (il : Nat) (sh : Int) (pos : Nat) (input : List Nat) (max : Nat) (o : Out) : Option Out :=
  if o.cells.length + oc.length > max || pos + il > input.length then none
  else some { cells := o.cells ++ oc, map := o.map ++ List.replicate oc.length ((pos : Int) + sh), cpos := 0, cstat := 0 }

theorem up_upER (oc : List Nat) (il : Nat) (sh : Int) (pos : Nat) (input : List Nat) (max : Nat) (o : Out) :
    (updatePositions oc il sh pos input max o).map er = upER oc il sh pos input max o := by
  unfold updatePositions upER
  split
  · rfl
  · simp [er]

theorem up_er (oc : List Nat) (il : Nat) (sh : Int) (pos : Nat) (input : List Nat) (max : Nat) (o : Out) :
    (updatePositions oc il sh pos input max o).map er = (updatePositions oc il sh pos input max (er o)).map er := by
  rw [up_upER, up_upER]; rfl

theorem undef_er (t : Table) (mode c pos : Nat) (input : List Nat) (max : Nat) (o : Out) :
    (undefinedCharacter t mode c pos input max o).map er = (undefinedCharacter t mode c pos input max (er o)).map er := by
  unfold undefinedCharacter
  split
  · exact up_er _ _ _ _ _ _ _
  · exact up_er _ _ _ _ _ _ _

theorem putc_er (t : Table) (mode c pos : Nat) (input : List Nat) (max : Nat) (o : Out) :
    (putCharacter t mode c pos input max o).map er = (putCharacter t mode c pos input max (er o)).map er := by
  unfold putCharacter
  simp only []
  split
  · exact up_er _ _ _ _ _ _ _
  · exact undef_er _ _ _ _ _ _ _

theorem ins_er (t : Table) (input : List Nat) (pos prevOp before max : Nat) (o : Out) :
    (insertNumberSign t input pos prevOp before max o).map er = (insertNumberSign t input pos prevOp before max (er o)).map er := by
  unfold insertNumberSign
  split
  · split
    · exact up_er _ _ _ _ _ _ _
    · rfl
  · rfl

/-- a result triple with the cursor forgotten -/
def er3 (r : Nat × Out × Bool) : Nat × Out × Bool := (r.1, er r.2.1, r.2.2)

theorem each_er (t : Table) (mode : Nat) (input : List Nat) (max : Nat) :
    ∀ (k p : Nat) (o o' : Out), er o = er o' → er3 (emit.each t mode input max k p o) = er3 (emit.each t mode input max k p o') := by
  intro k
  induction k with
  | zero => intro p o o' h; simp [emit.each, er3, h]
  | succ k ih =>
    intro p o o' h
    unfold emit.each
    have hp : (putCharacter t mode (inAt input p) p input max o).map er = (putCharacter t mode (inAt input p) p input max o').map er := by
      rw [putc_er t mode _ p input max o, putc_er t mode _ p input max o', h]
    cases h1 : putCharacter t mode (inAt input p) p input max o with
    | none =>
      rw [h1] at hp
      cases h2 : putCharacter t mode (inAt input p) p input max o' with
      | none => simp [er3, h]
      | some x => rw [h2] at hp; simp at hp
    | some x =>
      rw [h1] at hp
      cases h2 : putCharacter t mode (inAt input p) p input max o' with
      | none => rw [h2] at hp; simp at hp
      | some y =>
        rw [h2] at hp
        simp only [Option.map_some, Option.some.injEq] at hp
        simp only []
        split
        · simp [er3, hp]
        · exact ih (p + 1) x y hp

theorem emit_er (t : Table) (mode : Nat) (input : List Nat) (max : Nat) (s : Sel) (pos : Nat) (o o' : Out) (h : er o = er o') :
    er3 (emit t mode input max s pos o) = er3 (emit t mode input max s pos o') := by
  unfold emit
  split
  · have hp : (putCharacter t mode (inAt input pos) pos input max o).map er = (putCharacter t mode (inAt input pos) pos input max o').map er := by
      rw [putc_er t mode _ pos input max o, putc_er t mode _ pos input max o', h]
    cases h1 : putCharacter t mode (inAt input pos) pos input max o with
    | none =>
      rw [h1] at hp
      cases h2 : putCharacter t mode (inAt input pos) pos input max o' with
      | none => simp [er3, h]
      | some x => rw [h2] at hp; simp at hp
    | some x =>
      rw [h1] at hp
      cases h2 : putCharacter t mode (inAt input pos) pos input max o' with
      | none => rw [h2] at hp; simp at hp
      | some y => rw [h2] at hp; simp only [Option.map_some, Option.some.injEq] at hp; simp [er3, hp]
  · split
    · simp [er3, h]
    · split
      · rename_i r _ _
        have hp : (updatePositions r.dots s.charslen 0 pos input max o).map er = (updatePositions r.dots s.charslen 0 pos input max o').map er := by
          rw [up_er _ _ _ _ _ _ o, up_er _ _ _ _ _ _ o', h]
        cases h1 : updatePositions r.dots s.charslen 0 pos input max o with
        | none =>
          rw [h1] at hp
          cases h2 : updatePositions r.dots s.charslen 0 pos input max o' with
          | none => simp [er3, h]
          | some x => rw [h2] at hp; simp at hp
        | some x =>
          rw [h1] at hp
          cases h2 : updatePositions r.dots s.charslen 0 pos input max o' with
          | none => rw [h2] at hp; simp at hp
          | some y => rw [h2] at hp; simp only [Option.map_some, Option.some.injEq] at hp; simp [er3, hp]
      · exact each_er t mode input max _ _ _ _ h

/-- forget the cursor bookkeeping of a loop state -/
def erS (st : St) : St := { st with out := er st.out }

/-- the part of `step` behind the end-of-input test, for two outputs that agree up to the cursor -/
theorem step_tail (t : Table) (mode : Nat) (input : List Nat) (max : Nat) (sel : Sel) (p to po : Nat) (dc : Bool)
    (li lo : Nat) (ap : List (Option Rule)) (o o' : Out) (hout : er o = er o') :
    let body := fun (o : Out) =>
      (match insertNumberSign t input p po (beforeAttrs t input p) max o with
        | none => (({ pos := p, out := o, transOpcode := sel.opcode, prevOp := po, dontContract := dc, lastIn := li, lastOut := lo, applied := ap } : St), true)
        | some o1 =>
          match emit t mode input max sel p o1 with
          | (p', o2, false) =>
            (({ pos := p', out := o2, transOpcode := sel.opcode, prevOp := po,
                dontContract := if (sel.opcode == CTO_Space) = true then false else
                  if ((t.getChar (inAt input p)).attrs &&& (CTC_SeqDelimiter ||| CTC_Space) != 0) = true then false else dc,
                lastIn := li, lastOut := lo, applied := ap ++ [sel.rule] } : St), true)
          | (p', o2, true) =>
            (({ pos := p', out := o2, transOpcode := sel.opcode,
                prevOp := if ((decide (CTO_Always ≤ sel.opcode) && decide (sel.opcode ≤ CTO_None)) ||
                      (decide (CTO_Digit ≤ sel.opcode) && decide (sel.opcode ≤ CTO_LitDigit))) = true then sel.opcode else po,
                dontContract := if (sel.opcode == CTO_Space) = true then false else
                  if ((t.getChar (inAt input p)).attrs &&& (CTC_SeqDelimiter ||| CTC_Space) != 0) = true then false else dc,
                lastIn := li, lastOut := lo, applied := ap ++ [sel.rule] } : St), false))
    erS (body o).1 = erS (body o').1 ∧ (body o).2 = (body o').2 := by
  intro body
  have hi : (insertNumberSign t input p po (beforeAttrs t input p) max o).map er =
            (insertNumberSign t input p po (beforeAttrs t input p) max o').map er := by
    rw [ins_er _ _ _ _ _ _ o, ins_er _ _ _ _ _ _ o', hout]
  simp only [body]
  cases h1 : insertNumberSign t input p po (beforeAttrs t input p) max o with
  | none =>
    rw [h1] at hi
    cases h2 : insertNumberSign t input p po (beforeAttrs t input p) max o' with
    | none => simp [erS, hout]
    | some x => rw [h2] at hi; simp at hi
  | some x =>
    rw [h1] at hi
    cases h2 : insertNumberSign t input p po (beforeAttrs t input p) max o' with
    | none => rw [h2] at hi; simp at hi
    | some y =>
      rw [h2] at hi
      simp only [Option.map_some, Option.some.injEq] at hi
      have he := emit_er t mode input max sel p x y hi
      dsimp only
      generalize emit t mode input max sel p x = e1 at he ⊢
      generalize emit t mode input max sel p y = e2 at he ⊢
      obtain ⟨a1, b1, c1⟩ := e1
      obtain ⟨a2, b2, c2⟩ := e2
      simp only [er3, Prod.mk.injEq] at he
      obtain ⟨rfl, hb, rfl⟩ := he
      cases c1 <;> simp [erS, hb]

theorem step_er (t : Table) (mode : Nat) (input : List Nat) (max : Nat) (st st' : St) (h : erS st = erS st') :
    erS (step t mode input max st).1 = erS (step t mode input max st').1 ∧
    (step t mode input max st).2 = (step t mode input max st').2 := by
  obtain ⟨p, o, to, po, dc, li, lo, ap⟩ := st
  obtain ⟨p', o', to', po', dc', li', lo', ap'⟩ := st'
  simp only [erS, St.mk.injEq] at h
  obtain ⟨hpos, hout, hto, hpo, hdc, hli, hlo, hap⟩ := h
  subst hpos hto hpo hdc hli hlo hap
  have hcl : o.cells = o'.cells := by have := congrArg Out.cells hout; simpa using this
  unfold step
  simp only [hcl]
  try dsimp only
  generalize hsel : selectRule t mode dc input p (beforeAttrs t input p) po = sel
  by_cases hc1 : (decide (p > 0) && isSpace t (inAt input (p - 1)) && to != CTO_JoinableWord) = true
  · simp only [hc1, if_true]
    try dsimp only
    rw [hsel]
    by_cases hc2 : (p == input.length) = true
    · simp only [hc2, if_true]; simp [erS, hout]
    · simp only [hc2, Bool.false_eq_true, if_false]
      exact step_tail t mode input max sel p to po dc p o'.cells.length ap o o' hout
  · simp only [hc1, Bool.false_eq_true, if_false]
    try dsimp only
    rw [hsel]
    by_cases hc2 : (p == input.length) = true
    · simp only [hc2, if_true]; simp [erS, hout]
    · simp only [hc2, Bool.false_eq_true, if_false]
      exact step_tail t mode input max sel p to po dc li lo ap o o' hout

theorem loop_er (t : Table) (mode : Nat) (input : List Nat) (max : Nat) :
    ∀ (fuel : Nat) (st st' : St), erS st = erS st' →
      erS (loop t mode input max fuel st) = erS (loop t mode input max fuel st') := by
  intro fuel
  induction fuel with
  | zero => intro st st' h; exact h
  | succ f ih =>
    intro st st' h
    unfold loop
    obtain ⟨h1, h2⟩ := step_er t mode input max st st' h
    generalize step t mode input max st = r at h1 h2
    generalize step t mode input max st' = r' at h1 h2
    obtain ⟨s1, d1⟩ := r
    obtain ⟨s2, d2⟩ := r'
    simp only at h1 h2
    subst h2
    simp only []
    split
    · exact h1
    · exact ih s1 s2 h1

/-- **translate_cursor_blind**: cells, position map, consumed length and applied rules of the main pass model do not
    depend on the cursor -/
theorem translate_cursor_blind (t : Table) (mode : Nat) (input : List Nat) (max : Nat) (c1 s1 c2 s2 : Int) :
    (translate t mode input max c1 s1).out = (translate t mode input max c2 s2).out ∧
    (translate t mode input max c1 s1).map = (translate t mode input max c2 s2).map ∧
    (translate t mode input max c1 s1).realInlen = (translate t mode input max c2 s2).realInlen := by
  have h := loop_er t mode input max (input.length + 2) { out := { cpos := c1, cstat := s1 } } { out := { cpos := c2, cstat := s2 } } rfl
  unfold translate
  generalize loop t mode input max (input.length + 2) { out := { cpos := c1, cstat := s1 } } = a at h
  generalize loop t mode input max (input.length + 2) { out := { cpos := c2, cstat := s2 } } = b at h
  obtain ⟨p, o, to, po, dc, li, lo, ap⟩ := a
  obtain ⟨p', o', to', po', dc', li', lo', ap'⟩ := b
  simp only [erS, St.mk.injEq] at h
  obtain ⟨rfl, hout, rfl, rfl, rfl, rfl, rfl, rfl⟩ := h
  have hc : o.cells = o'.cells := by have := congrArg Out.cells hout; simpa using this
  have hm : o.map = o'.map := by have := congrArg Out.map hout; simpa using this
  simp [hc, hm]

open Lou.Drv Lou.Contract Lou.ModelEngine in
/-- **modelEngine_blind**: the modelled forward engines are blind to the spacing array and to the cursor -/
theorem modelEngine_blind (t : Table) : C10.SpacingBlind (modelEngine t) ∧ C10.CursorBlind (modelEngine t) := by
  constructor
  · intro i sp hist pin; rfl
  · intro ini h1 h2 p1 p2 _ hp
    obtain ⟨n1, ch1, m1, cp1, cs1⟩ := p1
    obtain ⟨n2, ch2, m2, cp2, cs2⟩ := p2
    simp only [C10.erIn, PassIn.mk.injEq] at hp
    obtain ⟨rfl, rfl, rfl, -, -⟩ := hp
    unfold modelEngine
    dsimp only
    split
    · obtain ⟨a, b, c⟩ := translate_cursor_blind t ini.mode ch1 m1 cp1 cs1 cp2 cs2
      simp only [C10.erOut, a, b, c]
    · cases hs : Pass.fwdStage t n1 ch1 m1 <;> simp [C10.erOut]

open Lou.Drv Lou.Contract Lou.ModelEngine in
/-- **model_optargs** (C10 with the modelled engines, no blindness hypothesis left): passing NULL for spacing or for
    cursorPos does not change return value, lengths or output text -/
theorem model_optargs (tbl : Option TableInfo) (disp : Nat → Nat) (t : Table) (a : Args) (sp : Option (List Nat)) (c : Option Int) :
    C10.core (fwd tbl disp (modelEngine t) { a with spacing := sp }) = C10.core (fwd tbl disp (modelEngine t) { a with spacing := none }) ∧
    C10.core (fwd tbl disp (modelEngine t) { a with cursor := c }) = C10.core (fwd tbl disp (modelEngine t) { a with cursor := none }) :=
  ⟨C10.optargs_spacing tbl disp (modelEngine t) a (modelEngine_blind t).1 sp,
   C10.optargs_cursor tbl disp (modelEngine t) a (modelEngine_blind t).2 c⟩

end Lou.CurBlind
