/-
  C12 — `compile_consistent`: every logical table the compile model produces for entries of the
  fragment F0′ — after any prefix of the entries (`compileUnfinalised`, which is also the state after
  run-time additions, see C15 `add_eq_append`) and after finalisation (`compile`) — satisfies ALL
  rule clauses of `TableConsistent`.  Induction over the compile steps with the invariant `CInvF`,
  which extends `CInv` of C05Compile.lean by: bucket membership = raw hash of the first two
  characters / cells, chains duplicate-free, bucket keys distinct, character-chain membership
  (`chars = [c]`) and order (non-definition rules before definition rules, definition order within),
  cell-chain membership, definition rules, resolution of every stored index.

  Hypothesis forced by the model: no entry has opcode `context` (the compile model has no multipass
  compiler; a `context` entry would be filed like an ordinary rule, which is not what the C code does).
-/
import LouModel.Image
import LouProofs.C05Compile
import LouProofs.C12

namespace Lou.C12
open Lou Lou.Gen Lou.Compile Lou.Chain Lou.C05 Lou.Image

/-- a chain of rule indices, relative to a lookup function: every member resolves to a rule with that
    index satisfying `M`, the resolved chain is ordered by `R`, no duplicates -/
def ChainOK (look : Nat → Option Rule) (M : Rule → Prop) (R : Rule → Rule → Prop) (chain : List Nat) : Prop :=
  (∀ i ∈ chain, ∃ r, look i = some r ∧ r.idx = i ∧ M r) ∧ (chain.filterMap look).Pairwise R ∧ chain.Nodup

theorem chainOK_nil (look : Nat → Option Rule) (M : Rule → Prop) (R : Rule → Rule → Prop) : ChainOK look M R [] :=
  ⟨(by intro i hi; cases hi), (by simp), List.nodup_nil⟩

theorem chainOK_congr (look look' : Nat → Option Rule) (M : Rule → Prop) (R : Rule → Rule → Prop) (chain : List Nat)
    (hag : ∀ i ∈ chain, look' i = look i) (h : ChainOK look M R chain) : ChainOK look' M R chain := by
  obtain ⟨h1, h2, h3⟩ := h
  refine ⟨?_, ?_, h3⟩
  · intro i hi; rw [hag i hi]; exact h1 i hi
  · rw [filterMap_congr' look' look chain hag]; exact h2

theorem chainOK_weaken (look : Nat → Option Rule) (M M' : Rule → Prop) (R : Rule → Rule → Prop) (chain : List Nat)
    (hM : ∀ r, M r → M' r) (h : ChainOK look M R chain) : ChainOK look M' R chain := by
  obtain ⟨h1, h2, h3⟩ := h
  refine ⟨?_, h2, h3⟩
  intro i hi
  obtain ⟨r, a, b, c⟩ := h1 i hi
  exact ⟨r, a, b, hM r c⟩

theorem nodup_insertBefore (stop : Rule → Bool) (t : Table) (new : Nat) : ∀ (chain : List Nat), new ∉ chain → chain.Nodup →
    (insertBefore stop t new chain).Nodup := by
  intro chain
  induction chain with
  | nil => intro _ _; simp [insertBefore]
  | cons i rest ih =>
    intro hn hd
    have hni : new ≠ i := fun h => hn (by rw [h]; exact List.mem_cons_self ..)
    have hnr : new ∉ rest := fun h => hn (List.mem_cons_of_mem _ h)
    obtain ⟨hi, hr⟩ := List.nodup_cons.mp hd
    have hrec : (i :: insertBefore stop t new rest).Nodup := by
      refine List.nodup_cons.mpr ⟨?_, ih hnr hr⟩
      intro hm
      rcases (mem_insertBefore stop t new rest i).mp hm with h | h
      · exact hni h.symm
      · exact hi h
    unfold insertBefore
    cases ht : t.rule? i with
    | none => exact hrec
    | some r =>
      dsimp only
      split
      · exact List.nodup_cons.mpr ⟨hn, hd⟩
      · exact hrec

theorem mem_insR_all (stop : Rule → Bool) (new : Rule) (l : List Rule) (P : Rule → Prop) (hn : P new) (hl : ∀ o ∈ l, P o) :
    ∀ o ∈ insR stop new l, P o := by
  intro o ho
  rcases (mem_insR stop new o l).mp ho with rfl | ho
  · exact hn
  · exact hl o ho

/-- inserting a freshly registered rule (largest index, not yet in the chain) keeps a chain OK, provided
    the insertion position respects the order `R` -/
theorem chainOK_insert (stop : Rule → Bool) (t : Table) (new : Rule) (M : Rule → Prop) (R : Rule → Rule → Prop)
    (chain : List Nat) (h : ChainOK t.rule? M R chain) (hreg : t.rule? new.idx = some new) (hM : M new)
    (hlt : ∀ i ∈ chain, i < new.idx)
    (hR : ∀ rs : List Rule, rs.Pairwise R → (∀ o ∈ rs, o.idx < new.idx) → (∀ o ∈ rs, M o) → (insR stop new rs).Pairwise R) :
    ChainOK t.rule? M R (insertBefore stop t new.idx chain) := by
  obtain ⟨h1, h2, h3⟩ := h
  have hres : ∀ i ∈ chain, ∃ r, t.rule? i = some r ∧ r.idx = i := fun i hi => by
    obtain ⟨r, a, b, _⟩ := h1 i hi; exact ⟨r, a, b⟩
  refine ⟨?_, ?_, ?_⟩
  · intro i hi
    rcases (mem_insertBefore stop t new.idx chain i).mp hi with rfl | hi
    · exact ⟨new, hreg, rfl, hM⟩
    · exact h1 i hi
  · rw [insertBefore_resolved stop t new hreg chain hres]
    apply hR _ h2
    · intro o ho
      obtain ⟨i, hi, hio⟩ := List.mem_filterMap.mp ho
      obtain ⟨r, a, b, _⟩ := h1 i hi
      rw [a] at hio; cases hio
      rw [b]; exact hlt i hi
    · intro o ho
      obtain ⟨i, hi, hio⟩ := List.mem_filterMap.mp ho
      obtain ⟨r, a, _, c⟩ := h1 i hi
      rw [a] at hio; cases hio
      exact c
  · apply nodup_insertBefore stop t new.idx chain ?_ h3
    intro hm
    exact Nat.lt_irrefl _ (hlt _ hm)

theorem pairwise_true {α : Type} (l : List α) : l.Pairwise (fun _ _ => True) := by
  induction l with
  | nil => exact List.Pairwise.nil
  | cons a l ih => exact List.pairwise_cons.mpr ⟨fun _ _ => trivial, ih⟩

/-! ### order of character chains -/

/-- the stop test of `addForwardRuleWithSingleChar` (877-883) -/
def stopChar (new o : Rule) : Bool := o.chars.length == 0 || (isDefOpcode o.opcode && !isDefOpcode new.opcode)

theorem charLe_trans {a b c : Rule} (h1 : CharLe a b) (h2 : CharLe b c) : CharLe a c := by
  unfold CharLe at *
  rcases h1 with ⟨na, db⟩ | ⟨e1, l1⟩ <;> rcases h2 with ⟨nb, dc⟩ | ⟨e2, l2⟩
  · exact absurd db nb
  · left; exact ⟨na, e2.mp db⟩
  · left; exact ⟨fun ha => nb (e1.mp ha), dc⟩
  · right; exact ⟨e1.trans e2, by omega⟩

theorem insR_charSorted (new : Rule) : ∀ (l : List Rule), l.Pairwise CharLe → (∀ o ∈ l, o.idx < new.idx) →
    (∀ o ∈ l, o.chars.length ≠ 0) → (insR (stopChar new) new l).Pairwise CharLe := by
  intro l
  induction l with
  | nil => intro _ _ _; simp [insR]
  | cons o rest ih =>
    intro hs hi hlen
    have hso := List.pairwise_cons.mp hs
    unfold insR
    by_cases hst : stopChar new o = true
    · simp only [hst, if_true]
      have hno : CharLe new o := by
        unfold stopChar at hst
        have hl := hlen o (List.mem_cons_self ..)
        simp only [Bool.or_eq_true, beq_iff_eq, hl, false_or, Bool.and_eq_true, Bool.not_eq_eq_eq_not, Bool.not_true] at hst
        left; unfold IsDef; exact ⟨by rw [hst.2]; simp, hst.1⟩
      refine List.pairwise_cons.mpr ⟨?_, hs⟩
      intro x hx
      rcases List.mem_cons.mp hx with rfl | hx
      · exact hno
      · exact charLe_trans hno (hso.1 x hx)
    · have hst' : stopChar new o = false := by simpa using hst
      simp only [hst', Bool.false_eq_true, if_false]
      refine List.pairwise_cons.mpr ⟨?_, ih hso.2 (fun x hx => hi x (List.mem_cons_of_mem _ hx))
        (fun x hx => hlen x (List.mem_cons_of_mem _ hx))⟩
      intro y hy
      rcases (mem_insR _ _ _ _).mp hy with rfl | hy
      · have hlt := hi o (List.mem_cons_self ..)
        unfold stopChar at hst'
        simp only [Bool.or_eq_false_iff, Bool.and_eq_false_imp, Bool.not_eq_eq_eq_not, Bool.not_false] at hst'
        unfold CharLe IsDef
        by_cases ho : isDefOpcode o.opcode = true
        · right; exact ⟨by rw [ho, hst'.2 ho], hlt⟩
        · by_cases hn : isDefOpcode y.opcode = true
          · left; exact ⟨ho, hn⟩
          · right
            have ho' : isDefOpcode o.opcode = false := by simpa using ho
            have hn' : isDefOpcode y.opcode = false := by simpa using hn
            exact ⟨by rw [ho', hn'], hlt⟩
      · exact hso.1 y hy

/-! ### the invariant -/

def FwdM (h : Nat) (r : Rule) : Prop := 2 ≤ r.chars.length ∧ rawHash (r.chars.getD 0 0) (r.chars.getD 1 0) = h
def BackM (h : Nat) (r : Rule) : Prop :=
  2 ≤ r.dots.length ∧ rawHash (r.dots.getD 0 0) (r.dots.getD 1 0) = h ∧ r.opcode ≠ CTO_SwapCc
def CharM (c : Nat) (r : Rule) : Prop := r.chars = [c]
def DotsM (d : Nat) (r : Rule) : Prop := r.dots = [d] ∧ r.opcode ≠ CTO_SwapCc ∧ r.opcode ≠ CTO_Repeated

def DefOK (look : Nat → Option Rule) (o : Option Nat) (P : Rule → Prop) : Prop :=
  ∀ i, o = some i → ∃ r, look i = some r ∧ r.idx = i ∧ P r

def CharRecOK (look : Nat → Option Rule) (c : CharRec) : Prop :=
  ChainOK look (CharM c.value) CharLe c.chain ∧ DefOK look c.defRule (fun r => IsDef r ∧ r.chars = [c.value]) ∧
  c.compRule = none ∧ c.base = none

def DotsRecOK (look : Nat → Option Rule) (d : DotsRec) : Prop :=
  ChainOK look (DotsM d.value) (fun _ _ => True) d.chain ∧ DefOK look d.defRule (fun r => IsDef r ∧ r.dots = [d.value])

def ForOK (look : Nat → Option Rule) (bs : List (Nat × List Nat)) : Prop :=
  (∀ b ∈ bs, ChainOK look (FwdM b.1) le b.2) ∧ (bs.map (·.1)).Nodup ∧ ∀ b ∈ bs, b.1 < HASHNUM

def BackOK (look : Nat → Option Rule) (bs : List (Nat × List Nat)) : Prop :=
  (∀ b ∈ bs, ChainOK look (BackM b.1) (fun _ _ => True) b.2) ∧ (bs.map (·.1)).Nodup ∧ ∀ b ∈ bs, b.1 < HASHNUM

def SlotsOK (look : Nat → Option Rule) (t : Table) : Prop :=
  DefOK look t.undefined (fun _ => True) ∧ DefOK look t.numberSign (fun _ => True) ∧
  t.letterSign = none ∧ t.noContractSign = none ∧ t.noNumberSign = none ∧ t.begComp = none ∧ t.endComp = none ∧
  t.forPass = [] ∧ t.backPass = [] ∧ t.emph = []

/-- invariant of the compile fold (fragment F0′), extending `Lou.C05.CInv` -/
structure CInvF (t : Table) : Prop where
  idxLt : ∀ r ∈ t.rules, r.idx < t.ruleCounter
  sortedRules : t.rules.Pairwise (fun a b => a.idx < b.idx)
  noContext : ∀ r ∈ t.rules, r.opcode ≠ CTO_Context
  chars : ∀ c ∈ t.chars, CharRecOK t.rule? c
  dots : ∀ d ∈ t.dots, DotsRecOK t.rule? d
  forB : ForOK t.rule? t.forB
  backB : BackOK t.rule? t.backB
  slots : SlotsOK t.rule? t

/-- members of OK chains are below the rule counter -/
theorem chain_below (t : Table) (h : CInvF t) (M : Rule → Prop) (R : Rule → Rule → Prop) (chain : List Nat)
    (hc : ChainOK t.rule? M R chain) : ∀ i ∈ chain, i < t.ruleCounter := by
  intro i hi
  obtain ⟨r, a, b, _⟩ := hc.1 i hi
  have hm : r ∈ t.rules := by unfold Table.rule? at a; exact List.mem_of_find?_eq_some a
  rw [← b]; exact h.idxLt r hm

theorem defOK_below (t : Table) (h : CInvF t) (o : Option Nat) (P : Rule → Prop) (hd : DefOK t.rule? o P) :
    ∀ i, o = some i → i < t.ruleCounter := by
  intro i hi
  obtain ⟨r, a, b, _⟩ := hd i hi
  have hm : r ∈ t.rules := by unfold Table.rule? at a; exact List.mem_of_find?_eq_some a
  rw [← b]; exact h.idxLt r hm

theorem defOK_congr (look look' : Nat → Option Rule) (o : Option Nat) (P : Rule → Prop)
    (hag : ∀ i, o = some i → look' i = look i) (h : DefOK look o P) : DefOK look' o P := by
  intro i hi; rw [hag i hi]; exact h i hi

/-! ### frame lemmas: replacing one component -/

theorem cinvF_chars (t : Table) (h : CInvF t) (cs : List CharRec) (hcs : ∀ c ∈ cs, CharRecOK t.rule? c) :
    CInvF { t with chars := cs } :=
  { idxLt := h.idxLt, sortedRules := h.sortedRules, noContext := h.noContext, chars := hcs, dots := h.dots,
    forB := h.forB, backB := h.backB, slots := h.slots }

theorem cinvF_dots (t : Table) (h : CInvF t) (ds : List DotsRec) (hds : ∀ d ∈ ds, DotsRecOK t.rule? d) :
    CInvF { t with dots := ds } :=
  { idxLt := h.idxLt, sortedRules := h.sortedRules, noContext := h.noContext, chars := h.chars, dots := hds,
    forB := h.forB, backB := h.backB, slots := h.slots }

theorem cinvF_forB (t : Table) (h : CInvF t) (bs : List (Nat × List Nat)) (hbs : ForOK t.rule? bs) :
    CInvF { t with forB := bs } :=
  { idxLt := h.idxLt, sortedRules := h.sortedRules, noContext := h.noContext, chars := h.chars, dots := h.dots,
    forB := hbs, backB := h.backB, slots := h.slots }

theorem cinvF_backB (t : Table) (h : CInvF t) (bs : List (Nat × List Nat)) (hbs : BackOK t.rule? bs) :
    CInvF { t with backB := bs } :=
  { idxLt := h.idxLt, sortedRules := h.sortedRules, noContext := h.noContext, chars := h.chars, dots := h.dots,
    forB := h.forB, backB := hbs, slots := h.slots }

theorem putChar_invF (t : Table) (c : Nat) (h : CInvF t) : CInvF (putChar t c) := by
  unfold putChar
  split
  · exact h
  · apply cinvF_chars t h
    intro x hx
    rcases List.mem_append.mp hx with hx | hx
    · exact h.chars x hx
    · simp only [List.mem_singleton] at hx
      subst hx
      exact ⟨chainOK_nil _ _ _, (by intro i hi; cases hi), rfl, rfl⟩

theorem putDots_invF (t : Table) (d : Nat) (h : CInvF t) : CInvF (putDots t d) := by
  unfold putDots
  split
  · exact h
  · apply cinvF_dots t h
    intro x hx
    rcases List.mem_append.mp hx with hx | hx
    · exact h.dots x hx
    · simp only [List.mem_singleton] at hx
      subst hx
      exact ⟨chainOK_nil _ _ _, (by intro i hi; cases hi)⟩

theorem updChar_invF (t : Table) (c : Nat) (f : CharRec → CharRec) (h : CInvF t)
    (hf : ∀ x ∈ t.chars, x.value = c → CharRecOK t.rule? (f x)) : CInvF (updChar t c f) := by
  unfold updChar
  apply cinvF_chars t h
  intro x hx
  obtain ⟨y, hy, rfl⟩ := List.mem_map.mp hx
  by_cases hv : (y.value == c) = true
  · simp only [hv, if_true]; exact hf y hy (by simpa using hv)
  · simp only [hv, Bool.false_eq_true, if_false]; exact h.chars y hy

theorem updDots_invF (t : Table) (d : Nat) (f : DotsRec → DotsRec) (h : CInvF t)
    (hf : ∀ x ∈ t.dots, x.value = d → DotsRecOK t.rule? (f x)) : CInvF (updDots t d f) := by
  unfold updDots
  apply cinvF_dots t h
  intro x hx
  obtain ⟨y, hy, rfl⟩ := List.mem_map.mp hx
  by_cases hv : (y.value == d) = true
  · simp only [hv, if_true]; exact hf y hy (by simpa using hv)
  · simp only [hv, Bool.false_eq_true, if_false]; exact h.dots y hy

/-! ### buckets -/

theorem updBucket_keys (bs : List (Nat × List Nat)) (h : Nat) (f : List Nat → List Nat) (hn : (bs.map (·.1)).Nodup) :
    ((updBucket bs h f).map (·.1)).Nodup := by
  unfold updBucket
  split
  · have : (bs.map fun b => if (b.1 == h) = true then (b.1, f b.2) else b).map (·.1) = bs.map (·.1) := by
      rw [List.map_map]
      apply List.map_congr_left
      intro b _
      simp only [Function.comp]
      split <;> rfl
    rw [this]; exact hn
  next hany =>
    rw [List.map_append]
    simp only [List.map_cons, List.map_nil]
    refine List.nodup_append.mpr ⟨hn, by simp, ?_⟩
    intro a ha b hb
    simp only [List.mem_singleton] at hb
    subst hb
    intro he
    subst he
    apply hany
    obtain ⟨x, hx, hxe⟩ := List.mem_map.mp ha
    exact List.any_eq_true.mpr ⟨x, hx, by simpa using hxe⟩

theorem updBucket_bound (bs : List (Nat × List Nat)) (h : Nat) (f : List Nat → List Nat) (hh : h < HASHNUM)
    (hb : ∀ b ∈ bs, b.1 < HASHNUM) : ∀ b ∈ updBucket bs h f, b.1 < HASHNUM := by
  intro b hbm
  rcases mem_updBucket _ _ _ _ hbm with hbm | ⟨old, _, rfl⟩ | ⟨_, rfl⟩
  · exact hb b hbm
  · exact hh
  · exact hh

theorem rawHash_lt (a b : Nat) : rawHash a b < HASHNUM := by
  unfold rawHash; exact Nat.mod_lt _ (by decide)

def CharsBelow (n : Nat) (t : Table) : Prop := ∀ c ∈ t.chars, ∀ i ∈ c.chain, i < n
def DotsBelow (n : Nat) (t : Table) : Prop := ∀ d ∈ t.dots, ∀ i ∈ d.chain, i < n
def ForBelow (n : Nat) (t : Table) : Prop := ∀ b ∈ t.forB, ∀ i ∈ b.2, i < n
def BackBelow (n : Nat) (t : Table) : Prop := ∀ b ∈ t.backB, ∀ i ∈ b.2, i < n

theorem below_of_inv (t : Table) (h : CInvF t) :
    CharsBelow t.ruleCounter t ∧ DotsBelow t.ruleCounter t ∧ ForBelow t.ruleCounter t ∧ BackBelow t.ruleCounter t :=
  ⟨fun c hc => chain_below t h _ _ _ (h.chars c hc).1, fun d hd => chain_below t h _ _ _ (h.dots d hd).1,
   fun b hb => chain_below t h _ _ _ (h.forB.1 b hb), fun b hb => chain_below t h _ _ _ (h.backB.1 b hb)⟩

/-- `addForwardRuleWithMultipleChars` keeps the invariant -/
theorem addFwdMulti_invF (t : Table) (r : Rule) (h : CInvF t) (hreg : t.rule? r.idx = some r) (hlen : 2 ≤ r.chars.length)
    (hmax : ForBelow r.idx t) : CInvF (addFwdMulti t r) := by
  show CInvF { t with forB := updBucket t.forB (rawHash (r.chars.getD 0 0) (r.chars.getD 1 0)) (insertBefore (stopFwd r) t r.idx) }
  apply cinvF_forB t h
  refine ⟨?_, updBucket_keys _ _ _ h.forB.2.1, updBucket_bound _ _ _ (rawHash_lt _ _) h.forB.2.2⟩
  intro b hb
  have hR : ∀ rs : List Rule, rs.Pairwise le → (∀ o ∈ rs, o.idx < r.idx) →
      (∀ o ∈ rs, FwdM (rawHash (r.chars.getD 0 0) (r.chars.getD 1 0)) o) → (insR (stopFwd r) r rs).Pairwise le :=
    fun rs hp hi _ => insR_sorted r rs hp hi
  rcases mem_updBucket _ _ _ _ hb with hb | ⟨old, hold, rfl⟩ | ⟨_, rfl⟩
  · exact h.forB.1 b hb
  · dsimp only
    exact chainOK_insert _ t r _ _ old (h.forB.1 _ hold) hreg ⟨hlen, rfl⟩ (hmax _ hold) hR
  · dsimp only
    exact chainOK_insert _ t r _ _ [] (chainOK_nil _ _ _) hreg ⟨hlen, rfl⟩ (by intro i hi; cases hi) hR

/-- `addBackwardRuleWithMultipleCells` keeps the invariant -/
theorem addBackMulti_invF (t : Table) (r : Rule) (h : CInvF t) (hreg : t.rule? r.idx = some r) (hlen : 2 ≤ r.dots.length)
    (hmax : BackBelow r.idx t) : CInvF (addBackMulti t r) := by
  unfold addBackMulti
  split
  · exact h
  next hsw =>
    apply cinvF_backB t h
    refine ⟨?_, updBucket_keys _ _ _ h.backB.2.1, updBucket_bound _ _ _ (rawHash_lt _ _) h.backB.2.2⟩
    intro b hb
    have hM : BackM (rawHash (r.dots.getD 0 0) (r.dots.getD 1 0)) r := ⟨hlen, rfl, by simpa using hsw⟩
    rcases mem_updBucket _ _ _ _ hb with hb | ⟨old, hold, rfl⟩ | ⟨_, rfl⟩
    · exact h.backB.1 b hb
    · dsimp only
      exact chainOK_insert _ t r _ _ old (h.backB.1 _ hold) hreg hM (hmax _ hold) (fun _ _ _ _ => pairwise_true _)
    · dsimp only
      exact chainOK_insert _ t r _ _ [] (chainOK_nil _ _ _) hreg hM (by intro i hi; cases hi) (fun _ _ _ _ => pairwise_true _)

theorem list_len1 (l : List Nat) (h : l.length = 1) : l = [l.headD 0] := by
  match l, h with
  | [a], _ => rfl

theorem putChar_rule? (t : Table) (c : Nat) : (putChar t c).rule? = t.rule? := by
  unfold putChar; split <;> rfl

theorem putDots_rule? (t : Table) (d : Nat) : (putDots t d).rule? = t.rule? := by
  unfold putDots; split <;> rfl

theorem putChar_below (t : Table) (c n : Nat) (h : CharsBelow n t) : CharsBelow n (putChar t c) := by
  unfold putChar
  split
  · exact h
  · intro x hx
    rcases List.mem_append.mp hx with hx | hx
    · exact h x hx
    · simp only [List.mem_singleton] at hx
      subst hx; intro i hi; cases hi

theorem putDots_below (t : Table) (d n : Nat) (h : DotsBelow n t) : DotsBelow n (putDots t d) := by
  unfold putDots
  split
  · exact h
  · intro x hx
    rcases List.mem_append.mp hx with hx | hx
    · exact h x hx
    · simp only [List.mem_singleton] at hx
      subst hx; intro i hi; cases hi

theorem updChar_below (t : Table) (c n : Nat) (f : CharRec → CharRec) (h : CharsBelow n t) (hf : ∀ x, (f x).chain = x.chain) :
    CharsBelow n (updChar t c f) := by
  intro x hx
  unfold updChar at hx
  obtain ⟨y, hy, rfl⟩ := List.mem_map.mp hx
  split
  · rw [hf]; exact h y hy
  · exact h y hy

theorem updDots_below (t : Table) (d n : Nat) (f : DotsRec → DotsRec) (h : DotsBelow n t) (hf : ∀ x, (f x).chain = x.chain) :
    DotsBelow n (updDots t d f) := by
  intro x hx
  unfold updDots at hx
  obtain ⟨y, hy, rfl⟩ := List.mem_map.mp hx
  split
  · rw [hf]; exact h y hy
  · exact h y hy

/-- `addForwardRuleWithSingleChar` keeps the invariant -/
theorem addFwdSingle_invF (t : Table) (r : Rule) (h : CInvF t) (hreg : t.rule? r.idx = some r) (hlen : r.chars.length = 1)
    (hmax : CharsBelow r.idx t) : CInvF (addFwdSingle t r) := by
  have hchars : r.chars = [r.chars.headD 0] := list_len1 _ hlen
  unfold addFwdSingle
  dsimp only
  generalize r.chars.headD 0 = c at hchars
  have h1 := putChar_invF t c h
  have b1 := putChar_below t c r.idx hmax
  have reg1 : (putChar t c).rule? r.idx = some r := by rw [putChar_rule?]; exact hreg
  generalize putChar t c = t1 at h1 b1 reg1
  -- the definition-rule step
  have h2 : CInvF (if isDefOpcode r.opcode = true then
      updChar t1 c fun cr => if cr.defRule.isSome = true then cr else { cr with defRule := some r.idx } else t1) ∧
      CharsBelow r.idx (if isDefOpcode r.opcode = true then
      updChar t1 c fun cr => if cr.defRule.isSome = true then cr else { cr with defRule := some r.idx } else t1) ∧
      (if isDefOpcode r.opcode = true then
      updChar t1 c fun cr => if cr.defRule.isSome = true then cr else { cr with defRule := some r.idx } else t1).rule? r.idx = some r := by
    split
    next hd =>
      refine ⟨?_, ?_, reg1⟩
      · apply updChar_invF t1 c _ h1
        intro x hx hv
        have hx0 := h1.chars x hx
        split
        · exact hx0
        · refine ⟨hx0.1, ?_, hx0.2.2.1, hx0.2.2.2⟩
          intro i hi
          simp only [Option.some.injEq] at hi
          subst hi
          exact ⟨r, reg1, rfl, hd, by rw [hchars, hv]⟩
      · apply updChar_below t1 c r.idx _ b1
        intro x; split <;> rfl
    · exact ⟨h1, b1, reg1⟩
  obtain ⟨h2, b2, reg2⟩ := h2
  generalize (if isDefOpcode r.opcode = true then
      updChar t1 c fun cr => if cr.defRule.isSome = true then cr else { cr with defRule := some r.idx } else t1) = t2 at h2 b2 reg2
  apply updChar_invF t2 c _ h2
  intro x hx hv
  have hx0 := h2.chars x hx
  refine ⟨?_, hx0.2.1, hx0.2.2.1, hx0.2.2.2⟩
  show ChainOK t2.rule? (CharM x.value) CharLe (insertBefore (stopChar r) t2 r.idx x.chain)
  refine chainOK_insert _ t2 r _ _ x.chain hx0.1 reg2 (by unfold CharM; rw [hchars, hv]) (b2 x hx) ?_
  intro rs hp hi hm
  apply insR_charSorted r rs hp hi
  intro o ho
  have := hm o ho
  unfold CharM at this
  rw [this]; simp

/-- `addBackwardRuleWithSingleCell` keeps the invariant -/
theorem addBackSingle_invF (t : Table) (r : Rule) (h : CInvF t) (hreg : t.rule? r.idx = some r) (hlen : r.dots.length = 1)
    (hmax : DotsBelow r.idx t) : CInvF (addBackSingle t r (r.dots.headD 0)) := by
  have hdots : r.dots = [r.dots.headD 0] := list_len1 _ hlen
  unfold addBackSingle
  split
  · exact h
  next hsw =>
    simp only [Bool.or_eq_true, beq_iff_eq, not_or] at hsw
    dsimp only
    generalize r.dots.headD 0 = d at hdots
    have h1 := putDots_invF t d h
    have b1 := putDots_below t d r.idx hmax
    have reg1 : (putDots t d).rule? r.idx = some r := by rw [putDots_rule?]; exact hreg
    generalize putDots t d = t1 at h1 b1 reg1
    have h2 : CInvF (if isDefOpcode r.opcode = true then updDots t1 d fun dr => { dr with defRule := some r.idx } else t1) ∧
        DotsBelow r.idx (if isDefOpcode r.opcode = true then updDots t1 d fun dr => { dr with defRule := some r.idx } else t1) ∧
        (if isDefOpcode r.opcode = true then updDots t1 d fun dr => { dr with defRule := some r.idx } else t1).rule? r.idx = some r := by
      split
      next hd =>
        refine ⟨?_, ?_, reg1⟩
        · apply updDots_invF t1 d _ h1
          intro x hx hv
          have hx0 := h1.dots x hx
          refine ⟨hx0.1, ?_⟩
          intro i hi
          simp only [Option.some.injEq] at hi
          subst hi
          exact ⟨r, reg1, rfl, hd, by rw [hdots, hv]⟩
        · apply updDots_below t1 d r.idx _ b1
          intro x; rfl
      · exact ⟨h1, b1, reg1⟩
    obtain ⟨h2, b2, reg2⟩ := h2
    generalize (if isDefOpcode r.opcode = true then updDots t1 d fun dr => { dr with defRule := some r.idx } else t1) = t2
      at h2 b2 reg2
    apply updDots_invF t2 d _ h2
    intro x hx hv
    have hx0 := h2.dots x hx
    refine ⟨?_, hx0.2⟩
    refine chainOK_insert _ t2 r _ _ x.chain hx0.1 reg2 ⟨by rw [hdots, hv], hsw.1, hsw.2⟩ (b2 x hx)
      (fun _ _ _ _ => pairwise_true _)

/-! ### registerRule, addRule -/

theorem registerRule_invF (t : Table) (e : Entry) (h : CInvF t) (hop : e.opcode ≠ CTO_Context) :
    CInvF (registerRule t (newRule t e)) ∧
    (registerRule t (newRule t e)).rule? (newRule t e).idx = some (newRule t e) ∧
    CharsBelow (newRule t e).idx (registerRule t (newRule t e)) ∧ DotsBelow (newRule t e).idx (registerRule t (newRule t e)) ∧
    ForBelow (newRule t e).idx (registerRule t (newRule t e)) ∧ BackBelow (newRule t e).idx (registerRule t (newRule t e)) := by
  have hopc : (newRule t e).opcode = e.opcode := rfl
  generalize hrdef : newRule t e = r at hopc
  have hridx : r.idx = t.ruleCounter := by rw [← hrdef]; rfl
  have hfresh : ∀ o ∈ t.rules, o.idx ≠ r.idx := by
    intro o ho; have := h.idxLt o ho; omega
  have hlook : ∀ i, (registerRule t r).rule? i = if i = r.idx then some r else t.rule? i := by
    intro i
    have := rule?_append t r i hfresh
    unfold registerRule Table.rule? at *
    exact this
  have hag : ∀ i, i < t.ruleCounter → (registerRule t r).rule? i = t.rule? i := by
    intro i hi; rw [hlook, if_neg (by omega)]
  obtain ⟨bc, bd, bf, bb⟩ := below_of_inv t h
  have hchain : ∀ (M : Rule → Prop) (R : Rule → Rule → Prop) (chain : List Nat), ChainOK t.rule? M R chain →
      ChainOK (registerRule t r).rule? M R chain := by
    intro M R chain hc
    exact chainOK_congr _ _ M R chain (fun i hi => hag i (chain_below t h M R chain hc i hi)) hc
  have hdef : ∀ (o : Option Nat) (P : Rule → Prop), DefOK t.rule? o P → DefOK (registerRule t r).rule? o P := by
    intro o P hd
    exact defOK_congr _ _ o P (fun i hi => hag i (defOK_below t h o P hd i hi)) hd
  refine ⟨⟨?_, ?_, ?_, ?_, ?_, ?_, ?_, ?_⟩, ?_, ?_, ?_, ?_, ?_⟩
  · intro x hx
    unfold registerRule at hx ⊢
    rcases List.mem_append.mp hx with hx | hx
    · have := h.idxLt x hx; dsimp only; omega
    · simp at hx; subst hx; dsimp only; omega
  · show (t.rules ++ [r]).Pairwise _
    refine List.pairwise_append.mpr ⟨h.sortedRules, by simp, ?_⟩
    intro a ha b hb
    simp only [List.mem_singleton] at hb
    subst hb
    have := h.idxLt a ha; omega
  · intro x hx
    have hx' : x ∈ t.rules ++ [r] := hx
    rcases List.mem_append.mp hx' with hx' | hx'
    · exact h.noContext x hx'
    · simp only [List.mem_singleton] at hx'
      subst hx'; rw [hopc]; exact hop
  · intro c hc
    have hc0 := h.chars c hc
    exact ⟨hchain _ _ _ hc0.1, hdef _ _ hc0.2.1, hc0.2.2.1, hc0.2.2.2⟩
  · intro d hd
    have hd0 := h.dots d hd
    exact ⟨hchain _ _ _ hd0.1, hdef _ _ hd0.2⟩
  · exact ⟨fun b hb => hchain _ _ _ (h.forB.1 b hb), h.forB.2⟩
  · exact ⟨fun b hb => hchain _ _ _ (h.backB.1 b hb), h.backB.2⟩
  · obtain ⟨s1, s2, s3⟩ := h.slots
    exact ⟨hdef _ _ s1, hdef _ _ s2, s3⟩
  · rw [hlook]; simp
  · rw [hridx]; exact bc
  · rw [hridx]; exact bd
  · rw [hridx]; exact bf
  · rw [hridx]; exact bb

/-- the forward link step changes only `chars` / `forB` -/
theorem linkFwd_frame (t : Table) (e : Entry) (r : Rule) :
    (linkFwd t e r).rule? = t.rule? ∧ (linkFwd t e r).dots = t.dots ∧ (linkFwd t e r).backB = t.backB := by
  unfold linkFwd
  split
  · exact ⟨rfl, rfl, rfl⟩
  · split
    · unfold addFwdSingle putChar
      dsimp only
      split <;> split <;> exact ⟨rfl, rfl, rfl⟩
    · split
      · exact ⟨rfl, rfl, rfl⟩
      · exact ⟨rfl, rfl, rfl⟩

theorem linkFwd_invF (t : Table) (e : Entry) (r : Rule) (h : CInvF t) (hreg : t.rule? r.idx = some r)
    (bc : CharsBelow r.idx t) (bf : ForBelow r.idx t) : CInvF (linkFwd t e r) := by
  unfold linkFwd
  split
  · exact h
  · split
    next h1 => exact addFwdSingle_invF t r h hreg (by simpa using h1) bc
    · split
      next h2 => exact addFwdMulti_invF t r h hreg (Nat.succ_le_of_lt (by simpa using h2)) bf
      · exact h

theorem linkBack_invF (t : Table) (e : Entry) (r : Rule) (h : CInvF t) (hreg : t.rule? r.idx = some r)
    (bd : DotsBelow r.idx t) (bb : BackBelow r.idx t) : CInvF (linkBack t e r) := by
  unfold linkBack
  split
  · exact h
  · split
    next h1 => exact addBackSingle_invF t r h hreg (by simpa using h1) bd
    · split
      next h2 => exact addBackMulti_invF t r h hreg (Nat.succ_le_of_lt (by simpa using h2)) bb
      · exact h

/-- **addRule** keeps the invariant; the new index resolves in the result -/
theorem addRule_invF (t : Table) (e : Entry) (h : CInvF t) (hop : e.opcode ≠ CTO_Context) :
    CInvF (addRule t e).1 ∧ ∃ r, (addRule t e).1.rule? (addRule t e).2 = some r ∧ r.idx = (addRule t e).2 := by
  unfold addRule
  dsimp only
  obtain ⟨h1, hreg, bc, bd, bf, bb⟩ := registerRule_invF t e h hop
  generalize newRule t e = r at h1 hreg bc bd bf bb ⊢
  generalize registerRule t r = t1 at h1 hreg bc bd bf bb ⊢
  have h2 := linkFwd_invF t1 e r h1 hreg bc bf
  obtain ⟨f1, f2, f3⟩ := linkFwd_frame t1 e r
  have hreg2 : (linkFwd t1 e r).rule? r.idx = some r := by rw [f1]; exact hreg
  have bd2 : DotsBelow r.idx (linkFwd t1 e r) := by unfold DotsBelow; rw [f2]; exact bd
  have bb2 : BackBelow r.idx (linkFwd t1 e r) := by unfold BackBelow; rw [f3]; exact bb
  generalize linkFwd t1 e r = t2 at h2 hreg2 bd2 bb2
  refine ⟨linkBack_invF t2 e r h2 hreg2 bd2 bb2, r, ?_, rfl⟩
  have : (linkBack t2 e r).rule? = t2.rule? := by
    unfold linkBack
    split
    · rfl
    · split
      · unfold addBackSingle putDots
        split
        · rfl
        · dsimp only
          split <;> split <;> rfl
      · split
        · unfold addBackMulti; split <;> rfl
        · rfl
  rw [this]; exact hreg2

theorem foldl_putDots_invF (l : List Nat) : ∀ (t : Table), CInvF t → CInvF (l.foldl putDots t) := by
  induction l with
  | nil => intro t h; exact h
  | cons d ds ih => intro t h; exact ih _ (putDots_invF t d h)

theorem prepCharDef_invF (t : Table) (c : Nat) (dots : List Nat) (at' : Nat) (h : CInvF t) :
    CInvF (prepCharDef t c dots at') := by
  unfold prepCharDef
  dsimp only
  have h1 := putChar_invF t c h
  have h2 : CInvF (updChar (putChar t c) c fun cr => { cr with attrs := cr.attrs ||| at' }) :=
    updChar_invF _ c _ h1 (fun x hx _ => h1.chars x hx)
  have h3 := foldl_putDots_invF dots.reverse _ h2
  split
  · exact updDots_invF _ _ _ h3 (fun x hx _ => h3.dots x hx)
  · exact h3

/-- setting an indicator slot to a resolving index -/
theorem slot_invF (t t' : Table) (h : CInvF t) (hr : t'.rules = t.rules) (hc : t'.ruleCounter = t.ruleCounter)
    (hch : t'.chars = t.chars) (hd : t'.dots = t.dots) (hf : t'.forB = t.forB) (hb : t'.backB = t.backB)
    (hs : SlotsOK t.rule? t') : CInvF t' := by
  have hrule : t'.rule? = t.rule? := by funext i; unfold Table.rule?; rw [hr]
  refine ⟨?_, ?_, ?_, ?_, ?_, ?_, ?_, ?_⟩
  · rw [hr, hc]; exact h.idxLt
  · rw [hr]; exact h.sortedRules
  · rw [hr]; exact h.noContext
  · rw [hch, hrule]; exact h.chars
  · rw [hd, hrule]; exact h.dots
  · rw [hf, hrule]; exact h.forB
  · rw [hb, hrule]; exact h.backB
  · rw [hrule]; exact hs

/-- one compiled entry keeps the invariant -/
theorem compileEntry_invF (t t' : Table) (e : Entry) (h : CInvF t) (hop : e.opcode ≠ CTO_Context)
    (hc : compileEntry t e = some t') : CInvF t' := by
  unfold compileEntry at hc
  split at hc
  next a _ =>
    unfold compileCharDef at hc
    split at hc
    next c _ =>
      split at hc
      · cases hc
      · simp only [Option.some.injEq] at hc
        subst hc
        exact (addRule_invF _ e (prepCharDef_invF t c e.dots _ h) hop).1
    · cases hc
  next =>
    split at hc
    · split at hc
      · cases hc
      · simp only [Option.some.injEq] at hc
        subst hc
        obtain ⟨hi, r, hr, hidx⟩ := addRule_invF t { e with chars := [] } h hop
        obtain ⟨s1, s2, s3⟩ := hi.slots
        refine slot_invF _ _ hi rfl rfl rfl rfl rfl rfl ⟨s1, ?_, s3⟩
        intro i hi'
        simp only [Option.some.injEq] at hi'
        subst hi'
        exact ⟨r, hr, hidx, trivial⟩
    · split at hc
      · split at hc
        · cases hc
        · simp only [Option.some.injEq] at hc
          subst hc
          obtain ⟨hi, r, hr, hidx⟩ := addRule_invF t { e with chars := [] } h hop
          obtain ⟨s1, s2, s3⟩ := hi.slots
          refine slot_invF _ _ hi rfl rfl rfl rfl rfl rfl ⟨?_, s2, s3⟩
          intro i hi'
          simp only [Option.some.injEq] at hi'
          subst hi'
          exact ⟨r, hr, hidx, trivial⟩
      · split at hc
        · cases hc
        · split at hc
          · cases hc
          · simp only [Option.some.injEq] at hc
            subst hc
            exact (addRule_invF t e h hop).1

theorem foldlM_invF (es : List Entry) : ∀ (t t' : Table), CInvF t → (∀ e ∈ es, e.opcode ≠ CTO_Context) →
    es.foldlM compileEntry t = some t' → CInvF t' := by
  induction es with
  | nil => intro t t' h _ hc; simp at hc; subst hc; exact h
  | cons e es ih =>
    intro t t' h hop hc
    simp only [List.foldlM_cons, Option.bind_eq_bind] at hc
    cases hce : compileEntry t e with
    | none => simp [hce] at hc
    | some t1 =>
      simp only [hce, Option.bind_some] at hc
      exact ih t1 t' (compileEntry_invF t t1 e h (hop e (List.mem_cons_self ..)) hce)
        (fun x hx => hop x (List.mem_cons_of_mem _ hx)) hc

theorem init_invF : CInvF initTable := by
  refine ⟨?_, ?_, ?_, ?_, ?_, ?_, ?_, ?_⟩ <;> simp [initTable, ForOK, BackOK, SlotsOK, DefOK]

theorem start_invF : CInvF ((compileEntry initTable endSegmentEntry).getD initTable) := by
  cases hce : compileEntry initTable endSegmentEntry with
  | none => simpa using init_invF
  | some t1 => simpa using compileEntry_invF initTable t1 endSegmentEntry init_invF (by decide) hce

/-- the invariant holds after every prefix of the entries — i.e. also after any number of run-time additions -/
theorem compileUnfinalised_invF (es : List Entry) (t : Table) (hop : ∀ e ∈ es, e.opcode ≠ CTO_Context)
    (hc : compileUnfinalised es = some t) : CInvF t := by
  unfold compileUnfinalised at hc
  exact foldlM_invF es _ t start_invF hop hc

theorem finalise_invF (t : Table) (h : CInvF t) : CInvF (finalise t) :=
  slot_invF t (finalise t) h rfl rfl rfl rfl rfl rfl h.slots

/-! ### from the invariant to the property's clauses -/

theorem rule?_mem (t : Table) (i : Nat) (r : Rule) (h : t.rule? i = some r) : r ∈ t.rules := by
  unfold Table.rule? at h; exact List.mem_of_find?_eq_some h

theorem chainAll_of_ok (t : Table) (hs : t.rules.Pairwise (fun a b => a.idx < b.idx)) (M P : Rule → Prop)
    (R : Rule → Rule → Prop) (chain : List Nat) (hc : ChainOK t.rule? M R chain) (hMP : ∀ r ∈ t.rules, M r → P r) :
    ChainAll t chain P := by
  intro i hi r hr
  obtain ⟨r0, a, _, c⟩ := hc.1 i hi
  have : r = r0 := by
    have := rule?_of_res t hs i r hr
    rw [a] at this; exact (Option.some.inj this).symm
  subst this
  exact hMP r hr.1 c

theorem chainOrdered_of_ok (t : Table) (hs : t.rules.Pairwise (fun a b => a.idx < b.idx)) (M : Rule → Prop)
    (R : Rule → Rule → Prop) (chain : List Nat) (hc : ChainOK t.rule? M R chain) : ChainOrdered t chain R := by
  unfold ChainOrdered
  refine List.Pairwise.imp ?_ (List.pairwise_filterMap.mp hc.2.1)
  intro i j hij ri rj hri hrj
  exact hij ri (rule?_of_res t hs i ri hri) rj (rule?_of_res t hs j rj hrj)

theorem chain_resolves_of_ok (t : Table) (M : Rule → Prop) (R : Rule → Rule → Prop) (chain : List Nat)
    (hc : ChainOK t.rule? M R chain) : ∀ i ∈ chain, Resolves t i := by
  intro i hi
  obtain ⟨r, a, b, _⟩ := hc.1 i hi
  exact ⟨r, rule?_mem t i r a, b⟩

theorem resolvesOpt_of_def (t : Table) (o : Option Nat) (P : Rule → Prop) (hd : DefOK t.rule? o P) : ResolvesOpt t o := by
  intro i hi
  obtain ⟨r, a, b, _⟩ := hd i hi
  exact ⟨r, rule?_mem t i r a, b⟩

theorem optAll_of_def (t : Table) (hs : t.rules.Pairwise (fun a b => a.idx < b.idx)) (o : Option Nat) (P : Rule → Prop)
    (hd : DefOK t.rule? o P) : OptAll t o P := by
  intro i hi r hr
  obtain ⟨r0, a, _, c⟩ := hd i hi
  have := rule?_of_res t hs i r hr
  rw [a] at this
  rw [← Option.some.inj this]; exact c

theorem resolvesOpt_none (t : Table) : ResolvesOpt t none := by intro i hi; cases hi
theorem optAll_none (t : Table) (P : Rule → Prop) : OptAll t none P := by intro i hi; cases hi

/-- the invariant implies every rule clause of the property (with no `linked` records: the fragment has no `base`) -/
theorem consistent_of_invF (t : Table) (h : CInvF t) : TableConsistent t [] := by
  have hs := h.sortedRules
  obtain ⟨sU, sN, sL, sC, sNN, sB, sE, sFP, sBP, sEm⟩ := h.slots
  have hback : ∀ r ∈ t.rules, backCells r = r.dots := by
    intro r hr
    unfold backCells
    rw [if_neg (by simpa using h.noContext r hr)]
  have hfwd : ∀ r ∈ t.rules, fwdHash t [] r = rawHash (r.chars.getD 0 0) (r.chars.getD 1 0) := by
    intro r hr
    unfold fwdHash
    have : (r.opcode == CTO_Context) = false := by simpa using h.noContext r hr
    simp [this]
  refine {
    rulesSorted := hs
    belowCounter := h.idxLt
    resChars := fun c hc => ⟨chain_resolves_of_ok t _ _ _ (h.chars c hc).1, resolvesOpt_of_def t _ _ (h.chars c hc).2.1,
      by rw [(h.chars c hc).2.2.1]; exact resolvesOpt_none t⟩
    resDots := fun d hd => ⟨chain_resolves_of_ok t _ _ _ (h.dots d hd).1, resolvesOpt_of_def t _ _ (h.dots d hd).2⟩
    resFor := fun b hb => chain_resolves_of_ok t _ _ _ (h.forB.1 b hb)
    resBack := fun b hb => chain_resolves_of_ok t _ _ _ (h.backB.1 b hb)
    resForPass := by rw [sFP]; intro b hb; cases hb
    resBackPass := by rw [sBP]; intro b hb; cases hb
    resEmph := by rw [sEm]; intro b hb; cases hb
    resSlots := ⟨resolvesOpt_of_def t _ _ sU, by rw [sL]; exact resolvesOpt_none t, resolvesOpt_of_def t _ _ sN,
      by rw [sC]; exact resolvesOpt_none t, by rw [sNN]; exact resolvesOpt_none t, by rw [sB]; exact resolvesOpt_none t,
      by rw [sE]; exact resolvesOpt_none t⟩
    nodupChars := fun c hc => (h.chars c hc).1.2.2
    nodupDots := fun d hd => (h.dots d hd).1.2.2
    nodupFor := fun b hb => (h.forB.1 b hb).2.2
    nodupBack := fun b hb => (h.backB.1 b hb).2.2
    nodupForPass := by rw [sFP]; intro b hb; cases hb
    nodupBackPass := by rw [sBP]; intro b hb; cases hb
    keysFor := h.forB.2
    keysBack := h.backB.2
    keysForPass := by rw [sFP]; exact ⟨List.nodup_nil, by intro b hb; cases hb⟩
    keysBackPass := by rw [sBP]; exact ⟨List.nodup_nil, by intro b hb; cases hb⟩
    fwdMember := fun b hb => chainAll_of_ok t hs _ _ _ _ (h.forB.1 b hb) (fun r hr hm => ⟨hm.1, by rw [hfwd r hr]; exact hm.2⟩)
    backMember := fun b hb => chainAll_of_ok t hs _ _ _ _ (h.backB.1 b hb) (fun r hr hm => by
      unfold backHash; rw [hback r hr]; exact hm)
    charMember := fun c hc => chainAll_of_ok t hs _ _ _ _ (h.chars c hc).1 (fun _ _ hm => hm)
    dotsMember := fun d hd => chainAll_of_ok t hs _ _ _ _ (h.dots d hd).1 (fun r hr hm => by rw [hback r hr]; exact hm)
    charDef := fun c hc => ⟨optAll_of_def t hs _ _ (h.chars c hc).2.1, by rw [(h.chars c hc).2.2.1]; exact optAll_none t _⟩
    dotsDef := fun d hd => optAll_of_def t hs _ _ (h.dots d hd).2
    charBase := fun c hc b hb => by rw [(h.chars c hc).2.2.2] at hb; cases hb
    fwdOrder := fun b hb => chainOrdered_of_ok t hs _ _ _ (h.forB.1 b hb)
    charOrder := fun c hc => chainOrdered_of_ok t hs _ _ _ (h.chars c hc).1
    forPassMember := by rw [sFP]; intro b hb; cases hb
    backPassMember := by rw [sBP]; intro b hb; cases hb
    forPassOrder := by rw [sFP]; intro b hb; cases hb
    backPassOrder := by rw [sBP]; intro b hb; cases hb }

/-- **compile_consistent**: for EVERY list of entries of the fragment F0′ that the compile model accepts,
    the finalised logical table satisfies every rule clause of the property: all stored indices resolve,
    chains are duplicate-free, every rule sits in the bucket of the raw hash of its first two characters /
    cells, character and cell chains hold only rules of that character / cell, definition rules are
    definition rules of their character, forward chains are ordered longest first with `always` last among
    equals and definition order otherwise, character chains hold non-definition rules before definition rules. -/
theorem compile_consistent (es : List Entry) (t : Table) (hop : ∀ e ∈ es, e.opcode ≠ CTO_Context)
    (hc : compile es = some t) : TableConsistent t [] := by
  unfold compile at hc
  obtain ⟨t0, ht0, rfl⟩ := Option.map_eq_some_iff.mp hc
  exact consistent_of_invF _ (finalise_invF t0 (compileUnfinalised_invF es t0 hop ht0))

/-- the same before finalisation, i.e. for the table as it stands after any number of run-time additions
    (`compileUnfinalised (es ++ adds)`, C15 `add_eq_append`): *this stays true after rules are added at run time* -/
theorem compile_consistent_unfinalised (es : List Entry) (t : Table) (hop : ∀ e ∈ es, e.opcode ≠ CTO_Context)
    (hc : compileUnfinalised es = some t) : TableConsistent t [] :=
  consistent_of_invF t (compileUnfinalised_invF es t hop hc)

/-- non-vacuity: colliding bucket, duplicates of a string, an `always` among equals, a character with a
    translation rule and a definition; and the executable checker agrees on it -/
def exEntries : List Entry := [
    { opcode := CTO_LowerCase, chars := [97], dots := [0x8001] },
    { opcode := CTO_LowerCase, chars := [98], dots := [0x8003] },
    { opcode := CTO_Always, chars := [97, 98], dots := [0x8005] },
    { opcode := CTO_BegWord, chars := [97, 98], dots := [0x8006] },
    { opcode := CTO_Always, chars := [97], dots := [0x8007, 0x8001] },
    { opcode := CTO_Always, chars := [97, 98, 97], dots := [0x8007] }]

example : ∃ t, compile exEntries = some t ∧ t.forBucket (rawHash 97 98) = [6, 4, 3] ∧
    (t.char? 97).map (·.chain) = some [5, 1] ∧ checkTable t [] = [] := by
  refine ⟨_, rfl, ?_, ?_, ?_⟩ <;> decide

/-- the hypothesis is satisfiable … -/
example : ∀ e ∈ exEntries, e.opcode ≠ CTO_Context := by decide

/-- … and needed: the unrestricted statement is FALSE.  The model has no multipass compiler, so it files a
    `context` entry like an ordinary rule — backward under its cells — whereas the property (and the C code)
    file a `context` rule backward under its characters; the checker rejects the resulting table. -/
example : ∃ t, compile [{ opcode := CTO_LowerCase, chars := [97], dots := [0x8001] },
      { opcode := CTO_Context, chars := [97, 98], dots := [0x8001, 0x8002] }] = some t ∧ checkTable t [] ≠ [] := by
  refine ⟨_, rfl, ?_⟩; decide

end Lou.C12
