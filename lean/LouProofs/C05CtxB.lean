/-
  C05CtxB.lean — rule choice of the BACKWARD main pass with context rules (BackwardCtx.lean): the chain walk returns the
  first rule of the chain that is a candidate; every rule in front of it is not.
-/
import LouModel.BackwardCtx

namespace Lou.C05CtxB
open Lou Lou.Gen Lou.Back Lou.BackC

def candidate (t : Table) (mode : Nat) (ctx : Back.Ctx) (input : List Nat) (pos length before prevOp : Nat) (vars : List Nat) (r : Rule) : Bool :=
  if r.opcode == CTO_Context then
    decide (r.chars.length ≤ length) && (input.drop pos).take r.chars.length == r.chars &&
    (match Pass.backTest ⟨t, true, vars⟩ r.dots input pos (r.dots.length + 1) pos 0 (-1) (-1) false with
     | .fail => false
     | _ => true)
  else
    decide (r.dots.length ≤ length) && decide (r.dots.length > 0) && (input.drop pos).take r.dots.length == r.dots &&
    opcodeAccepts t mode ctx input pos r r.dots.length before (afterAttrs t input pos r.dots.length) prevOp

theorem walkChainC_first (t : Table) (mode : Nat) (ctx : Back.Ctx) (input : List Nat) (pos length before prevOp : Nat) (vars : List Nat) :
    ∀ (chain : List Nat) (s : SelC), walkChainC t mode ctx input pos length before prevOp vars chain = some s →
      ∃ pre i post r, chain = pre ++ i :: post ∧ t.rule? i = some r ∧ s.sel.rule = some r ∧
        candidate t mode ctx input pos length before prevOp vars r = true ∧
        ∀ j ∈ pre, ∀ q, t.rule? j = some q → candidate t mode ctx input pos length before prevOp vars q = false := by
  intro chain
  induction chain with
  | nil => intro s h; simp [walkChainC] at h
  | cons i rest ih =>
    intro s h
    unfold walkChainC at h
    cases hr : t.rule? i with
    | none => simp [hr] at h
    | some r =>
      simp only [hr] at h
      by_cases hcand : candidate t mode ctx input pos length before prevOp vars r = true
      · refine ⟨[], i, rest, r, rfl, hr, ?_, hcand, by simp⟩
        unfold candidate at hcand
        by_cases hctx : (r.opcode == CTO_Context) = true
        · simp only [hctx, ↓reduceIte, Bool.and_eq_true] at h hcand
          simp only [hcand.1.1, hcand.1.2, Bool.and_self, ↓reduceIte] at h
          cases ht : Pass.backTest ⟨t, true, vars⟩ r.dots input pos (r.dots.length + 1) pos 0 (-1) (-1) false with
          | unsupported => simp only [ht] at h; cases h; rfl
          | ok m ic => simp only [ht] at h; cases h; rfl
          | fail => simp [ht] at hcand
        · simp only [hctx, Bool.false_eq_true, ↓reduceIte] at h hcand
          simp only [hcand, ↓reduceIte] at h
          cases h; rfl
      · have hn : candidate t mode ctx input pos length before prevOp vars r = false := by simpa using hcand
        have hrest : walkChainC t mode ctx input pos length before prevOp vars rest = some s := by
          unfold candidate at hn
          by_cases hctx : (r.opcode == CTO_Context) = true
          · simp only [hctx, ↓reduceIte] at h hn
            by_cases hm : (decide (r.chars.length ≤ length) && (input.drop pos).take r.chars.length == r.chars) = true
            · simp only [hm, ↓reduceIte, Bool.true_and] at h hn
              cases ht : Pass.backTest ⟨t, true, vars⟩ r.dots input pos (r.dots.length + 1) pos 0 (-1) (-1) false with
              | unsupported => simp [ht] at hn
              | ok m ic => simp [ht] at hn
              | fail => simpa [ht] using h
            · simpa [hm] using h
          · simp only [hctx, Bool.false_eq_true, ↓reduceIte] at h hn
            simpa [hn] using h
        obtain ⟨pre, j, post, q, hch, hq, hsel, hcq, hpre⟩ := ih s hrest
        refine ⟨i :: pre, j, post, q, by simp [hch], hq, hsel, hcq, ?_⟩
        intro k hk q' hq'
        rcases List.mem_cons.mp hk with rfl | hk
        · rw [hr] at hq'; cases hq'; exact hn
        · exact hpre k hk q' hq'

end Lou.C05CtxB
