/-
  C11 — one-to-one tables round-trip exactly.

  `fwd_onetoone` / `back_onetoone`: on a table that passes the structural test `isOneToOne`
  the forward main-pass model maps every string over the table's characters cell by cell through
  the characters' definitions (all input consumed, identity position map), and the backward
  main-pass model does the inverse; `roundtrip_fwd_back` / `roundtrip_back_fwd` compose them.
  The engine models are the transcriptions `Lou.Fwd.translate` / `Lou.Back.translate`, tied to
  the code by the differential of C05/C11 on dumped tables.  Capacity is assumed sufficient
  (≥ the input length) and no cursor is tracked.
-/
import LouModel.OneToOne

namespace Lou.C11
open Lou Lou.Gen Lou.OneToOne

/-- what the forward proof needs from the table, for the characters of one string -/
structure FwdHyp (t : Table) (cellOf : Nat → Nat) (s : List Nat) : Prop where
  noFor : ∀ h, t.forBucket h = []
  noNum : t.numberSign = none
  char : ∀ c ∈ s, ∃ r, (t.getChar c).chain = [r.idx] ∧ t.rule? r.idx = some r ∧ isDefOp r.opcode = true ∧
    r.dots = [cellOf c] ∧ r.chars.length = 1

theorem defop_accepts (op mode : Nat) (dc : Bool) (b a p : Nat) (h : isDefOp op = true) :
    Fwd.opcodeAccepts op mode dc b a p = true := by
  unfold isDefOp at h
  unfold Fwd.opcodeAccepts
  simp only [Bool.and_eq_true, decide_eq_true_eq, bne_iff_ne, ne_eq] at h
  have h1 : (decide (CTO_Space ≤ op) && decide (op < CTO_UpLow)) = true := by simp [h.1.1, h.1.2]
  simp [h1]

theorem defop_ne_none (op : Nat) (h : isDefOp op = true) : (op == CTO_None) = false := by
  unfold isDefOp at h
  simp only [Bool.and_eq_true, decide_eq_true_eq] at h
  have : op < CTO_UpLow := h.1.2
  have h2 : CTO_UpLow < CTO_None := by decide
  simp; omega

/-- rule selection at a position holding a one-to-one character -/
theorem select_onetoone (t : Table) (cellOf : Nat → Nat) (s : List Nat) (hy : FwdHyp t cellOf s)
    (mode : Nat) (dc : Bool) (pos before prev : Nat) (hp : pos < s.length) :
    ∃ r, Fwd.selectRule t mode dc s pos before prev = { opcode := r.opcode, rule := some r, charslen := r.chars.length } ∧
      isDefOp r.opcode = true ∧ r.dots = [cellOf (Fwd.inAt s pos)] ∧ r.chars.length = 1 := by
  have hin : Fwd.inAt s pos ∈ s := by
    unfold Fwd.inAt
    rw [List.getD_eq_getElem?_getD, List.getElem?_eq_getElem hp]
    exact List.getElem_mem hp
  obtain ⟨r, hchain, hrule, hdef, hdots, hcl⟩ := hy.char _ hin
  refine ⟨r, ?_, hdef, hdots, hcl⟩
  unfold Fwd.selectRule
  simp only [hy.noFor, Fwd.walkChain]
  have hlen : s.length - pos ≥ 1 := by omega
  have : (if s.length - pos ≥ 2 then (none : Option Fwd.Sel) else none) = none := by split <;> rfl
  simp only [this, hlen, if_true, hchain, Fwd.walkChain, hrule]
  simp [defop_accepts _ _ _ _ _ _ hdef]


/-- driver-level invariant after k characters have been translated -/
structure FInv (cellOf : Nat → Nat) (s : List Nat) (k : Nat) (st : Fwd.St) : Prop where
  pos : st.pos = k
  cells : st.out.cells = (s.take k).map cellOf
  map : st.out.map = (List.range k).map (fun (i : Nat) => (i : Int))
  cstat : st.out.cstat = 1
  cpos : st.out.cpos = -1

theorem updatePositions_plain (d : Nat) (pos : Nat) (input : List Nat) (maxlen : Nat) (o : Fwd.Out)
    (hcs : o.cstat = 1) (hcap : o.cells.length + 1 ≤ maxlen) (hin : pos + 1 ≤ input.length) :
    Fwd.updatePositions [d] 1 0 pos input maxlen o =
      some { cells := o.cells ++ [d], map := o.map ++ [(pos : Int)], cpos := o.cpos, cstat := o.cstat } := by
  unfold Fwd.updatePositions
  have h1 : ¬ (o.cells.length + [d].length > maxlen) := by simp; omega
  have h2 : ¬ (pos + 1 > input.length) := by omega
  simp only [h1, h2, decide_false, Bool.or_false, Bool.false_eq_true, if_false, hcs]
  simp

/-- one loop iteration on a one-to-one character -/
theorem step_onetoone (t : Table) (cellOf : Nat → Nat) (s : List Nat) (hy : FwdHyp t cellOf s)
    (mode maxlen : Nat) (hm : s.length ≤ maxlen) (k : Nat) (hk : k < s.length) (st : Fwd.St)
    (hi : FInv cellOf s k st) :
    ∃ st', Fwd.step t mode s maxlen st = (st', false) ∧ FInv cellOf s (k + 1) st' := by
  unfold Fwd.step
  -- the lastWord bookkeeping touches neither position nor output
  generalize hst1 : (if (st.pos > 0 && Fwd.isSpace t (Fwd.inAt s (st.pos - 1)) && st.transOpcode != CTO_JoinableWord) = true
      then { st with lastIn := st.pos, lastOut := st.out.cells.length } else st) = st1
  have hi1 : FInv cellOf s k st1 := by
    rw [← hst1]; split
    · exact ⟨hi.pos, hi.cells, hi.map, hi.cstat, hi.cpos⟩
    · exact hi
  have hpos1 : st1.pos = k := hi1.pos
  have hne : (st1.pos == s.length) = false := by simp [hpos1]; omega
  simp only [hne, Bool.false_eq_true, if_false]
  obtain ⟨r, hsel, hdef, hdots, hcl⟩ := select_onetoone t cellOf s hy mode st1.dontContract st1.pos
    (Fwd.beforeAttrs t s st1.pos) st1.prevOp (by omega)
  simp only [hsel]
  -- no number sign
  have hns : Fwd.insertNumberSign t s st1.pos st1.prevOp (Fwd.beforeAttrs t s st1.pos) maxlen st1.out = some st1.out := by
    unfold Fwd.insertNumberSign; simp [hy.noNum]
  simp only [hns]
  -- emission: the definition's single cell
  have hlen : st1.out.cells.length = k := by rw [hi1.cells]; simp; omega
  have hup := updatePositions_plain (cellOf (Fwd.inAt s st1.pos)) st1.pos s maxlen st1.out hi1.cstat
    (by omega) (by omega)
  have hemit : Fwd.emit t mode s maxlen { opcode := r.opcode, rule := some r, charslen := r.chars.length } st1.pos st1.out =
      (st1.pos + 1, Fwd.Out.mk (st1.out.cells ++ [cellOf (Fwd.inAt s st1.pos)])
        (st1.out.map ++ [(st1.pos : Int)]) st1.out.cpos st1.out.cstat, true) := by
    unfold Fwd.emit
    simp only [defop_ne_none _ hdef, Bool.false_eq_true, if_false, hdots, List.length_cons, List.length_nil, hcl]
    simp only [show (0 + 1 > 0) = True from by simp, if_true, hup]
  rw [hemit]
  refine ⟨_, rfl, ?_⟩
  have hat : Fwd.inAt s k = s[k] := by
    unfold Fwd.inAt; rw [List.getD_eq_getElem?_getD, List.getElem?_eq_getElem hk]; rfl
  refine ⟨?_, ?_, ?_, ?_, ?_⟩
  · dsimp only; omega
  · dsimp only
    rw [hi1.cells, hpos1, hat, List.take_succ_eq_append_getElem hk, List.map_append]; rfl
  · dsimp only
    rw [hi1.map, hpos1, List.range_succ, List.map_append]; rfl
  · exact hi1.cstat
  · exact hi1.cpos

/-- at the end of the input the loop body only does its bookkeeping and stops -/
theorem step_end (t : Table) (cellOf : Nat → Nat) (s : List Nat) (mode maxlen : Nat) (st : Fwd.St)
    (hi : FInv cellOf s s.length st) :
    ∃ st', Fwd.step t mode s maxlen st = (st', true) ∧ FInv cellOf s s.length st' := by
  unfold Fwd.step
  generalize hst1 : (if (st.pos > 0 && Fwd.isSpace t (Fwd.inAt s (st.pos - 1)) && st.transOpcode != CTO_JoinableWord) = true
      then { st with lastIn := st.pos, lastOut := st.out.cells.length } else st) = st1
  have hi1 : FInv cellOf s s.length st1 := by
    rw [← hst1]; split
    · exact ⟨hi.pos, hi.cells, hi.map, hi.cstat, hi.cpos⟩
    · exact hi
  have he : (st1.pos == s.length) = true := by simp [hi1.pos]
  simp only [he, if_true]
  exact ⟨st1, rfl, hi1⟩

theorem loop_onetoone (t : Table) (cellOf : Nat → Nat) (s : List Nat) (hy : FwdHyp t cellOf s)
    (mode maxlen : Nat) (hm : s.length ≤ maxlen) :
    ∀ (n k : Nat) (st : Fwd.St), k + n = s.length → FInv cellOf s k st → ∀ fuel, n + 1 ≤ fuel →
      FInv cellOf s s.length (Fwd.loop t mode s maxlen fuel st) := by
  intro n
  induction n with
  | zero =>
    intro k st hk hi fuel hf
    have hk' : k = s.length := by omega
    subst hk'
    obtain ⟨st', hs, hi'⟩ := step_end t cellOf s mode maxlen st hi
    obtain ⟨f, rfl⟩ : ∃ f, fuel = f + 1 := ⟨fuel - 1, by omega⟩
    simp only [Fwd.loop, hs, if_true]
    exact hi'
  | succ n ih =>
    intro k st hk hi fuel hf
    obtain ⟨st', hs, hi'⟩ := step_onetoone t cellOf s hy mode maxlen hm k (by omega) st hi
    obtain ⟨f, rfl⟩ : ∃ f, fuel = f + 1 := ⟨fuel - 1, by omega⟩
    simp only [Fwd.loop, hs, Bool.false_eq_true, if_false]
    exact ih (k + 1) st' (by omega) hi' f (by omega)

/-- **fwd_onetoone**: cell by cell through the definitions, everything consumed, identity map -/
theorem fwd_onetoone (t : Table) (cellOf : Nat → Nat) (s : List Nat) (hy : FwdHyp t cellOf s)
    (mode maxlen : Nat) (hm : s.length ≤ maxlen) :
    (Fwd.translate t mode s maxlen (-1) 1).out = s.map cellOf ∧
    (Fwd.translate t mode s maxlen (-1) 1).realInlen = s.length ∧
    (Fwd.translate t mode s maxlen (-1) 1).map = (List.range s.length).map (fun (i : Nat) => (i : Int)) := by
  have h0 : FInv cellOf s 0 ({ out := { cpos := -1, cstat := 1 } } : Fwd.St) := by
    refine ⟨rfl, ?_, ?_, rfl, rfl⟩ <;> simp
  have hl := loop_onetoone t cellOf s hy mode maxlen hm s.length 0 _ (by omega) h0 (s.length + 2) (by omega)
  unfold Fwd.translate
  generalize Fwd.loop t mode s maxlen (s.length + 2) ({ out := { cpos := -1, cstat := 1 } } : Fwd.St) = st at hl
  have hpos := hl.pos
  have hnot : ¬ (st.pos < s.length) := by omega
  simp only [hnot, decide_false, Bool.and_false, Bool.false_and, Bool.false_eq_true, if_false]
  refine ⟨?_, ?_, ?_⟩
  · simp [hl.cells]
  · exact hpos
  · simp [hl.map, hpos]

/-! ### backward -/

structure BackHyp (t : Table) (charOf : Nat → Nat) (d : List Nat) : Prop where
  noBack : ∀ h, t.backBucket h = []
  cell : ∀ x ∈ d, ∃ r, (t.getDots x).chain = [r.idx] ∧ t.rule? r.idx = some r ∧ isDefOp r.opcode = true ∧
    r.dots = [x] ∧ r.chars = [charOf x]

structure BInv (charOf : Nat → Nat) (d : List Nat) (k : Nat) (st : Back.St) : Prop where
  pos : st.pos = k
  chars : st.out.chars = (d.take k).map charOf
  map : st.out.map = (List.range k).map (fun (i : Nat) => some (i : Int))
  cstat : st.out.cstat = 0
  cpos : st.out.cpos = -1
  num : st.ctx.itsANumber = 0

theorem setMap_end (m : List (Option Int)) (v : Int) : Back.setMap m m.length v = m ++ [some v] := by
  unfold Back.setMap
  simp

theorem back_defop_accepts (t : Table) (mode : Nat) (ctx : Back.Ctx) (input : List Nat) (pos : Nat) (r : Rule)
    (n b a p : Nat) (h : isDefOp r.opcode = true) : Back.opcodeAccepts t mode ctx input pos r n b a p = true := by
  unfold isDefOp at h
  unfold Back.opcodeAccepts
  simp only [h, Bool.true_or, if_true]

theorem defop_facts (op : Nat) (h : isDefOp op = true) :
    (op == CTO_NumberSign) = false ∧ (op == CTO_LitDigit) = false ∧ (op == CTO_None) = false := by
  unfold isDefOp at h
  simp only [Bool.and_eq_true, decide_eq_true_eq] at h
  have h1 : CTO_Space ≤ op := h.1.1
  have h2 : op < CTO_UpLow := h.1.2
  have a1 : CTO_NumberSign < CTO_Space := by decide
  have a2 : CTO_UpLow ≤ CTO_LitDigit := by decide
  have a3 : CTO_UpLow ≤ CTO_None := by decide
  refine ⟨?_, ?_, ?_⟩ <;> simp <;> omega

theorem back_select_onetoone (t : Table) (charOf : Nat → Nat) (d : List Nat) (hy : BackHyp t charOf d)
    (mode : Nat) (ctx : Back.Ctx) (pos before prev : Nat) (hp : pos < d.length) :
    ∃ r, Back.selectRule t mode ctx d pos before prev = { opcode := r.opcode, rule := some r, dotslen := 1 } ∧
      isDefOp r.opcode = true ∧ r.dots = [Back.inAt d pos] ∧ r.chars = [charOf (Back.inAt d pos)] := by
  have hin : Back.inAt d pos ∈ d := by
    unfold Back.inAt
    rw [List.getD_eq_getElem?_getD, List.getElem?_eq_getElem hp]
    exact List.getElem_mem hp
  obtain ⟨r, hchain, hrule, hdef, hdots, hchars⟩ := hy.cell _ hin
  refine ⟨r, ?_, hdef, hdots, hchars⟩
  unfold Back.selectRule
  have hlen : d.length - pos ≥ 1 := by omega
  have hs0 : (if (decide (d.length - pos < 2) || (ctx.itsANumber != 0 && (t.getDots (Back.inAt d pos)).attrs &&& CTC_LitDigit != 0)) = true
      then (none : Option Back.Sel)
      else Back.walkChain t mode ctx d pos (d.length - pos) before prev
        (t.backBucket (((t.getDots (Back.inAt d pos)).value * 256 + (t.getDots (Back.inAt d (pos + 1))).value) % HASHNUM))) = none := by
    split
    · rfl
    · rw [hy.noBack]; rfl
  simp only [hs0, hlen, if_true, hchain, Back.walkChain, hrule, hdots]
  have htake : List.take 1 (List.drop pos d) = [Back.inAt d pos] := by
    unfold Back.inAt
    rw [List.getD_eq_getElem?_getD, List.getElem?_eq_getElem hp]
    rw [List.drop_eq_getElem_cons hp, List.take_succ_cons, List.take_zero]
    rfl
  simp [htake, back_defop_accepts _ _ _ _ _ _ _ _ _ _ hdef]

theorem back_updatePositions_plain (c : Nat) (pos : Nat) (input : List Nat) (maxlen : Nat) (o : Back.Out)
    (hcp : o.cpos = -1) (hmap : o.map.length = pos) (hcap : o.chars.length + 1 ≤ maxlen) (hin : pos + 1 ≤ input.length) :
    Back.updatePositions [c] 1 pos input maxlen o =
      some { chars := o.chars ++ [c], map := o.map ++ [some (o.chars.length : Int)], cpos := o.cpos, cstat := o.cstat } := by
  unfold Back.updatePositions
  have h1 : ¬ (o.chars.length + [c].length > maxlen) := by simp; omega
  have h2 : ¬ (pos + 1 > input.length) := by omega
  have h3 : ¬ (o.cpos ≥ (pos : Int)) := by rw [hcp]; omega
  simp only [h1, h2, decide_false, Bool.or_false, Bool.false_eq_true, if_false, h3, Bool.and_false, Bool.false_and]
  have hs : (List.range 1).foldl (fun m k => Back.setMap m (pos + k) (o.chars.length : Int)) o.map =
      o.map ++ [some (o.chars.length : Int)] := by
    simp only [List.range_succ, List.range_zero, List.nil_append, List.foldl_cons, List.foldl_nil, Nat.add_zero]
    rw [← hmap]; exact setMap_end _ _
  have hs' : Back.setMap o.map pos (o.chars.length : Int) = o.map ++ [some (o.chars.length : Int)] := by
    rw [← hmap]; exact setMap_end _ _
  simp [hs']

theorem back_step_onetoone (t : Table) (charOf : Nat → Nat) (d : List Nat) (hy : BackHyp t charOf d)
    (mode maxlen : Nat) (hm : d.length ≤ maxlen) (k : Nat) (hk : k < d.length) (st : Back.St)
    (hi : BInv charOf d k st) :
    ∃ st', Back.step t mode d maxlen st = (st', false) ∧ BInv charOf d (k + 1) st' := by
  unfold Back.step
  -- the number state stays 0
  have hctx : (if (st.ctx.itsANumber == 2 && decide (st.out.chars.length > 0) && Back.beforeAttrs t st.out &&& CTC_LitDigit == 0 &&
      Back.beforeAttrs t st.out &&& CTC_NumericMode == 0 && Back.beforeAttrs t st.out &&& CTC_MidEndNumericMode == 0) = true
      then { st.ctx with itsANumber := 0 } else st.ctx) = st.ctx := by
    split
    · cases hc : st.ctx with
      | mk n l => have := hi.num; rw [hc] at this; simp at this; subst this; rfl
    · rfl
  simp only [hctx]
  obtain ⟨r, hsel, hdef, hdots, hchars⟩ := back_select_onetoone t charOf d hy mode st.ctx st.pos
    (Back.beforeAttrs t st.out) st.prevOp (by rw [hi.pos]; exact hk)
  simp only [hsel]
  obtain ⟨f1, f2, f3⟩ := defop_facts r.opcode hdef
  simp only [f1, f2, f3, Bool.false_eq_true, if_false, hchars, List.length_cons, List.length_nil, hdots]
  have hlen : st.out.chars.length = k := by rw [hi.chars]; simp; omega
  have hml : st.out.map.length = st.pos := by rw [hi.map, hi.pos]; simp
  have hup := back_updatePositions_plain (charOf (Back.inAt d st.pos)) st.pos d maxlen st.out hi.cpos hml
    (by omega) (by rw [hi.pos]; omega)
  simp only [show (0 + 1 > 0) = True from by simp, if_true, hup, Option.map_some]
  refine ⟨_, rfl, ?_⟩
  have hat : Back.inAt d k = d[k] := by
    unfold Back.inAt; rw [List.getD_eq_getElem?_getD, List.getElem?_eq_getElem hk]; rfl
  refine ⟨?_, ?_, ?_, ?_, ?_, ?_⟩
  · split <;> (dsimp only; rw [hi.pos])
  · split <;> (dsimp only; rw [hi.chars, hi.pos, hat, List.take_succ_eq_append_getElem hk, List.map_append]; rfl)
  · split <;> (dsimp only; rw [hi.map, hlen, List.range_succ, List.map_append]; rfl)
  · split <;> exact hi.cstat
  · split <;> exact hi.cpos
  · split <;> (dsimp only; split <;> first | rfl | exact hi.num)

theorem back_loop_onetoone (t : Table) (charOf : Nat → Nat) (d : List Nat) (hy : BackHyp t charOf d)
    (mode maxlen : Nat) (hm : d.length ≤ maxlen) :
    ∀ (n k : Nat) (st : Back.St), k + n = d.length → BInv charOf d k st → ∀ fuel, n ≤ fuel →
      BInv charOf d d.length (Back.loop t mode d maxlen fuel st) := by
  intro n
  induction n with
  | zero =>
    intro k st hk hi fuel _
    have hk' : k = d.length := by omega
    subst hk'
    cases fuel with
    | zero => exact hi
    | succ f =>
      have : ¬ (st.pos < d.length) := by rw [hi.pos]; omega
      simp only [Back.loop, this, if_false]; exact hi
  | succ n ih =>
    intro k st hk hi fuel hf
    obtain ⟨st', hs, hi'⟩ := back_step_onetoone t charOf d hy mode maxlen hm k (by omega) st hi
    obtain ⟨f, rfl⟩ : ∃ f, fuel = f + 1 := ⟨fuel - 1, by omega⟩
    have hlt : st.pos < d.length := by rw [hi.pos]; omega
    simp only [Back.loop, hlt, if_true, hs, Bool.false_eq_true, if_false]
    exact ih (k + 1) st' (by omega) hi' f (by omega)

/-- **back_onetoone** -/
theorem back_onetoone (t : Table) (charOf : Nat → Nat) (d : List Nat) (hy : BackHyp t charOf d)
    (mode maxlen : Nat) (hm : d.length ≤ maxlen) :
    (Back.translate t mode d maxlen (-1)).out = d.map charOf ∧
    (Back.translate t mode d maxlen (-1)).realInlen = d.length ∧
    (Back.translate t mode d maxlen (-1)).map = (List.range d.length).map (fun (i : Nat) => some (i : Int)) := by
  have h0 : BInv charOf d 0 ({ out := { cpos := -1, cstat := 0 } } : Back.St) := by
    refine ⟨rfl, ?_, ?_, rfl, rfl, rfl⟩ <;> simp
  have hl := back_loop_onetoone t charOf d hy mode maxlen hm d.length 0 _ (by omega) h0 (d.length + 1) (by omega)
  unfold Back.translate
  generalize Back.loop t mode d maxlen (d.length + 1) ({ out := { cpos := -1, cstat := 0 } } : Back.St) = st at hl
  have hpos := hl.pos
  have hnot : ¬ (st.pos < d.length) := by omega
  simp only [hnot, decide_false, Bool.and_false, Bool.false_and, Bool.false_eq_true, if_false]
  refine ⟨?_, ?_, ?_⟩
  · simp [hl.chars]
  · exact hpos
  · rw [hl.map, hpos]; apply List.take_of_length_le; simp

/-- **roundtrip_fwd_back**: on a one-to-one table, back-translating the forward translation of a
    string over the table's characters returns the string -/
theorem roundtrip_fwd_back (t : Table) (cellOf charOf : Nat → Nat) (s : List Nat)
    (hf : FwdHyp t cellOf s) (hb : BackHyp t charOf (s.map cellOf))
    (hinv : ∀ c ∈ s, charOf (cellOf c) = c) (m1 m2 cap : Nat) (hcap : s.length ≤ cap) :
    (Back.translate t m2 (Fwd.translate t m1 s cap (-1) 1).out cap (-1)).out = s := by
  rw [(fwd_onetoone t cellOf s hf m1 cap hcap).1]
  rw [(back_onetoone t charOf (s.map cellOf) hb m2 cap (by simpa using hcap)).1]
  rw [List.map_map]
  conv => rhs; rw [← List.map_id s]
  apply List.map_congr_left
  intro c hc; simpa using hinv c hc

/-- **roundtrip_back_fwd** -/
theorem roundtrip_back_fwd (t : Table) (cellOf charOf : Nat → Nat) (d : List Nat)
    (hb : BackHyp t charOf d) (hf : FwdHyp t cellOf (d.map charOf))
    (hinv : ∀ x ∈ d, cellOf (charOf x) = x) (m1 m2 cap : Nat) (hcap : d.length ≤ cap) :
    (Fwd.translate t m1 (Back.translate t m2 d cap (-1)).out cap (-1) 1).out = d := by
  rw [(back_onetoone t charOf d hb m2 cap hcap).1]
  rw [(fwd_onetoone t cellOf (d.map charOf) hf m1 cap (by simpa using hcap)).1]
  rw [List.map_map]
  conv => rhs; rw [← List.map_id d]
  apply List.map_congr_left
  intro c hc; simpa using hinv c hc

/-! ### the structural test delivers the hypotheses -/

/-- the cell a one-to-one table assigns to a character / the character it assigns to a cell -/
def cellOfT (t : Table) (c : Nat) : Nat :=
  match (t.getChar c).chain.head?.bind t.rule? with
  | some r => r.dots.headD 0
  | none => 0

def charOfT (t : Table) (x : Nat) : Nat :=
  match (t.getDots x).chain.head?.bind t.rule? with
  | some r => r.chars.headD 0
  | none => 0

theorem bucket_empty (bs : List (Nat × List Nat)) (h : bs.all (·.2.isEmpty) = true) (k : Nat) :
    ((bs.find? (·.1 == k)).map (·.2)).getD [] = [] := by
  cases hf : bs.find? (·.1 == k) with
  | none => rfl
  | some b =>
    have hb : b ∈ bs := List.mem_of_find?_eq_some hf
    have := List.all_eq_true.mp h b hb
    simp only [Option.map_some, Option.getD_some]
    exact List.isEmpty_iff.mp this

theorem charOK_unpack (t : Table) (cr : CharRec) (h : charOK t cr = true) :
    ∃ r d dr, cr.chain = [r.idx] ∧ t.rule? r.idx = some r ∧ isDefOp r.opcode = true ∧ r.chars = [cr.value] ∧
      r.dots = [d] ∧ t.dots? d = some dr ∧ dr.chain = [r.idx] := by
  unfold charOK at h
  split at h
  next i hchain =>
    split at h
    next r hr =>
      have hidx : r.idx = i := by
        unfold Table.rule? at hr
        have := List.find?_some hr
        simpa using this
      simp only [Bool.and_eq_true, beq_iff_eq] at h
      obtain ⟨⟨⟨⟨⟨⟨⟨hd, hc⟩, hl⟩, _⟩, _⟩, _⟩, _⟩, hcell⟩ := h
      split at hcell
      next d hdots =>
        split at hcell
        next dr hdr =>
          simp only [Bool.and_eq_true, beq_iff_eq] at hcell
          exact ⟨r, d, dr, by rw [hchain, hidx], by rw [hidx]; exact hr, hd, hc, hdots, hdr, by rw [hcell.1, hidx]⟩
        · cases hcell
      · cases hcell
    · cases h
  · cases h

/-- **onetoone_hyps**: a table that passes the structural test satisfies the hypotheses of the
    round-trip theorems for every string over its characters -/
theorem onetoone_hyps (t : Table) (h : isOneToOne t = true) (s : List Nat)
    (hs : ∀ c ∈ s, (t.char? c).isSome = true) :
    FwdHyp t (cellOfT t) s ∧ BackHyp t (charOfT t) (s.map (cellOfT t)) ∧ ∀ c ∈ s, charOfT t (cellOfT t c) = c := by
  unfold isOneToOne at h
  simp only [Bool.and_eq_true] at h
  obtain ⟨⟨⟨⟨⟨⟨⟨⟨⟨⟨⟨⟨⟨⟨⟨⟨⟨_, _⟩, hforB⟩, hbackB⟩, _⟩, _⟩, _⟩, hnum⟩, _⟩, _⟩, _⟩, _⟩, _⟩, _⟩, _⟩, hchars⟩, _⟩, _⟩ := h
  -- facts about one character of the string
  have hchar : ∀ c ∈ s, ∃ r d dr, (t.getChar c).chain = [r.idx] ∧ t.rule? r.idx = some r ∧ isDefOp r.opcode = true ∧
      r.chars = [c] ∧ r.dots = [d] ∧ t.dots? d = some dr ∧ dr.chain = [r.idx] := by
    intro c hc
    have hsome := hs c hc
    cases hcr : t.char? c with
    | none => rw [hcr] at hsome; cases hsome
    | some cr =>
      have hmem : cr ∈ t.chars := by unfold Table.char? at hcr; exact List.mem_of_find?_eq_some hcr
      have hval : cr.value = c := by
        unfold Table.char? at hcr
        have := List.find?_some hcr
        simpa using this
      obtain ⟨r, d, dr, h1, h2, h3, h4, h5, h6, h7⟩ := charOK_unpack t cr (List.all_eq_true.mp hchars cr hmem)
      refine ⟨r, d, dr, ?_, h2, h3, by rw [h4, hval], h5, h6, h7⟩
      unfold Table.getChar; rw [hcr]; exact h1
  have hcell : ∀ c ∈ s, ∀ r d, (t.getChar c).chain = [r.idx] → t.rule? r.idx = some r → r.dots = [d] → cellOfT t c = d := by
    intro c _ r d h1 h2 h3
    unfold cellOfT; simp [h1, h2, h3]
  refine ⟨⟨?_, ?_, ?_⟩, ⟨?_, ?_⟩, ?_⟩
  · intro k; unfold Table.forBucket; exact bucket_empty _ hforB k
  · simpa using hnum
  · intro c hc
    obtain ⟨r, d, dr, h1, h2, h3, h4, h5, _, _⟩ := hchar c hc
    exact ⟨r, h1, h2, h3, by rw [h5, hcell c hc r d h1 h2 h5], by rw [h4]; rfl⟩
  · intro k; unfold Table.backBucket; exact bucket_empty _ hbackB k
  · intro x hx
    obtain ⟨c, hc, rfl⟩ := List.mem_map.mp hx
    obtain ⟨r, d, dr, h1, h2, h3, h4, h5, h6, h7⟩ := hchar c hc
    have hxd : cellOfT t c = d := hcell c hc r d h1 h2 h5
    have hgd : (t.getDots d).chain = [r.idx] := by unfold Table.getDots; rw [h6]; exact h7
    refine ⟨r, by rw [hxd]; exact hgd, h2, h3, by rw [hxd]; exact h5, ?_⟩
    rw [h4, hxd]
    unfold charOfT; simp [hgd, h2, h4]
  · intro c hc
    obtain ⟨r, d, dr, h1, h2, h3, h4, h5, h6, h7⟩ := hchar c hc
    have hxd : cellOfT t c = d := hcell c hc r d h1 h2 h5
    have hgd : (t.getDots d).chain = [r.idx] := by unfold Table.getDots; rw [h6]; exact h7
    rw [hxd]; unfold charOfT; simp [hgd, h2, h4]

/-- the property's statement: for a table passing the structural test and any string over its
    characters, back-translating the forward translation returns the string -/
theorem onetoone_roundtrip (t : Table) (h : isOneToOne t = true) (s : List Nat)
    (hs : ∀ c ∈ s, (t.char? c).isSome = true) (m1 m2 cap : Nat) (hcap : s.length ≤ cap) :
    (Back.translate t m2 (Fwd.translate t m1 s cap (-1) 1).out cap (-1)).out = s := by
  obtain ⟨hf, hb, hinv⟩ := onetoone_hyps t h s hs
  exact roundtrip_fwd_back t (cellOfT t) (charOfT t) s hf hb hinv m1 m2 cap hcap

/-- both maps are the identity (C07's last clause) -/
theorem onetoone_identity_maps (t : Table) (h : isOneToOne t = true) (s : List Nat)
    (hs : ∀ c ∈ s, (t.char? c).isSome = true) (m cap : Nat) (hcap : s.length ≤ cap) :
    (Fwd.translate t m s cap (-1) 1).map = (List.range s.length).map (fun (i : Nat) => (i : Int)) ∧
    (Fwd.translate t m s cap (-1) 1).realInlen = s.length := by
  obtain ⟨hf, _, _⟩ := onetoone_hyps t h s hs
  exact ⟨(fwd_onetoone t _ s hf m cap hcap).2.2, (fwd_onetoone t _ s hf m cap hcap).2.1⟩

/-- non-vacuity: a concrete table passes the test -/
example : isOneToOne {
    numPasses := 1, ruleCounter := 3,
    rules := [{ idx := 0, opcode := CTO_Space, chars := [0xffff], dots := [0xffff] },
              { idx := 1, opcode := CTO_LowerCase, chars := [97], dots := [0x8001] },
              { idx := 2, opcode := CTO_LowerCase, chars := [98], dots := [0x8003] }],
    chars := [{ value := 0xffff, attrs := 1, defRule := some 0, chain := [0] },
              { value := 97, attrs := 0x22, defRule := some 1, chain := [1] },
              { value := 98, attrs := 0x22, defRule := some 2, chain := [2] }],
    dots := [{ value := 0xffff, attrs := 1, defRule := some 0, chain := [0] },
             { value := 0x8001, attrs := 0x22, defRule := some 1, chain := [1] },
             { value := 0x8003, attrs := 0x22, defRule := some 2, chain := [2] }] } = true := by decide

end Lou.C11
