/-
  C07 — position maps and cursor are valid, ordered and mutually consistent.

  The final stage of both drivers is a pure function of the composed
  `posMapping` and the two lengths.  The theorems below are about `fwdFinish` /
  `backFinish` applied to an **arbitrary** driver state, i.e. to arbitrary
  integer arrays: they cover every table and opcode once the trace tie holds.

  Full statement of the property (kept visible):
    (1) both lengths positive → every inputPos entry ∈ [0, inlen'), every outputPos entry ∈ [0, outlen')
    (2) the scanned map is non-decreasing
    (3) outputPos[inputPos[k]] ≤ k (forward), inputPos[outputPos[i]] ≤ i (backward)
    (4) arrays supplied ∧ cursor within the consumed input → cursor' = outputPos[cursor]
    (5) one-to-one tables: both maps are the identity (Layer B, see C11.lean)
  (1 scan part) and (3) are *false* for arrays containing −1 before the first
  non-negative entry (`scan_neg_counterexample`, `roundtrip_neg_counterexample`
  below), so they carry the hypothesis `NonNeg`, which is part of the engine
  contract and is evaluated on every real trace.
-/
import LouModel.Driver
import LouProofs.Lemmas.PosMap

namespace Lou.C07
open Lou Lou.Drv Lou.PosMap

/-- no entry of the scanned prefix is negative -/
def NonNeg (m : Nat) (pm : List Int) : Prop := ∀ p ∈ pm.take m, 0 ≤ p

/-! ### the two loops, for arbitrary arrays -/

theorem clampArr_range (n : Int) (m : Nat) (pm : List Int) (h : 0 < n) :
    ∀ x ∈ clampArr n m pm, 0 ≤ x ∧ x < n := by
  intro x hx
  unfold clampArr at hx
  obtain ⟨p, _, rfl⟩ := List.mem_map.mp hx
  exact clamp_range n p h

theorem scan_mono (n : Int) (m : Nat) (pm : List Int) (a0 : Int → Int) (i j : Int)
    (hi : 0 ≤ i) (hij : i ≤ j) (hj : j < n) :
    scan n m pm a0 i ≤ scan n m pm a0 j := by
  have h := inv_scan n (pm.take m) (init a0) 0 (by omega) (inv_init n a0)
  unfold scan finish
  generalize scanFrom n (init a0) 0 (pm.take m) = st at h
  by_cases c1 : (if st.inpos < 0 then 0 else st.inpos) ≤ i
  · have c2 : (if st.inpos < 0 then 0 else st.inpos) ≤ j := by omega
    simp [c1, c2, hj, (by omega : i < n)]
  · by_cases c2 : (if st.inpos < 0 then 0 else st.inpos) ≤ j
    · simp only [c1, c2, hj, false_and, true_and, if_false, if_true]
      have hi' : i < st.inpos := by split at c1 <;> omega
      have := (h.rng i hi hi' (by omega)).2
      have := h.link (by omega)
      rw [clamp0_of_nonneg this] at *; assumption
    · simp only [c1, c2, false_and, if_false]
      have hj' : j < st.inpos := by split at c2 <;> omega
      exact h.mono i j hi hij hj' hj

/-- the scan never produces an index ≥ the number of entries scanned -/
theorem scan_lt (n : Int) (m : Nat) (pm : List Int) (a0 : Int → Int) (i : Int)
    (hi : 0 ≤ i) (hn : i < n) (hm : 0 < (pm.take m).length) :
    scan n m pm a0 i < (pm.take m).length := by
  have h := inv_scan n (pm.take m) (init a0) 0 (by omega) (inv_init n a0)
  unfold scan finish
  generalize scanFrom n (init a0) 0 (pm.take m) = st at h
  have ho := h.o2
  by_cases c1 : (if st.inpos < 0 then 0 else st.inpos) ≤ i
  · simp only [c1, hn, and_self, if_true]; omega
  · simp only [c1, false_and, if_false]
    have hi' : i < st.inpos := by split at c1 <;> omega
    have := (h.rng i hi hi' hn).2
    have hc : clamp0 st.outpos ≤ 0 + ((pm.take m).length : Int) - 1 :=
      clamp0_le (by omega) (by omega)
    omega

/-- the scan has seen a non-negative entry: `outpos` was set -/
theorem scanFrom_outpos_nonneg (n : Int) (pm : List Int) : ∀ (st : S) (k : Int), 0 ≤ k →
    (0 ≤ st.outpos ∨ (st.inpos = -1 ∧ ∃ p ∈ pm, 0 ≤ p)) → 0 ≤ (scanFrom n st k pm).outpos := by
  induction pm with
  | nil =>
    intro st k _ h
    rcases h with h | ⟨_, p, hp, _⟩
    · exact h
    · simp at hp
  | cons q qs ih =>
    intro st k hk h
    simp only [scanFrom]
    apply ih _ (k + 1) (by omega)
    rcases h with h | ⟨hi, p, hp, hp0⟩
    · left; unfold stepK; split
      · dsimp only; omega
      · exact h
    · by_cases hq : q > st.inpos
      · left; unfold stepK; rw [if_pos hq]; dsimp only; omega
      · right
        have e : stepK n st k q = st := by unfold stepK; rw [if_neg hq]
        rw [e]
        refine ⟨hi, p, ?_, hp0⟩
        rcases List.mem_cons.mp hp with rfl | hp'
        · omega
        · exact hp'

theorem scan_nonneg (n : Int) (m : Nat) (pm : List Int) (a0 : Int → Int) (i : Int)
    (hi : 0 ≤ i) (hn : i < n) (hex : ∃ p ∈ pm.take m, 0 ≤ p) :
    0 ≤ scan n m pm a0 i := by
  have h := inv_scan n (pm.take m) (init a0) 0 (by omega) (inv_init n a0)
  have ho := scanFrom_outpos_nonneg n (pm.take m) (init a0) 0 (by omega) (Or.inr ⟨rfl, hex⟩)
  unfold scan finish
  generalize scanFrom n (init a0) 0 (pm.take m) = st at h ho
  by_cases c1 : (if st.inpos < 0 then 0 else st.inpos) ≤ i
  · simp only [c1, hn, and_self, if_true]; exact ho
  · simp only [c1, false_and, if_false]
    have hi' : i < st.inpos := by split at c1 <;> omega
    exact (h.rng i hi hi' hn).1

/-- following the clamp map and then the scan map never moves forward -/
theorem scan_clamp_le (n : Int) (m : Nat) (pm : List Int) (a0 : Int → Int) (hn : 0 < n)
    (hnn : NonNeg m pm) (k : Nat) (hk : k < (pm.take m).length) :
    scan n m pm a0 (clamp n ((pm.take m)[k])) ≤ k := by
  have hp : 0 ≤ (pm.take m)[k] := hnn _ (List.getElem_mem hk)
  have hc := clamp_range n ((pm.take m)[k]) hn
  have hle := clamp_le_of_nonneg n _ hn hp
  have := final_le n (pm.take m) (init a0) 0 (by omega) (inv_init n a0) k hk
    (clamp n ((pm.take m)[k])) hc.1 hle hc.2
  unfold scan; omega

/-! ### the statements at driver level -/

/-- what `fwdFinish` returns when it succeeds -/
theorem fwdFinish_ok (disp : Nat → Nat) (a : Args) (s : FwdState)
    (h : (fwdFinish disp a s).ret = 1) :
    let n : Int := s.posMapping.getD s.output.length 0
    (fwdFinish disp a s).inlen = n ∧
    (fwdFinish disp a s).outlen = s.output.length ∧
    (fwdFinish disp a s).inputPos =
      (if a.wantInputPos then some (clampArr n s.output.length s.posMapping) else none) ∧
    (fwdFinish disp a s).outputPos =
      (if a.wantOutputPos then
        some ((List.range n.toNat).map fun (i : Nat) => scan n s.output.length s.posMapping (fun _ => -1) (i : Int))
       else none) ∧
    (fwdFinish disp a s).cursor =
      (match a.cursor with
       | none => none
       | some c => if c != -1 then
            (if a.wantOutputPos then some (scan n s.output.length s.posMapping (fun _ => -1) c) else some s.cpos)
          else some c) := by
  unfold fwdFinish at h ⊢
  by_cases hb : (s.output.map (encodeCell a.mode disp)).any Option.isNone = true
  · simp [hb, failResult] at h
  · simp only [hb]
    cases a.cursor <;> simp

/-- C07(1a) forward: every inputPos entry is a valid index into the consumed input -/
theorem fwd_inputPos_range (disp : Nat → Nat) (a : Args) (s : FwdState)
    (h : (fwdFinish disp a s).ret = 1) (hpos : 0 < (fwdFinish disp a s).inlen)
    (ip : List Int) (hip : (fwdFinish disp a s).inputPos = some ip) :
    ∀ x ∈ ip, 0 ≤ x ∧ x < (fwdFinish disp a s).inlen := by
  obtain ⟨h1, _, h3, _, _⟩ := fwdFinish_ok disp a s h
  rw [h3] at hip
  split at hip
  · cases hip
    rw [h1] at hpos ⊢
    exact clampArr_range _ _ _ hpos
  · cases hip

/-- C07(2) forward: outputPos is non-decreasing — for **any** posMapping -/
theorem fwd_outputPos_mono (disp : Nat → Nat) (a : Args) (s : FwdState)
    (h : (fwdFinish disp a s).ret = 1)
    (op : List Int) (hop : (fwdFinish disp a s).outputPos = some op)
    (i j : Nat) (hij : i ≤ j) (hj : j < op.length) :
    op[i]'(by omega) ≤ op[j] := by
  obtain ⟨_, _, _, h4, _⟩ := fwdFinish_ok disp a s h
  rw [h4] at hop
  split at hop
  · cases hop
    simp only [List.getElem_map, List.getElem_range]
    simp only [List.length_map, List.length_range] at hj
    apply scan_mono <;> omega
  · cases hop

/-- C07(1b) forward: every outputPos entry is a valid index into the produced output,
    provided the map has a non-negative entry (in particular under `NonNeg` with a
    positive output length) -/
theorem fwd_outputPos_range (disp : Nat → Nat) (a : Args) (s : FwdState)
    (h : (fwdFinish disp a s).ret = 1) (hpos : 0 < (fwdFinish disp a s).outlen)
    (hwf : s.output.length < s.posMapping.length)
    (hnn : NonNeg s.output.length s.posMapping)
    (op : List Int) (hop : (fwdFinish disp a s).outputPos = some op) :
    ∀ x ∈ op, 0 ≤ x ∧ x < (fwdFinish disp a s).outlen := by
  obtain ⟨_, h2, _, h4, _⟩ := fwdFinish_ok disp a s h
  rw [h4] at hop
  rw [h2] at hpos ⊢
  have hlen : (s.posMapping.take s.output.length).length = s.output.length := by
    rw [List.length_take]; omega
  split at hop
  · cases hop
    intro x hx
    obtain ⟨i, hi, rfl⟩ := List.mem_map.mp hx
    have hi' := List.mem_range.mp hi
    have hin : (i : Int) < s.posMapping.getD s.output.length 0 := by omega
    constructor
    · apply scan_nonneg _ _ _ _ _ (by omega) hin
      have h0 : 0 < (s.posMapping.take s.output.length).length := by omega
      exact ⟨(s.posMapping.take s.output.length)[0], List.getElem_mem h0, hnn _ (List.getElem_mem h0)⟩
    · have := scan_lt (s.posMapping.getD s.output.length 0) s.output.length s.posMapping (fun _ => -1) i
        (by omega) hin (by omega)
      omega
  · cases hop

/-- C07(3) forward: outputPos[inputPos[k]] ≤ k -/
theorem fwd_roundtrip (disp : Nat → Nat) (a : Args) (s : FwdState)
    (h : (fwdFinish disp a s).ret = 1) (hpos : 0 < (fwdFinish disp a s).inlen)
    (hwf : s.output.length < s.posMapping.length)
    (hnn : NonNeg s.output.length s.posMapping)
    (k : Nat) (hk : k < s.output.length) :
    let n := (fwdFinish disp a s).inlen
    scan n s.output.length s.posMapping (fun _ => -1) (clamp n ((s.posMapping.take s.output.length)[k]'(by
      rw [List.length_take]; omega))) ≤ k := by
  obtain ⟨h1, _, _, _, _⟩ := fwdFinish_ok disp a s h
  intro n
  have hn : n = s.posMapping.getD s.output.length 0 := h1
  apply scan_clamp_le
  · exact hpos
  · exact hnn

/-- C07(4) forward: with position arrays, a cursor inside the consumed input comes back as
    the output position mapped to that character -/
theorem fwd_cursor_mapped (disp : Nat → Nat) (a : Args) (s : FwdState)
    (h : (fwdFinish disp a s).ret = 1) (c : Int) (hc : a.cursor = some c) (hw : a.wantOutputPos = true)
    (h0 : 0 ≤ c) (hlt : c < (fwdFinish disp a s).inlen)
    (op : List Int) (hop : (fwdFinish disp a s).outputPos = some op) :
    (fwdFinish disp a s).cursor = some (op.getD c.toNat (-1)) := by
  obtain ⟨h1, _, _, h4, h5⟩ := fwdFinish_ok disp a s h
  rw [h1] at hlt
  generalize s.posMapping.getD s.output.length 0 = n at *
  rw [h4, hw] at hop
  simp only [if_true, Option.some.injEq] at hop
  rw [h5, hc, hw]
  have hne : (c != -1) = true := by simp; omega
  simp only [hne, if_true]
  subst hop
  have hlt' : c.toNat < n.toNat := by omega
  have hl : c.toNat < ((List.range n.toNat).map fun (i : Nat) =>
      scan n s.output.length s.posMapping (fun _ => -1) (i : Int)).length := by
    simpa using hlt'
  rw [List.getD_eq_getElem?_getD, List.getElem?_eq_getElem hl]
  simp only [Option.getD_some, List.getElem_map, List.getElem_range]
  rw [Int.toNat_of_nonneg h0]

/-! ### backward: the same two loops with the roles swapped -/

theorem backFinish_ok (a : Args) (s : BackState) (h : (backFinish a s).ret = 1) :
    (backFinish a s).inlen = s.inlen ∧
    (backFinish a s).outlen = s.output.length ∧
    (backFinish a s).outputPos =
      (if a.wantOutputPos then some (clampArr s.output.length s.inlen.toNat s.posMapping) else none) ∧
    (backFinish a s).inputPos =
      (if a.wantInputPos then
        some ((List.range s.output.length).map fun (i : Nat) =>
          scan s.output.length s.inlen.toNat s.posMapping (fun _ => -7777) (i : Int))
       else none) := by
  unfold backFinish at h ⊢
  by_cases hb : s.failed = true
  · simp [hb, failResult] at h
  · simp [hb]

theorem back_outputPos_range (a : Args) (s : BackState) (h : (backFinish a s).ret = 1)
    (hpos : 0 < (backFinish a s).outlen)
    (op : List Int) (hop : (backFinish a s).outputPos = some op) :
    ∀ x ∈ op, 0 ≤ x ∧ x < (backFinish a s).outlen := by
  obtain ⟨_, h2, h3, _⟩ := backFinish_ok a s h
  rw [h3] at hop
  split at hop
  · cases hop
    rw [h2] at hpos ⊢
    exact clampArr_range _ _ _ hpos
  · cases hop

theorem back_inputPos_mono (a : Args) (s : BackState) (h : (backFinish a s).ret = 1)
    (ip : List Int) (hip : (backFinish a s).inputPos = some ip)
    (i j : Nat) (hij : i ≤ j) (hj : j < ip.length) :
    ip[i]'(by omega) ≤ ip[j] := by
  obtain ⟨_, _, _, h4⟩ := backFinish_ok a s h
  rw [h4] at hip
  split at hip
  · cases hip
    simp only [List.getElem_map, List.getElem_range]
    simp only [List.length_map, List.length_range] at hj
    apply scan_mono <;> omega
  · cases hip

theorem back_inputPos_range (a : Args) (s : BackState) (h : (backFinish a s).ret = 1)
    (hpos : 0 < (backFinish a s).inlen)
    (hwf : s.inlen.toNat ≤ s.posMapping.length)
    (hnn : NonNeg s.inlen.toNat s.posMapping)
    (ip : List Int) (hip : (backFinish a s).inputPos = some ip) :
    ∀ x ∈ ip, 0 ≤ x ∧ x < (backFinish a s).inlen := by
  obtain ⟨h1, _, _, h4⟩ := backFinish_ok a s h
  rw [h4] at hip
  rw [h1] at hpos ⊢
  have hlen : (s.posMapping.take s.inlen.toNat).length = s.inlen.toNat := by
    rw [List.length_take]; omega
  split at hip
  · cases hip
    intro x hx
    obtain ⟨i, hi, rfl⟩ := List.mem_map.mp hx
    have hi' := List.mem_range.mp hi
    constructor
    · apply scan_nonneg _ _ _ _ _ (by omega) (by omega)
      have h0 : 0 < (s.posMapping.take s.inlen.toNat).length := by omega
      exact ⟨(s.posMapping.take s.inlen.toNat)[0], List.getElem_mem h0, hnn _ (List.getElem_mem h0)⟩
    · have := scan_lt (s.output.length : Int) s.inlen.toNat s.posMapping (fun _ => -7777) i
        (by omega) (by omega) (by omega)
      omega
  · cases hip

theorem back_roundtrip (a : Args) (s : BackState) (_h : (backFinish a s).ret = 1)
    (hpos : 0 < s.output.length)
    (hnn : NonNeg s.inlen.toNat s.posMapping)
    (k : Nat) (hk : k < (s.posMapping.take s.inlen.toNat).length) :
    scan s.output.length s.inlen.toNat s.posMapping (fun _ => -7777)
      (clamp s.output.length ((s.posMapping.take s.inlen.toNat)[k])) ≤ k := by
  apply scan_clamp_le
  · omega
  · exact hnn

/-! ### the hypotheses are needed, and satisfiable -/

/-- with an entry −1 in front, the tail fill writes −1 into outputPos -/
example : scan 1 1 [-1] (fun _ => -1) 0 = -1 := by decide
/-- … and the round trip can move forward: outputPos[inputPos[0]] = 1 > 0 -/
example : scan 1 2 [-1, 0] (fun _ => -1) (clamp 1 (-1)) = 1 := by decide

/-- a non-trivial state satisfying every hypothesis used above -/
example : NonNeg 3 [0, 0, 2, 3] ∧ (3 : Nat) < [0, 0, 2, 3].length := by
  refine ⟨?_, by decide⟩
  intro p hp; simp at hp; omega

end Lou.C07
