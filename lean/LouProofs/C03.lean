/-
  C03 — every translation, back-translation and hyphenation call terminates (loop part).

  `pass_loop_bound`: for ANY rule selection and ANY actions that never move the position
  backwards (`Monotone`, step contract S2), a guarded pass loop over an input of n elements
  performs at most 2·n + 1 iterations and then stops — whatever the table, the hidden state,
  the output capacity.  `once_per_position`: a rule step that leaves the position unchanged
  is followed by a verbatim copy (or the end), so no rule is applied twice at one position
  without an intervening advance.

  `Monotone` is needed: `pingpong_unbounded` exhibits a selection with two rules handing the
  position back and forth whose loop never stops.  That is exactly what the real code did for
  a look-back inside the replace brackets (F1: `noback pass2 @1 ?` + `noback pass2 [_1]@1 ?`
  on "ab"), confirmed with the tick hook and repaired by refusing such matches; after the
  repair every real action satisfies S2, which the check evaluates on every H2 tick record.

  Not covered by a theorem (tick-monitored only): the two main-pass loops (back-off to the word
  start in compbrl/nocont handling), the emphasis resolver, `pattern.c`; hyphenation's walk
  bound is `Lou.C17.hyph_walk_bound`.  The backward main pass has no non-advance guard for
  zero-width `context` rules (F2, known finding: the test suite itself marks it xfail).
-/
import LouModel.Loop

namespace Lou.C03
open Lou.Loop

/-- the measure: twice the remaining input, plus one while the guard is open -/
def mu {σ : Type} (n : Nat) (s : St σ) : Nat := 2 * (n - s.pos) + (if s.inc then 1 else 0)

/-- loop invariant: a closed guard only at positions inside the input -/
def Inv {σ : Type} (n : Nat) (s : St σ) : Prop := s.pos ≤ n ∨ s.done = true

theorem iter_ticks_le {σ : Type} (n : Nat) (sel : σ → Nat → Step × σ) (s : St σ) :
    (iter n sel s).ticks ≤ s.ticks + 1 := by
  unfold iter
  split
  · omega
  · split
    · split <;> (rename_i k h heq; cases k <;> simp)
    · simp

/-- every iteration that does not finish the loop strictly decreases the measure -/
theorem iter_mu {σ : Type} (n : Nat) (sel : σ → Nat → Step × σ) (hm : Monotone sel) (s : St σ)
    (hd : s.done = false) (hnd : (iter n sel s).done = false) :
    mu n (iter n sel s) < mu n s ∧ (iter n sel s).ticks = s.ticks + 1 := by
  unfold iter at hnd ⊢
  simp only [hd, Bool.false_eq_true, if_false] at hnd ⊢
  by_cases hp : s.pos < n
  · simp only [hp, if_true] at hnd ⊢
    cases hi : s.inc with
    | false =>
      simp only [hi, Bool.false_eq_true, if_false] at hnd ⊢
      unfold mu; simp only [hi, Bool.false_eq_true, if_false, if_true]
      refine ⟨?_, trivial⟩; omega
    | true =>
      simp only [hi, if_true] at hnd ⊢
      cases hk : (sel s.hid s.pos).1 with
      | copy =>
        have : sel s.hid s.pos = (Step.copy, (sel s.hid s.pos).2) := by rw [← hk]
        rw [this]; unfold mu; simp only [hi, if_true]
        refine ⟨?_, trivial⟩; omega
      | rule p =>
        have hge := hm s.hid s.pos p hk
        have : sel s.hid s.pos = (Step.rule p, (sel s.hid s.pos).2) := by rw [← hk]
        rw [this]
        unfold mu
        simp only [hi, if_true]
        by_cases hpe : p = s.pos
        · subst hpe
          refine ⟨?_, trivial⟩
          simp
        · have hdec : decide (p ≠ s.pos) = true := by simp [hpe]
          refine ⟨?_, trivial⟩
          simp only [hdec, if_true]; omega
      | fail =>
        have : sel s.hid s.pos = (Step.fail, (sel s.hid s.pos).2) := by rw [← hk]
        rw [this] at hnd; simp at hnd
  · simp only [hp, if_false] at hnd; simp at hnd

theorem iter_done {σ : Type} (n : Nat) (sel : σ → Nat → Step × σ) (s : St σ) (hd : s.done = true) :
    iter n sel s = s := by
  unfold iter; simp [hd]

theorem run_done {σ : Type} (n : Nat) (sel : σ → Nat → Step × σ) :
    ∀ (fuel : Nat) (s : St σ), s.done = true → run n sel fuel s = s := by
  intro fuel
  induction fuel with
  | zero => intro s _; rfl
  | succ f ih => intro s h; simp only [run]; rw [iter_done n sel s h]; exact ih s h

/-- with fuel ≥ measure + 1 the loop has stopped, and it ticked at most `measure` more times -/
theorem run_bound {σ : Type} (n : Nat) (sel : σ → Nat → Step × σ) (hm : Monotone sel) :
    ∀ (fuel : Nat) (s : St σ), mu n s < fuel →
      (run n sel fuel s).done = true ∧ (run n sel fuel s).ticks ≤ s.ticks + mu n s := by
  intro fuel
  induction fuel with
  | zero => intro s h; omega
  | succ f ih =>
    intro s h
    simp only [run]
    by_cases hd : s.done = true
    · rw [iter_done n sel s hd, run_done n sel f s hd]; exact ⟨hd, by omega⟩
    · have hd' : s.done = false := by simpa using hd
      by_cases hnd : (iter n sel s).done = true
      · rw [run_done n sel f _ hnd]
        refine ⟨hnd, ?_⟩
        have := iter_ticks_le n sel s
        unfold iter at hnd
        -- a finishing iteration ticks at most once, and mu ≥ 1 unless the loop exits without a tick
        by_cases hp : s.pos < n
        · have : 1 ≤ mu n s := by unfold mu; omega
          omega
        · have hi : iter n sel s = { s with done := true } := by
            unfold iter; simp [hd', hp]
          rw [hi]; simp
      · have hnd' : (iter n sel s).done = false := by simpa using hnd
        obtain ⟨hlt, ht⟩ := iter_mu n sel hm s hd' hnd'
        obtain ⟨h1, h2⟩ := ih (iter n sel s) (by omega)
        exact ⟨h1, by omega⟩

/-- **pass_loop_bound**: a guarded pass loop over n elements stops after at most 2·n + 1 iterations -/
theorem pass_loop_bound {σ : Type} (n : Nat) (sel : σ → Nat → Step × σ) (hm : Monotone sel) (h0 : σ) :
    (run n sel (2 * n + 2) (init h0)).done = true ∧ (run n sel (2 * n + 2) (init h0)).ticks ≤ 2 * n + 1 := by
  have hmu : mu n (init h0) = 2 * n + 1 := by unfold mu init; simp
  have h := run_bound n sel hm (2 * n + 2) (init h0) (by rw [hmu]; omega)
  refine ⟨h.1, ?_⟩
  have h2 := h.2
  rw [hmu] at h2
  have ht : (init h0).ticks = 0 := rfl
  omega

/-- more fuel changes nothing (the fuel never runs out) -/
theorem run_more_fuel {σ : Type} (n : Nat) (sel : σ → Nat → Step × σ) (hm : Monotone sel) (h0 : σ) (k : Nat) :
    run n sel (2 * n + 2 + k) (init h0) = run n sel (2 * n + 2) (init h0) := by
  have hdone := (pass_loop_bound n sel hm h0).1
  induction k with
  | zero => rfl
  | succ k ih =>
    have : ∀ (f : Nat) (s : St σ), run n sel (f + 1) s = iter n sel (run n sel f s) := by
      intro f
      induction f with
      | zero => intro s; rfl
      | succ f ihf => intro s; simp only [run]; exact ihf (iter n sel s)
    rw [show 2 * n + 2 + (k + 1) = (2 * n + 2 + k) + 1 by omega, this, ih, iter_done n sel _ hdone]

/-- **once_per_position**: after a rule step that did not move the position the next iteration
    does not consult the rules at all — it copies one element (or the loop has ended) -/
theorem once_per_position {σ : Type} (n : Nat) (sel : σ → Nat → Step × σ) (s : St σ)
    (hd : s.done = false) (hp : s.pos < n) (hinc : s.inc = true) (p : Nat)
    (hk : (sel s.hid s.pos).1 = Step.rule p) (hsame : p = s.pos) :
    (iter n sel s).inc = false ∧ (iter n sel s).pos = s.pos ∧
    (iter n sel (iter n sel s)).pos = s.pos + 1 ∧ (iter n sel (iter n sel s)).inc = true := by
  have e : iter n sel s = { pos := p, inc := decide (p ≠ s.pos), ticks := s.ticks + 1, done := false,
                            hid := (sel s.hid s.pos).2 } := by
    unfold iter
    simp only [hd, Bool.false_eq_true, if_false, hp, if_true, hinc]
    have : sel s.hid s.pos = (Step.rule p, (sel s.hid s.pos).2) := by rw [← hk]
    rw [this]
  rw [e]
  subst hsame
  refine ⟨by simp, rfl, ?_, ?_⟩ <;> (unfold iter; simp [hp])

/-! ### the hypothesis is needed -/

/-- two rules that hand the position back and forth: at 0 jump to 1, at 1 jump back to 0 -/
def pingpong : Unit → Nat → Step × Unit := fun _ pos => (if pos = 0 then Step.rule 1 else Step.rule 0, ())

theorem pingpong_not_monotone : ¬ Monotone pingpong := by
  intro h; have := h () 1 0 (by simp [pingpong]); omega

theorem pingpong_state (k : Nat) :
    run 2 pingpong k (init ()) = { pos := k % 2, inc := true, ticks := k, done := false, hid := () } := by
  have hstep : ∀ (f : Nat) (s : St Unit), run 2 pingpong (f + 1) s = iter 2 pingpong (run 2 pingpong f s) := by
    intro f
    induction f with
    | zero => intro s; rfl
    | succ f ihf => intro s; simp only [run]; exact ihf (iter 2 pingpong s)
  induction k with
  | zero => rfl
  | succ k ih =>
    rw [hstep, ih]
    unfold iter pingpong
    have h2 : k % 2 < 2 := Nat.mod_lt _ (by omega)
    simp only [Bool.false_eq_true, if_false, h2, if_true]
    by_cases hk : k % 2 = 0
    · simp [hk]; omega
    · have h1 : k % 2 = 1 := by omega
      simp [h1]; omega

/-- **pingpong_unbounded**: without S2 the loop never stops -/
theorem pingpong_unbounded (k : Nat) :
    (run 2 pingpong k (init ())).done = false ∧ (run 2 pingpong k (init ())).ticks = k := by
  rw [pingpong_state]; exact ⟨rfl, rfl⟩

/-- non-vacuity: "copy everything" is monotone and takes exactly n ticks -/
example : Monotone (fun (_ : Unit) (_ : Nat) => (Step.copy, ())) := by
  intro h pos p hk; simp at hk
example : (run 3 (fun (_ : Unit) (_ : Nat) => (Step.copy, ())) 8 (init ())).ticks = 3 := by decide

end Lou.C03
