/-
  FwdCRefine.lean — the main pass with context rules (ForwardCtx.lean) restricted to tables WITHOUT context rules is the F0
  main pass (Forward.lean): `translateC = .done translate`.  So the two forward models agree where both apply, and every
  theorem about `Fwd.translate` (C05 select_refines, C11 round trips, CurBlind …) is also a theorem about what the
  whole-call model computes for such tables.
-/
import LouProofs.FwdCTerm

namespace Lou.FwdCRefine
open Lou Lou.Gen Lou.Fwd Lou.FwdC Lou.FwdOK Lou.FwdCOK Lou.FwdTerm Lou.FwdCTerm

/-- no context rule anywhere in the main pass -/
def NoCtx (t : Table) : Prop := (∀ r ∈ t.rules, r.opcode ≠ CTO_Context) ∧ t.forPassChain 1 = []

theorem rule_noctx (t : Table) (h : NoCtx t) (i : Nat) (r : Rule) (hr : t.rule? i = some r) : (r.opcode == CTO_Context) = false := by
  have hm : r ∈ t.rules := List.mem_of_find?_eq_some hr
  have := h.1 r hm
  simpa using this

theorem walkChainC_eq (t : Table) (h : NoCtx t) (mode : Nat) (dc : Bool) (input : List Nat) (pos length before prevOp : Nat)
    (single posInc : Bool) (vars : List Nat) :
    ∀ chain : List Nat, walkChainC t mode dc input pos length before prevOp single posInc vars chain =
      (walkChain t mode dc input pos length before prevOp single chain).map (fun s => ({ sel := s } : SelC)) := by
  intro chain
  induction chain with
  | nil => simp [walkChainC, walkChain]
  | cons i rest ih =>
    unfold walkChainC walkChain
    cases hr : t.rule? i with
    | none => rfl
    | some r =>
      simp only [rule_noctx t h i r hr, Bool.false_eq_true, ↓reduceIte]
      by_cases hc : (single || (decide (r.chars.length ≤ length) && validMatch t input pos r)) = true
      · simp only [hc, ↓reduceIte, Bool.true_and]
        by_cases ha : opcodeAccepts r.opcode mode dc before (afterAttrs t input pos r.chars.length) prevOp = true
        · simp [ha]
        · simp only [ha, Bool.false_eq_true, ↓reduceIte]; exact ih
      · simp only [hc, Bool.false_eq_true, ↓reduceIte, Bool.false_and]; exact ih

theorem selectRuleC_eq (t : Table) (h : NoCtx t) (mode : Nat) (dc : Bool) (input : List Nat) (pos before prevOp : Nat)
    (posInc : Bool) (vars : List Nat) :
    selectRuleC t mode dc input pos before prevOp posInc vars = { sel := selectRule t mode dc input pos before prevOp } := by
  unfold selectRuleC selectRule
  simp only [walkChainC_eq t h]
  by_cases h2 : input.length - pos ≥ 2
  · simp only [h2, ↓reduceIte]
    cases hw : walkChain t mode dc input pos (input.length - pos) before prevOp false
        (t.forBucket (stringHashFolded t (inAt input pos) (inAt input (pos + 1)))) with
    | some s => simp
    | none =>
      simp only [Option.map_none]
      have h1 : input.length - pos ≥ 1 := by omega
      simp only [h1, ↓reduceIte]
      cases hw1 : walkChain t mode dc input pos 1 before prevOp true (t.getChar (inAt input pos)).chain <;> simp
  · simp only [h2, ↓reduceIte]
    by_cases h1 : input.length - pos ≥ 1
    · simp only [h1, ↓reduceIte]
      cases hw1 : walkChain t mode dc input pos 1 before prevOp true (t.getChar (inAt input pos)).chain <;> simp
    · simp [h1]


theorem foundC_none (t : Table) (h : NoCtx t) (sel : Sel) (posInc : Bool) (vars input : List Nat) (pos : Nat) :
    foundC t { sel := sel } posInc vars input pos = Pass.Sel.none := by
  unfold foundC
  simp only [h.2, Pass.rulesOf, List.filterMap_nil, Pass.select]
  split <;> rfl

/-- without context rules an iteration of the extended loop is an iteration of the F0 loop -/
theorem stepC_eq (t : Table) (h : NoCtx t) (mode : Nat) (input : List Nat) (max : Nat) (sc : StC) (hpi : sc.posInc = true) :
    stepC t mode input max sc = ({ sc with st := (step t mode input max sc.st).1 }, (step t mode input max sc.st).2) := by
  obtain ⟨st, pi, vs, un⟩ := sc
  simp only at hpi
  subst hpi
  unfold stepC step
  simp only [selectRuleC_eq t h, foundC_none t h]
  unfold lastWord
  generalize (if (st.pos > 0 && isSpace t (inAt input (st.pos - 1)) && st.transOpcode != CTO_JoinableWord) = true then
      { st with lastIn := st.pos, lastOut := st.out.cells.length } else st) = s1
  by_cases hp : (s1.pos == input.length) = true
  · simp only [hp, ↓reduceIte]
  · simp only [hp, Bool.false_eq_true, ↓reduceIte]
    cases hi : insertNumberSign t input s1.pos s1.prevOp (beforeAttrs t input s1.pos) max s1.out with
    | none => rfl
    | some o1 =>
      simp only []
      rcases he : emit t mode input max (selectRule t mode s1.dontContract input s1.pos (beforeAttrs t input s1.pos) s1.prevOp) s1.pos o1 with ⟨p', o2, b⟩
      cases b <;> rfl

theorem loopC_eq (t : Table) (h : NoCtx t) (mode : Nat) (input : List Nat) (max : Nat) :
    ∀ (fuel : Nat) (sc : StC), sc.posInc = true →
      (loopC t mode input max fuel sc).1 = { sc with st := loop t mode input max fuel sc.st } := by
  intro fuel
  induction fuel with
  | zero => intro sc _; rfl
  | succ f ih =>
    intro sc hpi
    unfold loopC loop
    rw [stepC_eq t h mode input max sc hpi]
    rcases hs : step t mode input max sc.st with ⟨s', d⟩
    simp only []
    cases d
    · simp only [Bool.false_eq_true, ↓reduceIte]
      exact ih { sc with st := s' } hpi
    · simp

/-- **translateC_eq_translate**: for a table without context rules (whose character chains hold one-character rules, as
    every compiled table's do) the main pass with context rules IS the F0 main pass -/
theorem translateC_eq_translate (t : Table) (h : NoCtx t) (hwf : CharChainsOK t) (mode : Nat) (input : List Nat) (max : Nat)
    (cpos cstat : Int) :
    translateC t mode input max cpos cstat = .done (translate t mode input max cpos cstat) := by
  have hinvC : StInvC input.length max ({ st := { out := { cpos := cpos, cstat := cstat } } } : StC) :=
    ⟨⟨rfl, Nat.zero_le _, by simp⟩, Nat.zero_le _, Nat.zero_le _⟩
  have hfin := loopC_total t hwf mode input max (2 * input.length + 2) _ hinvC (by unfold mu; simp only [↓reduceIte]; omega)
  have hst := loopC_eq t h mode input max (2 * input.length + 2) { st := { out := { cpos := cpos, cstat := cstat } } } rfl
  have hinv : StInv input.length max ({ out := { cpos := cpos, cstat := cstat } } : St) :=
    ⟨⟨rfl, Nat.zero_le _, by simp⟩, Nat.zero_le _, Nat.zero_le _, Nat.zero_le _⟩
  have hfuel := loop_fuel_any t hwf mode input max _ hinv (input.length + 1)
  simp only [Nat.sub_zero] at hfuel
  have hfuel1 := loop_fuel_any t hwf mode input max _ hinv 1
  simp only [Nat.sub_zero] at hfuel1
  have hloop : loop t mode input max (2 * input.length + 2) { out := { cpos := cpos, cstat := cstat } } =
               loop t mode input max (input.length + 2) { out := { cpos := cpos, cstat := cstat } } := by
    rw [show 2 * input.length + 2 = input.length + 1 + (input.length + 1) by omega, hfuel, ← hfuel1]
  unfold translateC translate
  rcases hl : loopC t mode input max (2 * input.length + 2) { st := { out := { cpos := cpos, cstat := cstat } } } with ⟨sc, fin⟩
  rw [hl] at hfin hst
  simp only at hfin hst
  subst hfin
  subst hst
  simp only [Bool.false_eq_true, ↓reduceIte, Bool.not_true, hloop]

end Lou.FwdCRefine
