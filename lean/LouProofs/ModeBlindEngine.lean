/-
  C09 for the whole-call model: the engines `callFwd` / `callBack` run are `ModeBlind`, so the three encodings of one
  forward call go through the SAME stages (same history, same driver state) and differ only in how the final stage
  writes each cell — without any hypothesis about the engine.
-/
import LouModel.Engine
import LouProofs.ModelEngine
import LouProofs.ModeBlindFC
import LouProofs.ModeBlindBC

namespace Lou.C09
open Lou Lou.Gen Lou.Drv Lou.Engine

theorem modelEngine_modeBlind (t : Table) : ModeBlind (modelEngine t) := by
  intro i j hist pin h
  unfold modelEngine
  simp only [translate_sameEnc t i.mode j.mode h.2.2.2]

theorem modelEngineC_modeBlind (t : Table) : ModeBlind (modelEngineC t) := by
  intro i j hist pin h
  unfold modelEngineC
  simp only [translateC_sameEnc t i.mode j.mode h.2.2.2]

theorem modelEngineBack_modeBlind (t : Table) : ModeBlind (modelEngineBack t) := by
  intro i j hist pin h
  unfold modelEngineBack
  simp only [C09B.translate_sameEnc t i.mode j.mode h.2.2.2]

theorem modelEngineBackC_modeBlind (t : Table) : ModeBlind (modelEngineBackC t) := by
  intro i j hist pin h
  unfold modelEngineBackC
  simp only [C09B.translateC_sameEnc t i.mode j.mode h.2.2.2]

/-- **engineFor_modeBlind**: the engine of the whole-call model does not look at dotsIO / ucBrl -/
theorem engineFor_modeBlind (t : Table) : ModeBlind (engineFor t) := by
  unfold engineFor
  split
  · exact modelEngineC_modeBlind t
  · exact modelEngine_modeBlind t

theorem engineForBack_modeBlind (t : Table) : ModeBlind (engineForBack t) := by
  unfold engineForBack
  split
  · exact modelEngineBackC_modeBlind t
  · exact modelEngineBack_modeBlind t

/-- **whole_call_fwd_encodings**: two forward calls of the whole-call model that differ only in the encoding bits run
    the same stages on the same data (equal histories) and end in one and the same driver state `s`; each result is the
    final stage applied to `s` with the call's own mode -/
theorem whole_call_fwd_encodings (t : Table) (disp : Nat → Nat) (a b : Args)
    (hin : a.inbuf = b.inbuf) (hout : a.outlen = b.outlen) (htf : a.typeform = b.typeform)
    (hsp : a.spacing = b.spacing) (hcur : a.cursor = b.cursor) (hmode : a.mode ||| encBits = b.mode ||| encBits)
    (ra rb : Result) (ha hb : List (PassIn × PassOut))
    (hca : callFwd t disp a = .ok (ra, ha)) (hcb : callFwd t disp b = .ok (rb, hb)) :
    ha = hb ∧ ∃ s : FwdState, ra = fwdFinish disp a s ∧ rb = fwdFinish disp b s := by
  obtain ⟨ea, eha⟩ := Lou.ModelEngine.callFwd_eq t disp a ra ha hca
  obtain ⟨eb, ehb⟩ := Lou.ModelEngine.callFwd_eq t disp b rb hb hcb
  have hrun := fwdRun_enc (tableInfo t) (engineFor t) a b (engineFor_modeBlind t) hin hout htf hsp hcur hmode
  refine ⟨by rw [eha, ehb, hrun], fwdRun (tableInfo t) (engineFor t) b, ?_, ?_⟩
  · rw [ea]; unfold fwd; simp only [hrun]
  · rw [eb]; unfold fwd; rfl

/-- **whole_call_fwd_three**: the default, the dotsIO and the dotsIO|ucBrl call of the whole-call model on the same
    arguments: same lengths and position maps, default output = display image of the dotsIO output cell by cell, ucBrl
    output = low eight dots in the Unicode braille block, typeform '8' exactly at cells with dot 7 or 8 -/
theorem whole_call_fwd_three (t : Table) (disp : Nat → Nat) (a : Args)
    (rD rI rU : Result) (hD hI hU : List (PassIn × PassOut))
    (hcD : callFwd t disp { a with mode := 0 } = .ok (rD, hD))
    (hcI : callFwd t disp { a with mode := mDotsIO } = .ok (rI, hI))
    (hcU : callFwd t disp { a with mode := mDotsIO ||| mUcBrl } = .ok (rU, hU))
    (hret : rD.ret = 1) :
    hD = hI ∧ hU = hI ∧ rI.ret = 1 ∧ rU.ret = 1 ∧
    rD.outbuf = rI.outbuf.map disp ∧
    rU.outbuf = rI.outbuf.map (fun c => (c &&& 0xff) ||| LOU_ROW_BRAILLE) ∧
    rD.inlen = rI.inlen ∧ rD.outlen = rI.outlen ∧ rD.inputPos = rI.inputPos ∧ rD.outputPos = rI.outputPos ∧
    rU.inlen = rI.inlen ∧ rU.outlen = rI.outlen ∧ rD.typeform = rI.typeform := by
  obtain ⟨eD, ehD⟩ := Lou.ModelEngine.callFwd_eq t disp _ rD hD hcD
  obtain ⟨eI, ehI⟩ := Lou.ModelEngine.callFwd_eq t disp _ rI hI hcI
  obtain ⟨eU, ehU⟩ := Lou.ModelEngine.callFwd_eq t disp _ rU hU hcU
  have rDI := fwdRun_enc (tableInfo t) (engineFor t) { a with mode := 0 } { a with mode := mDotsIO } (engineFor_modeBlind t)
    rfl rfl rfl rfl rfl (by show (0 : Nat) ||| encBits = mDotsIO ||| encBits; decide)
  have rUI := fwdRun_enc (tableInfo t) (engineFor t) { a with mode := mDotsIO ||| mUcBrl } { a with mode := mDotsIO }
    (engineFor_modeBlind t) rfl rfl rfl rfl rfl (by show (mDotsIO ||| mUcBrl) ||| encBits = mDotsIO ||| encBits; decide)
  have hfD : rD = fwdFinish disp { a with mode := 0 } (fwdRun (tableInfo t) (engineFor t) { a with mode := mDotsIO }) := by
    rw [eD]; unfold fwd; simp only [rDI]
  have hfI : rI = fwdFinish disp { a with mode := mDotsIO } (fwdRun (tableInfo t) (engineFor t) { a with mode := mDotsIO }) := by
    rw [eI]; unfold fwd; rfl
  have hfU : rU = fwdFinish disp { a with mode := mDotsIO ||| mUcBrl } (fwdRun (tableInfo t) (engineFor t) { a with mode := mDotsIO }) := by
    rw [eU]; unfold fwd; simp only [rUI]
  have key := finish_encodings disp a (fwdRun (tableInfo t) (engineFor t) { a with mode := mDotsIO }) 0 (by decide)
    (by rw [← hfD]; exact hret)
  simp only [← hfD, ← hfI, ← hfU] at key
  obtain ⟨k1, k2, k3, k4, k5, k6, k7, k8, k9, k10, k11, k12, _⟩ := key
  refine ⟨by rw [ehD, ehI, rDI], by rw [ehU, ehI, rUI], k1, k2, ?_, ?_, k6, k7, k8, k9, k10, k11, k12⟩
  · rw [k4, k3]
  · rw [k5, k3]

end Lou.C09

namespace Lou.C09
open Lou Lou.Gen Lou.Drv Lou.Engine

theorem cutAtNul_noNul (l : List Nat) (h : ∀ c ∈ l, c ≠ 0) : cutAtNul l = l := by
  unfold cutAtNul
  induction l with
  | nil => rfl
  | cons x l ih =>
    have hx : (x != 0) = true := by simpa using h x (List.mem_cons_self ..)
    rw [List.takeWhile_cons, hx]
    simp only [if_true, List.cons.injEq, true_and]
    exact ih (fun c hc => h c (List.mem_cons_of_mem _ hc))

theorem backStep_congr (e : Engine) (i j : EngInit) (cap : Nat) (h : ∀ hist pin, e i hist pin = e j hist pin) :
    backStep e i cap = backStep e j cap := by
  funext s p; unfold backStep; simp only [h]

/-- the backward pass loop on characters (mode without dotsIO) and on their `lou_charToDots` image with dotsIO is one
    and the same, for an engine that ignores the encoding bits -/
theorem backRun_decode (ti : TableInfo) (dotsFor : Nat → Nat) (e : Engine) (hb : ModeBlind e) (a : Args)
    (hm : hasBit a.mode mDotsIO = false) (hnul : ∀ c ∈ a.inbuf, c ≠ 0)
    (hflag : ∀ c ∈ a.inbuf, dotsFor c &&& LOU_DOTS ≠ 0 ∧ dotsFor c ||| LOU_DOTS = dotsFor c) :
    backRun ti dotsFor e a = backRun ti dotsFor e { a with inbuf := a.inbuf.map dotsFor, mode := a.mode ||| mDotsIO } := by
  have hnul' : ∀ c ∈ a.inbuf.map dotsFor, c ≠ 0 := by
    intro c hc
    obtain ⟨x, hx, rfl⟩ := List.mem_map.mp hc
    intro h0
    have := (hflag x hx).1
    rw [h0] at this
    simp at this
  unfold backRun
  simp only [cutAtNul_noNul _ hnul, cutAtNul_noNul _ hnul', List.length_map]
  rw [← back_decode dotsFor a.mode hm a.inbuf hflag]
  have hini : SameButEnc { mode := a.mode, typebuf := [], haveEmphasis := false, srcSpacing := none }
      { mode := a.mode ||| mDotsIO, typebuf := [], haveEmphasis := false, srcSpacing := none } := by
    refine ⟨rfl, rfl, rfl, ?_⟩
    show a.mode ||| encBits = (a.mode ||| mDotsIO) ||| encBits
    unfold encBits
    rw [Nat.or_assoc, ← Nat.or_assoc mDotsIO, Nat.or_self]
  rw [backStep_congr e _ _ a.outlen (fun hist pin => hb _ _ hist pin hini)]

/-- **whole_call_back_decode**: back-translating characters and back-translating (dotsIO) their display image are the
    same call of the whole-call model: same stages, same result (text, lengths, position maps, cursor) -/
theorem whole_call_back_decode (t : Table) (dotsFor : Nat → Nat) (a : Args)
    (hm : hasBit a.mode mDotsIO = false) (hnul : ∀ c ∈ a.inbuf, c ≠ 0)
    (hflag : ∀ c ∈ a.inbuf, dotsFor c &&& LOU_DOTS ≠ 0 ∧ dotsFor c ||| LOU_DOTS = dotsFor c)
    (ra rb : Result) (ha hb : List (PassIn × PassOut))
    (hca : callBack t dotsFor a = .ok (ra, ha))
    (hcb : callBack t dotsFor { a with inbuf := a.inbuf.map dotsFor, mode := a.mode ||| mDotsIO } = .ok (rb, hb)) :
    ha = hb ∧ ra = rb := by
  have ea := Lou.ModelEngine.callBack_eq t dotsFor a ra ha hca
  have eb := Lou.ModelEngine.callBack_eq t dotsFor _ rb hb hcb
  have eha := Lou.ModelEngine.callBack_eq_hist t dotsFor a ra ha hca
  have ehb := Lou.ModelEngine.callBack_eq_hist t dotsFor _ rb hb hcb
  have hrun := backRun_decode (tableInfo t) dotsFor (engineForBack t) (engineForBack_modeBlind t) a hm hnul hflag
  refine ⟨by rw [eha, ehb, hrun], ?_⟩
  rw [ea, eb]
  unfold back
  simp only [← hrun]
  unfold backFinish failResult
  simp only [List.length_map]

end Lou.C09
