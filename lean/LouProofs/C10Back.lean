/-
  C10Back.lean — the optional arguments of back-translation (Layer A, any engine): the position arrays, typeform and
  spacing do not enter the pass loop at all; the cursor enters it only through the engine, so for cursor-blind engines
  passing NULL for cursorPos changes neither return value, lengths nor output text.
-/
import LouProofs.C10

namespace Lou.C10Back
open Lou Lou.Drv Lou.C10

theorem backRun_arrays (t : TableInfo) (d : Nat → Nat) (e : Engine) (a : Args) (x y : Bool) (tf sp : Option (List Nat)) :
    backRun t d e { a with wantOutputPos := x, wantInputPos := y, typeform := tf, spacing := sp } = backRun t d e a := by
  unfold backRun; rfl

theorem backFinish_core (a b : Args) (s s' : BackState) (hab : a.inbuf = b.inbuf) (hab2 : a.outlen = b.outlen)
    (hf : s.failed = s'.failed) (ho : s.output = s'.output)
    (hi : s.inlen = s'.inlen) : core (backFinish a s) = core (backFinish b s') := by
  unfold backFinish
  rw [hf]
  split
  · simp [core, failResult, hab, hab2]
  · simp [core, ho, hi]

/-- **back_optargs_arrays**: passing NULL for typeform, spacing, outputPos or inputPos does not change the return value,
    the consumed and produced lengths or the output text of back-translation — for every engine -/
theorem back_optargs_arrays (tbl : Option TableInfo) (d : Nat → Nat) (e : Engine) (a : Args) (x y : Bool) (tf sp : Option (List Nat)) :
    core (back tbl d e { a with wantOutputPos := x, wantInputPos := y, typeform := tf, spacing := sp }) = core (back tbl d e a) := by
  cases tbl with
  | none => simp [back, core, failResult]
  | some t =>
    simp only [back]
    rw [backRun_arrays]
    exact backFinish_core _ _ _ _ rfl rfl rfl rfl rfl

/-- two backward driver states that agree except for the cursor fields -/
structure CurEqB (s s' : BackState) : Prop where
  input : s.input = s'.input
  pm : s.posMapping = s'.posMapping
  output : s.output = s'.output
  inlen : s.inlen = s'.inlen
  first : s.first = s'.first
  failed : s.failed = s'.failed
  hist : erHist s.hist = erHist s'.hist

theorem backStepOk_curEq (s s' : BackState) (input : List Nat) (pin pin' : PassIn) (po po' : PassOut)
    (h : CurEqB s s') (hpin : erIn pin = erIn pin') (hpo : erOut po = erOut po') :
    CurEqB (backStepOk s input pin po) (backStepOk s' input pin' po') := by
  have hx : po.out = po'.out ∧ po.map = po'.map ∧ po.realInlen = po'.realInlen := by
    simp only [erOut, PassOut.mk.injEq] at hpo
    exact ⟨hpo.1, hpo.2.1, hpo.2.2.1⟩
  obtain ⟨ho, hm, hr⟩ := hx
  have hh : erHist (s.hist ++ [(pin, po)]) = erHist (s'.hist ++ [(pin', po')]) := by
    simp only [erHist, List.map_append, List.map_cons, List.map_nil]
    have := h.hist
    simp only [erHist] at this
    rw [this, hpin, hpo]
  unfold backStepOk
  simp only []
  rw [h.first]
  split
  · exact ⟨rfl, by dsimp only; rw [hm, hr, ho], ho, by dsimp only; rw [hr, h.inlen], rfl, rfl, hh⟩
  · exact ⟨rfl, by dsimp only; rw [hm, hr, ho, h.pm, h.inlen], ho, by dsimp only; rw [hm, hr, ho, h.pm, h.inlen], rfl, rfl, hh⟩

theorem backStep_curEq (e : Engine) (ini : EngInit) (cap : Nat) (s s' : BackState) (p : Nat)
    (hb : CursorBlind e) (h : CurEqB s s') : CurEqB (backStep e ini cap s p) (backStep e ini cap s' p) := by
  unfold backStep
  rw [h.failed]
  by_cases hf : s'.failed = true
  · simp only [hf, ↓reduceIte]; exact h
  · simp only [hf, Bool.false_eq_true, ↓reduceIte]
    have hin : (if s.first = true then s.input else s.output) = (if s'.first = true then s'.input else s'.output) := by
      rw [h.first, h.input, h.output]
    rw [hin]
    generalize (if s'.first = true then s'.input else s'.output) = inp
    have hpin : erIn { passNo := p, chars := inp, maxlen := cap, cpos := s.cpos, cstat := s.cstat } =
                erIn { passNo := p, chars := inp, maxlen := cap, cpos := s'.cpos, cstat := s'.cstat } := by simp [erIn]
    have hk := hb ini s.hist s'.hist _ _ h.hist hpin
    generalize e ini s.hist { passNo := p, chars := inp, maxlen := cap, cpos := s.cpos, cstat := s.cstat } = po at hk
    generalize e ini s'.hist { passNo := p, chars := inp, maxlen := cap, cpos := s'.cpos, cstat := s'.cstat } = po' at hk
    have hok : po.ok = po'.ok := by
      simp only [erOut, PassOut.mk.injEq] at hk
      exact hk.2.2.2.2.2
    rw [hok]
    by_cases hq : (!po'.ok) = true
    · simp only [hq, ↓reduceIte]
      exact ⟨h.input, h.pm, h.output, h.inlen, h.first, rfl, h.hist⟩
    · simp only [hq, Bool.false_eq_true, ↓reduceIte]
      exact backStepOk_curEq s s' inp _ _ po po' h hpin hk

theorem foldl_curEqB (e : Engine) (ini : EngInit) (cap : Nat) (hb : CursorBlind e) :
    ∀ (ps : List Nat) (s s' : BackState), CurEqB s s' →
      CurEqB (ps.foldl (backStep e ini cap) s) (ps.foldl (backStep e ini cap) s') := by
  intro ps
  induction ps with
  | nil => intro s s' h; exact h
  | cons p ps ih => intro s s' h; exact ih _ _ (backStep_curEq e ini cap s s' p hb h)

/-- **back_optargs_cursor**: passing NULL for cursorPos does not change the return value, the consumed and produced
    lengths or the output text of back-translation, for every cursor-blind engine -/
theorem back_optargs_cursor (tbl : Option TableInfo) (d : Nat → Nat) (e : Engine) (a : Args)
    (hb : CursorBlind e) (c : Option Int) :
    core (back tbl d e { a with cursor := c }) = core (back tbl d e { a with cursor := none }) := by
  cases tbl with
  | none => simp [back, core, failResult]
  | some t =>
    simp only [back]
    have hce : CurEqB (backRun t d e { a with cursor := c }) (backRun t d e { a with cursor := none }) := by
      unfold backRun
      dsimp only
      apply foldl_curEqB e _ _ hb
      exact ⟨rfl, rfl, rfl, rfl, rfl, rfl, rfl⟩
    exact backFinish_core _ _ _ _ rfl rfl hce.failed hce.output hce.inlen

end Lou.C10Back
