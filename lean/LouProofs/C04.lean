/-
  C04 — reported lengths are truthful and no input is silently dropped.

  Layer A theorems: for an ARBITRARY engine satisfying the contract `EngineOKFwd`
  (every table, every opcode — the contract is evaluated on every recorded pass
  of every real run).  Full statement of the property:
    (a) ret = 1 → 0 ≤ inlen' ≤ inlen ∧ outlen' ≤ outlen ∧ every produced element is a
        display character (≠ NUL) or, in dotsIO mode, a flagged dot pattern
    (b) generous capacity ∧ no no_translate → inlen' = length up to the first NUL
        (engine-level: Layer B, `fwd_complete_engine`)
    (c) ret = 0 ↔ invalid arguments ∨ table does not compile ∨ a cell without display
        mapping, and in the latter two cases an error is logged
  `0 ≤ inlen'` is FALSE for engines that emit a map entry −1 (an end indicator at
  input position 0) followed by a later pass that stops at position 0
  (`inlen_negative_witness`); it is proved under `EngineNonNeg`.
-/
import LouModel.Driver
import LouProofs.Contract
import LouProofs.C07

namespace Lou.C04
open Lou Lou.Drv Lou.Contract

/-! ### (a) lengths -/

theorem fwdFinish_ret (disp : Nat → Nat) (a : Args) (s : FwdState) :
    (fwdFinish disp a s).ret = 1 ∨ (fwdFinish disp a s).ret = 0 := by
  unfold fwdFinish
  by_cases hb : (s.output.map (encodeCell a.mode disp)).any Option.isNone = true
  · right; simp [hb, failResult]
  · left; simp [hb]

theorem fwd_lengths (t : TableInfo) (disp : Nat → Nat) (e : Engine) (a : Args)
    (he : EngineOKFwd e) (hret : (fwd (some t) disp e a).ret = 1) :
    -1 ≤ (fwd (some t) disp e a).inlen ∧
    (fwd (some t) disp e a).inlen ≤ a.inbuf.length ∧
    0 ≤ (fwd (some t) disp e a).outlen ∧
    (fwd (some t) disp e a).outlen ≤ a.outlen := by
  have hi := fwdRun_inv t e a he
  unfold fwd at hret ⊢
  dsimp only at hret ⊢
  generalize fwdRun t e a = s at hi hret
  obtain ⟨h1, h2, _⟩ := C07.fwdFinish_ok disp a s hret
  rw [h1, h2]
  have hm : s.posMapping.getD s.output.length 0 ∈ s.posMapping :=
    getD_mem_or (by rw [hi.len]; omega)
  have := hi.rng _ hm
  have hc := cutAtNul_length_le a.inbuf
  have hf := hi.fits
  refine ⟨this.1, by omega, by omega, by omega⟩

/-- all composed entries are non-negative when the engine never emits a negative entry -/
theorem foldl_nonneg (e : Engine) (ini : EngInit) (N cap : Nat) (he : EngineOKFwd e) :
    ∀ (ps : List Nat) (s : FwdState), FwdInv N cap (-1) s → (∀ p ∈ s.posMapping, 0 ≤ p) →
      ∀ p ∈ (ps.foldl (fwdStep e ini cap) s).posMapping, 0 ≤ p := by
  intro ps
  induction ps with
  | nil => intro s _ h; exact h
  | cons q qs ih =>
    intro s hi h
    apply ih _ (fwdStep_later e ini N cap (-1) s q he hi (fun _ => trivial))
    intro p hp
    unfold fwdStep at hp
    simp only [hi.notFirst, Bool.false_eq_true, if_false] at hp
    unfold composeFwd at hp
    obtain ⟨x, hx, rfl⟩ := List.mem_map.mp hp
    have hk := he ini s.hist { passNo := q, chars := s.output, maxlen := cap, cpos := s.cpos, cstat := s.cstat }
    have h3 := hk.e3
    have h4 := hk.e4
    dsimp only at h3 h4
    have hxr : x ≤ (s.output.length : Int) := by
      rcases List.mem_append.mp hx with h' | h'
      · exact (h4 x h').2
      · simp at h'; subst h'; omega
    split
    · exact h _ (getD_mem_or (by rw [hi.len]; omega))
    · exact h _ (getD_mem_or (by rw [hi.len]; omega))

theorem fwd_inlen_nonneg (t : TableInfo) (disp : Nat → Nat) (e : Engine) (a : Args)
    (he : EngineOKFwd e) (hn : EngineNonNeg e) (hret : (fwd (some t) disp e a).ret = 1) :
    0 ≤ (fwd (some t) disp e a).inlen := by
  have hi := fwdRun_inv t e a he
  have hnn : ∀ p ∈ (fwdRun t e a).posMapping, 0 ≤ p := by
    unfold fwdRun fwdPassList
    simp only [List.foldl_cons]
    have h1 := fwdStep_first e (initFwd a (cutAtNul a.inbuf)) a.outlen
      { input := cutAtNul a.inbuf, posMapping := [], output := [], cpos := (fwdCursorInit a).1,
        cstat := (fwdCursorInit a).2, hist := [], first := true } (if t.corrections = true then 0 else 1) he rfl
    apply foldl_nonneg e _ _ _ he _ _ h1.1
    intro p hp
    unfold fwdStep at hp
    simp only [if_true] at hp
    rcases List.mem_append.mp hp with h | h
    · exact hn _ _ _ p h
    · simp at h; subst h; omega
  unfold fwd at hret ⊢
  dsimp only at hret ⊢
  generalize fwdRun t e a = s at hi hret hnn
  obtain ⟨h1, _⟩ := C07.fwdFinish_ok disp a s hret
  rw [h1]
  exact hnn _ (getD_mem_or (by rw [hi.len]; omega))

/-- every produced element: a display character (never NUL) in the default encoding -/
theorem fwd_valid_out_default (t : TableInfo) (disp : Nat → Nat) (e : Engine) (a : Args)
    (hm : hasBit a.mode mDotsIO = false) (hret : (fwd (some t) disp e a).ret = 1) :
    ∀ c ∈ (fwd (some t) disp e a).outbuf, c ≠ 0 ∧ ∃ d ∈ (fwdRun t e a).output, c = disp d := by
  unfold fwd at hret ⊢
  dsimp only at hret ⊢
  generalize fwdRun t e a = s at hret
  unfold fwdFinish at hret ⊢
  by_cases hb : (s.output.map (encodeCell a.mode disp)).any Option.isNone = true
  · simp [hb, failResult] at hret
  · simp only [hb]
    intro c hc
    simp only [Bool.false_eq_true, if_false] at hc
    obtain ⟨o, ho, hoc⟩ := List.mem_filterMap.mp hc
    obtain ⟨d, hd, rfl⟩ := List.mem_map.mp ho
    unfold encodeCell at hoc
    simp only [hm, Bool.false_eq_true, if_false] at hoc
    by_cases hz : (disp d == 0) = true
    · simp [hz] at hoc
    · simp only [hz, Bool.false_eq_true, if_false, id, Option.some.injEq] at hoc
      subst hoc
      exact ⟨by simpa using hz, d, hd, rfl⟩

/-- … and in dotsIO mode the cell itself, flagged when the engine flags its cells -/
theorem fwd_valid_out_dotsIO (t : TableInfo) (disp : Nat → Nat) (e : Engine) (a : Args)
    (hm : hasBit a.mode mDotsIO = true) (hu : hasBit a.mode mUcBrl = false) :
    (fwd (some t) disp e a).ret = 1 ∧
    (fwd (some t) disp e a).outbuf = (fwdRun t e a).output := by
  unfold fwd
  dsimp only
  generalize fwdRun t e a = s
  unfold fwdFinish
  have henc : s.output.map (encodeCell a.mode disp) = s.output.map some := by
    apply List.map_congr_left
    intro c _
    unfold encodeCell
    simp [hm, hu]
  have hb : ¬ (s.output.map (encodeCell a.mode disp)).any Option.isNone = true := by
    rw [henc]; simp
  simp only [hb]
  refine ⟨rfl, ?_⟩
  rw [henc]
  simp [List.filterMap_map]

/-! ### (c) return value -/

/-- forward translation returns 0 exactly when the table does not compile or some
    produced cell has no display mapping (the third case of the property — invalid
    arguments such as NULL pointers or negative lengths — is outside the model's
    argument type and is covered by the harness run only) -/
theorem fwd_ret0_iff (tbl : Option TableInfo) (disp : Nat → Nat) (e : Engine) (a : Args) :
    (fwd tbl disp e a).ret = 0 ↔
      tbl = none ∨ ∃ t, tbl = some t ∧ hasBit a.mode mDotsIO = false ∧
        ∃ c ∈ (fwdRun t e a).output, disp c = 0 := by
  cases tbl with
  | none => simp [fwd, failResult]
  | some t =>
    simp only [fwd, reduceCtorEq, false_or, Option.some.injEq, exists_eq_left']
    generalize fwdRun t e a = s
    unfold fwdFinish
    by_cases hb : (s.output.map (encodeCell a.mode disp)).any Option.isNone = true
    · simp only [hb, if_true, failResult, true_iff]
      rw [List.any_eq_true] at hb
      obtain ⟨o, ho, hnone⟩ := hb
      obtain ⟨c, hc, rfl⟩ := List.mem_map.mp ho
      unfold encodeCell at hnone
      by_cases hd : hasBit a.mode mDotsIO = true
      · simp only [hd, if_true] at hnone
        split at hnone <;> simp at hnone
      · simp only [hd, Bool.false_eq_true, if_false] at hnone
        refine ⟨by simpa using hd, c, hc, ?_⟩
        by_cases hz : (disp c == 0) = true
        · simpa using hz
        · simp [hz] at hnone
    · simp only [hb, Bool.false_eq_true, if_false]
      constructor
      · intro h; simp at h
      · rintro ⟨hd, c, hc, hz⟩
        exfalso; apply hb
        rw [List.any_eq_true]
        refine ⟨none, ?_, rfl⟩
        apply List.mem_map.mpr
        refine ⟨c, hc, ?_⟩
        unfold encodeCell
        simp [hd, hz]

/-- in both failure cases the model logs an error-level message -/
theorem fwd_ret0_logged (tbl : Option TableInfo) (disp : Nat → Nat) (e : Engine) (a : Args)
    (h : (fwd tbl disp e a).ret = 0) : (fwd tbl disp e a).errors = 1 := by
  cases tbl with
  | none => simp [fwd, failResult]
  | some t =>
    simp only [fwd] at h ⊢
    generalize fwdRun t e a = s at h
    unfold fwdFinish at h ⊢
    by_cases hb : (s.output.map (encodeCell a.mode disp)).any Option.isNone = true
    · simp [hb, failResult]
    · simp [hb] at h

/-! ### the hypothesis is needed: a contract-abiding engine with `inlen' = −1` -/

/-- pass 1 maps its single output to −1 (an end indicator attached to "position −1"),
    pass 2 stops without consuming anything -/
def negEngine : Engine := fun _ hist _ =>
  if hist.length = 0 then { out := [1], map := [-1], realInlen := 1, cpos := -1, cstat := 1 }
  else { out := [], map := [], realInlen := 0, cpos := -1, cstat := 1 }

def negArgs : Args := { inbuf := [97], outlen := 1, mode := 4, typeform := none, spacing := none,
                        wantOutputPos := false, wantInputPos := false, cursor := none }

theorem inlen_negative_witness :
    (fwd (some { corrections := false, numPasses := 2 }) (fun _ => 0) negEngine negArgs).ret = 1 ∧
    (fwd (some { corrections := false, numPasses := 2 }) (fun _ => 0) negEngine negArgs).inlen = -1 := by
  decide

/-- non-vacuity: the identity engine satisfies the whole contract -/
def idEngine : Engine := fun _ _ pin =>
  { out := pin.chars.take pin.maxlen,
    map := (List.range (pin.chars.take pin.maxlen).length).map (fun (i : Nat) => (i : Int)),
    realInlen := (pin.chars.take pin.maxlen).length, cpos := pin.cpos, cstat := pin.cstat }

theorem idEngine_ok : EngineOKFwd idEngine ∧ EngineNonNeg idEngine := by
  constructor
  · intro ini hist pin
    refine ⟨?_, ?_, ?_, ?_⟩ <;> simp only [idEngine]
    · simp [List.length_take]; omega
    · simp
    · simp [List.length_take]; omega
    · intro p hp
      obtain ⟨i, hi, rfl⟩ := List.mem_map.mp hp
      have := List.mem_range.mp hi
      simp [List.length_take] at this
      constructor <;> omega
  · intro ini hist pin p hp
    simp only [idEngine] at hp
    obtain ⟨i, _, rfl⟩ := List.mem_map.mp hp
    omega

end Lou.C04
