/-
  C15 — "Rules added at run time behave as if written in the table".

  Full statement (fixed text): a rule accepted by lou_compileString for a table list not yet used for
  translation takes effect exactly as if it had been appended to the last file of that list, stays in
  force until lou_free and affects no other list; everything that worked before the addition keeps
  working however much the table grows.  Once the table has been used for translation the call
  returns 0 and has no effect, and an invalid rule returns 0 without corrupting the table or
  preventing later valid additions.

  On the compile model (fragment F0′, `LouModel/Compile.lean`): a compiled-but-not-finalised table is
  `compileUnfinalised es`; `lou_compileString` is `compileString` (the check "Table is finalized" of
  compileTranslationTable.c:4585, then the same `compileRule`); using the table finalises it.

  * `add_eq_append`        compileUnfinalised (es ++ [e]) = (compileUnfinalised es).bind (compileEntry · e)
  * `add_eq_append_list`   … for any list of additions
  * `addSeq_eq_file`       the run-time protocol (add one by one, rejected rules skipped) ends in exactly the
                           table of the file `es ++ accepted additions`
  * `add_monotone`         after an accepted addition every index that resolved still resolves to the same
                           rule, every character / cell / bucket is still there and its chain is a
                           super-sequence of what it was (`Grows`): nothing reachable becomes unreachable
  * `add_finalised`        on a finalised table `compileString` returns false and leaves the table unchanged
  * `add_invalid_inert`    a rule the model rejects leaves the table unchanged, and later additions behave
                           as if it had never been tried; `compileEntry_none_iff` lists the rejected shapes

  NOT covered by a theorem (checked / found by tools/lv/props/C15.py on the real library): rule shapes
  that the C compiler rejects only AFTER a partial effect (multipass opcodes with bad operands leave
  numPasses / corrections raised; `match` with a bad pattern leaves the rule linked, and logs nothing;
  `base`, `grouping`, `swap*` with a bad later operand leave characters / the rule behind;
  `numericmodechars` & co. with an undefined character leave the attributes of the earlier ones;
  `syllable` with bad operands leaves the flag), rules accepted although an error was logged
  (unterminated strings in multipass operands, `rependword` with bad second cells), and the crash of
  lou_compileString on a rule starting with "UTF-8" / "ISO…" (hyphenation header on a string).  None of
  these shapes is in the fragment of the model; for them `add_invalid_inert` is FALSE of the C code.
-/
import LouModel.Compile
import LouProofs.C05Compile
import LouProofs.C12Compile

namespace Lou.C15
open Lou Lou.Gen Lou.Compile Lou.C05

/-! ## add_eq_append -/

/-- adding one rule to a compiled, unfinalised table = compiling the file with the rule appended -/
theorem add_eq_append (es : List Entry) (e : Entry) :
    compileUnfinalised (es ++ [e]) = (compileUnfinalised es).bind (fun t => compileEntry t e) := by
  unfold compileUnfinalised
  rw [List.foldlM_append]
  cases h : List.foldlM compileEntry ((compileEntry initTable endSegmentEntry).getD initTable) es with
  | none => rfl
  | some t => simp [List.foldlM_cons, List.foldlM_nil]

theorem add_eq_append_list (es adds : List Entry) :
    compileUnfinalised (es ++ adds) = (compileUnfinalised es).bind (fun t => adds.foldlM compileEntry t) := by
  unfold compileUnfinalised
  rw [List.foldlM_append]
  rfl

/-! ## the run-time protocol: additions one by one, rejected ones skipped -/

/-- `lou_compileString` called for each rule in turn: the final table and the return values -/
def addSeq (t : Table) : List Entry → Table × List Bool
  | [] => (t, [])
  | e :: es => ((addSeq (compileString t e).2 es).1, (compileString t e).1 :: (addSeq (compileString t e).2 es).2)

/-- the additions that were accepted -/
def accepted : List Entry → List Bool → List Entry
  | e :: es, true :: fs => e :: accepted es fs
  | _ :: es, false :: fs => accepted es fs
  | _, _ => []

/-! the compile steps never touch `finalized` -/

theorem putChar_fin (t : Table) (c : Nat) : (putChar t c).finalized = t.finalized := by unfold putChar; split <;> rfl
theorem putDots_fin (t : Table) (c : Nat) : (putDots t c).finalized = t.finalized := by unfold putDots; split <;> rfl

theorem foldl_putDots_fin (l : List Nat) : ∀ t : Table, (l.foldl putDots t).finalized = t.finalized := by
  induction l with
  | nil => intro t; rfl
  | cons d ds ih => intro t; simp only [List.foldl_cons]; rw [ih, putDots_fin]

theorem linkFwd_fin (t : Table) (e : Entry) (r : Rule) : (linkFwd t e r).finalized = t.finalized := by
  unfold linkFwd
  split
  · rfl
  · split
    · unfold addFwdSingle putChar
      dsimp only
      split <;> split <;> rfl
    · split <;> rfl

theorem linkBack_fin (t : Table) (e : Entry) (r : Rule) : (linkBack t e r).finalized = t.finalized := by
  unfold linkBack
  split
  · rfl
  · split
    · unfold addBackSingle putDots
      split
      · rfl
      · dsimp only
        split <;> split <;> rfl
    · split
      · unfold addBackMulti; split <;> rfl
      · rfl

theorem addRule_fin (t : Table) (e : Entry) : (addRule t e).1.finalized = t.finalized := by
  unfold addRule
  dsimp only
  rw [linkBack_fin, linkFwd_fin]
  rfl

theorem prepCharDef_fin (t : Table) (c : Nat) (dots : List Nat) (a : Nat) : (prepCharDef t c dots a).finalized = t.finalized := by
  unfold prepCharDef updChar updDots
  dsimp only
  split
  · show (List.foldl putDots _ dots.reverse).finalized = _
    rw [foldl_putDots_fin]; exact putChar_fin t c
  · rw [foldl_putDots_fin]; exact putChar_fin t c

theorem compileEntry_fin (t t' : Table) (e : Entry) (h : compileEntry t e = some t') : t'.finalized = t.finalized := by
  unfold compileEntry at h
  split at h
  · unfold compileCharDef at h
    split at h
    · split at h
      · cases h
      · simp only [Option.some.injEq] at h
        subst h
        rw [addRule_fin, prepCharDef_fin]
    · cases h
  · split at h
    · split at h
      · cases h
      · simp only [Option.some.injEq] at h
        subst h
        exact addRule_fin t _
    · split at h
      · split at h
        · cases h
        · simp only [Option.some.injEq] at h
          subst h
          exact addRule_fin t _
      · split at h
        · cases h
        · split at h
          · cases h
          · simp only [Option.some.injEq] at h
            subst h
            exact addRule_fin t _

theorem foldlM_fin (es : List Entry) : ∀ (t t' : Table), es.foldlM compileEntry t = some t' → t'.finalized = t.finalized := by
  induction es with
  | nil => intro t t' h; simp at h; rw [h]
  | cons e es ih =>
    intro t t' h
    simp only [List.foldlM_cons, Option.bind_eq_bind] at h
    cases hce : compileEntry t e with
    | none => simp [hce] at h
    | some t1 =>
      simp only [hce, Option.bind_some] at h
      rw [ih t1 t' h, compileEntry_fin t t1 e hce]

/-- a compiled table that has not been used yet is not finalised -/
theorem compileUnfinalised_fin (es : List Entry) (t : Table) (h : compileUnfinalised es = some t) : t.finalized = false := by
  unfold compileUnfinalised at h
  rw [foldlM_fin es _ t h]
  cases hce : compileEntry initTable endSegmentEntry with
  | none => rfl
  | some t1 =>
    show t1.finalized = false
    rw [compileEntry_fin initTable t1 endSegmentEntry hce]; rfl

/-- **addSeq_eq_file**: calling `lou_compileString` for each rule of `adds` in turn on the compiled table of
    `es` (skipping over the rejected ones) ends in exactly the table obtained by compiling the file that
    contains `es` followed by the accepted rules -/
theorem addSeq_eq_file (adds : List Entry) : ∀ (es : List Entry) (t : Table), compileUnfinalised es = some t →
    compileUnfinalised (es ++ accepted adds (addSeq t adds).2) = some (addSeq t adds).1 := by
  induction adds with
  | nil => intro es t h; simpa [addSeq, accepted] using h
  | cons e rest ih =>
    intro es t h
    have hfin := compileUnfinalised_fin es t h
    show compileUnfinalised (es ++ accepted (e :: rest) ((compileString t e).1 :: (addSeq (compileString t e).2 rest).2)) =
      some (addSeq (compileString t e).2 rest).1
    cases hce : compileEntry t e with
    | none =>
      have hcs : compileString t e = (false, t) := by unfold compileString; rw [if_neg (by simp [hfin]), hce]
      rw [hcs]
      exact ih es t h
    | some t1 =>
      have hcs : compileString t e = (true, t1) := by unfold compileString; rw [if_neg (by simp [hfin]), hce]
      rw [hcs]
      have h1 : compileUnfinalised (es ++ [e]) = some t1 := by rw [add_eq_append, h]; simpa using hce
      have := ih (es ++ [e]) t1 h1
      rw [List.append_assoc] at this
      simpa [accepted] using this

/-! ## add_finalised, add_invalid_inert -/

/-- **add_finalised**: once the table is finalised (it has been used for translation) `compileString` returns
    0 and the table is unchanged -/
theorem add_finalised (t : Table) (e : Entry) (h : t.finalized = true) : compileString t e = (false, t) := by
  unfold compileString; simp [h]

/-- … in particular for every table `compile` returns -/
theorem add_after_compile (es : List Entry) (t : Table) (e : Entry) (h : compile es = some t) :
    compileString t e = (false, t) := by
  unfold compile at h
  obtain ⟨t0, _, rfl⟩ := Option.map_eq_some_iff.mp h
  exact add_finalised _ e rfl

/-- **add_invalid_inert**: a rule the (model) compiler rejects returns 0 and leaves the table unchanged … -/
theorem add_invalid_inert (t : Table) (e : Entry) (h : compileEntry t e = none) : compileString t e = (false, t) := by
  unfold compileString
  split
  · rfl
  · rw [h]

/-- … and does not prevent or change later additions -/
theorem add_invalid_then (t : Table) (e : Entry) (later : List Entry) (h : compileEntry t e = none) :
    addSeq t (e :: later) = ((addSeq t later).1, false :: (addSeq t later).2) := by
  show ((addSeq (compileString t e).2 later).1, (compileString t e).1 :: (addSeq (compileString t e).2 later).2) = _
  rw [add_invalid_inert t e h]

/-- the entry shapes the model rejects, spelled out: a character definition without exactly one character or
    without cells; `numsign` / `undefined` without cells; a translation rule without characters; a rule with
    the `=` operand over a character that has no definition -/
theorem compileEntry_none_iff (t : Table) (e : Entry) :
    compileEntry t e = none ↔
      ((defAttr e.opcode).isSome ∧ (e.chars.length ≠ 1 ∨ e.dots = [])) ∨
      ((defAttr e.opcode).isNone ∧ (e.opcode = CTO_NumberSign ∨ e.opcode = CTO_Undefined) ∧ e.dots = []) ∨
      ((defAttr e.opcode).isNone ∧ e.opcode ≠ CTO_NumberSign ∧ e.opcode ≠ CTO_Undefined ∧
        (e.chars = [] ∨ (e.dots = [] ∧ ¬ ∀ c ∈ e.chars, ∃ cr, t.char? c = some cr ∧ (cr.defRule.isSome ∨ cr.base.isSome)))) := by
  unfold compileEntry
  cases hd : defAttr e.opcode with
  | some a =>
    simp only [Option.isSome_some, Option.isNone_some, true_and, Bool.false_eq_true, false_and, or_false]
    unfold compileCharDef
    match hc : e.chars with
    | [] => simp
    | [c] => simp [List.isEmpty_iff]
    | _ :: _ :: _ => simp
  | none =>
    simp only [Option.isSome_none, Bool.false_eq_true, false_and, Option.isNone_none, true_and, false_or]
    by_cases h1 : e.opcode = CTO_NumberSign
    · have e1 : (e.opcode == CTO_NumberSign) = true := by simpa using h1
      simp only [e1, if_true]
      constructor
      · intro h
        split at h
        next hd => exact Or.inl ⟨Or.inl h1, by simpa [List.isEmpty_iff] using hd⟩
        · simp at h
      · rintro (⟨_, hd⟩ | ⟨hne, _⟩)
        · simp [hd]
        · exact absurd h1 hne
    · have e1 : (e.opcode == CTO_NumberSign) = false := by simpa using h1
      simp only [e1, Bool.false_eq_true, if_false]
      by_cases h2 : e.opcode = CTO_Undefined
      · have e2 : (e.opcode == CTO_Undefined) = true := by simpa using h2
        simp only [e2, if_true]
        constructor
        · intro h
          split at h
          next hd => exact Or.inl ⟨Or.inr h2, by simpa [List.isEmpty_iff] using hd⟩
          · simp at h
        · rintro (⟨_, hd⟩ | ⟨_, hne, _⟩)
          · simp [hd]
          · exact absurd h2 hne
      · have e2 : (e.opcode == CTO_Undefined) = false := by simpa using h2
        simp only [e2, Bool.false_eq_true, if_false]
        constructor
        · intro h
          refine Or.inr ⟨h1, h2, ?_⟩
          split at h
          next hc => exact Or.inl (by simpa [List.isEmpty_iff] using hc)
          next hc =>
            split at h
            next hall =>
              simp only [Bool.and_eq_true, Bool.not_eq_eq_eq_not, Bool.not_true] at hall
              refine Or.inr ⟨by simpa [List.isEmpty_iff] using hall.1, ?_⟩
              intro hP
              obtain ⟨c, hcm, hfc⟩ := List.all_eq_false.mp hall.2
              obtain ⟨cr, hcr, hor⟩ := hP c hcm
              rw [hcr] at hfc
              apply hfc
              simpa using hor
            · simp at h
        · rintro (⟨(h | h), _⟩ | ⟨_, _, hc | ⟨hd, hP⟩⟩)
          · exact absurd h h1
          · exact absurd h h2
          · simp [hc]
          · split
            · rfl
            · split
              · rfl
              next hall =>
                exfalso
                apply hP
                intro c hcm
                have hall' := hall
                simp only [hd, List.isEmpty_nil, Bool.true_and, Bool.not_eq_eq_eq_not, Bool.not_true, Bool.not_eq_false] at hall'
                have := List.all_eq_true.mp hall' c hcm
                cases hch : t.char? c with
                | none => rw [hch] at this; simp at this
                | some cr => rw [hch] at this; exact ⟨cr, rfl, by simpa using this⟩

/-! ## add_monotone -/

/-- `t'` contains everything `t` contains: every index resolves to the same rule, every character, cell and
    bucket is still there, and its chain is a super-sequence of what it was (same relative order) -/
structure Grows (t t' : Table) : Prop where
  rules : ∀ i r, t.rule? i = some r → t'.rule? i = some r
  chars : ∀ c ∈ t.chars, ∃ c' ∈ t'.chars, c'.value = c.value ∧ c.chain.Sublist c'.chain
  dots : ∀ d ∈ t.dots, ∃ d' ∈ t'.dots, d'.value = d.value ∧ d.chain.Sublist d'.chain
  forB : ∀ b ∈ t.forB, ∃ b' ∈ t'.forB, b'.1 = b.1 ∧ b.2.Sublist b'.2
  backB : ∀ b ∈ t.backB, ∃ b' ∈ t'.backB, b'.1 = b.1 ∧ b.2.Sublist b'.2

theorem Grows.refl (t : Table) : Grows t t :=
  ⟨fun _ _ h => h, fun c hc => ⟨c, hc, rfl, List.Sublist.refl _⟩, fun d hd => ⟨d, hd, rfl, List.Sublist.refl _⟩,
   fun b hb => ⟨b, hb, rfl, List.Sublist.refl _⟩, fun b hb => ⟨b, hb, rfl, List.Sublist.refl _⟩⟩

theorem Grows.trans {a b c : Table} (h1 : Grows a b) (h2 : Grows b c) : Grows a c := by
  refine ⟨fun i r h => h2.rules i r (h1.rules i r h), ?_, ?_, ?_, ?_⟩
  · intro x hx
    obtain ⟨y, hy, e1, s1⟩ := h1.chars x hx
    obtain ⟨z, hz, e2, s2⟩ := h2.chars y hy
    exact ⟨z, hz, e2.trans e1, s1.trans s2⟩
  · intro x hx
    obtain ⟨y, hy, e1, s1⟩ := h1.dots x hx
    obtain ⟨z, hz, e2, s2⟩ := h2.dots y hy
    exact ⟨z, hz, e2.trans e1, s1.trans s2⟩
  · intro x hx
    obtain ⟨y, hy, e1, s1⟩ := h1.forB x hx
    obtain ⟨z, hz, e2, s2⟩ := h2.forB y hy
    exact ⟨z, hz, e2.trans e1, s1.trans s2⟩
  · intro x hx
    obtain ⟨y, hy, e1, s1⟩ := h1.backB x hx
    obtain ⟨z, hz, e2, s2⟩ := h2.backB y hy
    exact ⟨z, hz, e2.trans e1, s1.trans s2⟩

theorem sublist_insertBefore (stop : Rule → Bool) (t : Table) (new : Nat) : ∀ chain : List Nat,
    chain.Sublist (insertBefore stop t new chain) := by
  intro chain
  induction chain with
  | nil => simp [insertBefore]
  | cons i rest ih =>
    unfold insertBefore
    cases t.rule? i with
    | none => exact List.Sublist.cons_cons _ ih
    | some r =>
      dsimp only
      split
      · exact List.Sublist.cons _ (List.Sublist.refl _)
      · exact List.Sublist.cons_cons _ ih

theorem grows_chars (t : Table) (cs : List CharRec)
    (h : ∀ c ∈ t.chars, ∃ c' ∈ cs, c'.value = c.value ∧ c.chain.Sublist c'.chain) : Grows t { t with chars := cs } :=
  ⟨fun _ _ h => h, h, fun d hd => ⟨d, hd, rfl, List.Sublist.refl _⟩, fun b hb => ⟨b, hb, rfl, List.Sublist.refl _⟩,
   fun b hb => ⟨b, hb, rfl, List.Sublist.refl _⟩⟩

theorem grows_dots (t : Table) (ds : List DotsRec)
    (h : ∀ d ∈ t.dots, ∃ d' ∈ ds, d'.value = d.value ∧ d.chain.Sublist d'.chain) : Grows t { t with dots := ds } :=
  ⟨fun _ _ h => h, fun c hc => ⟨c, hc, rfl, List.Sublist.refl _⟩, h, fun b hb => ⟨b, hb, rfl, List.Sublist.refl _⟩,
   fun b hb => ⟨b, hb, rfl, List.Sublist.refl _⟩⟩

theorem putChar_grows (t : Table) (c : Nat) : Grows t (putChar t c) := by
  unfold putChar
  split
  · exact Grows.refl t
  · exact grows_chars t _ (fun x hx => ⟨x, List.mem_append_left _ hx, rfl, List.Sublist.refl _⟩)

theorem putDots_grows (t : Table) (d : Nat) : Grows t (putDots t d) := by
  unfold putDots
  split
  · exact Grows.refl t
  · exact grows_dots t _ (fun x hx => ⟨x, List.mem_append_left _ hx, rfl, List.Sublist.refl _⟩)

theorem updChar_grows (t : Table) (c : Nat) (f : CharRec → CharRec)
    (hf : ∀ x, (f x).value = x.value ∧ x.chain.Sublist (f x).chain) : Grows t (updChar t c f) := by
  unfold updChar
  apply grows_chars
  intro x hx
  refine ⟨if x.value == c then f x else x, List.mem_map.mpr ⟨x, hx, rfl⟩, ?_⟩
  split
  · exact hf x
  · exact ⟨rfl, List.Sublist.refl _⟩

theorem updDots_grows (t : Table) (d : Nat) (f : DotsRec → DotsRec)
    (hf : ∀ x, (f x).value = x.value ∧ x.chain.Sublist (f x).chain) : Grows t (updDots t d f) := by
  unfold updDots
  apply grows_dots
  intro x hx
  refine ⟨if x.value == d then f x else x, List.mem_map.mpr ⟨x, hx, rfl⟩, ?_⟩
  split
  · exact hf x
  · exact ⟨rfl, List.Sublist.refl _⟩

theorem updBucket_grows (bs : List (Nat × List Nat)) (h : Nat) (f : List Nat → List Nat) (hf : ∀ l : List Nat, l.Sublist (f l)) :
    ∀ b ∈ bs, ∃ b' ∈ updBucket bs h f, b'.1 = b.1 ∧ b.2.Sublist b'.2 := by
  intro b hb
  unfold updBucket
  split
  · refine ⟨if b.1 == h then (b.1, f b.2) else b, List.mem_map.mpr ⟨b, hb, rfl⟩, ?_⟩
    split
    · exact ⟨rfl, hf b.2⟩
    · exact ⟨rfl, List.Sublist.refl _⟩
  · exact ⟨b, List.mem_append_left _ hb, rfl, List.Sublist.refl _⟩

theorem registerRule_grows (t : Table) (r : Rule) (hfresh : ∀ o ∈ t.rules, o.idx ≠ r.idx) : Grows t (registerRule t r) := by
  refine ⟨?_, fun c hc => ⟨c, hc, rfl, List.Sublist.refl _⟩, fun d hd => ⟨d, hd, rfl, List.Sublist.refl _⟩,
    fun b hb => ⟨b, hb, rfl, List.Sublist.refl _⟩, fun b hb => ⟨b, hb, rfl, List.Sublist.refl _⟩⟩
  intro i x hx
  have hlook : (registerRule t r).rule? i = if i = r.idx then some r else t.rule? i := by
    have := rule?_append t r i hfresh
    unfold registerRule Table.rule? at *
    exact this
  rw [hlook]
  have hne : i ≠ r.idx := by
    intro he
    have hm : x ∈ t.rules := by unfold Table.rule? at hx; exact List.mem_of_find?_eq_some hx
    have hxi : x.idx = i := by unfold Table.rule? at hx; simpa using List.find?_some hx
    exact hfresh x hm (hxi.trans he)
  rw [if_neg hne]; exact hx

theorem addFwdSingle_grows (t : Table) (r : Rule) : Grows t (addFwdSingle t r) := by
  unfold addFwdSingle
  dsimp only
  have h1 := putChar_grows t (r.chars.headD 0)
  generalize putChar t (r.chars.headD 0) = t1 at h1
  have h2 : Grows t1 (if isDefOpcode r.opcode = true then
      updChar t1 (r.chars.headD 0) fun cr => if cr.defRule.isSome = true then cr else { cr with defRule := some r.idx } else t1) := by
    split
    · apply updChar_grows
      intro x; split <;> exact ⟨rfl, List.Sublist.refl _⟩
    · exact Grows.refl _
  generalize (if isDefOpcode r.opcode = true then
      updChar t1 (r.chars.headD 0) fun cr => if cr.defRule.isSome = true then cr else { cr with defRule := some r.idx } else t1) = t2 at h2
  refine Grows.trans h1 (Grows.trans h2 ?_)
  apply updChar_grows
  intro x
  exact ⟨rfl, sublist_insertBefore _ _ _ _⟩

theorem addBackSingle_grows (t : Table) (r : Rule) (cell : Nat) : Grows t (addBackSingle t r cell) := by
  unfold addBackSingle
  split
  · exact Grows.refl t
  · dsimp only
    have h1 := putDots_grows t cell
    generalize putDots t cell = t1 at h1
    have h2 : Grows t1 (if isDefOpcode r.opcode = true then updDots t1 cell fun dr => { dr with defRule := some r.idx } else t1) := by
      split
      · apply updDots_grows
        intro x; exact ⟨rfl, List.Sublist.refl _⟩
      · exact Grows.refl _
    generalize (if isDefOpcode r.opcode = true then updDots t1 cell fun dr => { dr with defRule := some r.idx } else t1) = t2 at h2
    refine Grows.trans h1 (Grows.trans h2 ?_)
    apply updDots_grows
    intro x
    exact ⟨rfl, sublist_insertBefore _ _ _ _⟩

theorem addFwdMulti_grows (t : Table) (r : Rule) : Grows t (addFwdMulti t r) := by
  unfold addFwdMulti
  exact ⟨fun _ _ h => h, fun c hc => ⟨c, hc, rfl, List.Sublist.refl _⟩, fun d hd => ⟨d, hd, rfl, List.Sublist.refl _⟩,
    updBucket_grows _ _ _ (sublist_insertBefore _ _ _), fun b hb => ⟨b, hb, rfl, List.Sublist.refl _⟩⟩

theorem addBackMulti_grows (t : Table) (r : Rule) : Grows t (addBackMulti t r) := by
  unfold addBackMulti
  split
  · exact Grows.refl t
  · exact ⟨fun _ _ h => h, fun c hc => ⟨c, hc, rfl, List.Sublist.refl _⟩, fun d hd => ⟨d, hd, rfl, List.Sublist.refl _⟩,
      fun b hb => ⟨b, hb, rfl, List.Sublist.refl _⟩, updBucket_grows _ _ _ (sublist_insertBefore _ _ _)⟩

theorem addRule_grows (t : Table) (e : Entry) (hlt : ∀ r ∈ t.rules, r.idx < t.ruleCounter) : Grows t (addRule t e).1 := by
  unfold addRule
  dsimp only
  have hreg : Grows t (registerRule t (newRule t e)) := by
    apply registerRule_grows
    intro o ho
    have := hlt o ho
    show o.idx ≠ t.ruleCounter
    omega
  refine Grows.trans hreg (Grows.trans (b := linkFwd (registerRule t (newRule t e)) e (newRule t e)) ?_ ?_)
  · unfold linkFwd
    split
    · exact Grows.refl _
    · split
      · exact addFwdSingle_grows _ _
      · split
        · exact addFwdMulti_grows _ _
        · exact Grows.refl _
  · unfold linkBack
    split
    · exact Grows.refl _
    · split
      · exact addBackSingle_grows _ _ _
      · split
        · exact addBackMulti_grows _ _
        · exact Grows.refl _

theorem foldl_putDots_grows (l : List Nat) : ∀ t : Table, Grows t (l.foldl putDots t) := by
  induction l with
  | nil => intro t; exact Grows.refl t
  | cons d ds ih => intro t; exact Grows.trans (putDots_grows t d) (ih _)

theorem prepCharDef_grows (t : Table) (c : Nat) (dots : List Nat) (a : Nat) : Grows t (prepCharDef t c dots a) := by
  unfold prepCharDef
  dsimp only
  have h2 : Grows t (updChar (putChar t c) c fun cr => { cr with attrs := cr.attrs ||| a }) :=
    Grows.trans (putChar_grows t c) (updChar_grows _ _ _ (fun x => ⟨rfl, List.Sublist.refl _⟩))
  have h3 := Grows.trans h2 (foldl_putDots_grows dots.reverse _)
  split
  · exact Grows.trans h3 (updDots_grows _ _ _ (fun x => ⟨rfl, List.Sublist.refl _⟩))
  · exact h3

theorem foldl_putDots_same' (l : List Nat) (t : Table) :
    (l.foldl putDots t).rules = t.rules ∧ (l.foldl putDots t).ruleCounter = t.ruleCounter :=
  ⟨(foldl_putDots_same l t).1, (foldl_putDots_same l t).2.1⟩

/-- an index slot being overwritten does not remove anything -/
theorem grows_slot (t t' : Table) (hr : t'.rules = t.rules) (hc : t'.chars = t.chars) (hd : t'.dots = t.dots)
    (hf : t'.forB = t.forB) (hb : t'.backB = t.backB) : Grows t t' := by
  refine ⟨?_, ?_, ?_, ?_, ?_⟩
  · intro i r h; unfold Table.rule? at *; rw [hr]; exact h
  · rw [hc]; exact fun c hc => ⟨c, hc, rfl, List.Sublist.refl _⟩
  · rw [hd]; exact fun c hc => ⟨c, hc, rfl, List.Sublist.refl _⟩
  · rw [hf]; exact fun c hc => ⟨c, hc, rfl, List.Sublist.refl _⟩
  · rw [hb]; exact fun c hc => ⟨c, hc, rfl, List.Sublist.refl _⟩

/-- one accepted entry only adds -/
theorem compileEntry_grows (t t' : Table) (e : Entry) (hlt : ∀ r ∈ t.rules, r.idx < t.ruleCounter)
    (hc : compileEntry t e = some t') : Grows t t' := by
  unfold compileEntry at hc
  split at hc
  next a _ =>
    unfold compileCharDef at hc
    split at hc
    next c _ =>
      split at hc
      · cases hc
      · simp only [Option.some.injEq] at hc
        subst hc
        refine Grows.trans (prepCharDef_grows t c e.dots _) (addRule_grows _ e ?_)
        obtain ⟨a1, b1, _⟩ := prepCharDef_same t c e.dots
          (if a &&& (CTC_UpperCase ||| CTC_LowerCase) != 0 then a ||| CTC_Letter else a)
        rw [a1, b1]; exact hlt
    · cases hc
  next =>
    split at hc
    · split at hc
      · cases hc
      · simp only [Option.some.injEq] at hc
        subst hc
        exact Grows.trans (addRule_grows t _ hlt) (grows_slot _ _ rfl rfl rfl rfl rfl)
    · split at hc
      · split at hc
        · cases hc
        · simp only [Option.some.injEq] at hc
          subst hc
          exact Grows.trans (addRule_grows t _ hlt) (grows_slot _ _ rfl rfl rfl rfl rfl)
      · split at hc
        · cases hc
        · split at hc
          · cases hc
          · simp only [Option.some.injEq] at hc
            subst hc
            exact addRule_grows t e hlt

/-- every table reached by compiling has its rule indices below the counter (from C05's invariant) -/
theorem compileUnfinalised_idxLt (es : List Entry) (t : Table) (h : compileUnfinalised es = some t) :
    ∀ r ∈ t.rules, r.idx < t.ruleCounter := by
  unfold compileUnfinalised at h
  have h0 : CInv ((compileEntry initTable endSegmentEntry).getD initTable) := by
    cases hce : compileEntry initTable endSegmentEntry with
    | none => simpa using init_inv
    | some t1 => simpa using compileEntry_inv initTable t1 endSegmentEntry init_inv hce
  exact (foldlM_inv es _ t h0 h).idxLt

/-- **add_monotone**: after a successful addition to a compiled table, every rule index that resolved before
    still resolves to the same rule, and every character, cell and bucket chain is a super-sequence of what it
    was — nothing that was reachable becomes unreachable, however often the image was reallocated (offsets do
    not exist at this level; `Lou.C12.arena_alloc_inv` shows they are preserved by growth) -/
theorem add_monotone (es : List Entry) (t t' : Table) (e : Entry) (h : compileUnfinalised es = some t)
    (ha : compileString t e = (true, t')) : Grows t t' := by
  have hfin := compileUnfinalised_fin es t h
  unfold compileString at ha
  rw [if_neg (by simp [hfin])] at ha
  cases hce : compileEntry t e with
  | none => rw [hce] at ha; cases ha
  | some t1 =>
    rw [hce] at ha
    simp only [Prod.mk.injEq, true_and] at ha
    subst ha
    exact compileEntry_grows t t1 e (compileUnfinalised_idxLt es t h) hce

/-- … and for any sequence of run-time additions, accepted or rejected -/
theorem add_monotone_seq (adds : List Entry) : ∀ (es : List Entry) (t : Table), compileUnfinalised es = some t →
    Grows t (addSeq t adds).1 := by
  induction adds with
  | nil => intro es t _; exact Grows.refl t
  | cons e rest ih =>
    intro es t h
    have hfin := compileUnfinalised_fin es t h
    show Grows t (addSeq (compileString t e).2 rest).1
    cases hce : compileEntry t e with
    | none =>
      have hcs : compileString t e = (false, t) := by unfold compileString; rw [if_neg (by simp [hfin]), hce]
      rw [hcs]; exact ih es t h
    | some t1 =>
      have hcs : compileString t e = (true, t1) := by unfold compileString; rw [if_neg (by simp [hfin]), hce]
      rw [hcs]
      have h1 : compileUnfinalised (es ++ [e]) = some t1 := by rw [add_eq_append, h]; simpa using hce
      exact Grows.trans (add_monotone es t t1 e h hcs) (ih (es ++ [e]) t1 h1)

/-- a consequence in the words of the property: a lookup that found a rule in a bucket before the addition
    still finds that index in the same bucket afterwards -/
theorem add_keeps_bucket_member (t t' : Table) (hg : Grows t t') (hk : (t'.forB.map (·.1)).Nodup)
    (b : Nat × List Nat) (hb : b ∈ t.forB) (i : Nat) (hi : i ∈ b.2) : i ∈ t'.forBucket b.1 := by
  obtain ⟨b', hb', hkey, hsub⟩ := hg.forB b hb
  have : t'.forBucket b'.1 = b'.2 := by
    unfold Table.forBucket
    rw [Lou.C12.find?_key t'.forB b' hk hb']; rfl
  rw [← hkey, this]
  exact hsub.subset hi

/-! non-vacuity / concrete instances -/

def exBase : List Entry := [
  { opcode := CTO_LowerCase, chars := [97], dots := [0x8001] },
  { opcode := CTO_LowerCase, chars := [98], dots := [0x8003] },
  { opcode := CTO_Always, chars := [97, 98], dots := [0x8005] }]

def exAdds : List Entry := [
  { opcode := CTO_BegWord, chars := [97, 98], dots := [0x8006] },
  { opcode := CTO_Letter, chars := [97, 98], dots := [0x8007] },          -- rejected: two characters
  { opcode := CTO_Always, chars := [99], dots := [] },                      -- rejected: `=` over an undefined character
  { opcode := CTO_Always, chars := [97, 98, 97], dots := [0x8007] }]

/-- the run-time protocol accepts the 1st and 4th addition, and the result is the file with exactly those appended
    (`addSeq_eq_file`; here on a concrete instance, component by component) -/
example : ∃ t, compileUnfinalised exBase = some t ∧ (addSeq t exAdds).2 = [true, false, false, true] ∧
    (compileUnfinalised (exBase ++ [exAdds[0]!, exAdds[3]!])).map (·.rules) = some (addSeq t exAdds).1.rules ∧
    (compileUnfinalised (exBase ++ [exAdds[0]!, exAdds[3]!])).map (·.chars) = some (addSeq t exAdds).1.chars ∧
    (compileUnfinalised (exBase ++ [exAdds[0]!, exAdds[3]!])).map (·.forB) = some (addSeq t exAdds).1.forB ∧
    (addSeq t exAdds).1.forBucket (rawHash 97 98) = [5, 4, 3] := by
  refine ⟨_, rfl, ?_, ?_, ?_, ?_, ?_⟩ <;> decide

/-- after use (finalisation) nothing is accepted any more -/
example : ∃ t, compile exBase = some t ∧ (addSeq t exAdds).2 = [false, false, false, false] ∧
    (addSeq t exAdds).1.rules = t.rules ∧ (addSeq t exAdds).1.forB = t.forB := by
  refine ⟨_, rfl, ?_, ?_, ?_⟩ <;> decide

end Lou.C15
