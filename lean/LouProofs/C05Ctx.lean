/-
  C05Ctx.lean — rule choice of the main pass WITH context rules (ForwardCtx.lean): the chain walk returns the FIRST rule of
  the chain that is a candidate (its characters match, and: a context rule needs `posIncremented` and a succeeding test,
  any other rule its opcode condition); every rule in front of it is not a candidate.  Together with the chain order the
  compiler establishes (C12 `fwdOrder`: longer strings first, `always` last among equals, definition order) this is the
  documented choice, now including context rules.
-/
import LouModel.ForwardCtx

namespace Lou.C05Ctx
open Lou Lou.Gen Lou.Fwd Lou.FwdC

/-- is rule `r` a candidate at this position -/
def candidate (t : Table) (mode : Nat) (dc : Bool) (input : List Nat) (pos length before prevOp : Nat)
    (single posInc : Bool) (vars : List Nat) (r : Rule) : Bool :=
  (single || (decide (r.chars.length ≤ length) && validMatch t input pos r)) &&
  (if r.opcode == CTO_Context then
     posInc && (match Pass.fwdTest ⟨t, false, vars⟩ r.dots input pos (r.dots.length + 1) pos 0 (-1) (-1) false with
                | .fail => false
                | _ => true)
   else opcodeAccepts r.opcode mode dc before (afterAttrs t input pos r.chars.length) prevOp)

/-- **walkChainC_first**: the selected rule is the first candidate of the chain -/
theorem walkChainC_first (t : Table) (mode : Nat) (dc : Bool) (input : List Nat) (pos length before prevOp : Nat)
    (single posInc : Bool) (vars : List Nat) :
    ∀ (chain : List Nat) (s : SelC), walkChainC t mode dc input pos length before prevOp single posInc vars chain = some s →
      ∃ pre i post r, chain = pre ++ i :: post ∧ t.rule? i = some r ∧ s.sel.rule = some r ∧
        candidate t mode dc input pos length before prevOp single posInc vars r = true ∧
        ∀ j ∈ pre, ∀ q, t.rule? j = some q → candidate t mode dc input pos length before prevOp single posInc vars q = false := by
  intro chain
  induction chain with
  | nil => intro s h; simp [walkChainC] at h
  | cons i rest ih =>
    intro s h
    unfold walkChainC at h
    cases hr : t.rule? i with
    | none => simp [hr] at h
    | some r =>
      simp only [hr] at h
      -- either `r` is the selected candidate, or it is not a candidate and the walk goes on
      by_cases hcand : candidate t mode dc input pos length before prevOp single posInc vars r = true
      · refine ⟨[], i, rest, r, rfl, hr, ?_, hcand, by simp⟩
        unfold candidate at hcand
        simp only [Bool.and_eq_true] at hcand
        obtain ⟨hm, hc⟩ := hcand
        simp only [hm, ↓reduceIte] at h
        by_cases hctx : (r.opcode == CTO_Context) = true
        · simp only [hctx, ↓reduceIte, Bool.and_eq_true] at h hc
          simp only [hc.1, Bool.not_true, Bool.false_eq_true, ↓reduceIte] at h
          cases ht : Pass.fwdTest ⟨t, false, vars⟩ r.dots input pos (r.dots.length + 1) pos 0 (-1) (-1) false with
          | unsupported => simp only [ht] at h; cases h; rfl
          | ok m ic => simp only [ht] at h; cases h; rfl
          | fail => simp [ht] at hc
        · simp only [hctx, Bool.false_eq_true, ↓reduceIte] at h hc
          simp only [hc, ↓reduceIte] at h
          cases h; rfl
      · have hn : candidate t mode dc input pos length before prevOp single posInc vars r = false := by
          simpa using hcand
        have hrest : walkChainC t mode dc input pos length before prevOp single posInc vars rest = some s := by
          unfold candidate at hn
          by_cases hm : (single || (decide (r.chars.length ≤ length) && validMatch t input pos r)) = true
          · simp only [hm, ↓reduceIte] at h
            simp only [hm, Bool.true_and] at hn
            by_cases hctx : (r.opcode == CTO_Context) = true
            · simp only [hctx, ↓reduceIte] at h hn
              by_cases hpi : posInc = true
              · subst hpi
                simp only [Bool.not_true, Bool.false_eq_true, ↓reduceIte, Bool.true_and] at h hn
                cases ht : Pass.fwdTest ⟨t, false, vars⟩ r.dots input pos (r.dots.length + 1) pos 0 (-1) (-1) false with
                | unsupported => simp [ht] at hn
                | ok m ic => simp [ht] at hn
                | fail => simpa [ht] using h
              · have : posInc = false := by simpa using hpi
                subst this
                simpa using h
            · simp only [hctx, Bool.false_eq_true, ↓reduceIte] at h hn
              simpa [hn] using h
          · simpa [hm] using h
        obtain ⟨pre, j, post, q, hch, hq, hsel, hcq, hpre⟩ := ih s hrest
        refine ⟨i :: pre, j, post, q, by simp [hch], hq, hsel, hcq, ?_⟩
        intro k hk q' hq'
        rcases List.mem_cons.mp hk with rfl | hk
        · rw [hr] at hq'; cases hq'; exact hn
        · exact hpre k hk q' hq'

end Lou.C05Ctx
