/-
  Termination of the main pass of the forward engine model (C03, Layer B): an iteration of `Fwd.step` that does not
  end the loop consumes at least one character, so the `n + 2` fuel of `Fwd.translate` is never what stops it.
  The hypothesis (`CharChainsOK`) is discharged for every compiled table of the fragment by C12's invariant.
-/
import LouProofs.FwdOK
import LouProofs.C05Link

namespace Lou.FwdTerm
open Lou Lou.Gen Lou.Fwd

/-- what the compiler guarantees about the chain of a character (C12 `charMember`): its rules have exactly one
    character -/
def CharChainsOK (t : Table) : Prop :=
  ∀ (c i : Nat) (r : Rule), i ∈ (t.getChar c).chain → t.rule? i = some r → r.chars.length = 1

theorem walkChain_charslen (t : Table) (mode : Nat) (dc : Bool) (input : List Nat) (pos length before prevOp : Nat) (single : Bool) :
    ∀ (chain : List Nat) (s : Sel), walkChain t mode dc input pos length before prevOp single chain = some s →
      (single = false → 1 ≤ s.charslen) ∧
      (single = true → ∃ i ∈ chain, ∃ r, t.rule? i = some r ∧ s.charslen = r.chars.length) := by
  intro chain
  induction chain with
  | nil => intro s h; simp [walkChain] at h
  | cons i rest ih =>
    intro s h
    unfold walkChain at h
    split at h
    · cases h
    · rename_i r hr
      simp only [] at h
      split at h
      · rename_i hc
        cases h
        refine ⟨?_, ?_⟩
        · intro hs
          subst hs
          simp only [Bool.false_or, Bool.and_eq_true, decide_eq_true_eq] at hc
          have hv := hc.1.2
          unfold validMatch at hv
          simp only [] at hv
          split at hv
          · cases hv
          · rename_i hn
            have : r.chars.length ≠ 0 := by simpa using hn
            simp only []; omega
        · intro _
          exact ⟨i, List.mem_cons_self, r, hr, rfl⟩
      · obtain ⟨a, b⟩ := ih s h
        exact ⟨a, fun hs => by obtain ⟨j, hj, r', hr', he⟩ := b hs; exact ⟨j, List.mem_cons_of_mem _ hj, r', hr', he⟩⟩

theorem selectRule_charslen (t : Table) (hwf : CharChainsOK t) (mode : Nat) (dc : Bool) (input : List Nat) (pos before prevOp : Nat) :
    1 ≤ (selectRule t mode dc input pos before prevOp).charslen := by
  unfold selectRule
  simp only []
  split
  · rename_i s hs
    split at hs
    · exact (walkChain_charslen _ _ _ _ _ _ _ _ _ _ _ hs).1 rfl
    · cases hs
  · split
    · rename_i s hs
      split at hs
      · obtain ⟨i, hi, r, hr, he⟩ := (walkChain_charslen _ _ _ _ _ _ _ _ _ _ _ hs).2 rfl
        have := hwf _ i r hi hr
        omega
      · cases hs
    · simp

end Lou.FwdTerm

namespace Lou.FwdTerm
open Lou Lou.Gen Lou.Fwd Lou.FwdOK

theorem each_adv (t : Table) (mode : Nat) (input : List Nat) (max : Nat) :
    ∀ (k p : Nat) (o : Out), (emit.each t mode input max k p o).2.2 = true →
      p ≤ (emit.each t mode input max k p o).1 ∧ (0 < k → p < (emit.each t mode input max k p o).1) := by
  intro k
  induction k with
  | zero => intro p o _; simp [emit.each]
  | succ k ih =>
    intro p o h
    unfold emit.each at h ⊢
    cases hpc : putCharacter t mode (inAt input p) p input max o with
    | none => simp only [hpc] at h; cases h
    | some o' =>
      simp only [hpc] at h ⊢
      by_cases hn : p + 1 ≥ input.length
      · simp only [hn, ↓reduceIte]; omega
      · simp only [hn, ↓reduceIte] at h ⊢
        have := (ih (p + 1) o' h).1
        omega

theorem emit_adv (t : Table) (mode : Nat) (input : List Nat) (max : Nat) (s : Sel) (pos : Nat) (o : Out)
    (hs : 1 ≤ s.charslen) (h : (emit t mode input max s pos o).2.2 = true) :
    pos < (emit t mode input max s pos o).1 := by
  unfold emit at h ⊢
  split
  · rename_i hc
    simp only [hc, ↓reduceIte] at h
    cases hpc : putCharacter t mode (inAt input pos) pos input max o with
    | none => simp only [hpc] at h; cases h
    | some o' => simp
  · rename_i hc
    simp only [hc, ↓reduceIte] at h
    split
    · rename_i hr; simp only [hr] at h; cases h
    · rename_i r hr
      simp only [hr] at h
      split
      · rename_i hd
        simp only [hd, ↓reduceIte] at h
        cases hu : updatePositions r.dots s.charslen 0 pos input max o with
        | none => simp only [hu] at h; cases h
        | some o' => simp only []; omega
      · rename_i hd
        simp only [hd, ↓reduceIte] at h
        exact (each_adv t mode input max s.charslen pos o h).2 (by omega)


/-- an iteration that does not end the loop moves the position forward -/
theorem step_adv (t : Table) (hwf : CharChainsOK t) (mode : Nat) (input : List Nat) (max : Nat) (st : St)
    (h : (step t mode input max st).2 = false) : st.pos < (step t mode input max st).1.pos := by
  unfold step at h ⊢
  have hp : (if (st.pos > 0 && isSpace t (inAt input (st.pos - 1)) && st.transOpcode != CTO_JoinableWord) = true then
        { st with lastIn := st.pos, lastOut := st.out.cells.length } else st).pos = st.pos := by
    split <;> rfl
  generalize (if (st.pos > 0 && isSpace t (inAt input (st.pos - 1)) && st.transOpcode != CTO_JoinableWord) = true then
        { st with lastIn := st.pos, lastOut := st.out.cells.length } else st) = s1 at h hp ⊢
  simp only [] at h ⊢
  rw [← hp]
  split
  · rename_i he; simp only [he, ↓reduceIte] at h; cases h
  · rename_i he
    simp only [he, ↓reduceIte] at h
    split
    · rename_i hi; simp only [hi] at h; cases h
    · rename_i o1 hi
      simp only [hi] at h
      have hs := selectRule_charslen t hwf mode s1.dontContract input s1.pos (beforeAttrs t input s1.pos) s1.prevOp
      have ha := emit_adv t mode input max
        (selectRule t mode s1.dontContract input s1.pos (beforeAttrs t input s1.pos) s1.prevOp) s1.pos o1 hs
      generalize emit t mode input max
        (selectRule t mode s1.dontContract input s1.pos (beforeAttrs t input s1.pos) s1.prevOp) s1.pos o1 = e at h ha ⊢
      obtain ⟨p', o2, b⟩ := e
      cases b
      · simp only [] at h; cases h
      · simp only [] at ha ⊢; exact ha trivial

/-- at the end of the input the loop ends -/
theorem step_end (t : Table) (mode : Nat) (input : List Nat) (max : Nat) (st : St) (h : st.pos = input.length) :
    (step t mode input max st).2 = true := by
  unfold step
  have hp : (if (st.pos > 0 && isSpace t (inAt input (st.pos - 1)) && st.transOpcode != CTO_JoinableWord) = true then
        { st with lastIn := st.pos, lastOut := st.out.cells.length } else st).pos = input.length := by
    split <;> exact h
  generalize (if (st.pos > 0 && isSpace t (inAt input (st.pos - 1)) && st.transOpcode != CTO_JoinableWord) = true then
        { st with lastIn := st.pos, lastOut := st.out.cells.length } else st) = s1 at hp ⊢
  simp [hp]

/-- **C03 for the main pass of the model**: `n - pos + 1` iterations are enough — the loop of `translate` (fuel
    `n + 2`) is never cut off by its fuel, for every table whose character chains hold one-character rules, every
    input, mode and capacity -/
theorem loop_fuel (t : Table) (hwf : CharChainsOK t) (mode : Nat) (input : List Nat) (max : Nat) :
    ∀ (fuel : Nat) (st : St), StInv input.length max st → input.length - st.pos + 1 ≤ fuel →
      loop t mode input max (fuel + 1) st = loop t mode input max fuel st := by
  intro fuel
  induction fuel with
  | zero => intro st _ h; omega
  | succ f ih =>
    intro st hinv h
    rw [loop.eq_2 (fuel := f + 1), loop.eq_2 (fuel := f)]
    have hs := step_ok t mode input max st hinv
    have ha := step_adv t hwf mode input max st
    have he := step_end t mode input max st
    generalize step t mode input max st = r at hs ha he
    obtain ⟨st', done⟩ := r
    simp only [] at ha he ⊢
    cases done
    · simp only [Bool.false_eq_true, ↓reduceIte]
      have := ha rfl
      have hle := hs.2.1
      by_cases hend : st.pos = input.length
      · have := he hend; cases this
      · exact ih st' hs (by have := hinv.2.1; omega)
    · simp

/-- any larger fuel gives the same final state: the result of `translate` is the result of the unbounded loop -/
theorem loop_fuel_any (t : Table) (hwf : CharChainsOK t) (mode : Nat) (input : List Nat) (max : Nat) (st : St)
    (hinv : StInv input.length max st) (k : Nat) :
    loop t mode input max (input.length - st.pos + 1 + k) st = loop t mode input max (input.length - st.pos + 1) st := by
  induction k with
  | zero => rfl
  | succ k ih => rw [← Nat.add_assoc, loop_fuel t hwf mode input max _ st hinv (by omega), ih]


/-- the compiler's invariant (C12 `charMember`) gives the hypothesis -/
theorem charChains_of_consistent (t : Table) (raws : List (Nat × Nat)) (h : Lou.C12.TableConsistent t raws) : CharChainsOK t := by
  intro c i r hi hr
  unfold Table.getChar at hi
  cases hc : t.char? c with
  | none => simp [hc] at hi
  | some rec =>
    simp only [hc, Option.getD_some] at hi
    have hm : rec ∈ t.chars := List.mem_of_find?_eq_some hc
    have := h.charMember rec hm i hi r (Lou.C05Link.res_of_rule? t i r hr)
    simp [this]

/-- **main pass of every compiled table of the fragment terminates inside its bound**: more fuel than `translate`
    supplies changes nothing -/
theorem compile_translate_fuel (es : List Lou.Compile.Entry) (t : Table) (hop : ∀ e ∈ es, e.opcode ≠ CTO_Context)
    (hc : Lou.Compile.compile es = some t) (mode : Nat) (input : List Nat) (max : Nat) (cpos cstat : Int) (k : Nat) :
    loop t mode input max (input.length + 2 + k) { out := { cpos := cpos, cstat := cstat } } =
    loop t mode input max (input.length + 2) { out := { cpos := cpos, cstat := cstat } } := by
  have hwf := charChains_of_consistent t [] (Lou.C12.compile_consistent es t hop hc)
  have hinv : StInv input.length max ({ out := { cpos := cpos, cstat := cstat } } : St) := by
    exact ⟨⟨rfl, Nat.zero_le _, by simp⟩, Nat.zero_le _, Nat.zero_le _, Nat.zero_le _⟩
  have h1 := loop_fuel_any t hwf mode input max _ hinv (1 + k)
  have h2 := loop_fuel_any t hwf mode input max _ hinv 1
  simp only [Nat.sub_zero] at h1 h2
  rw [show input.length + 2 + k = input.length + 1 + (1 + k) by omega, h1, ← h2]


/-- non-vacuity: the example entries of C12 compile, so the theorem speaks about an actual table -/
example : ∃ t, Lou.Compile.compile Lou.C12.exEntries = some t ∧ CharChainsOK t := by
  refine ⟨_, rfl, ?_⟩
  exact charChains_of_consistent _ [] (Lou.C12.compile_consistent Lou.C12.exEntries _ (by decide) rfl)

end Lou.FwdTerm
