/-
  C08 — "Results are a pure function of table sources and arguments".

  Wanted:  ∀ fs (h : List Call) c, result of c after history h = result of c from the initial state.

  What the code forces:
  * the statement is about the calls the property names (translation, back-translation, hyphenation,
    character/dot conversion); `lou_compileString` changes a cached table BY DESIGN, so a history may
    not add rules to the list the call uses (`noAddTo`) — the check compares such calls with a fresh
    process that adds the same rules first;
  * for `lou_compileString` itself the statement is FALSE of the code: errorCount is reset by
    compileTable only, so an `include` added after any failed compilation fails (F7).  The negation is
    proved on a model witness (`compileString_depends_on_history`);
  * the engines are parameters; the hypothesis is `Sem.Pure`: no engine reads the ambient (stale
    scratch contents, allocator sizes, remembered search starts).  That no OTHER state exists is
    `statics_covered`: every static of the C sources is in the classification, by `decide` over the
    inventory regenerated from clang's AST — a new static breaks the proof.
-/
import LouModel.Lib

namespace Lou.C08

open Lou.Lib Lou.Gen.Statics

/-! ### the statics -/

/-- **statics_covered**: the hand-written classification has exactly the entries of the generated
    inventory (same objects, same order): nothing unclassified, nothing stale -/
theorem statics_covered :
    classification.map (fun c => (c.file, c.func, c.name)) = statics.map (fun v => (v.file, v.func, v.name)) := by
  decide +kernel

/-- **classification_sound**: every classification agrees with what the extractor saw: const objects are
    const-qualified, never-written ones have no assignment / address-of / bare-argument occurrence, the
    resetting function of a reset-before-use static is among its writers, size variables and scratch
    pointers are written by `_lou_allocMem` and `lou_free` only, the chains by `getTable` and `lou_free`
    only, logger state by the logging setters only, a search start by its own function only -/
theorem classification_sound : allAgree statics classification = true := by
  decide +kernel

/-- the statics that can carry information from one call to the next, as classified -/
example : (classification.filter fun c => match c.kind with | .compileCounter _ => true | _ => false).map (·.name) =
    ["errorCount", "fileCount", "warningCount"] := by decide +kernel

/-! ### the remembered search start -/

/-- **opcodeNames_nodup**: the table `getOpcode` searches has no duplicates (also not up to case, for
    the `strcasecmp` of `_lou_findOpcodeNumber`) -/
theorem opcodeNames_nodup : opcodeNames.Nodup ∧ (opcodeNames.map String.toLower).Nodup := by
  constructor <;> decide +kernel

theorem find?_perm_unique {α : Type} (p : α → Bool) {l l' : List α} (hp : l.Perm l')
    (hu : ∀ a b, a ∈ l → b ∈ l → p a = true → p b = true → a = b) : l.find? p = l'.find? p := by
  cases h : l.find? p with
  | none =>
    rw [List.find?_eq_none] at h
    symm
    rw [List.find?_eq_none]
    intro x hx
    exact h x (hp.mem_iff.mpr hx)
  | some a =>
    have ha : a ∈ l := List.mem_of_find?_eq_some h
    have hpa : p a = true := List.find?_some h
    cases h' : l'.find? p with
    | none =>
      rw [List.find?_eq_none] at h'
      exact absurd hpa (h' a (hp.mem_iff.mp ha))
    | some b =>
      have hb : b ∈ l := hp.mem_iff.mpr (List.mem_of_find?_eq_some h')
      rw [hu a b ha hb hpa (List.find?_some h')]

theorem visitOrder_perm (n start : Nat) (h : start ≤ n) : (visitOrder n start).Perm (visitOrder n 0) := by
  unfold visitOrder
  have h1 : List.range' 0 (n - 0) ++ List.range' 0 0 = List.range' 0 start ++ List.range' start (n - start) := by
    simp only [List.range'_zero, List.append_nil, Nat.sub_zero]
    have := @List.range'_append 0 start (n - start) 1
    simp only [Nat.one_mul, Nat.zero_add] at this
    rw [this]
    congr 1
    omega
  rw [h1]
  exact List.perm_append_comm

/-- **searchStart_irrelevant**: over a duplicate-free name table the circular search finds the same
    opcode (or none) from every start — the static `lastOpcode` cannot change a result -/
theorem searchStart_irrelevant (names : List String) (hn : names.Nodup) (start : Nat) (hs : start ≤ names.length)
    (tok : String) : findFrom names start tok = findFrom names 0 tok := by
  unfold findFrom
  apply find?_perm_unique _ (visitOrder_perm _ _ hs)
  intro a b _ _ ha hb
  simp only [beq_iff_eq] at ha hb
  have hab : names[a]? = names[b]? := by rw [ha, hb]
  have hla : a < names.length := by
    rcases Nat.lt_or_ge a names.length with h | h
    · exact h
    · rw [List.getElem?_eq_none h] at ha; simp at ha
  exact (List.getElem?_inj hla hn).mp hab

/-- for the real table: whatever `lastOpcode` holds -/
theorem getOpcode_start_irrelevant (start : Nat) (hs : start ≤ opcodeNames.length) (tok : String) :
    findFrom opcodeNames start tok = findFrom opcodeNames 0 tok :=
  searchStart_irrelevant _ opcodeNames_nodup.1 start hs tok

example : findFrom opcodeNames 57 "include" = some 0 ∧ findFrom opcodeNames 0 "include" = some 0 ∧
          findFrom opcodeNames 116 "nosuchopcode" = none := by decide +kernel

/-! ### the whole-library state machine -/

section Machine

variable {FS T D : Type} (sem : Sem FS T D) (fs : FS)

def a0 : Ambient := {}

/-- a cached translation table is what a fresh process compiles (and, once used, finalizes) -/
def GoodT (e : TrEntry T) : Prop :=
  ∃ t0, sem.compile fs a0 e.name = some t0 ∧
    (if e.finalized then sem.finalize a0 t0 = some e.table else e.table = t0)

def GoodD (e : DispEntry D) : Prop := sem.compileDisp fs a0 e.name = some e.table

/-- the invariant, for the one list `n0` the theorem is about -/
structure Inv (n0 : Name) (s : LibState T D) : Prop where
  tr : ∀ e ∈ s.tr, e.name = n0 → GoodT sem fs e
  disp : ∀ e ∈ s.disp, e.name = n0 → GoodD sem fs e
  both : ∀ n, (findT s.tr n).isSome = true → (findD s.disp n).isSome = true

theorem findT_some {c : List (TrEntry T)} {n : Name} {e : TrEntry T} (h : findT c n = some e) : e ∈ c ∧ e.name = n := by
  unfold findT at h
  exact ⟨List.mem_of_find?_eq_some h, by simpa using List.find?_some h⟩

theorem findD_some {c : List (DispEntry D)} {n : Name} {e : DispEntry D} (h : findD c n = some e) : e ∈ c ∧ e.name = n := by
  unfold findD at h
  exact ⟨List.mem_of_find?_eq_some h, by simpa using List.find?_some h⟩

theorem findT_cons (c : List (TrEntry T)) (e : TrEntry T) (n : Name) :
    (findT (e :: c) n).isSome = (e.name == n || (findT c n).isSome) := by
  unfold findT
  rw [List.find?_cons]
  cases h : e.name == n <;> simp

theorem findD_cons (c : List (DispEntry D)) (e : DispEntry D) (n : Name) :
    (findD (e :: c) n).isSome = (e.name == n || (findD c n).isSome) := by
  unfold findD
  rw [List.find?_cons]
  cases h : e.name == n <;> simp

theorem findT_setT (c : List (TrEntry T)) (n : Name) (e : TrEntry T) (he : e.name = n) (k : Name) :
    (findT (setT c n e) k).isSome = (findT c k).isSome := by
  induction c with
  | nil => rfl
  | cons x xs ih =>
    have h1 : setT (x :: xs) n e = (if x.name == n then e else x) :: setT xs n e := rfl
    rw [h1, findT_cons, findT_cons, ih]
    congr 1
    by_cases hx : (x.name == n) = true
    · rw [if_pos hx]
      have : x.name = n := by simpa using hx
      rw [he, this]
    · rw [if_neg hx]

theorem findD_setD (c : List (DispEntry D)) (n : Name) (e : DispEntry D) (he : e.name = n) (k : Name) :
    (findD (setD c n e) k).isSome = (findD c k).isSome := by
  induction c with
  | nil => rfl
  | cons x xs ih =>
    have h1 : setD (x :: xs) n e = (if x.name == n then e else x) :: setD xs n e := rfl
    rw [h1, findD_cons, findD_cons, ih]
    congr 1
    by_cases hx : (x.name == n) = true
    · rw [if_pos hx]
      have : x.name = n := by simpa using hx
      rw [he, this]
    · rw [if_neg hx]

theorem mem_setT {c : List (TrEntry T)} {n : Name} {e x : TrEntry T} (h : x ∈ setT c n e) :
    x = e ∨ (x ∈ c ∧ (x.name == n) = false) := by
  simp only [setT, List.mem_map] at h
  obtain ⟨y, hy, rfl⟩ := h
  by_cases hyn : (y.name == n) = true
  · rw [if_pos hyn]; exact Or.inl rfl
  · rw [if_neg hyn]; exact Or.inr ⟨hy, by simpa using hyn⟩

theorem mem_setD {c : List (DispEntry D)} {n : Name} {e x : DispEntry D} (h : x ∈ setD c n e) :
    x = e ∨ (x ∈ c ∧ (x.name == n) = false) := by
  simp only [setD, List.mem_map] at h
  obtain ⟨y, hy, rfl⟩ := h
  by_cases hyn : (y.name == n) = true
  · rw [if_pos hyn]; exact Or.inl rfl
  · rw [if_neg hyn]; exact Or.inr ⟨hy, by simpa using hyn⟩

/-- what a fresh process hands to the engines for list `n` -/
def freshBoth (n : Name) : Option T × Option D :=
  if n = [] then (none, none) else
  match sem.compile fs a0 n, sem.compileDisp fs a0 n with
  | some t0, some d0 => (sem.finalize a0 t0, some d0)
  | _, _ => (none, none)

def freshDisp (n : Name) : Option D := if n = [] then none else sem.compileDisp fs a0 n

/-- `getTable`: the invariant is kept (whatever list is asked for), the ambient and the other chains'
    entries are not touched, and for the list `n0` the entries handed back are good -/
theorem getBoth_inv (hp : sem.Pure) (n0 : Name) (s : LibState T D) (n : Name) (h : Inv sem fs n0 s) :
    Inv sem fs n0 (getBoth sem fs s n).1 ∧ (getBoth sem fs s n).1.amb = s.amb ∧
    (∀ e, (getBoth sem fs s n).2.1 = some e → e ∈ (getBoth sem fs s n).1.tr ∧ e.name = n) ∧
    (∀ e, (getBoth sem fs s n).2.2 = some e → e ∈ (getBoth sem fs s n).1.disp ∧ e.name = n) ∧
    ((getBoth sem fs s n).2.1.isSome = true → (getBoth sem fs s n).2.2.isSome = true) ∧
    (n ≠ [] → (getBoth sem fs s n).2.1 = none →
      (sem.compile fs a0 n = none ∨ sem.compileDisp fs a0 n = none)) ∧
    ((getBoth sem fs s n).2.1.isSome = true → n ≠ []) := by
  unfold getBoth
  by_cases hn : n = []
  · rw [if_pos hn]
    exact ⟨h, rfl, by simp, by simp, by simp, fun h => absurd hn h, by simp⟩
  rw [if_neg hn]
  have pc : sem.compile fs s.amb n = sem.compile fs a0 n := hp.compile _ _ _ _
  have pd : sem.compileDisp fs s.amb n = sem.compileDisp fs a0 n := hp.compileDisp _ _ _ _
  cases ht : findT s.tr n with
  | some t =>
    have hb := h.both n (by rw [ht]; rfl)
    cases hd : findD s.disp n with
    | none => rw [hd] at hb; simp at hb
    | some d =>
      dsimp only
      exact ⟨h, rfl, fun e he => by cases he; exact findT_some ht, fun e he => by cases he; exact findD_some hd,
        fun _ => rfl, fun _ hh => by simp at hh, fun _ => hn⟩
  | none =>
    cases hd : findD s.disp n with
    | none =>
      dsimp only
      rw [pc, pd]
      cases hc : sem.compile fs a0 n with
      | none =>
        dsimp only
        exact ⟨⟨h.tr, h.disp, h.both⟩, rfl, by simp, by simp, by simp, fun _ _ => Or.inl rfl, fun _ => hn⟩
      | some t0 =>
        cases hcd : sem.compileDisp fs a0 n with
        | none =>
          dsimp only
          exact ⟨⟨h.tr, h.disp, h.both⟩, rfl, by simp, by simp, by simp, fun _ _ => Or.inr rfl, fun _ => hn⟩
        | some d0 =>
          dsimp only
          refine ⟨⟨?_, ?_, ?_⟩, rfl, ?_, ?_, fun _ => rfl, fun _ hh => by simp at hh, fun _ => hn⟩
          · intro e he hen
            simp only [List.mem_cons] at he
            rcases he with rfl | he
            · exact ⟨t0, hc, by simp⟩
            · exact h.tr e he hen
          · intro e he hen
            simp only [List.mem_cons] at he
            rcases he with rfl | he
            · exact hcd
            · exact h.disp e he hen
          · intro k hk
            rw [findD_cons]
            rw [findT_cons] at hk
            dsimp only at hk ⊢
            cases hkn : n == k
            · rw [hkn] at hk; simpa using h.both k (by simpa using hk)
            · rfl
          · intro e he; cases he; exact ⟨by simp, rfl⟩
          · intro e he; cases he; exact ⟨by simp, rfl⟩
    | some d =>
      dsimp only
      rw [pc]
      cases hc : sem.compile fs a0 n with
      | none =>
        dsimp only
        exact ⟨⟨h.tr, h.disp, h.both⟩, rfl, by simp, fun e he => by cases he; exact findD_some hd, by simp,
          fun _ _ => Or.inl rfl, fun _ => hn⟩
      | some t0 =>
        dsimp only
        refine ⟨⟨?_, h.disp, ?_⟩, rfl, ?_, fun e he => by cases he; exact findD_some hd, fun _ => rfl,
          fun _ hh => by simp at hh, fun _ => hn⟩
        · intro e he hen
          simp only [List.mem_cons] at he
          rcases he with rfl | he
          · exact ⟨t0, hc, by simp⟩
          · exact h.tr e he hen
        · intro k hk
          rw [findT_cons] at hk
          dsimp only at hk
          cases hkn : n == k
          · rw [hkn] at hk; exact h.both k (by simpa using hk)
          · have : n = k := by simpa using hkn
            subst this; rw [hd]; rfl
        · intro e he; cases he; exact ⟨by simp, rfl⟩

/-- `_lou_getTable`: invariant kept; for the list `n0` the tables handed to the engine are those of a
    fresh process -/
theorem getBothFinal_inv (hp : sem.Pure) (n0 : Name) (s : LibState T D) (n : Name) (h : Inv sem fs n0 s) :
    Inv sem fs n0 (getBothFinal sem fs s n).1 ∧
    (n = n0 → (getBothFinal sem fs s n).2.1 = (freshBoth sem fs n).1 ∧
      ((getBothFinal sem fs s n).2.1.isSome = true → (getBothFinal sem fs s n).2.2 = (freshBoth sem fs n).2)) := by
  obtain ⟨hi, ha, ht, hd, hboth, hnone, hnonempty⟩ := getBoth_inv sem fs hp n0 s n h
  unfold getBothFinal
  generalize getBoth sem fs s n = r at *
  dsimp only
  cases hr : r.2.1 with
  | none =>
    dsimp only
    refine ⟨hi, fun hn => ⟨?_, by simp⟩⟩
    unfold freshBoth
    by_cases hne : n = []
    · rw [if_pos hne]
    · rw [if_neg hne]
      rcases hnone hne hr with hc | hc
      · rw [hc]
      · rw [hc]; cases sem.compile fs a0 n <;> rfl
  | some e =>
    dsimp only
    obtain ⟨hemem, hename⟩ := ht e hr
    have hne : n ≠ [] := hnonempty (by rw [hr]; rfl)
    have hsome : r.2.2.isSome = true := hboth (by rw [hr]; rfl)
    cases hrd : r.2.2 with
    | none => rw [hrd] at hsome; simp at hsome
    | some de =>
      obtain ⟨hdmem, hdname⟩ := hd de hrd
      -- what the invariant says about the two entries when n = n0
      have good : n = n0 → ∃ t0, sem.compile fs a0 n = some t0 ∧ sem.compileDisp fs a0 n = some de.table ∧
          (if e.finalized then sem.finalize a0 t0 = some e.table else e.table = t0) := by
        intro hn
        obtain ⟨t0, h1, h2⟩ := hi.tr e hemem (hename.trans hn)
        have h3 := hi.disp de hdmem (hdname.trans hn)
        unfold GoodD at h3
        rw [hename] at h1; rw [hdname] at h3
        exact ⟨t0, h1, h3, h2⟩
      have fresh : ∀ t0, sem.compile fs a0 n = some t0 → sem.compileDisp fs a0 n = some de.table →
          freshBoth sem fs n = (sem.finalize a0 t0, some de.table) := by
        intro t0 h1 h3
        unfold freshBoth
        rw [if_neg hne, h1, h3]
      by_cases hfin : e.finalized = true
      · rw [if_pos hfin]
        refine ⟨hi, fun hn => ?_⟩
        obtain ⟨t0, h1, h3, h2⟩ := good hn
        rw [if_pos hfin] at h2
        rw [fresh t0 h1 h3, h2]
        exact ⟨rfl, fun _ => rfl⟩
      · rw [if_neg hfin]
        have pf : sem.finalize r.1.amb e.table = sem.finalize a0 e.table := hp.finalize _ _ _
        rw [pf]
        cases hf : sem.finalize a0 e.table with
        | none =>
          dsimp only
          refine ⟨hi, fun hn => ?_⟩
          obtain ⟨t0, h1, h3, h2⟩ := good hn
          rw [if_neg hfin] at h2
          rw [fresh t0 h1 h3, ← h2, hf]
          exact ⟨rfl, by simp⟩
        | some t' =>
          dsimp only
          refine ⟨⟨?_, hi.disp, ?_⟩, fun hn => ?_⟩
          · intro x hx hxn
            rcases mem_setT hx with rfl | ⟨hxm, _⟩
            · -- the finalized entry: only matters when n = n0
              have hn : n = n0 := hxn
              obtain ⟨t0, h1, h3, h2⟩ := good hn
              rw [if_neg hfin] at h2
              refine ⟨t0, h1, ?_⟩
              dsimp only
              rw [if_pos rfl, ← h2]; exact hf
            · exact hi.tr x hxm hxn
          · intro k hk
            dsimp only at hk ⊢
            rw [findT_setT r.1.tr n ⟨n, t', true⟩ rfl k] at hk
            exact hi.both k hk
          · obtain ⟨t0, h1, h3, h2⟩ := good hn
            rw [if_neg hfin] at h2
            rw [fresh t0 h1 h3, ← h2, hf]
            exact ⟨rfl, fun _ => rfl⟩

/-- `_lou_getDisplayTable` -/
theorem getDispOnly_inv (hp : sem.Pure) (n0 : Name) (s : LibState T D) (n : Name) (h : Inv sem fs n0 s) :
    Inv sem fs n0 (getDispOnly sem fs s n).1 ∧
    (n = n0 → (getDispOnly sem fs s n).2 = freshDisp sem fs n) := by
  unfold getDispOnly freshDisp
  by_cases hn : n = []
  · rw [if_pos hn, if_pos hn]; exact ⟨h, fun _ => rfl⟩
  rw [if_neg hn, if_neg hn]
  have pd : sem.compileDisp fs s.amb n = sem.compileDisp fs a0 n := hp.compileDisp _ _ _ _
  cases hd : findD s.disp n with
  | some d =>
    dsimp only
    refine ⟨h, fun hn0 => ?_⟩
    obtain ⟨hm, hname⟩ := findD_some hd
    have := h.disp d hm (hname.trans hn0)
    unfold GoodD at this
    rw [hname] at this
    rw [this]
  | none =>
    dsimp only
    rw [pd]
    cases hc : sem.compileDisp fs a0 n with
    | none => exact ⟨⟨h.tr, h.disp, h.both⟩, fun _ => rfl⟩
    | some d0 =>
      dsimp only
      refine ⟨⟨h.tr, ?_, ?_⟩, fun _ => rfl⟩
      · intro e he hen
        simp only [List.mem_cons] at he
        rcases he with rfl | he
        · exact hc
        · exact h.disp e he hen
      · intro k hk
        rw [findD_cons]
        have := h.both k hk
        rw [this]; simp

/-- `lou_compileString` on a list other than `n0` -/
theorem compileString_inv (hp : sem.Pure) (b : Bool) (n0 : Name) (s : LibState T D) (n : Name) (rule : List Nat)
    (h : Inv sem fs n0 s) (hn : n ≠ n0) : Inv sem fs n0 (compileString b sem fs s n rule).1 := by
  obtain ⟨hi, ha, ht, hd, hboth, hnone, hnonempty⟩ := getBoth_inv sem fs hp n0 s n h
  unfold compileString
  generalize getBoth sem fs s n = r at *
  dsimp only
  cases hr : r.2.1 with
  | none => exact hi
  | some e =>
    dsimp only
    have hs1 : Inv sem fs n0 (if b = true then { r.1 with errorCount := 0 } else r.1) := by
      split
      · exact ⟨hi.tr, hi.disp, hi.both⟩
      · exact hi
    generalize (if b = true then ({ r.1 with errorCount := 0 } : LibState T D) else r.1) = s1 at *
    split
    · exact ⟨hs1.tr, hs1.disp, hs1.both⟩
    · split
      · exact ⟨hs1.tr, hs1.disp, hs1.both⟩
      · rename_i t' d' _
        refine ⟨?_, ?_, ?_⟩
        · intro x hx hxn
          rcases mem_setT hx with rfl | ⟨hxm, _⟩
          · exact absurd hxn hn
          · exact hs1.tr x hxm hxn
        · intro x hx hxn
          cases d' with
          | none => exact hs1.disp x hx hxn
          | some d =>
            rcases mem_setD hx with rfl | ⟨hxm, _⟩
            · exact absurd hxn hn
            · exact hs1.disp x hxm hxn
        · intro k hk
          dsimp only at hk ⊢
          rw [findT_setT s1.tr n ⟨n, t', false⟩ rfl k] at hk
          cases d' with
          | none => exact hs1.both k hk
          | some d => dsimp only; rw [findD_setD s1.disp n ⟨n, d⟩ rfl k]; exact hs1.both k hk

theorem init_inv (n0 : Name) : Inv sem fs n0 (LibState.init : LibState T D) :=
  ⟨fun e he => by simp [LibState.init] at he, fun e he => by simp [LibState.init] at he,
   fun n hn => by simp [LibState.init, findT] at hn⟩

/-- one call keeps the invariant, provided it is not a `lou_compileString` on `n0` -/
theorem step_inv (hp : sem.Pure) (b : Bool) (n0 : Name) (s : LibState T D) (c : Call) (h : Inv sem fs n0 s)
    (hc : ∀ r, c ≠ .compileString n0 r) : Inv sem fs n0 (stepWith b sem fs s c).1 := by
  have amb : ∀ (s' : LibState T D) (a : Ambient), Inv sem fs n0 s' → Inv sem fs n0 { s' with amb := a } :=
    fun s' a hh => ⟨hh.tr, hh.disp, hh.both⟩
  cases c with
  | translate n a => exact amb _ _ (getBothFinal_inv sem fs hp n0 s n h).1
  | backTranslate n a => exact amb _ _ (getBothFinal_inv sem fs hp n0 s n h).1
  | hyphenate n w m => exact amb _ _ (getBothFinal_inv sem fs hp n0 s n h).1
  | charToDots n i m => exact amb _ _ (getDispOnly_inv sem fs hp n0 s n h).1
  | dotsToChar n i m => exact amb _ _ (getDispOnly_inv sem fs hp n0 s n h).1
  | compileString n rule =>
    have hn : n ≠ n0 := fun hh => hc rule (by rw [hh])
    exact amb _ _ (compileString_inv sem fs hp b n0 s n rule h hn)
  | free =>
    exact ⟨fun e he => by simp [stepWith] at he, fun e he => by simp [stepWith] at he,
      fun n hn => by simp [stepWith, findT] at hn⟩
  | setLogLevel l => exact ⟨h.tr, h.disp, h.both⟩

theorem run_inv (hp : sem.Pure) (b : Bool) (n0 : Name) (hist : List Call) (hh : noAddTo n0 hist = true) :
    ∀ s : LibState T D, Inv sem fs n0 s → Inv sem fs n0 (runWith b sem fs s hist) := by
  induction hist with
  | nil => intro s h; exact h
  | cons c cs ih =>
    intro s h
    have hc : ∀ r, c ≠ .compileString n0 r := by
      intro r hcr
      subst hcr
      simp [noAddTo] at hh
    have hrest : noAddTo n0 cs = true := by
      cases c <;> simp_all [noAddTo]
    exact ih hrest _ (step_inv sem fs hp b n0 s c h hc)

/-- **cached_is_compiled**: after ANY history that adds no run-time rule to list `n`, whatever the
    caches hold for `n` is what a fresh process would compile from the same files (finalized or not) -/
theorem cached_is_compiled (hp : sem.Pure) (n : Name) (hist : List Call) (hh : noAddTo n hist = true) :
    Inv sem fs n (run sem fs (LibState.init : LibState T D) hist) :=
  run_inv sem fs hp true n hist hh _ (init_inv sem fs n)

/-- a query in a state that satisfies the invariant for its list answers as in the initial state -/
theorem query_fresh (hp : sem.Pure) (b : Bool) (s : LibState T D) (c : Call) (hq : c.isQuery = true)
    (h : ∀ n, c.list? = some n → Inv sem fs n s) :
    (stepWith b sem fs s c).2 = (stepWith b sem fs (LibState.init : LibState T D) c).2 := by
  have hinit := fun n => init_inv (T := T) (D := D) sem fs n
  cases c with
  | translate n a =>
    obtain ⟨_, h1⟩ := getBothFinal_inv sem fs hp n s n (h n rfl)
    obtain ⟨_, h2⟩ := getBothFinal_inv sem fs hp n LibState.init n (hinit n)
    obtain ⟨e1, e2⟩ := h1 rfl
    obtain ⟨f1, f2⟩ := h2 rfl
    simp only [stepWith]
    rw [e1, f1]
    cases hx : (freshBoth sem fs n).1 with
    | none => rfl
    | some t =>
      rw [e2 (by rw [e1, hx]; rfl), f2 (by rw [f1, hx]; rfl)]
      simp only [Option.map_some]
      rw [hp.translate s.amb (LibState.init : LibState T D).amb]
  | backTranslate n a =>
    obtain ⟨_, h1⟩ := getBothFinal_inv sem fs hp n s n (h n rfl)
    obtain ⟨_, h2⟩ := getBothFinal_inv sem fs hp n LibState.init n (hinit n)
    obtain ⟨e1, e2⟩ := h1 rfl
    obtain ⟨f1, f2⟩ := h2 rfl
    simp only [stepWith]
    rw [e1, f1]
    cases hx : (freshBoth sem fs n).1 with
    | none => rfl
    | some t =>
      rw [e2 (by rw [e1, hx]; rfl), f2 (by rw [f1, hx]; rfl)]
      simp only [Option.map_some]
      rw [hp.backTranslate s.amb (LibState.init : LibState T D).amb]
  | hyphenate n w m =>
    obtain ⟨_, h1⟩ := getBothFinal_inv sem fs hp n s n (h n rfl)
    obtain ⟨_, h2⟩ := getBothFinal_inv sem fs hp n LibState.init n (hinit n)
    obtain ⟨e1, e2⟩ := h1 rfl
    obtain ⟨f1, f2⟩ := h2 rfl
    simp only [stepWith]
    rw [e1, f1]
    cases hx : (freshBoth sem fs n).1 with
    | none => rfl
    | some t =>
      rw [e2 (by rw [e1, hx]; rfl), f2 (by rw [f1, hx]; rfl)]
      cases (freshBoth sem fs n).2 with
      | none => rfl
      | some d => dsimp only; rw [hp.hyphenate s.amb (LibState.init : LibState T D).amb]
  | charToDots n i m =>
    obtain ⟨_, h1⟩ := getDispOnly_inv sem fs hp n s n (h n rfl)
    obtain ⟨_, h2⟩ := getDispOnly_inv sem fs hp n LibState.init n (hinit n)
    simp only [stepWith]
    rw [h1 rfl, h2 rfl]
    cases freshDisp sem fs n with
    | none => rfl
    | some d => simp only [Option.map_some]; rw [hp.charToDots s.amb (LibState.init : LibState T D).amb]
  | dotsToChar n i m =>
    obtain ⟨_, h1⟩ := getDispOnly_inv sem fs hp n s n (h n rfl)
    obtain ⟨_, h2⟩ := getDispOnly_inv sem fs hp n LibState.init n (hinit n)
    simp only [stepWith]
    rw [h1 rfl, h2 rfl]
    cases freshDisp sem fs n with
    | none => rfl
    | some d => simp only [Option.map_some]; rw [hp.dotsToChar s.amb (LibState.init : LibState T D).amb]
  | compileString n r => simp [Call.isQuery] at hq
  | free => simp [Call.isQuery] at hq
  | setLogLevel l => simp [Call.isQuery] at hq

/-- **history_irrelevant**: for every file system `fs`, every engine that reads only its declared inputs
    (`Sem.Pure`), every history `hist` of API calls (translations, back-translations, hyphenations,
    conversions with any tables, inputs, modes and sizes, `lou_free`, log-level changes,
    `lou_compileString` on OTHER lists) and every translation / back-translation / hyphenation /
    conversion call `c`: the result of `c` after `hist` is its result in a fresh process.  The file system
    is the same `fs` on both sides (hypothesis "the table files do not change"). -/
theorem history_irrelevant (hp : sem.Pure) (hist : List Call) (c : Call) (hq : c.isQuery = true)
    (hadd : ∀ n, c.list? = some n → noAddTo n hist = true) :
    (step sem fs (run sem fs (LibState.init : LibState T D) hist) c).2 =
    (step sem fs (LibState.init : LibState T D) c).2 :=
  query_fresh sem fs hp true _ c hq (fun n hn => cached_is_compiled sem fs hp n hist (hadd n hn))

/-- **order_irrelevant**: two histories (e.g. the same calls in two orders, or with `lou_free` inserted
    anywhere) give the same result for the call that follows -/
theorem order_irrelevant (hp : sem.Pure) (h1 h2 : List Call) (c : Call) (hq : c.isQuery = true)
    (a1 : ∀ n, c.list? = some n → noAddTo n h1 = true) (a2 : ∀ n, c.list? = some n → noAddTo n h2 = true) :
    (step sem fs (run sem fs (LibState.init : LibState T D) h1) c).2 =
    (step sem fs (run sem fs (LibState.init : LibState T D) h2) c).2 := by
  rw [history_irrelevant sem fs hp h1 c hq a1, history_irrelevant sem fs hp h2 c hq a2]

/-- with the counters zeroed at its entry (the code since the F7 repair), `lou_compileString` on a list
    that is not cached answers as in a fresh process — whatever errors earlier calls left behind -/
theorem compileString_uncached_fresh (hp : sem.Pure) (s : LibState T D) (n : Name) (rule : List Nat)
    (h1 : findT s.tr n = none) (h2 : findD s.disp n = none) :
    (compileString true sem fs s n rule).2 = (compileString true sem fs (LibState.init : LibState T D) n rule).2 := by
  unfold compileString getBoth
  by_cases hn : n = []
  · simp [hn]
  · have i1 : findT (LibState.init : LibState T D).tr n = none := rfl
    have i2 : findD (LibState.init : LibState T D).disp n = none := rfl
    rw [if_neg hn, if_neg hn, h1, h2, i1, i2]
    dsimp only
    rw [hp.compile fs s.amb a0, hp.compileDisp fs s.amb a0,
        hp.compile fs (LibState.init : LibState T D).amb a0, hp.compileDisp fs (LibState.init : LibState T D).amb a0]
    cases sem.compile fs a0 n with
    | none => rfl
    | some t =>
      cases sem.compileDisp fs a0 n with
      | none => rfl
      | some d =>
        simp only [if_true, Bool.false_eq_true, if_false, Option.map_some]
        rw [hp.addRule fs s.amb a0, hp.addRule fs (LibState.init : LibState T D).amb a0]
        cases sem.addRule fs a0 t (some d) rule with
        | none => rfl
        | some p => rfl

end Machine

/-! ### lou_compileString: what does depend on the history -/

/-- a small concrete library: list `[1]` compiles, list `[2]` does not, rule `[9]` is an `include` -/
def toySem : Sem Unit Nat Nat where
  compile := fun _ _ n => if n = [1] then some 0 else none
  compileDisp := fun _ _ n => if n = [1] then some 0 else none
  finalize := fun _ t => some (t + 100)
  isInclude := fun r => r == [9]
  addRule := fun _ _ t d _ => some (t + 1, d)
  translate := fun _ t _ a => { ret := 1, inlen := a.inbuf.length, outlen := 0, outbuf := [t], typeform := none,
                                outputPos := none, inputPos := none, cursor := none }
  backTranslate := fun _ t _ a => { ret := 1, inlen := a.inbuf.length, outlen := 0, outbuf := [t], typeform := none,
                                    outputPos := none, inputPos := none, cursor := none }
  hyphenate := fun _ _ _ w _ => ⟨1, w⟩
  charToDots := fun _ _ i _ => ⟨1, i⟩
  dotsToChar := fun _ _ i _ => ⟨1, i⟩
  leftBehind := fun a _ => { a with stale := 7 :: a.stale }

theorem toySem_pure : toySem.Pure := by
  constructor <;> intros <;> rfl

def toyArgs : Drv.Args :=
  { inbuf := [97], outlen := 5, mode := 0, typeform := none, spacing := none, wantOutputPos := false,
    wantInputPos := false, cursor := none }

/-- **compileString_needs_counter_reset** (F7, repaired in the tree under test): in the machine WITHOUT
    the reset of errorCount at the entry of compileString — the code as it was — adding `include …` to a
    cached, not yet used list fails when a call that named a bad list came in between, and succeeds
    without that call; with the reset (the code as it is) both succeed.  So for `lou_compileString`
    independence from unrelated calls needs the reset. -/
theorem compileString_needs_counter_reset :
    (stepWith false toySem () (runWith false toySem () LibState.init
        [.compileString [1] [5], .translate [2] toyArgs]) (.compileString [1] [9])).2 = .ok false ∧
    (stepWith false toySem () (runWith false toySem () LibState.init
        [.compileString [1] [5]]) (.compileString [1] [9])).2 = .ok true ∧
    (stepWith true toySem () (runWith true toySem () LibState.init
        [.compileString [1] [5], .translate [2] toyArgs]) (.compileString [1] [9])).2 = .ok true := by
  refine ⟨?_, ?_, ?_⟩ <;> decide

/-- **compileString_refused_after_use** (by design, C15): once a list has been used its table is
    finalized and `lou_compileString` is refused — the outcome of lou_compileString depends on whether
    the list was used before, which is why the property (and `history_irrelevant`) is about
    translation, back-translation, hyphenation and conversion calls -/
theorem compileString_refused_after_use :
    (step toySem () (run toySem () LibState.init [.translate [1] toyArgs]) (.compileString [1] [5])).2 = .ok false ∧
    (step toySem () LibState.init (.compileString [1] [5])).2 = .ok true := by
  refine ⟨?_, ?_⟩ <;> decide

/-- non-vacuity of `history_irrelevant`: a pure engine, a history with another list, a bad list, a
    conversion, `lou_free`, a rule added to another list … and the answers agree -/
example :
    (step toySem () (run toySem () LibState.init
        [.translate [2] toyArgs, .charToDots [1] [1, 2] 0, .translate [1] toyArgs, .free, .setLogLevel 0,
         .hyphenate [1] [3] 0]) (.translate [1] toyArgs)).2 =
    (step toySem () LibState.init (.translate [1] toyArgs)).2 :=
  history_irrelevant toySem () toySem_pure _ _ rfl (by intro n hn; cases hn; rfl)

/-- … while an engine that peeks at what the previous call left in a scratch buffer (not `Pure`) does
    give history-dependent answers: the hypothesis is needed -/
example :
    let peek : Sem Unit Nat Nat := { toySem with
      translate := fun amb t _ a => { ret := 1, inlen := a.inbuf.length, outlen := 0, outbuf := [t + amb.stale.length],
                                      typeform := none, outputPos := none, inputPos := none, cursor := none } }
    (step peek () (run peek () LibState.init [.translate [1] toyArgs]) (.translate [1] toyArgs)).2 ≠
    (step peek () LibState.init (.translate [1] toyArgs)).2 := by decide


end Lou.C08
