/-
  C12 — `compile_defsFound`: in every logical table the compile model produces (after any prefix of the
  entries, hence after any number of run-time additions, and after finalisation) every character and every
  cell of a character definition has its record in the character / cell table — the clause `cDefFound`
  that the executable checker `checkTable` evaluates on every real image (`checkTable_defsFound`).

  Induction over the compile steps with the invariant `DF`; the two facts it rests on are that no step of
  the compiler removes a record or changes its value (`Sub`), and that `compileCharDef` files the
  character and all cells before it adds the rule (`prepCharDef_has`).  Hypothesis forced by the model: no
  entry has opcode `grouping` (the compile model has no `compileGrouping`; such an entry would be filed like an
  ordinary rule, which is not what the C code does — it files both characters and both cells first).
-/
import LouModel.Image
import LouProofs.C12

namespace Lou.C12
open Lou Lou.Gen Lou.Compile Lou.Image

/-- the character values / cell values that have a record -/
def cv (t : Table) : List Nat := t.chars.map (·.value)
def dv (t : Table) : List Nat := t.dots.map (·.value)

/-- the invariant: the characters and cells of every definition rule have records -/
def DF (t : Table) : Prop :=
  ∀ r ∈ t.rules, isDefOpcode r.opcode = true → (∀ c ∈ r.chars, c ∈ cv t) ∧ (∀ d ∈ r.dots, d ∈ dv t)

/-- nothing is lost: same rules, every recorded value still recorded -/
structure Sub (t t' : Table) : Prop where
  rules : t'.rules = t.rules
  cvs : ∀ c ∈ cv t, c ∈ cv t'
  dvs : ∀ d ∈ dv t, d ∈ dv t'

theorem Sub.refl (t : Table) : Sub t t := ⟨rfl, fun _ h => h, fun _ h => h⟩

theorem Sub.trans {a b c : Table} (h1 : Sub a b) (h2 : Sub b c) : Sub a c :=
  ⟨h2.rules.trans h1.rules, fun x hx => h2.cvs x (h1.cvs x hx), fun x hx => h2.dvs x (h1.dvs x hx)⟩

theorem map_if_value_c (l : List CharRec) (c : Nat) (f : CharRec → CharRec) (hf : ∀ r, (f r).value = r.value) :
    (l.map fun r => if r.value == c then f r else r).map (·.value) = l.map (·.value) := by
  induction l with
  | nil => rfl
  | cons a l ih =>
    simp only [List.map_cons, ih, List.cons.injEq, and_true]
    split
    · exact hf a
    · rfl

theorem map_if_value_d (l : List DotsRec) (c : Nat) (f : DotsRec → DotsRec) (hf : ∀ r, (f r).value = r.value) :
    (l.map fun r => if r.value == c then f r else r).map (·.value) = l.map (·.value) := by
  induction l with
  | nil => rfl
  | cons a l ih =>
    simp only [List.map_cons, ih, List.cons.injEq, and_true]
    split
    · exact hf a
    · rfl

theorem updChar_sub (t : Table) (c : Nat) (f : CharRec → CharRec) (hf : ∀ r, (f r).value = r.value) :
    Sub t (updChar t c f) := by
  refine ⟨rfl, ?_, fun _ h => h⟩
  intro x hx
  unfold cv updChar
  simp only
  rw [map_if_value_c _ _ _ hf]
  exact hx

theorem updDots_sub (t : Table) (d : Nat) (f : DotsRec → DotsRec) (hf : ∀ r, (f r).value = r.value) :
    Sub t (updDots t d f) := by
  refine ⟨rfl, fun _ h => h, ?_⟩
  intro x hx
  unfold dv updDots
  simp only
  rw [map_if_value_d _ _ _ hf]
  exact hx

theorem putChar_sub (t : Table) (c : Nat) : Sub t (putChar t c) := by
  unfold putChar
  split
  · exact Sub.refl t
  · refine ⟨rfl, ?_, fun _ h => h⟩
    intro x hx
    unfold cv at *
    simp only [List.map_append, List.mem_append]
    exact Or.inl hx

theorem putDots_sub (t : Table) (d : Nat) : Sub t (putDots t d) := by
  unfold putDots
  split
  · exact Sub.refl t
  · refine ⟨rfl, fun _ h => h, ?_⟩
    intro x hx
    unfold dv at *
    simp only [List.map_append, List.mem_append]
    exact Or.inl hx

theorem putChar_has (t : Table) (c : Nat) : c ∈ cv (putChar t c) := by
  unfold putChar
  split
  · rename_i h
    obtain ⟨cr, hcr⟩ := Option.isSome_iff_exists.mp h
    unfold Table.char? at hcr
    have hm := List.mem_of_find?_eq_some hcr
    have hv : cr.value = c := by simpa using List.find?_some hcr
    unfold cv
    exact List.mem_map.mpr ⟨cr, hm, hv⟩
  · unfold cv
    simp

theorem putDots_has (t : Table) (d : Nat) : d ∈ dv (putDots t d) := by
  unfold putDots
  split
  · rename_i h
    obtain ⟨dr, hdr⟩ := Option.isSome_iff_exists.mp h
    unfold Table.dots? at hdr
    have hm := List.mem_of_find?_eq_some hdr
    have hv : dr.value = d := by simpa using List.find?_some hdr
    unfold dv
    exact List.mem_map.mpr ⟨dr, hm, hv⟩
  · unfold dv
    simp

theorem foldl_putDots_sub (ds : List Nat) : ∀ t : Table, Sub t (ds.foldl putDots t) := by
  induction ds with
  | nil => intro t; exact Sub.refl t
  | cons d ds ih => intro t; exact (putDots_sub t d).trans (ih _)

theorem foldl_putDots_has (ds : List Nat) : ∀ t : Table, ∀ d ∈ ds, d ∈ dv (ds.foldl putDots t) := by
  induction ds with
  | nil => intro t d hd; cases hd
  | cons a ds ih =>
    intro t d hd
    simp only [List.foldl_cons]
    rcases List.mem_cons.mp hd with h | h
    · subst h
      exact (foldl_putDots_sub ds _).dvs _ (putDots_has t d)
    · exact ih _ d h

theorem addFwdSingle_sub (t : Table) (r : Rule) : Sub t (addFwdSingle t r) := by
  unfold addFwdSingle
  simp only
  have h1 := putChar_sub t (r.chars.headD 0)
  have h2 : Sub (putChar t (r.chars.headD 0)) (if isDefOpcode r.opcode then
      updChar (putChar t (r.chars.headD 0)) (r.chars.headD 0) fun cr => if cr.defRule.isSome then cr else { cr with defRule := some r.idx }
    else putChar t (r.chars.headD 0)) := by
    split
    · exact updChar_sub _ _ _ (fun cr => by split <;> rfl)
    · exact Sub.refl _
  exact (h1.trans h2).trans (updChar_sub _ _ _ (fun _ => rfl))

theorem addBackSingle_sub (t : Table) (r : Rule) (cell : Nat) : Sub t (addBackSingle t r cell) := by
  unfold addBackSingle
  split
  · exact Sub.refl t
  · simp only
    have h1 := putDots_sub t cell
    have h2 : Sub (putDots t cell) (if isDefOpcode r.opcode then
        updDots (putDots t cell) cell fun dr => { dr with defRule := some r.idx } else putDots t cell) := by
      split
      · exact updDots_sub _ _ _ (fun _ => rfl)
      · exact Sub.refl _
    exact (h1.trans h2).trans (updDots_sub _ _ _ (fun _ => rfl))

theorem addFwdMulti_sub (t : Table) (r : Rule) : Sub t (addFwdMulti t r) := ⟨rfl, fun _ h => h, fun _ h => h⟩

theorem addBackMulti_sub (t : Table) (r : Rule) : Sub t (addBackMulti t r) := by
  unfold addBackMulti
  split
  · exact Sub.refl t
  · exact ⟨rfl, fun _ h => h, fun _ h => h⟩

theorem linkFwd_sub (t : Table) (e : Entry) (r : Rule) : Sub t (linkFwd t e r) := by
  unfold linkFwd
  split
  · exact Sub.refl t
  · split
    · exact addFwdSingle_sub t r
    · split
      · exact addFwdMulti_sub t r
      · exact Sub.refl t

theorem linkBack_sub (t : Table) (e : Entry) (r : Rule) : Sub t (linkBack t e r) := by
  unfold linkBack
  split
  · exact Sub.refl t
  · split
    · exact addBackSingle_sub t r _
    · split
      · exact addBackMulti_sub t r
      · exact Sub.refl t

/-- `addRule` keeps the invariant when the new rule's characters and cells are recorded, or it is no definition -/
theorem addRule_DF (t : Table) (e : Entry) (h : DF t)
    (hnew : isDefOpcode e.opcode = true → (∀ c ∈ e.chars, c ∈ cv t) ∧ (∀ d ∈ e.dots, d ∈ dv t)) :
    DF (addRule t e).1 := by
  unfold addRule
  simp only
  have hs : Sub (registerRule t (newRule t e)) (linkBack (linkFwd (registerRule t (newRule t e)) e (newRule t e)) e (newRule t e)) :=
    (linkFwd_sub _ e _).trans (linkBack_sub _ e _)
  intro r hr hd
  rw [hs.rules] at hr
  have hreg : cv (registerRule t (newRule t e)) = cv t ∧ dv (registerRule t (newRule t e)) = dv t := ⟨rfl, rfl⟩
  have key : (∀ c ∈ r.chars, c ∈ cv t) ∧ (∀ d ∈ r.dots, d ∈ dv t) := by
    unfold registerRule at hr
    simp only [List.mem_append, List.mem_singleton] at hr
    rcases hr with hr | hr
    · exact h r hr hd
    · subst hr
      exact hnew hd
  exact ⟨fun c hc => hs.cvs c (by rw [hreg.1]; exact key.1 c hc), fun d hd' => hs.dvs d (by rw [hreg.2]; exact key.2 d hd')⟩

/-- a `Sub` step keeps the invariant -/
theorem DF_sub (t t' : Table) (h : DF t) (hs : Sub t t') : DF t' := by
  intro r hr hd
  rw [hs.rules] at hr
  exact ⟨fun c hc => hs.cvs c ((h r hr hd).1 c hc), fun d hd' => hs.dvs d ((h r hr hd).2 d hd')⟩

theorem prepCharDef_sub (t : Table) (c : Nat) (dots : List Nat) (a : Nat) : Sub t (prepCharDef t c dots a) := by
  unfold prepCharDef
  simp only
  have h1 : Sub t (dots.reverse.foldl putDots (updChar (putChar t c) c fun cr => { cr with attrs := cr.attrs ||| a })) :=
    ((putChar_sub t c).trans (updChar_sub (putChar t c) c (fun cr => { cr with attrs := cr.attrs ||| a }) (fun _ => rfl))).trans
      (foldl_putDots_sub _ _)
  split
  · exact h1.trans (updDots_sub _ _ _ (fun _ => rfl))
  · exact h1

/-- `compileCharDef` files the character and every cell before it adds the rule -/
theorem prepCharDef_has (t : Table) (c : Nat) (dots : List Nat) (a : Nat) :
    c ∈ cv (prepCharDef t c dots a) ∧ ∀ d ∈ dots, d ∈ dv (prepCharDef t c dots a) := by
  have hc1 : c ∈ cv (updChar (putChar t c) c fun cr => { cr with attrs := cr.attrs ||| a }) :=
    (updChar_sub (putChar t c) c (fun cr => { cr with attrs := cr.attrs ||| a }) (fun _ => rfl)).cvs c (putChar_has t c)
  have hfold := foldl_putDots_sub dots.reverse (updChar (putChar t c) c fun cr => { cr with attrs := cr.attrs ||| a })
  have hd1 : ∀ d ∈ dots, d ∈ dv (dots.reverse.foldl putDots (updChar (putChar t c) c fun cr => { cr with attrs := cr.attrs ||| a })) :=
    fun d hd => foldl_putDots_has dots.reverse _ d (List.mem_reverse.mpr hd)
  unfold prepCharDef
  simp only
  split
  · have hu := updDots_sub (dots.reverse.foldl putDots (updChar (putChar t c) c fun cr => { cr with attrs := cr.attrs ||| a }))
      (dots.headD 0) (fun dr => { dr with attrs := dr.attrs ||| a }) (fun _ => rfl)
    exact ⟨hu.cvs c (hfold.cvs c hc1), fun d hd => hu.dvs d (hd1 d hd)⟩
  · exact ⟨hfold.cvs c hc1, hd1⟩

theorem defAttr_none (op : Nat) (h : defAttr op = none) (hg : op ≠ CTO_Grouping) : isDefOpcode op = false := by
  cases hd : isDefOpcode op with
  | false => rfl
  | true =>
    exfalso
    simp [isDefOpcode, CTO_Space, CTO_UpLow] at hd
    have h1 := of_decide_eq_true hd.1
    have h2 := of_decide_eq_true hd.2
    simp only [CTO_Grouping] at hg
    have : op = 61 ∨ op = 62 ∨ op = 63 ∨ op = 64 ∨ op = 65 ∨ op = 66 ∨ op = 67 ∨ op = 68 := by omega
    rcases this with h' | h' | h' | h' | h' | h' | h' | h' <;> subst h' <;> revert h <;> decide

theorem compileEntry_DF (t t' : Table) (e : Entry) (h : DF t) (hg : e.opcode ≠ CTO_Grouping)
    (hc : compileEntry t e = some t') : DF t' := by
  unfold compileEntry at hc
  split at hc
  · -- a character definition
    unfold compileCharDef at hc
    split at hc
    · rename_i c hch
      split at hc
      · cases hc
      · simp only [Option.some.injEq] at hc
        subst hc
        refine addRule_DF _ e (DF_sub t _ h (prepCharDef_sub t c e.dots _)) ?_
        intro _
        rw [hch]
        exact ⟨fun x hx => by rw [List.mem_singleton.mp hx]; exact (prepCharDef_has t c e.dots _).1,
          (prepCharDef_has t c e.dots _).2⟩
    · cases hc
  · rename_i hda
    have hnd : isDefOpcode e.opcode = false := defAttr_none _ hda hg
    split at hc
    · split at hc
      · cases hc
      · simp only [Option.some.injEq] at hc
        subst hc
        have := addRule_DF t { e with chars := [] } h (by intro hx; simp [hnd] at hx)
        exact DF_sub _ _ this ⟨rfl, fun _ h => h, fun _ h => h⟩
    · split at hc
      · split at hc
        · cases hc
        · simp only [Option.some.injEq] at hc
          subst hc
          have := addRule_DF t { e with chars := [] } h (by intro hx; simp [hnd] at hx)
          exact DF_sub _ _ this ⟨rfl, fun _ h => h, fun _ h => h⟩
      · split at hc
        · cases hc
        · split at hc
          · cases hc
          · simp only [Option.some.injEq] at hc
            subst hc
            exact addRule_DF t e h (by intro hx; simp [hnd] at hx)

theorem foldlM_DF (es : List Entry) : ∀ (t t' : Table), DF t → (∀ e ∈ es, e.opcode ≠ CTO_Grouping) →
    es.foldlM compileEntry t = some t' → DF t' := by
  induction es with
  | nil => intro t t' h _ hc; simp at hc; subst hc; exact h
  | cons e es ih =>
    intro t t' h hop hc
    simp only [List.foldlM_cons, Option.bind_eq_bind] at hc
    cases hce : compileEntry t e with
    | none => simp [hce] at hc
    | some t1 =>
      simp only [hce, Option.bind_some] at hc
      exact ih t1 t' (compileEntry_DF t t1 e h (hop e (List.mem_cons_self ..)) hce)
        (fun x hx => hop x (List.mem_cons_of_mem _ hx)) hc

theorem init_DF : DF initTable := by
  intro r hr
  simp [initTable] at hr

theorem start_DF : DF ((compileEntry initTable endSegmentEntry).getD initTable) := by
  cases hce : compileEntry initTable endSegmentEntry with
  | none => simpa using init_DF
  | some t1 => simpa using compileEntry_DF initTable t1 endSegmentEntry init_DF (by decide) hce

theorem DF_defsFound (t : Table) (h : DF t) : DefsFound t := by
  intro r hr hd
  obtain ⟨h1, h2⟩ := h r hr hd
  refine ⟨fun c hc => ?_, fun d hd' => ?_⟩
  · obtain ⟨cr, hm, hv⟩ := List.mem_map.mp (h1 c hc)
    exact ⟨cr, hm, hv⟩
  · obtain ⟨dr, hm, hv⟩ := List.mem_map.mp (h2 d hd')
    exact ⟨dr, hm, hv⟩

/-- **compile_defsFound_unfinalised**: after any prefix of the entries (= after any number of run-time additions) -/
theorem compile_defsFound_unfinalised (es : List Entry) (t : Table) (hop : ∀ e ∈ es, e.opcode ≠ CTO_Grouping)
    (hc : compileUnfinalised es = some t) : DefsFound t := by
  unfold compileUnfinalised at hc
  exact DF_defsFound t (foldlM_DF es _ t start_DF hop hc)

/-- **compile_defsFound**: and after finalisation -/
theorem compile_defsFound (es : List Entry) (t : Table) (hop : ∀ e ∈ es, e.opcode ≠ CTO_Grouping)
    (hc : compile es = some t) : DefsFound t := by
  unfold compile at hc
  obtain ⟨t0, ht0, rfl⟩ := Option.map_eq_some_iff.mp hc
  have := compile_defsFound_unfinalised es t0 hop ht0
  exact this

/-- non-vacuity: a definition with two cells, a definition added after a translation rule -/
example : ∃ t, compile [{ opcode := CTO_LowerCase, chars := [97], dots := [0x8001, 0x8003] },
      { opcode := CTO_Always, chars := [97, 97], dots := [0x8005] },
      { opcode := CTO_Sign, chars := [98], dots := [0x8103] }] = some t ∧
    t.dots.map (·.value) = [0xffff, 0x8003, 0x8001, 0x8005, 0x8103] ∧ checkTable t [] = [] := by
  refine ⟨_, rfl, ?_, ?_⟩ <;> decide

end Lou.C12
