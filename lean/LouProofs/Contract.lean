/-
  Contract.lean — the engine contract `EngineOK` (DESIGN §5.8) and the driver
  invariants that follow from it.  Layer A theorems may assume nothing else
  about the per-pass engines.  Every clause is (i) a hypothesis of the theorems
  that need it, (ii) evaluated by the model driver on every recorded pass of
  every real run (`Lou.Proto.passOKFwd/passOKBack`), (iii) to be proved for the
  modelled engines of Layer B.
-/
import LouModel.Driver

namespace Lou.Contract
open Lou Lou.Drv

/-- forward contract of one pass: E1–E4 -/
structure PassOKFwd (pin : PassIn) (po : PassOut) : Prop where
  e1 : po.out.length ≤ pin.maxlen
  e2 : po.map.length = po.out.length
  e3 : po.realInlen ≤ pin.chars.length
  e4 : ∀ p ∈ po.map, -1 ≤ p ∧ p ≤ (pin.chars.length : Int)

def EngineOKFwd (e : Engine) : Prop := ∀ ini hist pin, PassOKFwd pin (e ini hist pin)

/-- E5: no map entry is negative -/
def EngineNonNeg (e : Engine) : Prop := ∀ ini hist pin, ∀ p ∈ (e ini hist pin).map, 0 ≤ p

/-- E8: every cell a pass emits carries the LOU_DOTS flag -/
def EngineFlagged (e : Engine) : Prop :=
  ∀ ini hist pin, ∀ c ∈ (e ini hist pin).out, c &&& LOU_DOTS = LOU_DOTS

/-- the Bool version evaluated on real traces agrees with the Prop -/
theorem passOKFwd_iff (pin : PassIn) (po : PassOut) :
    (po.out.length ≤ pin.maxlen ∧ po.map.length = po.out.length ∧ po.realInlen ≤ pin.chars.length ∧
      ∀ p ∈ po.map, -1 ≤ p ∧ p ≤ (pin.chars.length : Int)) ↔ PassOKFwd pin po :=
  ⟨fun ⟨a, b, c, d⟩ => ⟨a, b, c, d⟩, fun h => ⟨h.e1, h.e2, h.e3, h.e4⟩⟩

/-! ### forward driver invariant -/

/-- after at least one pass: the composed map has one entry more than the output,
    all entries lie in [lo, N] (N = length of the cut input), the output fits -/
structure FwdInv (N cap : Nat) (lo : Int) (s : FwdState) : Prop where
  notFirst : s.first = false
  fits : s.output.length ≤ cap
  len : s.posMapping.length = s.output.length + 1
  rng : ∀ p ∈ s.posMapping, lo ≤ p ∧ p ≤ (N : Int)

theorem getD_mem_or {l : List Int} {i : Nat} {d : Int} (h : i < l.length) : l.getD i d ∈ l := by
  rw [List.getD_eq_getElem?_getD, List.getElem?_eq_getElem h]; exact List.getElem_mem h

theorem fwdStep_first (e : Engine) (ini : EngInit) (cap : Nat) (s : FwdState) (p : Nat)
    (he : EngineOKFwd e) (hf : s.first = true) :
    FwdInv s.input.length cap (-1) (fwdStep e ini cap s p) ∧ (fwdStep e ini cap s p).input = s.input := by
  have hk := he ini s.hist { passNo := p, chars := s.input, maxlen := cap, cpos := s.cpos, cstat := s.cstat }
  have h3 := hk.e3
  have h4 := hk.e4
  dsimp only at h3 h4
  unfold fwdStep
  simp only [hf, if_true]
  refine ⟨⟨rfl, hk.e1, ?_, ?_⟩, ?_⟩
  · simp [hk.e2]
  · intro q hq
    rcases List.mem_append.mp hq with h | h
    · exact h4 q h
    · simp at h; subst h; constructor <;> omega
  · first | rfl | trivial

theorem fwdStep_later (e : Engine) (ini : EngInit) (N cap : Nat) (lo : Int) (s : FwdState) (p : Nat)
    (he : EngineOKFwd e) (hi : FwdInv N cap lo s) (_hlo : lo ≤ 0 → True) :
    FwdInv N cap lo (fwdStep e ini cap s p) := by
  have hk := he ini s.hist { passNo := p, chars := s.output, maxlen := cap, cpos := s.cpos, cstat := s.cstat }
  have h3 := hk.e3
  have h4 := hk.e4
  dsimp only at h3 h4
  unfold fwdStep
  simp only [hi.notFirst, Bool.false_eq_true, if_false]
  refine ⟨rfl, hk.e1, ?_, ?_⟩
  · simp [composeFwd, hk.e2]
  · intro q hq
    unfold composeFwd at hq
    obtain ⟨x, hx, rfl⟩ := List.mem_map.mp hq
    have hxr : -1 ≤ x ∧ x ≤ (s.output.length : Int) := by
      rcases List.mem_append.mp hx with h | h
      · exact h4 x h
      · simp at h; subst h; constructor <;> omega
    split
    · exact hi.rng _ (getD_mem_or (by rw [hi.len]; omega))
    · exact hi.rng _ (getD_mem_or (by rw [hi.len]; omega))

theorem foldl_fwdInv (e : Engine) (ini : EngInit) (N cap : Nat) (he : EngineOKFwd e) :
    ∀ (ps : List Nat) (s : FwdState), FwdInv N cap (-1) s →
      FwdInv N cap (-1) (ps.foldl (fwdStep e ini cap) s) := by
  intro ps
  induction ps with
  | nil => intro s h; exact h
  | cons p ps ih => intro s h; exact ih _ (fwdStep_later e ini N cap (-1) s p he h (fun _ => trivial))

/-- the invariant holds after the whole pass loop -/
theorem fwdRun_inv (t : TableInfo) (e : Engine) (a : Args) (he : EngineOKFwd e) :
    FwdInv (cutAtNul a.inbuf).length a.outlen (-1) (fwdRun t e a) := by
  unfold fwdRun fwdPassList
  simp only [List.foldl_cons]
  apply foldl_fwdInv e _ _ _ he
  exact (fwdStep_first e (initFwd a (cutAtNul a.inbuf)) a.outlen
    { input := cutAtNul a.inbuf, posMapping := [], output := [], cpos := (fwdCursorInit a).1,
      cstat := (fwdCursorInit a).2, hist := [], first := true } _ he rfl).1

theorem cutAtNul_length_le (l : List Nat) : (cutAtNul l).length ≤ l.length := by
  unfold cutAtNul; exact (List.takeWhile_sublist _).length_le

end Lou.Contract
