/-
  C06Pass.lean — theorems about the Layer B model of the multipass stages (LouModel/Pass.lean),
  forward direction, literal fragment:

  * `fwdTest_bounds`   a successful test yields ordered boundaries inside the input
                        (startMatch ≤ startReplace ≤ endReplace ≤ n, startMatch ≤ endMatch ≤ n) — the
                        step contract S2 of C03 for this fragment: an applied rule never moves the
                        position backwards;
  * `select_sound`, `select_first`, `select_best`
                        the rule applied at a position is the first rule of the chain whose test
                        matches; in a chain ordered by decreasing key length then definition it is a
                        longest-key matching rule and, among those, the one defined first;
  * `fwdAction_ok`     an action keeps the accumulator well-formed (map as long as the output, output
                        within the capacity, map entries inside [0, n]) and continues at endReplace or
                        endMatch;
  * `fwdAction_replaces_brackets`
                        without a copy instruction the action appends exactly: the matched characters
                        before the bracket (verbatim), then the literals of the action; the position
                        continues at endReplace — nothing outside the brackets is replaced or consumed;
  * `fwdStage_contract` the stage scanner satisfies the engine contract of Layer A (E1–E4) for every
                        table and input, and `fwdStage_total`: its iteration bound 2n+2 is never hit
                        (the C03 bound, here for a real engine instead of an abstract one).
-/
import LouModel.Pass
import LouProofs.Lemmas.Chain

namespace Lou.C06Pass

open Lou Lou.Pass Lou.Gen

/-- a replace-bracket slot: unset or a position inside the input -/
def SlotOK (n : Nat) (x : Int) : Prop := x = -1 ∨ (0 ≤ x ∧ x ≤ n)

/-- boundaries of a match at position `sm` of an input of length `n` -/
def MatchOK (n : Nat) (sm : Int) (m : Match) : Prop :=
  m.startMatch = sm ∧ sm ≤ m.startReplace ∧ m.startReplace ≤ m.endReplace ∧ m.endReplace ≤ n ∧
  sm ≤ m.endMatch ∧ m.endMatch ≤ n

theorem fwdTest_bounds_aux (c : Ctx) (p input : List Nat) (sm : Int)
    (fuel : Nat) (pos : Int) (ic : Nat) (sr er : Int) (neg : Bool)
    (hsr : SlotOK input.length sr) (her : SlotOK input.length er)
    (m : Match) (ic' : Nat) (h : fwdTest c p input sm fuel pos ic sr er neg = .ok m ic') :
    MatchOK input.length sm m := by
  unfold MatchOK
  fun_induction fwdTest c p input sm fuel pos ic sr er neg <;> simp_all [SlotOK]
  all_goals (first | omega | skip)
  obtain ⟨rfl, -⟩ := h
  rename_i hc
  simp +zetaDelta only at hc ⊢
  split at hc <;> simp_all <;> omega

/-- **fwdTest_bounds**: the boundaries of a successful test are ordered and inside the input -/
theorem fwdTest_bounds (c : Ctx) (p input : List Nat) (pos : Int) (fuel : Nat) (m : Match) (ic : Nat)
    (h : fwdTest c p input pos fuel pos 0 (-1) (-1) false = .ok m ic) : MatchOK input.length pos m :=
  fwdTest_bounds_aux c p input pos fuel pos 0 (-1) (-1) false (Or.inl rfl) (Or.inl rfl) m ic h

/-! ### selection -/

def testOf (c : Ctx) (back : Bool) (r : Rule) (input : List Nat) (pos : Int) : TestRes :=
  (if back then backTest else fwdTest) c r.dots input pos (r.dots.length + 1) pos 0 (-1) (-1) false

def eligible (back : Bool) (pass : Nat) (r : Rule) : Bool := !(back && r.opcode != opcodeOfPass pass)

/-- **select_sound / select_first**: the selected rule is in the chain, its test succeeds with the reported
    match, and every eligible rule before it in the chain fails its test -/
theorem select_first (c : Ctx) (back : Bool) (pass : Nat) (rules : List Rule) (input : List Nat) (pos : Int)
    (r : Rule) (m : Match) (ic : Nat) (h : select c back pass rules input pos = .rule r m ic) :
    ∃ pre post, rules = pre ++ r :: post ∧ eligible back pass r = true ∧ testOf c back r input pos = .ok m ic ∧
      ∀ q ∈ pre, eligible back pass q = true → testOf c back q input pos = .fail := by
  induction rules with
  | nil => simp [select] at h
  | cons q rest ih =>
    unfold select at h
    by_cases he : (back && q.opcode != opcodeOfPass pass) = true
    · simp only [he, if_true] at h
      obtain ⟨pre, post, hr, hel, ht, hpre⟩ := ih h
      refine ⟨q :: pre, post, by simp [hr], hel, ht, ?_⟩
      intro x hx hxe
      rcases List.mem_cons.mp hx with rfl | hx
      · simp [eligible, he] at hxe
      · exact hpre x hx hxe
    · simp only [he] at h
      have hq : eligible back pass q = true := by
        cases back <;> simp_all [eligible]
      cases ht : testOf c back q input pos with
      | unsupported => simp [testOf] at ht; simp [ht] at h
      | ok m' ic' =>
        simp [testOf] at ht; simp [ht] at h
        obtain ⟨rfl, rfl, rfl⟩ := h
        exact ⟨[], rest, by simp, hq, by simp [testOf, ht], by simp⟩
      | fail =>
        simp [testOf] at ht; simp [ht] at h
        obtain ⟨pre, post, hr, hel, ht', hpre⟩ := ih h
        refine ⟨q :: pre, post, by simp [hr], hel, ht', ?_⟩
        intro x hx hxe
        rcases List.mem_cons.mp hx with rfl | hx
        · simp [testOf, ht]
        · exact hpre x hx hxe

/-- `a` is tried before `b`: longer key first, then the rule defined first -/
def Before (a b : Rule) : Prop :=
  b.chars.length < a.chars.length ∨ (b.chars.length = a.chars.length ∧ a.idx < b.idx)

theorem before_trans {a b c : Rule} (h1 : Before a b) (h2 : Before b c) : Before a c := by
  unfold Before at *; omega

theorem chainSorted_pairwise : ∀ (l : List Rule), chainSorted l = true → l.Pairwise Before
  | [], _ => List.Pairwise.nil
  | [a], _ => by simp
  | a :: b :: rest, h => by
    simp only [chainSorted, Bool.and_eq_true, Bool.or_eq_true, decide_eq_true_eq, beq_iff_eq] at h
    have ih := chainSorted_pairwise (b :: rest) h.2
    have hab : Before a b := by unfold Before; omega
    refine List.Pairwise.cons ?_ ih
    intro x hx
    rcases List.mem_cons.mp hx with rfl | hx
    · exact hab
    · exact before_trans hab ((List.pairwise_cons.mp ih).1 x hx)

/-- **select_best**: in a chain that is in order (what `passTableOK` checks on the compiled table) the rule
    applied at a position has, among all eligible rules whose test matches there, a key of maximal length,
    and among those of that length it is the one defined first -/
theorem select_best (c : Ctx) (back : Bool) (pass : Nat) (rules : List Rule) (input : List Nat) (pos : Int)
    (hs : chainSorted rules = true)
    (r : Rule) (m : Match) (ic : Nat) (h : select c back pass rules input pos = .rule r m ic)
    (q : Rule) (hq : q ∈ rules) (hqe : eligible back pass q = true) (m' : Match) (ic' : Nat)
    (hqt : testOf c back q input pos = .ok m' ic') :
    q = r ∨ Before r q := by
  obtain ⟨pre, post, hr, -, -, hpre⟩ := select_first c back pass rules input pos r m ic h
  subst hr
  rcases List.mem_append.mp hq with hq | hq
  · have := hpre q hq hqe
    rw [hqt] at this; cases this
  · rcases List.mem_cons.mp hq with rfl | hq
    · exact Or.inl rfl
    · right
      have hp := chainSorted_pairwise _ hs
      have := (List.pairwise_append.mp hp).2.1
      exact (List.pairwise_cons.mp this).1 q hq

/-! ### actions -/

/-- well-formed stage output: one map entry per cell, within the capacity, entries inside [0, n] -/
def AccOK (n max : Nat) (a : Acc) : Prop :=
  a.map.length = a.out.length ∧ a.out.length ≤ max ∧ ∀ x ∈ a.map, 0 ≤ x ∧ x ≤ (n : Int)

theorem slice_length (input : List Nat) (a b : Int) (ha : 0 ≤ a) (hb : b ≤ input.length) :
    (slice input a b).length = (b - a).toNat := by
  unfold slice
  split
  · simp only [List.length_nil]; omega
  · simp only [List.length_take, List.length_drop]; omega

theorem range_length (a b : Int) : (range a b).length = (b - a).toNat := by
  unfold range; split
  · simp only [List.length_nil]; omega
  · simp

theorem range_mem (a b x : Int) (h : x ∈ range a b) : a ≤ x ∧ x < b := by
  unfold range at h; split at h
  · simp at h
  · simp only [List.mem_map, List.mem_range] at h
    obtain ⟨k, hk, rfl⟩ := h; omega

theorem fwdCopy_ok (input : List Nat) (frm to : Int) (max : Nat) (a a' : Acc)
    (hf : 0 ≤ frm) (ht : to ≤ input.length) (ha : AccOK input.length max a)
    (h : fwdCopy input frm to max a = some a') :
    AccOK input.length max a' ∧ a.out.length ≤ a'.out.length := by
  unfold fwdCopy at h
  split at h
  · split at h
    · cases h
    · cases h
      obtain ⟨h1, h2, h3⟩ := ha
      refine ⟨⟨?_, ?_, ?_⟩, ?_⟩
      · simp [slice_length input frm to hf ht, range_length, h1]
      · simp [slice_length input frm to hf ht]; omega
      · intro x hx
        rcases List.mem_append.mp hx with hx | hx
        · exact h3 x hx
        · have := range_mem _ _ _ hx; omega
      · simp
  · cases h; exact ⟨ha, Nat.le_refl _⟩

/-- the `memmove` of the copy action: drops the characters copied in front of the bracket -/
theorem memmove_ok (n max : Nat) (a : Acc) (dsm dsr : Nat) (ha : AccOK n max a) (h1 : dsm ≤ dsr) (h2 : dsr ≤ a.out.length) :
    let count := dsr - dsm
    let src := (a.out.drop dsr).take count
    let a1 : Acc := { out := (a.out.take dsm ++ src ++ a.out.drop (dsm + src.length)).take (a.out.length - count),
                      map := a.map.take (a.out.length - count) }
    AccOK n max a1 ∧ dsm ≤ a1.out.length := by
  intro count src a1
  obtain ⟨a1', a2', a3'⟩ := ha
  have hsrc : src.length ≤ count := by simp [src]; omega
  have hlen : a1.out.length = a.out.length - count := by
    simp only [a1, List.length_take, List.length_append, List.length_drop]
    omega
  refine ⟨⟨?_, ?_, ?_⟩, ?_⟩
  · rw [hlen]; simp only [a1, List.length_take]; omega
  · rw [hlen]; omega
  · intro x hx; exact a3' x (List.mem_of_mem_take hx)
  · rw [hlen]; omega

theorem swapOne_ok (r : Rule) (x : Nat) (p : Int) (n max : Nat) (a a' : Acc) (hp : 0 ≤ p ∧ p ≤ n) (ha : AccOK n max a)
    (h : swapOne r x p max a = some a') : AccOK n max a' ∧ a.out.length ≤ a'.out.length := by
  unfold swapOne at h
  obtain ⟨a1, a2, a3⟩ := ha
  split at h
  · cases h; exact ⟨⟨a1, a2, a3⟩, Nat.le_refl _⟩
  · split at h
    · split at h
      · cases h
      · cases h
        refine ⟨⟨by simp [a1], by simp; omega, ?_⟩, by simp⟩
        intro y hy
        rcases List.mem_append.mp hy with hy | hy
        · exact a3 y hy
        · simp at hy; omega
    · simp only [] at h
      split at h
      · cases h
      · split at h
        · cases h
        · cases h
          refine ⟨⟨by simp [a1], ?_, ?_⟩, by simp⟩
          · simp only [List.length_append, List.length_take, List.length_drop]; omega
          · intro y hy
            rcases List.mem_append.mp hy with hy | hy
            · exact a3 y hy
            · have := List.eq_of_mem_replicate hy; omega

theorem swapReplace_ok (r : Rule) (input : List Nat) (max : Nat) :
    ∀ (k : Nat) (p : Int) (a : Acc), 0 ≤ p → p + k ≤ input.length → AccOK input.length max a →
      AccOK input.length max (swapReplace r input max k p a).1 ∧ a.out.length ≤ (swapReplace r input max k p a).1.out.length := by
  intro k
  induction k with
  | zero => intro p a _ _ ha; simp [swapReplace]; exact ha
  | succ k ih =>
    intro p a hp hk ha
    unfold swapReplace
    cases hs : swapOne r (elem input p) p max a with
    | none => simp only []; exact ⟨ha, Nat.le_refl _⟩
    | some a' =>
      obtain ⟨h1, h2⟩ := swapOne_ok r _ p input.length max a a' ⟨hp, by omega⟩ ha hs
      simp only []
      have := ih (p + 1) a' (by omega) (by omega) h1
      exact ⟨this.1, by omega⟩

/-- what an action may return -/
def ActResOK (n max : Nat) (m : Match) : ActRes → Prop
  | .unsupported => True
  | .fail a' _ => AccOK n max a'
  | .ok a' np' _ => AccOK n max a' ∧ (np' = m.endReplace ∨ np' = m.endMatch)

theorem fwdActLoop_ok (t : Table) (p input : List Nat) (m : Match) (max dsm : Nat) (sm : Int)
    (hm : MatchOK input.length sm m) (hsm : 0 ≤ sm) :
    ∀ (fuel ic : Nat) (a : Acc) (dsr : Nat) (np : Int) (vars : List Nat),
      AccOK input.length max a → dsm ≤ dsr → dsr ≤ a.out.length →
      (np = m.endReplace ∨ np = m.endMatch) →
      ActResOK input.length max m (fwdActLoop t p input m max dsm fuel ic a dsr np vars) := by
  intro fuel
  induction fuel with
  | zero => intro ic a dsr np vars _ _ _ _; simp [fwdActLoop, ActResOK]
  | succ f ih =>
    intro ic a dsr np vars ha h1 h2 hnp
    obtain ⟨hm0, hm1, hm2, hm3, hm4, hm5⟩ := hm
    unfold fwdActLoop
    by_cases hic : ic ≥ p.length
    · simp only [hic, if_true]; exact ⟨ha, hnp⟩
    · simp only [hic, if_false]
      by_cases hs : (ins p ic == pass_string || ins p ic == pass_dots) = true
      · simp only [hs, if_true]
        by_cases hcap : a.out.length + ins p (ic + 1) > max
        · simp only [hcap, if_true]; exact ha
        · simp only [hcap, if_false]
          have hl : (literal p ic).length ≤ ins p (ic + 1) := by
            unfold literal; simp only [List.length_take]; omega
          obtain ⟨a1, a2, a3⟩ := ha
          apply ih
          · refine ⟨by simp [a1], by simp; omega, ?_⟩
            intro x hx
            rcases List.mem_append.mp hx with hx | hx
            · exact a3 x hx
            · have := List.eq_of_mem_replicate hx; omega
          · exact h1
          · simp; omega
          · exact hnp
      · simp only [hs]
        by_cases ho : (ins p ic == pass_omit) = true
        · simp only [ho, if_true]; exact ih _ _ _ _ _ ha h1 h2 hnp
        · simp only [ho]
          by_cases hc : (ins p ic == pass_copy) = true
          · simp only [hc, if_true]
            by_cases hcount : dsr - dsm > 0
            · simp only [hcount, if_true]
              by_cases hcap : dsr + (dsr - dsm) > max
              · simp only [hcap, if_true]; exact ha
              · simp only [hcap, if_false]
                obtain ⟨hk1, hk2⟩ := memmove_ok input.length max a dsm dsr ha h1 h2
                cases hcp : fwdCopy input m.startReplace m.endReplace max _ with
                | none => simpa [ActResOK] using hk1
                | some a2 =>
                  obtain ⟨hk3, hk4⟩ := fwdCopy_ok input m.startReplace m.endReplace max _ a2 (by omega) hm3 hk1 hcp
                  simp only []
                  exact ih _ _ _ _ _ hk3 (Nat.le_refl _) (by omega) (Or.inr rfl)
            · simp only [hcount, if_false]
              cases hcp : fwdCopy input m.startReplace m.endReplace max a with
              | none => simpa [ActResOK] using ha
              | some a2 =>
                obtain ⟨hk3, hk4⟩ := fwdCopy_ok input m.startReplace m.endReplace max a a2 (by omega) hm3 ha hcp
                simp only []
                exact ih _ _ _ _ _ hk3 h1 (by omega) (Or.inr rfl)
          · simp only [hc, Bool.false_eq_true, ↓reduceIte]
            by_cases hsw : (ins p ic == pass_swap) = true
            · simp only [hsw, if_true]
              cases hr : refRule t p ic with
              | none => simp [ActResOK]
              | some r =>
                simp only []
                have hk := swapReplace_ok r input max (m.endReplace - m.startReplace).toNat m.startReplace a
                  (by omega) (by omega) ha
                split
                · exact ih _ _ _ _ _ hk.1 h1 (by omega) hnp
                · exact hk.1
            · simp only [hsw, Bool.false_eq_true, ↓reduceIte]
              cases hv : varAction p ic vars with
              | none => simp [ActResOK]
              | some vl => exact ih _ _ _ _ _ ha h1 h2 hnp

/-- **fwdAction_ok**: whatever an action returns is well-formed, and it continues at endReplace or endMatch -/
theorem fwdAction_ok (t : Table) (p input : List Nat) (m : Match) (ic max : Nat) (a : Acc) (vars : List Nat) (sm : Int)
    (hm : MatchOK input.length sm m) (hsm : 0 ≤ sm) (ha : AccOK input.length max a) :
    ActResOK input.length max m (fwdAction t p input m ic max a vars) := by
  unfold fwdAction
  have hm' := hm
  obtain ⟨hm0, hm1, hm2, hm3, hm4, hm5⟩ := hm
  cases hcp : fwdCopy input m.startMatch m.startReplace max a with
  | none => simpa [ActResOK] using ha
  | some a1 =>
    obtain ⟨hk1, hk2⟩ := fwdCopy_ok input m.startMatch m.startReplace max a a1 (by omega) (by omega) ha hcp
    simp only []
    exact fwdActLoop_ok t p input m max a.out.length sm hm' hsm _ _ _ _ _ _ hk1 hk2 (Nat.le_refl _) (Or.inl rfl)

/-- the action part from `ic` on consists of literals and omits only (no copy, nothing unsupported) -/
def plainAction (p : List Nat) : Nat → Nat → Bool
  | 0, _ => false
  | fuel + 1, ic =>
    if ic ≥ p.length then true
    else if ins p ic == pass_string || ins p ic == pass_dots then plainAction p fuel (ic + ins p (ic + 1) + 2)
    else if ins p ic == pass_omit then plainAction p fuel (ic + 1)
    else false

/-- the cells such an action writes: the concatenation of its literals — a function of the rule alone -/
def emitted (p : List Nat) : Nat → Nat → List Nat
  | 0, _ => []
  | fuel + 1, ic =>
    if ic ≥ p.length then []
    else if ins p ic == pass_string || ins p ic == pass_dots then literal p ic ++ emitted p fuel (ic + ins p (ic + 1) + 2)
    else if ins p ic == pass_omit then emitted p fuel (ic + 1)
    else []

theorem fwdActLoop_plain (t : Table) (p input : List Nat) (m : Match) (max dsm : Nat) :
    ∀ (fuel ic : Nat) (a : Acc) (dsr : Nat) (np : Int) (vars : List Nat) (a' : Acc) (np' : Int) (vars' : List Nat),
      plainAction p fuel ic = true →
      fwdActLoop t p input m max dsm fuel ic a dsr np vars = .ok a' np' vars' →
      a'.out = a.out ++ emitted p fuel ic ∧ np' = np := by
  intro fuel
  induction fuel with
  | zero => intro ic a dsr np vars a' np' vars' h; simp [plainAction] at h
  | succ f ih =>
    intro ic a dsr np vars a' np' vars' hp h
    unfold fwdActLoop at h
    unfold plainAction at hp
    unfold emitted
    by_cases hic : ic ≥ p.length
    · simp only [hic, if_true] at h ⊢
      cases h; simp
    · simp only [hic, if_false] at h hp ⊢
      by_cases hs : (ins p ic == pass_string || ins p ic == pass_dots) = true
      · simp only [hs, if_true] at h hp ⊢
        by_cases hcap : a.out.length + ins p (ic + 1) > max
        · simp [hcap] at h
        · simp only [hcap, if_false] at h
          obtain ⟨h1, h2⟩ := ih _ _ _ _ _ _ _ _ hp h
          exact ⟨by simp [h1], h2⟩
      · simp only [hs] at h hp ⊢
        by_cases ho : (ins p ic == pass_omit) = true
        · simp only [ho, if_true] at h hp ⊢
          exact ih _ _ _ _ _ _ _ _ hp h
        · simp [ho] at hp

/-- **fwdAction_replaces_brackets**: an action made of literals (or an omit) appends to the output exactly the
    matched characters in front of the bracket, verbatim, and then the literals of the rule, and the scanner
    continues at endReplace: nothing outside the brackets is replaced, and nothing behind them is consumed -/
theorem fwdAction_replaces_brackets (t : Table) (p input : List Nat) (m : Match) (ic max : Nat) (a a' : Acc) (np : Int)
    (vars vars' : List Nat) (hp : plainAction p (p.length + 1) ic = true)
    (h : fwdAction t p input m ic max a vars = .ok a' np vars') :
    a'.out = a.out ++ slice input m.startMatch m.startReplace ++ emitted p (p.length + 1) ic ∧ np = m.endReplace := by
  unfold fwdAction at h
  cases hcp : fwdCopy input m.startMatch m.startReplace max a with
  | none => simp [hcp] at h
  | some a1 =>
    simp only [hcp] at h
    obtain ⟨h1, h2⟩ := fwdActLoop_plain t p input m max _ _ _ _ _ _ _ _ _ _ hp h
    refine ⟨?_, h2⟩
    rw [h1]
    unfold fwdCopy at hcp
    split at hcp
    · split at hcp
      · cases hcp
      · cases hcp; rfl
    · cases hcp
      rename_i hlt
      have : slice input m.startMatch m.startReplace = [] := by unfold slice; simp; omega
      simp [this]

/-! ### the stage scanner -/

theorem skipSpaces_le (t : Table) (input : List Nat) : ∀ (fuel pos : Nat), pos ≤ input.length →
    skipSpaces t input fuel pos ≤ input.length ∧ pos ≤ skipSpaces t input fuel pos := by
  intro fuel
  induction fuel with
  | zero => intro pos h; simp [skipSpaces, h]
  | succ f ih =>
    intro pos h
    unfold skipSpaces
    split
    · rename_i hc
      have := ih (pos + 1) (by omega)
      omega
    · simp [h]

/-- the engine contract of Layer A for one stage: E1 output within the capacity, E2 one map entry per
    cell, E3 consumed length within the input, E4 map entries inside [0, n] -/
def StageOK (n max : Nat) (o : StageOut) : Prop :=
  o.out.length ≤ max ∧ o.map.length = o.out.length ∧ o.realInlen ≤ n ∧ ∀ x ∈ o.map, 0 ≤ x ∧ x ≤ (n : Int)

/-- progress measure of the scanner: two iterations per remaining position at most -/
def mu (n : Nat) (pos : Int) (posInc : Bool) : Nat := 2 * (n - pos.toNat) + (if posInc then 1 else 0)

theorem fwdLoop_ok (t : Table) (pass : Nat) (rules : List Rule) (input : List Nat) (max : Nat) :
    ∀ (fuel : Nat) (pos : Int) (posInc : Bool) (a : Acc) (applied vars : List Nat),
      0 ≤ pos → pos ≤ input.length → AccOK input.length max a → mu input.length pos posInc < fuel →
      match fwdLoop t pass rules input max fuel pos posInc a applied vars with
      | .unsupported => True
      | .fuel => False
      | .done o => StageOK input.length max o := by
  intro fuel
  induction fuel with
  | zero => intro pos posInc a applied vars _ _ _ h; omega
  | succ f ih =>
    intro pos posInc a applied vars hp0 hpn ha hmu
    unfold fwdLoop
    by_cases hend : pos ≥ input.length
    · simp only [hend, if_true]
      obtain ⟨a1, a2, a3⟩ := ha
      refine ⟨a2, a1, ?_, a3⟩
      show pos.toNat ≤ input.length
      omega
    · simp only [hend, if_false]
      have hri : (if (pass == 0) = true then pos.toNat else skipSpaces t input input.length pos.toNat) ≤ input.length := by
        split
        · omega
        · exact (skipSpaces_le t input _ _ (by omega)).1
      have hfin : ∀ (a' : Acc) (ri : Nat), AccOK input.length max a' → ri ≤ input.length →
          StageOK input.length max ⟨a'.out, a'.map, ri, applied⟩ := by
        intro a' ri ⟨b1, b2, b3⟩ hr
        exact ⟨b2, b1, hr, b3⟩
      cases hsel : (if posInc = true then select ⟨t, pass != 0, vars⟩ false pass rules input pos else Sel.none) with
      | unsupported => simp
      | none =>
        simp only []
        by_cases hcap : a.out.length + 1 > max
        · simp only [hcap, if_true]; exact hfin a _ ha hri
        · simp only [hcap, if_false]
          obtain ⟨a1, a2, a3⟩ := ha
          apply ih (pos + 1) true _ applied vars (by omega) (by omega)
          · refine ⟨by simp [a1], by simp; omega, ?_⟩
            intro x hx
            rcases List.mem_append.mp hx with hx | hx
            · exact a3 x hx
            · simp at hx; omega
          · unfold mu at *
            have : (pos + 1).toNat = pos.toNat + 1 := by omega
            have : pos.toNat < input.length := by omega
            cases posInc <;> simp at hmu ⊢ <;> omega
      | rule r m ic =>
        simp only []
        have hpi : posInc = true := by
          cases posInc
          · simp at hsel
          · rfl
        subst hpi
        simp only [if_true] at hsel
        obtain ⟨pre, post, -, -, htest, -⟩ := select_first _ false pass rules input pos r m ic hsel
        have hm : MatchOK input.length pos m := by
          simp only [testOf, Bool.false_eq_true, if_false] at htest
          exact fwdTest_bounds _ r.dots input pos _ m ic htest
        have hact := fwdAction_ok t r.dots input m ic max a vars pos hm hp0 ha
        cases hres : fwdAction t r.dots input m ic max a vars with
        | unsupported => simp
        | fail a' v' =>
          rw [hres] at hact
          exact hfin a' _ hact hri
        | ok a' np v' =>
          rw [hres] at hact
          obtain ⟨hacc, hnp⟩ := hact
          obtain ⟨hm0, hm1, hm2, hm3, hm4, hm5⟩ := hm
          simp only []
          have hnp0 : pos ≤ np ∧ np ≤ input.length := by
            rcases hnp with rfl | rfl <;> omega
          apply ih np (np != pos) a' _ v' (by omega) hnp0.2 hacc
          unfold mu at *
          simp only [if_true] at hmu
          by_cases heq : np = pos
          · subst heq; simp; omega
          · have : (np != pos) = true := by simpa using heq
            rw [this]
            have : np.toNat > pos.toNat := by omega
            have : np.toNat ≤ input.length := by omega
            simp only [if_true]; omega

/-- **fwdStage_contract / fwdStage_total**: for every table, stage, input and capacity the forward stage
    scanner never hits its iteration bound 2n+2 and its result satisfies the engine contract E1–E4 -/
theorem fwdStage_contract (t : Table) (pass : Nat) (input : List Nat) (max : Nat) :
    match fwdStage t pass input max with
    | .unsupported => True
    | .fuel => False
    | .done o => StageOK input.length max o := by
  unfold fwdStage
  apply fwdLoop_ok
  · omega
  · omega
  · exact ⟨rfl, Nat.zero_le _, by simp⟩
  · unfold mu; simp

theorem fwdStage_total (t : Table) (pass : Nat) (input : List Nat) (max : Nat) :
    fwdStage t pass input max ≠ .fuel := by
  have := fwdStage_contract t pass input max
  intro h; rw [h] at this; exact this

/-! ## backward direction -/

/-- boundaries of a successful backward test at position `sm`: the replacement ends at or after the match
    start (so the scanner never moves backwards); the bracket may OPEN before it after a look-back -/
def MatchOKB (n : Nat) (sm : Int) (m : Match) : Prop :=
  m.startMatch = sm ∧ 0 ≤ m.startReplace ∧ m.startReplace ≤ m.endReplace ∧ sm ≤ m.endReplace ∧ m.endReplace ≤ n ∧
  sm ≤ m.endMatch ∧ m.endMatch ≤ n

theorem attrMin_ge (t : Table) (ds neg seg : Bool) (mask : Nat) (input : List Nat) :
    ∀ (k : Nat) (pos : Int), pos ≤ (attrMin t ds neg seg mask input k pos).2 := by
  intro k; induction k with
  | zero => intro pos; simp [attrMin]
  | succ k ih =>
    intro pos; unfold attrMin
    split
    · simp
    · split
      · simp
      · split
        · simp
        · have := ih (pos + 1); omega

theorem attrMax_ge (t : Table) (ds neg seg : Bool) (mask : Nat) (input : List Nat) :
    ∀ (k : Nat) (pos : Int), pos ≤ (attrMax t ds neg seg mask input k pos).2 := by
  intro k; induction k with
  | zero => intro pos; simp [attrMax]
  | succ k ih =>
    intro pos; unfold attrMax
    split
    · simp
    · split
      · simp
      · split
        · simp
        · have := ih (pos + 1); omega

theorem attrOperand_ge (t : Table) (ds neg seg : Bool) (p : List Nat) (ic : Nat) (input : List Nat) (pos : Int) :
    pos ≤ (attrOperand t ds neg seg p ic input pos).2 := by
  unfold attrOperand
  simp only []
  split
  · have h1 := attrMin_ge t ds neg seg (attrMask p ic) input (ins p (ic + 5)) pos
    have h2 := attrMax_ge t ds neg seg (attrMask p ic) input (ins p (ic + 6) - ins p (ic + 5)) (attrMin t ds neg seg (attrMask p ic) input (ins p (ic + 5)) pos).2
    omega
  · exact attrMin_ge _ _ _ _ _ _ _ _

theorem backTest_bounds_aux (c : Ctx) (p input : List Nat) (sm : Int) (hsm : 0 ≤ sm) :
    ∀ (fuel : Nat) (pos : Int) (ic : Nat) (sr er : Int) (neg : Bool), 0 ≤ pos →
    SlotOK input.length sr → SlotOK input.length er →
    ∀ (m : Match) (ic' : Nat), backTest c p input sm fuel pos ic sr er neg = .ok m ic' →
    MatchOKB input.length sm m := by
  intro fuel
  induction fuel with
  | zero => intro pos ic sr er neg _ _ _ m ic' h; simp [backTest] at h
  | succ f ih =>
    intro pos ic sr er neg hpos hsr her m ic' h
    unfold backTest at h
    by_cases h1 : ic ≥ p.length
    · simp [h1] at h
    · simp only [h1, if_false] at h
      by_cases h2 : pos > input.length
      · simp [h2] at h
      · simp only [h2, if_false] at h
        by_cases o0 : (ins p ic == pass_not) = true
        · simp only [o0, if_true] at h
          exact ih _ _ _ _ _ hpos hsr her m ic' h
        · simp only [o0, Bool.false_eq_true, ↓reduceIte] at h
          by_cases o1 : (ins p ic == pass_first) = true
          · simp only [o1, if_true, post_ok] at h
            exact ih _ _ _ _ _ hpos hsr her m ic' h.2
          · simp only [o1, Bool.false_eq_true, ↓reduceIte] at h
            by_cases o2 : (ins p ic == pass_last) = true
            · simp only [o2, if_true, post_ok] at h
              exact ih _ _ _ _ _ hpos hsr her m ic' h.2
            · simp only [o2, Bool.false_eq_true, ↓reduceIte] at h
              by_cases o3 : (ins p ic == pass_lookback) = true
              · simp only [o3, if_true] at h
                by_cases cneg : pos - (ins p (ic + 1) : Int) < 0
                · simp only [cneg, if_true, post_ok] at h
                  exact ih _ _ _ _ _ (by omega) hsr her m ic' h.2
                · simp only [cneg, if_false, post_ok] at h
                  exact ih _ _ _ _ _ (by omega) hsr her m ic' h.2
              · simp only [o3, Bool.false_eq_true, ↓reduceIte] at h
                by_cases o4 : (ins p ic == pass_string || ins p ic == pass_dots) = true
                · simp only [o4, if_true, post_ok] at h
                  exact ih _ _ _ _ _ (by omega) hsr her m ic' h.2
                · simp only [o4, Bool.false_eq_true, ↓reduceIte] at h
                  by_cases o5 : (ins p ic == pass_startReplace) = true
                  · simp only [o5, if_true, post_ok] at h
                    exact ih _ _ _ _ _ hpos (Or.inr ⟨hpos, by omega⟩) her m ic' h.2
                  · simp only [o5, Bool.false_eq_true, ↓reduceIte] at h
                    by_cases o6 : (ins p ic == pass_endReplace) = true
                    · simp only [o6, if_true, post_ok] at h
                      exact ih _ _ _ _ _ hpos hsr (Or.inr ⟨hpos, by omega⟩) m ic' h.2
                    · simp only [o6, Bool.false_eq_true, ↓reduceIte] at h
                      by_cases o7 : (ins p ic == pass_attributes) = true
                      · simp only [o7, if_true, post_ok] at h
                        have := attrOperand_ge c.t c.dotsSide false false p ic input pos
                        exact ih _ _ _ _ _ (by omega) hsr her m ic' h.2
                      · simp only [o7, Bool.false_eq_true, ↓reduceIte] at h
                        by_cases o8 : (ins p ic == pass_endTest) = true
                        · simp only [o8, if_true] at h
                          unfold MatchOKB
                          unfold SlotOK at hsr her
                          by_cases hs : sr = -1
                          · subst hs
                            simp at h
                            split at h
                            · cases h
                            · cases h; simp; omega
                          · have hb : (sr == -1) = false := by simpa using hs
                            simp [hb] at h
                            split at h
                            · cases h
                            · cases h; simp; omega
                        · simp only [o8, Bool.false_eq_true, ↓reduceIte] at h
                          cases hv : varTest p ic c.vars with
                          | none => simp [hv] at h
                          | some b =>
                            simp only [hv, post_ok] at h
                            exact ih _ _ _ _ _ hpos hsr her m ic' h.2

theorem backTest_bounds (c : Ctx) (p input : List Nat) (pos : Int) (hpos : 0 ≤ pos) (fuel : Nat) (m : Match) (ic : Nat)
    (h : backTest c p input pos fuel pos 0 (-1) (-1) false = .ok m ic) : MatchOKB input.length pos m :=
  backTest_bounds_aux c p input pos hpos fuel pos 0 (-1) (-1) false hpos (Or.inl rfl) (Or.inl rfl) m ic h

/-- backward accumulator: one map entry per INPUT position, output within the capacity -/
def AccB (n max : Nat) (a : Acc) : Prop := a.map.length = n ∧ a.out.length ≤ max

theorem setRange_length (map : List Int) (a b v : Int) : (setRange map a b v).length = map.length := by
  simp [setRange]

theorem slice_length_le (input : List Nat) (a b : Int) : (slice input a b).length ≤ (b - a).toNat := by
  unfold slice; split
  · simp
  · simp only [List.length_take]; omega

theorem backCopy_ok (input : List Nat) (frm to : Int) (n max : Nat) (a a' : Acc) (ha : AccB n max a)
    (h : backCopy input frm to max a = some a') : AccB n max a' := by
  unfold backCopy at h
  split at h
  · split at h
    · cases h
    · cases h
      obtain ⟨h1, h2⟩ := ha
      refine ⟨by simp [h1], ?_⟩
      have := slice_length_le input frm to
      simp; omega
  · cases h; exact ha

def ActResOKB (n max : Nat) (m : Match) : ActRes → Prop
  | .unsupported => True
  | .fail a' _ => AccB n max a'
  | .ok a' np' _ => AccB n max a' ∧ (np' = m.endReplace ∨ np' = m.endMatch)

theorem backActLoop_ok (p input : List Nat) (m : Match) (n max dsm : Nat) :
    ∀ (fuel ic : Nat) (a : Acc) (dsr : Nat) (np : Int) (vars : List Nat),
      AccB n max a → (np = m.endReplace ∨ np = m.endMatch) →
      ActResOKB n max m (backActLoop p input m max dsm fuel ic a dsr np vars) := by
  intro fuel
  induction fuel with
  | zero => intro ic a dsr np vars _ _; simp [backActLoop, ActResOKB]
  | succ f ih =>
    intro ic a dsr np vars ha hnp
    unfold backActLoop
    by_cases hic : ic ≥ p.length
    · simp only [hic, if_true]; exact ⟨ha, hnp⟩
    · simp only [hic, if_false]
      by_cases hs : (ins p ic == pass_string || ins p ic == pass_dots) = true
      · simp only [hs, if_true]
        by_cases hcap : a.out.length + ins p (ic + 1) > max
        · simp only [hcap, if_true]; exact ha
        · simp only [hcap, if_false]
          have hl : (literal p ic).length ≤ ins p (ic + 1) := by
            unfold literal; simp only [List.length_take]; omega
          apply ih
          · exact ⟨ha.1, by simp; omega⟩
          · exact hnp
      · simp only [hs]
        by_cases ho : (ins p ic == pass_omit) = true
        · simp only [ho, if_true]; exact ih _ _ _ _ _ ha hnp
        · simp only [ho]
          by_cases hc : (ins p ic == pass_copy) = true
          · simp only [hc, if_true]
            by_cases hguard : (decide (dsr - dsm > 0) && decide (dsr + (dsr - dsm) > max)) = true
            · simp only [hguard, if_true]; exact ha
            · simp only [hguard, Bool.false_eq_true, if_false]
              have hmv : AccB n max (if dsr - dsm > 0 then
                  ({ a with out := (a.out.take dsm ++ (a.out.drop dsr).take (dsr - dsm) ++
                      a.out.drop (dsm + ((a.out.drop dsr).take (dsr - dsm)).length)).take (a.out.length - (dsr - dsm)) }, dsm)
                  else (a, dsr)).1 := by
                split
                · refine ⟨ha.1, ?_⟩
                  simp only [List.length_take]
                  have := ha.2; omega
                · exact ha
              cases hcp : backCopy input m.startReplace m.endReplace max _ with
              | none => simpa [ActResOKB] using hmv
              | some a2 =>
                have hk := backCopy_ok input _ _ n max _ a2 hmv hcp
                simp only []
                apply ih
                · exact ⟨by simp [setRange_length, hk.1], hk.2⟩
                · exact Or.inr rfl
          · simp only [hc, Bool.false_eq_true, ↓reduceIte]
            cases hv : varAction p ic vars with
            | none => simp [ActResOKB]
            | some vl => exact ih _ _ _ _ _ ha hnp

theorem backAction_ok (p input : List Nat) (m : Match) (ic n max : Nat) (a : Acc) (vars : List Nat) (ha : AccB n max a) :
    ActResOKB n max m (backAction p input m ic max a vars) := by
  unfold backAction
  cases hcp : backCopy input m.startMatch m.startReplace max a with
  | none => simpa [ActResOKB] using ha
  | some a1 =>
    have hk := backCopy_ok input _ _ n max a a1 ha hcp
    simp only []
    apply backActLoop_ok
    · exact ⟨by simp [setRange_length, hk.1], hk.2⟩
    · exact Or.inl rfl

/-- the backward engine contract: E1 output within the capacity, one map entry per input position, E3 consumed
    length within the input -/
def StageOKB (n max : Nat) (o : StageOut) : Prop :=
  o.out.length ≤ max ∧ o.map.length = n ∧ o.realInlen ≤ n

theorem backLoop_ok (t : Table) (pass : Nat) (rules : List Rule) (input : List Nat) (max : Nat) :
    ∀ (fuel : Nat) (pos : Int) (posInc : Bool) (a : Acc) (applied vars : List Nat),
      0 ≤ pos → pos ≤ input.length → AccB input.length max a → mu input.length pos posInc < fuel →
      match backLoop t pass rules input max fuel pos posInc a applied vars with
      | .unsupported => True
      | .fuel => False
      | .done o => StageOKB input.length max o := by
  intro fuel
  induction fuel with
  | zero => intro pos posInc a applied vars _ _ _ h; omega
  | succ f ih =>
    intro pos posInc a applied vars hp0 hpn ha hmu
    unfold backLoop
    by_cases hend : pos ≥ input.length
    · simp only [hend, if_true]
      refine ⟨ha.2, ha.1, ?_⟩
      show pos.toNat ≤ input.length
      omega
    · simp only [hend, if_false]
      have hfin : ∀ (a' : Acc), AccB input.length max a' →
          match (if (pass == 0) = true then StageRes.done ⟨a'.out, a'.map, pos.toNat, applied⟩
                 else StageRes.done ⟨a'.out, setRange a'.map pos (skipSpaces t input input.length pos.toNat) a'.out.length,
                        skipSpaces t input input.length pos.toNat, applied⟩) with
          | .unsupported => True
          | .fuel => False
          | .done o => StageOKB input.length max o := by
        intro a' ⟨b1, b2⟩
        split
        · rename_i hx
          split at hx <;> simp at hx
        · rename_i hx
          split at hx <;> simp at hx
        · rename_i o hx
          split at hx
          · cases hx; exact ⟨b2, b1, by show pos.toNat ≤ _; omega⟩
          · cases hx
            exact ⟨b2, by simp [setRange_length, b1], (skipSpaces_le t input _ _ (by omega)).1⟩
      cases hsel : (if posInc = true then select ⟨t, pass != 0, vars⟩ true pass rules input pos else Sel.none) with
      | unsupported => simp
      | none =>
        simp only []
        by_cases hcap : a.out.length + 1 > max
        · simp only [hcap, if_true]; exact hfin a ha
        · simp only [hcap, if_false]
          apply ih (pos + 1) true _ applied vars (by omega) (by omega)
          · exact ⟨by simp [setRange_length, ha.1], by simp; omega⟩
          · unfold mu at *
            have : (pos + 1).toNat = pos.toNat + 1 := by omega
            have : pos.toNat < input.length := by omega
            cases posInc <;> simp at hmu ⊢ <;> omega
      | rule r m ic =>
        simp only []
        have hpi : posInc = true := by
          cases posInc
          · simp at hsel
          · rfl
        subst hpi
        simp only [if_true] at hsel
        obtain ⟨pre, post, -, -, htest, -⟩ := select_first _ true pass rules input pos r m ic hsel
        have hm : MatchOKB input.length pos m := by
          simp only [testOf, if_true] at htest
          exact backTest_bounds _ r.dots input pos hp0 _ m ic htest
        have hact := backAction_ok r.dots input m ic input.length max a vars ha
        cases hres : backAction r.dots input m ic max a vars with
        | unsupported => simp
        | fail a' v' =>
          rw [hres] at hact
          exact hfin a' hact
        | ok a' np v' =>
          rw [hres] at hact
          obtain ⟨hacc, hnp⟩ := hact
          obtain ⟨hm0, hm1, hm2, hm3, hm4, hm5, hm6⟩ := hm
          simp only []
          have hnp0 : pos ≤ np ∧ np ≤ input.length := by
            rcases hnp with rfl | rfl <;> omega
          apply ih np (decide (np > pos)) a' _ v' (by omega) hnp0.2 hacc
          unfold mu at *
          simp only [if_true] at hmu
          by_cases heq : np = pos
          · subst heq; simp; omega
          · have : decide (np > pos) = true := by simp; omega
            rw [this]
            have : np.toNat > pos.toNat := by omega
            have : np.toNat ≤ input.length := by omega
            simp only [if_true]; omega

/-- **backStage_contract / backStage_total**: the backward stage scanner never hits its iteration bound and its
    result satisfies the clauses of the backward engine contract the driver theorems need (E1, E3) plus a map
    entry for every input position -/
theorem backStage_contract (t : Table) (pass : Nat) (input : List Nat) (max : Nat) :
    match backStage t pass input max with
    | .unsupported => True
    | .fuel => False
    | .done o => StageOKB input.length max o := by
  unfold backStage
  apply backLoop_ok
  · omega
  · omega
  · exact ⟨by simp, Nat.zero_le _⟩
  · unfold mu; simp

theorem backStage_total (t : Table) (pass : Nat) (input : List Nat) (max : Nat) :
    backStage t pass input max ≠ .fuel := by
  have := backStage_contract t pass input max
  intro h; rw [h] at this; exact this


theorem backActLoop_plain (p input : List Nat) (m : Match) (max dsm : Nat) :
    ∀ (fuel ic : Nat) (a : Acc) (dsr : Nat) (np : Int) (vars : List Nat) (a' : Acc) (np' : Int) (vars' : List Nat),
      plainAction p fuel ic = true →
      backActLoop p input m max dsm fuel ic a dsr np vars = .ok a' np' vars' →
      a'.out = a.out ++ emitted p fuel ic ∧ np' = np := by
  intro fuel
  induction fuel with
  | zero => intro ic a dsr np vars a' np' vars' h; simp [plainAction] at h
  | succ f ih =>
    intro ic a dsr np vars a' np' vars' hp h
    unfold backActLoop at h
    unfold plainAction at hp
    unfold emitted
    by_cases hic : ic ≥ p.length
    · simp only [hic, if_true] at h ⊢
      cases h; simp
    · simp only [hic, if_false] at h hp ⊢
      by_cases hs : (ins p ic == pass_string || ins p ic == pass_dots) = true
      · simp only [hs, if_true] at h hp ⊢
        by_cases hcap : a.out.length + ins p (ic + 1) > max
        · simp [hcap] at h
        · simp only [hcap, if_false] at h
          obtain ⟨h1, h2⟩ := ih _ _ _ _ _ _ _ _ hp h
          exact ⟨by simp [h1], h2⟩
      · simp only [hs] at h hp ⊢
        by_cases ho : (ins p ic == pass_omit) = true
        · simp only [ho, if_true] at h hp ⊢
          exact ih _ _ _ _ _ _ _ _ hp h
        · simp [ho] at hp

/-- **backAction_replaces_brackets**: the same for the backward interpreter -/
theorem backAction_replaces_brackets (p input : List Nat) (m : Match) (ic max : Nat) (a a' : Acc) (np : Int)
    (vars vars' : List Nat) (hp : plainAction p (p.length + 1) ic = true)
    (h : backAction p input m ic max a vars = .ok a' np vars') :
    a'.out = a.out ++ slice input m.startMatch m.startReplace ++ emitted p (p.length + 1) ic ∧ np = m.endReplace := by
  unfold backAction at h
  cases hcp : backCopy input m.startMatch m.startReplace max a with
  | none => simp [hcp] at h
  | some a1 =>
    simp only [hcp] at h
    obtain ⟨h1, h2⟩ := backActLoop_plain p input m max _ _ _ _ _ _ _ _ _ _ hp h
    refine ⟨?_, h2⟩
    rw [h1]
    unfold backCopy at hcp
    split at hcp
    · split at hcp
      · cases hcp
      · cases hcp; rfl
    · cases hcp
      rename_i hlt
      have : slice input m.startMatch m.startReplace = [] := by unfold slice; simp; omega
      simp [this]

/-! ### the hypotheses are satisfiable: `noback pass2 @1[@2] @3` on the cells 1 2 1 -/

def exProg : List Nat := [pass_dots, 1, 1, pass_startReplace, pass_dots, 1, 2, pass_endReplace, pass_endTest, pass_dots, 1, 3]
def exRule : Rule := { idx := 5, opcode := CTO_Pass2, chars := [1], dots := exProg }
def exDots : List DotsRec := [⟨1, CTC_Letter, none, []⟩, ⟨2, CTC_Letter, none, []⟩, ⟨3, CTC_Letter, none, []⟩]
def exTable : Table := { numPasses := 2, rules := [exRule], forPass := [(2, [5])], dots := exDots }

example : fwdStage exTable 2 [1, 2, 1] 10 = .done ⟨[1, 3, 1], [0, 1, 2], 3, [5]⟩ := by decide
example : select ⟨exTable, true, []⟩ false 2 [exRule] [1, 2, 1] 0 = .rule exRule ⟨0, 1, 2, 2⟩ 9 := by decide
example : plainAction exProg (exProg.length + 1) 9 = true ∧ emitted exProg (exProg.length + 1) 9 = [3] := by decide
example : keyOf exRule = some exRule.chars ∧ chainSorted [exRule] = true ∧ passTableOK exTable = [] := by decide
/-- capacity 1: the stage stops in front of the rule it cannot complete, keeping the copied prefix -/
example : fwdStage exTable 2 [1, 2, 1] 1 = .done ⟨[1], [0], 0, []⟩ := by decide

/-- an attribute operand with counts: one or two letters become cell 3 -/
def exProg2 : List Nat := [pass_attributes, 0, 0, 0, CTC_Letter, 1, 2, pass_endTest, pass_dots, 1, 3]
def exRule2 : Rule := { idx := 6, opcode := CTO_Pass2, chars := [], dots := exProg2 }
def exTable2 : Table := { numPasses := 2, rules := [exRule2], forPass := [(2, [6])], dots := exDots }
example : fwdStage exTable2 2 [1, 2, 1] 10 = .done ⟨[3, 3], [0, 2], 3, [6, 6]⟩ := by decide

/-- negation and a pass variable: the first cell that is not 1 becomes 3, once (`!@1 #1=0` → `@3 #1=1`) -/
def exProg3 : List Nat := [pass_not, pass_dots, 1, 1, pass_eq, 1, 0, pass_endTest, pass_dots, 1, 3, pass_eq, 1, 1]
def exRule3 : Rule := { idx := 7, opcode := CTO_Pass2, chars := [], dots := exProg3 }
def exTable3 : Table := { numPasses := 2, rules := [exRule3], forPass := [(2, [7])], backPass := [(2, [7])], dots := exDots }
example : fwdStage exTable3 2 [1, 2, 2, 1] 10 = .done ⟨[1, 3, 2, 1], [0, 1, 2, 3], 4, [7]⟩ := by decide
example : backStage exTable3 2 [1, 2, 2, 1] 10 = .done ⟨[1, 3, 2, 1], [0, 1, 2, 3], 4, [7]⟩ := by decide

end Lou.C06Pass
