/-
  C06Pass.lean — theorems about the Layer B model of the multipass stages (LouModel/Pass.lean),
  forward direction, literal fragment:

  * `fwdTest_bounds`   a successful test yields ordered boundaries inside the input
                        (startMatch ≤ startReplace ≤ endReplace ≤ n, startMatch ≤ endMatch ≤ n) — the
                        step contract S2 of C03 for this fragment: an applied rule never moves the
                        position backwards;
  * `select_sound`, `select_first`, `select_best`
                        the rule applied at a position is the first rule of the chain whose test
                        matches; in a chain ordered by decreasing key length then definition it is a
                        longest-key matching rule and, among those, the one defined first;
  * `fwdAction_ok`     an action keeps the accumulator well-formed (map as long as the output, output
                        within the capacity, map entries inside [0, n]) and continues at endReplace or
                        endMatch;
  * `fwdAction_replaces_brackets`
                        without a copy instruction the action appends exactly: the matched characters
                        before the bracket (verbatim), then the literals of the action; the position
                        continues at endReplace — nothing outside the brackets is replaced or consumed;
  * `fwdStage_contract` the stage scanner satisfies the engine contract of Layer A (E1–E4) for every
                        table and input, and `fwdStage_total`: its iteration bound 2n+2 is never hit
                        (the C03 bound, here for a real engine instead of an abstract one).
-/
import LouModel.Pass
import LouProofs.Lemmas.Chain

namespace Lou.C06Pass

open Lou Lou.Pass Lou.Gen

/-- a replace-bracket slot: unset or a position inside the input -/
def SlotOK (n : Nat) (x : Int) : Prop := x = -1 ∨ (0 ≤ x ∧ x ≤ n)

/-- boundaries of a match at position `sm` of an input of length `n` -/
def MatchOK (n : Nat) (sm : Int) (m : Match) : Prop :=
  m.startMatch = sm ∧ sm ≤ m.startReplace ∧ m.startReplace ≤ m.endReplace ∧ m.endReplace ≤ n ∧
  sm ≤ m.endMatch ∧ m.endMatch ≤ n

theorem fwdTest_bounds_aux (p input : List Nat) (sm : Int)
    (fuel : Nat) (pos : Int) (ic : Nat) (sr er : Int)
    (hsr : SlotOK input.length sr) (her : SlotOK input.length er)
    (m : Match) (ic' : Nat) (h : fwdTest p input sm fuel pos ic sr er = .ok m ic') :
    MatchOK input.length sm m := by
  unfold MatchOK
  fun_induction fwdTest p input sm fuel pos ic sr er <;> simp_all [SlotOK]
  all_goals (first | omega | skip)
  rename_i sr0 er0 _ _ _ _ _ _ _ _ _ _ _ _ hc
  obtain ⟨rfl, -⟩ := h
  dsimp only at *
  by_cases hs : sr0 = -1 <;> simp at hc ⊢ <;> omega

/-- **fwdTest_bounds**: the boundaries of a successful test are ordered and inside the input -/
theorem fwdTest_bounds (p input : List Nat) (pos : Int) (fuel : Nat) (m : Match) (ic : Nat)
    (h : fwdTest p input pos fuel pos 0 (-1) (-1) = .ok m ic) : MatchOK input.length pos m :=
  fwdTest_bounds_aux p input pos fuel pos 0 (-1) (-1) (Or.inl rfl) (Or.inl rfl) m ic h

/-! ### selection -/

def testOf (back : Bool) (r : Rule) (input : List Nat) (pos : Int) : TestRes :=
  (if back then backTest else fwdTest) r.dots input pos (r.dots.length + 1) pos 0 (-1) (-1)

def eligible (back : Bool) (pass : Nat) (r : Rule) : Bool := !(back && r.opcode != opcodeOfPass pass)

/-- **select_sound / select_first**: the selected rule is in the chain, its test succeeds with the reported
    match, and every eligible rule before it in the chain fails its test -/
theorem select_first (back : Bool) (pass : Nat) (rules : List Rule) (input : List Nat) (pos : Int)
    (r : Rule) (m : Match) (ic : Nat) (h : select back pass rules input pos = .rule r m ic) :
    ∃ pre post, rules = pre ++ r :: post ∧ eligible back pass r = true ∧ testOf back r input pos = .ok m ic ∧
      ∀ q ∈ pre, eligible back pass q = true → testOf back q input pos = .fail := by
  induction rules with
  | nil => simp [select] at h
  | cons q rest ih =>
    unfold select at h
    by_cases he : (back && q.opcode != opcodeOfPass pass) = true
    · simp only [he, if_true] at h
      obtain ⟨pre, post, hr, hel, ht, hpre⟩ := ih h
      refine ⟨q :: pre, post, by simp [hr], hel, ht, ?_⟩
      intro x hx hxe
      rcases List.mem_cons.mp hx with rfl | hx
      · simp [eligible, he] at hxe
      · exact hpre x hx hxe
    · simp only [he] at h
      have hq : eligible back pass q = true := by
        cases back <;> simp_all [eligible]
      cases ht : testOf back q input pos with
      | unsupported => simp [testOf] at ht; simp [ht] at h
      | ok m' ic' =>
        simp [testOf] at ht; simp [ht] at h
        obtain ⟨rfl, rfl, rfl⟩ := h
        exact ⟨[], rest, by simp, hq, by simp [testOf, ht], by simp⟩
      | fail =>
        simp [testOf] at ht; simp [ht] at h
        obtain ⟨pre, post, hr, hel, ht', hpre⟩ := ih h
        refine ⟨q :: pre, post, by simp [hr], hel, ht', ?_⟩
        intro x hx hxe
        rcases List.mem_cons.mp hx with rfl | hx
        · simp [testOf, ht]
        · exact hpre x hx hxe

/-- `a` is tried before `b`: longer key first, then the rule defined first -/
def Before (a b : Rule) : Prop :=
  b.chars.length < a.chars.length ∨ (b.chars.length = a.chars.length ∧ a.idx < b.idx)

theorem before_trans {a b c : Rule} (h1 : Before a b) (h2 : Before b c) : Before a c := by
  unfold Before at *; omega

theorem chainSorted_pairwise : ∀ (l : List Rule), chainSorted l = true → l.Pairwise Before
  | [], _ => List.Pairwise.nil
  | [a], _ => by simp
  | a :: b :: rest, h => by
    simp only [chainSorted, Bool.and_eq_true, Bool.or_eq_true, decide_eq_true_eq, beq_iff_eq] at h
    have ih := chainSorted_pairwise (b :: rest) h.2
    have hab : Before a b := by unfold Before; omega
    refine List.Pairwise.cons ?_ ih
    intro x hx
    rcases List.mem_cons.mp hx with rfl | hx
    · exact hab
    · exact before_trans hab ((List.pairwise_cons.mp ih).1 x hx)

/-- **select_best**: in a chain that is in order (what `passTableOK` checks on the compiled table) the rule
    applied at a position has, among all eligible rules whose test matches there, a key of maximal length,
    and among those of that length it is the one defined first -/
theorem select_best (back : Bool) (pass : Nat) (rules : List Rule) (input : List Nat) (pos : Int)
    (hs : chainSorted rules = true)
    (r : Rule) (m : Match) (ic : Nat) (h : select back pass rules input pos = .rule r m ic)
    (q : Rule) (hq : q ∈ rules) (hqe : eligible back pass q = true) (m' : Match) (ic' : Nat)
    (hqt : testOf back q input pos = .ok m' ic') :
    q = r ∨ Before r q := by
  obtain ⟨pre, post, hr, -, -, hpre⟩ := select_first back pass rules input pos r m ic h
  subst hr
  rcases List.mem_append.mp hq with hq | hq
  · have := hpre q hq hqe
    rw [hqt] at this; cases this
  · rcases List.mem_cons.mp hq with rfl | hq
    · exact Or.inl rfl
    · right
      have hp := chainSorted_pairwise _ hs
      have := (List.pairwise_append.mp hp).2.1
      exact (List.pairwise_cons.mp this).1 q hq

/-! ### actions -/

/-- well-formed stage output: one map entry per cell, within the capacity, entries inside [0, n] -/
def AccOK (n max : Nat) (a : Acc) : Prop :=
  a.map.length = a.out.length ∧ a.out.length ≤ max ∧ ∀ x ∈ a.map, 0 ≤ x ∧ x ≤ (n : Int)

theorem slice_length (input : List Nat) (a b : Int) (ha : 0 ≤ a) (hb : b ≤ input.length) :
    (slice input a b).length = (b - a).toNat := by
  unfold slice
  split
  · simp only [List.length_nil]; omega
  · simp only [List.length_take, List.length_drop]; omega

theorem range_length (a b : Int) : (range a b).length = (b - a).toNat := by
  unfold range; split
  · simp only [List.length_nil]; omega
  · simp

theorem range_mem (a b x : Int) (h : x ∈ range a b) : a ≤ x ∧ x < b := by
  unfold range at h; split at h
  · simp at h
  · simp only [List.mem_map, List.mem_range] at h
    obtain ⟨k, hk, rfl⟩ := h; omega

theorem fwdCopy_ok (input : List Nat) (frm to : Int) (max : Nat) (a a' : Acc)
    (hf : 0 ≤ frm) (ht : to ≤ input.length) (ha : AccOK input.length max a)
    (h : fwdCopy input frm to max a = some a') :
    AccOK input.length max a' ∧ a.out.length ≤ a'.out.length := by
  unfold fwdCopy at h
  split at h
  · split at h
    · cases h
    · cases h
      obtain ⟨h1, h2, h3⟩ := ha
      refine ⟨⟨?_, ?_, ?_⟩, ?_⟩
      · simp [slice_length input frm to hf ht, range_length, h1]
      · simp [slice_length input frm to hf ht]; omega
      · intro x hx
        rcases List.mem_append.mp hx with hx | hx
        · exact h3 x hx
        · have := range_mem _ _ _ hx; omega
      · simp
  · cases h; exact ⟨ha, Nat.le_refl _⟩

/-- the `memmove` of the copy action: drops the characters copied in front of the bracket -/
theorem memmove_ok (n max : Nat) (a : Acc) (dsm dsr : Nat) (ha : AccOK n max a) (h1 : dsm ≤ dsr) (h2 : dsr ≤ a.out.length) :
    let count := dsr - dsm
    let src := (a.out.drop dsr).take count
    let a1 : Acc := { out := (a.out.take dsm ++ src ++ a.out.drop (dsm + src.length)).take (a.out.length - count),
                      map := a.map.take (a.out.length - count) }
    AccOK n max a1 ∧ dsm ≤ a1.out.length := by
  intro count src a1
  obtain ⟨a1', a2', a3'⟩ := ha
  have hsrc : src.length ≤ count := by simp [src]; omega
  have hlen : a1.out.length = a.out.length - count := by
    simp only [a1, List.length_take, List.length_append, List.length_drop]
    omega
  refine ⟨⟨?_, ?_, ?_⟩, ?_⟩
  · rw [hlen]; simp only [a1, List.length_take]; omega
  · rw [hlen]; omega
  · intro x hx; exact a3' x (List.mem_of_mem_take hx)
  · rw [hlen]; omega

/-- what an action may return -/
def ActResOK (n max : Nat) (m : Match) : ActRes → Prop
  | .unsupported => True
  | .fail a' => AccOK n max a'
  | .ok a' np' => AccOK n max a' ∧ (np' = m.endReplace ∨ np' = m.endMatch)

theorem fwdActLoop_ok (p input : List Nat) (m : Match) (max dsm : Nat) (sm : Int)
    (hm : MatchOK input.length sm m) (hsm : 0 ≤ sm) :
    ∀ (fuel ic : Nat) (a : Acc) (dsr : Nat) (np : Int),
      AccOK input.length max a → dsm ≤ dsr → dsr ≤ a.out.length →
      (np = m.endReplace ∨ np = m.endMatch) →
      ActResOK input.length max m (fwdActLoop p input m max dsm fuel ic a dsr np) := by
  intro fuel
  induction fuel with
  | zero => intro ic a dsr np _ _ _ _; simp [fwdActLoop, ActResOK]
  | succ f ih =>
    intro ic a dsr np ha h1 h2 hnp
    obtain ⟨hm0, hm1, hm2, hm3, hm4, hm5⟩ := hm
    unfold fwdActLoop
    by_cases hic : ic ≥ p.length
    · simp only [hic, if_true]; exact ⟨ha, hnp⟩
    · simp only [hic, if_false]
      by_cases hs : (ins p ic == pass_string || ins p ic == pass_dots) = true
      · simp only [hs, if_true]
        by_cases hcap : a.out.length + ins p (ic + 1) > max
        · simp only [hcap, if_true]; exact ha
        · simp only [hcap, if_false]
          have hl : (literal p ic).length ≤ ins p (ic + 1) := by
            unfold literal; simp only [List.length_take]; omega
          obtain ⟨a1, a2, a3⟩ := ha
          apply ih
          · refine ⟨by simp [a1], by simp; omega, ?_⟩
            intro x hx
            rcases List.mem_append.mp hx with hx | hx
            · exact a3 x hx
            · have := List.eq_of_mem_replicate hx; omega
          · exact h1
          · simp; omega
          · exact hnp
      · simp only [hs]
        by_cases ho : (ins p ic == pass_omit) = true
        · simp only [ho, if_true]; exact ih _ _ _ _ ha h1 h2 hnp
        · simp only [ho]
          by_cases hc : (ins p ic == pass_copy) = true
          · simp only [hc, if_true]
            by_cases hcount : dsr - dsm > 0
            · simp only [hcount, if_true]
              by_cases hcap : dsr + (dsr - dsm) > max
              · simp only [hcap, if_true]; exact ha
              · simp only [hcap, if_false]
                obtain ⟨hk1, hk2⟩ := memmove_ok input.length max a dsm dsr ha h1 h2
                cases hcp : fwdCopy input m.startReplace m.endReplace max _ with
                | none => simpa [ActResOK] using hk1
                | some a2 =>
                  obtain ⟨hk3, hk4⟩ := fwdCopy_ok input m.startReplace m.endReplace max _ a2 (by omega) hm3 hk1 hcp
                  simp only []
                  exact ih _ _ _ _ hk3 (Nat.le_refl _) (by omega) (Or.inr rfl)
            · simp only [hcount, if_false]
              cases hcp : fwdCopy input m.startReplace m.endReplace max a with
              | none => simpa [ActResOK] using ha
              | some a2 =>
                obtain ⟨hk3, hk4⟩ := fwdCopy_ok input m.startReplace m.endReplace max a a2 (by omega) hm3 ha hcp
                simp only []
                exact ih _ _ _ _ hk3 h1 (by omega) (Or.inr rfl)
          · simp [hc, ActResOK]

/-- **fwdAction_ok**: whatever an action returns is well-formed, and it continues at endReplace or endMatch -/
theorem fwdAction_ok (p input : List Nat) (m : Match) (ic max : Nat) (a : Acc) (sm : Int)
    (hm : MatchOK input.length sm m) (hsm : 0 ≤ sm) (ha : AccOK input.length max a) :
    ActResOK input.length max m (fwdAction p input m ic max a) := by
  unfold fwdAction
  have hm' := hm
  obtain ⟨hm0, hm1, hm2, hm3, hm4, hm5⟩ := hm
  cases hcp : fwdCopy input m.startMatch m.startReplace max a with
  | none => simpa [ActResOK] using ha
  | some a1 =>
    obtain ⟨hk1, hk2⟩ := fwdCopy_ok input m.startMatch m.startReplace max a a1 (by omega) (by omega) ha hcp
    simp only []
    exact fwdActLoop_ok p input m max a.out.length sm hm' hsm _ _ _ _ _ hk1 hk2 (Nat.le_refl _) (Or.inl rfl)

/-- the action part from `ic` on consists of literals and omits only (no copy, nothing unsupported) -/
def plainAction (p : List Nat) : Nat → Nat → Bool
  | 0, _ => false
  | fuel + 1, ic =>
    if ic ≥ p.length then true
    else if ins p ic == pass_string || ins p ic == pass_dots then plainAction p fuel (ic + ins p (ic + 1) + 2)
    else if ins p ic == pass_omit then plainAction p fuel (ic + 1)
    else false

/-- the cells such an action writes: the concatenation of its literals — a function of the rule alone -/
def emitted (p : List Nat) : Nat → Nat → List Nat
  | 0, _ => []
  | fuel + 1, ic =>
    if ic ≥ p.length then []
    else if ins p ic == pass_string || ins p ic == pass_dots then literal p ic ++ emitted p fuel (ic + ins p (ic + 1) + 2)
    else if ins p ic == pass_omit then emitted p fuel (ic + 1)
    else []

theorem fwdActLoop_plain (p input : List Nat) (m : Match) (max dsm : Nat) :
    ∀ (fuel ic : Nat) (a : Acc) (dsr : Nat) (np : Int) (a' : Acc) (np' : Int),
      plainAction p fuel ic = true →
      fwdActLoop p input m max dsm fuel ic a dsr np = .ok a' np' →
      a'.out = a.out ++ emitted p fuel ic ∧ np' = np := by
  intro fuel
  induction fuel with
  | zero => intro ic a dsr np a' np' h; simp [plainAction] at h
  | succ f ih =>
    intro ic a dsr np a' np' hp h
    unfold fwdActLoop at h
    unfold plainAction at hp
    unfold emitted
    by_cases hic : ic ≥ p.length
    · simp only [hic, if_true] at h ⊢
      cases h; simp
    · simp only [hic, if_false] at h hp ⊢
      by_cases hs : (ins p ic == pass_string || ins p ic == pass_dots) = true
      · simp only [hs, if_true] at h hp ⊢
        by_cases hcap : a.out.length + ins p (ic + 1) > max
        · simp [hcap] at h
        · simp only [hcap, if_false] at h
          obtain ⟨h1, h2⟩ := ih _ _ _ _ _ _ hp h
          exact ⟨by simp [h1], h2⟩
      · simp only [hs] at h hp ⊢
        by_cases ho : (ins p ic == pass_omit) = true
        · simp only [ho, if_true] at h hp ⊢
          exact ih _ _ _ _ _ _ hp h
        · simp [ho] at hp

/-- **fwdAction_replaces_brackets**: an action made of literals (or an omit) appends to the output exactly the
    matched characters in front of the bracket, verbatim, and then the literals of the rule, and the scanner
    continues at endReplace: nothing outside the brackets is replaced, and nothing behind them is consumed -/
theorem fwdAction_replaces_brackets (p input : List Nat) (m : Match) (ic max : Nat) (a a' : Acc) (np : Int)
    (hp : plainAction p (p.length + 1) ic = true)
    (h : fwdAction p input m ic max a = .ok a' np) :
    a'.out = a.out ++ slice input m.startMatch m.startReplace ++ emitted p (p.length + 1) ic ∧ np = m.endReplace := by
  unfold fwdAction at h
  cases hcp : fwdCopy input m.startMatch m.startReplace max a with
  | none => simp [hcp] at h
  | some a1 =>
    simp only [hcp] at h
    obtain ⟨h1, h2⟩ := fwdActLoop_plain p input m max _ _ _ _ _ _ _ _ hp h
    refine ⟨?_, h2⟩
    rw [h1]
    unfold fwdCopy at hcp
    split at hcp
    · split at hcp
      · cases hcp
      · cases hcp; rfl
    · cases hcp
      rename_i hlt
      have : slice input m.startMatch m.startReplace = [] := by unfold slice; simp; omega
      simp [this]

/-! ### the stage scanner -/

theorem skipSpaces_le (t : Table) (input : List Nat) : ∀ (fuel pos : Nat), pos ≤ input.length →
    skipSpaces t input fuel pos ≤ input.length ∧ pos ≤ skipSpaces t input fuel pos := by
  intro fuel
  induction fuel with
  | zero => intro pos h; simp [skipSpaces, h]
  | succ f ih =>
    intro pos h
    unfold skipSpaces
    split
    · rename_i hc
      have := ih (pos + 1) (by omega)
      omega
    · simp [h]

/-- the engine contract of Layer A for one stage: E1 output within the capacity, E2 one map entry per
    cell, E3 consumed length within the input, E4 map entries inside [0, n] -/
def StageOK (n max : Nat) (o : StageOut) : Prop :=
  o.out.length ≤ max ∧ o.map.length = o.out.length ∧ o.realInlen ≤ n ∧ ∀ x ∈ o.map, 0 ≤ x ∧ x ≤ (n : Int)

/-- progress measure of the scanner: two iterations per remaining position at most -/
def mu (n : Nat) (pos : Int) (posInc : Bool) : Nat := 2 * (n - pos.toNat) + (if posInc then 1 else 0)

theorem fwdLoop_ok (t : Table) (pass : Nat) (rules : List Rule) (input : List Nat) (max : Nat) :
    ∀ (fuel : Nat) (pos : Int) (posInc : Bool) (a : Acc) (applied : List Nat),
      0 ≤ pos → pos ≤ input.length → AccOK input.length max a → mu input.length pos posInc < fuel →
      match fwdLoop t pass rules input max fuel pos posInc a applied with
      | .unsupported => True
      | .fuel => False
      | .done o => StageOK input.length max o := by
  intro fuel
  induction fuel with
  | zero => intro pos posInc a applied _ _ _ h; omega
  | succ f ih =>
    intro pos posInc a applied hp0 hpn ha hmu
    unfold fwdLoop
    by_cases hend : pos ≥ input.length
    · simp only [hend, if_true]
      obtain ⟨a1, a2, a3⟩ := ha
      refine ⟨a2, a1, ?_, a3⟩
      show pos.toNat ≤ input.length
      omega
    · simp only [hend, if_false]
      have hri : (if (pass == 0) = true then pos.toNat else skipSpaces t input input.length pos.toNat) ≤ input.length := by
        split
        · omega
        · exact (skipSpaces_le t input _ _ (by omega)).1
      have hfin : ∀ (a' : Acc) (ri : Nat), AccOK input.length max a' → ri ≤ input.length →
          StageOK input.length max ⟨a'.out, a'.map, ri, applied⟩ := by
        intro a' ri ⟨b1, b2, b3⟩ hr
        exact ⟨b2, b1, hr, b3⟩
      cases hsel : (if posInc = true then select false pass rules input pos else Sel.none) with
      | unsupported => simp
      | none =>
        simp only []
        by_cases hcap : a.out.length + 1 > max
        · simp only [hcap, if_true]; exact hfin a _ ha hri
        · simp only [hcap, if_false]
          obtain ⟨a1, a2, a3⟩ := ha
          apply ih (pos + 1) true _ applied (by omega) (by omega)
          · refine ⟨by simp [a1], by simp; omega, ?_⟩
            intro x hx
            rcases List.mem_append.mp hx with hx | hx
            · exact a3 x hx
            · simp at hx; omega
          · unfold mu at *
            have : (pos + 1).toNat = pos.toNat + 1 := by omega
            have : pos.toNat < input.length := by omega
            cases posInc <;> simp at hmu ⊢ <;> omega
      | rule r m ic =>
        simp only []
        have hpi : posInc = true := by
          cases posInc
          · simp at hsel
          · rfl
        subst hpi
        simp only [if_true] at hsel
        obtain ⟨pre, post, -, -, htest, -⟩ := select_first false pass rules input pos r m ic hsel
        have hm : MatchOK input.length pos m := by
          simp only [testOf, Bool.false_eq_true, if_false] at htest
          exact fwdTest_bounds r.dots input pos _ m ic htest
        have hact := fwdAction_ok r.dots input m ic max a pos hm hp0 ha
        cases hres : fwdAction r.dots input m ic max a with
        | unsupported => simp
        | fail a' =>
          rw [hres] at hact
          exact hfin a' _ hact hri
        | ok a' np =>
          rw [hres] at hact
          obtain ⟨hacc, hnp⟩ := hact
          obtain ⟨hm0, hm1, hm2, hm3, hm4, hm5⟩ := hm
          simp only []
          have hnp0 : pos ≤ np ∧ np ≤ input.length := by
            rcases hnp with rfl | rfl <;> omega
          apply ih np (np != pos) a' _ (by omega) hnp0.2 hacc
          unfold mu at *
          simp only [if_true] at hmu
          by_cases heq : np = pos
          · subst heq; simp; omega
          · have : (np != pos) = true := by simpa using heq
            rw [this]
            have : np.toNat > pos.toNat := by omega
            have : np.toNat ≤ input.length := by omega
            simp only [if_true]; omega

/-- **fwdStage_contract / fwdStage_total**: for every table, stage, input and capacity the forward stage
    scanner never hits its iteration bound 2n+2 and its result satisfies the engine contract E1–E4 -/
theorem fwdStage_contract (t : Table) (pass : Nat) (input : List Nat) (max : Nat) :
    match fwdStage t pass input max with
    | .unsupported => True
    | .fuel => False
    | .done o => StageOK input.length max o := by
  unfold fwdStage
  apply fwdLoop_ok
  · omega
  · omega
  · exact ⟨rfl, Nat.zero_le _, by simp⟩
  · unfold mu; simp

theorem fwdStage_total (t : Table) (pass : Nat) (input : List Nat) (max : Nat) :
    fwdStage t pass input max ≠ .fuel := by
  have := fwdStage_contract t pass input max
  intro h; rw [h] at this; exact this

/-! ### the hypotheses are satisfiable: `noback pass2 @1[@2] @3` on the cells 1 2 1 -/

def exProg : List Nat := [pass_dots, 1, 1, pass_startReplace, pass_dots, 1, 2, pass_endReplace, pass_endTest, pass_dots, 1, 3]
def exRule : Rule := { idx := 5, opcode := CTO_Pass2, chars := [1], dots := exProg }
def exDots : List DotsRec := [⟨1, CTC_Letter, none, []⟩, ⟨2, CTC_Letter, none, []⟩, ⟨3, CTC_Letter, none, []⟩]
def exTable : Table := { numPasses := 2, rules := [exRule], forPass := [(2, [5])], dots := exDots }

example : fwdStage exTable 2 [1, 2, 1] 10 = .done ⟨[1, 3, 1], [0, 1, 2], 3, [5]⟩ := by decide
example : select false 2 [exRule] [1, 2, 1] 0 = .rule exRule ⟨0, 1, 2, 2⟩ 9 := by decide
example : plainAction exProg (exProg.length + 1) 9 = true ∧ emitted exProg (exProg.length + 1) 9 = [3] := by decide
example : keyOf exRule = some exRule.chars ∧ chainSorted [exRule] = true ∧ passTableOK exTable = [] := by decide
/-- capacity 1: the stage stops in front of the rule it cannot complete, keeping the copied prefix -/
example : fwdStage exTable 2 [1, 2, 1] 1 = .done ⟨[1], [0], 0, []⟩ := by decide

end Lou.C06Pass
