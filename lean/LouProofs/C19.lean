/-
  C19 — log filtering only filters.

  Property text (fixed):
    "A registered log callback receives a message if and only if its level is at or
     above the threshold set with lou_setLogLevel (default INFO, OFF suppresses
     everything); raising the threshold never changes the text, level or relative order
     of the messages still delivered.  Passing NULL restores the default sink, and
     caller-supplied text (table names, rule text containing '%') appears verbatim
     rather than being interpreted as a format."

  Two kinds of theorems:

  * about the logger state machine `Lou.Log` (LouModel/Log.lean, a transcription of
    logging.c), for ALL operation sequences, states, levels and texts;
  * about the source inventory `Lou.Gen.LogSites`, regenerated from /repo on every run
    by tools/lv/extract_log.py, closed by `decide`: the threshold variable is read in
    one place and written in one place, every logging call has a literal format, the
    default sink passes the message as a "%s" argument.  These are what make the
    model's `emit level text` — a message whose level and text do not depend on the
    logger — an adequate picture of every call site in the library.

  Hypotheses forced by the code, visible in the statements:
    * "OFF suppresses everything" holds for messages of level below LOU_LOG_OFF; a
      message AT level 60000 would pass the test `level < logLevel`
      (`off_passes_level_off`).  No call site of the library uses such a level
      (`call_levels_below_off`).
    * the sink of the default callback is a file or stderr depending on lou_logFile;
      `lou_logFile` while the stream is stderr is outside the model (the C code closes
      stderr there).
-/
import LouModel.Log
import LouModel.Gen.LogSites

namespace Lou.C19
open Lou Lou.Log

variable (co : String → Bool)

/-! ### one message -/

theorem step_emit (st : State) (l : Nat) (t : String) :
    step co st (.emit l t) =
      if l < st.threshold then (st, [])
      else if st.userCb = true then (st, [{ sink := .callback, level := l, text := t }])
      else ((openSink co st).1, [{ sink := (openSink co st).2, level := l, text := t }]) := rfl

/-- an `emit` delivers nothing or exactly that message, unchanged -/
theorem emit_events (st : State) (l : Nat) (t : String) :
    (step co st (.emit l t)).2 = [] ∨
    ∃ s, (step co st (.emit l t)).2 = [{ sink := s, level := l, text := t }] := by
  simp only [step_emit]
  by_cases h : l < st.threshold
  · left; rw [if_pos h]
  · right
    rw [if_neg h]
    by_cases hc : st.userCb = true
    · rw [if_pos hc]; exact ⟨_, rfl⟩
    · rw [if_neg hc]; exact ⟨_, rfl⟩

/-- **delivered_iff.**  With a callback registered, the callback receives the message —
    with exactly the level and text of the call — if and only if the level is at or
    above the threshold; below it nothing at all is delivered, to any sink. -/
theorem delivered_iff (st : State) (l : Nat) (t : String) (hcb : st.userCb = true) :
    ((step co st (.emit l t)).2 = [{ sink := .callback, level := l, text := t }] ↔ st.threshold ≤ l) ∧
    ((step co st (.emit l t)).2 = [] ↔ l < st.threshold) := by
  simp only [step_emit]
  by_cases h : l < st.threshold
  · rw [if_pos h]
    constructor
    · constructor
      · intro h'; cases h'
      · intro h'; omega
    · simp [h]
  · rw [if_neg h, if_pos hcb]
    constructor
    · simp; omega
    · simp [h]

/-- a message never changes the threshold or the registration -/
theorem emit_keeps_control (st : State) (l : Nat) (t : String) :
    (step co st (.emit l t)).1.threshold = st.threshold ∧ (step co st (.emit l t)).1.userCb = st.userCb := by
  simp only [step_emit]
  by_cases h : l < st.threshold
  · rw [if_pos h]; exact ⟨rfl, rfl⟩
  · rw [if_neg h]
    by_cases hc : st.userCb = true
    · rw [if_pos hc]; exact ⟨rfl, rfl⟩
    · rw [if_neg hc]
      unfold openSink
      cases st.logFile with
      | closed => by_cases ho : co st.initialName = true <;> simp [ho]
      | file n => exact ⟨rfl, rfl⟩
      | stderr => exact ⟨rfl, rfl⟩

/-- **default_is_info** (model side): at program start the threshold is LOU_LOG_INFO
    and the default sink is installed -/
theorem default_is_info : State.init.threshold = LOG_INFO ∧ State.init.userCb = false := ⟨rfl, rfl⟩

/-- so, with nothing configured, INFO and above is delivered and DEBUG / ALL is not -/
theorem default_threshold_behaviour (l : Nat) (t : String) :
    ((step co { State.init with userCb := true } (.emit l t)).2 ≠ [] ↔ LOG_INFO ≤ l) := by
  have h := (delivered_iff co { State.init with userCb := true } l t rfl).2
  constructor
  · intro hne
    have : ¬ l < LOG_INFO := fun hl => hne (h.mpr hl)
    omega
  · intro hl hempty
    have : l < LOG_INFO := h.mp hempty
    omega

/-! ### scripts -/

def NoSetLevel (ops : List Op) : Prop := ∀ op ∈ ops, ∀ l, op ≠ Op.setLevel l

/-- all messages of the script are below level `b` -/
def EmitsBelow (b : Nat) (ops : List Op) : Prop := ∀ l t, Op.emit l t ∈ ops → l < b

theorem run_threshold_const (st : State) (ops : List Op) (h : NoSetLevel ops) :
    (run co st ops).1.threshold = st.threshold := by
  induction ops generalizing st with
  | nil => rfl
  | cons op ops ih =>
    unfold run
    simp only
    rw [ih _ (fun o ho => h o (List.mem_cons_of_mem _ ho))]
    cases op with
    | setLevel l => exact absurd rfl (h _ List.mem_cons_self l)
    | register b => rfl
    | emit l t => exact (emit_keeps_control co st l t).1
    | logFile n => simp only [step, doLogFile]; split <;> (try rfl); split <;> (try rfl); split <;> (try split) <;> (try split) <;> rfl
    | logEnd => rfl

/-- **off_delivers_nothing.**  With the threshold at LOU_LOG_OFF (and not changed by
    the script) nothing is delivered to any sink, whatever is registered, for every
    script whose messages have levels below LOU_LOG_OFF. -/
theorem off_delivers_nothing (st : State) (ops : List Op) (hoff : st.threshold = LOG_OFF)
    (hn : NoSetLevel ops) (hb : EmitsBelow LOG_OFF ops) :
    delivered co st ops = [] := by
  unfold delivered
  induction ops generalizing st with
  | nil => rfl
  | cons op ops ih =>
    have hthr : (step co st op).1.threshold = LOG_OFF := by
      have := run_threshold_const co st [op] (fun o ho l => by
        simp only [List.mem_singleton] at ho; subst ho; exact hn _ List.mem_cons_self l)
      simp only [run] at this
      rw [this, hoff]
    have hrest := ih (step co st op).1 hthr (fun o ho => hn o (List.mem_cons_of_mem _ ho))
      (fun l t hm => hb l t (List.mem_cons_of_mem _ hm))
    unfold run
    simp only
    rw [hrest, List.append_nil]
    cases op with
    | emit l t =>
      have hl := hb l t List.mem_cons_self
      simp only [step_emit]
      rw [if_pos (by rw [hoff]; exact hl)]
    | setLevel l => rfl
    | register b => rfl
    | logFile n => rfl
    | logEnd => rfl

/-- the hypothesis on the levels is needed: the test is `level < logLevel` -/
theorem off_passes_level_off (t : String) :
    (step co { State.init with threshold := LOG_OFF, userCb := true } (.emit LOG_OFF t)).2 =
      [{ sink := .callback, level := LOG_OFF, text := t }] := by
  simp [step]

/-! ### null_restores -/

/-- where the default sink writes, as a function of the two statics -/
def destOf (lf : LogFile) (init : String) : Sink :=
  match lf with
  | .file n => .file n
  | .stderr => .stderr
  | .closed => if co init = true then .file init else .stderr

theorem dest_eq (st : State) : dest co st = destOf co st.logFile st.initialName := by
  unfold dest openSink destOf
  cases st.logFile with
  | closed => by_cases ho : co st.initialName = true <;> simp [ho]
  | file n => rfl
  | stderr => rfl

theorem openSink_fields (st : State) :
    (openSink co st).1.threshold = st.threshold ∧ (openSink co st).1.userCb = st.userCb ∧
    (openSink co st).1.initialName = st.initialName := by
  unfold openSink
  cases st.logFile with
  | closed => by_cases ho : co st.initialName = true <;> simp [ho]
  | file n => exact ⟨rfl, rfl, rfl⟩
  | stderr => exact ⟨rfl, rfl, rfl⟩

/-- the stream choice of `lou_logPrint` is idempotent: writing does not change where
    the next message goes -/
theorem dest_openSink (st : State) : dest co (openSink co st).1 = dest co st := by
  rw [dest_eq, dest_eq, (openSink_fields co st).2.2]
  unfold openSink destOf
  cases h : st.logFile with
  | closed => by_cases ho : co st.initialName = true <;> simp [ho]
  | file n => simp [h]
  | stderr => simp [h]

theorem openSink_snd (st : State) : (openSink co st).2 = dest co st := rfl

/-- the sink a delivered message reaches -/
def sinkOf (st : State) : Sink := if st.userCb = true then .callback else dest co st

theorem emit_events_eq (st : State) (l : Nat) (t : String) :
    (step co st (.emit l t)).2 =
      if l < st.threshold then [] else [{ sink := sinkOf co st, level := l, text := t }] := by
  rw [step_emit]
  unfold sinkOf
  by_cases h : l < st.threshold
  · rw [if_pos h, if_pos h]
  · rw [if_neg h, if_neg h]
    by_cases hc : st.userCb = true
    · rw [if_pos hc, if_pos hc]
    · rw [if_neg hc, if_neg hc]; rfl

theorem emit_state (st : State) (l : Nat) (t : String) :
    (step co st (.emit l t)).1 = st ∨ (step co st (.emit l t)).1 = (openSink co st).1 := by
  rw [step_emit]
  by_cases h : l < st.threshold
  · rw [if_pos h]; exact Or.inl rfl
  · rw [if_neg h]
    by_cases hc : st.userCb = true
    · rw [if_pos hc]; exact Or.inl rfl
    · rw [if_neg hc]; exact Or.inr rfl

theorem dest_ne_callback (st : State) : dest co st ≠ Sink.callback := by
  rw [dest_eq]
  unfold destOf
  cases st.logFile with
  | closed => by_cases ho : co st.initialName = true <;> simp [ho]
  | file n => simp
  | stderr => simp

/-- **null_restores.**  After `lou_registerLogCallback(NULL)` no message reaches a
    callback: a message at or above the threshold goes to the default sink (the log
    file chosen with lou_logFile, else stderr), with its text unchanged; the threshold
    is untouched.  Registering NULL in the initial state is the identity. -/
theorem null_restores (st : State) (l : Nat) (t : String) :
    (step co st (.register false)).1.threshold = st.threshold ∧
    (step co (step co st (.register false)).1 (.emit l t)).2 =
      (if l < st.threshold then [] else [{ sink := dest co st, level := l, text := t }]) ∧
    (∀ e ∈ (step co (step co st (.register false)).1 (.emit l t)).2, e.sink ≠ Sink.callback) := by
  have hst : (step co st (.register false)).1 = { st with userCb := false } := rfl
  have hd : dest co { st with userCb := false } = dest co st := by rw [dest_eq, dest_eq]
  have hs : sinkOf co { st with userCb := false } = dest co st := by
    unfold sinkOf; simp [hd]
  rw [hst, emit_events_eq, hs]
  refine ⟨rfl, rfl, ?_⟩
  intro e he
  by_cases h : l < st.threshold
  · simp [h] at he
  · simp only [h, if_false, List.mem_singleton] at he
    subst he
    exact dest_ne_callback co st

theorem null_in_initial_state_is_identity : (step co State.init (.register false)).1 = State.init := rfl

/-- and a later registration takes over again -/
theorem register_takes_over (st : State) (l : Nat) (t : String) (h : st.threshold ≤ l) :
    (step co (step co st (.register true)).1 (.emit l t)).2 = [{ sink := .callback, level := l, text := t }] := by
  have hst : (step co st (.register true)).1 = { st with userCb := true } := rfl
  rw [hst, emit_events_eq, if_neg (by simp only; omega)]
  simp [sinkOf]

/-! ### filter_monotone -/

/-- two logger states that differ at most in the threshold and in whether the default
    sink's stream has been opened yet -/
def Sim (s₁ s₂ : State) : Prop :=
  s₁.userCb = s₂.userCb ∧ s₁.initialName = s₂.initialName ∧ dest co s₁ = dest co s₂

/-- the same operation, except that a `setLevel` may carry a higher value on the right -/
def OpRaised : Op → Op → Prop
  | .setLevel l₁, .setLevel l₂ => l₁ ≤ l₂
  | a, b => a = b

theorem dest_of_logFile_eq (s₁ s₂ : State) (h : s₁.logFile = s₂.logFile) (hi : s₁.initialName = s₂.initialName) :
    dest co s₁ = dest co s₂ := by
  rw [dest_eq, dest_eq, h, hi]

theorem sim_openSink_left (s₁ s₂ : State) (h : Sim co s₁ s₂) : Sim co (openSink co s₁).1 s₂ := by
  obtain ⟨hc, hi, hd⟩ := h
  have f := openSink_fields co s₁
  exact ⟨by rw [f.2.1, hc], by rw [f.2.2, hi], by rw [dest_openSink, hd]⟩

theorem sim_openSink_right (s₁ s₂ : State) (h : Sim co s₁ s₂) : Sim co s₁ (openSink co s₂).1 := by
  obtain ⟨hc, hi, hd⟩ := h
  have f := openSink_fields co s₂
  exact ⟨by rw [f.2.1, hc], by rw [f.2.2, hi], by rw [dest_openSink, hd]⟩

theorem doLogFile_fields (s : State) (n : Option String) :
    (doLogFile co s n).threshold = s.threshold ∧ (doLogFile co s n).userCb = s.userCb := by
  unfold doLogFile
  cases n with
  | none => exact ⟨rfl, rfl⟩
  | some n =>
    simp only
    by_cases hbad : n = "" ∨ n.utf8ByteSize ≥ FILENAMESIZE
    · rw [if_pos hbad]; exact ⟨rfl, rfl⟩
    · rw [if_neg hbad]
      by_cases he : s.initialName = "" <;> by_cases h1 : co n = true <;>
        by_cases h2 : co s.initialName = true <;> simp [he, h1, h2] <;> (try split) <;> simp

/-- the stream after `lou_logFile` does not depend on the stream before it -/
theorem doLogFile_stream (s₁ s₂ : State) (n : Option String) (hi : s₁.initialName = s₂.initialName) :
    (doLogFile co s₁ n).logFile = (doLogFile co s₂ n).logFile ∧
    (doLogFile co s₁ n).initialName = (doLogFile co s₂ n).initialName := by
  unfold doLogFile
  cases n with
  | none => exact ⟨rfl, hi⟩
  | some n =>
    simp only
    by_cases hbad : n = "" ∨ n.utf8ByteSize ≥ FILENAMESIZE
    · rw [if_pos hbad, if_pos hbad]; exact ⟨rfl, hi⟩
    · rw [if_neg hbad, if_neg hbad, ← hi]
      by_cases he : s₁.initialName = ""
      · by_cases h1 : co n = true <;> simp [he, h1]
      · by_cases h1 : co n = true
        · simp [he, h1]
        · by_cases h2 : co s₁.initialName = true <;> simp [he, h1, h2]

theorem doLogFile_sim (s₁ s₂ : State) (n : Option String) (h : Sim co s₁ s₂) :
    Sim co (doLogFile co s₁ n) (doLogFile co s₂ n) := by
  obtain ⟨hc, hi, _⟩ := h
  have k := doLogFile_stream co s₁ s₂ n hi
  exact ⟨by rw [(doLogFile_fields co s₁ n).2, (doLogFile_fields co s₂ n).2, hc], k.2,
    dest_of_logFile_eq co _ _ k.1 k.2⟩

/-- the simulation step: related states, related operations ⇒ related states again, and
    what the higher-threshold run delivers is what the lower one delivers, filtered -/
theorem step_sim (s₁ s₂ : State) (a b : Op) (hs : Sim co s₁ s₂) (ht : s₁.threshold ≤ s₂.threshold)
    (hab : OpRaised a b) :
    Sim co (step co s₁ a).1 (step co s₂ b).1 ∧
    (step co s₁ a).1.threshold ≤ (step co s₂ b).1.threshold ∧
    (step co s₂ b).2 = (step co s₁ a).2.filter (fun e => s₂.threshold ≤ e.level) := by
  have hs0 := hs
  obtain ⟨hc, hi, hd⟩ := hs
  cases a with
  | setLevel l₁ =>
    cases b with
    | setLevel l₂ =>
      refine ⟨⟨hc, hi, ?_⟩, hab, rfl⟩
      show dest co { s₁ with threshold := l₁ } = dest co { s₂ with threshold := l₂ }
      rw [dest_eq, dest_eq]; rw [dest_eq, dest_eq] at hd; exact hd
    | register _ => cases hab
    | emit _ _ => cases hab
    | logFile _ => cases hab
    | logEnd => cases hab
  | register x =>
    have : b = .register x := by cases b <;> simp_all [OpRaised]
    subst this
    refine ⟨⟨rfl, hi, ?_⟩, ht, rfl⟩
    show dest co { s₁ with userCb := x } = dest co { s₂ with userCb := x }
    rw [dest_eq, dest_eq]; rw [dest_eq, dest_eq] at hd; exact hd
  | logEnd =>
    have : b = .logEnd := by cases b <;> simp_all [OpRaised]
    subst this
    exact ⟨⟨hc, hi, dest_of_logFile_eq co _ _ rfl hi⟩, ht, rfl⟩
  | logFile n =>
    have : b = .logFile n := by cases b <;> simp_all [OpRaised]
    subst this
    refine ⟨doLogFile_sim co s₁ s₂ n hs0, ?_, rfl⟩
    show (doLogFile co s₁ n).threshold ≤ (doLogFile co s₂ n).threshold
    rw [(doLogFile_fields co s₁ n).1, (doLogFile_fields co s₂ n).1]; exact ht
  | emit l t =>
    have : b = .emit l t := by cases b <;> simp_all [OpRaised]
    subst this
    have k1 := emit_keeps_control co s₁ l t
    have k2 := emit_keeps_control co s₂ l t
    refine ⟨?_, by rw [k1.1, k2.1]; exact ht, ?_⟩
    · rcases emit_state co s₁ l t with e1 | e1 <;> rcases emit_state co s₂ l t with e2 | e2 <;> rw [e1, e2]
      · exact hs0
      · exact sim_openSink_right co _ _ hs0
      · exact sim_openSink_left co _ _ hs0
      · exact sim_openSink_left co _ _ (sim_openSink_right co _ _ hs0)
    · have hsink : sinkOf co s₂ = sinkOf co s₁ := by unfold sinkOf; rw [hc, hd]
      rw [emit_events_eq, emit_events_eq, hsink]
      by_cases h1 : l < s₁.threshold
      · have h2 : l < s₂.threshold := by omega
        rw [if_pos h1, if_pos h2]; rfl
      · rw [if_neg h1]
        by_cases h2 : l < s₂.threshold
        · rw [if_pos h2]
          simp only [List.filter_cons, List.filter_nil]
          rw [if_neg (by simp only [decide_eq_true_eq]; omega)]
        · rw [if_neg h2]
          simp only [List.filter_cons, List.filter_nil]
          rw [if_pos (by simp only [decide_eq_true_eq]; omega)]

/-- **filter_monotone.**  Run the SAME script (any operations except lou_setLogLevel,
    which is what is being varied) from two states that differ only in the threshold,
    t₁ ≤ t₂.  What is delivered at t₂ — to the callback and to the default sink — is
    exactly what is delivered at t₁ with the messages below t₂ removed: same sinks,
    same levels, same texts, same order. -/
theorem filter_monotone (st : State) (t₁ t₂ : Nat) (ops : List Op) (h : t₁ ≤ t₂) (hn : NoSetLevel ops) :
    delivered co { st with threshold := t₂ } ops =
      (delivered co { st with threshold := t₁ } ops).filter (fun e => t₂ ≤ e.level) := by
  suffices H : ∀ (s₁ s₂ : State), Sim co s₁ s₂ → s₁.threshold ≤ s₂.threshold → s₂.threshold = t₂ →
      delivered co s₂ ops = (delivered co s₁ ops).filter (fun e => t₂ ≤ e.level) from
    H _ _ ⟨rfl, rfl, dest_of_logFile_eq co _ _ rfl rfl⟩ h rfl
  induction ops with
  | nil => intros; rfl
  | cons op ops ih =>
    intro s₁ s₂ hs ht h2
    have hop : OpRaised op op := by cases op <;> simp [OpRaised]
    obtain ⟨hs', ht', hev⟩ := step_sim co s₁ s₂ op op hs ht hop
    have hthr : (step co s₂ op).1.threshold = t₂ := by
      have := run_threshold_const co s₂ [op] (fun o ho l => by
        simp only [List.mem_singleton] at ho; subst ho; exact hn _ List.mem_cons_self l)
      simp only [run] at this
      rw [this, h2]
    have := ih (fun o ho => hn o (List.mem_cons_of_mem _ ho)) _ _ hs' ht' hthr
    unfold delivered at *
    unfold run
    simp only
    rw [this, hev, h2, List.filter_append]

/-- the same for the property's own words: the callback stream -/
def callbackStream (evs : List Event) : List (Nat × String) :=
  (evs.filter (fun e => e.sink == Sink.callback)).map (fun e => (e.level, e.text))

theorem filter_monotone_callback (st : State) (t₁ t₂ : Nat) (ops : List Op) (h : t₁ ≤ t₂) (hn : NoSetLevel ops) :
    callbackStream (delivered co { st with threshold := t₂ } ops) =
      (callbackStream (delivered co { st with threshold := t₁ } ops)).filter (fun m => t₂ ≤ m.1) := by
  rw [filter_monotone co st t₁ t₂ ops h hn]
  unfold callbackStream
  generalize delivered co { st with threshold := t₁ } ops = evs
  induction evs with
  | nil => rfl
  | cons e es ih =>
    by_cases h1 : t₂ ≤ e.level <;> by_cases h2 : (e.sink == Sink.callback) = true <;>
      simp only [List.filter_cons, h1, h2, decide_true, decide_false, if_true, if_false, List.map_cons,
        Bool.false_eq_true, ih]

/-- two scripts that differ only in the values given to lou_setLogLevel, each value on
    the right at least the corresponding one on the left -/
inductive ScriptRaised : List Op → List Op → Prop
  | nil : ScriptRaised [] []
  | cons {a b : Op} {as bs : List Op} : OpRaised a b → ScriptRaised as bs → ScriptRaised (a :: as) (b :: bs)

/-- **raise_sublist.**  In general — thresholds changed at will inside the script,
    each `lou_setLogLevel` value on the right at least the one on the left — the run with
    the higher thresholds delivers a SUBLIST of what the other delivers: no message is
    altered, added or reordered. -/
theorem raise_sublist (ops₁ ops₂ : List Op) (hops : ScriptRaised ops₁ ops₂)
    (s₁ s₂ : State) (hs : Sim co s₁ s₂) (ht : s₁.threshold ≤ s₂.threshold) :
    (delivered co s₂ ops₂).Sublist (delivered co s₁ ops₁) := by
  induction hops generalizing s₁ s₂ with
  | nil => exact List.Sublist.refl _
  | cons hab _ ih =>
    obtain ⟨hs', ht', hev⟩ := step_sim co s₁ s₂ _ _ hs ht hab
    unfold delivered at *
    unfold run
    simp only
    rw [hev]
    exact List.Sublist.append List.filter_sublist (ih _ _ hs' ht')

/-! ### the source inventory (regenerated from /repo on every run) -/

open Lou.Gen.LogSites in
/-- **default_is_info** (source side): the seven constants of liblouis.h are the model's,
    and `logLevel` is initialised at file scope to LOU_LOG_INFO -/
theorem levels_match :
    levels = [("LOU_LOG_ALL", LOG_ALL), ("LOU_LOG_DEBUG", LOG_DEBUG), ("LOU_LOG_INFO", LOG_INFO),
      ("LOU_LOG_WARN", LOG_WARN), ("LOU_LOG_ERROR", LOG_ERROR), ("LOU_LOG_FATAL", LOG_FATAL),
      ("LOU_LOG_OFF", LOG_OFF)] ∧
    (varRefs.filter (fun r => r.var == "logLevel" && r.kind == .init)).map (fun r => (r.file, r.func, r.init)) =
      [("logging.c", "<file-scope>", "LOU_LOG_INFO")] := by decide

open Lou.Gen.LogSites in
/-- **loglevel_sites.**  In all of liblouis/*.c the variable `logLevel` is READ only in
    `_lou_logMessage` and WRITTEN only in `lou_setLogLevel` (both in logging.c): no
    other code can make what it does, or what it logs, depend on the threshold. -/
theorem logLevel_read_only_in_logMessage :
    (varRefs.filter (fun r => r.var == "logLevel")).all (fun r =>
      r.file == "logging.c" &&
      (match r.kind with
       | .read => r.func == "_lou_logMessage"
       | .write => r.func == "lou_setLogLevel"
       | .init => r.func == "<file-scope>")) = true ∧
    (varRefs.filter (fun r => r.var == "logLevel" && r.kind == .read)).length = 1 := by decide

open Lou.Gen.LogSites in
/-- the same for the callback pointer: written only by `lou_registerLogCallback`,
    used only by `_lou_logMessage`, initialised to the default sink -/
theorem callback_sites :
    (varRefs.filter (fun r => r.var == "logCallbackFunction")).all (fun r =>
      r.file == "logging.c" &&
      (match r.kind with
       | .read => r.func == "_lou_logMessage"
       | .write => r.func == "lou_registerLogCallback"
       | .init => r.func == "<file-scope>" && r.init == "defaultLogCallback")) = true := by decide

open Lou.Gen.LogSites in
/-- **format_sites.**  Every call of `_lou_logMessage`, `lou_logPrint`, `compileError`
    and `compileWarning` in the library passes a STRING LITERAL as its format; caller
    text can therefore only ever be an argument.  (`_lou_logWidecharBuf`'s second
    argument is copied byte by byte and then passed as the argument of a "%s".) -/
theorem formats_are_literals :
    callSites.all (fun c => c.fmt != FmtClass.nonLiteral) = true := by decide

open Lou.Gen.LogSites in
/-- the default sink hands the message to `lou_logPrint` as the argument of "%s"; it is
    the only caller of `lou_logPrint` in the library; and the four variadic functions
    are the only ones, so no other wrapper forwards a format -/
theorem default_sink_passes_message_as_argument :
    (callSites.filter (fun c => c.callee == "lou_logPrint")).map (fun c => (c.file, c.func, c.fmt, c.nargs)) =
      [("logging.c", "defaultLogCallback", FmtClass.pctS, 2)] ∧
    variadic = [("compileTranslationTable.c", "compileError"), ("compileTranslationTable.c", "compileWarning"),
      ("logging.c", "_lou_logMessage"), ("logging.c", "lou_logPrint")] ∧
    (callSites.filter (fun c => c.func == "compileError" || c.func == "compileWarning" ||
        c.func == "_lou_logWidecharBuf")).all (fun c => c.callee == "_lou_logMessage" && c.fmt != .nonLiteral) = true := by
  decide

open Lou.Gen.LogSites in
/-- every level written at a call site is one of the six constants below LOU_LOG_OFF
    (or the pass-through parameter `level` of `_lou_logWidecharBuf`, whose callers are in
    this list too): the library never emits at or above OFF -/
theorem call_levels_below_off :
    callSites.all (fun c =>
      c.level ∈ ["-", "LOU_LOG_ALL", "LOU_LOG_DEBUG", "LOU_LOG_INFO", "LOU_LOG_WARN", "LOU_LOG_ERROR", "LOU_LOG_FATAL"] ||
      (c.level == "level" && c.func == "_lou_logWidecharBuf")) = true := by decide

/-! ### non-vacuity -/

def demo : List Op :=
  [.emit LOG_DEBUG "d", .emit LOG_ERROR "e %s", .register false, .logFile (some "f"), .emit LOG_WARN "w",
   .logEnd, .emit LOG_INFO "i", .register true, .emit LOG_FATAL "x"]

example : NoSetLevel demo := by
  intro op hop l
  simp only [demo, List.mem_cons, List.not_mem_nil, or_false] at hop
  rcases hop with h | h | h | h | h | h | h | h | h <;> rw [h] <;> simp

example : delivered (fun n => n != "") { State.init with userCb := true, threshold := LOG_ALL } demo =
    [⟨.callback, LOG_DEBUG, "d"⟩, ⟨.callback, LOG_ERROR, "e %s"⟩, ⟨.file "f", LOG_WARN, "w"⟩,
     ⟨.file "f", LOG_INFO, "i"⟩, ⟨.callback, LOG_FATAL, "x"⟩] := by decide

example : delivered (fun n => n != "") { State.init with userCb := true, threshold := LOG_WARN } demo =
    [⟨.callback, LOG_ERROR, "e %s"⟩, ⟨.file "f", LOG_WARN, "w"⟩, ⟨.callback, LOG_FATAL, "x"⟩] := by decide

example : ScriptRaised [.setLevel LOG_DEBUG, .emit LOG_INFO "a", .setLevel LOG_ALL] [.setLevel LOG_WARN, .emit LOG_INFO "a", .setLevel LOG_ALL] :=
  .cons (by show LOG_DEBUG ≤ LOG_WARN; decide) (.cons rfl (.cons (by show LOG_ALL ≤ LOG_ALL; decide) .nil))

/-- after lou_logEnd the default sink re-opens the FIRST name ever given, not the last -/
example : delivered (fun n => n != "") State.init
    [.logFile (some "a"), .logFile (some "b"), .emit LOG_ERROR "1", .logEnd, .emit LOG_ERROR "2"] =
    [⟨.file "b", LOG_ERROR, "1"⟩, ⟨.file "a", LOG_ERROR, "2"⟩] := by decide

end Lou.C19
