/-
  C09 — the modelled engines do not look at the encoding bits (`ModeBlind`), part 1: the F0 forward main pass.

  `Fwd.translate t (mode ||| encBits) = Fwd.translate t mode`: the mode reaches two tests only
  (`noUndefined` in undefinedCharacter, `noContractions` in the rule conditions), neither an encoding bit.
-/
import LouModel.Forward
import LouProofs.C09

namespace Lou.C09
open Lou Lou.Gen Lou.Fwd

theorem hasBit_enc (m k : Nat) (hk : encBits &&& k = 0) : hasBit (m ||| encBits) k = hasBit m k := by
  unfold hasBit
  rw [Nat.and_or_distrib_right, hk, Nat.or_zero]

theorem hasBit_enc_noUndefined (m : Nat) : hasBit (m ||| encBits) mNoUndefined = hasBit m mNoUndefined :=
  hasBit_enc m _ (by decide)
theorem hasBit_enc_noContractions (m : Nat) : hasBit (m ||| encBits) mNoContractions = hasBit m mNoContractions :=
  hasBit_enc m _ (by decide)
theorem hasBit_enc_partialTrans (m : Nat) : hasBit (m ||| encBits) mPartialTrans = hasBit m mPartialTrans :=
  hasBit_enc m _ (by decide)

theorem undefinedCharacter_enc (t : Table) (m c pos : Nat) (input : List Nat) (maxlen : Nat) (o : Out) :
    undefinedCharacter t (m ||| encBits) c pos input maxlen o = undefinedCharacter t m c pos input maxlen o := by
  unfold undefinedCharacter
  simp only [hasBit_enc_noUndefined]

theorem putCharacter_enc (t : Table) (m c pos : Nat) (input : List Nat) (maxlen : Nat) (o : Out) :
    putCharacter t (m ||| encBits) c pos input maxlen o = putCharacter t m c pos input maxlen o := by
  unfold putCharacter
  simp only [undefinedCharacter_enc]

theorem opcodeAccepts_enc (op m : Nat) (dc : Bool) (before after prevOp : Nat) :
    opcodeAccepts op (m ||| encBits) dc before after prevOp = opcodeAccepts op m dc before after prevOp := by
  unfold opcodeAccepts
  simp only [hasBit_enc_noContractions]

theorem walkChain_enc (t : Table) (m : Nat) (dc : Bool) (input : List Nat) (pos length before prevOp : Nat) (single : Bool)
    (chain : List Nat) :
    walkChain t (m ||| encBits) dc input pos length before prevOp single chain =
      walkChain t m dc input pos length before prevOp single chain := by
  induction chain with
  | nil => rfl
  | cons i rest ih =>
    unfold walkChain
    simp only [opcodeAccepts_enc, ih]

theorem selectRule_enc (t : Table) (m : Nat) (dc : Bool) (input : List Nat) (pos before prevOp : Nat) :
    selectRule t (m ||| encBits) dc input pos before prevOp = selectRule t m dc input pos before prevOp := by
  unfold selectRule
  simp only [walkChain_enc]

theorem emit_each_enc (t : Table) (m : Nat) (input : List Nat) (maxlen : Nat) (k : Nat) : ∀ (p : Nat) (o : Out),
    emit.each t (m ||| encBits) input maxlen k p o = emit.each t m input maxlen k p o := by
  induction k with
  | zero => intro p o; rfl
  | succ k ih =>
    intro p o
    unfold emit.each
    simp only [putCharacter_enc, ih]

theorem emit_enc (t : Table) (m : Nat) (input : List Nat) (maxlen : Nat) (s : Sel) (pos : Nat) (o : Out) :
    emit t (m ||| encBits) input maxlen s pos o = emit t m input maxlen s pos o := by
  unfold emit
  simp only [putCharacter_enc, emit_each_enc]

theorem step_enc (t : Table) (m : Nat) (input : List Nat) (maxlen : Nat) (st : St) :
    step t (m ||| encBits) input maxlen st = step t m input maxlen st := by
  unfold step
  simp only [selectRule_enc, emit_enc]

theorem loop_enc (t : Table) (m : Nat) (input : List Nat) (maxlen : Nat) (fuel : Nat) : ∀ st : St,
    loop t (m ||| encBits) input maxlen fuel st = loop t m input maxlen fuel st := by
  induction fuel with
  | zero => intro st; rfl
  | succ f ih =>
    intro st
    unfold loop
    simp only [step_enc, ih]

/-- **the F0 forward main pass ignores the encoding bits** -/
theorem translate_enc (t : Table) (m : Nat) (input : List Nat) (maxlen : Nat) (cpos cstat : Int) :
    translate t (m ||| encBits) input maxlen cpos cstat = translate t m input maxlen cpos cstat := by
  unfold translate
  simp only [loop_enc]

theorem translate_sameEnc (t : Table) (m m' : Nat) (h : m ||| encBits = m' ||| encBits) (input : List Nat) (maxlen : Nat)
    (cpos cstat : Int) : translate t m input maxlen cpos cstat = translate t m' input maxlen cpos cstat := by
  rw [← translate_enc t m, ← translate_enc t m', h]

end Lou.C09
