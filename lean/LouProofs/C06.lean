/-
  C06 — passes run in the documented order and compose (driver part, all tables).

  * `fwd_stage_order`  : `_lou_translate` runs `correct` (if the table has corrections), then the
                         main pass, then pass 2 … numPasses, each on the previous stage's output
  * `back_stage_order` : `_lou_backTranslate` runs the same stages in exactly the reverse order
  * `fwd_map_compose`  : the final position map is the left fold of the per-stage maps under
                         `composeFwd` (pointwise composition with the code's treatment of −1)
  The per-stage semantics for literal rules (first matching rule in chain order, brackets)
  are Layer B (Pass.lean / C06B.lean).
-/
import LouModel.Driver
import LouProofs.Contract

namespace Lou.C06
open Lou Lou.Drv

/-- the documented order -/
def docOrderFwd (corrections : Bool) (numPasses : Nat) : List Nat :=
  (if corrections then [0] else []) ++ (List.range' 1 numPasses)

theorem fwdPassList_eq_doc (t : TableInfo) (h : 1 ≤ t.numPasses) :
    fwdPassList t = docOrderFwd t.corrections t.numPasses := by
  unfold fwdPassList docOrderFwd
  cases hc : t.corrections with
  | true =>
    simp only [if_true]
    show 0 :: List.range' (0 + 1) (t.numPasses - 0) = [0] ++ List.range' 1 t.numPasses
    simp
  | false =>
    simp only [Bool.false_eq_true, if_false]
    obtain ⟨n, hn⟩ : ∃ n, t.numPasses = n + 1 := ⟨t.numPasses - 1, by omega⟩
    rw [hn]
    simp [List.range'_succ]

/-- MAXPASS = 4 (internal.h; re-checked against the header by Gen/Consts): the reverse order,
    by computation on the eight possible shapes -/
theorem backPassList_eq_rev (c : Bool) (n : Nat) (h1 : 1 ≤ n) (h4 : n ≤ 4) :
    backPassList { corrections := c, numPasses := n } = (docOrderFwd c n).reverse := by
  have : n = 1 ∨ n = 2 ∨ n = 3 ∨ n = 4 := by omega
  rcases this with rfl | rfl | rfl | rfl <;> cases c <;> decide

/-! ### what the driver actually executes -/

theorem fwdStep_hist (e : Engine) (ini : EngInit) (cap : Nat) (s : FwdState) (p : Nat) :
    ((fwdStep e ini cap s p).hist.map (·.1.passNo)) = s.hist.map (·.1.passNo) ++ [p] := by
  unfold fwdStep; simp

theorem foldl_fwd_hist (e : Engine) (ini : EngInit) (cap : Nat) :
    ∀ (ps : List Nat) (s : FwdState),
      ((ps.foldl (fwdStep e ini cap) s).hist.map (·.1.passNo)) = s.hist.map (·.1.passNo) ++ ps := by
  intro ps
  induction ps with
  | nil => intro s; simp
  | cons p ps ih => intro s; simp only [List.foldl_cons]; rw [ih, fwdStep_hist]; simp

/-- **fwd_stage_order**: the passes executed, in order, are exactly `fwdPassList` —
    `correct`, main, pass2, pass3, pass4 as far as the table has them -/
theorem fwd_stage_order (t : TableInfo) (e : Engine) (a : Args) :
    (fwdRun t e a).hist.map (·.1.passNo) = fwdPassList t := by
  unfold fwdRun; rw [foldl_fwd_hist]; simp

theorem fwd_stage_order_doc (t : TableInfo) (e : Engine) (a : Args) (h : 1 ≤ t.numPasses) :
    (fwdRun t e a).hist.map (·.1.passNo) = docOrderFwd t.corrections t.numPasses := by
  rw [fwd_stage_order, fwdPassList_eq_doc t h]

/-- chaining: every stage reads what the previous stage produced; the first reads the caller's
    input cut at the first NUL -/
def Chained (first : List Nat) : List (PassIn × PassOut) → Prop
  | [] => True
  | (pin, po) :: rest => pin.chars = first ∧ Chained po.out rest

theorem chained_append (first : List Nat) (h : List (PassIn × PassOut)) (pin : PassIn) (po : PassOut)
    (hc : Chained first h) (hlast : pin.chars = (match h.getLast? with | some x => x.2.out | none => first)) :
    Chained first (h ++ [(pin, po)]) := by
  induction h generalizing first with
  | nil => simp [Chained] at *; exact hlast
  | cons x xs ih =>
    obtain ⟨pi, po'⟩ := x
    simp only [Chained, List.cons_append] at hc ⊢
    refine ⟨hc.1, ih po'.out hc.2 ?_⟩
    cases xs with
    | nil => simpa using hlast
    | cons y ys =>
      rw [List.getLast?_cons_cons] at hlast
      cases hgl : (y :: ys).getLast? with
      | none => simp at hgl
      | some z => rw [hgl] at hlast; simpa using hlast

structure ChainInv (inp : List Nat) (s : FwdState) : Prop where
  chained : Chained inp s.hist
  input : s.first = true → s.input = inp ∧ s.hist = []
  output : s.first = false → s.hist.getLast?.map (·.2.out) = some s.output

theorem fwdStep_chain (e : Engine) (ini : EngInit) (cap : Nat) (inp : List Nat) (s : FwdState) (p : Nat)
    (hi : ChainInv inp s) : ChainInv inp (fwdStep e ini cap s p) := by
  unfold fwdStep
  refine ⟨?_, ?_, ?_⟩
  · dsimp only
    apply chained_append inp s.hist _ _ hi.chained
    dsimp only
    cases hf : s.first with
    | true =>
      obtain ⟨h1, h2⟩ := hi.input hf
      simp [h1, h2]
    | false =>
      have := hi.output hf
      simp only [Bool.false_eq_true, if_false]
      cases hl : s.hist.getLast? with
      | none => simp [hl] at this
      | some x => simp [hl] at this; simp [this]
  · intro h; simp at h
  · intro _; simp

theorem fwd_stage_chain (t : TableInfo) (e : Engine) (a : Args) :
    Chained (cutAtNul a.inbuf) (fwdRun t e a).hist := by
  unfold fwdRun
  suffices h : ∀ (ps : List Nat) (s : FwdState), ChainInv (cutAtNul a.inbuf) s →
      ChainInv (cutAtNul a.inbuf) (ps.foldl (fwdStep e (initFwd a (cutAtNul a.inbuf)) a.outlen) s) by
    exact (h (fwdPassList t)
      { input := cutAtNul a.inbuf, posMapping := [], output := [], cpos := (fwdCursorInit a).1,
        cstat := (fwdCursorInit a).2, hist := [], first := true }
      ⟨trivial, fun _ => ⟨rfl, rfl⟩, fun h => by simp at h⟩).chained
  intro ps
  induction ps with
  | nil => intro s h; exact h
  | cons p ps ih => intro s h; exact ih _ (fwdStep_chain e _ _ _ s p h)

/-- backward: as long as no pass fails, the passes executed are `backPassList` -/
theorem backStep_hist (e : Engine) (ini : EngInit) (cap : Nat) (s : BackState) (p : Nat)
    (hok : (backStep e ini cap s p).failed = false) :
    ((backStep e ini cap s p).hist.map (·.1.passNo)) = s.hist.map (·.1.passNo) ++ [p] := by
  unfold backStep at hok ⊢
  by_cases hf : s.failed = true
  · simp [hf] at hok
  · simp only [hf, Bool.false_eq_true, if_false] at hok ⊢
    generalize (if s.first = true then s.input else s.output) = input at hok ⊢
    by_cases hp : (!(e ini s.hist { passNo := p, chars := input, maxlen := cap, cpos := s.cpos, cstat := s.cstat }).ok) = true
    · rw [if_pos hp] at hok; simp at hok
    · rw [if_neg hp]
      unfold backStepOk
      split <;> simp

theorem backStep_failed_mono (e : Engine) (ini : EngInit) (cap : Nat) (s : BackState) (p : Nat)
    (h : s.failed = true) : (backStep e ini cap s p).failed = true := by
  unfold backStep; simp [h]

theorem foldl_back_failed (e : Engine) (ini : EngInit) (cap : Nat) :
    ∀ (ps : List Nat) (s : BackState), s.failed = true → (ps.foldl (backStep e ini cap) s).failed = true := by
  intro ps
  induction ps with
  | nil => intro s h; exact h
  | cons p ps ih => intro s h; exact ih _ (backStep_failed_mono e ini cap s p h)

theorem foldl_back_hist (e : Engine) (ini : EngInit) (cap : Nat) :
    ∀ (ps : List Nat) (s : BackState), (ps.foldl (backStep e ini cap) s).failed = false →
      ((ps.foldl (backStep e ini cap) s).hist.map (·.1.passNo)) = s.hist.map (·.1.passNo) ++ ps := by
  intro ps
  induction ps with
  | nil => intro s _; simp
  | cons p ps ih =>
    intro s hok
    simp only [List.foldl_cons] at hok ⊢
    have hstep : (backStep e ini cap s p).failed = false := by
      cases hf : (backStep e ini cap s p).failed with
      | false => rfl
      | true => rw [foldl_back_failed e ini cap ps _ hf] at hok; cases hok
    rw [ih _ hok, backStep_hist e ini cap s p hstep]; simp

/-- **back_stage_order** -/
theorem back_stage_order (t : TableInfo) (dotsFor : Nat → Nat) (e : Engine) (a : Args)
    (hok : (backRun t dotsFor e a).failed = false) :
    (backRun t dotsFor e a).hist.map (·.1.passNo) = backPassList t := by
  unfold backRun at hok ⊢
  rw [foldl_back_hist _ _ _ _ _ hok]; simp

/-! ### composition of the position maps -/

/-- the per-stage maps with their end entries, in execution order -/
def stageMaps (hist : List (PassIn × PassOut)) : List (List Int) :=
  hist.map fun x => x.2.map ++ [(x.2.realInlen : Int)]

/-- left fold of `composeFwd` over the stage maps -/
def composeAll : List (List Int) → List Int
  | [] => []
  | m :: ms => ms.foldl composeFwd m

structure MapInv (s : FwdState) : Prop where
  eq : s.posMapping = composeAll (stageMaps s.hist)
  first : s.first = true → s.hist = []
  later : s.first = false → s.hist ≠ []

theorem fwdStep_map (e : Engine) (ini : EngInit) (cap : Nat) (s : FwdState) (p : Nat) (hi : MapInv s) :
    MapInv (fwdStep e ini cap s p) := by
  unfold fwdStep
  refine ⟨?_, fun h => by simp at h, fun _ => by simp⟩
  dsimp only
  cases hf : s.first with
  | true =>
    simp [hi.first hf, stageMaps, composeAll]
  | false =>
    simp only [Bool.false_eq_true, if_false]
    have hne := hi.later hf
    rw [hi.eq]
    unfold stageMaps
    cases hh : s.hist with
    | nil => exact absurd hh hne
    | cons x xs => simp [composeAll, List.foldl_append]

/-- **fwd_map_compose** -/
theorem fwd_map_compose (t : TableInfo) (e : Engine) (a : Args) :
    (fwdRun t e a).posMapping = composeAll (stageMaps (fwdRun t e a).hist) := by
  unfold fwdRun
  suffices h : ∀ (ps : List Nat) (s : FwdState), MapInv s →
      MapInv (ps.foldl (fwdStep e (initFwd a (cutAtNul a.inbuf)) a.outlen) s) by
    exact (h (fwdPassList t)
      { input := cutAtNul a.inbuf, posMapping := [], output := [], cpos := (fwdCursorInit a).1,
        cstat := (fwdCursorInit a).2, hist := [], first := true }
      ⟨rfl, fun _ => rfl, fun h => by simp at h⟩).eq
  intro ps
  induction ps with
  | nil => intro s h; exact h
  | cons p ps ih => intro s h; exact ih _ (fwdStep_map e _ _ s p h)

/-- non-vacuity: a table with corrections and four passes runs 0,1,2,3,4 forward and 4,3,2,1,0 backward -/
example : fwdPassList { corrections := true, numPasses := 4 } = [0, 1, 2, 3, 4] ∧
          backPassList { corrections := true, numPasses := 4 } = [4, 3, 2, 1, 0] ∧
          fwdPassList { corrections := false, numPasses := 1 } = [1] := by decide

end Lou.C06
