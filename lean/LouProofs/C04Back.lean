/-
  C04 (backward) — reported lengths of `_lou_backTranslate` are truthful, for ANY engine that
  satisfies the backward contract (E1: a pass never produces more than the capacity, E3: never
  reports more consumed input than it was given).
-/
import LouProofs.C02
import LouProofs.C07

namespace Lou.C04
open Lou Lou.Drv Lou.C02

/-- **back_lengths**: ret = 1 → 0 ≤ inlen′ ≤ length up to the first NUL ≤ inlen, 0 ≤ outlen′ ≤ outlen -/
theorem back_lengths (t : TableInfo) (dotsFor : Nat → Nat) (e : Engine) (a : Args)
    (he : EngineOKBack e) (hret : (back (some t) dotsFor e a).ret = 1) :
    0 ≤ (back (some t) dotsFor e a).inlen ∧
    (back (some t) dotsFor e a).inlen ≤ (cutAtNul a.inbuf).length ∧
    (back (some t) dotsFor e a).inlen ≤ a.inbuf.length ∧
    0 ≤ (back (some t) dotsFor e a).outlen ∧
    (back (some t) dotsFor e a).outlen ≤ a.outlen := by
  have hi := backRun_inv t dotsFor e a he
  unfold back at hret ⊢
  dsimp only at hret ⊢
  generalize backRun t dotsFor e a = s at hi hret
  obtain ⟨h1, h2, _, _⟩ := C07.backFinish_ok a s hret
  rw [h1, h2]
  have hc := Lou.Contract.cutAtNul_length_le a.inbuf
  have h0 := hi.inlen0
  have hk := hi.inlenK
  have hf := hi.fits
  refine ⟨h0, hk, by omega, by omega, by omega⟩

/-- back-translation fails (returns 0) only when the table does not compile or a pass reports failure -/
theorem back_ret0_iff (tbl : Option TableInfo) (dotsFor : Nat → Nat) (e : Engine) (a : Args) :
    (back tbl dotsFor e a).ret = 0 ↔ tbl = none ∨ ∃ t, tbl = some t ∧ (backRun t dotsFor e a).failed = true := by
  cases tbl with
  | none => simp [back, failResult]
  | some t =>
    simp only [back, reduceCtorEq, false_or, Option.some.injEq, exists_eq_left']
    unfold backFinish
    by_cases hf : (backRun t dotsFor e a).failed = true
    · simp [hf, failResult]
    · simp [hf]

end Lou.C04
