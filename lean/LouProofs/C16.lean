/-
  C16 — translation depends only on the sequence of table entries, not their packaging.

  Property text (fixed):
    "A comma-separated table list, a wrapper file that includes the same files in the same
     order, and a single file containing their concatenated entries are behaviourally identical
     in both directions.  So are the same entries written with LF or CRLF line ends, with extra
     blank or comment lines or trailing whitespace, and - for ASCII content - in UTF-8, UTF-16LE
     or UTF-16BE with byte-order mark.  Spelling a character as a \xhhhh escape instead of
     literally, or listing the dots of a cell in a different order, changes nothing either."

  What is proved here, over ALL byte contents, about the reader model LouModel/Lexer.lean (a
  transcription of getAChar, _lou_getALine, getToken, parseChars, parseDots, hexValue that is
  compared function by function with the compiled C code on every run of tools/lv/props/C16.py):

   * the reader is a function of the bytes: `fileLines bs = splitLines (decode bs)`
     (`fileLines_decode`), every _lou_getALine call makes progress or reports the end
     (`getALine_progress`), a file of n bytes has at most n lines (`line_count`);
   * `crlf_eq_lf`, `cr_anywhere_inert` — CR never reaches a line;
   * `utf16_eq_ascii` — BOM + UTF-16LE/BE of ASCII text reads as the same lines as the 8-bit file;
   * `list_eq_concat` — the lines of a concatenation are the concatenated lines when the first
     file ends with LF; `blank_comment_inert` — an inserted blank or comment line adds no entry;
   * `trailing_ws_inert` — the token list of a line ignores trailing blanks (and `getToken_tokens`
     ties `tokens` to the getToken loop);
   * `escape_eq_literal` — `\xhhhh` and the UTF-8 spelling of the same code point parse to that code point;
   * `dots_perm` — permuting the dot characters inside each cell does not change parseDots;
     `dots_cell_or` — a cell is LOU_DOTS ∨ the OR of the bits of its characters.

  The equivalence of the three PACKAGINGS of whole compilations (list / include wrapper / one file)
  involves compileFile, includeFile and the whole rule compiler, which are not modelled; at the
  level reached here it is `list_eq_concat` (same lines, hence same calls of compileRule with the
  same line texts; line numbers and file names — used in messages only — differ).  The rest is
  decided by the differential search of tools/lv/props/C16.py on the real compiler.

  Hypotheses forced by the code (each with the refuting witness below):
   * `utf16_eq_ascii`, `crlf_eq_lf_bytes`, `list_eq_concat_bytes` need files that the encoding test
     accepts as "ASCII 8": at least two bytes, both < 128 (or empty).  A ONE-byte file reads as empty
     (`one_byte_file_is_empty`), a file starting with a non-ASCII UTF-8 character is rejected
     (`utf8_start_rejected`).
   * `list_eq_concat` needs the first part to end with LF: otherwise its last line and the first
     line of the second part merge (`concat_without_lf_merges`).
   * `blank_comment_inert` needs the comment line to have < MAXSTRING-1 characters: a longer one is
     split (one character is lost) and its tail is compiled as a rule (`long_comment_leaks`).
   * `escape_eq_literal` excludes code point 0x5c: a literal backslash starts an escape.
   * `dots_perm` compares success/failure and the cells; WHICH error is reported may differ.
-/
import LouModel.Lexer
import LouProofs.Lemmas.Lexer
import LouProofs.Lemmas.LexTokens

namespace Lou.C16
open Lou.Lexer

/-! ## the reader is a function of the bytes -/

/-- what compileFile reads = the lines of the decoded character stream -/
theorem fileLines_decode (bs : List Nat) : (fileLines bs).1 = splitLines (decode bs) [] := fileLines_eq bs

/-- lou_readCharFromFile delivers exactly `decode` -/
theorem readChars_decode (bs : List Nat) : (readChars bs).1 = decode bs := readChars_eq_decode bs

/-- every call of _lou_getALine from a reachable reader state either returns 1 and strictly decreases
    `mu` = unread bytes + characters fetched but not yet delivered (so it consumed ≥ 1 byte or the pending
    character), or returns 0 and the character stream is exhausted. -/
theorem getALine_progress (bs : List Nat) (h : Hdr) (hw : h.wf) :
    match getALine bs h with
    | (ret, _, bs', h') =>
      h'.wf ∧ mu bs' h' ≤ mu bs h ∧ (ret = true → mu bs' h' < mu bs h) ∧ (ret = false → remaining bs' h' = []) := by
  have := getALine_spec bs h hw
  generalize getALine bs h = r at this
  obtain ⟨ret, l, bs', h'⟩ := r
  simp only at this ⊢
  obtain ⟨⟨e, htl, hret⟩, hw', hle, hlt⟩ := this
  refine ⟨hw', hle, hlt, ?_⟩
  intro hf
  subst hf
  have he : e = true := by cases e <;> simp at hret ⊢
  subst he
  exact takeLine_rest_nil _ _ _ _ htl

theorem pairsBE_length : ∀ (bs : List Nat), (pairsBE bs).length ≤ bs.length
  | [] => by simp [pairsBE]
  | [_] => by simp [pairsBE]
  | _ :: _ :: r => by have := pairsBE_length r; simp [pairsBE]; omega

theorem pairsLE_length : ∀ (bs : List Nat), (pairsLE bs).length ≤ bs.length
  | [] => by simp [pairsLE]
  | [_] => by simp [pairsLE]
  | _ :: _ :: r => by have := pairsLE_length r; simp [pairsLE]; omega

theorem decode_length (bs : List Nat) : (decode bs).length ≤ bs.length := by
  match bs with
  | [] => simp [decode]
  | [_] => simp [decode]
  | b0 :: b1 :: r =>
    simp only [decode]
    have := pairsBE_length r
    have := pairsLE_length r
    split
    · simp; omega
    · split
      · simp; omega
      · split <;> simp

theorem splitLines_length : ∀ (cs cur : List Nat),
    (splitLines cs cur).length ≤ cs.length + (if cur.isEmpty then 0 else 1) := by
  intro cs
  induction cs with
  | nil => intro cur; simp [splitLines]; split <;> simp
  | cons c cs ih =>
    intro cur
    rw [splitLines]
    by_cases h13 : c = 13
    · rw [if_pos h13]; have := ih cur; simp only [List.length_cons]; omega
    · rw [if_neg h13]
      by_cases hb : c = 10 ∨ MAXSTRING - 1 ≤ cur.length
      · rw [if_pos hb]; have := ih []; simp only [List.length_cons] at this ⊢; simp at this; split <;> omega
      · rw [if_neg hb]; have := ih (cur ++ [c]); simp only [List.length_cons] at this ⊢; simp at this; split <;> omega

/-- a file of n bytes yields at most n lines (a fortiori ≤ n + 1) -/
theorem line_count (bs : List Nat) : (fileLines bs).1.length ≤ bs.length := by
  rw [fileLines_decode]
  have := splitLines_length (decode bs) []
  have := decode_length bs
  simp at *; omega

/-- every line handed to compileRule has at most MAXSTRING-1 characters (no write past `FileInfo.line`,
    whose terminator goes to index ≤ MAXSTRING-1) -/
theorem splitLines_bound : ∀ (cs cur : List Nat), cur.length ≤ MAXSTRING - 1 →
    ∀ l ∈ splitLines cs cur, l.length ≤ MAXSTRING - 1 := by
  intro cs
  induction cs with
  | nil => intro cur hc l hl; simp [splitLines] at hl; obtain ⟨_, rfl⟩ := hl; exact hc
  | cons c cs ih =>
    intro cur hc l hl
    rw [splitLines] at hl
    by_cases h13 : c = 13
    · rw [if_pos h13] at hl; exact ih cur hc l hl
    · rw [if_neg h13] at hl
      by_cases hb : c = 10 ∨ MAXSTRING - 1 ≤ cur.length
      · rw [if_pos hb] at hl
        cases hl with
        | head => exact hc
        | tail _ h => exact ih [] (by simp) l h
      · rw [if_neg hb] at hl
        refine ih (cur ++ [c]) ?_ l hl
        simp at hb ⊢; omega

theorem line_bound (bs : List Nat) : ∀ l ∈ (fileLines bs).1, l.length ≤ MAXSTRING - 1 := by
  rw [fileLines_decode]; exact splitLines_bound _ [] (by simp)

/-! ## CR / CRLF -/

/-- Q4: CR is dropped wherever it stands -/
theorem cr_anywhere_inert : ∀ (cs cur : List Nat), splitLines cs cur = splitLines (cs.filter (· ≠ 13)) cur := by
  intro cs
  induction cs with
  | nil => intro cur; rfl
  | cons c cs ih =>
    intro cur
    by_cases h13 : c = 13
    · subst h13; rw [splitLines, if_pos rfl, List.filter_cons_of_neg (by simp)]; exact ih cur
    · have : (c :: cs).filter (· ≠ 13) = c :: cs.filter (· ≠ 13) := by simp [h13]
      rw [this, splitLines, splitLines, if_neg h13, if_neg h13, ← ih, ← ih]

/-- LF → CR LF -/
def crlf (cs : List Nat) : List Nat := cs.flatMap (fun c => if c = 10 then [13, 10] else [c])

theorem crlf_filter (cs : List Nat) : (crlf cs).filter (· ≠ 13) = cs.filter (· ≠ 13) := by
  induction cs with
  | nil => rfl
  | cons c cs ih =>
    unfold crlf at ih ⊢
    rw [List.flatMap_cons, List.filter_append, ih]
    by_cases h10 : c = 10
    · subst h10; simp
    · by_cases h13 : c = 13
      · subst h13; simp
      · simp [h10, h13]

/-- the same characters with LF or CRLF line ends give the same lines (any characters, any encoding) -/
theorem crlf_eq_lf (cs : List Nat) : splitLines (crlf cs) [] = splitLines cs [] := by
  rw [cr_anywhere_inert (crlf cs), crlf_filter, ← cr_anywhere_inert]

/-- the encoding test classifies the file as "ASCII 8" -/
def AsciiStart : List Nat → Prop
  | b0 :: b1 :: _ => b0 < 128 ∧ b1 < 128
  | _ => False

theorem decode_asciiStart {bs : List Nat} (h : AsciiStart bs) : decode bs = bs := by
  match bs, h with
  | b0 :: b1 :: r, h =>
    obtain ⟨h0, h1⟩ := h
    simp only [decode]
    rw [if_neg (by omega), if_neg (by omega), if_pos ⟨h0, h1⟩]

theorem asciiStart_crlf {bs : List Nat} (h : AsciiStart bs) : AsciiStart (crlf bs) := by
  match bs, h with
  | b0 :: b1 :: r, h =>
    obtain ⟨h0, h1⟩ := h
    unfold crlf
    by_cases e0 : b0 = 10 <;> by_cases e1 : b1 = 10 <;> simp [e0, e1, AsciiStart] <;> omega

/-- byte level, 8-bit files: replacing every LF by CR LF does not change the lines -/
theorem crlf_eq_lf_bytes (bs : List Nat) (h : AsciiStart bs) : (fileLines (crlf bs)).1 = (fileLines bs).1 := by
  rw [fileLines_decode, fileLines_decode, decode_asciiStart h, decode_asciiStart (asciiStart_crlf h), crlf_eq_lf]

/-! ## UTF-16 -/

def utf16le (cs : List Nat) : List Nat := cs.flatMap (fun c => [c % 256, c / 256])
def utf16be (cs : List Nat) : List Nat := cs.flatMap (fun c => [c / 256, c % 256])

theorem pairsLE_utf16le : ∀ (cs : List Nat), (∀ c ∈ cs, c < 65536) → pairsLE (utf16le cs) = cs
  | [], _ => rfl
  | c :: cs, h => by
    have hc := h c (by simp)
    have := pairsLE_utf16le cs (fun x hx => h x (by simp [hx]))
    unfold utf16le at this ⊢
    simp only [List.flatMap_cons, List.cons_append, List.nil_append, pairsLE, this]
    congr 1; omega

theorem pairsBE_utf16be : ∀ (cs : List Nat), (∀ c ∈ cs, c < 65536) → pairsBE (utf16be cs) = cs
  | [], _ => rfl
  | c :: cs, h => by
    have hc := h c (by simp)
    have := pairsBE_utf16be cs (fun x hx => h x (by simp [hx]))
    unfold utf16be at this ⊢
    simp only [List.flatMap_cons, List.cons_append, List.nil_append, pairsBE, this]
    congr 1; omega

/-- BOM + UTF-16LE of any 16-bit characters decodes to those characters -/
theorem decode_utf16le (cs : List Nat) (h : ∀ c ∈ cs, c < 65536) : decode (0xff :: 0xfe :: utf16le cs) = cs := by
  simp [decode, pairsLE_utf16le cs h]

theorem decode_utf16be (cs : List Nat) (h : ∀ c ∈ cs, c < 65536) : decode (0xfe :: 0xff :: utf16be cs) = cs := by
  simp [decode, pairsBE_utf16be cs h]

theorem decode_ascii (bs : List Nat) (h : ∀ b ∈ bs, b < 128) (hl : bs.length ≠ 1) : decode bs = bs := by
  match bs with
  | [] => rfl
  | [_] => simp at hl
  | b0 :: b1 :: r => exact decode_asciiStart ⟨h b0 (by simp), h b1 (by simp)⟩

/-- for ASCII content (not exactly one byte long) the 8-bit file, BOM + UTF-16LE and BOM + UTF-16BE
    read as the same lines -/
theorem utf16_eq_ascii (bs : List Nat) (h : ∀ b ∈ bs, b < 128) (hl : bs.length ≠ 1) :
    (fileLines (0xff :: 0xfe :: utf16le bs)).1 = (fileLines bs).1 ∧
    (fileLines (0xfe :: 0xff :: utf16be bs)).1 = (fileLines bs).1 := by
  have h16 : ∀ c ∈ bs, c < 65536 := fun c hc => by have := h c hc; omega
  simp only [fileLines_decode, decode_utf16le bs h16, decode_utf16be bs h16, decode_ascii bs h hl, and_self]

/-- more generally: the two UTF-16 byte orders agree on every text -/
theorem utf16le_eq_utf16be (cs : List Nat) (h : ∀ c ∈ cs, c < 65536) :
    (fileLines (0xff :: 0xfe :: utf16le cs)).1 = (fileLines (0xfe :: 0xff :: utf16be cs)).1 := by
  simp only [fileLines_decode, decode_utf16le cs h, decode_utf16be cs h]

/-- Q2: the unrestricted statement is false — a one-byte file reads as empty -/
theorem one_byte_file_is_empty :
    (fileLines [97]).1 = [] ∧ (fileLines (0xff :: 0xfe :: utf16le [97])).1 = [[97]] := by decide

/-- Q1: an 8-bit file that starts with a non-ASCII (UTF-8) character is rejected as a whole -/
theorem utf8_start_rejected :
    fileLines [0xc3, 0xa9, 32, 49, 10] = ([], { status := 2, ce0 := 0xc3, ce1 := 0xa9, errs := 1 }) := by decide

/-! ## concatenation, blank and comment lines -/

theorem splitLines_append_lf : ∀ (c1 c2 cur : List Nat), c1.getLast? = some 10 →
    splitLines (c1 ++ c2) cur = splitLines c1 cur ++ splitLines c2 [] := by
  intro c1
  induction c1 with
  | nil => intro c2 cur h; simp at h
  | cons c cs ih =>
    intro c2 cur h
    cases cs with
    | nil =>
      simp at h; subst h
      simp [splitLines]
    | cons d ds =>
      have h' : (d :: ds).getLast? = some 10 := by simpa [List.getLast?_cons_cons] using h
      rw [List.cons_append, splitLines, splitLines]
      by_cases h13 : c = 13
      · rw [if_pos h13, if_pos h13]; exact ih c2 cur h'
      · rw [if_neg h13, if_neg h13]
        by_cases hb : c = 10 ∨ MAXSTRING - 1 ≤ cur.length
        · rw [if_pos hb, if_pos hb, ih c2 [] h']; simp
        · rw [if_neg hb, if_neg hb]; exact ih c2 _ h'

/-- character level: the lines of a concatenation are the concatenated lines, provided the first
    part is empty or ends with LF -/
theorem list_eq_concat (c1 c2 : List Nat) (h : c1 = [] ∨ c1.getLast? = some 10) :
    splitLines (c1 ++ c2) [] = splitLines c1 [] ++ splitLines c2 [] := by
  cases h with
  | inl h => subst h; simp [splitLines]
  | inr h => exact splitLines_append_lf c1 c2 [] h

/-- byte level, 8-bit files: a single file holding the concatenated bytes of f1 and f2 reads as the
    lines of f1 followed by the lines of f2 -/
theorem list_eq_concat_bytes (f1 f2 : List Nat) (h1 : AsciiStart f1) (h2 : f2 = [] ∨ AsciiStart f2)
    (hlf : f1.getLast? = some 10) :
    (fileLines (f1 ++ f2)).1 = (fileLines f1).1 ++ (fileLines f2).1 := by
  have h12 : AsciiStart (f1 ++ f2) := by
    match f1, h1 with
    | b0 :: b1 :: r, h => exact h
  have hd2 : decode f2 = f2 := by
    cases h2 with
    | inl h => subst h; rfl
    | inr h => exact decode_asciiStart h
  rw [fileLines_decode, fileLines_decode, fileLines_decode, decode_asciiStart h12, decode_asciiStart h1, hd2]
  exact list_eq_concat f1 f2 (Or.inr hlf)

/-- without the final LF the last line of f1 and the first line of f2 merge -/
theorem concat_without_lf_merges :
    splitLines ([97, 98] ++ [99, 10]) [] = [[97, 98, 99]] ∧
    splitLines [97, 98] [] ++ splitLines [99, 10] [] = [[97, 98], [99]] := by decide

/-- a short line without CR/LF, followed by LF, is exactly one line -/
theorem splitLines_one_line : ∀ (l cur : List Nat), (∀ c ∈ l, c ≠ 10 ∧ c ≠ 13) →
    cur.length + l.length ≤ MAXSTRING - 1 → splitLines (l ++ [10]) cur = [cur ++ l] := by
  intro l
  induction l with
  | nil => intro cur _ _; simp [splitLines]
  | cons c l ih =>
    intro cur h hlen
    have hc := h c (by simp)
    simp at hlen
    rw [List.cons_append, splitLines, if_neg hc.2, if_neg (by simp; omega)]
    rw [ih (cur ++ [c]) (fun x hx => h x (by simp [hx])) (by simp; omega)]
    simp

/-- inserting a blank or comment line (at most MAXSTRING-1 characters, followed by LF) between two parts
    of a character stream, the first of which is empty or ends with LF, does not change the entries that
    reach the opcode switch of compileRule -/
theorem blank_comment_inert (c1 c2 l : List Nat) (h1 : c1 = [] ∨ c1.getLast? = some 10)
    (hl : ∀ c ∈ l, c ≠ 10 ∧ c ≠ 13) (hlen : l.length ≤ MAXSTRING - 1) (hi : isInert l = true) :
    entries (splitLines (c1 ++ (l ++ [10]) ++ c2) []) = entries (splitLines (c1 ++ c2) []) := by
  have e1 : splitLines (c1 ++ (l ++ [10]) ++ c2) [] = splitLines c1 [] ++ ([l] ++ splitLines c2 []) := by
    rw [List.append_assoc, list_eq_concat c1 _ h1, splitLines_append_lf (l ++ [10]) c2 [] (by simp),
      splitLines_one_line l [] hl (by simpa using hlen)]
    simp
  rw [e1, list_eq_concat c1 c2 h1]
  simp [entries, List.filter_append, hi]

/-! ### tokens -/

theorem tokens_ws : ∀ (ws cur : List Nat), (∀ c ∈ ws, c ≤ 32) → tokens ws cur = tokens [] cur := by
  intro ws
  induction ws with
  | nil => intro cur _; rfl
  | cons c ws ih =>
    intro cur h
    have hc := h c (by simp)
    have := ih [] (fun x hx => h x (by simp [hx]))
    rw [tokens.eq_2, if_pos hc]
    by_cases he : cur.isEmpty
    · simp [he, this, tokens]
    · simp [he, this, tokens]

/-- the token list of a line is unchanged by trailing characters ≤ 32 (blanks, tabs, NUL, …) -/
theorem trailing_ws_inert : ∀ (l ws cur : List Nat), (∀ c ∈ ws, c ≤ 32) → tokens (l ++ ws) cur = tokens l cur := by
  intro l
  induction l with
  | nil => intro ws cur h; simpa using tokens_ws ws cur h
  | cons c l ih =>
    intro ws cur h
    rw [List.cons_append, tokens, tokens]
    by_cases hc : c ≤ 32
    · rw [if_pos hc, if_pos hc, ih ws [] h]
    · rw [if_neg hc, if_neg hc, ih ws _ h]

/-- the specification-level token list is what the getToken loop delivers: first token, then the tokens
    of the rest of the line (lines are shorter than MAXSTRING by `line_bound`) -/
theorem getToken_tokens (l : List Nat) (hl : l.length < MAXSTRING) :
    match getToken l with
    | .none => tokens l [] = []
    | .tok t r => t ≠ [] ∧ t.length < MAXSTRING ∧ tokens l [] = t :: tokens r [] ∧ r.length < l.length
    | _ => False := Lou.Lexer.getToken_tokens l hl

/-- what "blank or comment line" means: no character > 32, or the first such character is '#' or '<' -/
theorem isInert_iff (l : List Nat) (hl : l.length < MAXSTRING) :
    isInert l = true ↔ (tokens l []).head? = none ∨ (∃ t, (tokens l []).head? = some t ∧ (t.head? = some 35 ∨ t.head? = some 60)) := by
  have := Lou.Lexer.getToken_tokens l hl
  unfold isInert
  cases hg : getToken l with
  | none => rw [hg] at this; simp [this]
  | tooLong => rw [hg] at this; exact this.elim
  | overflow t => rw [hg] at this; exact this.elim
  | tok t r =>
    rw [hg] at this
    simp only [this.2.2.1, List.head?_cons]
    simp

/-- trailing blanks do not turn an entry into a blank/comment line or vice versa -/
theorem isInert_trailing_ws (l ws : List Nat) (h : ∀ c ∈ ws, c ≤ 32) (hl : (l ++ ws).length < MAXSTRING) :
    isInert (l ++ ws) = isInert l := by
  have hl' : l.length < MAXSTRING := by simp at hl; omega
  have e1 := isInert_iff (l ++ ws) hl
  have e2 := isInert_iff l hl'
  rw [trailing_ws_inert l ws [] h] at e1
  exact Bool.eq_iff_iff.mpr (e1.trans e2.symm)

/-- Q5: a line of more than MAXSTRING-1 characters is cut after MAXSTRING-1, the next character is LOST
    and the remainder is read as a new line — so the tail of an over-long comment is compiled as a rule -/
theorem long_line_splits : ∀ (l cur : List Nat) (c : Nat) (rest : List Nat), (∀ x ∈ l, x ≠ 10 ∧ x ≠ 13) →
    cur.length + l.length = MAXSTRING - 1 → c ≠ 13 →
    splitLines (l ++ c :: rest) cur = (cur ++ l) :: splitLines rest [] := by
  intro l
  induction l with
  | nil =>
    intro cur c rest _ hlen hc
    simp at hlen
    rw [List.nil_append, splitLines, if_neg hc, if_pos (Or.inr (by omega))]
    simp
  | cons x l ih =>
    intro cur c rest h hlen hc
    have hx := h x (by simp)
    simp at hlen
    rw [List.cons_append, splitLines, if_neg hx.2, if_neg (by simp; omega)]
    rw [ih (cur ++ [x]) c rest (fun y hy => h y (by simp [hy])) (by simp; omega) hc]
    simp

theorem mem_hash_xs {x : Nat} (hx : x ∈ 35 :: List.replicate 2046 120) : x = 35 ∨ x = 120 := by
  rcases List.mem_cons.mp hx with h | h
  · exact Or.inl h
  · exact Or.inr (List.eq_of_mem_replicate h)

/-- witness for the length hypothesis of `blank_comment_inert`: '#' + 2046 x + "y" + "z 1" LF yields the
    entry "z 1" although the text is one comment line -/
theorem long_comment_leaks :
    entries (splitLines ((35 :: List.replicate 2046 120) ++ 121 :: [122, 32, 49, 10]) []) = [[122, 32, 49]] := by
  have hlen : (35 :: List.replicate 2046 120 : List Nat).length = 2047 := by
    rw [List.length_cons, List.length_replicate]
  rw [long_line_splits (35 :: List.replicate 2046 120) [] 121 [122, 32, 49, 10]
    (fun x hx => by rcases mem_hash_xs hx with rfl | rfl <;> decide)
    (by rw [hlen]; decide) (by decide)]
  have h1 : isInert ([] ++ 35 :: List.replicate 2046 120) = true := by
    rw [List.nil_append, isInert_iff _ (by rw [hlen]; decide)]
    right
    have ht := Lou.Lexer.tokens_take_word (35 :: List.replicate 2046 120) [] []
      (fun x hx => by rcases mem_hash_xs hx with rfl | rfl <;> decide)
    rw [List.append_nil, List.nil_append] at ht
    rw [ht]
    exact ⟨_, rfl, Or.inl rfl⟩
  have h2 : splitLines [122, 32, 49, 10] [] = [[122, 32, 49]] := by decide
  rw [h2, entries, List.filter_cons, h1]
  decide

/-! ## escapes and dots -/

/-- lower-case hexadecimal digit character -/
def hexChar (d : Nat) : Nat := if d < 10 then 48 + d else 87 + d

theorem hexDigit_hexChar (d : Nat) (h : d < 16) : hexDigit? (hexChar d) = some d := by
  unfold hexChar hexDigit?
  by_cases h10 : d < 10
  · rw [if_pos h10, if_pos (by omega)]; congr 1; omega
  · rw [if_neg h10, if_neg (by omega), if_pos (by omega)]; congr 1; omega

/-- `\xhhhh` parses to the code point hhhh, for every 4-digit spelling (either case of a-f) -/
theorem escape_hex (d1 d2 d3 d4 v1 v2 v3 v4 : Nat) (h1 : hexDigit? d1 = some v1) (h2 : hexDigit? d2 = some v2)
    (h3 : hexDigit? d3 = some v3) (h4 : hexDigit? d4 = some v4) :
    parseChars [92, 120, d1, d2, d3, d4] = ⟨true, [(((v1 * 16 + v2) * 16 + v3) * 16 + v4) % 65536], 1, 0, 0⟩ :=
  parseChars_hex d1 d2 d3 d4 v1 v2 v3 v4 h1 h2 h3 h4

/-- for every 16-bit code point except the backslash itself, the escape `\xhhhh` and the literal UTF-8
    spelling (1, 2 or 3 bytes) are parsed to the same one-character string [cp], without message -/
theorem escape_eq_literal (cp : Nat) (h : cp < 65536) (h92 : cp ≠ 92) :
    parseChars [92, 120, hexChar (cp / 4096), hexChar (cp / 256 % 16), hexChar (cp / 16 % 16), hexChar (cp % 16)]
      = ⟨true, [cp], 1, 0, 0⟩ ∧
    parseChars (utf8 cp) = ⟨true, [cp], 1, 0, 0⟩ := by
  constructor
  · rw [escape_hex _ _ _ _ _ _ _ _ (hexDigit_hexChar _ (by omega)) (hexDigit_hexChar _ (by omega))
      (hexDigit_hexChar _ (by omega)) (hexDigit_hexChar _ (by omega))]
    have : (((cp / 4096 * 16 + cp / 256 % 16) * 16 + cp / 16 % 16) * 16 + cp % 16) % 65536 = cp := by omega
    rw [this]
  · unfold utf8
    by_cases h1 : cp < 0x80
    · rw [if_pos h1]; exact parseChars_ascii cp h1 h92
    · rw [if_neg h1]
      by_cases h2 : cp < 0x800
      · rw [if_pos h2]; exact parseChars_utf8_2 cp (by omega) h2
      · rw [if_neg h2]; exact parseChars_utf8_3 cp (by omega) h

/-- the excluded point: a literal backslash is not a character but the start of an escape -/
theorem literal_backslash_is_error : (parseChars [92]).ok = false ∧ parseChars [92, 120, 48, 48, 53, 99] = ⟨true, [92], 1, 0, 0⟩ := by
  decide

/-- Q10: `\x` followed by fewer than 4 characters silently yields a literal 'x' -/
theorem short_hex_escape_is_x : parseChars [92, 120, 52, 49] = ⟨true, [120, 52, 49], 3, 0, 0⟩ := by decide

/-- permuting the dot characters inside each cell of a dots operand does not change what parseDots
    returns (the cells, or failure; which of several errors is reported may differ) -/
theorem dots_perm (c1 c2 : List (List Nat)) (h : CellsPerm c1 c2) :
    (parseDots (joinDash c1)).toOption = (parseDots (joinDash c2)).toOption := by
  unfold parseDots
  exact toOption_bind_congr dotsFinish (foldlM_cells_perm h ⟨[], none⟩)

/-- single cell: any permutation -/
theorem dots_perm_cell (a b : List Nat) (hp : a.Perm b) (h45 : 45 ∉ a) :
    (parseDots a).toOption = (parseDots b).toOption := by
  have := dots_perm [a] [b] (.cons hp h45 .nil)
  simpa [joinDash] using this

/-- a cell is the OR of the bits of its dot characters, plus LOU_DOTS -/
theorem dots_cell_or (tok out : List Nat) (h45 : 45 ∉ tok) (h : parseDots tok = .ok out) :
    out = [orBits tok ||| DOTSBIT] := Lou.Lexer.dots_cell_or tok out h45 h

/-- Q15: a repeated dot is an error, in any order (the OR alone would not see it) -/
theorem duplicate_dot_is_error : (parseDots [49, 50, 49]).toOption = none ∧ (parseDots [49, 49, 50]).toOption = none ∧
    (parseDots [97, 65]).toOption = none := by decide

/-! ### non-vacuity -/

example : (fileLines [97, 32, 49, 13, 10, 35, 120, 10, 10, 98, 32, 50]).1 = [[97, 32, 49], [35, 120], [], [98, 32, 50]] := by decide
example : entries [[97, 32, 49], [35, 120], [], [32, 9], [60, 33], [98, 32, 50]] = [[97, 32, 49], [98, 32, 50]] := by decide
example : AsciiStart [97, 10] ∧ [97, 10].getLast? = some 10 := ⟨⟨by decide, by decide⟩, by decide⟩
example : CellsPerm [[49, 50, 51], [52, 54]] [[51, 49, 50], [54, 52]] :=
  .cons (by decide) (by decide) (.cons (by decide) (by decide) .nil)
example : parseDots (joinDash [[49, 50, 51], [52, 54]]) = .ok [0x8007, 0x8028] ∧
    parseDots (joinDash [[51, 49, 50], [54, 52]]) = .ok [0x8007, 0x8028] := by decide
example : parseChars (utf8 0x20ac) = ⟨true, [0x20ac], 1, 0, 0⟩ ∧ utf8 0x20ac = [0xe2, 0x82, 0xac] := by decide
example : tokens [32, 97, 98, 9, 49, 50, 32, 32] [] = [[97, 98], [49, 50]] := by decide

end Lou.C16
