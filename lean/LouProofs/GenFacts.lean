/-
  GenFacts — the constants the hand-written models use equal the values regenerated from the
  C headers on this run (`LouModel/Gen/Consts.lean`).  A changed header breaks these proofs.
-/
import LouModel.Basic
import LouModel.Alloc
import LouModel.Gen.Consts

namespace Lou.GenFacts
open Lou

theorem mode_bits : mNoContractions = Gen.noContractions ∧ mCompbrlAtCursor = Gen.compbrlAtCursor ∧
    mDotsIO = Gen.dotsIO ∧ mCompbrlLeftCursor = Gen.compbrlLeftCursor ∧ mUcBrl = Gen.ucBrl ∧
    mNoUndefined = Gen.noUndefined ∧ mPartialTrans = Gen.partialTrans := by decide

theorem dot_consts : LOU_DOTS = Gen.LOU_DOTS ∧ LOU_ROW_BRAILLE = Gen.LOU_ROW_BRAILLE ∧
    LOU_DOT_7 = Gen.LOU_DOT_7 ∧ LOU_DOT_8 = Gen.LOU_DOT_8 ∧ LOU_ENDSEGMENT = Gen.LOU_ENDSEGMENT := by decide

/-- the AllocBuf enum is in the order the allocator model assumes -/
theorem allocbuf_order : Gen.allocBufOrder.map (·.2) = [0, 1, 2, 3, 4, 5, 6, 7] ∧
    Gen.allocBufOrder.map (·.1) = ["alloc_typebuf", "alloc_wordBuffer", "alloc_emphasisBuffer", "alloc_destSpacing",
      "alloc_passbuf", "alloc_posMapping1", "alloc_posMapping2", "alloc_posMapping3"] := by decide

theorem alloc_consts : Alloc.MAXPASSBUF = Gen.MAXPASSBUF := by decide

/-- MAXPASS = 4: the eight table shapes of C06 are all there are -/
theorem maxpass : Gen.MAXPASS = 4 := by decide

/-- the opcode ranges the translator tests are what the models assume -/
theorem opcode_ranges :
    Gen.CTO_Space < Gen.CTO_UpLow ∧ Gen.CTO_Always ≤ Gen.CTO_None ∧ Gen.CTO_Digit ≤ Gen.CTO_LitDigit ∧
    Gen.CTO_Context < Gen.CTO_Correct ∧ Gen.CTO_Correct < Gen.CTO_Pass2 ∧ Gen.CTO_Pass2 + 1 = Gen.CTO_Pass3 ∧
    Gen.CTO_Pass3 + 1 = Gen.CTO_Pass4 := by decide

/-- no two opcodes share a value (so a lookup by number is unambiguous) -/
theorem opcode_values_nodup : (Gen.opcodeOrder.map (·.2)).Nodup := by decide +kernel

end Lou.GenFacts
