/-
  C17 — hyphenation equals the pattern-matching semantics of its dictionary.

  Full statement of the property (kept visible):
    for every word of fewer than 100 characters, lou_hyphenate in text mode marks position k
    with '1' exactly where the largest digit contributed at that point is odd (k not the first
    letter of a run of letters): reading the dot-delimited, lower-cased run letter by letter,
    the contribution at each letter is the digit string of the longest suffix of the text read
    so far that is a prefix of some dictionary pattern, provided that suffix is itself a
    pattern; '2' after a hyphen character between letters and '0' elsewhere; in text and
    braille mode exactly inlen characters from {'0','1','2'} and a NUL are written; the
    return value is 0 when no hyphenation table is loaded or the word is too long.

  What is proved here, for ALL pattern lists and ALL words (no bounds):
    hyph_refines_spec    WFPats pats → FitsStates pats →
                         hyphenateWordX (compileDict pats) lower w = .ok (specDigits pats lower w)
    hyph_state_invariant after any text the automaton state stands for the longest suffix of the
                         text that is a prefix of a pattern; the states are exactly these prefixes
    hyph_walk_bound      the inner loop of hyphenateWord runs at most 2·(n+2) times in total
    hyphenate_text_spec  THE PROPERTY for text mode: lou_hyphenate over the compiled dictionary leaves exactly
                         `specText` (the statement above, position by position) and returns 1
    hyphenate_format / hyphenate_writes(_braille)   format and write range for ANY automaton, both modes
    hyphenate_braille_format_partial                braille mode format, given inputPos < inlen (C07)

  The unrestricted statement is FALSE of the code; two hypotheses remain forced:
    * `WFPats` — no digit-only line (`1`): compileHyphenation stores its digit as the pattern of
      state 0, which hyphenateWord never consults (state 0 is only entered through
      `goto nextLetter`), while by the property the empty suffix is a pattern and contributes at
      every point: `digit_only_line_ignored`.
    * `FitsStates` — state numbers are stored in 32-bit fields and 0xffffffff doubles as "not found"
      in hyphenHashLookup and as the fallback of state 0, so the dictionary must compile to at most
      0xffffffff states.  (Until liblouis commit 5522f21e the fields were 16 bit wide and
      hyph_hu_HU.dic, 138663 states, got truncated state numbers; the check keeps the signature
      `C17:state-number-overflow`.)
  No longer a hypothesis: a digit in front of a leading '.' (`1.a`, finding F5).  Until liblouis
  commit 0c404269 hyphenateWord computed patternOffset = −1 for it and read/wrote hyphens[−1]; the
  loop now starts at k = −patternOffset, the digit has no position in the word — which is what
  `specDigits` says anyway (positions are 0 … n−1) — and `hyph_refines_spec` covers such
  dictionaries (`leading_digit_dot_in_range`); `applyPat_spec` shows for ANY pattern string that
  no negative index is touched.
-/
import LouModel.Hyph
import LouProofs.Lemmas.Hyph
import LouProofs.Lemmas.HyphWalk
import LouProofs.Lemmas.HyphCompile
import LouProofs.Lemmas.HyphWrap
import LouProofs.Lemmas.HyphText

namespace Lou.C17
open Lou.Hyph List

/-- every state number fits the 16-bit fields and differs from the 0xffffffff sentinel -/
def FitsStates (pats : List Pat) : Prop := (compileDict pats).size ≤ 0xffffffff

instance (pats : List Pat) : Decidable (FitsStates pats) := by unfold FitsStates; infer_instance

theorem compileDict_nil : compileDict [] = #[{}] := by decide

/-- hyphenateWord over the compiled dictionary computes exactly the property: no out-of-range
    access, and at every position the largest digit of the longest-suffix matching rule. -/
theorem hyph_refines_spec (pats : List Pat) (wf : WFPats pats) (fits : FitsStates pats)
    (lower : Nat → Nat) (w : List Nat) :
    hyphenateWordX (compileDict pats) lower w = .ok (specDigits pats lower w) := by
  have key : (hyphenateWalk (compileDict pats) lower w).fault = none ∧
      (hyphenateWalk (compileDict pats) lower w).hyphens = specDigits pats lower w := by
    by_cases hne : pats = []
    · subst hne; rw [compileDict_nil]; exact walk_refines_empty lower w
    · exact walk_refines (compileDict_ok pats hne fits) wf lower w
  unfold hyphenateWordX
  rw [key.1, key.2]

theorem hyph_refines_spec' (pats : List Pat) (wf : WFPats pats) (fits : FitsStates pats)
    (lower : Nat → Nat) (w : List Nat) :
    hyphenateWord (compileDict pats) lower w = specDigits pats lower w := by
  have := hyph_refines_spec pats wf fits lower w
  unfold hyphenateWordX at this
  unfold hyphenateWord
  split at this
  · cases this
  · injection this

/-- states ↔ prefixes: the string of every state is a prefix of some pattern, every such prefix
    is the string of exactly one state, and state 0 is the empty string -/
theorem hyph_states_are_prefixes (pats : List Pat) (hne : pats ≠ []) (fits : FitsStates pats) :
    let d := compileDict pats
    let key := keyFn (compileC pats)
    key 0 = [] ∧
    (∀ i, i < d.size → isPatPrefix pats (key i) = true) ∧
    (∀ s, isPatPrefix pats s = true → ∃ i, i < d.size ∧ key i = s) ∧
    (∀ i j, i < d.size → j < d.size → key i = key j → i = j) := by
  have ok := compileDict_ok pats hne fits
  exact ⟨ok.key0, ok.isP, ok.all, ok.inj⟩

/-- fallback = longest proper suffix that is a state (root: the 0xffffffff sentinel) -/
theorem hyph_fallback_correct (pats : List Pat) (hne : pats ≠ []) (fits : FitsStates pats) :
    let d := compileDict pats
    let key := keyFn (compileC pats)
    (∀ s, d[0]? = some s → s.fallback = DEFAULTSTATE) ∧
    (∀ i s, d[i]? = some s → i ≠ 0 → s.fallback < d.size ∧
      longestSuffix (isPatPrefix pats) (key i).tail = some (key s.fallback)) := by
  have ok := compileDict_ok pats hne fits
  refine ⟨ok.fb0, ?_⟩
  intro i s hs hi
  obtain ⟨a, b⟩ := ok.fb i s hs hi
  refine ⟨a, ?_⟩
  obtain ⟨t, ht⟩ := ls_exists (isPatPrefix_nil hne) (keyFn (compileC pats) i).tail
  rw [b]; simp [lssD, ht]

/-- the classic invariant: after reading any text `u` the state of the walk stands for the longest suffix of `u` that is a prefix of a pattern -/
theorem hyph_state_invariant (pats : List Pat) (hne : pats ≠ []) (wf : WFPats pats) (fits : FitsStates pats)
    (n : Nat) (u : List Nat) :
    let st := (walkFrom (compileDict pats) n u 0 ⟨List.replicate n 0, 0, 0, none⟩).state
    st < (compileDict pats).size ∧
    longestSuffix (isPatPrefix pats) u = some (keyFn (compileC pats) st) := by
  have ok := compileDict_ok pats hne fits
  have init : WInv pats (compileDict pats) (keyFn (compileC pats)) n ([] ++ u) []
      ⟨List.replicate n 0, 0, 0, none⟩ := by
    refine ⟨rfl, ok.size_pos, ?_, by simp, ?_, by simp [ok.key0]⟩
    · simp only; rw [ok.key0, lssD_nil]
    · intro q hq
      simp [specUpTo, List.getD_eq_getElem?_getD, hq]
  have fin := walkFrom_inv ok wf n u [] _ init
  simp only [List.nil_append, List.length_nil] at fin
  refine ⟨fin.st, ?_⟩
  obtain ⟨t, ht⟩ := ls_exists (isPatPrefix_nil hne) u
  rw [fin.kst]; simp [lssD, ht]

/-- termination of the fallback loop, amortised: over a whole word of `n` letters the inner
    `while (1)` of hyphenateWord runs at most `2·(n+2)` times (every fallback strictly shortens
    the prefix the state stands for, every letter lengthens it by at most one); in particular the
    fuel of the model never runs out (`fault = none` in `hyph_refines_spec`).  The count is the
    one hook H2 (site 6) reports for the implementation. -/
theorem hyph_walk_bound (pats : List Pat) (wf : WFPats pats) (fits : FitsStates pats)
    (lower : Nat → Nat) (w : List Nat) :
    (hyphenateWalk (compileDict pats) lower w).ticks ≤ 2 * (w.length + 2) := by
  by_cases hne : pats = []
  · subst hne
    rw [compileDict_nil]
    -- the empty dictionary: two iterations per character
    have h : ∀ (rest : List Nat) (i : Nat) (x : Walk), x.state = 0 →
        (walkFrom #[{}] w.length rest i x).ticks = x.ticks + 2 * rest.length := by
      intro rest
      induction rest with
      | nil => intro i x _; rfl
      | cons ch rest ih =>
        intro i x hs
        have hm : max (i + 3) ((#[({} : HState)] : Dict).size + 2) = (max (i + 3) 3 - 2) + 2 := by simp
        have h1 : (walkStep #[{}] w.length x i ch).state = 0 ∧ (walkStep #[{}] w.length x i ch).ticks = x.ticks + 2 := by
          simp only [walkStep, hs]
          rw [hm]
          simp [seek, DEFAULTSTATE]
        simp only [walkFrom]
        rw [ih _ _ h1.1, h1.2]
        simp only [length_cons]; omega
    have := h (prepWord lower w) 0 ⟨List.replicate w.length 0, 0, 0, none⟩ rfl
    unfold hyphenateWalk
    rw [this]
    simp [prepWord]
  · have ok := compileDict_ok pats hne fits
    have init : WInv pats (compileDict pats) (keyFn (compileC pats)) w.length ([] ++ prepWord lower w) []
        ⟨List.replicate w.length 0, 0, 0, none⟩ := by
      refine ⟨rfl, ok.size_pos, ?_, by simp, ?_, by simp [ok.key0]⟩
      · simp only; rw [ok.key0, lssD_nil]
      · intro q hq
        simp [specUpTo, List.getD_eq_getElem?_getD, hq]
    have fin := walkFrom_inv ok wf w.length (prepWord lower w) [] _ init
    simp only [List.nil_append, List.length_nil] at fin
    have := fin.tk
    unfold hyphenateWalk
    simp [prepWord] at this ⊢
    omega

/-! ### the wrapper -/

theorem textHyphens_fmt (d : Dict) (cl : Classes) (text init : List Nat)
    (hinit : init.length = text.length + 1) (hl : text.length + 3 ≤ MAXSTRING) :
    ∃ b, textHyphens d cl text init = some b ∧ Fmt text.length b := by
  unfold textHyphens
  obtain ⟨p1, p2, p3⟩ := writeRange_in (List.replicate text.length 48) ⟨init, false⟩ 0 (by simp [hinit])
  obtain ⟨q1, q2, q3⟩ := write_in ((⟨init, false⟩ : TBuf).writeRange 0 (List.replicate text.length 48)) text.length 0
    (by rw [p2]; simp [hinit])
  apply wordLoop_fmt d cl text hl (text.length + 1) 0 _ (Nat.zero_le _)
  refine ⟨by rw [q1, p1], by rw [q2, p2]; exact hinit, ?_, ?_⟩
  · intro k hk
    rw [q3 k, p3 k]
    have c1 : ¬ k = text.length := by omega
    have c2 : 0 ≤ k ∧ k < 0 + (List.replicate text.length 48).length := by simp; omega
    rw [if_neg c1, if_pos c2]
    left; simp [List.getD_eq_getElem?_getD, hk]
  · rw [q3]; simp

/-- lou_hyphenate in text mode, for ANY automaton in the table and any character classes:
    it returns 0 exactly when no dictionary is loaded or `inlen ≥ 100`, and then leaves the
    array alone; otherwise it returns 1, writes nothing beyond index `inlen`, and leaves
    exactly `inlen` characters from {'0','1','2'} followed by a NUL. -/
theorem hyphenate_format (dict : Option Dict) (cl : Classes) (inbuf init : List Nat)
    (hinit : init.length = inbuf.length + 1) :
    ((louHyphenateText dict cl inbuf init).1 = 0 ↔ (dict = none ∨ inbuf.length ≥ HYPHSTRING)) ∧
    ((louHyphenateText dict cl inbuf init).1 = 0 → (louHyphenateText dict cl inbuf init).2 = ⟨init, false⟩) ∧
    ((louHyphenateText dict cl inbuf init).1 ≠ 0 →
      (louHyphenateText dict cl inbuf init).1 = 1 ∧ Fmt inbuf.length (louHyphenateText dict cl inbuf init).2) := by
  cases dict with
  | none => simp [louHyphenateText]
  | some d =>
    by_cases c : inbuf.length ≥ HYPHSTRING
    · simp [louHyphenateText, c]
    · have hl : inbuf.length + 3 ≤ MAXSTRING := by simp only [HYPHSTRING, MAXSTRING] at *; omega
      obtain ⟨b, hb, f⟩ := textHyphens_fmt d cl inbuf init hinit hl
      simp only [louHyphenateText, if_neg c, hb]
      refine ⟨?_, ?_, ?_⟩
      · constructor
        · intro h; cases h
        · rintro (h | h)
          · cases h
          · exact absurd h c
      · intro h; cases h
      · intro _; exact ⟨trivial, f⟩

/-- text mode writes only `hyphens[0..inlen]` -/
theorem hyphenate_writes (dict : Option Dict) (cl : Classes) (inbuf init : List Nat)
    (hinit : init.length = inbuf.length + 1) :
    (louHyphenateText dict cl inbuf init).2.oob = false ∧
    (louHyphenateText dict cl inbuf init).2.data.length = inbuf.length + 1 := by
  obtain ⟨_, h0, h1⟩ := hyphenate_format dict cl inbuf init hinit
  by_cases c : (louHyphenateText dict cl inbuf init).1 = 0
  · rw [h0 c]; exact ⟨rfl, hinit⟩
  · exact ⟨(h1 c).2.oob, (h1 c).2.len⟩

/-- THE PROPERTY, text mode: for every dictionary (`WFPats`, `FitsStates`), every character-class
    oracle and every text of fewer than 100 characters, lou_hyphenate over the compiled
    dictionary returns 1 and leaves exactly `specText`: `'0'` at non-letters, at the first
    letter of a run `'2'` after a hyphen character between letters and `'0'` otherwise, at
    every other letter `'1'` exactly where the largest digit contributed at that point by the
    longest-suffix matching rule is odd; then the NUL; nothing else is written. -/
theorem hyphenate_text_spec (pats : List Pat) (wf : WFPats pats) (fits : FitsStates pats)
    (cl : Classes) (inbuf init : List Nat) (hinit : init.length = inbuf.length + 1)
    (hlt : inbuf.length < HYPHSTRING) :
    louHyphenateText (some (compileDict pats)) cl inbuf init = (1, ⟨specText pats cl inbuf, false⟩) := by
  have hl : inbuf.length + 3 ≤ MAXSTRING := by simp only [HYPHSTRING, MAXSTRING] at *; omega
  have hge : ¬ inbuf.length ≥ HYPHSTRING := by omega
  simp only [louHyphenateText, if_neg hge, textHyphens]
  obtain ⟨p1, p2, p3⟩ := writeRange_in (List.replicate inbuf.length 48) ⟨init, false⟩ 0 (by simp [hinit])
  obtain ⟨q1, q2, q3⟩ := write_in ((⟨init, false⟩ : TBuf).writeRange 0 (List.replicate inbuf.length 48)) inbuf.length 0
    (by rw [p2]; simp [hinit])
  have tinv : TInv pats cl inbuf 0 (((⟨init, false⟩ : TBuf).writeRange 0 (List.replicate inbuf.length 48)).write inbuf.length 0) := by
    refine ⟨by rw [q1, p1], by rw [q2, p2]; exact hinit, fun k hk _ => by omega, ?_, ?_, Or.inl rfl⟩
    · intro k _ hk
      rw [q3 k, p3 k]
      have c1 : ¬ k = inbuf.length := by omega
      have c2 : 0 ≤ k ∧ k < 0 + (List.replicate inbuf.length 48).length := by simp; omega
      rw [if_neg c1, if_pos c2]
      simp [List.getD_eq_getElem?_getD, hk]
    · rw [q3]; simp
  obtain ⟨b', hb, b1, b2, b3, b4⟩ := wordLoop_spec pats cl (hyph_refines_spec' pats wf fits cl.lower) inbuf hl (inbuf.length + 1) 0 _ (Nat.zero_le _) (by omega) tinv
  rw [hb]
  have hdata : b'.data = specText pats cl inbuf := by
    apply ext_getD _ _ (inbuf.length + 1) b2 (by simp [specText])
    intro q hq
    rw [specText_getD]
    by_cases c : q < inbuf.length
    · rw [if_pos c]; exact b3 q c
    · rw [if_neg c]
      have : q = inbuf.length := by omega
      rw [this]; exact b4
  cases b' with
  | mk data oob =>
    simp only at b1 hdata
    rw [b1, hdata]

/-! #### braille mode: the mapping through inputPos -/

theorem mapLoop_writes (inlen : Nat) : ∀ (L : List (Nat × Int)) (prev : Int) (b : TBuf),
    b.oob = false → b.data.length = inlen + 1 →
    (mapLoop inlen L prev b).oob = false ∧ (mapLoop inlen L prev b).data.length = inlen + 1 := by
  intro L
  induction L with
  | nil => intro prev b h1 h2; exact ⟨h1, h2⟩
  | cons e L ih =>
    intro prev b h1 h2
    obtain ⟨h, bp⟩ := e
    simp only [mapLoop]
    split
    · exact ⟨h1, h2⟩
    · rename_i c
      split
      · obtain ⟨w1, w2, _⟩ := write_in b bp.toNat h (by rw [h2]; omega)
        exact ih bp _ (by rw [w1, h1]) (by rw [w2, h2])
      · exact ih prev b h1 h2

theorem mapLoop_fmt (inlen : Nat) : ∀ (L : List (Nat × Int)) (prev : Int) (b : TBuf),
    (∀ e ∈ L, (e.1 = 48 ∨ e.1 = 49 ∨ e.1 = 50) ∧ e.2 < (inlen : Int)) → Fmt inlen b →
    Fmt inlen (mapLoop inlen L prev b) := by
  intro L
  induction L with
  | nil => intro prev b _ f; exact f
  | cons e L ih =>
    intro prev b hL f
    obtain ⟨h, bp⟩ := e
    have he := hL (h, bp) mem_cons_self
    have hL' : ∀ e ∈ L, (e.1 = 48 ∨ e.1 = 49 ∨ e.1 = 50) ∧ e.2 < (inlen : Int) :=
      fun e he => hL e (mem_cons_of_mem _ he)
    simp only [mapLoop]
    split
    · exact f
    · rename_i c
      split
      · obtain ⟨w1, w2, w3⟩ := write_in b bp.toNat h (by rw [f.len]; omega)
        apply ih bp _ hL'
        refine ⟨by rw [w1, f.oob], by rw [w2, f.len], ?_, ?_⟩
        · intro k hk
          rw [w3 k]
          by_cases ck : k = bp.toNat
          · rw [if_pos ck]; exact he.1
          · rw [if_neg ck]; exact f.chars k hk
        · rw [w3]
          have : ¬ inlen = bp.toNat := by have := he.2; omega
          rw [if_neg this]; exact f.nul
      · exact ih prev b hL' f

/-- in both modes nothing is written beyond index `inlen` -/
theorem hyphenate_writes_braille (dict : Option Dict) (cl : Classes) (inlen : Nat)
    (bt : Option (List Nat × List Int)) (init : List Nat) (hinit : init.length = inlen + 1) :
    (louHyphenateBraille dict cl inlen bt init).2.oob = false ∧
    (louHyphenateBraille dict cl inlen bt init).2.data.length = inlen + 1 := by
  unfold louHyphenateBraille
  cases dict with
  | none => exact ⟨rfl, hinit⟩
  | some d =>
    simp only
    split
    · exact ⟨rfl, hinit⟩
    · cases bt with
      | none => exact ⟨rfl, hinit⟩
      | some p =>
        obtain ⟨text, ip⟩ := p
        simp only
        split
        · exact ⟨rfl, hinit⟩
        · obtain ⟨p1, p2, _⟩ := writeRange_in (List.replicate inlen 48) ⟨init, false⟩ 0 (by simp [hinit])
          obtain ⟨q1, q2, _⟩ := write_in ((⟨init, false⟩ : TBuf).writeRange 0 (List.replicate inlen 48)) inlen 0
            (by rw [p2]; simp [hinit])
          exact mapLoop_writes inlen _ _ _ (by rw [q1, p1]) (by rw [q2, p2]; exact hinit)

/-- braille mode, format clause — PARTIAL: needs what the back-translation guarantees (C07:
    every `inputPos` entry is below `inlen`; `textLen ≤ 100` entries).  Without `inputPos < inlen`
    the statement is false of the code: `braillePos > inlen` lets `braillePos == inlen` through,
    which overwrites the terminating NUL (`braille_nul_overwritten`). -/
theorem hyphenate_braille_format_partial (dict : Option Dict) (cl : Classes) (inlen : Nat)
    (text : List Nat) (ip : List Int) (init : List Nat) (hinit : init.length = inlen + 1)
    (htext : text.length ≤ HYPHSTRING) (hip : ip.length ≤ text.length) (hlt : ∀ p ∈ ip, p < (inlen : Int)) :
    ((louHyphenateBraille dict cl inlen (some (text, ip)) init).1 = 0 ↔ (dict = none ∨ inlen ≥ HYPHSTRING)) ∧
    ((louHyphenateBraille dict cl inlen (some (text, ip)) init).1 ≠ 0 →
      (louHyphenateBraille dict cl inlen (some (text, ip)) init).1 = 1 ∧
      Fmt inlen (louHyphenateBraille dict cl inlen (some (text, ip)) init).2) := by
  cases dict with
  | none => simp [louHyphenateBraille]
  | some d =>
    by_cases c : inlen ≥ HYPHSTRING
    · simp [louHyphenateBraille, c]
    · have hl : text.length + 3 ≤ MAXSTRING := by simp only [HYPHSTRING, MAXSTRING] at *; omega
      obtain ⟨th, hth, fth⟩ := textHyphens_fmt d cl text (List.replicate (text.length + 1) 0) (by simp) hl
      simp only [louHyphenateBraille, if_neg c, hth]
      refine ⟨?_, ?_⟩
      · constructor
        · intro h; cases h
        · rintro (h | h)
          · cases h
          · exact absurd h c
      · intro _
        refine ⟨trivial, ?_⟩
        obtain ⟨p1, p2, p3⟩ := writeRange_in (List.replicate inlen 48) ⟨init, false⟩ 0 (by simp [hinit])
        obtain ⟨q1, q2, q3⟩ := write_in ((⟨init, false⟩ : TBuf).writeRange 0 (List.replicate inlen 48)) inlen 0
          (by rw [p2]; simp [hinit])
        apply mapLoop_fmt
        · intro e he
          obtain ⟨j, hj, rfl⟩ := List.mem_iff_getElem.mp he
          simp only [List.length_zip] at hj
          simp only [List.getElem_zip]
          refine ⟨?_, hlt _ (List.getElem_mem _)⟩
          have hj' : j < text.length := by omega
          have := fth.chars j hj'
          have e : th.data.getD j 0 = th.data[j] := by
            simp [List.getD_eq_getElem?_getD, List.getElem?_eq_getElem (by omega : j < th.data.length)]
          rw [e] at this; exact this
        · refine ⟨by rw [q1, p1], by rw [q2, p2]; exact hinit, ?_, ?_⟩
          · intro k hk
            rw [q3 k, p3 k]
            have c1 : ¬ k = inlen := by omega
            have c2 : 0 ≤ k ∧ k < 0 + (List.replicate inlen 48).length := by simp; omega
            rw [if_neg c1, if_pos c2]
            left; simp [List.getD_eq_getElem?_getD, hk]
          · rw [q3]; simp

/-- `inputPos[k] == inlen` passes the range test `braillePos > inlen || braillePos < 0` and the
    NUL at `hyphens[inlen]` is replaced by a digit character -/
theorem braille_nul_overwritten :
    (louHyphenateBraille (some #[{}]) ⟨fun _ => true, id, fun _ => false⟩ 1 (some ([97], [1])) [117, 117]).2.data
      = [48, 48] := by decide

/-! ### the forced hypotheses: the unrestricted statement fails on these witnesses -/

/-- formerly F5: the pattern `1.a3` on `ab` — the `1` in front of the leading dot has no position
    in the word and is skipped, the `3` lands in front of `b`; no out-of-range access -/
theorem leading_digit_dot_in_range :
    (hyphenateWalk (compileDict [⟨1, [(46, 0), (97, 3)]⟩]) id [97, 98]).fault = none ∧
    hyphenateWord (compileDict [⟨1, [(46, 0), (97, 3)]⟩]) id [97, 98] = [0, 3] ∧
    specDigits [⟨1, [(46, 0), (97, 3)]⟩] id [97, 98] = [0, 3] := by decide

example : WFPats [⟨1, [(46, 0), (97, 3)]⟩] := by decide

/-- hyphenateWord never touches a negative index, whatever the automaton and the pattern strings -/
theorem hyphenateWord_no_negative_index (h : List Nat) (i : Nat) (s : List Nat) :
    (applyPat h h.length i s).2 = false := (applyPat_spec h h.length i s rfl).1

/-- a digit-only line `1` next to `a1b`: the property gives 1 at both points of `ab`, the
    code ignores the line -/
theorem digit_only_line_ignored :
    hyphenateWord (compileDict [⟨1, []⟩, ⟨0, [(97, 1), (98, 0)]⟩]) id [97, 98] = [0, 1] ∧
    specDigits [⟨1, []⟩, ⟨0, [(97, 1), (98, 0)]⟩] id [97, 98] = [1, 1] := by decide

example : ¬ WFPats [⟨1, []⟩, ⟨0, [(97, 1), (98, 0)]⟩] := by decide

/-- non-vacuity: a dictionary with overlapping patterns, leading/trailing dots and duplicate
    lines satisfies the hypotheses, and the theorem gives a non-trivial result on it -/
def demoPats : List Pat :=
  [⟨0, [(97, 1), (98, 0)]⟩, ⟨0, [(46, 0), (97, 0), (98, 2)]⟩, ⟨0, [(98, 1), (99, 0)]⟩, ⟨1, [(99, 0)]⟩,
   ⟨0, [(97, 0), (98, 3), (99, 4)]⟩, ⟨0, [(97, 2), (98, 0)]⟩, ⟨0, [(99, 5), (46, 0)]⟩]

example : WFPats demoPats ∧ FitsStates demoPats := by decide
theorem demo_spec : specDigits demoPats id [99, 97, 98, 99, 99] = [1, 0, 2, 3, 4] := by decide
example : hyphenateWordX (compileDict demoPats) id [99, 97, 98, 99, 99] = .ok [1, 0, 2, 3, 4] := by
  rw [← demo_spec]; exact hyph_refines_spec demoPats (by decide) (by decide) id _

end Lou.C17
