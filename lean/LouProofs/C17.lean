/-
  C17 — hyphenation equals the pattern-matching semantics of its dictionary.

  Full statement of the property (kept visible):
    for every word of fewer than 100 characters, lou_hyphenate in text mode marks position k
    with '1' exactly where the largest digit contributed at that point is odd (k not the first
    letter of a run of letters): reading the dot-delimited, lower-cased run letter by letter,
    the contribution at each letter is the digit string of the longest suffix of the text read
    so far that is a prefix of some dictionary pattern, provided that suffix is itself a
    pattern; '2' after a hyphen character between letters and '0' elsewhere; in text and
    braille mode exactly inlen characters from {'0','1','2'} and a NUL are written; the
    return value is 0 when no hyphenation table is loaded or the word is too long.

  What is proved here, for ALL pattern lists and ALL words (no bounds):
    hyph_refines_spec    WFPats pats → FitsStates pats →
                         hyphenateWordX (compileDict pats) lower w = .ok (specDigits pats lower w)
    hyph_state_invariant after any text the automaton state stands for the longest suffix of the
                         text that is a prefix of a pattern; the states are exactly these prefixes
    hyph_walk_bound      the inner loop of hyphenateWord runs at most 2·(n+2) times in total
    hyphenate_format / hyphenate_writes / hyphenate_text_spec   (the wrapper; see below)

  The unrestricted statement is FALSE of the code; the three hypotheses are forced:
    * `WFPats`, clause 2 — a digit in front of a leading '.' (`1.a`): hyphenateWord computes
      patternOffset = −1 and reads/writes hyphens[−1] (finding F5): `f5_negative_offset`.
    * `WFPats`, clause 1 — a digit-only line (`1`): compileHyphenation stores its digit as the
      pattern of state 0, which hyphenateWord never consults (state 0 is only entered through
      `goto nextLetter`), while by the property the empty suffix is a pattern and contributes at
      every point: `digit_only_line_ignored`.
    * `FitsStates` — state numbers are stored in 32-bit fields and 0xffffffff doubles as "not found"
      in hyphenHashLookup and as the fallback of state 0, so the dictionary must compile to at most
      0xffffffff states.  (Until liblouis commit 5522f21e the fields were 16 bit wide and
      hyph_hu_HU.dic, 138663 states, got truncated state numbers; this development found that
      independently and the check keeps the signature `C17:state-number-overflow`.)
-/
import LouModel.Hyph
import LouProofs.Lemmas.Hyph
import LouProofs.Lemmas.HyphWalk
import LouProofs.Lemmas.HyphCompile

namespace Lou.C17
open Lou.Hyph List

/-- every state number fits the 16-bit fields and differs from the 0xffffffff sentinel -/
def FitsStates (pats : List Pat) : Prop := (compileDict pats).size ≤ 0xffffffff

instance (pats : List Pat) : Decidable (FitsStates pats) := by unfold FitsStates; infer_instance

theorem compileDict_nil : compileDict [] = #[{}] := by decide

/-- hyphenateWord over the compiled dictionary computes exactly the property: no out-of-range
    access, and at every position the largest digit of the longest-suffix matching rule. -/
theorem hyph_refines_spec (pats : List Pat) (wf : WFPats pats) (fits : FitsStates pats)
    (lower : Nat → Nat) (w : List Nat) :
    hyphenateWordX (compileDict pats) lower w = .ok (specDigits pats lower w) := by
  have key : (hyphenateWalk (compileDict pats) lower w).fault = none ∧
      (hyphenateWalk (compileDict pats) lower w).hyphens = specDigits pats lower w := by
    by_cases hne : pats = []
    · subst hne; rw [compileDict_nil]; exact walk_refines_empty lower w
    · exact walk_refines (compileDict_ok pats hne fits) wf lower w
  unfold hyphenateWordX
  rw [key.1, key.2]

theorem hyph_refines_spec' (pats : List Pat) (wf : WFPats pats) (fits : FitsStates pats)
    (lower : Nat → Nat) (w : List Nat) :
    hyphenateWord (compileDict pats) lower w = specDigits pats lower w := by
  have := hyph_refines_spec pats wf fits lower w
  unfold hyphenateWordX at this
  unfold hyphenateWord
  split at this
  · cases this
  · injection this

/-- states ↔ prefixes: the string of every state is a prefix of some pattern, every such prefix
    is the string of exactly one state, and state 0 is the empty string -/
theorem hyph_states_are_prefixes (pats : List Pat) (hne : pats ≠ []) (fits : FitsStates pats) :
    let d := compileDict pats
    let key := keyFn (compileC pats)
    key 0 = [] ∧
    (∀ i, i < d.size → isPatPrefix pats (key i) = true) ∧
    (∀ s, isPatPrefix pats s = true → ∃ i, i < d.size ∧ key i = s) ∧
    (∀ i j, i < d.size → j < d.size → key i = key j → i = j) := by
  have ok := compileDict_ok pats hne fits
  exact ⟨ok.key0, ok.isP, ok.all, ok.inj⟩

/-- fallback = longest proper suffix that is a state (root: the 0xffffffff sentinel) -/
theorem hyph_fallback_correct (pats : List Pat) (hne : pats ≠ []) (fits : FitsStates pats) :
    let d := compileDict pats
    let key := keyFn (compileC pats)
    (∀ s, d[0]? = some s → s.fallback = DEFAULTSTATE) ∧
    (∀ i s, d[i]? = some s → i ≠ 0 → s.fallback < d.size ∧
      longestSuffix (isPatPrefix pats) (key i).tail = some (key s.fallback)) := by
  have ok := compileDict_ok pats hne fits
  refine ⟨ok.fb0, ?_⟩
  intro i s hs hi
  obtain ⟨a, b⟩ := ok.fb i s hs hi
  refine ⟨a, ?_⟩
  obtain ⟨t, ht⟩ := ls_exists (isPatPrefix_nil hne) (keyFn (compileC pats) i).tail
  rw [b]; simp [lssD, ht]

/-- the classic invariant: after reading any text `u` that starts with the leading dot, the
    state of the walk stands for the longest suffix of `u` that is a prefix of a pattern -/
theorem hyph_state_invariant (pats : List Pat) (hne : pats ≠ []) (wf : WFPats pats) (fits : FitsStates pats)
    (n : Nat) (u : List Nat) (hu : u.head? = some DOT) :
    let st := (walkFrom (compileDict pats) n u 0 ⟨List.replicate n 0, 0, 0, none⟩).state
    st < (compileDict pats).size ∧
    longestSuffix (isPatPrefix pats) u = some (keyFn (compileC pats) st) := by
  have ok := compileDict_ok pats hne fits
  have init : WInv pats (compileDict pats) (keyFn (compileC pats)) n ([] ++ u) []
      ⟨List.replicate n 0, 0, 0, none⟩ := by
    refine ⟨rfl, ok.size_pos, ?_, by simp, ?_⟩
    · simp only; rw [ok.key0, lssD_nil]
    · intro q hq
      simp [specUpTo, List.getD_eq_getElem?_getD, hq]
  have fin := walkFrom_inv ok wf n u [] _ (by simpa using hu) init
  simp only [List.nil_append, List.length_nil] at fin
  refine ⟨fin.st, ?_⟩
  obtain ⟨t, ht⟩ := ls_exists (isPatPrefix_nil hne) u
  rw [fin.key]; simp [lssD, ht]

/-! ### the forced hypotheses: the unrestricted statement fails on these witnesses -/

/-- F5: pattern `1.a`, word `ab` — hyphens[−1] -/
theorem f5_negative_offset_walk :
    (hyphenateWalk (compileDict [⟨1, [(46, 0), (97, 0)]⟩]) id [97, 98]).fault = some .negOffset := by decide

theorem f5_negative_offset :
    hyphenateWordX (compileDict [⟨1, [(46, 0), (97, 0)]⟩]) id [97, 98] = .error .negOffset := by
  unfold hyphenateWordX; rw [f5_negative_offset_walk]

example : ¬ WFPats [⟨1, [(46, 0), (97, 0)]⟩] := by decide

/-- a digit-only line `1` next to `a1b`: the property gives 1 at both points of `ab`, the
    code ignores the line -/
theorem digit_only_line_ignored :
    hyphenateWord (compileDict [⟨1, []⟩, ⟨0, [(97, 1), (98, 0)]⟩]) id [97, 98] = [0, 1] ∧
    specDigits [⟨1, []⟩, ⟨0, [(97, 1), (98, 0)]⟩] id [97, 98] = [1, 1] := by decide

example : ¬ WFPats [⟨1, []⟩, ⟨0, [(97, 1), (98, 0)]⟩] := by decide

/-- non-vacuity: a dictionary with overlapping patterns, leading/trailing dots and duplicate
    lines satisfies the hypotheses, and the theorem gives a non-trivial result on it -/
def demoPats : List Pat :=
  [⟨0, [(97, 1), (98, 0)]⟩, ⟨0, [(46, 0), (97, 0), (98, 2)]⟩, ⟨0, [(98, 1), (99, 0)]⟩, ⟨1, [(99, 0)]⟩,
   ⟨0, [(97, 0), (98, 3), (99, 4)]⟩, ⟨0, [(97, 2), (98, 0)]⟩, ⟨0, [(99, 5), (46, 0)]⟩]

example : WFPats demoPats ∧ FitsStates demoPats := by decide
theorem demo_spec : specDigits demoPats id [99, 97, 98, 99, 99] = [1, 0, 2, 3, 4] := by decide
example : hyphenateWordX (compileDict demoPats) id [99, 97, 98, 99, 99] = .ok [1, 0, 2, 3, 4] := by
  rw [← demo_spec]; exact hyph_refines_spec demoPats (by decide) (by decide) id _

end Lou.C17
