/-
  CurBlindC.lean — the forward main pass with context rules is blind to the cursor too (what it emits, maps and
  consumes does not depend on `cpos`/`cstat`), hence so is the engine `callFwd` runs (`engineFor`), and C10's
  optional-argument theorems hold for every call the whole-call model covers.
-/
import LouProofs.CurBlind
import LouProofs.FwdCOK

namespace Lou.CurBlindC
open Lou Lou.Gen Lou.Fwd Lou.FwdC Lou.CurBlind

theorem er_eq_iff (o o' : Out) : er o = er o' ↔ (o.cells = o'.cells ∧ o.map = o'.map) := by
  constructor
  · intro h
    exact ⟨by have := congrArg Out.cells h; simpa using this, by have := congrArg Out.map h; simpa using this⟩
  · intro ⟨a, b⟩
    obtain ⟨c, m, p, s⟩ := o
    obtain ⟨c', m', p', s'⟩ := o'
    simp only at a b
    subst a b
    rfl

theorem map_er_cases {a b : Option Out} (h : a.map er = b.map er) :
    (a = none ∧ b = none) ∨ ∃ x y, a = some x ∧ b = some y ∧ er x = er y := by
  cases a with
  | none => cases b with
    | none => exact Or.inl ⟨rfl, rfl⟩
    | some y => simp at h
  | some x => cases b with
    | none => simp at h
    | some y => simp only [Option.map_some, Option.some.injEq] at h; exact Or.inr ⟨x, y, rfl, rfl, h⟩

theorem putc_pair (t : Table) (mode c pos : Nat) (input : List Nat) (max : Nat) (o o' : Out) (h : er o = er o') :
    (putCharacter t mode c pos input max o).map er = (putCharacter t mode c pos input max o').map er := by
  rw [putc_er t mode c pos input max o, putc_er t mode c pos input max o', h]

def er2 (r : Out × Bool) : Out × Bool := (er r.1, r.2)

theorem copyChars_er (t : Table) (mode : Nat) (input : List Nat) (max : Nat) :
    ∀ (k : Nat) (frm to : Int) (o o' : Out), er o = er o' →
      er2 (copyChars t mode input max k frm to o) = er2 (copyChars t mode input max k frm to o') := by
  intro k
  induction k with
  | zero => intro frm to o o' h; simp [copyChars, er2, h]
  | succ k ih =>
    intro frm to o o' h
    unfold copyChars
    split
    · rcases map_er_cases (putc_pair t mode (Pass.elem input frm) frm.toNat input max o o' h) with ⟨h1, h2⟩ | ⟨x, y, h1, h2, hxy⟩
      · simp [h1, h2, er2, h]
      · simp only [h1, h2]; exact ih _ _ x y hxy
    · simp [er2, h]

def erA : ActC → ActC
  | .unsupported => .unsupported
  | .fail o vs => .fail (er o) vs
  | .ok o np vs => .ok (er o) np vs

theorem moveOut_er (o o' : Out) (dsm dsr : Nat) (h : er o = er o') : er (moveOut o dsm dsr) = er (moveOut o' dsm dsr) := by
  obtain ⟨hc, hm⟩ := (er_eq_iff o o').mp h
  apply (er_eq_iff _ _).mpr
  unfold moveOut
  simp only [hc, hm, and_self]

theorem actLoopC_er (t : Table) (mode : Nat) (p input : List Nat) (m : Pass.Match) (max dsm : Nat) :
    ∀ (fuel ic : Nat) (o o' : Out) (dsr : Nat) (np : Int) (vars : List Nat), er o = er o' →
      erA (actLoopC t mode p input m max dsm fuel ic o dsr np vars) = erA (actLoopC t mode p input m max dsm fuel ic o' dsr np vars) := by
  intro fuel
  induction fuel with
  | zero => intro ic o o' dsr np vars _; simp [actLoopC, erA]
  | succ f ih =>
    intro ic o o' dsr np vars h
    obtain ⟨hc, hm⟩ := (er_eq_iff o o').mp h
    unfold actLoopC
    by_cases hend : ic ≥ p.length
    · simp only [hend, ↓reduceIte, erA, h]
    · simp only [hend, ↓reduceIte]
      by_cases hlit : (Pass.ins p ic == pass_string || Pass.ins p ic == pass_dots) = true
      · simp only [hlit, ↓reduceIte, hc]
        split
        · simp only [erA, h]
        · apply ih
          apply (er_eq_iff _ _).mpr
          simp only [hc, hm, and_self]
      · simp only [hlit, Bool.false_eq_true, ↓reduceIte]
        by_cases hom : (Pass.ins p ic == pass_omit) = true
        · simp only [hom, ↓reduceIte]; exact ih _ _ _ _ _ _ h
        · simp only [hom, Bool.false_eq_true, ↓reduceIte]
          by_cases hcp : (Pass.ins p ic == pass_copy) = true
          · simp only [hcp, ↓reduceIte]
            by_cases hcount : dsr - dsm > 0
            · simp only [hcount, ↓reduceIte]
              by_cases hcap : dsr + (dsr - dsm) > max
              · simp only [hcap, ↓reduceIte, erA, h]
              · simp only [hcap, ↓reduceIte]
                have hmv := moveOut_er o o' dsm dsr h
                have hcc := copyChars_er t mode input max (m.endReplace - m.startReplace).toNat m.startReplace m.endReplace _ _ hmv
                generalize copyChars t mode input max (m.endReplace - m.startReplace).toNat m.startReplace m.endReplace (moveOut o dsm dsr) = c1 at hcc
                generalize copyChars t mode input max (m.endReplace - m.startReplace).toNat m.startReplace m.endReplace (moveOut o' dsm dsr) = c2 at hcc
                obtain ⟨x, b1⟩ := c1
                obtain ⟨y, b2⟩ := c2
                simp only [er2, Prod.mk.injEq] at hcc
                obtain ⟨hxy, rfl⟩ := hcc
                cases b1
                · simp only [erA, hxy]
                · exact ih _ _ _ _ _ _ hxy
            · simp only [hcount, ↓reduceIte]
              have hcc := copyChars_er t mode input max (m.endReplace - m.startReplace).toNat m.startReplace m.endReplace _ _ h
              generalize copyChars t mode input max (m.endReplace - m.startReplace).toNat m.startReplace m.endReplace o = c1 at hcc
              generalize copyChars t mode input max (m.endReplace - m.startReplace).toNat m.startReplace m.endReplace o' = c2 at hcc
              obtain ⟨x, b1⟩ := c1
              obtain ⟨y, b2⟩ := c2
              simp only [er2, Prod.mk.injEq] at hcc
              obtain ⟨hxy, rfl⟩ := hcc
              cases b1
              · simp only [erA, hxy]
              · exact ih _ _ _ _ _ _ hxy
          · simp only [hcp, Bool.false_eq_true, ↓reduceIte]
            by_cases hsw : (Pass.ins p ic == pass_swap) = true
            · simp only [hsw, ↓reduceIte]
              cases hr : Pass.refRule t p ic with
              | none => simp [erA]
              | some r =>
                simp only [hc, hm]
                by_cases hres : (Pass.swapReplace r input max (m.endReplace - m.startReplace).toNat m.startReplace ⟨o'.cells, o'.map⟩).2 = true
                · simp only [hres, ↓reduceIte]
                  apply ih
                  apply (er_eq_iff _ _).mpr
                  simp
                · simp only [hres, Bool.false_eq_true, ↓reduceIte, erA]
                  congr 1
            · simp only [hsw, Bool.false_eq_true, ↓reduceIte]
              cases hv : Pass.varAction p ic vars with
              | none => simp [erA]
              | some vl => exact ih _ _ _ _ _ _ h

theorem actionC_er (t : Table) (mode : Nat) (p input : List Nat) (m : Pass.Match) (ic max : Nat) (o o' : Out) (vars : List Nat)
    (h : er o = er o') : erA (actionC t mode p input m ic max o vars) = erA (actionC t mode p input m ic max o' vars) := by
  obtain ⟨hc, hm⟩ := (er_eq_iff o o').mp h
  unfold actionC
  have hcc := copyChars_er t mode input max (m.startReplace - m.startMatch).toNat m.startMatch m.startReplace o o' h
  generalize copyChars t mode input max (m.startReplace - m.startMatch).toNat m.startMatch m.startReplace o = c1 at hcc
  generalize copyChars t mode input max (m.startReplace - m.startMatch).toNat m.startMatch m.startReplace o' = c2 at hcc
  obtain ⟨x, b1⟩ := c1
  obtain ⟨y, b2⟩ := c2
  simp only [er2, Prod.mk.injEq] at hcc
  obtain ⟨hxy, rfl⟩ := hcc
  cases b1
  · simp only [erA, hxy]
  · simp only [hc]
    have hxl : x.cells.length = y.cells.length := by rw [((er_eq_iff x y).mp hxy).1]
    rw [hxl]
    exact actLoopC_er t mode p input m max _ _ _ x y _ _ _ hxy


def erSC (sc : StC) : StC := { sc with st := erS sc.st }

theorem lastWord_out (t : Table) (input : List Nat) (st : St) (o' : Out) (h : er st.out = er o') :
    lastWord t input { st with out := o' } = { lastWord t input st with out := o' } := by
  have hc := ((er_eq_iff _ _).mp h).1
  unfold lastWord
  simp only []
  split
  · simp only [hc]
  · rfl

theorem lastWord_keeps_out (t : Table) (input : List Nat) (st : St) : (lastWord t input st).out = st.out := by
  unfold lastWord; split <;> rfl

/-- one iteration on two states that agree except for the cursor bookkeeping of the output -/
theorem stepC_er (t : Table) (mode : Nat) (input : List Nat) (max : Nat) (sc : StC) (o' : Out) (h : er sc.st.out = er o') :
    erSC (stepC t mode input max sc).1 = erSC (stepC t mode input max { sc with st := { sc.st with out := o' } }).1 ∧
    (stepC t mode input max sc).2 = (stepC t mode input max { sc with st := { sc.st with out := o' } }).2 := by
  unfold stepC
  simp only []
  rw [lastWord_out t input sc.st o' h]
  have hk := lastWord_keeps_out t input sc.st
  generalize lastWord t input sc.st = s1 at hk ⊢
  have h1 : er s1.out = er o' := by rw [hk]; exact h
  clear hk h
  obtain ⟨p, o, to, po, dc, li, lo, ap⟩ := s1
  simp only [] at h1 ⊢
  by_cases hc2 : (p == input.length) = true
  · simp only [hc2, ↓reduceIte]; simp [erSC, erS, h1]
  · simp only [hc2, Bool.false_eq_true, ↓reduceIte]
    generalize selectRuleC t mode dc input p (beforeAttrs t input p) po sc.posInc sc.vars = s
    by_cases hu : s.unsupported = true
    · simp only [hu, ↓reduceIte]; simp [erSC, erS, h1]
    · simp only [hu, Bool.false_eq_true, ↓reduceIte]
      have hi : (insertNumberSign t input p po (beforeAttrs t input p) max o).map er =
                (insertNumberSign t input p po (beforeAttrs t input p) max o').map er := by
        rw [ins_er _ _ _ _ _ _ o, ins_er _ _ _ _ _ _ o', h1]
      rcases map_er_cases hi with ⟨e1, e2⟩ | ⟨x, y, e1, e2, hxy⟩
      · simp only [e1, e2]; simp [erSC, erS, h1]
      · simp only [e1, e2]
        generalize foundC t s sc.posInc sc.vars input p = found
        cases found with
        | unsupported => simp [erSC, erS, hxy]
        | rule r m ic =>
          simp only []
          have ha := actionC_er t mode r.dots input m ic max x y sc.vars hxy
          generalize actionC t mode r.dots input m ic max x sc.vars = a1 at ha
          generalize actionC t mode r.dots input m ic max y sc.vars = a2 at ha
          cases a1 <;> cases a2 <;> simp only [erA, reduceCtorEq, ActC.fail.injEq, ActC.ok.injEq] at ha
          · simp [erSC, erS, hxy]
          · obtain ⟨ho, rfl⟩ := ha; simp [erSC, erS, ho]
          · obtain ⟨ho, rfl, rfl⟩ := ha; simp [erSC, erS, ho]
        | none =>
          simp only []
          have he := emit_er t mode input max s.sel p x y hxy
          generalize emit t mode input max s.sel p x = e1' at he ⊢
          generalize emit t mode input max s.sel p y = e2' at he ⊢
          obtain ⟨a1, b1, c1⟩ := e1'
          obtain ⟨a2, b2, c2⟩ := e2'
          simp only [er3, Prod.mk.injEq] at he
          obtain ⟨rfl, hb, rfl⟩ := he
          cases c1 <;> simp [erSC, erS, hb]


theorem erSC_of (sc sc' : StC) (h : erSC sc = erSC sc') :
    sc' = { sc with st := { sc.st with out := sc'.st.out } } ∧ er sc.st.out = er sc'.st.out := by
  obtain ⟨⟨p, o, to, po, dc, li, lo, ap⟩, pi, vs, un⟩ := sc
  obtain ⟨⟨p', o', to', po', dc', li', lo', ap'⟩, pi', vs', un'⟩ := sc'
  simp only [erSC, erS, StC.mk.injEq, St.mk.injEq] at h
  obtain ⟨⟨rfl, ho, rfl, rfl, rfl, rfl, rfl, rfl⟩, rfl, rfl, rfl⟩ := h
  exact ⟨rfl, ho⟩

theorem loopC_er (t : Table) (mode : Nat) (input : List Nat) (max : Nat) :
    ∀ (fuel : Nat) (sc sc' : StC), erSC sc = erSC sc' →
      erSC (loopC t mode input max fuel sc).1 = erSC (loopC t mode input max fuel sc').1 ∧
      (loopC t mode input max fuel sc).2 = (loopC t mode input max fuel sc').2 := by
  intro fuel
  induction fuel with
  | zero => intro sc sc' h; exact ⟨h, rfl⟩
  | succ f ih =>
    intro sc sc' h
    obtain ⟨hs, ho⟩ := erSC_of sc sc' h
    have hst := stepC_er t mode input max sc sc'.st.out ho
    rw [← hs] at hst
    unfold loopC
    generalize stepC t mode input max sc = r at hst
    generalize stepC t mode input max sc' = r' at hst
    obtain ⟨s1, d1⟩ := r
    obtain ⟨s2, d2⟩ := r'
    simp only at hst
    obtain ⟨h1, rfl⟩ := hst
    simp only []
    split
    · exact ⟨h1, rfl⟩
    · exact ih s1 s2 h1

/-- a result with the cursor fields forgotten -/
def erR : ResC → ResC
  | .done r => .done { r with cpos := 0, cstat := 0 }
  | x => x

/-- **translateC_cursor_blind**: cells, position map, consumed length and applied rules of the main pass with context
    rules do not depend on the cursor -/
theorem translateC_cursor_blind (t : Table) (mode : Nat) (input : List Nat) (max : Nat) (c1 s1 c2 s2 : Int) :
    erR (translateC t mode input max c1 s1) = erR (translateC t mode input max c2 s2) := by
  have h := loopC_er t mode input max (2 * input.length + 2) { st := { out := { cpos := c1, cstat := s1 } } }
    { st := { out := { cpos := c2, cstat := s2 } } } rfl
  unfold translateC
  generalize loopC t mode input max (2 * input.length + 2) { st := { out := { cpos := c1, cstat := s1 } } } = a at h
  generalize loopC t mode input max (2 * input.length + 2) { st := { out := { cpos := c2, cstat := s2 } } } = b at h
  obtain ⟨sa, fa⟩ := a
  obtain ⟨sb, fb⟩ := b
  simp only at h
  obtain ⟨h1, rfl⟩ := h
  obtain ⟨hs, ho⟩ := erSC_of sa sb h1
  obtain ⟨hc, hm⟩ := (er_eq_iff _ _).mp ho
  rw [hs]
  simp only []
  by_cases hu : sa.unsupported = true
  · simp [hu, erR]
  · simp only [hu, Bool.false_eq_true, ↓reduceIte]
    cases fa
    · simp [erR]
    · simp only [Bool.not_true, Bool.false_eq_true, ↓reduceIte, erR, hc, hm]

open Lou.Drv Lou.Contract in
/-- the engine with the context main pass is blind to the spacing array and to the cursor -/
theorem modelEngineC_blind (t : Table) : C10.SpacingBlind (Engine.modelEngineC t) ∧ C10.CursorBlind (Engine.modelEngineC t) := by
  constructor
  · intro i sp hist pin; rfl
  · intro ini h1 h2 p1 p2 _ hp
    obtain ⟨n1, ch1, m1, cp1, cs1⟩ := p1
    obtain ⟨n2, ch2, m2, cp2, cs2⟩ := p2
    simp only [C10.erIn, PassIn.mk.injEq] at hp
    obtain ⟨rfl, rfl, rfl, -, -⟩ := hp
    unfold Engine.modelEngineC
    dsimp only
    split
    · have hb := translateC_cursor_blind t ini.mode ch1 m1 cp1 cs1 cp2 cs2
      generalize translateC t ini.mode ch1 m1 cp1 cs1 = r1 at hb
      generalize translateC t ini.mode ch1 m1 cp2 cs2 = r2 at hb
      cases r1 <;> cases r2 <;> simp only [erR, reduceCtorEq, ResC.done.injEq] at hb <;> simp only [C10.erOut]
      rename_i a b
      obtain ⟨ao, am, ar, ac, as, aa⟩ := a
      obtain ⟨bo, bm, br, bc, bs, ba⟩ := b
      simp only [PassResult.mk.injEq] at hb
      obtain ⟨rfl, rfl, rfl, -, -, -⟩ := hb
      rfl
    · cases hs : Pass.fwdStage t n1 ch1 m1 <;> simp [C10.erOut]

open Lou.Drv Lou.Contract Lou.ModelEngine in
theorem engineFor_blind (t : Table) : C10.SpacingBlind (Engine.engineFor t) ∧ C10.CursorBlind (Engine.engineFor t) := by
  unfold Engine.engineFor
  split
  · exact modelEngineC_blind t
  · exact modelEngine_blind t

open Lou.Drv Lou.Contract in
/-- **whole_call_optargs** (C10 for every call the whole-call model covers): passing NULL for spacing or for cursorPos
    does not change return value, lengths or output text of what `MCALL` computes -/
theorem whole_call_optargs (tbl : Option TableInfo) (disp : Nat → Nat) (t : Table) (a : Args) (sp : Option (List Nat)) (c : Option Int) :
    C10.core (fwd tbl disp (Engine.engineFor t) { a with spacing := sp }) = C10.core (fwd tbl disp (Engine.engineFor t) { a with spacing := none }) ∧
    C10.core (fwd tbl disp (Engine.engineFor t) { a with cursor := c }) = C10.core (fwd tbl disp (Engine.engineFor t) { a with cursor := none }) :=
  ⟨C10.optargs_spacing tbl disp (Engine.engineFor t) a (engineFor_blind t).1 sp,
   C10.optargs_cursor tbl disp (Engine.engineFor t) a (engineFor_blind t).2 c⟩

end Lou.CurBlindC
