/-
  C12 — "A compiled table image is internally consistent".

  Full statement of the property (fixed text): a table that compiles successfully yields an image in
  which every stored reference designates a complete object of the expected kind inside the used
  part of the image; chains are finite, no two objects overlap, every rule sits in the bucket
  determined by its first two characters or cells (case-folded for context rules), forward chains
  are ordered longest first, `always` last among equals, definition order otherwise; this stays
  true after run-time additions and relocation.

  What is proved here
  * `arena_alloc_inv`      the bump allocator, for ANY sequence of allocation / reservation sizes:
                           objects 8-aligned, pairwise disjoint, inside `[headerSize+8, bytesUsed)`,
                           offset never 0, `bytesUsed ≤ tableSize`, and growth never changes an
                           offset handed out earlier (the object list only grows at the front).
  * `checkImage_sound`     `checkImage img = []  →  ImageConsistent img`   (readable conjunction)
  * `checkTable_sound`     `checkTable t linked = []  →  TableConsistent t linked`
  * `lookup_complete`      in a consistent table a rule linked in a forward bucket is in the bucket
                           its (folded) hash designates, and a chain walk (`find?`) for any predicate
                           the rule satisfies stops at that rule or at one standing before it.
  * `compile_consistent`   see LouProofs/C12Compile.lean: every table the compile model produces
                           (fragment F0′), finalised or not, satisfies the rule clauses.

  Established by *running the proved checkers on each real image* (translation validation, done by
  tools/lv/props/C12.py on every shipped and generated table and on every inspected prefix of the
  run-time additions), not by a theorem about the C compiler: all clauses for tables outside the
  fragment F0′ (pass programs, patterns, hyphenation, emphasis slots, display maps, `context`
  re-bucketing), and for every table the raw-image clauses (object sizes, reference targets).
-/
import LouModel.Image
import LouProofs.Lemmas.Chain

namespace Lou.C12
open Lou Lou.Gen Lou.Compile Lou.Image

/-! ## A. the allocator -/

theorem ceil8_ge (n : Nat) : n ≤ ceil8 n := by unfold ceil8; omega
theorem ceil8_mod (n : Nat) : ceil8 n % 8 = 0 := by unfold ceil8; omega

/-- invariant of the allocator state -/
structure ArenaWF (a : Arena) : Prop where
  hsAligned : a.headerSize % 8 = 0
  usedAligned : a.bytesUsed % 8 = 0
  usedLo : a.headerSize + 8 ≤ a.bytesUsed
  usedHi : a.bytesUsed ≤ a.tableSize
  /-- every object: offset ≥ 1, 8-aligned, inside the used part, at least as long as requested -/
  inside : ∀ o ∈ a.objs, 1 ≤ o.off ∧ o.start a.headerSize % 8 = 0 ∧ a.headerSize + 8 ≤ o.start a.headerSize ∧
    o.start a.headerSize + o.size ≤ o.stop a.headerSize ∧ o.stop a.headerSize ≤ a.bytesUsed
  /-- pairwise disjoint: the list is most-recent-first, every earlier object ends before a later one starts -/
  disjoint : a.objs.Pairwise (fun later earlier => earlier.stop a.headerSize ≤ later.start a.headerSize)

theorem init_wf (hs start : Nat) (h8 : hs % 8 = 0) (hst : hs + 8 ≤ start) : ArenaWF (Arena.init hs start) := by
  refine ⟨h8, ?_, ?_, hst, ?_, ?_⟩ <;> simp [Arena.init] <;> omega

theorem reserve_fields (a : Arena) (s : Nat) :
    (a.reserve s).headerSize = a.headerSize ∧ (a.reserve s).bytesUsed = a.bytesUsed ∧ (a.reserve s).objs = a.objs ∧
    a.tableSize ≤ (a.reserve s).tableSize ∧ a.bytesUsed + ceil8 s ≤ (a.reserve s).tableSize := by
  unfold Arena.reserve
  dsimp only
  split
  · refine ⟨rfl, rfl, rfl, ?_, ?_⟩ <;> dsimp only <;> omega
  · refine ⟨rfl, rfl, rfl, Nat.le_refl _, ?_⟩; omega

theorem reserve_wf (a : Arena) (s : Nat) (h : ArenaWF a) : ArenaWF (a.reserve s) := by
  obtain ⟨e1, e2, e3, e4, _⟩ := reserve_fields a s
  refine ⟨?_, ?_, ?_, ?_, ?_, ?_⟩
  · rw [e1]; exact h.hsAligned
  · rw [e2]; exact h.usedAligned
  · rw [e1, e2]; exact h.usedLo
  · rw [e2]; exact Nat.le_trans h.usedHi e4
  · rw [e1, e2, e3]; exact h.inside
  · rw [e1, e3]; exact h.disjoint

theorem alloc_fields (a : Arena) (s : Nat) :
    (a.alloc s).1.headerSize = a.headerSize ∧ (a.alloc s).1.bytesUsed = a.bytesUsed + ceil8 s ∧
    (a.alloc s).1.objs = { off := (a.bytesUsed - a.headerSize) / 8, size := s } :: a.objs ∧
    (a.alloc s).2 = (a.bytesUsed - a.headerSize) / 8 ∧
    a.bytesUsed + ceil8 s ≤ (a.alloc s).1.tableSize ∧ a.tableSize ≤ (a.alloc s).1.tableSize := by
  obtain ⟨e1, e2, e3, e4, e5⟩ := reserve_fields a s
  unfold Arena.alloc
  dsimp only
  rw [e1, e2, e3]
  exact ⟨rfl, rfl, rfl, rfl, e5, e4⟩

/-- one allocation keeps the invariant, hands out a non-zero offset, and keeps every earlier object -/
theorem alloc_wf (a : Arena) (s : Nat) (h : ArenaWF a) :
    ArenaWF (a.alloc s).1 ∧ 1 ≤ (a.alloc s).2 ∧ (∃ o, (a.alloc s).1.objs = o :: a.objs ∧ o.off = (a.alloc s).2 ∧ o.size = s) := by
  obtain ⟨e1, e2, e3, e4, e5, _⟩ := alloc_fields a s
  have hA := h.hsAligned
  have hU := h.usedAligned
  have hL := h.usedLo
  have hc := ceil8_ge s
  have hm := ceil8_mod s
  have hoff : 8 * ((a.bytesUsed - a.headerSize) / 8) = a.bytesUsed - a.headerSize := by omega
  refine ⟨⟨?_, ?_, ?_, ?_, ?_, ?_⟩, ?_, ?_⟩
  · rw [e1]; exact hA
  · rw [e2]; omega
  · rw [e1, e2]; omega
  · rw [e2]; exact e5
  · rw [e1, e2, e3]
    intro o ho
    rcases List.mem_cons.mp ho with rfl | ho
    · unfold Obj.start Obj.stop; dsimp only; omega
    · obtain ⟨a1, a2, a3, a4, a5⟩ := h.inside o ho
      exact ⟨a1, a2, a3, a4, by omega⟩
  · rw [e1, e3]
    refine List.pairwise_cons.mpr ⟨?_, h.disjoint⟩
    intro o ho
    obtain ⟨_, _, _, _, a5⟩ := h.inside o ho
    unfold Obj.start; dsimp only; omega
  · rw [e4]; omega
  · exact ⟨_, e3, e4.symm, rfl⟩

theorem step_wf (a : Arena) (e : Ev) (h : ArenaWF a) :
    ArenaWF (a.step e) ∧ (a.step e).headerSize = a.headerSize ∧ ∃ newer, (a.step e).objs = newer ++ a.objs := by
  cases e with
  | alloc s =>
    obtain ⟨w, _, o, ho, _⟩ := alloc_wf a s h
    exact ⟨w, (alloc_fields a s).1, [o], by simpa [Arena.step] using ho⟩
  | reserve s =>
    exact ⟨reserve_wf a s h, (reserve_fields a s).1, [], by simp [Arena.step, (reserve_fields a s).2.2.1]⟩

/-- **arena_alloc_inv**: for ANY sequence of allocations and reservations (hence any number of
    reallocations of the image) the invariant holds — objects 8-aligned, pairwise disjoint, inside
    `[headerSize + 8, bytesUsed)`, never offset 0, `bytesUsed ≤ tableSize` — and every object handed
    out before is still there with the same offset and size (growth preserves all earlier offsets). -/
theorem arena_alloc_inv (evs : List Ev) : ∀ (a : Arena), ArenaWF a →
    ArenaWF (a.run evs) ∧ (a.run evs).headerSize = a.headerSize ∧ ∃ newer, (a.run evs).objs = newer ++ a.objs := by
  induction evs with
  | nil => intro a h; exact ⟨h, rfl, [], rfl⟩
  | cons e es ih =>
    intro a h
    obtain ⟨w1, hs1, n1, o1⟩ := step_wf a e h
    obtain ⟨w2, hs2, n2, o2⟩ := ih (a.step e) w1
    refine ⟨w2, hs2.trans hs1, n2 ++ n1, ?_⟩
    show ((a.step e).run es).objs = _
    rw [o2, o1, List.append_assoc]

/-- the symmetric reading of `disjoint`: any two distinct positions of the object list do not overlap -/
theorem arena_objects_disjoint (a : Arena) (h : ArenaWF a) (i j : Nat) (hi : i < a.objs.length) (hj : j < a.objs.length)
    (hne : i ≠ j) :
    (a.objs[i]).stop a.headerSize ≤ (a.objs[j]).start a.headerSize ∨ (a.objs[j]).stop a.headerSize ≤ (a.objs[i]).start a.headerSize := by
  have hp := List.pairwise_iff_getElem.mp h.disjoint
  rcases Nat.lt_or_gt_of_ne hne with hlt | hgt
  · right; exact hp i j hi hj hlt
  · left; exact hp j i hj hi hgt

/-- non-vacuity: three allocations that force a reallocation of a 100-byte-header image -/
example : ((Arena.init 96 192).run [.alloc 60, .alloc 64, .alloc 30]).objs.map (·.off) = [17, 9, 1] ∧
    ((Arena.init 96 192).run [.alloc 60, .alloc 64, .alloc 30]).tableSize = 297 := by decide

/-! ## B. the index -/

theorem index_fold_inv {α : Type} (L : List (Nat × α)) : ∀ (l : List (Nat × α)) (a : Array (Option (Nat × α))),
    (∀ (j : Nat) kv, a[j]? = some (some kv) → kv ∈ L) → (∀ x ∈ l, x ∈ L) →
    ∀ (j : Nat) kv, (l.foldl (fun a kv => a.setIfInBounds kv.1 (some kv)) a)[j]? = some (some kv) → kv ∈ L := by
  intro l
  induction l with
  | nil => intro a ha _ j kv h; exact ha j kv h
  | cons x xs ih =>
    intro a ha hl j kv h
    simp only [List.foldl_cons] at h
    refine ih (a.setIfInBounds x.1 (some x)) ?_ (fun y hy => hl y (List.mem_cons_of_mem _ hy)) j kv h
    intro j' kv' h'
    rw [Array.getElem?_setIfInBounds] at h'
    split at h'
    · split at h'
      · simp only [Option.some.injEq] at h'
        subst h'
        exact hl _ (List.mem_cons_self ..)
      · cases h'
    · exact ha j' kv' h'

/-- what the index returns for a key is an entry of the list it was built from -/
theorem index_get_sound {α : Type} (n : Nat) (l : List (Nat × α)) (k : Nat) (v : α)
    (h : Index.get (Index.build n l) k = some v) : (k, v) ∈ l := by
  unfold Index.get at h
  split at h
  next kv hkv =>
    split at h
    next hk =>
      simp only [Option.some.injEq] at h
      have hk' : kv.1 = k := by simpa using hk
      have hmem : kv ∈ l := by
        refine index_fold_inv l l (Array.replicate n none) ?_ (fun x hx => hx) k kv hkv
        intro j kv' hj
        rw [Array.getElem?_replicate] at hj
        split at hj <;> simp at hj
      have : kv = (k, v) := by rw [← hk', ← h]
      rw [← this]; exact hmem
    · cases h
  · cases h

/-! ## C. the raw image -/

/-- **the property's clauses about the raw image**, as a readable conjunction -/
structure ImageConsistent (img : RawImage) : Prop where
  /-- the used part lies inside the allocated block -/
  usedLeSize : img.bytesUsed ≤ img.tableSize
  /-- every allocated object starts on an 8-byte boundary … -/
  aligned : ∀ o ∈ img.objs, o.start img.headerSize % 8 = 0
  /-- … is never at offset 0 and lies inside the used part `[headerSize + 8, bytesUsed)` -/
  inside : ∀ o ∈ img.objs, 1 ≤ o.off ∧ img.headerSize + 8 ≤ o.start img.headerSize ∧ o.stop img.headerSize ≤ img.bytesUsed
  /-- no two objects overlap (allocation order: each ends before the next starts) -/
  disjoint : img.objs.Pairwise (fun a b => a.stop img.headerSize ≤ b.start img.headerSize)
  /-- every stored reference is the start offset of an allocated object whose size covers the
      layout of the kind the referring field expects, and (pass programs) a rule of the expected opcode -/
  refsOK : ∀ r ∈ img.refs, r.off ≠ 0 ∧ (∃ o ∈ img.objs, o.off = r.off ∧ r.need ≤ o.size) ∧ expectOK r = true
  /-- an object is referenced under one kind only -/
  oneKind : ∀ r1 ∈ img.refs, ∀ r2 ∈ img.refs, r1.off = r2.off → r1.kind = r2.kind
  /-- the walk met no reference outside the image, no endless chain, no undecodable pass program -/
  noAnomaly : img.anomalies = []

theorem objsOK_sound (hs used : Nat) (h8 : hs % 8 = 0) : ∀ (l : List Obj) (lo : Nat), hs + 8 ≤ lo → objsOK hs used lo l = true →
    (∀ o ∈ l, o.start hs % 8 = 0 ∧ 1 ≤ o.off ∧ lo ≤ o.start hs ∧ o.stop hs ≤ used) ∧
    l.Pairwise (fun a b => a.stop hs ≤ b.start hs) := by
  intro l
  induction l with
  | nil => intro lo _ _; exact ⟨(by intro o ho; cases ho), List.Pairwise.nil⟩
  | cons o rest ih =>
    intro lo hlo h
    unfold objsOK at h
    simp only [Bool.and_eq_true, decide_eq_true_eq] at h
    obtain ⟨⟨h1, h2⟩, h3⟩ := h
    have hstop : o.start hs ≤ o.stop hs := by unfold Obj.start Obj.stop; omega
    obtain ⟨ihA, ihP⟩ := ih (o.stop hs) (by omega) h3
    refine ⟨?_, List.pairwise_cons.mpr ⟨fun b hb => (ihA b hb).2.2.1, ihP⟩⟩
    intro x hx
    rcases List.mem_cons.mp hx with rfl | hx
    · refine ⟨?_, ?_, h1, h2⟩
      · unfold Obj.start; omega
      · unfold Obj.start at h1; omega
    · obtain ⟨a1, a2, a3, a4⟩ := ihA x hx
      exact ⟨a1, a2, by omega, a4⟩

theorem ite_nil_iff {c : Prop} [Decidable c] {x : String} : (if c then ([] : List String) else [x]) = [] → c := by
  intro h; by_cases hc : c
  · exact hc
  · simp [hc] at h

/-- **checkImage_sound**: an empty violation list means the image is consistent -/
theorem checkImage_sound (img : RawImage) (h : checkImage img = []) : ImageConsistent img := by
  unfold checkImage at h
  simp only [List.append_eq_nil_iff] at h
  obtain ⟨⟨⟨⟨⟨h1, h2⟩, h3⟩, h4⟩, h5⟩, h6⟩ := h
  have h1' := ite_nil_iff h1
  have h2' : img.headerSize % 8 = 0 := by simpa using ite_nil_iff h2
  have h3' : objsOK img.headerSize img.bytesUsed (img.headerSize + 8) img.objs = true := ite_nil_iff h3
  obtain ⟨oA, oP⟩ := objsOK_sound img.headerSize img.bytesUsed h2' img.objs _ (Nat.le_refl _) h3'
  refine ⟨h1', fun o ho => (oA o ho).1, fun o ho => ⟨(oA o ho).2.1, (oA o ho).2.2.1, (oA o ho).2.2.2⟩, oP, ?_, ?_, ?_⟩
  · intro r hr
    have hnone : refProblem (objIndex img) r = none := by
      have := List.filterMap_eq_nil_iff.mp h4 r hr
      cases hp : refProblem (objIndex img) r with
      | none => rfl
      | some m => simp [hp] at this
    unfold refProblem at hnone
    split at hnone
    · cases hnone
    next hz =>
      split at hnone
      · cases hnone
      next size hget =>
        split at hnone
        next hle =>
          split at hnone
          next hex =>
            refine ⟨by simpa using hz, ?_, hex⟩
            have hm := index_get_sound _ _ _ _ hget
            obtain ⟨o, ho, hoe⟩ := List.mem_map.mp hm
            simp only [Prod.mk.injEq] at hoe
            exact ⟨o, ho, hoe.1, by rw [hoe.2]; exact hle⟩
          · cases hnone
        · cases hnone
  · intro r1 hr1 r2 hr2 hoff
    have hf : ∀ r ∈ img.refs, kindProblem (kindIndex img) r = false := by
      intro r hr
      have : List.filter (kindProblem (kindIndex img)) img.refs = [] := by simpa using h5
      have := List.filter_eq_nil_iff.mp this r hr
      simpa using this
    by_cases hz : r1.off = 0
    · -- offset 0 is never an object: both references are reported by `refsOK`, kinds are not compared
      have := List.filterMap_eq_nil_iff.mp h4 r1 hr1
      unfold refProblem at this
      simp [hz] at this
    · have k1 := hf r1 hr1
      have k2 := hf r2 hr2
      unfold kindProblem at k1 k2
      have hz2 : r2.off ≠ 0 := by rw [← hoff]; exact hz
      simp only [bne_iff_ne, ne_eq, hz, not_false_eq_true, hz2, Bool.and_eq_false_imp, bne_eq_false_iff_eq,
        forall_const] at k1 k2
      rw [hoff] at k1
      rw [k1] at k2
      exact Option.some.inj k2
  · simpa using h6

/-- non-vacuity and a negative instance: a two-object image with correct references / a short one -/
def exImg (refs : List Ref) : RawImage :=
  { headerSize := 96, bytesUsed := 96 + 8 + 64 + 64, tableSize := 400, objs := [Obj.mk 1 64, Obj.mk 9 60], refs := refs }
example : checkImage (exImg [{ kind := .char, off := 1, need := 64 }, { kind := .rule, off := 9, need := 60 }]) = [] := by decide
example : checkImage (exImg [{ kind := .rule, off := 9, need := 62, via := "next:chars" }]) ≠ [] := by decide

/-- **slot_opcode**: in a consistent image an indicator or emphasis slot (the dump says `expect = 1000 + n` for the
    slot of opcode `n`) designates a rule of exactly that opcode -/
theorem slot_opcode (img : RawImage) (h : ImageConsistent img) (r : Ref) (hr : r ∈ img.refs) (he : 1000 ≤ r.expect) :
    r.opcode + 1000 = r.expect := by
  have := (h.refsOK r hr).2.2
  unfold expectOK at this
  have h1 : (r.expect == 1) = false := by simp; omega
  have h2 : (r.expect == 2) = false := by simp; omega
  simp only [h1, h2, Bool.false_eq_true, if_false, ge_iff_le, he, if_true, beq_iff_eq] at this
  exact this

/-! ## D. the logical table -/

/-- index `i` designates rule `r` of the table -/
def Res (t : Table) (i : Nat) (r : Rule) : Prop := r ∈ t.rules ∧ r.idx = i
def Resolves (t : Table) (i : Nat) : Prop := ∃ r, Res t i r
def ResolvesOpt (t : Table) (o : Option Nat) : Prop := ∀ i, o = some i → Resolves t i
/-- `P` holds of every rule designated by a member of the chain -/
def ChainAll (t : Table) (chain : List Nat) (P : Rule → Prop) : Prop := ∀ i ∈ chain, ∀ r, Res t i r → P r
/-- of any two members of the chain, the rule of the earlier one may stand before the rule of the later one -/
def ChainOrdered (t : Table) (chain : List Nat) (R : Rule → Rule → Prop) : Prop :=
  chain.Pairwise (fun i j => ∀ ri rj, Res t i ri → Res t j rj → R ri rj)
def OptAll (t : Table) (o : Option Nat) (P : Rule → Prop) : Prop := ∀ i, o = some i → ∀ r, Res t i r → P r

def IsDef (r : Rule) : Prop := isDefOpcode r.opcode = true

/-- character chains: non-definition rules in definition order, then definition rules in definition order -/
def CharLe (a b : Rule) : Prop := (¬ IsDef a ∧ IsDef b) ∨ ((IsDef a ↔ IsDef b) ∧ a.idx < b.idx)
/-- pass chains: decreasing length of the leading literal, definition order among equals -/
def PassLe (a b : Rule) : Prop := a.chars.length > b.chars.length ∨ (a.chars.length = b.chars.length ∧ a.idx < b.idx)

/-- **the property's clauses about rules**, on the logical table, as a readable conjunction -/
structure TableConsistent (t : Table) (linked : List (Nat × Nat)) : Prop where
  /-- rule indices are strictly increasing (hence an index designates at most one rule) and below the counter -/
  rulesSorted : t.rules.Pairwise (fun a b => a.idx < b.idx)
  belowCounter : ∀ r ∈ t.rules, r.idx < t.ruleCounter
  /-- every stored rule index — chains, buckets, definition / comp rules, emphasis and indicator slots — designates a rule -/
  resChars : ∀ c ∈ t.chars, (∀ i ∈ c.chain, Resolves t i) ∧ ResolvesOpt t c.defRule ∧ ResolvesOpt t c.compRule
  resDots : ∀ d ∈ t.dots, (∀ i ∈ d.chain, Resolves t i) ∧ ResolvesOpt t d.defRule
  resFor : ∀ b ∈ t.forB, ∀ i ∈ b.2, Resolves t i
  resBack : ∀ b ∈ t.backB, ∀ i ∈ b.2, Resolves t i
  resForPass : ∀ b ∈ t.forPass, ∀ i ∈ b.2, Resolves t i
  resBackPass : ∀ b ∈ t.backPass, ∀ i ∈ b.2, Resolves t i
  resEmph : ∀ e ∈ t.emph, Resolves t e.2.2
  resSlots : ResolvesOpt t t.undefined ∧ ResolvesOpt t t.letterSign ∧ ResolvesOpt t t.numberSign ∧
    ResolvesOpt t t.noContractSign ∧ ResolvesOpt t t.noNumberSign ∧ ResolvesOpt t t.begComp ∧ ResolvesOpt t t.endComp
  /-- chains are duplicate-free (with finiteness of the dumped lists: every chain walk ends) -/
  nodupChars : ∀ c ∈ t.chars, c.chain.Nodup
  nodupDots : ∀ d ∈ t.dots, d.chain.Nodup
  nodupFor : ∀ b ∈ t.forB, b.2.Nodup
  nodupBack : ∀ b ∈ t.backB, b.2.Nodup
  nodupForPass : ∀ b ∈ t.forPass, b.2.Nodup
  nodupBackPass : ∀ b ∈ t.backPass, b.2.Nodup
  /-- a bucket is listed once, under a hash value below HASHNUM / a pass number ≤ 4 -/
  keysFor : (t.forB.map (·.1)).Nodup ∧ ∀ b ∈ t.forB, b.1 < HASHNUM
  keysBack : (t.backB.map (·.1)).Nodup ∧ ∀ b ∈ t.backB, b.1 < HASHNUM
  keysForPass : (t.forPass.map (·.1)).Nodup ∧ ∀ b ∈ t.forPass, b.1 ≤ 4
  keysBackPass : (t.backPass.map (·.1)).Nodup ∧ ∀ b ∈ t.backPass, b.1 ≤ 4
  /-- every rule in forward bucket `h` has at least two characters and `h` is the hash of the first two
      (case-folded for `context` rules of a finalised table: that is the hash the lookups compute) -/
  fwdMember : ∀ b ∈ t.forB, ChainAll t b.2 (fun r => 2 ≤ r.chars.length ∧ fwdHash t linked r = b.1)
  /-- backward buckets likewise on cells (`context` rules are filed under their characters) -/
  backMember : ∀ b ∈ t.backB, ChainAll t b.2 (fun r => 2 ≤ (backCells r).length ∧ backHash r = b.1 ∧ r.opcode ≠ CTO_SwapCc)
  /-- the chain of a character holds only rules for exactly that character; of a cell, for exactly that cell -/
  charMember : ∀ c ∈ t.chars, ChainAll t c.chain (fun r => r.chars = [c.value])
  dotsMember : ∀ d ∈ t.dots, ChainAll t d.chain
    (fun r => backCells r = [d.value] ∧ r.opcode ≠ CTO_SwapCc ∧ r.opcode ≠ CTO_Repeated)
  /-- the definition rule of a character / cell is a definition rule for it; the comp rule a comp rule for it -/
  charDef : ∀ c ∈ t.chars, OptAll t c.defRule (fun r => IsDef r ∧ r.chars = [c.value]) ∧
    OptAll t c.compRule (fun r => (r.opcode = CTO_CompDots ∨ r.opcode = CTO_Comp6) ∧ r.chars = [c.value])
  dotsDef : ∀ d ∈ t.dots, OptAll t d.defRule (fun r => IsDef r ∧ r.dots = [d.value])
  /-- a base character is a character of the table -/
  charBase : ∀ c ∈ t.chars, ∀ b, c.base = some b → ∃ c' ∈ t.chars, c'.value = b
  /-- forward chains: longest first, `always` last among equals, definition order otherwise -/
  fwdOrder : ∀ b ∈ t.forB, ChainOrdered t b.2 Lou.Chain.le
  /-- character chains: non-definition rules (definition order) before definition rules (definition order) -/
  charOrder : ∀ c ∈ t.chars, ChainOrdered t c.chain CharLe
  /-- pass chains hold the rules of their pass (`context` rules with a leading literal live in the hash
      buckets instead), ordered by decreasing length of the leading literal -/
  forPassMember : ∀ b ∈ t.forPass, ChainAll t b.2 (fun r => r.opcode = passOpcodeOf b.1 ∧ (b.1 = 1 → r.chars = []))
  backPassMember : ∀ b ∈ t.backPass, ChainAll t b.2 (fun r => r.opcode = passOpcodeOf b.1 ∧ (b.1 = 1 → r.chars = []))
  forPassOrder : ∀ b ∈ t.forPass, ChainOrdered t b.2 PassLe
  backPassOrder : ∀ b ∈ t.backPass, ChainOrdered t b.2 PassLe

/-! ### generic soundness lemmas -/

theorem idxAscending_sound : ∀ (l : List Rule) (lo : Nat), idxAscending lo l = true →
    (∀ r ∈ l, lo ≤ r.idx) ∧ l.Pairwise (fun a b => a.idx < b.idx) := by
  intro l
  induction l with
  | nil => intro lo _; exact ⟨(by intro r hr; cases hr), List.Pairwise.nil⟩
  | cons r rest ih =>
    intro lo h
    unfold idxAscending at h
    simp only [Bool.and_eq_true, decide_eq_true_eq] at h
    obtain ⟨ihA, ihP⟩ := ih (r.idx + 1) h.2
    refine ⟨?_, List.pairwise_cons.mpr ⟨fun b hb => by have := ihA b hb; omega, ihP⟩⟩
    intro x hx
    rcases List.mem_cons.mp hx with rfl | hx
    · exact h.1
    · have := ihA x hx; omega

theorem nodupB_sound : ∀ (l : List Nat), nodupB l = true → l.Nodup := by
  intro l
  induction l with
  | nil => intro _; exact List.nodup_nil
  | cons a rest ih =>
    intro h
    unfold nodupB at h
    simp only [Bool.and_eq_true, Bool.not_eq_eq_eq_not, Bool.not_true] at h
    refine List.nodup_cons.mpr ⟨?_, ih h.2⟩
    intro hm
    have := List.contains_iff_mem.mpr hm
    rw [h.1] at this; cases this

theorem pairwiseB_sound {α : Type} (le : α → α → Bool) : ∀ (l : List α), pairwiseB le l = true →
    l.Pairwise (fun a b => le a b = true) := by
  intro l
  induction l with
  | nil => intro _; exact List.Pairwise.nil
  | cons a rest ih =>
    intro h
    unfold pairwiseB at h
    simp only [Bool.and_eq_true, List.all_eq_true] at h
    exact List.pairwise_cons.mpr ⟨h.1, ih h.2⟩

theorem res_sound (t : Table) (linked : List (Nat × Nat)) (i : Nat) (r : Rule)
    (h : (mkCtx t linked).res i = some r) : Res t i r := by
  unfold Ctx.res mkCtx ruleIndex at h
  have hm := index_get_sound _ _ _ _ h
  obtain ⟨x, hx, hxe⟩ := List.mem_map.mp hm
  simp only [Prod.mk.injEq] at hxe
  rw [← hxe.2]
  exact ⟨hx, hxe.1⟩

theorem res_unique (t : Table) (hs : t.rules.Pairwise (fun a b => a.idx < b.idx)) (i : Nat) (r r' : Rule)
    (h : Res t i r) (h' : Res t i r') : r = r' := by
  obtain ⟨hm, hi⟩ := h
  obtain ⟨hm', hi'⟩ := h'
  obtain ⟨k, hk, rfl⟩ := List.getElem_of_mem hm
  obtain ⟨k', hk', rfl⟩ := List.getElem_of_mem hm'
  have hp := List.pairwise_iff_getElem.mp hs
  rcases Nat.lt_trichotomy k k' with hlt | heq | hgt
  · have := hp k k' hk hk' hlt; omega
  · subst heq; rfl
  · have := hp k' k hk' hk hgt; omega

theorem ok_res (cx : Ctx) (i : Nat) (h : cx.ok i = true) : ∃ r, cx.res i = some r := by
  unfold Ctx.ok at h
  exact Option.isSome_iff_exists.mp h

theorem okOpt_sound (t : Table) (linked : List (Nat × Nat)) (o : Option Nat) (h : (mkCtx t linked).okOpt o = true) :
    ResolvesOpt t o := by
  intro i hi
  subst hi
  obtain ⟨r, hr⟩ := ok_res _ i h
  exact ⟨r, res_sound t linked i r hr⟩

theorem chain_resolves (t : Table) (linked : List (Nat × Nat)) (chain : List Nat)
    (h : chain.all (mkCtx t linked).ok = true) : ∀ i ∈ chain, Resolves t i := by
  intro i hi
  obtain ⟨r, hr⟩ := ok_res _ i (List.all_eq_true.mp h i hi)
  exact ⟨r, res_sound t linked i r hr⟩

/-- a resolving index resolves, through the index array, to THE rule it designates -/
theorem res_complete (t : Table) (linked : List (Nat × Nat)) (hs : t.rules.Pairwise (fun a b => a.idx < b.idx))
    (i : Nat) (hok : (mkCtx t linked).ok i = true) (r : Rule) (hr : Res t i r) : (mkCtx t linked).res i = some r := by
  obtain ⟨r0, h0⟩ := ok_res _ i hok
  rw [h0, res_unique t hs i r r0 hr (res_sound t linked i r0 h0)]

theorem chainAll_of_check (t : Table) (linked : List (Nat × Nat)) (hs : t.rules.Pairwise (fun a b => a.idx < b.idx))
    (chain : List Nat) (hok : chain.all (mkCtx t linked).ok = true) (p : Rule → Bool) (P : Rule → Prop)
    (hall : (resolved (mkCtx t linked) chain).all p = true) (hpP : ∀ r, p r = true → P r) : ChainAll t chain P := by
  intro i hi r hr
  have hres := res_complete t linked hs i (List.all_eq_true.mp hok i hi) r hr
  apply hpP
  apply List.all_eq_true.mp hall
  unfold resolved
  exact List.mem_filterMap.mpr ⟨i, hi, hres⟩

theorem chainOrdered_of_check (t : Table) (linked : List (Nat × Nat)) (hs : t.rules.Pairwise (fun a b => a.idx < b.idx))
    (chain : List Nat) (hok : chain.all (mkCtx t linked).ok = true) (le : Rule → Rule → Bool) (R : Rule → Rule → Prop)
    (hp : pairwiseB le (resolved (mkCtx t linked) chain) = true) (hle : ∀ a b, le a b = true → R a b) :
    ChainOrdered t chain R := by
  have h1 := pairwiseB_sound le _ hp
  unfold resolved at h1
  have h2 := List.pairwise_filterMap.mp h1
  unfold ChainOrdered
  refine List.Pairwise.imp_of_mem ?_ h2
  intro i j hi hj hij ri rj hri hrj
  apply hle
  exact hij ri (res_complete t linked hs i (List.all_eq_true.mp hok i hi) ri hri) rj
    (res_complete t linked hs j (List.all_eq_true.mp hok j hj) rj hrj)

theorem optAll_of_check (t : Table) (linked : List (Nat × Nat)) (hs : t.rules.Pairwise (fun a b => a.idx < b.idx))
    (o : Option Nat) (hok : (mkCtx t linked).okOpt o = true) (p : Rule → Bool) (P : Rule → Prop)
    (h : optAll (mkCtx t linked) o p = true) (hpP : ∀ r, p r = true → P r) : OptAll t o P := by
  intro i hi r hr
  subst hi
  have hres := res_complete t linked hs i hok r hr
  unfold optAll at h
  simp only [hres] at h
  exact hpP r h

theorem clause_nil (ok : Bool) (msg : Unit → List String) (h : clause ok msg = []) : ok = true := by
  unfold clause at h
  cases ok with
  | true => rfl
  | false => simp at h

/-! ### the Boolean order tests mean the relations -/

theorem fwdLeB_le (a b : Rule) (h : fwdLeB a b = true) : Lou.Chain.le a b := by
  unfold fwdLeB at h
  unfold Lou.Chain.le Lou.Chain.cls
  simp only [Bool.or_eq_true, decide_eq_true_eq, Bool.and_eq_true, beq_iff_eq] at h
  simp only [beq_iff_eq]
  rcases h with h | ⟨h1, h2 | ⟨h2, h3⟩⟩
  · left; exact h
  · right; exact ⟨h1, Or.inl h2⟩
  · right; exact ⟨h1, Or.inr ⟨h2, h3⟩⟩

theorem charLeB_le (a b : Rule) (h : charLeB a b = true) : CharLe a b := by
  unfold charLeB at h
  unfold CharLe IsDef
  simp only [Bool.or_eq_true, Bool.and_eq_true, Bool.not_eq_eq_eq_not, Bool.not_true, beq_iff_eq, decide_eq_true_eq] at h
  rcases h with ⟨h1, h2⟩ | ⟨h1, h2⟩
  · left; exact ⟨by rw [h1]; simp, h2⟩
  · right; exact ⟨by rw [h1], h2⟩

theorem passLeB_le (a b : Rule) (h : passLeB a b = true) : PassLe a b := by
  unfold passLeB at h
  unfold PassLe
  simp only [Bool.or_eq_true, decide_eq_true_eq, Bool.and_eq_true, beq_iff_eq] at h
  exact h

theorem passMemberOK_sound (p : Nat) (r : Rule) (h : passMemberOK p r = true) :
    r.opcode = passOpcodeOf p ∧ (p = 1 → r.chars = []) := by
  unfold passMemberOK at h
  simp only [Bool.and_eq_true, beq_iff_eq, Bool.or_eq_true, bne_iff_ne, ne_eq, List.isEmpty_iff] at h
  refine ⟨h.1, fun hp => ?_⟩
  rcases h.2 with h2 | h2
  · exact absurd hp h2
  · exact h2

/-- **checkTable_sound**: an empty violation list means the logical table is consistent -/
theorem checkTable_sound (t : Table) (linked : List (Nat × Nat)) (h : checkTable t linked = []) :
    TableConsistent t linked := by
  unfold checkTable at h
  simp only [List.append_eq_nil_iff] at h
  obtain ⟨⟨⟨⟨⟨⟨⟨⟨⟨⟨⟨⟨⟨⟨⟨⟨⟨⟨h1, h2⟩, h3⟩, h4⟩, h5⟩, h6⟩, h7⟩, h8⟩, h9⟩, h10⟩, h11⟩, h12⟩, h13⟩, h14⟩, h15⟩, h16⟩, h17⟩, h18⟩, h19⟩ := h
  have c1 := clause_nil _ _ h1
  have c2 := clause_nil _ _ h2
  have c3 := clause_nil _ _ h3
  have c4 := clause_nil _ _ h4
  have c5 := clause_nil _ _ h5
  have c6 := clause_nil _ _ h6
  have c7 := clause_nil _ _ h7
  have c8 := clause_nil _ _ h8
  have c9 := clause_nil _ _ h9
  have c10 := clause_nil _ _ h10
  have c11 := clause_nil _ _ h11
  have c12 := clause_nil _ _ h12
  have c13 := clause_nil _ _ h13
  have c14 := clause_nil _ _ h14
  have c15 := clause_nil _ _ h15
  have c16 := clause_nil _ _ h16
  have c17 := clause_nil _ _ h17
  have c18 := clause_nil _ _ h18
  clear h19
  clear h1 h2 h3 h4 h5 h6 h7 h8 h9 h10 h11 h12 h13 h14 h15 h16 h17 h18
  have hs : t.rules.Pairwise (fun a b => a.idx < b.idx) := (idxAscending_sound t.rules 0 c1).2
  -- resolution
  unfold cResolve at c3
  simp only [Bool.and_eq_true, List.all_eq_true] at c3
  obtain ⟨⟨⟨⟨⟨⟨⟨⟨⟨⟨⟨⟨⟨rC, rD⟩, rF⟩, rB⟩, rFP⟩, rBP⟩, rE⟩, s1⟩, s2⟩, s3⟩, s4⟩, s5⟩, s6⟩, s7⟩ := c3
  have okC : ∀ c ∈ t.chars, c.chain.all (mkCtx t linked).ok = true := fun c hc => List.all_eq_true.mpr (rC c hc).1.1
  have okD : ∀ d ∈ t.dots, d.chain.all (mkCtx t linked).ok = true := fun d hd => List.all_eq_true.mpr (rD d hd).1
  have okF : ∀ b ∈ t.forB, b.2.all (mkCtx t linked).ok = true := fun b hb => List.all_eq_true.mpr (rF b hb)
  have okB : ∀ b ∈ t.backB, b.2.all (mkCtx t linked).ok = true := fun b hb => List.all_eq_true.mpr (rB b hb)
  have okFP : ∀ b ∈ t.forPass, b.2.all (mkCtx t linked).ok = true := fun b hb => List.all_eq_true.mpr (rFP b hb)
  have okBP : ∀ b ∈ t.backPass, b.2.all (mkCtx t linked).ok = true := fun b hb => List.all_eq_true.mpr (rBP b hb)
  unfold cNodup at c4
  simp only [Bool.and_eq_true, List.all_eq_true] at c4
  obtain ⟨⟨⟨⟨⟨nC, nD⟩, nF⟩, nB⟩, nFP⟩, nBP⟩ := c4
  unfold cKeys at c5
  simp only [Bool.and_eq_true, List.all_eq_true, decide_eq_true_eq] at c5
  obtain ⟨⟨⟨⟨⟨⟨⟨k1, k2⟩, k3⟩, k4⟩, k5⟩, k6⟩, k7⟩, k8⟩ := c5
  refine {
    rulesSorted := hs
    belowCounter := ?_
    resChars := fun c hc => ⟨chain_resolves t linked _ (okC c hc), okOpt_sound t linked _ (rC c hc).1.2, okOpt_sound t linked _ (rC c hc).2⟩
    resDots := fun d hd => ⟨chain_resolves t linked _ (okD d hd), okOpt_sound t linked _ (rD d hd).2⟩
    resFor := fun b hb => chain_resolves t linked _ (okF b hb)
    resBack := fun b hb => chain_resolves t linked _ (okB b hb)
    resForPass := fun b hb => chain_resolves t linked _ (okFP b hb)
    resBackPass := fun b hb => chain_resolves t linked _ (okBP b hb)
    resEmph := ?_
    resSlots := ⟨okOpt_sound t linked _ s1, okOpt_sound t linked _ s2, okOpt_sound t linked _ s3, okOpt_sound t linked _ s4,
      okOpt_sound t linked _ s5, okOpt_sound t linked _ s6, okOpt_sound t linked _ s7⟩
    nodupChars := fun c hc => nodupB_sound _ (nC c hc)
    nodupDots := fun d hd => nodupB_sound _ (nD d hd)
    nodupFor := fun b hb => nodupB_sound _ (nF b hb)
    nodupBack := fun b hb => nodupB_sound _ (nB b hb)
    nodupForPass := fun b hb => nodupB_sound _ (nFP b hb)
    nodupBackPass := fun b hb => nodupB_sound _ (nBP b hb)
    keysFor := ⟨nodupB_sound _ k1, k5⟩
    keysBack := ⟨nodupB_sound _ k2, k6⟩
    keysForPass := ⟨nodupB_sound _ k3, k7⟩
    keysBackPass := ⟨nodupB_sound _ k4, k8⟩
    fwdMember := ?_
    backMember := ?_
    charMember := ?_
    dotsMember := ?_
    charDef := ?_
    dotsDef := ?_
    charBase := ?_
    fwdOrder := ?_
    charOrder := ?_
    forPassMember := ?_
    backPassMember := ?_
    forPassOrder := ?_
    backPassOrder := ?_ }
  · unfold cRulesBelowCounter at c2
    simpa using c2
  · intro e he
    obtain ⟨r, hr⟩ := ok_res _ _ (rE e he)
    exact ⟨r, res_sound t linked _ r hr⟩
  · intro b hb
    unfold cFwdMember at c6
    refine chainAll_of_check t linked hs b.2 (okF b hb) _ _ (List.all_eq_true.mp c6 b hb) ?_
    intro r hr
    unfold fwdMemberOK at hr
    simpa [mkCtx] using hr
  · intro b hb
    unfold cBackMember at c7
    refine chainAll_of_check t linked hs b.2 (okB b hb) _ _ (List.all_eq_true.mp c7 b hb) ?_
    intro r hr
    unfold backMemberOK at hr
    simpa [and_assoc] using hr
  · intro c hc
    unfold cCharMember at c8
    refine chainAll_of_check t linked hs c.chain (okC c hc) _ _ (List.all_eq_true.mp c8 c hc) ?_
    intro r hr
    unfold charMemberOK at hr
    simpa using hr
  · intro d hd
    unfold cDotsMember at c9
    refine chainAll_of_check t linked hs d.chain (okD d hd) _ _ (List.all_eq_true.mp c9 d hd) ?_
    intro r hr
    unfold dotsMemberOK at hr
    simpa [and_assoc] using hr
  · intro c hc
    unfold cCharDef at c10
    have := List.all_eq_true.mp c10 c hc
    simp only [Bool.and_eq_true] at this
    refine ⟨optAll_of_check t linked hs _ (rC c hc).1.2 _ _ this.1 ?_, optAll_of_check t linked hs _ (rC c hc).2 _ _ this.2 ?_⟩
    · intro r hr
      unfold charDefOK at hr
      unfold IsDef
      simpa using hr
    · intro r hr
      unfold charCompOK at hr
      simpa using hr
  · intro d hd
    unfold cDotsDef at c11
    refine optAll_of_check t linked hs _ (rD d hd).2 _ _ (List.all_eq_true.mp c11 d hd) ?_
    intro r hr
    unfold dotsDefOK at hr
    unfold IsDef
    simpa using hr
  · intro c hc b hb
    unfold cCharBase at c12
    have := List.all_eq_true.mp c12 c hc
    rw [hb] at this
    obtain ⟨c', hc', hv⟩ := List.any_eq_true.mp this
    exact ⟨c', hc', by simpa using hv⟩
  · intro b hb
    unfold cFwdOrder at c13
    exact chainOrdered_of_check t linked hs b.2 (okF b hb) _ _ (List.all_eq_true.mp c13 b hb) fwdLeB_le
  · intro c hc
    unfold cCharOrder at c14
    exact chainOrdered_of_check t linked hs c.chain (okC c hc) _ _ (List.all_eq_true.mp c14 c hc) charLeB_le
  · intro b hb
    unfold cForPassMember at c15
    exact chainAll_of_check t linked hs b.2 (okFP b hb) _ _ (List.all_eq_true.mp c15 b hb) (passMemberOK_sound b.1)
  · intro b hb
    unfold cBackPassMember at c16
    exact chainAll_of_check t linked hs b.2 (okBP b hb) _ _ (List.all_eq_true.mp c16 b hb) (passMemberOK_sound b.1)
  · intro b hb
    unfold cForPassOrder at c17
    exact chainOrdered_of_check t linked hs b.2 (okFP b hb) _ _ (List.all_eq_true.mp c17 b hb) passLeB_le
  · intro b hb
    unfold cBackPassOrder at c18
    exact chainOrdered_of_check t linked hs b.2 (okBP b hb) _ _ (List.all_eq_true.mp c18 b hb) passLeB_le

/-- every character and every cell of a linked character definition has its record in the character / cell buckets
    (so a lookup of that character or cell finds the definition) -/
def DefsFound (t : Table) : Prop :=
  ∀ r ∈ t.rules, IsDef r → (∀ c ∈ r.chars, ∃ cr ∈ t.chars, cr.value = c) ∧ (∀ d ∈ r.dots, ∃ dr ∈ t.dots, dr.value = d)

/-- **checkTable_defsFound**: an empty violation list also means that no definition has lost its records -/
theorem checkTable_defsFound (t : Table) (linked : List (Nat × Nat)) (h : checkTable t linked = []) : DefsFound t := by
  unfold checkTable at h
  simp only [List.append_eq_nil_iff] at h
  have c19 := clause_nil _ _ h.2
  intro r hr hd
  unfold cDefFound at c19
  have h := List.all_eq_true.mp c19 r hr
  unfold defFoundOK at h
  unfold IsDef at hd
  simp only [hd, Bool.not_true, Bool.false_or, Bool.and_eq_true, List.all_eq_true, List.any_eq_true, beq_iff_eq] at h
  exact h

/-! ## E. lookups find what is linked -/

theorem rule?_of_res (t : Table) (hs : t.rules.Pairwise (fun a b => a.idx < b.idx)) (i : Nat) (r : Rule) (hr : Res t i r) :
    t.rule? i = some r := by
  unfold Table.rule?
  cases hf : t.rules.find? (fun x => x.idx == i) with
  | none =>
    have := List.find?_eq_none.mp hf r hr.1
    simp [hr.2] at this
  | some r0 =>
    have h0 : Res t i r0 := ⟨List.mem_of_find?_eq_some hf, by simpa using List.find?_some hf⟩
    rw [res_unique t hs i r r0 hr h0]

theorem res_of_rule? (t : Table) (i : Nat) (r : Rule) (h : t.rule? i = some r) : Res t i r := by
  unfold Table.rule? at h
  exact ⟨List.mem_of_find?_eq_some h, by simpa using List.find?_some h⟩

theorem find?_key {β : Type} : ∀ (l : List (Nat × β)) (b : Nat × β), (l.map (·.1)).Nodup → b ∈ l →
    l.find? (fun x => x.1 == b.1) = some b := by
  intro l
  induction l with
  | nil => intro b _ hb; cases hb
  | cons x xs ih =>
    intro b hn hb
    simp only [List.map_cons, List.nodup_cons] at hn
    rcases List.mem_cons.mp hb with rfl | hb
    · simp
    · have hne : x.1 ≠ b.1 := by
        intro he
        exact hn.1 (by rw [he]; exact List.mem_map.mpr ⟨b, hb, rfl⟩)
      simp only [List.find?_cons, show (x.1 == b.1) = false from by simpa using hne]
      exact ih b hn.2 hb

/-- in a consistent table the bucket the lookup computes for a key IS the listed chain -/
theorem forBucket_eq (t : Table) (linked : List (Nat × Nat)) (h : TableConsistent t linked) (b : Nat × List Nat)
    (hb : b ∈ t.forB) : t.forBucket b.1 = b.2 := by
  unfold Table.forBucket
  rw [find?_key t.forB b h.keysFor.1 hb]; rfl

/-- **lookup_complete**: let `r` be a rule linked in a forward bucket of a consistent table.  Then
    (1) that bucket is the one a lookup computes from the hash of `r`'s first two characters
        (`_lou_stringHash(…, 1, table)` for `context` rules, the raw hash otherwise);
    (2) the chain walk for ANY predicate `p` that `r` satisfies — `find?` over the rules of the chain,
        at most `|chain|` steps — stops at a rule `r'` with `p r'`, nothing before `r'` satisfies `p`,
        and `r'` is `r` itself or stands before `r` in the chain: `r` is reached unless an earlier member
        of its own chain matches. -/
theorem lookup_complete (t : Table) (linked : List (Nat × Nat)) (h : TableConsistent t linked)
    (b : Nat × List Nat) (hb : b ∈ t.forB) (i : Nat) (hi : i ∈ b.2) (r : Rule) (hr : Res t i r)
    (p : Rule → Bool) (hp : p r = true) :
    t.forBucket (fwdHash t linked r) = b.2 ∧
    (b.2.filterMap t.rule?).length ≤ b.2.length ∧
    ∃ r' pre post, b.2.filterMap t.rule? = pre ++ r' :: post ∧ (∀ a ∈ pre, p a = false) ∧ p r' = true ∧
      (b.2.filterMap t.rule?).find? p = some r' ∧ (r' = r ∨ r ∈ post) := by
  have hmem := h.fwdMember b hb i hi r hr
  refine ⟨by rw [hmem.2]; exact forBucket_eq t linked h b hb, List.length_filterMap_le _ _, ?_⟩
  have hin : r ∈ b.2.filterMap t.rule? := List.mem_filterMap.mpr ⟨i, hi, rule?_of_res t h.rulesSorted i r hr⟩
  cases hf : (b.2.filterMap t.rule?).find? p with
  | none =>
    have := List.find?_eq_none.mp hf r hin
    exact absurd hp this
  | some r' =>
    obtain ⟨hpr', pre, post, hsplit, hpre⟩ := List.find?_eq_some_iff_append.mp hf
    refine ⟨r', pre, post, hsplit, ?_, hpr', rfl, ?_⟩
    · intro a ha; simpa using hpre a ha
    · rw [hsplit] at hin
      rcases List.mem_append.mp hin with hin | hin
      · have := hpre r hin
        simp [hp] at this
      · rcases List.mem_cons.mp hin with rfl | hin
        · left; rfl
        · right; exact hin

/-- the same for the chain of a character (rules with a single character) -/
theorem lookup_complete_char (t : Table) (linked : List (Nat × Nat)) (h : TableConsistent t linked)
    (c : CharRec) (hc : c ∈ t.chars) (i : Nat) (hi : i ∈ c.chain) (r : Rule) (hr : Res t i r)
    (p : Rule → Bool) (hp : p r = true) :
    r.chars = [c.value] ∧
    ∃ r' pre post, c.chain.filterMap t.rule? = pre ++ r' :: post ∧ (∀ a ∈ pre, p a = false) ∧ p r' = true ∧
      (c.chain.filterMap t.rule?).find? p = some r' ∧ (r' = r ∨ r ∈ post) := by
  refine ⟨h.charMember c hc i hi r hr, ?_⟩
  have hin : r ∈ c.chain.filterMap t.rule? := List.mem_filterMap.mpr ⟨i, hi, rule?_of_res t h.rulesSorted i r hr⟩
  cases hf : (c.chain.filterMap t.rule?).find? p with
  | none => exact absurd hp (List.find?_eq_none.mp hf r hin)
  | some r' =>
    obtain ⟨hpr', pre, post, hsplit, hpre⟩ := List.find?_eq_some_iff_append.mp hf
    refine ⟨r', pre, post, hsplit, ?_, hpr', rfl, ?_⟩
    · intro a ha; simpa using hpre a ha
    · rw [hsplit] at hin
      rcases List.mem_append.mp hin with hin | hin
      · have := hpre r hin
        simp [hp] at this
      · rcases List.mem_cons.mp hin with rfl | hin
        · left; rfl
        · right; exact hin

/-- in a consistent table the order clause in the form C05 uses it: the resolved forward chain is `Pairwise le` -/
theorem fwd_chain_pairwise (t : Table) (linked : List (Nat × Nat)) (h : TableConsistent t linked)
    (b : Nat × List Nat) (hb : b ∈ t.forB) : (b.2.filterMap t.rule?).Pairwise Lou.Chain.le := by
  refine List.pairwise_filterMap.mpr (List.Pairwise.imp ?_ (h.fwdOrder b hb))
  intro i j hij ri hri rj hrj
  exact hij ri rj (res_of_rule? t i ri hri) (res_of_rule? t j rj hrj)

/-- two different forward buckets share no rule (a shared tail would put its rules in a wrong bucket) -/
theorem fwd_buckets_disjoint (t : Table) (linked : List (Nat × Nat)) (h : TableConsistent t linked)
    (b b' : Nat × List Nat) (hb : b ∈ t.forB) (hb' : b' ∈ t.forB) (i : Nat) (hi : i ∈ b.2) (hi' : i ∈ b'.2) : b = b' := by
  obtain ⟨r, hr⟩ := h.resFor b hb i hi
  have h1 := (h.fwdMember b hb i hi r hr).2
  have h2 := (h.fwdMember b' hb' i hi' r hr).2
  have hk : b.1 = b'.1 := by rw [← h1, ← h2]
  have e1 := find?_key t.forB b h.keysFor.1 hb
  have e2 := find?_key t.forB b' h.keysFor.1 hb'
  rw [hk] at e1
  rw [e1] at e2
  exact Option.some.inj e2

end Lou.C12
