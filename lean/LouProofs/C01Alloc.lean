/-
  C01/C02 (allocator part) — after ANY history of requests and `lou_free` calls,
  with or without the exact-size hook, `_lou_allocMem` hands out a live buffer
  that holds at least what the caller was promised plus the slack of 4 elements.
-/
import LouModel.Alloc

namespace Lou.Alloc

/-- pointer and remembered size agree: NULL only while the size is ≤ 0, and a live
    buffer holds at least `size + 4` elements -/
def SlotOK (s : Slot) : Prop :=
  match s.alloc with
  | none => s.size ≤ 0
  | some a => s.size + SLACK ≤ a

structure StateOK (s : State) : Prop where
  typebuf : SlotOK s.typebuf
  destSpacing : SlotOK s.destSpacing
  passbuf0 : SlotOK s.passbuf0
  passbuf1 : SlotOK s.passbuf1
  passbuf2 : SlotOK s.passbuf2
  pm1 : SlotOK s.pm1
  pm2 : SlotOK s.pm2
  pm3 : SlotOK s.pm3

theorem init_ok : StateOK {} := by
  constructor <;> simp [SlotOK]

theorem slot_forget_ok (s : Slot) (_h : SlotOK s) (h0 : ∀ a, s.alloc = some a → 0 ≤ a - SLACK) :
    SlotOK s.forget := by
  unfold SlotOK Slot.forget at *
  cases hs : s.alloc with
  | none => simp
  | some a => have := h0 a hs; simp [SLACK] at *; omega

/-- a live buffer never has fewer than `SLACK` elements (every allocation is `want + 4`, want ≥ 0) -/
def SlotPos (s : Slot) : Prop := ∀ a, s.alloc = some a → SLACK ≤ a

theorem slot_request (s : Slot) (want : Int) (h : SlotOK s) (hp : SlotPos s) (hw : 0 ≤ want)
    (hlive : 0 < want ∨ s.size < 0) :
    SlotOK (s.request want) ∧ SlotPos (s.request want) ∧
      ∃ a, (s.request want).alloc = some a ∧ want + SLACK ≤ a := by
  unfold Slot.request
  by_cases hgt : want > s.size
  · simp only [hgt, if_true]
    refine ⟨by simp [SlotOK], ?_, want + SLACK, rfl, Int.le_refl _⟩
    intro a ha; simp at ha; subst ha; simp [SLACK]; omega
  · simp only [hgt, if_false]
    refine ⟨h, hp, ?_⟩
    unfold SlotOK at h
    cases hs : s.alloc with
    | none => simp [hs] at h; omega
    | some a => simp [hs] at h; exact ⟨a, rfl, by omega⟩

theorem clampSize_ge (exact : Bool) (x : Int) : x ≤ clampSize exact x ∧ 0 ≤ clampSize exact x := by
  unfold clampSize MINSIZE
  cases exact <;> simp <;> split <;> omega

theorem clampSize_pos_or (exact : Bool) (x : Int) : exact = false → 0 < clampSize exact x := by
  intro h; subst h; unfold clampSize MINSIZE; simp; split <;> omega

theorem imax_ge (a b : Int) : a ≤ imax a b ∧ b ≤ imax a b := by
  unfold imax; split <;> omega


structure StatePos (s : State) : Prop where
  typebuf : SlotPos s.typebuf
  destSpacing : SlotPos s.destSpacing
  passbuf0 : SlotPos s.passbuf0
  passbuf1 : SlotPos s.passbuf1
  passbuf2 : SlotPos s.passbuf2
  pm1 : SlotPos s.pm1
  pm2 : SlotPos s.pm2
  pm3 : SlotPos s.pm3

theorem init_pos : StatePos {} := by
  constructor <;> intro a h <;> simp at h

theorem slot_forget_pos (s : Slot) (h : SlotPos s) : SlotPos s.forget := by
  intro a ha; exact h a (by simpa [Slot.forget] using ha)

theorem slot_forget_ok' (s : Slot) (hp : SlotPos s) : SlotOK s.forget := by
  unfold SlotOK Slot.forget
  cases hs : s.alloc with
  | none => simp
  | some a => have := hp a hs; simp [SLACK] at *; omega

/-- forgetting (H1) keeps both invariants -/
theorem forget_inv (exact : Bool) (i : Nat) (s : State) (h : StateOK s) (hp : StatePos s) :
    StateOK (forget exact i s) ∧ StatePos (forget exact i s) := by
  unfold forget
  cases exact with
  | false => exact ⟨h, hp⟩
  | true =>
    simp only [if_true]
    refine ⟨⟨?_, ?_, ?_, ?_, ?_, ?_, ?_, ?_⟩, ⟨?_, ?_, ?_, ?_, ?_, ?_, ?_, ?_⟩⟩
    all_goals first
      | exact slot_forget_ok' _ hp.typebuf
      | exact slot_forget_ok' _ hp.destSpacing
      | exact slot_forget_ok' _ hp.pm1
      | exact slot_forget_ok' _ hp.pm2
      | exact slot_forget_ok' _ hp.pm3
      | exact slot_forget_pos _ hp.typebuf
      | exact slot_forget_pos _ hp.destSpacing
      | exact slot_forget_pos _ hp.pm1
      | exact slot_forget_pos _ hp.pm2
      | exact slot_forget_pos _ hp.pm3
      | (dsimp only; split
         · first | exact slot_forget_ok' _ hp.passbuf0 | exact slot_forget_ok' _ hp.passbuf1 | exact slot_forget_ok' _ hp.passbuf2
                 | exact slot_forget_pos _ hp.passbuf0 | exact slot_forget_pos _ hp.passbuf1 | exact slot_forget_pos _ hp.passbuf2
         · first | exact h.passbuf0 | exact h.passbuf1 | exact h.passbuf2
                 | exact hp.passbuf0 | exact hp.passbuf1 | exact hp.passbuf2)

/-- in exact mode the slot that is about to be used has been forgotten -/
theorem forget_size (exact : Bool) (i : Nat) (s : State) (he : exact = true) :
    (forget exact i s).typebuf.size < 0 ∧ (forget exact i s).destSpacing.size < 0 ∧
    (forget exact i s).pm1.size < 0 ∧ (forget exact i s).pm2.size < 0 ∧ (forget exact i s).pm3.size < 0 ∧
    (i = 0 → (forget exact i s).passbuf0.size < 0) ∧ (i = 1 → (forget exact i s).passbuf1.size < 0) ∧
    (i = 2 → (forget exact i s).passbuf2.size < 0) := by
  subst he
  simp [forget, Slot.forget]
  refine ⟨?_, ?_, ?_⟩ <;> intro h <;> simp [h]

/-- **alloc_capacity** (one request): from a consistent state every request either is refused
    (pass-buffer index out of range) or hands out a LIVE buffer with at least
    `need + 4` elements, and leaves a consistent state -/
theorem request_capacity (exact : Bool) (b : Buf) (i : Nat) (sm dm : Int) (s s' : State) (sl : Slot)
    (h : StateOK s) (hp : StatePos s) (hr : request exact b i sm dm s = some (s', sl)) :
    StateOK s' ∧ StatePos s' ∧ ∃ a, sl.alloc = some a ∧ need b sm dm + SLACK ≤ a := by
  obtain ⟨hf, hfp⟩ := forget_inv exact i s h hp
  have hcs := clampSize_ge exact sm
  have hcd := clampSize_ge exact dm
  have hlive : ∀ want : Int, (exact = false → 0 < want) → ∀ sl0 : Slot, (exact = true → sl0.size < 0) →
      0 < want ∨ sl0.size < 0 := by
    intro want hw sl0 hs
    cases exact with
    | false => exact Or.inl (hw rfl)
    | true => exact Or.inr (hs rfl)
  have hpos_s := clampSize_pos_or exact sm
  have hpos_d := clampSize_pos_or exact dm
  unfold request at hr
  cases b with
  | typebuf =>
    simp only [Option.some.injEq, Prod.mk.injEq] at hr
    obtain ⟨rfl, rfl⟩ := hr
    have hw : 0 ≤ (if clampSize exact sm > clampSize exact dm then clampSize exact sm else clampSize exact dm) := by
      split <;> omega
    obtain ⟨h1, h2, a, ha, hle⟩ := slot_request (forget exact i s).typebuf _ hf.typebuf hfp.typebuf hw
      (hlive _ (by intro he; have := hpos_s he; have := hpos_d he; split <;> omega) _
        (fun he => (forget_size exact i s he).1))
    refine ⟨{ hf with typebuf := h1 }, { hfp with typebuf := h2 }, a, ha, ?_⟩
    have := imax_ge sm dm
    unfold need imax at *
    split at hle <;> split <;> omega
  | wordBuffer =>
    simp only [Option.some.injEq, Prod.mk.injEq] at hr
    obtain ⟨rfl, rfl⟩ := hr
    exact ⟨hf, hfp, _, rfl, by unfold need; dsimp only; omega⟩
  | emphasisBuffer =>
    simp only [Option.some.injEq, Prod.mk.injEq] at hr
    obtain ⟨rfl, rfl⟩ := hr
    exact ⟨hf, hfp, _, rfl, by unfold need; dsimp only; omega⟩
  | destSpacing =>
    simp only [Option.some.injEq, Prod.mk.injEq] at hr
    obtain ⟨rfl, rfl⟩ := hr
    obtain ⟨h1, h2, a, ha, hle⟩ := slot_request (forget exact i s).destSpacing _ hf.destSpacing hfp.destSpacing hcd.2
      (hlive _ hpos_d _ (fun he => (forget_size exact i s he).2.1))
    exact ⟨{ hf with destSpacing := h1 }, { hfp with destSpacing := h2 }, a, ha, by unfold need; dsimp only; omega⟩
  | passbuf =>
    match i, hr with
    | 0, hr =>
      simp only [Option.some.injEq, Prod.mk.injEq] at hr
      obtain ⟨rfl, rfl⟩ := hr
      obtain ⟨h1, h2, a, ha, hle⟩ := slot_request (forget exact 0 s).passbuf0 _ hf.passbuf0 hfp.passbuf0 hcd.2
        (hlive _ hpos_d _ (fun he => (forget_size exact 0 s he).2.2.2.2.2.1 rfl))
      exact ⟨{ hf with passbuf0 := h1 }, { hfp with passbuf0 := h2 }, a, ha, by unfold need; dsimp only; omega⟩
    | 1, hr =>
      simp only [Option.some.injEq, Prod.mk.injEq] at hr
      obtain ⟨rfl, rfl⟩ := hr
      obtain ⟨h1, h2, a, ha, hle⟩ := slot_request (forget exact 1 s).passbuf1 _ hf.passbuf1 hfp.passbuf1 hcd.2
        (hlive _ hpos_d _ (fun he => (forget_size exact 1 s he).2.2.2.2.2.2.1 rfl))
      exact ⟨{ hf with passbuf1 := h1 }, { hfp with passbuf1 := h2 }, a, ha, by unfold need; dsimp only; omega⟩
    | 2, hr =>
      simp only [Option.some.injEq, Prod.mk.injEq] at hr
      obtain ⟨rfl, rfl⟩ := hr
      obtain ⟨h1, h2, a, ha, hle⟩ := slot_request (forget exact 2 s).passbuf2 _ hf.passbuf2 hfp.passbuf2 hcd.2
        (hlive _ hpos_d _ (fun he => (forget_size exact 2 s he).2.2.2.2.2.2.2 rfl))
      exact ⟨{ hf with passbuf2 := h1 }, { hfp with passbuf2 := h2 }, a, ha, by unfold need; dsimp only; omega⟩
    | n + 3, hr => simp at hr
  | posMapping1 =>
    simp only [Option.some.injEq, Prod.mk.injEq] at hr
    obtain ⟨rfl, rfl⟩ := hr
    have hm := imax_ge (clampSize exact sm) (clampSize exact dm)
    obtain ⟨h1, h2, a, ha, hle⟩ := slot_request (forget exact i s).pm1 (imax (clampSize exact sm) (clampSize exact dm)) hf.pm1 hfp.pm1 (by omega)
      (hlive _ (by intro he; have := hpos_s he; omega) _ (fun he => (forget_size exact i s he).2.2.1))
    have := imax_ge sm dm
    refine ⟨{ hf with pm1 := h1 }, { hfp with pm1 := h2 }, a, ha, ?_⟩
    unfold need; dsimp only; unfold imax at *; split <;> omega
  | posMapping2 =>
    simp only [Option.some.injEq, Prod.mk.injEq] at hr
    obtain ⟨rfl, rfl⟩ := hr
    have hm := imax_ge (clampSize exact sm) (clampSize exact dm)
    obtain ⟨h1, h2, a, ha, hle⟩ := slot_request (forget exact i s).pm2 (imax (clampSize exact sm) (clampSize exact dm)) hf.pm2 hfp.pm2 (by omega)
      (hlive _ (by intro he; have := hpos_s he; omega) _ (fun he => (forget_size exact i s he).2.2.2.1))
    refine ⟨{ hf with pm2 := h1 }, { hfp with pm2 := h2 }, a, ha, ?_⟩
    unfold need; dsimp only; unfold imax at *; split <;> omega
  | posMapping3 =>
    simp only [Option.some.injEq, Prod.mk.injEq] at hr
    obtain ⟨rfl, rfl⟩ := hr
    have hm := imax_ge (clampSize exact sm) (clampSize exact dm)
    obtain ⟨h1, h2, a, ha, hle⟩ := slot_request (forget exact i s).pm3 (imax (clampSize exact sm) (clampSize exact dm)) hf.pm3 hfp.pm3 (by omega)
      (hlive _ (by intro he; have := hpos_s he; omega) _ (fun he => (forget_size exact i s he).2.2.2.2.1))
    refine ⟨{ hf with pm3 := h1 }, { hfp with pm3 := h2 }, a, ha, ?_⟩
    unfold need; dsimp only; unfold imax at *; split <;> omega

/-- every state reachable by ANY history of requests and `lou_free` is consistent -/
theorem run_inv (ops : List Op) : ∀ (s : State), StateOK s → StatePos s →
    StateOK (run s ops).1 ∧ StatePos (run s ops).1 := by
  induction ops with
  | nil => intro s h hp; exact ⟨h, hp⟩
  | cons op ops ih =>
    intro s h hp
    simp only [run]
    apply ih
    · cases op with
      | free => exact init_ok
      | req e b i sm dm =>
        simp only [step]
        cases hr : request e b i sm dm s with
        | none => exact h
        | some r => exact (request_capacity e b i sm dm s r.1 r.2 h hp hr).1
    · cases op with
      | free => exact init_pos
      | req e b i sm dm =>
        simp only [step]
        cases hr : request e b i sm dm s with
        | none => exact hp
        | some r => exact (request_capacity e b i sm dm s r.1 r.2 h hp hr).2.1

/-- **alloc_capacity**: whatever calls preceded (any sizes, any `lou_free`, exact mode on or off),
    a request is answered with a live buffer of at least `need + 4` elements -/
theorem alloc_capacity (hist : List Op) (exact : Bool) (b : Buf) (i : Nat) (sm dm : Int)
    (s' : State) (sl : Slot)
    (hr : request exact b i sm dm (run {} hist).1 = some (s', sl)) :
    ∃ a, sl.alloc = some a ∧ need b sm dm + SLACK ≤ a := by
  obtain ⟨h, hp⟩ := run_inv hist {} init_ok init_pos
  exact (request_capacity exact b i sm dm _ s' sl h hp hr).2.2

/-- what H5 reports equals what was allocated whenever the request (re)allocated -/
theorem reported_le_alloc (s : Slot) (h : SlotOK s) (a : Int) (ha : s.alloc = some a) : reported s ≤ a := by
  unfold SlotOK at h; simp [ha] at h; unfold reported; exact h

/-- non-vacuity: a history with growth, reuse, free and exact mode -/
example : (run {} [.req false .typebuf 0 3000 10, .req false .passbuf 1 0 5000, .free,
                   .req true .posMapping1 0 3 7]).2.map (fun o => o.map reported) =
          [some 3004, some 5004, none, some 11] := by decide

end Lou.Alloc
