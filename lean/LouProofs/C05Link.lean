/-
  C05Link.lean — every table the compile model produces (fragment F0′, no `context`) satisfies the well-formedness
  hypothesis of `select_refines`: the theorem then holds for all compiled tables of the fragment without hypotheses.
-/
import LouProofs.C12Compile
import LouProofs.C05Select

namespace Lou.C05Link

open Lou Lou.Gen Lou.Compile Lou.C12 Lou.C05 Lou.Image

/-- the compile model of the fragment never sets a character's mode (no `base`, no capital modes) -/
def ModeZero (t : Table) : Prop := ∀ c ∈ t.chars, c.mode = 0

theorem updChar_mz (t : Table) (c : Nat) (f : CharRec → CharRec) (hf : ∀ r, (f r).mode = r.mode)
    (h : ModeZero t) : ModeZero (updChar t c f) := by
  intro x hx
  simp only [updChar, List.mem_map] at hx
  obtain ⟨y, hy, rfl⟩ := hx
  split
  · rw [hf]; exact h y hy
  · exact h y hy

theorem putChar_mz (t : Table) (c : Nat) (h : ModeZero t) : ModeZero (putChar t c) := by
  unfold putChar; split
  · exact h
  · intro x hx
    simp only [List.mem_append, List.mem_singleton] at hx
    rcases hx with hx | rfl
    · exact h x hx
    · rfl

theorem chars_updDots (t : Table) (d : Nat) (f : DotsRec → DotsRec) : (updDots t d f).chars = t.chars := rfl
theorem chars_putDots (t : Table) (d : Nat) : (putDots t d).chars = t.chars := by unfold putDots; split <;> rfl

theorem mz_of_chars {t t' : Table} (h : t'.chars = t.chars) (hz : ModeZero t) : ModeZero t' := by
  intro c hc; rw [h] at hc; exact hz c hc

theorem foldl_putDots_chars (ds : List Nat) (t : Table) : (ds.foldl putDots t).chars = t.chars := by
  induction ds generalizing t with
  | nil => rfl
  | cons d rest ih => simp only [List.foldl_cons]; rw [ih, chars_putDots]

theorem addFwdSingle_mz (t : Table) (r : Rule) (h : ModeZero t) : ModeZero (addFwdSingle t r) := by
  unfold addFwdSingle
  dsimp only
  refine updChar_mz _ _ _ (fun _ => rfl) ?_
  split
  · refine updChar_mz _ _ _ (fun x => by split <;> rfl) ?_
    exact putChar_mz _ _ h
  · exact putChar_mz _ _ h

theorem addFwdMulti_chars (t : Table) (r : Rule) : (addFwdMulti t r).chars = t.chars := rfl

theorem addBackSingle_chars (t : Table) (r : Rule) (cell : Nat) : (addBackSingle t r cell).chars = t.chars := by
  unfold addBackSingle
  split
  · rfl
  · simp only [chars_updDots]
    split <;> simp [chars_updDots, chars_putDots]

theorem addBackMulti_chars (t : Table) (r : Rule) : (addBackMulti t r).chars = t.chars := by
  unfold addBackMulti; split <;> rfl

theorem addRule_mz (t : Table) (e : Entry) (h : ModeZero t) : ModeZero (addRule t e).1 := by
  unfold addRule
  simp only []
  have h1 : ModeZero (registerRule t (newRule t e)) := mz_of_chars rfl h
  have h2 : ModeZero (linkFwd (registerRule t (newRule t e)) e (newRule t e)) := by
    unfold linkFwd
    split
    · exact h1
    · split
      · exact addFwdSingle_mz _ _ h1
      · split
        · exact mz_of_chars (addFwdMulti_chars _ _) h1
        · exact h1
  unfold linkBack
  split
  · exact h2
  · split
    · exact mz_of_chars (addBackSingle_chars _ _ _) h2
    · split
      · exact mz_of_chars (addBackMulti_chars _ _) h2
      · exact h2

theorem prepCharDef_mz (t : Table) (c : Nat) (dots : List Nat) (a : Nat) (h : ModeZero t) :
    ModeZero (prepCharDef t c dots a) := by
  unfold prepCharDef
  dsimp only
  have h1 : ModeZero (updChar (putChar t c) c fun cr => { cr with attrs := cr.attrs ||| a }) :=
    updChar_mz _ _ _ (fun _ => rfl) (putChar_mz _ _ h)
  split
  · exact mz_of_chars (by rw [chars_updDots, foldl_putDots_chars]) h1
  · exact mz_of_chars (foldl_putDots_chars _ _) h1

theorem compileEntry_mz (t t' : Table) (e : Entry) (h : ModeZero t) (hc : compileEntry t e = some t') : ModeZero t' := by
  unfold compileEntry at hc
  split at hc
  · unfold compileCharDef at hc
    split at hc
    · split at hc
      · cases hc
      · cases hc; exact addRule_mz _ _ (prepCharDef_mz _ _ _ _ h)
    · cases hc
  · split at hc
    · split at hc
      · cases hc
      · cases hc; exact mz_of_chars rfl (addRule_mz t _ h)
    · split at hc
      · split at hc
        · cases hc
        · cases hc; exact mz_of_chars rfl (addRule_mz t _ h)
      · split at hc
        · cases hc
        · split at hc
          · cases hc
          · cases hc; exact addRule_mz _ _ h

theorem foldlM_mz (es : List Entry) (t t' : Table) (h : ModeZero t) (hc : es.foldlM compileEntry t = some t') : ModeZero t' := by
  induction es generalizing t with
  | nil => simp at hc; cases hc; exact h
  | cons e rest ih =>
    simp only [List.foldlM_cons, Option.bind_eq_bind] at hc
    cases he : compileEntry t e with
    | none => simp [he] at hc
    | some t1 =>
      simp only [he, Option.bind_some] at hc
      exact ih t1 (compileEntry_mz t t1 e h he) hc

theorem compileUnfinalised_mz (es : List Entry) (t : Table) (hc : compileUnfinalised es = some t) : ModeZero t := by
  unfold compileUnfinalised at hc
  refine foldlM_mz es _ t ?_ hc
  cases he : compileEntry initTable endSegmentEntry with
  | none => simp [ModeZero, initTable]
  | some t0 =>
    simp only [Option.getD_some]
    exact compileEntry_mz initTable t0 _ (by simp [ModeZero, initTable]) he

theorem compile_mz (es : List Entry) (t : Table) (hc : compile es = some t) : ModeZero t := by
  unfold compile at hc
  obtain ⟨t0, ht0, rfl⟩ := Option.map_eq_some_iff.mp hc
  exact mz_of_chars rfl (compileUnfinalised_mz es t0 ht0)

/-- with every mode zero, case folding is the identity on the table's own view of a character -/
theorem toLower_getChar (t : Table) (h : ModeZero t) (c : Nat) : Fwd.toLower t (t.getChar c) = c := by
  unfold Fwd.toLower Table.getChar
  cases hf : t.char? c with
  | none => simp [CTC_Space]
  | some cr =>
    have hm : cr.mode = 0 := h cr (List.mem_of_find?_eq_some hf)
    have hv : cr.value = c := by
      have := List.find?_some hf; simpa using this
    simp [hm, hv]

theorem toLowercase_id (t : Table) (h : ModeZero t) (c : Nat) : toLowercase t [] c = c := by
  unfold toLowercase
  cases hf : t.char? c with
  | none => rfl
  | some cr =>
    have hm : cr.mode = 0 := h cr (List.mem_of_find?_eq_some hf)
    have hv : cr.value = c := by
      have := List.find?_some hf; simpa using this
    simp [hm, hv]

theorem fwdHash_raw (t : Table) (h : ModeZero t) (r : Rule) :
    fwdHash t [] r = rawHash (r.chars.getD 0 0) (r.chars.getD 1 0) := by
  unfold fwdHash
  split
  · unfold foldedHash rawHash; rw [toLowercase_id t h, toLowercase_id t h]
  · rfl

/-- an index that designates a rule (`Res`) is what `rule?` finds, when indices are strictly increasing -/
theorem find_idx_of_mem (l : List Rule) (hs : l.Pairwise (fun a b => a.idx < b.idx)) (i : Nat) (r : Rule)
    (hm : r ∈ l) (hi : r.idx = i) : l.find? (fun x => x.idx == i) = some r := by
  induction l with
  | nil => cases hm
  | cons x rest ih =>
    rw [List.pairwise_cons] at hs
    simp only [List.find?_cons]
    by_cases hx : x.idx = i
    · simp only [hx, beq_self_eq_true]
      rcases List.mem_cons.mp hm with rfl | hm'
      · rfl
      · have := hs.1 r hm'; omega
    · have : (x.idx == i) = false := by simpa using hx
      simp only [this]
      rcases List.mem_cons.mp hm with rfl | hm'
      · exact absurd hi hx
      · exact ih hs.2 hm'

theorem rule?_of_res (t : Table) (hs : t.rules.Pairwise (fun a b => a.idx < b.idx)) (i : Nat) (r : Rule)
    (h : Res t i r) : t.rule? i = some r := find_idx_of_mem t.rules hs i r h.1 h.2

theorem res_of_rule? (t : Table) (i : Nat) (r : Rule) (h : t.rule? i = some r) : Res t i r := by
  unfold Table.rule? at h
  exact ⟨List.mem_of_find?_eq_some h, by have := List.find?_some h; simpa using this⟩

theorem nodup_map_inj (l : List (Nat × List Nat)) (hn : (l.map (·.1)).Nodup) :
    ∀ b1 ∈ l, ∀ b2 ∈ l, b1.1 = b2.1 → b1 = b2 := by
  induction l with
  | nil => intro b1 h; cases h
  | cons x rest ih =>
    simp only [List.map_cons, List.nodup_cons, List.mem_map, not_exists, not_and] at hn
    intro b1 h1 b2 h2 hk
    rcases List.mem_cons.mp h1 with rfl | h1' <;> rcases List.mem_cons.mp h2 with rfl | h2'
    · rfl
    · exact absurd hk.symm (hn.1 b2 h2')
    · exact absurd hk (hn.1 b1 h1')
    · exact ih hn.2 b1 h1' b2 h2' hk

/-- **compile_fwdWF**: every table the compile model produces from entries of the fragment (no `context`)
    satisfies the well-formedness `select_refines` needs -/
theorem compile_fwdWF (es : List Entry) (t : Table) (hop : ∀ e ∈ es, e.opcode ≠ CTO_Context)
    (hc : compile es = some t) : FwdWF t := by
  have tc := compile_consistent es t hop hc
  have mz := compile_mz es t hc
  refine ⟨?_, ?_, ?_, ?_, ?_⟩
  · intro b hb i hi
    obtain ⟨r, hr⟩ := tc.resFor b hb i hi
    exact ⟨r, rule?_of_res t tc.rulesSorted i r hr, hr.2⟩
  · intro b hb
    have ho := tc.fwdOrder b hb
    unfold ChainOrdered at ho
    rw [List.pairwise_filterMap]
    refine ho.imp ?_
    intro i j hij ri hri rj hrj
    exact hij ri rj (res_of_rule? t i ri hri) (res_of_rule? t j rj hrj)
  · intro b hb i hi r hr
    have := tc.fwdMember b hb i hi r (res_of_rule? t i r hr)
    dsimp only at this
    rw [fwdHash_raw t mz] at this
    exact this
  · intro b1 hb1 b2 hb2 hk
    have hn := tc.keysFor.1
    exact nodup_map_inj t.forB hn b1 hb1 b2 hb2 hk
  · intro b hb i hi r hr
    exact ⟨toLower_getChar t mz _, toLower_getChar t mz _⟩

/-- **compile_select_refines**: `select_refines` for every compiled table of the fragment, without hypotheses on
    the table: at every position of every input, in every mode, the chain walk of the model of `for_selectRule`
    returns an applicable rule that no other applicable multi-character rule of the table precedes in the
    documented order (longest first, `always` last among equals, definition order), or nothing when none applies -/
theorem compile_select_refines (es : List Entry) (t : Table) (hop : ∀ e ∈ es, e.opcode ≠ CTO_Context)
    (hc : compile es = some t) (mode : Nat) (dc : Bool) (input : List Nat) (pos before prevOp : Nat) :
    let walked := Fwd.walkChain t mode dc input pos (input.length - pos) before prevOp false
      (t.forBucket (Fwd.stringHashFolded t (Fwd.inAt input pos) (Fwd.inAt input (pos + 1))))
    (∀ s, walked = some s → ∃ r, s = toSel r ∧ IsFwdMulti t r ∧
        applicable t mode dc input pos before prevOp r = true ∧
        ∀ x, IsFwdMulti t x → applicable t mode dc input pos before prevOp x = true → x = r ∨ Lou.Chain.le r x) ∧
    (walked = none → ∀ x, IsFwdMulti t x → applicable t mode dc input pos before prevOp x = false) :=
  select_refines t (compile_fwdWF es t hop hc) mode dc input pos before prevOp _ rfl

end Lou.C05Link
