/-
  Lemmas/HyphCompile.lean — compileDict builds the automaton of its pattern list
  (`WFPats`-independent; needs the 16-bit state bound): `compileDict_ok`.
-/
import LouModel.Hyph
import LouProofs.Lemmas.Hyph
import LouProofs.Lemmas.HyphWalk

namespace Lou.Hyph
open List

/-! ### array and hash-table basics -/

theorem modifyAt_size (a : Array HState) (i : Nat) (f : HState → HState) :
    (modifyAt a i f).size = a.size := by
  unfold modifyAt; split <;> simp

theorem modifyAt_get? (a : Array HState) (i j : Nat) (f : HState → HState) :
    (modifyAt a i f)[j]? = if j = i then a[j]?.map f else a[j]? := by
  unfold modifyAt
  split
  · rename_i h
    rw [Array.getElem?_set]
    by_cases c : i = j
    · subst c; simp [h]
    · have : ¬ j = i := fun e => c e.symm
      simp [c, this]
  · rename_i h
    by_cases c : j = i
    · subst c
      have : a[j]? = none := Array.getElem?_eq_none (by omega)
      simp [this]
    · simp [c]

theorem lk_some {hash : List (List Nat × Nat)} {k : List Nat} {v : Nat}
    (h : hash.lookup k = some v) : (k, v) ∈ hash := by
  induction hash with
  | nil => simp [List.lookup] at h
  | cons e es ih =>
    obtain ⟨a, b⟩ := e
    rw [List.lookup_cons] at h
    by_cases c : k == a
    · simp only [c, Option.some.injEq] at h
      have : k = a := by simpa using c
      subst this; subst h; exact mem_cons_self
    · simp only [c] at h
      exact mem_cons_of_mem _ (ih h)

theorem lk_none {hash : List (List Nat × Nat)} {k : List Nat}
    (h : hash.lookup k = none) : ∀ v, (k, v) ∉ hash := by
  induction hash with
  | nil => intro v; simp
  | cons e es ih =>
    obtain ⟨a, b⟩ := e
    rw [List.lookup_cons] at h
    by_cases c : k == a
    · simp [c] at h
    · simp only [c] at h
      intro v hv
      rcases mem_cons.mp hv with hh | hh
      · have : k = a := by injection hh
        exact c (by simpa using this)
      · exact ih h v hh

theorem lk_of_mem {hash : List (List Nat × Nat)} {k : List Nat} {v : Nat}
    (h : (k, v) ∈ hash) : ∃ v', hash.lookup k = some v' := by
  cases hl : hash.lookup k with
  | some v' => exact ⟨v', rfl⟩
  | none => exact absurd h (lk_none hl v)

/-! ### the invariant of the construction -/

/-- `i` is the state of the string `k` -/
def Keyed (cs : CState) (i : Nat) (k : List Nat) : Prop := (i = 0 ∧ k = []) ∨ (k, i) ∈ cs.hash

/-- structural invariant; `orph` lists the states that do not have their incoming transition yet -/
structure CInv (cs : CState) (orph : List Nat) : Prop where
  size_pos : 0 < cs.states.size
  size_le : cs.states.size ≤ 0xffffffff
  rng : ∀ k v, (k, v) ∈ cs.hash → k ≠ [] ∧ 0 < v ∧ v < cs.states.size
  kinj : ∀ k v v', (k, v) ∈ cs.hash → (k, v') ∈ cs.hash → v = v'
  vinj : ∀ k k' v, (k, v) ∈ cs.hash → (k', v) ∈ cs.hash → k = k'
  surj : ∀ v, 0 < v → v < cs.states.size → ∃ k, (k, v) ∈ cs.hash
  tsound : ∀ (i : Nat) (s : HState), cs.states[i]? = some s → ∀ ch tgt, (ch, tgt) ∈ s.trans →
    ∃ k, Keyed cs i k ∧ Keyed cs tgt (k ++ [ch])
  tcompl : ∀ k ch tgt, Keyed cs tgt (k ++ [ch]) → tgt ∉ orph →
    ∃ i s, Keyed cs i k ∧ cs.states[i]? = some s ∧ (ch, tgt) ∈ s.trans
  fbdef : ∀ (i : Nat) (s : HState), cs.states[i]? = some s → s.fallback = DEFAULTSTATE

theorem Keyed.lt {cs : CState} {o : List Nat} (inv : CInv cs o) {i : Nat} {k : List Nat}
    (h : Keyed cs i k) : i < cs.states.size := by
  rcases h with ⟨rfl, _⟩ | h
  · exact inv.size_pos
  · exact (inv.rng _ _ h).2.2

theorem Keyed.fun {cs : CState} {o : List Nat} (inv : CInv cs o) {i j : Nat} {k : List Nat}
    (h1 : Keyed cs i k) (h2 : Keyed cs j k) : i = j := by
  rcases h1 with ⟨rfl, rfl⟩ | h1 <;> rcases h2 with ⟨rfl, h2⟩ | h2
  · rfl
  · exact absurd rfl (inv.rng _ _ h2).1
  · exact absurd h2 (inv.rng _ _ h1).1
  · exact inv.kinj _ _ _ h1 h2

theorem Keyed.inj {cs : CState} {o : List Nat} (inv : CInv cs o) {i : Nat} {k k' : List Nat}
    (h1 : Keyed cs i k) (h2 : Keyed cs i k') : k = k' := by
  rcases h1 with ⟨rfl, rfl⟩ | h1 <;> rcases h2 with ⟨h, h2⟩ | h2
  · exact h2.symm
  · have := (inv.rng _ _ h2).2.1; omega
  · subst h; have := (inv.rng _ _ h1).2.1; omega
  · exact inv.vinj _ _ _ h1 h2

theorem lookupH_found {cs : CState} {o : List Nat} (_inv : CInv cs o) {k : List Nat}
    (h : lookupH cs.hash k ≠ DEFAULTSTATE) : Keyed cs (lookupH cs.hash k) k := by
  unfold lookupH at *
  by_cases c : k.isEmpty
  · simp only [c, if_true]
    left; exact ⟨rfl, by simpa using c⟩
  · simp only [c] at *
    cases hl : cs.hash.lookup k with
    | none => rw [hl] at h; simp at h
    | some v => right; simpa using lk_some hl

theorem lookupH_missing {cs : CState} {o : List Nat} (inv : CInv cs o) {k : List Nat}
    (h : lookupH cs.hash k = DEFAULTSTATE) : ∀ i, ¬ Keyed cs i k := by
  unfold lookupH at h
  by_cases c : k.isEmpty
  · simp [c, DEFAULTSTATE] at h
  · simp only [c] at h
    have hk : k ≠ [] := by simpa using c
    cases hl : cs.hash.lookup k with
    | none =>
      intro i hi
      rcases hi with ⟨_, h2⟩ | hi
      · exact hk h2
      · exact lk_none hl i hi
    | some v =>
      rw [hl] at h
      simp only [Option.getD_some] at h
      have h1 := (inv.rng _ _ (lk_some hl)).2.2
      have h2 := inv.size_le
      simp [DEFAULTSTATE] at h
      omega

theorem lookupH_keyed {cs : CState} {o : List Nat} (inv : CInv cs o) {k : List Nat} {i : Nat}
    (h : Keyed cs i k) : lookupH cs.hash k = i ∧ i ≠ DEFAULTSTATE := by
  have hlt := h.lt inv
  have hle := inv.size_le
  have hne : i ≠ DEFAULTSTATE := by simp only [DEFAULTSTATE]; omega
  refine ⟨?_, hne⟩
  by_cases c : lookupH cs.hash k = DEFAULTSTATE
  · exact absurd h (lookupH_missing inv c i)
  · exact (lookupH_found inv c).fun inv h

/-- the `hyphenPattern` field of state `i` (`none` also beyond the array) -/
def patAt (cs : CState) (i : Nat) : Option (List Nat) := (cs.states[i]?).bind (·.pat)

/-! ### the three primitive operations -/

theorem keyed_newState (cs : CState) (key : List Nat) (i : Nat) (k : List Nat) :
    Keyed (newState cs key).1 i k ↔ Keyed cs i k ∨ (i = cs.states.size ∧ k = key) := by
  simp only [Keyed, newState, mem_cons, Prod.mk.injEq]
  constructor
  · rintro (h | h | h)
    · exact Or.inl (Or.inl h)
    · exact Or.inr ⟨h.2, h.1⟩
    · exact Or.inl (Or.inr h)
  · rintro ((h | h) | h)
    · exact Or.inl h
    · exact Or.inr (Or.inr h)
    · exact Or.inr (Or.inl ⟨h.2, h.1⟩)

theorem newState_get? (cs : CState) (key : List Nat) (i : Nat) :
    (newState cs key).1.states[i]? = if i = cs.states.size then some {} else cs.states[i]? := by
  simp only [newState]
  rw [Array.getElem?_push]

theorem newState_inv {cs : CState} {o : List Nat} (inv : CInv cs o) (key : List Nat)
    (hnew : ∀ i, ¬ Keyed cs i key) (hne : key ≠ []) (hsz : cs.states.size + 1 ≤ 0xffffffff) :
    CInv (newState cs key).1 (cs.states.size :: o) := by
  have hsize : (newState cs key).1.states.size = cs.states.size + 1 := by simp [newState]
  refine ⟨by rw [hsize]; omega, by rw [hsize]; exact hsz, ?_, ?_, ?_, ?_, ?_, ?_, ?_⟩
  · intro k v h
    rw [hsize]
    simp only [newState, mem_cons, Prod.mk.injEq] at h
    rcases h with ⟨rfl, rfl⟩ | h
    · exact ⟨hne, inv.size_pos, by omega⟩
    · obtain ⟨a, b, c⟩ := inv.rng k v h; exact ⟨a, b, by omega⟩
  · intro k v v' h h'
    simp only [newState, mem_cons, Prod.mk.injEq] at h h'
    rcases h with ⟨rfl, rfl⟩ | h <;> rcases h' with ⟨e, rfl⟩ | h'
    · rfl
    · exact absurd (Or.inr h') (hnew v')
    · subst e; exact absurd (Or.inr h) (hnew v)
    · exact inv.kinj _ _ _ h h'
  · intro k k' v h h'
    simp only [newState, mem_cons, Prod.mk.injEq] at h h'
    rcases h with ⟨rfl, rfl⟩ | h <;> rcases h' with ⟨rfl, e⟩ | h'
    · rfl
    · have := (inv.rng _ _ h').2.2; omega
    · have := (inv.rng _ _ h).2.2; omega
    · exact inv.vinj _ _ _ h h'
  · intro v h1 h2
    rw [hsize] at h2
    by_cases c : v = cs.states.size
    · exact ⟨key, by simp [newState, c]⟩
    · obtain ⟨k, hk⟩ := inv.surj v h1 (by omega)
      exact ⟨k, by simp [newState, hk]⟩
  · intro i s hs ch tgt hm
    rw [newState_get?] at hs
    by_cases c : i = cs.states.size
    · simp only [c, if_true, Option.some.injEq] at hs
      subst hs; simp at hm
    · simp only [c, if_false] at hs
      obtain ⟨k, a, b⟩ := inv.tsound i s hs ch tgt hm
      exact ⟨k, (keyed_newState ..).mpr (Or.inl a), (keyed_newState ..).mpr (Or.inl b)⟩
  · intro k ch tgt hk ho
    simp only [mem_cons, not_or] at ho
    rcases (keyed_newState ..).mp hk with hk | ⟨e, _⟩
    · obtain ⟨i, s, a, b, c⟩ := inv.tcompl k ch tgt hk ho.2
      refine ⟨i, s, (keyed_newState ..).mpr (Or.inl a), ?_, c⟩
      rw [newState_get?]
      have := a.lt inv
      have : ¬ i = cs.states.size := by omega
      simp [this, b]
    · exact absurd e ho.1
  · intro i s hs
    rw [newState_get?] at hs
    by_cases c : i = cs.states.size
    · simp only [c, if_true, Option.some.injEq] at hs
      subst hs; rfl
    · simp only [c, if_false] at hs
      exact inv.fbdef i s hs

theorem patAt_newState (cs : CState) (key : List Nat) (i : Nat) :
    patAt (newState cs key).1 i = patAt cs i := by
  unfold patAt
  rw [newState_get?]
  by_cases c : i = cs.states.size
  · subst c
    have : cs.states[cs.states.size]? = none := Array.getElem?_eq_none (Nat.le_refl _)
    simp
  · simp [c]

theorem keyed_addTrans (cs : CState) (s1 s2 ch i : Nat) (k : List Nat) :
    Keyed (addTrans cs s1 s2 ch) i k ↔ Keyed cs i k := Iff.rfl

theorem keyed_setPat (cs : CState) (st i : Nat) (p k : List Nat) :
    Keyed (setPat cs st p) i k ↔ Keyed cs i k := Iff.rfl

theorem concat_inj {k k' : List Nat} {c c' : Nat} (h : k ++ [c] = k' ++ [c']) : k = k' ∧ c = c' := by
  have := List.append_inj' h rfl
  exact ⟨this.1, by simpa using this.2⟩

theorem addTrans_inv {cs : CState} {o o' : List Nat} (inv : CInv cs o) {s1 s2 ch : Nat} {k : List Nat}
    (h1 : Keyed cs s1 k) (h2 : Keyed cs s2 (k ++ [ch])) (ho : ∀ t, t ∉ o' → t ∉ o ∨ t = s2) :
    CInv (addTrans cs s1 s2 ch) o' := by
  have hsize : (addTrans cs s1 s2 ch).states.size = cs.states.size := modifyAt_size _ _ _
  have hmod : s2 % 4294967296 = s2 := by
    have := h2.lt inv; have := inv.size_le; omega
  have hget : ∀ i, (addTrans cs s1 s2 ch).states[i]? =
      if i = s1 then cs.states[i]?.map (fun st => { st with trans := st.trans ++ [(ch, s2)] }) else cs.states[i]? := by
    intro i
    simp only [addTrans, modifyAt_get?, hmod]
  refine ⟨by rw [hsize]; exact inv.size_pos, by rw [hsize]; exact inv.size_le, ?_, inv.kinj, inv.vinj, ?_, ?_, ?_, ?_⟩
  · intro k v h; rw [hsize]; exact inv.rng k v h
  · intro v a b; rw [hsize] at b; exact inv.surj v a b
  · intro i s hs c tgt hm
    rw [hget] at hs
    by_cases e : i = s1
    · subst e
      simp only [if_true] at hs
      cases h0 : cs.states[i]? with
      | none => rw [h0] at hs; cases hs
      | some s0 =>
        rw [h0] at hs
        simp only [Option.map_some, Option.some.injEq] at hs
        subst hs
        simp only [mem_append, mem_singleton, Prod.mk.injEq] at hm
        rcases hm with hm | ⟨rfl, rfl⟩
        · exact inv.tsound i s0 h0 c tgt hm
        · exact ⟨k, h1, h2⟩
    · simp only [e, if_false] at hs
      exact inv.tsound i s hs c tgt hm
  · intro k' c tgt hk hno
    have key : ∀ (i : Nat) (s : HState), Keyed cs i k' → cs.states[i]? = some s → (c, tgt) ∈ s.trans →
        ∃ i s, Keyed (addTrans cs s1 s2 ch) i k' ∧ (addTrans cs s1 s2 ch).states[i]? = some s ∧ (c, tgt) ∈ s.trans := by
      intro i s a b m
      by_cases e : i = s1
      · refine ⟨i, { s with trans := s.trans ++ [(ch, s2)] }, a, ?_, by simp [m]⟩
        rw [hget, if_pos e, b]; rfl
      · exact ⟨i, s, a, by rw [hget, if_neg e, b], m⟩
    rcases ho tgt hno with hno | rfl
    · obtain ⟨i, s, a, b, m⟩ := inv.tcompl k' c tgt hk hno
      exact key i s a b m
    · have := (Keyed.inj inv hk h2)
      obtain ⟨rfl, rfl⟩ := concat_inj this
      have hlt := h1.lt inv
      refine ⟨s1, { (cs.states[s1]) with trans := (cs.states[s1]).trans ++ [(c, tgt)] }, h1, ?_, by simp⟩
      rw [hget, if_pos rfl, Array.getElem?_eq_getElem hlt]; rfl
  · intro i s hs
    rw [hget] at hs
    by_cases e : i = s1
    · simp only [e, if_true] at hs
      cases h0 : cs.states[s1]? with
      | none => rw [h0] at hs; cases hs
      | some s0 =>
        rw [h0] at hs
        simp only [Option.map_some, Option.some.injEq] at hs
        subst hs
        exact inv.fbdef s1 s0 h0
    · simp only [e, if_false] at hs
      exact inv.fbdef i s hs

theorem patAt_addTrans (cs : CState) (s1 s2 ch i : Nat) : patAt (addTrans cs s1 s2 ch) i = patAt cs i := by
  unfold patAt
  simp only [addTrans, modifyAt_get?]
  by_cases e : i = s1
  · simp only [e, if_true]
    cases cs.states[s1]? <;> rfl
  · simp [e]

theorem setPat_inv {cs : CState} {o : List Nat} (inv : CInv cs o) (st : Nat) (p : List Nat) :
    CInv (setPat cs st p) o := by
  have hsize : (setPat cs st p).states.size = cs.states.size := modifyAt_size _ _ _
  have hget : ∀ i, (setPat cs st p).states[i]? =
      if i = st then cs.states[i]?.map (fun s => { s with pat := some p }) else cs.states[i]? := by
    intro i
    simp only [setPat, modifyAt_get?]
  have hrel : ∀ (i : Nat) (s : HState), (setPat cs st p).states[i]? = some s →
      ∃ s0 : HState, cs.states[i]? = some s0 ∧ s.trans = s0.trans ∧ s.fallback = s0.fallback := by
    intro i s hs
    rw [hget] at hs
    by_cases e : i = st
    · simp only [e, if_true] at hs
      cases h0 : cs.states[st]? with
      | none => rw [h0] at hs; cases hs
      | some s0 =>
        rw [h0] at hs
        simp only [Option.map_some, Option.some.injEq] at hs
        subst hs
        exact ⟨s0, by rw [e, h0], rfl, rfl⟩
    · simp only [e, if_false] at hs
      exact ⟨s, hs, rfl, rfl⟩
  refine ⟨by rw [hsize]; exact inv.size_pos, by rw [hsize]; exact inv.size_le, ?_, inv.kinj, inv.vinj, ?_, ?_, ?_, ?_⟩
  · intro k v h; rw [hsize]; exact inv.rng k v h
  · intro v a b; rw [hsize] at b; exact inv.surj v a b
  · intro i s hs c tgt hm
    obtain ⟨s0, a, b, _⟩ := hrel i s hs
    rw [b] at hm
    exact inv.tsound i s0 a c tgt hm
  · intro k c tgt hk hno
    obtain ⟨i, s, a, b, m⟩ := inv.tcompl k c tgt hk hno
    by_cases e : i = st
    · exact ⟨i, { s with pat := some p }, a, by rw [hget, if_pos e, b]; rfl, m⟩
    · exact ⟨i, s, a, by rw [hget, if_neg e, b], m⟩
  · intro i s hs
    obtain ⟨s0, a, _, c⟩ := hrel i s hs
    rw [c]; exact inv.fbdef i s0 a

theorem patAt_setPat (cs : CState) (st : Nat) (p : List Nat) (i : Nat) :
    patAt (setPat cs st p) i = if i = st ∧ st < cs.states.size then some p else patAt cs i := by
  unfold patAt
  simp only [setPat, modifyAt_get?]
  by_cases e : i = st
  · subst e
    by_cases hl : i < cs.states.size
    · simp [hl, Array.getElem?_eq_getElem hl]
    · have : cs.states[i]? = none := Array.getElem?_eq_none (by omega)
      simp [hl, this]
  · simp [e]

/-! ### linkUp -/

theorem linkUp_unfold (cs : CState) (ch : Nat) (rest : List Nat) (last : Nat) :
    linkUp cs (ch :: rest) last =
      if lookupH cs.hash rest.reverse ≠ DEFAULTSTATE then addTrans cs (lookupH cs.hash rest.reverse) last ch
      else linkUp (addTrans (newState cs rest.reverse).1 cs.states.size last ch) rest cs.states.size := by
  simp only [linkUp, newState]

theorem linkUp_size_le : ∀ (rw : List Nat) (cs : CState) (last : Nat),
    cs.states.size ≤ (linkUp cs rw last).states.size := by
  intro rw
  induction rw with
  | nil => intro cs last; exact Nat.le_refl _
  | cons ch rest ih =>
    intro cs last
    rw [linkUp_unfold]
    split
    · simp [addTrans, modifyAt_size]
    · have := ih (addTrans (newState cs rest.reverse).1 cs.states.size last ch) cs.states.size
      have e : (addTrans (newState cs rest.reverse).1 cs.states.size last ch).states.size = cs.states.size + 1 := by
        simp [addTrans, modifyAt_size, newState]
      omega

theorem linkUp_inv : ∀ (rw : List Nat) (cs : CState) (last : Nat),
    CInv cs [last] → Keyed cs last rw.reverse → rw ≠ [] → (linkUp cs rw last).states.size ≤ 0xffffffff →
    CInv (linkUp cs rw last) [] ∧
    (∀ i k, Keyed cs i k → Keyed (linkUp cs rw last) i k) ∧
    (∀ i k, Keyed (linkUp cs rw last) i k → Keyed cs i k ∨ (k ≠ [] ∧ k <+: rw.reverse)) ∧
    (∀ i, patAt (linkUp cs rw last) i = patAt cs i) := by
  intro rw
  induction rw with
  | nil => intro cs last _ _ h; exact absurd rfl h
  | cons ch rest ih =>
    intro cs last inv hlast _ hsz
    rw [reverse_cons] at hlast
    rw [linkUp_unfold] at hsz ⊢
    by_cases hf : lookupH cs.hash rest.reverse ≠ DEFAULTSTATE
    · rw [if_pos hf] at hsz ⊢
      have hk := lookupH_found inv hf
      refine ⟨addTrans_inv inv hk hlast ?_, fun i k h => h, fun i k h => Or.inl h, fun i => patAt_addTrans ..⟩
      intro t _
      by_cases e : t = last
      · exact Or.inr e
      · exact Or.inl (by simpa using e)
    · rw [if_neg hf] at hsz ⊢
      have hf' : lookupH cs.hash rest.reverse = DEFAULTSTATE := by simpa using hf
      have hmiss := lookupH_missing inv hf'
      have hpne : rest.reverse ≠ [] := by
        intro e; exact hmiss 0 (Or.inl ⟨rfl, e⟩)
      have hrne : rest ≠ [] := by
        intro e; apply hpne; simp [e]
      have hmono := linkUp_size_le rest (addTrans (newState cs rest.reverse).1 cs.states.size last ch) cs.states.size
      have e1 : (addTrans (newState cs rest.reverse).1 cs.states.size last ch).states.size = cs.states.size + 1 := by
        simp [addTrans, modifyAt_size, newState]
      have inv1 := newState_inv inv rest.reverse hmiss hpne (by omega)
      have kn : Keyed (newState cs rest.reverse).1 cs.states.size rest.reverse :=
        (keyed_newState ..).mpr (Or.inr ⟨rfl, rfl⟩)
      have kl : Keyed (newState cs rest.reverse).1 last (rest.reverse ++ [ch]) :=
        (keyed_newState ..).mpr (Or.inl hlast)
      have inv2 : CInv (addTrans (newState cs rest.reverse).1 cs.states.size last ch) [cs.states.size] := by
        apply addTrans_inv inv1 kn kl
        intro t ht
        by_cases e : t = last
        · exact Or.inr e
        · left; simp only [mem_cons, not_or] at ht ⊢
          exact ⟨ht.1, e, by simp⟩
      obtain ⟨r1, r2, r3, r4⟩ := ih _ cs.states.size inv2 kn hrne hsz
      refine ⟨r1, ?_, ?_, ?_⟩
      · intro i k h
        exact r2 i k ((keyed_newState ..).mpr (Or.inl h))
      · intro i k h
        rcases r3 i k h with h | ⟨h1, h2⟩
        · rcases (keyed_newState ..).mp h with h | ⟨_, rfl⟩
          · exact Or.inl h
          · exact Or.inr ⟨hpne, by rw [reverse_cons]; exact prefix_append _ _⟩
        · exact Or.inr ⟨h1, by rw [reverse_cons]; exact h2.trans (prefix_append _ _)⟩
      · intro i
        rw [r4, patAt_addTrans, patAt_newState]

/-! ### one dictionary line -/

/-- with no orphan, the keys are closed under prefixes -/
theorem keyed_prefix {cs : CState} (inv : CInv cs []) :
    ∀ (n : Nat) (t k : List Nat) (i : Nat), t.length = n → Keyed cs i (k ++ t) → ∃ i', Keyed cs i' k := by
  intro n
  induction n with
  | zero =>
    intro t k i ht h
    have : t = [] := List.eq_nil_of_length_eq_zero ht
    subst this
    exact ⟨i, by simpa using h⟩
  | succ n ih =>
    intro t k i ht h
    have hne : t ≠ [] := by intro e; subst e; simp at ht
    have e := List.dropLast_concat_getLast hne
    rw [← e, ← append_assoc] at h
    obtain ⟨i', _, a, _, _⟩ := inv.tcompl _ _ _ h (by simp)
    exact ih t.dropLast k i' (by simp [ht]) a

theorem keyed_of_prefix {cs : CState} (inv : CInv cs []) {i : Nat} {w k : List Nat}
    (h : Keyed cs i w) (hk : k <+: w) : ∃ i', Keyed cs i' k := by
  obtain ⟨t, rfl⟩ := hk
  exact keyed_prefix inv t.length t k i rfl h

structure PInv (ps : List Pat) (cs : CState) : Prop where
  inv : CInv cs []
  keys : ∀ k, (∃ i, Keyed cs i k) ↔ (k = [] ∨ isPatPrefix ps k = true)
  pats : ∀ i k, Keyed cs i k → patAt cs i = (digitsOf ps k).map stripZeros

theorem isPatPrefix_snoc (ps : List Pat) (p : Pat) (k : List Nat) :
    isPatPrefix (ps ++ [p]) k = true ↔ (isPatPrefix ps k = true ∨ k <+: p.letters) := by
  simp [isPatPrefix, any_append]

theorem digitsOf_snoc (ps : List Pat) (p : Pat) (k : List Nat) :
    digitsOf (ps ++ [p]) k = if p.letters = k then some p.digits else digitsOf ps k := by
  unfold digitsOf
  rw [reverse_append]
  simp only [reverse_cons, reverse_nil, nil_append, singleton_append, find?_cons]
  by_cases c : p.letters = k
  · simp [c]
  · have : (p.letters == k) = false := by simpa using c
    simp [c, this]

theorem digitsOf_isPrefix {ps : List Pat} {k ds : List Nat} (h : digitsOf ps k = some ds) :
    isPatPrefix ps k = true := by
  obtain ⟨p, hp, hl, _⟩ := digitsOf_some h
  simp only [isPatPrefix, any_eq_true, isPrefixOf_iff_prefix]
  exact ⟨p, hp, by rw [hl]; exact prefix_refl _⟩

theorem addPattern_unfold (cs : CState) (p : Pat) :
    addPattern cs p =
      if lookupH cs.hash p.letters ≠ DEFAULTSTATE then setPat cs (lookupH cs.hash p.letters) (stripZeros p.digits)
      else linkUp (setPat (newState cs p.letters).1 cs.states.size (stripZeros p.digits)) p.letters.reverse cs.states.size := by
  simp only [addPattern, newState]

theorem addPattern_size_le (cs : CState) (p : Pat) : cs.states.size ≤ (addPattern cs p).states.size := by
  rw [addPattern_unfold]
  split
  · simp [setPat, modifyAt_size]
  · have := linkUp_size_le p.letters.reverse (setPat (newState cs p.letters).1 cs.states.size (stripZeros p.digits)) cs.states.size
    have e : (setPat (newState cs p.letters).1 cs.states.size (stripZeros p.digits)).states.size = cs.states.size + 1 := by
      simp [setPat, modifyAt_size, newState]
    omega

theorem addPattern_inv {ps : List Pat} {cs : CState} (pi : PInv ps cs) (p : Pat)
    (hsz : (addPattern cs p).states.size ≤ 0xffffffff) : PInv (ps ++ [p]) (addPattern cs p) := by
  have inv := pi.inv
  rw [addPattern_unfold] at hsz ⊢
  by_cases hf : lookupH cs.hash p.letters ≠ DEFAULTSTATE
  · rw [if_pos hf] at hsz ⊢
    have hk := lookupH_found inv hf
    have inv' := setPat_inv inv (lookupH cs.hash p.letters) (stripZeros p.digits)
    refine ⟨inv', ?_, ?_⟩
    · intro k
      constructor
      · rintro ⟨i, hi⟩
        rcases (pi.keys k).mp ⟨i, hi⟩ with h | h
        · exact Or.inl h
        · exact Or.inr ((isPatPrefix_snoc ..).mpr (Or.inl h))
      · rintro (h | h)
        · exact ⟨0, Or.inl ⟨rfl, h⟩⟩
        · rcases (isPatPrefix_snoc ..).mp h with h | h
          · exact (pi.keys k).mpr (Or.inr h)
          · exact keyed_of_prefix inv hk h
    · intro i k hi
      have hi' : Keyed cs i k := hi
      rw [patAt_setPat, digitsOf_snoc]
      by_cases e : i = lookupH cs.hash p.letters
      · subst e
        have : p.letters = k := Keyed.inj inv hk hi'
        rw [if_pos ⟨rfl, hk.lt inv⟩, if_pos this]; rfl
      · have hne : ¬ p.letters = k := by
          intro e'; subst e'; exact e (Keyed.fun inv hi' hk)
        have : ¬ (i = lookupH cs.hash p.letters ∧ lookupH cs.hash p.letters < cs.states.size) := fun h => e h.1
        rw [if_neg this, if_neg hne]
        exact pi.pats i k hi'
  · rw [if_neg hf] at hsz ⊢
    have hf' : lookupH cs.hash p.letters = DEFAULTSTATE := by simpa using hf
    have hmiss := lookupH_missing inv hf'
    have hwne : p.letters ≠ [] := by
      intro e; exact hmiss 0 (Or.inl ⟨rfl, e⟩)
    have hrne : p.letters.reverse ≠ [] := by simpa using hwne
    have hmono := linkUp_size_le p.letters.reverse
      (setPat (newState cs p.letters).1 cs.states.size (stripZeros p.digits)) cs.states.size
    have e1 : (setPat (newState cs p.letters).1 cs.states.size (stripZeros p.digits)).states.size = cs.states.size + 1 := by
      simp [setPat, modifyAt_size, newState]
    have inv1 := newState_inv inv p.letters hmiss hwne (by omega)
    have inv2 := setPat_inv inv1 cs.states.size (stripZeros p.digits)
    have kn : Keyed (setPat (newState cs p.letters).1 cs.states.size (stripZeros p.digits)) cs.states.size
        p.letters.reverse.reverse := by
      rw [reverse_reverse]
      exact (keyed_newState ..).mpr (Or.inr ⟨rfl, rfl⟩)
    obtain ⟨r1, r2, r3, r4⟩ := linkUp_inv _ _ cs.states.size inv2 kn hrne hsz
    rw [reverse_reverse] at r3 kn
    have kold : ∀ i k, Keyed cs i k → Keyed (linkUp (setPat (newState cs p.letters).1 cs.states.size
        (stripZeros p.digits)) p.letters.reverse cs.states.size) i k := by
      intro i k h
      exact r2 i k ((keyed_newState ..).mpr (Or.inl h))
    have knew := r2 _ _ kn
    refine ⟨r1, ?_, ?_⟩
    · intro k
      constructor
      · rintro ⟨i, hi⟩
        rcases r3 i k hi with h | ⟨_, h2⟩
        · rcases (keyed_newState ..).mp h with h | ⟨_, rfl⟩
          · rcases (pi.keys k).mp ⟨i, h⟩ with h | h
            · exact Or.inl h
            · exact Or.inr ((isPatPrefix_snoc ..).mpr (Or.inl h))
          · exact Or.inr ((isPatPrefix_snoc ..).mpr (Or.inr (prefix_refl _)))
        · exact Or.inr ((isPatPrefix_snoc ..).mpr (Or.inr h2))
      · rintro (h | h)
        · exact ⟨0, Or.inl ⟨rfl, h⟩⟩
        · rcases (isPatPrefix_snoc ..).mp h with h | h
          · obtain ⟨i, hi⟩ := (pi.keys k).mpr (Or.inr h)
            exact ⟨i, kold i k hi⟩
          · exact keyed_of_prefix r1 knew h
    · intro i k hi
      rw [r4, patAt_setPat, patAt_newState, digitsOf_snoc]
      have hsz1 : (newState cs p.letters).1.states.size = cs.states.size + 1 := by simp [newState]
      by_cases e : i = cs.states.size
      · subst e
        have : p.letters = k := Keyed.inj r1 knew hi
        rw [if_pos ⟨rfl, by rw [hsz1]; omega⟩, if_pos this]; rfl
      · have hne : ¬ p.letters = k := by
          intro e'; subst e'; exact e (Keyed.fun r1 hi knew)
        have : ¬ (i = cs.states.size ∧ cs.states.size < (newState cs p.letters).1.states.size) := fun h => e h.1
        rw [if_neg this, if_neg hne]
        by_cases hex : ∃ i', Keyed cs i' k
        · obtain ⟨i', hi'⟩ := hex
          have : i' = i := Keyed.fun r1 (kold i' k hi') hi
          subst this
          exact pi.pats i' k hi'
        · -- a key created by this line: a new state, and no pattern so far has these letters
          have hk_ne : k ≠ [] := by
            intro e'; exact hex ⟨0, Or.inl ⟨rfl, e'⟩⟩
          have hnp : isPatPrefix ps k = false := by
            cases hp : isPatPrefix ps k with
            | false => rfl
            | true => exact absurd ((pi.keys k).mpr (Or.inr hp)) hex
          have hd : digitsOf ps k = none := by
            cases hd : digitsOf ps k with
            | none => rfl
            | some ds => rw [digitsOf_isPrefix hd] at hnp; cases hnp
          have hi_ge : cs.states.size ≤ i := by
            rcases Nat.lt_or_ge i cs.states.size with hlt | hge
            · exfalso
              have : ∃ k0, Keyed cs i k0 := by
                by_cases h0 : i = 0
                · exact ⟨[], Or.inl ⟨h0, rfl⟩⟩
                · obtain ⟨k0, hk0⟩ := inv.surj i (by omega) hlt
                  exact ⟨k0, Or.inr hk0⟩
              obtain ⟨k0, hk0⟩ := this
              have : k0 = k := Keyed.inj r1 (kold i k0 hk0) hi
              subst this
              exact hex ⟨i, hk0⟩
            · exact hge
          rw [hd]
          unfold patAt
          rw [Array.getElem?_eq_none hi_ge]; rfl

/-! ### the whole list -/

theorem initC_inv : PInv [] initC := by
  refine ⟨⟨by simp [initC], by simp [initC], ?_, ?_, ?_, ?_, ?_, ?_, ?_⟩, ?_, ?_⟩
  · intro k v h; simp [initC] at h
  · intro k v v' h; simp [initC] at h
  · intro k k' v h; simp [initC] at h
  · intro v h1 h2; simp [initC] at h2; omega
  · intro i s hs ch tgt hm
    have : i = 0 := by
      rcases Nat.lt_or_ge i 1 with h | h
      · omega
      · have : initC.states[i]? = none := Array.getElem?_eq_none (by simpa [initC] using h)
        rw [this] at hs; cases hs
    subst this
    simp [initC] at hs
    subst hs
    simp at hm
  · intro k ch tgt hk _
    rcases hk with ⟨_, h⟩ | h
    · simp at h
    · simp [initC] at h
  · intro i s hs
    have : i = 0 := by
      rcases Nat.lt_or_ge i 1 with h | h
      · omega
      · have : initC.states[i]? = none := Array.getElem?_eq_none (by simpa [initC] using h)
        rw [this] at hs; cases hs
    subst this
    simp [initC] at hs
    subst hs
    rfl
  · intro k
    constructor
    · rintro ⟨i, ⟨_, h⟩ | h⟩
      · exact Or.inl h
      · simp [initC] at h
    · rintro (h | h)
      · exact ⟨0, Or.inl ⟨rfl, h⟩⟩
      · simp [isPatPrefix] at h
  · intro i k hk
    rcases hk with ⟨rfl, rfl⟩ | h
    · rfl
    · simp [initC] at h

theorem foldl_size_le : ∀ (ps : List Pat) (cs : CState), cs.states.size ≤ (ps.foldl addPattern cs).states.size := by
  intro ps
  induction ps with
  | nil => intro cs; exact Nat.le_refl _
  | cons p ps ih =>
    intro cs
    simp only [foldl_cons]
    exact Nat.le_trans (addPattern_size_le cs p) (ih _)

theorem foldl_inv : ∀ (ps ps0 : List Pat) (cs : CState), PInv ps0 cs →
    (ps.foldl addPattern cs).states.size ≤ 0xffffffff → PInv (ps0 ++ ps) (ps.foldl addPattern cs) := by
  intro ps
  induction ps with
  | nil => intro ps0 cs pi _; simpa using pi
  | cons p ps ih =>
    intro ps0 cs pi hsz
    simp only [foldl_cons] at hsz ⊢
    have h1 := foldl_size_le ps (addPattern cs p)
    have := ih (ps0 ++ [p]) (addPattern cs p) (addPattern_inv pi p (by omega)) hsz
    simpa using this

theorem compileC_inv (pats : List Pat) (h : (compileC pats).states.size ≤ 0xffffffff) :
    PInv pats (compileC pats) := by
  have := foldl_inv pats [] initC initC_inv h
  simpa [compileC] using this

/-! ### fallback states -/

theorem fbSearch_keyed {pats : List Pat} {cs : CState} (pi : PInv pats cs) :
    ∀ t : List Nat, Keyed cs (fbSearch cs.hash t) (lssD (isPatPrefix pats) t) := by
  intro t
  induction t with
  | nil =>
    rw [lssD_nil]
    simp only [fbSearch, lookupH, isEmpty_nil, if_true]
    exact Or.inl ⟨rfl, rfl⟩
  | cons c t ih =>
    rw [lssD_cons]
    simp only [fbSearch]
    by_cases hf : lookupH cs.hash (c :: t) ≠ DEFAULTSTATE
    · rw [if_pos hf]
      have hk := lookupH_found pi.inv hf
      rcases (pi.keys (c :: t)).mp ⟨_, hk⟩ with h | h
      · cases h
      · rw [if_pos h]; exact hk
    · rw [if_neg hf]
      have hf' : lookupH cs.hash (c :: t) = DEFAULTSTATE := by simpa using hf
      have hmiss := lookupH_missing pi.inv hf'
      have : ¬ isPatPrefix pats (c :: t) = true := by
        intro h
        obtain ⟨i, hi⟩ := (pi.keys (c :: t)).mpr (Or.inr h)
        exact hmiss i hi
      rw [if_neg this]; exact ih

/-- one step of the loop over the hash-table entries -/
def fbStep (g : List Nat → Nat) (st : Array HState) (e : List Nat × Nat) : Array HState :=
  if e.2 ≠ 0 then modifyAt st e.2 (fun s => { s with fallback := g e.1 }) else st

theorem setFallbacks_eq (cs : CState) :
    setFallbacks cs = cs.hash.foldl (fbStep (fun k => fbSearch cs.hash k.tail % 4294967296)) cs.states := rfl

theorem fbFold (g : List Nat → Nat) : ∀ (L : List (List Nat × Nat)) (st : Array HState),
    (L.foldl (fbStep g) st).size = st.size ∧
    ∀ (i : Nat) (s : HState), st[i]? = some s →
      ∃ s' : HState, (L.foldl (fbStep g) st)[i]? = some s' ∧ s'.pat = s.pat ∧ s'.trans = s.trans ∧
        ((∀ k, (k, i) ∉ L) → s'.fallback = s.fallback) ∧
        (∀ k, (k, i) ∈ L → i ≠ 0 → (∀ k', (k', i) ∈ L → k' = k) → s'.fallback = g k) := by
  intro L
  induction L with
  | nil =>
    intro st
    refine ⟨rfl, ?_⟩
    intro i s hs
    exact ⟨s, hs, rfl, rfl, fun _ => rfl, fun k h => by simp at h⟩
  | cons e L ih =>
    intro st
    simp only [foldl_cons]
    obtain ⟨z1, z2⟩ := ih (fbStep g st e)
    have hsz : (fbStep g st e).size = st.size := by
      unfold fbStep; split
      · exact modifyAt_size _ _ _
      · rfl
    refine ⟨by rw [z1, hsz], ?_⟩
    intro i s hs
    -- the state after this entry
    have h1 : ∃ s1 : HState, (fbStep g st e)[i]? = some s1 ∧ s1.pat = s.pat ∧ s1.trans = s.trans ∧
        ((e.2 = i ∧ i ≠ 0) → s1.fallback = g e.1) ∧ (¬ (e.2 = i ∧ i ≠ 0) → s1.fallback = s.fallback) := by
      unfold fbStep
      by_cases c : e.2 ≠ 0
      · rw [if_pos c, modifyAt_get?]
        by_cases c2 : i = e.2
        · rw [if_pos c2, hs]
          exact ⟨_, rfl, rfl, rfl, fun _ => rfl, fun h => absurd ⟨c2.symm, by omega⟩ h⟩
        · rw [if_neg c2]
          exact ⟨s, hs, rfl, rfl, fun h => absurd h.1.symm c2, fun _ => rfl⟩
      · rw [if_neg c]
        have c' : e.2 = 0 := by simpa using c
        exact ⟨s, hs, rfl, rfl, fun h => by omega, fun _ => rfl⟩
    obtain ⟨s1, a1, a2, a3, a4, a5⟩ := h1
    obtain ⟨s', b1, b2, b3, b4, b5⟩ := z2 i s1 a1
    refine ⟨s', b1, by rw [b2, a2], by rw [b3, a3], ?_, ?_⟩
    · intro hno
      have hL : ∀ k, (k, i) ∉ L := fun k h => hno k (mem_cons_of_mem _ h)
      have he : ¬ (e.2 = i ∧ i ≠ 0) := by
        intro ⟨h, _⟩
        apply hno e.1
        rw [← h]; exact mem_cons_self
      rw [b4 hL, a5 he]
    · intro k hk hi0 huniq
      by_cases hex : ∃ k'', (k'', i) ∈ L
      · obtain ⟨k'', hk''⟩ := hex
        have : k'' = k := huniq k'' (mem_cons_of_mem _ hk'')
        subst this
        exact b5 k'' hk'' hi0 (fun k' h => huniq k' (mem_cons_of_mem _ h))
      · have hL : ∀ k, (k, i) ∉ L := fun k h => hex ⟨k, h⟩
        rw [b4 hL]
        rcases mem_cons.mp hk with h | h
        · subst h
          exact a4 ⟨rfl, hi0⟩
        · exact absurd h (hL k)

/-! ### the result is the automaton of the pattern list -/

/-- the string a state stands for, read off the hash table -/
def keyFn (cs : CState) (i : Nat) : List Nat :=
  match cs.hash.find? (fun e => e.2 == i) with
  | some e => e.1
  | none => []

theorem keyFn_of_keyed {cs : CState} (inv : CInv cs []) {i : Nat} {k : List Nat} (h : Keyed cs i k) :
    keyFn cs i = k := by
  unfold keyFn
  cases hf : cs.hash.find? (fun e => e.2 == i) with
  | none =>
    rcases h with ⟨_, rfl⟩ | h
    · rfl
    · have := find?_eq_none.mp hf (k, i) h
      simp at this
  | some e =>
    have h1 : e.2 = i := by simpa using find?_some hf
    have h2 : e ∈ cs.hash := mem_of_find?_eq_some hf
    have h3 : Keyed cs i e.1 := Or.inr (by rw [← h1]; exact h2)
    exact Keyed.inj inv h3 h

theorem keyed_keyFn {cs : CState} (inv : CInv cs []) {i : Nat} (hi : i < cs.states.size) :
    Keyed cs i (keyFn cs i) := by
  have : ∃ k, Keyed cs i k := by
    by_cases h0 : i = 0
    · exact ⟨[], Or.inl ⟨h0, rfl⟩⟩
    · obtain ⟨k, hk⟩ := inv.surj i (by omega) hi
      exact ⟨k, Or.inr hk⟩
  obtain ⟨k, hk⟩ := this
  rw [keyFn_of_keyed inv hk]; exact hk

theorem compileDict_ok (pats : List Pat) (hne : pats ≠ []) (hsz : (compileDict pats).size ≤ 0xffffffff) :
    DictOK pats (compileDict pats) (keyFn (compileC pats)) := by
  have hfold := fbFold (fun k => fbSearch (compileC pats).hash k.tail % 4294967296) (compileC pats).hash (compileC pats).states
  have hd : compileDict pats = (compileC pats).hash.foldl
      (fbStep (fun k => fbSearch (compileC pats).hash k.tail % 4294967296)) (compileC pats).states := rfl
  rw [← hd] at hfold
  obtain ⟨fsz, frel⟩ := hfold
  have pi := compileC_inv pats (by rw [← fsz]; exact hsz)
  have inv := pi.inv
  -- reading a state of the result back to the state before the fallback pass
  have back : ∀ (i : Nat) (s' : HState), (compileDict pats)[i]? = some s' →
      ∃ s : HState, (compileC pats).states[i]? = some s ∧ s'.pat = s.pat ∧ s'.trans = s.trans ∧
        ((∀ k, (k, i) ∉ (compileC pats).hash) → s'.fallback = s.fallback) ∧
        (∀ k, (k, i) ∈ (compileC pats).hash → i ≠ 0 →
          s'.fallback = fbSearch (compileC pats).hash k.tail % 4294967296) := by
    intro i s' hs'
    have hi : i < (compileC pats).states.size := by
      rcases Nat.lt_or_ge i (compileDict pats).size with h | h
      · rw [fsz] at h; exact h
      · rw [Array.getElem?_eq_none h] at hs'; cases hs'
    obtain ⟨s'', c1, c2, c3, c4, c5⟩ := frel i _ (Array.getElem?_eq_getElem hi)
    rw [hs'] at c1
    cases c1
    exact ⟨_, Array.getElem?_eq_getElem hi, c2, c3, c4,
      fun k hk h0 => c5 k hk h0 (fun k' hk' => inv.vinj _ _ _ hk' hk)⟩
  refine ⟨hne, by rw [fsz]; exact inv.size_pos, hsz, ?_, ?_, ?_, ?_, ?_, ?_, ?_, ?_⟩
  · exact keyFn_of_keyed inv (Or.inl ⟨rfl, rfl⟩)
  · intro i j hi hj e
    rw [fsz] at hi hj
    have a := keyed_keyFn inv hi
    have b := keyed_keyFn inv hj
    rw [← e] at b
    exact Keyed.fun inv a b
  · intro i hi
    rw [fsz] at hi
    rcases (pi.keys _).mp ⟨i, keyed_keyFn inv hi⟩ with h | h
    · rw [h]; exact isPatPrefix_nil hne
    · exact h
  · intro s hs
    obtain ⟨i, hi⟩ := (pi.keys s).mpr (Or.inr hs)
    exact ⟨i, by rw [fsz]; exact hi.lt inv, keyFn_of_keyed inv hi⟩
  · intro i s' hs' ch tgt
    obtain ⟨s, a1, _, a3, _, _⟩ := back i s' hs'
    have hi : i < (compileC pats).states.size := by
      rcases Nat.lt_or_ge i (compileC pats).states.size with h | h
      · exact h
      · rw [Array.getElem?_eq_none h] at a1; cases a1
    rw [a3, fsz]
    constructor
    · intro hm
      obtain ⟨k, b1, b2⟩ := inv.tsound i s a1 ch tgt hm
      exact ⟨b2.lt inv, by rw [keyFn_of_keyed inv b1, keyFn_of_keyed inv b2]⟩
    · rintro ⟨ht, hk⟩
      have b2 := keyed_keyFn inv ht
      rw [hk] at b2
      obtain ⟨i2, s2, c1, c2, c3⟩ := inv.tcompl _ _ _ b2 (by simp)
      have : i2 = i := Keyed.fun inv c1 (keyed_keyFn inv hi)
      subst this
      rw [a1] at c2; cases c2
      exact c3
  · intro s' hs'
    obtain ⟨s, a1, _, _, a4, _⟩ := back 0 s' hs'
    rw [a4 (fun k hk => by have := (inv.rng _ _ hk).2.1; omega)]
    exact inv.fbdef 0 s a1
  · intro i s' hs' hi0
    obtain ⟨s, a1, _, _, _, a5⟩ := back i s' hs'
    have hi : i < (compileC pats).states.size := by
      rcases Nat.lt_or_ge i (compileC pats).states.size with h | h
      · exact h
      · rw [Array.getElem?_eq_none h] at a1; cases a1
    obtain ⟨k, hk⟩ := inv.surj i (by omega) hi
    have hkey : keyFn (compileC pats) i = k := keyFn_of_keyed inv (Or.inr hk)
    have hfb := fbSearch_keyed pi k.tail
    have hlt := hfb.lt inv
    have hle := inv.size_le
    have hmod : fbSearch (compileC pats).hash k.tail % 4294967296 = fbSearch (compileC pats).hash k.tail := by omega
    rw [a5 k hk hi0, hmod, fsz, hkey]
    exact ⟨hlt, keyFn_of_keyed inv hfb⟩
  · intro i s' hs'
    obtain ⟨s, a1, a2, _, _, _⟩ := back i s' hs'
    have hi : i < (compileC pats).states.size := by
      rcases Nat.lt_or_ge i (compileC pats).states.size with h | h
      · exact h
      · rw [Array.getElem?_eq_none h] at a1; cases a1
    have := pi.pats i _ (keyed_keyFn inv hi)
    unfold patAt at this
    rw [a1] at this
    rw [a2]
    simpa using this

end Lou.Hyph
