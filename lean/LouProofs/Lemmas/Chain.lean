/-
  Sorted insertion into rule chains (the invariant behind C05's "longest first, `always` last
  among equals, definition order otherwise" and C12's chain-order clause).
-/
import LouModel.Compile

namespace Lou.Chain
open Lou Lou.Gen Lou.Compile

/-- 1 for `always`, 0 otherwise -/
def cls (r : Rule) : Nat := if r.opcode == CTO_Always then 1 else 0

/-- `a` may stand before `b` in a forward multi-character chain -/
def le (a b : Rule) : Prop :=
  a.chars.length > b.chars.length ∨
  (a.chars.length = b.chars.length ∧ (cls a < cls b ∨ (cls a = cls b ∧ a.idx < b.idx)))

theorem le_trans {a b c : Rule} (h1 : le a b) (h2 : le b c) : le a c := by
  unfold le at *
  rcases h1 with h1 | ⟨e1, h1⟩ <;> rcases h2 with h2 | ⟨e2, h2⟩
  · left; omega
  · left; omega
  · left; omega
  · right
    refine ⟨by omega, ?_⟩
    rcases h1 with h1 | ⟨c1, i1⟩ <;> rcases h2 with h2 | ⟨c2, i2⟩
    · left; omega
    · left; omega
    · left; omega
    · right; exact ⟨by omega, by omega⟩

/-- the stop test of `addForwardRuleWithMultipleChars` -/
def stopFwd (new o : Rule) : Bool :=
  new.chars.length > o.chars.length ||
  (new.chars.length == o.chars.length && o.opcode == CTO_Always && new.opcode != CTO_Always)

/-- rule-level insertion: before the first element for which `stop` holds -/
def insR (stop : Rule → Bool) (new : Rule) : List Rule → List Rule
  | [] => [new]
  | o :: rest => if stop o then new :: o :: rest else o :: insR stop new rest

theorem mem_insR (stop : Rule → Bool) (new y : Rule) (l : List Rule) :
    y ∈ insR stop new l ↔ y = new ∨ y ∈ l := by
  induction l with
  | nil => simp [insR]
  | cons o rest ih =>
    unfold insR
    split
    · simp
    · simp only [List.mem_cons, ih]
      constructor
      · rintro (h | h | h)
        · right; left; exact h
        · left; exact h
        · right; right; exact h
      · rintro (h | h | h)
        · right; left; exact h
        · left; exact h
        · right; right; exact h

theorem cls_le_one (r : Rule) : cls r ≤ 1 := by unfold cls; split <;> omega

theorem stop_le (new o : Rule) (h : stopFwd new o = true) : le new o := by
  unfold stopFwd at h
  unfold le
  simp only [Bool.or_eq_true, decide_eq_true_eq, Bool.and_eq_true, beq_iff_eq, bne_iff_ne, ne_eq] at h
  rcases h with h | ⟨⟨h1, h2⟩, h3⟩
  · left; exact h
  · right
    refine ⟨h1, Or.inl ?_⟩
    unfold cls
    simp [h2, h3]

theorem nostop_le (new o : Rule) (h : stopFwd new o = false) (hi : o.idx < new.idx) : le o new := by
  unfold stopFwd at h
  unfold le
  simp only [Bool.or_eq_false_iff, decide_eq_false_iff_not, Nat.not_lt, Bool.and_eq_false_imp,
    Bool.and_eq_true, beq_iff_eq, bne_eq_false_iff_eq, and_imp] at h
  obtain ⟨h1, h2⟩ := h
  by_cases hl : new.chars.length = o.chars.length
  · right
    refine ⟨hl.symm, ?_⟩
    have := cls_le_one o
    have := cls_le_one new
    by_cases ho : o.opcode = CTO_Always
    · have hn := h2 hl ho
      right; unfold cls; simp [ho, hn]; exact hi
    · by_cases hn : new.opcode = CTO_Always
      · left; unfold cls; simp [ho, hn]
      · right; unfold cls; simp [ho, hn]; exact hi
  · left; omega

/-- **sorted insertion**: inserting a rule whose index is larger than every index in the chain
    keeps the chain in the documented order -/
theorem insR_sorted (new : Rule) : ∀ (l : List Rule), l.Pairwise le → (∀ o ∈ l, o.idx < new.idx) →
    (insR (stopFwd new) new l).Pairwise le := by
  intro l
  induction l with
  | nil => intro _ _; simp [insR]
  | cons o rest ih =>
    intro hs hi
    have hso := List.pairwise_cons.mp hs
    unfold insR
    by_cases hst : stopFwd new o = true
    · simp only [hst, if_true]
      refine List.pairwise_cons.mpr ⟨?_, hs⟩
      intro x hx
      rcases List.mem_cons.mp hx with rfl | hx
      · exact stop_le new _ hst
      · exact le_trans (stop_le new o hst) (hso.1 x hx)
    · have hst' : stopFwd new o = false := by simpa using hst
      simp only [hst', Bool.false_eq_true, if_false]
      refine List.pairwise_cons.mpr ⟨?_, ih hso.2 (fun x hx => hi x (List.mem_cons_of_mem _ hx))⟩
      intro y hy
      rcases (mem_insR _ _ _ _).mp hy with rfl | hy
      · exact nostop_le _ o hst' (hi o (List.mem_cons_self ..))
      · exact hso.1 y hy

/-- in a sorted chain the first rule satisfying a predicate is `le` every other rule satisfying it -/
theorem find_first_le (p : Rule → Bool) : ∀ (l : List Rule), l.Pairwise le → ∀ r, l.find? p = some r →
    ∀ x ∈ l, p x = true → x = r ∨ le r x := by
  intro l
  induction l with
  | nil => intro _ r h; simp at h
  | cons o rest ih =>
    intro hs r hf x hx hpx
    have hso := List.pairwise_cons.mp hs
    simp only [List.find?_cons] at hf
    by_cases hpo : p o = true
    · simp only [hpo] at hf
      cases hf
      rcases List.mem_cons.mp hx with rfl | hx
      · left; rfl
      · right; exact hso.1 x hx
    · have hpo' : p o = false := by simpa using hpo
      simp only [hpo'] at hf
      rcases List.mem_cons.mp hx with rfl | hx
      · rw [hpo'] at hpx; cases hpx
      · exact ih hso.2 r hf x hx hpx

end Lou.Chain
