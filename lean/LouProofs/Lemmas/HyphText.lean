/-
  Lemmas/HyphText.lean — the word-run loop of lou_hyphenate, position by position:
  given that hyphenateWord computes `specDigits`, text mode leaves `specText`.
-/
import LouModel.Hyph
import LouProofs.Lemmas.Hyph
import LouProofs.Lemmas.HyphWalk
import LouProofs.Lemmas.HyphCompile
import LouProofs.Lemmas.HyphWrap

namespace Lou.Hyph
open List

/-! ### runs of letters -/

/-- `findFrom` returns the first index ≥ k that satisfies `p` (or the length) when the fuel suffices -/
theorem findFrom_spec (p : Nat → Bool) (text : List Nat) : ∀ (fuel k : Nat), k ≤ text.length →
    text.length - k ≤ fuel →
    (∀ j, k ≤ j → j < findFrom p text fuel k → p (text.getD j 0) = false) ∧
    (findFrom p text fuel k < text.length → p (text.getD (findFrom p text fuel k) 0) = true) := by
  intro fuel
  induction fuel with
  | zero =>
    intro k h1 h2
    simp only [findFrom]
    exact ⟨fun j a b => by omega, fun h => by omega⟩
  | succ fuel ih =>
    intro k h1 h2
    simp only [findFrom]
    split
    · rename_i c
      obtain ⟨a, b⟩ := ih (k + 1) (by omega) (by omega)
      refine ⟨?_, b⟩
      intro j hj1 hj2
      by_cases e : j = k
      · subst e; simpa using c.2
      · exact a j (by omega) hj2
    · rename_i c
      refine ⟨fun j a b => by omega, ?_⟩
      intro h
      have : ¬ (!p (text.getD k 0)) = true := fun hh => c ⟨h, hh⟩
      simpa using this

/-- uniqueness: an index with the defining property of the first hit is the result -/
theorem findFrom_unique (p : Nat → Bool) (text : List Nat) (fuel k r : Nat) (hk : k ≤ text.length)
    (hfuel : text.length - k ≤ fuel) (h1 : k ≤ r) (h2 : r ≤ text.length)
    (h3 : ∀ j, k ≤ j → j < r → p (text.getD j 0) = false)
    (h4 : r < text.length → p (text.getD r 0) = true) : findFrom p text fuel k = r := by
  obtain ⟨a, b⟩ := findFrom_spec p text fuel k hk hfuel
  obtain ⟨c1, c2⟩ := findFrom_bounds p text fuel k hk
  rcases Nat.lt_trichotomy (findFrom p text fuel k) r with h | h | h
  · have := h3 _ c1 h
    have := b (by omega)
    simp_all
  · exact h
  · have := a r h1 h
    have := h4 (by omega)
    simp_all

theorem runStartAt_eq (cl : Classes) (text : List Nat) (ws : Nat)
    (hb : ws = 0 ∨ cl.isLetter (text.getD (ws - 1) 0) = false) :
    ∀ m, (∀ j, ws ≤ j → j < ws + m → cl.isLetter (text.getD j 0) = true) → runStartAt cl text (ws + m) = ws := by
  intro m
  induction m with
  | zero =>
    intro _
    cases ws with
    | zero => rfl
    | succ w =>
      simp only [runStartAt]
      rcases hb with h | h
      · omega
      · simp at h; simp [h]
  | succ m ih =>
    intro h
    have e : ws + (m + 1) = (ws + m) + 1 := by omega
    rw [e]
    simp only [runStartAt]
    rw [if_pos (h (ws + m) (by omega) (by omega))]
    exact ih (fun j a b => h j a (by omega))

theorem norm1_add (d : Nat) : norm1 (d + 48) = if d % 2 = 1 then 49 else 48 := by
  unfold norm1
  have : (d + 48) % 2 = d % 2 := by omega
  rw [this]


theorem specChar_nonletter (pats : List Pat) (cl : Classes) (text : List Nat) (k : Nat)
    (h : cl.isLetter (text.getD k 0) = false) : specChar pats cl text k = 48 := by
  unfold specChar
  simp only [h, Bool.not_false, if_true]

structure TInv (pats : List Pat) (cl : Classes) (text : List Nat) (ws0 : Nat) (b : TBuf) : Prop where
  oob : b.oob = false
  len : b.data.length = text.length + 1
  done : ∀ k, k < ws0 → k < text.length → b.data.getD k 0 = specChar pats cl text k
  rest : ∀ k, ws0 ≤ k → k < text.length → b.data.getD k 0 = 48
  nul : b.data.getD text.length 0 = 0
  bd : ws0 = 0 ∨ cl.isLetter (text.getD (ws0 - 1) 0) = false

theorem wordLoop_spec (pats : List Pat) (cl : Classes)
    (hrs : ∀ w, hyphenateWord (compileDict pats) cl.lower w = specDigits pats cl.lower w)
    (text : List Nat) (hlen : text.length + 3 ≤ MAXSTRING) :
    ∀ (fuel ws0 : Nat) (b : TBuf), ws0 ≤ text.length → text.length + 1 - ws0 ≤ fuel →
      TInv pats cl text ws0 b →
      ∃ b', wordLoop (compileDict pats) cl text fuel ws0 b = some b' ∧ b'.oob = false ∧
        b'.data.length = text.length + 1 ∧
        (∀ k, k < text.length → b'.data.getD k 0 = specChar pats cl text k) ∧
        b'.data.getD text.length 0 = 0 := by
  intro fuel
  induction fuel with
  | zero => intro ws0 b h1 h2 _; omega
  | succ fuel ih =>
    intro ws0 b hws0 hfuel f
    simp only [wordLoop]
    obtain ⟨a1, a2⟩ := findFrom_bounds cl.isLetter text text.length ws0 hws0
    obtain ⟨a3, a4⟩ := findFrom_spec cl.isLetter text text.length ws0 hws0 (by omega)
    generalize findFrom cl.isLetter text text.length ws0 = ws at a1 a2 a3 a4
    by_cases c : ws ≥ text.length
    · rw [if_pos c]
      refine ⟨b, rfl, f.oob, f.len, ?_, f.nul⟩
      intro k hk
      by_cases ck : k < ws0
      · exact f.done k ck hk
      · rw [f.rest k (by omega) hk, specChar_nonletter]
        exact a3 k (by omega) (by omega)
    · rw [if_neg c]
      have hwsL : cl.isLetter (text.getD ws 0) = true := a4 (by omega)
      have hbd : ws = 0 ∨ cl.isLetter (text.getD (ws - 1) 0) = false := by
        by_cases e : ws = ws0
        · rw [e]; exact f.bd
        · right; exact a3 (ws - 1) (by omega) (by omega)
      obtain ⟨e1, e2⟩ := findFrom_bounds (fun c => !cl.isLetter c) text text.length (ws + 1) (by omega)
      obtain ⟨e3, e4⟩ := findFrom_spec (fun c => !cl.isLetter c) text text.length (ws + 1) (by omega) (by omega)
      have hwe_def : ∀ k, ws + 1 ≤ k → k ≤ findFrom (fun c => !cl.isLetter c) text text.length (ws + 1) →
          findFrom (fun c => !cl.isLetter c) text text.length k = findFrom (fun c => !cl.isLetter c) text text.length (ws + 1) := by
        intro k hk1 hk2
        apply findFrom_unique _ _ _ _ _ (by omega) (by omega) hk2 e2
        · intro j hj1 hj2; exact e3 j (by omega) hj2
        · exact e4
      generalize findFrom (fun c => !cl.isLetter c) text text.length (ws + 1) = we at e1 e2 e3 e4 hwe_def
      have hlet : ∀ j, ws ≤ j → j < we → cl.isLetter (text.getD j 0) = true := by
        intro j hj1 hj2
        by_cases e : j = ws
        · rw [e]; exact hwsL
        · have := e3 j (by omega) hj2
          simpa using this
      have hwl : ((text.drop ws).take (we - ws)).length = we - ws := by
        simp; omega
      have hnot : ¬ (((text.drop ws).take (we - ws)).length + 3 > MAXSTRING) := by
        rw [hwl]; omega
      rw [if_neg hnot]
      rw [hrs]
      have hyl : ((specDigits pats cl.lower ((text.drop ws).take (we - ws))).map (· + 48)).length = we - ws := by
        simp [specDigits, hwl]
      have hvget : ∀ m, m < we - ws →
          ((specDigits pats cl.lower ((text.drop ws).take (we - ws))).map (· + 48)).getD m 0 =
            specDigitAt pats (prepWord cl.lower ((text.drop ws).take (we - ws))) m + 48 := by
        intro m hm
        simp [specDigits, List.getD_eq_getElem?_getD, hwl, hm]
      generalize (specDigits pats cl.lower ((text.drop ws).take (we - ws))).map (· + 48) = hv at hyl hvget
      -- the four writes of one run
      obtain ⟨p1, p2, p3⟩ := writeRange_in hv b ws (by rw [hyl, f.len]; omega)
      obtain ⟨q1, q2, q3⟩ := write_in (b.writeRange ws hv) we 0 (by rw [p2, f.len]; omega)
      generalize hfirst : (if ws ≥ 2 ∧ cl.isHyphen (text.getD (ws - 1) 0) = true ∧ cl.isLetter (text.getD (ws - 2) 0) = true
        then 50 else 48 : Nat) = first
      obtain ⟨r1, r2, r3⟩ := write_in ((b.writeRange ws hv).write we 0) ws first (by rw [q2, p2, f.len]; omega)
      obtain ⟨s1, s2, s3⟩ := normalise_in (we - (ws + 1)) (((b.writeRange ws hv).write we 0).write ws first) (ws + 1)
        (by rw [r2, q2, p2, f.len]; omega)
      generalize hB : normalise (((b.writeRange ws hv).write we 0).write ws first) (we - (ws + 1)) (ws + 1) = B at s1 s2 s3
      have Boob : B.oob = false := by rw [s1, r1, q1, p1, f.oob]
      have Blen : B.data.length = text.length + 1 := by rw [s2, r2, q2, p2, f.len]
      have Bget : ∀ k, B.data.getD k 0 =
          if ws + 1 ≤ k ∧ k < we then norm1 (hv.getD (k - ws) 0)
          else if k = ws then first else if k = we then 0 else b.data.getD k 0 := by
        intro k
        rw [s3 k, r3 k, q3 k, p3 k, hyl]
        by_cases c1 : ws + 1 ≤ k ∧ k < we
        · have c1' : ws + 1 ≤ k ∧ k < ws + 1 + (we - (ws + 1)) := by omega
          have c2 : ¬ k = ws := by omega
          have c3 : ¬ k = we := by omega
          have c4 : ws ≤ k ∧ k < ws + (we - ws) := by omega
          rw [if_pos c1', if_pos c1, if_neg c2, if_neg c3, if_pos c4]
        · have c1' : ¬ (ws + 1 ≤ k ∧ k < ws + 1 + (we - (ws + 1))) := by omega
          rw [if_neg c1', if_neg c1]
          by_cases c2 : k = ws
          · rw [if_pos c2, if_pos c2]
          · rw [if_neg c2, if_neg c2]
            by_cases c3 : k = we
            · rw [if_pos c3, if_pos c3]
            · have c4 : ¬ (ws ≤ k ∧ k < ws + (we - ws)) := by omega
              rw [if_neg c3, if_neg c3, if_neg c4]
      -- the value the property demands at the positions of this run
      have hrun : ∀ k, ws ≤ k → k < we → B.data.getD k 0 = specChar pats cl text k := by
        intro k hk1 hk2
        have hst : runStartAt cl text k = ws := by
          have := runStartAt_eq cl text ws hbd (k - ws) (fun j a b => hlet j a (by omega))
          rwa [show ws + (k - ws) = k by omega] at this
        rw [Bget k]
        unfold specChar
        simp only [hlet k hk1 hk2, Bool.not_true, Bool.false_eq_true, if_false, hst]
        by_cases e : k = ws
        · subst e
          have c1 : ¬ (k + 1 ≤ k ∧ k < we) := by omega
          rw [if_neg c1, if_pos rfl, if_pos rfl, ← hfirst]
        · have c1 : ws + 1 ≤ k ∧ k < we := by omega
          have c2 : ¬ ws = k := fun h => e h.symm
          rw [if_pos c1, if_neg c2, hwe_def k (by omega) (by omega), hvget (k - ws) (by omega), norm1_add]
      have hbefore : ∀ k, k < ws → k < text.length → B.data.getD k 0 = specChar pats cl text k := by
        intro k hk hk'
        rw [Bget k]
        have c1 : ¬ (ws + 1 ≤ k ∧ k < we) := by omega
        have c2 : ¬ k = ws := by omega
        have c3 : ¬ k = we := by omega
        rw [if_neg c1, if_neg c2, if_neg c3]
        by_cases ck : k < ws0
        · exact f.done k ck hk'
        · rw [f.rest k (by omega) hk', specChar_nonletter]
          exact a3 k (by omega) hk
      by_cases cw : we = text.length
      · rw [if_pos cw]
        refine ⟨B, rfl, Boob, Blen, ?_, ?_⟩
        · intro k hk
          by_cases ck : k < ws
          · exact hbefore k ck hk
          · exact hrun k (by omega) (by omega)
        · rw [Bget]
          have c1 : ¬ (ws + 1 ≤ text.length ∧ text.length < we) := by omega
          have c2 : ¬ text.length = ws := by omega
          rw [if_neg c1, if_neg c2, if_pos cw.symm]
      · rw [if_neg cw]
        obtain ⟨t1, t2, t3⟩ := write_in B we 48 (by rw [Blen]; omega)
        have hweN : cl.isLetter (text.getD we 0) = false := by
          have := e4 (by omega); simpa using this
        apply ih (we + 1) (B.write we 48) (by omega) (by omega)
        refine ⟨by rw [t1, Boob], by rw [t2, Blen], ?_, ?_, ?_, ?_⟩
        · intro k hk hk'
          rw [t3 k]
          by_cases c3 : k = we
          · rw [if_pos c3, c3, specChar_nonletter _ _ _ _ hweN]
          · rw [if_neg c3]
            by_cases ck : k < ws
            · exact hbefore k ck hk'
            · exact hrun k (by omega) (by omega)
        · intro k hk hk'
          rw [t3 k, Bget k]
          have c0 : ¬ k = we := by omega
          have c1 : ¬ (ws + 1 ≤ k ∧ k < we) := by omega
          have c2 : ¬ k = ws := by omega
          rw [if_neg c0, if_neg c1, if_neg c2, if_neg c0]
          exact f.rest k (by omega) hk'
        · rw [t3]
          have c0 : ¬ text.length = we := by omega
          rw [if_neg c0, Bget]
          have c1 : ¬ (ws + 1 ≤ text.length ∧ text.length < we) := by omega
          have c2 : ¬ text.length = ws := by omega
          rw [if_neg c1, if_neg c2, if_neg c0]; exact f.nul
        · right; simpa using hweN

theorem specText_getD (pats : List Pat) (cl : Classes) (text : List Nat) (k : Nat) :
    (specText pats cl text).getD k 0 = if k < text.length then specChar pats cl text k else 0 := by
  unfold specText
  by_cases c : k < text.length
  · rw [if_pos c]
    simp [List.getD_eq_getElem?_getD, List.getElem?_append_left, c]
  · rw [if_neg c]
    by_cases e : k = text.length
    · subst e; simp [List.getD_eq_getElem?_getD]
    · rw [getD_of_le]; simp; omega

end Lou.Hyph
