/-
  Lemmas/LexTokens.lean — lemmas about the token-level functions of LouModel/Lexer.lean:
  parseChars (unfolding equations, concrete spellings, output bound, fuel), parseDots
  (adjacent swap, permutation, closed form of a cell).
-/
import LouModel.Lexer

namespace Lou.Lexer

/-! ## parseChars -/

/-- UTF-8 of a 16-bit code point (1 to 3 bytes; surrogates are encoded like any other value, as the
    decoder of parseChars does not treat them specially) -/
def utf8 (cp : Nat) : List Nat :=
  if cp < 0x80 then [cp]
  else if cp < 0x800 then [0xC0 + cp / 64, 0x80 + cp % 64]
  else [0xE0 + cp / 4096, 0x80 + cp / 64 % 64, 0x80 + cp % 64]

theorem pcl_nil (term f pos out lo e w) :
    parseCharsLoop term (f + 1) [] pos out lo e w = ⟨true, out, out.length, e, w⟩ := by
  rw [parseCharsLoop]

theorem pcl_ascii (term f c0 rest pos out lo e w) (h1 : c0 % 256 < 128) (h2 : c0 % 256 ≠ 92)
    (h3 : out.length < MAXSTRING - 1) :
    parseCharsLoop term (f + 1) (c0 :: rest) pos out lo e w =
      parseCharsLoop term f rest (pos + 1) (out ++ [c0 % 256]) lo e w := by
  rw [parseCharsLoop]
  simp only []
  rw [if_pos h1, if_neg h2, if_neg (by omega)]

theorem pcl_multi (term f c0 rest pos out lo e w) (h1 : 128 ≤ c0 % 256) :
    parseCharsLoop term (f + 1) (c0 :: rest) pos out lo e w =
      match contLoop rest (pos + 1) (numBytes (c0 % 256)) rest (pos + 1) (c0 % 256 % 2 ^ (7 - numBytes (c0 % 256))) out w with
      | .tooLong out' w' => ⟨false, out', out.length, e + 1, w'⟩
      | .done cur curPos u out' w' =>
        if MAXSTRING - 1 ≤ out'.length then ⟨false, out', out.length, e + 1, w'⟩
        else if 0xffff < u then ⟨false, out', out.length, e + 1, w'⟩
        else parseCharsLoop term f cur curPos (out' ++ [u]) out.length e w' := by
  rw [parseCharsLoop]
  simp only []
  rw [if_neg (by omega)]
  generalize contLoop rest (pos + 1) (numBytes (c0 % 256)) rest (pos + 1) (c0 % 256 % 2 ^ (7 - numBytes (c0 % 256))) out w = r
  cases r <;> rfl

theorem contLoop_good (rest restPos k c cur' curPos u out w) (h1 : curPos < MAXSTRING - 1)
    (h2 : out.length < MAXSTRING - 1) (h3 : 128 ≤ c) (h4 : (c / 64) % 2 = 0) :
    contLoop rest restPos (k + 1) (c :: cur') curPos u out w =
      contLoop rest restPos k cur' (curPos + 1) ((u * 64 + c % 64) % 4294967296) out w := by
  rw [contLoop]
  rw [if_neg (by omega), if_neg (by omega), if_neg (by omega)]

theorem parseChars_utf8_2 (cp : Nat) (h1 : 0x80 ≤ cp) (h2 : cp < 0x800) :
    parseChars [0xC0 + cp / 64, 0x80 + cp % 64] = ⟨true, [cp], 1, 0, 0⟩ := by
  unfold parseChars
  simp only [List.length_cons, List.length_nil]
  have hn : numBytes ((192 + cp / 64) % 256) = 1 := by
    unfold numBytes
    rw [if_neg (by omega), if_neg (by omega), if_neg (by omega), if_neg (by omega), if_neg (by omega), if_pos (by omega)]
  rw [pcl_multi _ _ _ _ _ _ _ _ _ (by omega), hn]
  rw [contLoop_good _ _ _ _ _ _ _ _ _ (by simp [MAXSTRING]) (by simp [MAXSTRING]) (by omega) (by omega)]
  simp only [contLoop]
  have hu : (((192 + cp / 64) % 256 % 2 ^ (7 - 1)) * 64 + (128 + cp % 64) % 64) % 4294967296 = cp := by
    simp only [show (2:Nat) ^ (7 - 1) = 64 from rfl]; omega
  rw [hu]
  rw [if_neg (by simp [MAXSTRING]), if_neg (by omega), pcl_nil]
  simp

theorem parseChars_utf8_3 (cp : Nat) (h1 : 0x800 ≤ cp) (h2 : cp < 0x10000) :
    parseChars [0xE0 + cp / 4096, 0x80 + cp / 64 % 64, 0x80 + cp % 64] = ⟨true, [cp], 1, 0, 0⟩ := by
  unfold parseChars
  simp only [List.length_cons, List.length_nil]
  have hn : numBytes ((224 + cp / 4096) % 256) = 2 := by
    unfold numBytes
    rw [if_neg (by omega), if_neg (by omega), if_neg (by omega), if_neg (by omega), if_pos (by omega)]
  rw [pcl_multi _ _ _ _ _ _ _ _ _ (by omega), hn]
  rw [contLoop_good _ _ _ _ _ _ _ _ _ (by simp [MAXSTRING]) (by simp [MAXSTRING]) (by omega) (by omega)]
  rw [contLoop_good _ _ _ _ _ _ _ _ _ (by simp [MAXSTRING]) (by simp [MAXSTRING]) (by omega) (by omega)]
  simp only [contLoop]
  have hu : ((((224 + cp / 4096) % 256 % 2 ^ (7 - 2)) * 64 + (128 + cp / 64 % 64) % 64) % 4294967296 * 64 +
      (128 + cp % 64) % 64) % 4294967296 = cp := by
    simp only [show (2:Nat) ^ (7 - 2) = 32 from rfl]; omega
  rw [hu]
  rw [if_neg (by simp [MAXSTRING]), if_neg (by omega), pcl_nil]
  simp

theorem parseChars_ascii (cp : Nat) (h1 : cp < 0x80) (h2 : cp ≠ 92) : parseChars [cp] = ⟨true, [cp], 1, 0, 0⟩ := by
  unfold parseChars
  simp only [List.length_cons, List.length_nil]
  have : cp % 256 = cp := by omega
  rw [pcl_ascii _ _ _ _ _ _ _ _ _ (by omega) (by omega) (by simp [MAXSTRING]), pcl_nil, this]
  simp

theorem parseChars_hex (d1 d2 d3 d4 v1 v2 v3 v4 : Nat) (h1 : hexDigit? d1 = some v1) (h2 : hexDigit? d2 = some v2)
    (h3 : hexDigit? d3 = some v3) (h4 : hexDigit? d4 = some v4) :
    parseChars [92, 120, d1, d2, d3, d4] = ⟨true, [(((v1 * 16 + v2) * 16 + v3) * 16 + v4) % 65536], 1, 0, 0⟩ := by
  unfold parseChars
  simp only [List.length_cons, List.length_nil]
  rw [parseCharsLoop]
  have he : escape [120, d1, d2, d3, d4] 0 = .val ((((v1 * 16 + v2) * 16 + v3) * 16 + v4) % 65536) 5 0 0 := by
    simp [escape, hexValue, h1, h2, h3, h4, List.foldlM]
  simp [he, MAXSTRING, pcl_nil]

/-! ### bounds and fuel -/

theorem contLoop_bound (rest : List Nat) (restPos : Nat) : ∀ (k : Nat) (cur : List Nat) (curPos u : Nat) (out : List Nat) (w : Nat),
    out.length ≤ MAXSTRING - 1 →
    match contLoop rest restPos k cur curPos u out w with
    | .tooLong out' _ => out'.length ≤ MAXSTRING - 1 ∧ out.length ≤ out'.length
    | .done _ _ _ out' _ => out'.length ≤ MAXSTRING - 1 ∧ out.length ≤ out'.length := by
  intro k
  induction k with
  | zero => intro cur curPos u out w h; simp [contLoop, h]
  | succ k ih =>
    intro cur curPos u out w h
    cases cur with
    | nil => simp [contLoop, h]
    | cons c cur' =>
      rw [contLoop]
      by_cases h1 : MAXSTRING - 1 ≤ curPos
      · rw [if_pos h1]; exact ⟨h, Nat.le_refl _⟩
      · rw [if_neg h1]
        by_cases h2 : MAXSTRING - 1 ≤ out.length
        · rw [if_pos h2]; exact ⟨h, Nat.le_refl _⟩
        · rw [if_neg h2]
          by_cases h3 : c < 128 ∨ (c / 64) % 2 = 1
          · rw [if_pos h3]
            have := ih (rest.drop 1) (restPos + 1) u (out ++ [rest.headD 0]) (w + 1) (by simp; omega)
            generalize contLoop rest restPos k (rest.drop 1) (restPos + 1) u (out ++ [rest.headD 0]) (w + 1) = r at this
            cases r <;> simp at this ⊢ <;> omega
          · rw [if_neg h3]
            exact ih cur' (curPos + 1) _ out w h

theorem parseCharsLoop_bound (term : Nat) : ∀ (f : Nat) (tok : List Nat) (pos : Nat) (out : List Nat) (lo e w : Nat),
    out.length ≤ MAXSTRING - 1 → lo ≤ out.length →
    (parseCharsLoop term f tok pos out lo e w).chars.length ≤ MAXSTRING - 1 ∧
    (parseCharsLoop term f tok pos out lo e w).length ≤ (parseCharsLoop term f tok pos out lo e w).chars.length := by
  intro f
  induction f with
  | zero => intro tok pos out lo e w h1 h2; simp [parseCharsLoop, h1, h2]
  | succ f ih =>
    intro tok pos out lo e w h1 h2
    cases tok with
    | nil => simp [parseCharsLoop, h1]
    | cons c0 rest =>
      rw [parseCharsLoop]
      simp only []
      by_cases ha : c0 % 256 < 128
      · rw [if_pos ha]
        by_cases hb : c0 % 256 = 92
        · rw [if_pos hb]
          cases escape rest term with
          | invalid => simp [h1, h2]
          | val v skip e' w' =>
            simp only []
            by_cases hc : MAXSTRING - 1 ≤ out.length
            · rw [if_pos hc]; simp; omega
            · rw [if_neg hc]; exact ih _ _ _ _ _ _ (by simp; omega) (by simp; omega)
        · rw [if_neg hb]
          by_cases hc : MAXSTRING - 1 ≤ out.length
          · rw [if_pos hc]; simp; omega
          · rw [if_neg hc]; exact ih _ _ _ _ _ _ (by simp; omega) (by simp; omega)
      · rw [if_neg ha]
        have hcl := contLoop_bound rest (pos + 1) (numBytes (c0 % 256)) rest (pos + 1)
          (c0 % 256 % 2 ^ (7 - numBytes (c0 % 256))) out w h1
        generalize contLoop rest (pos + 1) (numBytes (c0 % 256)) rest (pos + 1)
          (c0 % 256 % 2 ^ (7 - numBytes (c0 % 256))) out w = r at hcl
        cases r with
        | tooLong out' w' => simp at hcl ⊢; omega
        | done cur curPos u out' w' =>
          simp only at hcl ⊢
          by_cases hc : MAXSTRING - 1 ≤ out'.length
          · rw [if_pos hc]; simp; omega
          · rw [if_neg hc]
            by_cases hd : 0xffff < u
            · rw [if_pos hd]; simp; omega
            · rw [if_neg hd]; exact ih _ _ _ _ _ _ (by simp; omega) (by simp; omega)

/-- parseChars never writes more than MAXSTRING-1 characters into its result, whatever the token
    (any length, any characters), and `result->length` never exceeds what was written -/
theorem parseChars_bound (tok : List Nat) (term : Nat) :
    (parseChars tok term).chars.length ≤ MAXSTRING - 1 ∧ (parseChars tok term).length ≤ (parseChars tok term).chars.length :=
  parseCharsLoop_bound term _ tok 0 [] 0 0 0 (by simp) (by simp)

/-- fuel never runs out: with fuel > |token| the loop ends by reaching the end of the token or by an error -/
theorem contLoop_suffix (rest : List Nat) (restPos : Nat) : ∀ (k : Nat) (cur : List Nat) (curPos u : Nat) (out : List Nat) (w : Nat),
    cur.length ≤ rest.length →
    match contLoop rest restPos k cur curPos u out w with
    | .tooLong _ _ => True
    | .done cur' _ _ _ _ => cur'.length ≤ rest.length := by
  intro k
  induction k with
  | zero => intro cur curPos u out w h; simpa [contLoop] using h
  | succ k ih =>
    intro cur curPos u out w h
    cases cur with
    | nil => simp [contLoop]
    | cons c cur' =>
      rw [contLoop]
      by_cases h1 : MAXSTRING - 1 ≤ curPos
      · rw [if_pos h1]; exact h
      · rw [if_neg h1]
        by_cases h2 : MAXSTRING - 1 ≤ out.length
        · rw [if_pos h2]; trivial
        · rw [if_neg h2]
          by_cases h3 : c < 128 ∨ (c / 64) % 2 = 1
          · rw [if_pos h3]; exact ih _ _ _ _ _ (by simp)
          · rw [if_neg h3]; exact ih _ _ _ _ _ (by simp at h ⊢; omega)

theorem parseCharsLoop_fuel (term : Nat) : ∀ (f : Nat) (tok : List Nat) (pos : Nat) (out : List Nat) (lo e w : Nat),
    tok.length < f →
    parseCharsLoop term (f + 1) tok pos out lo e w = parseCharsLoop term f tok pos out lo e w := by
  intro f
  induction f with
  | zero => intro tok pos out lo e w h; omega
  | succ f ih =>
    intro tok pos out lo e w h
    cases tok with
    | nil => simp [parseCharsLoop]
    | cons c0 rest =>
      simp only [List.length_cons] at h
      rw [parseCharsLoop]
      conv => rhs; rw [parseCharsLoop]
      simp only []
      by_cases ha : c0 % 256 < 128
      · rw [if_pos ha, if_pos ha]
        by_cases hb : c0 % 256 = 92
        · rw [if_pos hb, if_pos hb]
          cases escape rest term with
          | invalid => rfl
          | val v skip e' w' =>
            simp only []
            by_cases hc : MAXSTRING - 1 ≤ out.length
            · rw [if_pos hc, if_pos hc]
            · rw [if_neg hc, if_neg hc]; exact ih _ _ _ _ _ _ (by simp; omega)
        · rw [if_neg hb, if_neg hb]
          by_cases hc : MAXSTRING - 1 ≤ out.length
          · rw [if_pos hc, if_pos hc]
          · rw [if_neg hc, if_neg hc]; exact ih _ _ _ _ _ _ (by omega)
      · rw [if_neg ha, if_neg ha]
        have hcl := contLoop_suffix rest (pos + 1) (numBytes (c0 % 256)) rest (pos + 1)
          (c0 % 256 % 2 ^ (7 - numBytes (c0 % 256))) out w (Nat.le_refl _)
        generalize contLoop rest (pos + 1) (numBytes (c0 % 256)) rest (pos + 1)
          (c0 % 256 % 2 ^ (7 - numBytes (c0 % 256))) out w = r at hcl
        cases r with
        | tooLong out' w' => rfl
        | done cur curPos u out' w' =>
          simp only at hcl ⊢
          by_cases hc : MAXSTRING - 1 ≤ out'.length
          · rw [if_pos hc, if_pos hc]
          · rw [if_neg hc, if_neg hc]
            by_cases hd : 0xffff < u
            · rw [if_pos hd, if_pos hd]
            · rw [if_neg hd, if_neg hd]; exact ih _ _ _ _ _ _ (by omega)

/-- the fuel of `parseChars` is never exhausted: more fuel gives the same result -/
theorem parseChars_fuel (tok : List Nat) (term k : Nat) :
    parseCharsLoop term (tok.length + 1 + k) tok 0 [] 0 0 0 = parseChars tok term := by
  induction k with
  | zero => rfl
  | succ k ih => rw [← ih, ← Nat.add_assoc]; exact parseCharsLoop_fuel term _ tok 0 [] 0 0 0 (by omega)

/-! ## parseDots -/

theorem dotBit_ne_zero {c d : Nat} (h : dotBit? c = some d) : d ≠ 0 := by
  unfold dotBit? at h
  split at h
  · injection h with h; subst h; exact Nat.ne_of_gt (Nat.two_pow_pos _)
  · split at h
    · injection h with h; subst h; exact Nat.ne_of_gt (Nat.two_pow_pos _)
    · split at h
      · injection h with h; subst h; exact Nat.ne_of_gt (Nat.two_pow_pos _)
      · cases h

theorem dotBit_45 : dotBit? 45 = none := by decide
theorem dotBit_48 : dotBit? 48 = none := by decide

theorem or_ne_zero_left {a b : Nat} (h : a ≠ 0) : a ||| b ≠ 0 := by
  intro h0; exact h (Nat.or_eq_zero_iff.mp h0).1

theorem and_or_zero {c d1 d2 : Nat} : (c ||| d1) &&& d2 = 0 ↔ c &&& d2 = 0 ∧ d1 &&& d2 = 0 := by
  rw [Nat.and_or_distrib_right, Nat.or_eq_zero_iff]

theorem dotsStep_swap (s : DState) (x y : Nat) (hx : x ≠ 45) (hy : y ≠ 45) :
    (dotsStep s x >>= fun s' => dotsStep s' y).toOption = (dotsStep s y >>= fun s' => dotsStep s' x).toOption := by
  obtain ⟨cells, cur⟩ := s
  cases hdx : dotBit? x with
  | some d1 =>
    have n1 := dotBit_ne_zero hdx
    cases hdy : dotBit? y with
    | some d2 =>
      have n2 := dotBit_ne_zero hdy
      cases cur with
      | none =>
        simp only [dotsStep, hdx, hdy, bind, Except.bind, n1, n2, if_false]
        rw [Nat.and_comm d2 d1, Nat.or_comm d2 d1]
      | some cell =>
        by_cases hc : cell = 0
        · simp [dotsStep, hdx, hdy, bind, Except.bind, hc, Except.toOption]
        · simp only [dotsStep, hdx, hdy, bind, Except.bind, hc, if_false]
          by_cases a1 : cell &&& d1 = 0 <;> by_cases a2 : cell &&& d2 = 0 <;> by_cases a3 : d1 &&& d2 = 0
          all_goals
            have a3' : d2 &&& d1 = 0 ↔ d1 &&& d2 = 0 := by rw [Nat.and_comm]
            simp [a1, a2, a3, a3', and_or_zero, or_ne_zero_left hc, Except.toOption, Nat.or_assoc, Nat.or_comm d1 d2]
    | none =>
      by_cases hy0 : y = 48
      · subst hy0
        cases cur with
        | none => simp [dotsStep, hdx, hdy, bind, Except.bind, Except.toOption]
        | some cell =>
          by_cases hc : cell = 0 <;> by_cases a1 : cell &&& d1 = 0 <;>
            simp [dotsStep, hdx, hdy, bind, Except.bind, Except.toOption, hc, a1]
      · cases cur with
        | none => simp [dotsStep, hdx, hdy, bind, Except.bind, Except.toOption, hy0, hy]
        | some cell =>
          by_cases hc : cell = 0 <;> by_cases a1 : cell &&& d1 = 0 <;>
            simp [dotsStep, hdx, hdy, bind, Except.bind, Except.toOption, hc, a1, hy0, hy]
  | none =>
    by_cases hx0 : x = 48
    · subst hx0
      cases hdy : dotBit? y with
      | some d2 =>
        cases cur with
        | none => simp [dotsStep, hdx, hdy, bind, Except.bind, Except.toOption]
        | some cell =>
          by_cases hc : cell = 0 <;> by_cases a1 : cell &&& d2 = 0 <;>
            simp [dotsStep, hdx, hdy, bind, Except.bind, Except.toOption, hc, a1]
      | none =>
        by_cases hy0 : y = 48
        · subst hy0; rfl
        · cases cur <;> simp [dotsStep, hdx, hdy, bind, Except.bind, Except.toOption, hy0, hy]
    · cases hdy : dotBit? y with
      | some d2 =>
        cases cur with
        | none => simp [dotsStep, hdx, hdy, bind, Except.bind, Except.toOption, hx0, hx]
        | some cell =>
          by_cases hc : cell = 0 <;> by_cases a1 : cell &&& d2 = 0 <;>
            simp [dotsStep, hdx, hdy, bind, Except.bind, Except.toOption, hc, a1, hx0, hx]
      | none =>
        by_cases hy0 : y = 48
        · subst hy0
          cases cur <;> simp [dotsStep, hdx, hdy, bind, Except.bind, Except.toOption, hx0, hx]
        · cases cur <;> simp [dotsStep, hdx, hdy, bind, Except.bind, Except.toOption, hy0, hy, hx0, hx]

theorem toOption_bind_congr {α β : Type} {a b : Except DotsErr α} (f : α → Except DotsErr β)
    (h : a.toOption = b.toOption) : (a >>= f).toOption = (b >>= f).toOption := by
  cases a <;> cases b <;> simp [Except.toOption, bind, Except.bind] at h ⊢
  subst h; rfl

theorem toOption_bind_congr_gen {α β : Type} {a b : Except DotsErr α} {f g : α → Except DotsErr β}
    (h : a.toOption = b.toOption) (hfg : ∀ x, (f x).toOption = (g x).toOption) :
    (a >>= f).toOption = (b >>= g).toOption := by
  cases a <;> cases b <;> simp [Except.toOption, bind, Except.bind] at h ⊢
  subst h; exact hfg _

theorem foldlM_cons_dots (s : DState) (x : Nat) (l : List Nat) :
    (x :: l).foldlM dotsStep s = dotsStep s x >>= fun s' => l.foldlM dotsStep s' := by
  simp [List.foldlM]

/-- permuting dot characters (no '-') does not change the state reached by the parseDots loop
    (success/failure and the state; the KIND of error may differ) -/
theorem foldlM_dots_perm {l1 l2 : List Nat} (hp : l1.Perm l2) : (45 ∉ l1) →
    ∀ s, (l1.foldlM dotsStep s).toOption = (l2.foldlM dotsStep s).toOption := by
  induction hp with
  | nil => intro _ s; rfl
  | cons x _ ih =>
    intro h s
    rw [foldlM_cons_dots, foldlM_cons_dots]
    cases hx : dotsStep s x with
    | error e => rfl
    | ok s' => exact ih (fun hm => h (by simp [hm])) s'
  | swap x y l =>
    intro h s
    simp only [foldlM_cons_dots]
    have hx : x ≠ 45 := fun e => h (by simp [e])
    have hy : y ≠ 45 := fun e => h (by simp [e])
    have := toOption_bind_congr (fun s' => l.foldlM dotsStep s') (dotsStep_swap s y x hy hx)
    simpa [bind_assoc] using this
  | trans h1 _ ih1 ih2 =>
    intro h s
    rw [ih1 h s]
    exact ih2 (fun hm => h ((h1.mem_iff).mpr hm)) s

/-- cell-wise permutation of a dots operand -/
inductive CellsPerm : List (List Nat) → List (List Nat) → Prop
  | nil : CellsPerm [] []
  | cons {a b : List Nat} {as bs : List (List Nat)} : a.Perm b → 45 ∉ a → CellsPerm as bs → CellsPerm (a :: as) (b :: bs)

/-- cells joined by '-' -/
def joinDash : List (List Nat) → List Nat
  | [] => []
  | [a] => a
  | a :: b :: r => a ++ 45 :: joinDash (b :: r)

theorem foldlM_cells_perm {c1 c2 : List (List Nat)} (h : CellsPerm c1 c2) :
    ∀ s, ((joinDash c1).foldlM dotsStep s).toOption = ((joinDash c2).foldlM dotsStep s).toOption := by
  induction h with
  | nil => intro s; rfl
  | @cons a b as bs hp h45 htail ih =>
    intro s
    cases htail with
    | nil => simpa [joinDash] using foldlM_dots_perm hp h45 s
    | @cons a' b' as' bs' hp' h45' ht' =>
      simp only [joinDash, List.foldlM_append]
      have h1 := foldlM_dots_perm hp h45 s
      refine toOption_bind_congr_gen h1 ?_
      intro s'
      rw [foldlM_cons_dots, foldlM_cons_dots]
      cases dotsStep s' 45 with
      | error e => rfl
      | ok s'' => exact ih s''

/-- OR of the dot bits of the characters of a cell -/
def orBits (l : List Nat) : Nat := (l.filterMap dotBit?).foldl (· ||| ·) 0

theorem foldl_or_shift : ∀ (l : List Nat) (a : Nat), l.foldl (· ||| ·) a = a ||| l.foldl (· ||| ·) 0 := by
  intro l
  induction l with
  | nil => intro a; simp
  | cons x l ih => intro a; simp only [List.foldl_cons]; rw [ih (a ||| x), ih (0 ||| x)]; simp [Nat.or_assoc]

theorem orBits_cons_some {c d : Nat} (l : List Nat) (h : dotBit? c = some d) : orBits (c :: l) = d ||| orBits l := by
  unfold orBits
  rw [List.filterMap_cons_some h, List.foldl_cons, foldl_or_shift]
  simp

theorem orBits_cons_none {c : Nat} (l : List Nat) (h : dotBit? c = none) : orBits (c :: l) = orBits l := by
  unfold orBits
  rw [List.filterMap_cons_none h]

theorem foldlM_dots_cell : ∀ (l : List Nat) (cells : List Nat) (cur : Option Nat) (s' : DState), 45 ∉ l →
    l.foldlM dotsStep ⟨cells, cur⟩ = .ok s' → s'.cells = cells ∧ s'.cur.getD 0 = cur.getD 0 ||| orBits l ∧
      (l ≠ [] → s'.cur.isSome) := by
  intro l
  induction l with
  | nil =>
    intro cells cur s' _ h
    simp [List.foldlM, pure, Except.pure] at h
    subst h
    simp [orBits]
  | cons c l ih =>
    intro cells cur s' h45 h
    have hc : c ≠ 45 := fun e => h45 (by simp [e])
    have hl : 45 ∉ l := fun hm => h45 (by simp [hm])
    rw [foldlM_cons_dots] at h
    cases hd : dotBit? c with
    | some d =>
      rw [orBits_cons_some l hd]
      cases cur with
      | none =>
        simp only [dotsStep, hd, bind, Except.bind] at h
        have := ih cells (some d) s' hl h
        refine ⟨this.1, ?_, fun _ => ?_⟩
        · simpa using this.2.1
        · cases l with
          | nil => simp [List.foldlM, pure, Except.pure] at h; subst h; simp
          | cons _ _ => exact this.2.2 (by simp)
      | some cell =>
        simp only [dotsStep, hd, bind, Except.bind] at h
        by_cases hz : cell = 0
        · simp [hz] at h
        · by_cases ha : cell &&& d = 0
          · simp [hz, ha] at h
            have := ih cells (some (cell ||| d)) s' hl h
            refine ⟨this.1, ?_, fun _ => ?_⟩
            · simpa [Nat.or_assoc] using this.2.1
            · cases l with
              | nil => simp [List.foldlM, pure, Except.pure] at h; subst h; simp
              | cons _ _ => exact this.2.2 (by simp)
          · simp [hz, ha] at h
    | none =>
      rw [orBits_cons_none l hd]
      by_cases h0 : c = 48
      · subst h0
        cases cur with
        | none =>
          simp only [dotsStep, hd, bind, Except.bind, if_true] at h
          have := ih cells (some 0) s' hl h
          refine ⟨this.1, by simpa using this.2.1, fun _ => ?_⟩
          cases l with
          | nil => simp [List.foldlM, pure, Except.pure] at h; subst h; simp
          | cons _ _ => exact this.2.2 (by simp)
        | some cell => simp [dotsStep, hd, bind, Except.bind] at h
      · simp [dotsStep, hd, h0, hc, bind, Except.bind] at h

/-- a dots operand without '-' that parseDots accepts is ONE cell: LOU_DOTS ∨ the OR of the bits of its characters -/
theorem dots_cell_or (tok out : List Nat) (h45 : 45 ∉ tok) (h : parseDots tok = .ok out) :
    out = [orBits tok ||| DOTSBIT] := by
  unfold parseDots at h
  cases hf : tok.foldlM dotsStep ⟨[], none⟩ with
  | error e => rw [hf] at h; simp [bind, Except.bind] at h
  | ok s' =>
    rw [hf] at h
    have := foldlM_dots_cell tok [] none s' h45 hf
    simp only [bind, Except.bind, dotsFinish] at h
    cases hc : s'.cur with
    | none => rw [hc] at h; cases h
    | some cell =>
      rw [hc] at h
      injection h with h
      rw [← h, this.1]
      have h2 := this.2.1
      rw [hc] at h2
      simp at h2
      simp [h2]

end Lou.Lexer
