/-
  Helper lemmas about the scan / clamp loops of `LouModel/PosMap.lean`.
-/
import LouModel.PosMap

namespace Lou.PosMap

theorem clamp0_mono {a b : Int} (h : a ≤ b) : clamp0 a ≤ clamp0 b := by
  unfold clamp0; split <;> split <;> omega
theorem clamp0_nonneg (a : Int) : 0 ≤ clamp0 a := by unfold clamp0; split <;> omega
theorem clamp0_of_nonneg {a : Int} (h : 0 ≤ a) : clamp0 a = a := by unfold clamp0; split <;> omega
theorem clamp0_le {a k : Int} (h : a ≤ k) (hk : 0 ≤ k) : clamp0 a ≤ k := by unfold clamp0; split <;> omega

theorem clamp_range (n p : Int) (h : 0 < n) : 0 ≤ clamp n p ∧ clamp n p < n := by
  unfold clamp; split
  · omega
  · split <;> omega

theorem clamp_le_of_nonneg (n p : Int) (_h : 0 < n) (hp : 0 ≤ p) : clamp n p ≤ p := by
  unfold clamp; split
  · omega
  · split <;> omega

/-- loop invariant of the scan loop -/
structure Inv (n : Int) (st : S) (k : Int) : Prop where
  ip : -1 ≤ st.inpos
  o1 : -1 ≤ st.outpos
  o2 : st.outpos < k
  link : 0 ≤ st.inpos → 0 ≤ st.outpos
  rng : ∀ i, 0 ≤ i → i < st.inpos → i < n → 0 ≤ st.arr i ∧ st.arr i ≤ clamp0 st.outpos
  mono : ∀ i j, 0 ≤ i → i ≤ j → j < st.inpos → j < n → st.arr i ≤ st.arr j

theorem inv_init (n : Int) (a0 : Int → Int) : Inv n (init a0) 0 := by
  constructor <;> simp [init] <;> intros <;> omega

theorem inv_step (n : Int) (st : S) (k p : Int) (hk : 0 ≤ k) (h : Inv n st k) :
    Inv n (stepK n st k p) (k + 1) := by
  unfold stepK
  split
  next hp =>
    have hc : clamp0 st.outpos ≤ k := by unfold clamp0; split <;> have := h.o2 <;> omega
    have hc0 : 0 ≤ clamp0 st.outpos := by unfold clamp0; split <;> omega
    refine ⟨?_, ?_, ?_, ?_, ?_, ?_⟩ <;> dsimp only
    · have := h.ip; omega
    · omega
    · omega
    · intro _; omega
    · intro i hi0 hip hil
      split
      · exact ⟨hc0, clamp0_mono (by have := h.o2; omega)⟩
      next hn =>
        have hlt : i < st.inpos := by omega
        have := h.rng i hi0 hlt hil
        refine ⟨this.1, ?_⟩
        have h2 := this.2
        have : clamp0 st.outpos ≤ clamp0 k := clamp0_mono (by have := h.o2; omega)
        omega
    · intro i j hi0 hij hjp hjl
      by_cases hi : st.inpos ≤ i
      · have c1 : st.inpos ≤ i ∧ i < p ∧ 0 ≤ i ∧ i < n := ⟨hi, by omega, hi0, by omega⟩
        have c2 : st.inpos ≤ j ∧ j < p ∧ 0 ≤ j ∧ j < n := ⟨by omega, hjp, by omega, hjl⟩
        rw [if_pos c1, if_pos c2]; exact Int.le_refl _
      · have hi' : i < st.inpos := by omega
        have c1 : ¬ (st.inpos ≤ i ∧ i < p ∧ 0 ≤ i ∧ i < n) := by omega
        rw [if_neg c1]
        by_cases hj : st.inpos ≤ j
        · have c2 : st.inpos ≤ j ∧ j < p ∧ 0 ≤ j ∧ j < n := ⟨hj, hjp, by omega, hjl⟩
          rw [if_pos c2]
          exact (h.rng i hi0 hi' (by omega)).2
        · have c2 : ¬ (st.inpos ≤ j ∧ j < p ∧ 0 ≤ j ∧ j < n) := by omega
          rw [if_neg c2]
          exact h.mono i j hi0 hij (by omega) hjl
  next hp =>
    exact { ip := h.ip, o1 := h.o1, o2 := by have := h.o2; omega, link := h.link, rng := h.rng, mono := h.mono }

theorem inv_scan (n : Int) (pm : List Int) : ∀ (st : S) (k : Int), 0 ≤ k → Inv n st k →
    Inv n (scanFrom n st k pm) (k + pm.length) := by
  induction pm with
  | nil => intro st k _ h; simpa [scanFrom] using h
  | cons p ps ih =>
    intro st k hk h
    have := ih (stepK n st k p) (k + 1) (by omega) (inv_step n st k p hk h)
    have e : k + ((p :: ps).length : Int) = k + 1 + (ps.length : Int) := by simp; omega
    rw [e]; exact this

theorem stepK_inpos_le (n : Int) (st : S) (k p : Int) : st.inpos ≤ (stepK n st k p).inpos := by
  unfold stepK; split
  · dsimp only; omega
  · omega

theorem stepK_inpos_ge (n : Int) (st : S) (k p : Int) : p ≤ (stepK n st k p).inpos := by
  unfold stepK; split
  · dsimp only; omega
  · omega

theorem stepK_arr_below (n : Int) (st : S) (k p i : Int) (hi : i < st.inpos) :
    (stepK n st k p).arr i = st.arr i := by
  unfold stepK; split
  · have c : ¬ (st.inpos ≤ i ∧ i < p ∧ 0 ≤ i ∧ i < n) := by omega
    simp only [if_neg c]
  · rfl

/-- Lemma A: entries below `inpos` are final -/
theorem final_below (n : Int) (pm : List Int) : ∀ (st : S) (k : Int) (i : Int),
    0 ≤ i → i < st.inpos → finish n (scanFrom n st k pm) i = st.arr i := by
  induction pm with
  | nil =>
    intro st k i h0 hi
    have e : scanFrom n st k [] = st := rfl
    rw [e]; unfold finish
    have c : ¬ ((if st.inpos < 0 then 0 else st.inpos) ≤ i ∧ i < n) := by
      split <;> omega
    rw [if_neg c]
  | cons p ps ih =>
    intro st k i h0 hi
    simp only [scanFrom]
    have h1 : i < (stepK n st k p).inpos := by have := stepK_inpos_le n st k p; omega
    rw [ih (stepK n st k p) (k + 1) i h0 h1, stepK_arr_below n st k p i hi]

/-- Lemma B: the entry at `inpos` ends up holding `outpos` -/
theorem final_at (n : Int) (pm : List Int) : ∀ (st : S) (k : Int),
    0 ≤ st.inpos → st.inpos < n → 0 ≤ st.outpos →
    finish n (scanFrom n st k pm) st.inpos = st.outpos := by
  induction pm with
  | nil =>
    intro st k h0 hn _
    have e : scanFrom n st k [] = st := rfl
    rw [e]; unfold finish
    have c : (if st.inpos < 0 then 0 else st.inpos) ≤ st.inpos ∧ st.inpos < n := by
      split <;> omega
    rw [if_pos c]
  | cons p ps ih =>
    intro st k h0 hn ho
    simp only [scanFrom]
    by_cases hp : p > st.inpos
    · have e : stepK n st k p =
          { inpos := p, outpos := k,
            arr := fun i => if st.inpos ≤ i ∧ i < p ∧ 0 ≤ i ∧ i < n then clamp0 st.outpos else st.arr i } := by
        unfold stepK; rw [if_pos hp]
      rw [e, final_below n ps _ (k + 1) st.inpos h0 (by simpa using hp)]
      have c : st.inpos ≤ st.inpos ∧ st.inpos < p ∧ 0 ≤ st.inpos ∧ st.inpos < n := ⟨by omega, hp, h0, hn⟩
      simp only [if_pos c]
      exact clamp0_of_nonneg ho
    · have e : stepK n st k p = st := by unfold stepK; rw [if_neg hp]
      rw [e]; exact ih st (k + 1) h0 hn ho

/-- every index `i ≤ pm[j]` ends up mapped to at most `k + j` -/
theorem final_le (n : Int) (pm : List Int) : ∀ (st : S) (k : Int), 0 ≤ k → Inv n st k →
    ∀ (j : Nat) (hj : j < pm.length) (i : Int), 0 ≤ i → i ≤ pm[j] → i < n →
    finish n (scanFrom n st k pm) i ≤ k + j := by
  induction pm with
  | nil => intro st k _ _ j hj; simp at hj
  | cons p ps ih =>
    intro st k hk h j hj i h0 hip hin
    have h' := inv_step n st k p hk h
    simp only [scanFrom]
    cases j with
    | zero =>
      simp only [List.getElem_cons_zero] at hip
      have hge := stepK_inpos_ge n st k p
      by_cases hlt : i < (stepK n st k p).inpos
      · rw [final_below n ps _ (k + 1) i h0 hlt]
        have := (h'.rng i h0 hlt hin).2
        have hc : clamp0 (stepK n st k p).outpos ≤ k := clamp0_le (by have := h'.o2; omega) hk
        simp; omega
      · have heq : i = (stepK n st k p).inpos := by omega
        have ho : 0 ≤ (stepK n st k p).outpos := h'.link (by omega)
        rw [heq, final_at n ps _ (k + 1) (by omega) (by omega) ho]
        have := h'.o2; simp; omega
    | succ j =>
      have := ih (stepK n st k p) (k + 1) (by omega) h' j (by simpa using hj) i h0 (by simpa using hip) hin
      omega

end Lou.PosMap
