/-
  Lemmas/Hyph.lean — helper lemmas for C17: longest suffixes over a prefix-closed set
  (the textbook Aho–Corasick facts), `maxAt`/`applyPat` position-wise.
-/
import LouModel.Hyph

namespace Lou.Hyph
open List

/-! ### longest suffix satisfying a predicate -/

theorem ls_some {P : List Nat → Bool} {u s : List Nat} (h : longestSuffix P u = some s) :
    s <:+ u ∧ P s = true ∧ ∀ t, t <:+ u → P t = true → t.length ≤ s.length := by
  induction u with
  | nil =>
    simp only [longestSuffix] at h
    split at h
    · cases h
      refine ⟨suffix_refl _, by assumption, ?_⟩
      intro t ht _
      rw [eq_nil_of_suffix_nil ht]; exact Nat.le_refl _
    · cases h
  | cons a u ih =>
    simp only [longestSuffix] at h
    split at h
    · cases h
      refine ⟨suffix_refl _, by assumption, ?_⟩
      intro t ht _
      exact ht.length_le
    · rename_i hn
      obtain ⟨h1, h2, h3⟩ := ih h
      refine ⟨suffix_cons_iff.mpr (Or.inr h1), h2, ?_⟩
      intro t ht hp
      rcases suffix_cons_iff.mp ht with rfl | ht'
      · exact absurd hp hn
      · exact h3 t ht' hp

theorem ls_none {P : List Nat → Bool} {u : List Nat} (h : longestSuffix P u = none) :
    ∀ t, t <:+ u → P t = false := by
  induction u with
  | nil =>
    intro t ht
    rw [eq_nil_of_suffix_nil ht]
    simp only [longestSuffix] at h
    split at h
    · cases h
    · rename_i hn; simpa using hn
  | cons a u ih =>
    intro t ht
    simp only [longestSuffix] at h
    split at h
    · cases h
    · rename_i hn
      rcases suffix_cons_iff.mp ht with rfl | ht'
      · simpa using hn
      · exact ih h t ht'

theorem ls_exists {P : List Nat → Bool} (hnil : P [] = true) (u : List Nat) :
    ∃ s, longestSuffix P u = some s := by
  cases h : longestSuffix P u with
  | some s => exact ⟨s, rfl⟩
  | none =>
    have := ls_none h [] (nil_suffix)
    rw [hnil] at this; cases this

/-- a suffix that satisfies `P` and is at least as long as every other one is the result -/
theorem ls_unique {P : List Nat → Bool} {u s : List Nat} (h1 : s <:+ u) (h2 : P s = true)
    (h3 : ∀ t, t <:+ u → P t = true → t.length ≤ s.length) : longestSuffix P u = some s := by
  cases h : longestSuffix P u with
  | none => have := ls_none h s h1; rw [h2] at this; cases this
  | some s' =>
    obtain ⟨a1, a2, a3⟩ := ls_some h
    have l1 := h3 s' a1 a2
    have l2 := a3 s h1 h2
    have : s' <:+ s := suffix_of_suffix_length_le a1 h1 l1
    rw [this.eq_of_length (Nat.le_antisymm l1 l2)]

/-- longest suffix in `P`, `[]` when there is none -/
def lssD (P : List Nat → Bool) (u : List Nat) : List Nat := (longestSuffix P u).getD []

theorem lssD_cons (P : List Nat → Bool) (a : Nat) (t : List Nat) :
    lssD P (a :: t) = if P (a :: t) then a :: t else lssD P t := by
  unfold lssD
  simp only [longestSuffix]
  split <;> simp

theorem lssD_nil (P : List Nat → Bool) : lssD P [] = [] := by
  unfold lssD
  simp only [longestSuffix]
  split <;> simp

theorem lssD_suffix (P : List Nat → Bool) (u : List Nat) : lssD P u <:+ u := by
  unfold lssD
  cases h : longestSuffix P u with
  | none => exact nil_suffix
  | some s => exact (ls_some h).1

theorem lssD_P {P : List Nat → Bool} (hnil : P [] = true) (u : List Nat) : P (lssD P u) = true := by
  unfold lssD
  obtain ⟨s, hs⟩ := ls_exists hnil u
  rw [hs]; exact (ls_some hs).2.1

theorem lssD_max {P : List Nat → Bool} (hnil : P [] = true) (u t : List Nat)
    (ht : t <:+ u) (hp : P t = true) : t <:+ lssD P u := by
  unfold lssD
  obtain ⟨s, hs⟩ := ls_exists hnil u
  rw [hs]
  obtain ⟨a1, _, a3⟩ := ls_some hs
  exact suffix_of_suffix_length_le ht a1 (a3 t ht hp)

/-- searching among the suffixes of `t` for a `Q` that implies `P` may start from the longest
    suffix of `t` in `P` -/
theorem ls_restrict {P Q : List Nat → Bool} (hQP : ∀ v, Q v = true → P v = true) (t : List Nat) :
    longestSuffix Q t = longestSuffix Q (lssD P t) := by
  induction t with
  | nil => rw [lssD_nil]
  | cons a t ih =>
    rw [lssD_cons]
    split
    · rfl
    · rename_i hn
      have : Q (a :: t) = false := by
        cases hq : Q (a :: t) with
        | false => rfl
        | true => exact absurd (hQP _ hq) hn
      conv => lhs; simp only [longestSuffix, this]
      simpa using ih

/-- the longest suffix `v` of `k` such that `v ++ [c]` is in `P` -/
def target (P : List Nat → Bool) (k : List Nat) (c : Nat) : Option (List Nat) :=
  longestSuffix (fun v => P (v ++ [c])) k

theorem target_cons (P : List Nat → Bool) (hpre : ∀ s t, P (s ++ t) = true → P s = true)
    (a : Nat) (t : List Nat) (c : Nat) :
    target P (a :: t) c = if P (a :: t ++ [c]) then some (a :: t) else target P (lssD P t) c := by
  unfold target
  conv => lhs; simp only [longestSuffix]
  split
  · rfl
  · exact ls_restrict (P := P) (fun v hv => hpre v [c] hv) t

theorem target_nil (P : List Nat → Bool) (c : Nat) :
    target P [] c = if P [c] then some [] else none := by
  unfold target
  simp [longestSuffix]

/-- the Aho–Corasick step: the longest suffix of `u ++ [c]` in a prefix-closed `P` is found
    among the extensions of suffixes of the longest suffix of `u` -/
theorem lssD_concat (P : List Nat → Bool) (hnil : P [] = true)
    (hpre : ∀ s t, P (s ++ t) = true → P s = true) (u : List Nat) (c : Nat) :
    lssD P (u ++ [c]) = match target P (lssD P u) c with
      | some v => v ++ [c]
      | none => [] := by
  cases h : target P (lssD P u) c with
  | some v =>
    obtain ⟨a1, a2, a3⟩ := ls_some h
    have : longestSuffix P (u ++ [c]) = some (v ++ [c]) := by
      apply ls_unique
      · obtain ⟨w, hw⟩ := a1.trans (lssD_suffix P u)
        exact ⟨w, by rw [← hw, append_assoc]⟩
      · exact a2
      · intro t ht hp
        rcases suffix_concat_iff.mp ht with rfl | ⟨t', rfl, ht'⟩
        · simp
        · have := lssD_max hnil u t' ht' (hpre _ _ hp)
          have := a3 t' this hp
          simp; omega
    simp [lssD, this]
  | none =>
    have : longestSuffix P (u ++ [c]) = some [] := by
      apply ls_unique nil_suffix hnil
      intro t ht hp
      rcases suffix_concat_iff.mp ht with rfl | ⟨t', rfl, ht'⟩
      · simp
      · have h1 := lssD_max hnil u t' ht' (hpre _ _ hp)
        have : P (t' ++ [c]) = false := ls_none h t' h1
        rw [hp] at this; cases this
    simp [lssD, this]

/-! ### `maxAt` and `applyPat`, position by position -/

theorem maxAt_length (h : List Nat) (q d : Nat) : (maxAt h q d).length = h.length := by
  induction h generalizing q with
  | nil => rfl
  | cons x xs ih => cases q <;> simp [maxAt, ih]

theorem maxAt_getD (h : List Nat) (q d k : Nat) :
    (maxAt h q d).getD k 0 = if k = q ∧ k < h.length then max (h.getD k 0) d else h.getD k 0 := by
  induction h generalizing q k with
  | nil => simp [maxAt]
  | cons x xs ih =>
    cases q with
    | zero =>
      cases k with
      | zero => simp only [maxAt, getD_cons_zero]; split <;> simp <;> omega
      | succ k => simp [maxAt]
    | succ q =>
      cases k with
      | zero => simp [maxAt]
      | succ k =>
        simp only [maxAt, getD_cons_succ, ih, length_cons]
        simp only [Nat.add_lt_add_iff_right, Nat.add_right_cancel_iff]

/-- the body of the max loop of `applyPat` -/
def apStep (s : List Nat) (off : Int) (acc : List Nat × Bool) (k : Nat) : List Nat × Bool :=
  let idx : Int := off + (k : Int)
  if idx < 0 then (acc.1, true) else (maxAt acc.1 idx.toNat (s.getD k 0), acc.2)

theorem applyPat_eq (h : List Nat) (n i : Nat) (s : List Nat) :
    applyPat h n i s =
      (List.range' (if (i : Int) + 1 - (s.length : Int) < 0 then (-((i : Int) + 1 - (s.length : Int))).toNat else 0)
        ((min (s.length : Int) ((n : Int) - ((i : Int) + 1 - (s.length : Int)))).toNat -
          (if (i : Int) + 1 - (s.length : Int) < 0 then (-((i : Int) + 1 - (s.length : Int))).toNat else 0))).foldl
        (apStep s ((i : Int) + 1 - (s.length : Int))) (h, false) := rfl

/-- the max loop from `k0` on, when the first index `off + k0 = o` is not negative -/
theorem apFold (s : List Nat) (off : Int) (k0 o : Nat) (ho : off + (k0 : Int) = (o : Int)) (h : List Nat) (m : Nat) :
    ((List.range' k0 m).foldl (apStep s off) (h, false)).2 = false ∧
    ((List.range' k0 m).foldl (apStep s off) (h, false)).1.length = h.length ∧
    ∀ q, ((List.range' k0 m).foldl (apStep s off) (h, false)).1.getD q 0 =
      if o ≤ q ∧ q < o + m ∧ q < h.length then max (h.getD q 0) (s.getD (k0 + (q - o)) 0) else h.getD q 0 := by
  induction m with
  | zero =>
    refine ⟨rfl, rfl, ?_⟩
    intro q
    have : ¬ (o ≤ q ∧ q < o + 0 ∧ q < h.length) := by omega
    rw [if_neg this]; rfl
  | succ m ih =>
    obtain ⟨i1, i2, i3⟩ := ih
    rw [List.range'_concat, List.foldl_append]
    generalize (List.range' k0 m).foldl (apStep s off) (h, false) = r at i1 i2 i3
    have hidx : ¬ (off + ((k0 + 1 * m : Nat) : Int) < 0) := by omega
    have htn : (off + ((k0 + 1 * m : Nat) : Int)).toNat = o + m := by omega
    simp only [List.foldl_cons, List.foldl_nil, apStep, hidx, if_false, htn]
    refine ⟨i1, by rw [maxAt_length, i2], ?_⟩
    intro q
    rw [maxAt_getD, i3, i2]
    by_cases hq : q = o + m
    · subst hq
      by_cases hl : o + m < h.length
      · have e1 : ¬ (o ≤ o + m ∧ o + m < o + m ∧ o + m < h.length) := by omega
        have e2 : (o ≤ o + m ∧ o + m < o + (m + 1) ∧ o + m < h.length) := by omega
        have e3 : k0 + (o + m - o) = k0 + 1 * m := by omega
        rw [if_pos ⟨rfl, hl⟩, if_neg e1, if_pos e2, e3]
      · have e1 : ¬ (o ≤ o + m ∧ o + m < o + m ∧ o + m < h.length) := by omega
        have e2 : ¬ (o ≤ o + m ∧ o + m < o + (m + 1) ∧ o + m < h.length) := by omega
        have e0 : ¬ (o + m = o + m ∧ o + m < h.length) := fun hh => hl hh.2
        rw [if_neg e0, if_neg e1, if_neg e2]
    · have e0 : ¬ (q = o + m ∧ q < h.length) := by omega
      rw [if_neg e0]
      by_cases c : o ≤ q ∧ q < o + m ∧ q < h.length
      · have c' : o ≤ q ∧ q < o + (m + 1) ∧ q < h.length := by omega
        rw [if_pos c, if_pos c']
      · have c' : ¬ (o ≤ q ∧ q < o + (m + 1) ∧ q < h.length) := by omega
        rw [if_neg c, if_neg c']

/-- `applyPat` for ANY pattern string: no negative index is touched, the length is kept, and
    position `q` becomes the maximum with the digit aligned there; a digit that would lie in
    front of the array (pattern longer than the text read) is skipped -/
theorem applyPat_spec (h : List Nat) (n i : Nat) (s : List Nat) (hn : h.length = n) :
    (applyPat h n i s).2 = false ∧ (applyPat h n i s).1.length = n ∧
    ∀ q, (applyPat h n i s).1.getD q 0 =
      if i + 1 - s.length ≤ q ∧ q < i + 1 ∧ q < n then
        max (h.getD q 0) (s.getD (s.length - (i + 1) + (q - (i + 1 - s.length))) 0) else h.getD q 0 := by
  rw [applyPat_eq]
  have ek : (if (i : Int) + 1 - (s.length : Int) < 0 then (-((i : Int) + 1 - (s.length : Int))).toNat else 0)
      = s.length - (i + 1) := by
    split <;> omega
  rw [ek]
  obtain ⟨a1, a2, a3⟩ := apFold s ((i : Int) + 1 - (s.length : Int)) (s.length - (i + 1)) (i + 1 - s.length)
    (by omega) h
    ((min (s.length : Int) ((n : Int) - ((i : Int) + 1 - (s.length : Int)))).toNat - (s.length - (i + 1)))
  refine ⟨a1, by rw [a2, hn], ?_⟩
  intro q
  rw [a3, hn]
  by_cases c : i + 1 - s.length ≤ q ∧ q < i + 1 ∧ q < n
  · have c' : i + 1 - s.length ≤ q ∧
        q < i + 1 - s.length + ((min (s.length : Int) ((n : Int) - ((i : Int) + 1 - (s.length : Int)))).toNat - (s.length - (i + 1))) ∧ q < n := by
      omega
    rw [if_pos c, if_pos c']
  · have c' : ¬ (i + 1 - s.length ≤ q ∧
        q < i + 1 - s.length + ((min (s.length : Int) ((n : Int) - ((i : Int) + 1 - (s.length : Int)))).toNat - (s.length - (i + 1))) ∧ q < n) := by
      omega
    rw [if_neg c, if_neg c']

end Lou.Hyph

namespace Lou.Hyph
open List

/-! ### the pattern-prefix set is prefix-closed -/

theorem isPatPrefix_nil {pats : List Pat} (h : pats ≠ []) : isPatPrefix pats [] = true := by
  cases pats with
  | nil => exact absurd rfl h
  | cons p ps => simp [isPatPrefix]

theorem isPatPrefix_pre {pats : List Pat} (s t : List Nat) (h : isPatPrefix pats (s ++ t) = true) :
    isPatPrefix pats s = true := by
  simp only [isPatPrefix, any_eq_true, isPrefixOf_iff_prefix] at *
  obtain ⟨p, hp, hpre⟩ := h
  exact ⟨p, hp, (prefix_append s t).trans hpre⟩

theorem isPatPrefix_of_nil_pats (s : List Nat) : isPatPrefix [] s = false := rfl

/-- what `digitsOf` returns comes from a line of the dictionary -/
theorem digitsOf_some {pats : List Pat} {s ds : List Nat} (h : digitsOf pats s = some ds) :
    ∃ p, p ∈ pats ∧ p.letters = s ∧ ds = p.digits := by
  unfold digitsOf at h
  cases hf : pats.reverse.find? (fun p => p.letters == s) with
  | none => rw [hf] at h; cases h
  | some p =>
    rw [hf] at h
    simp only [Option.map_some, Option.some.injEq] at h
    have h1 := find?_some hf
    have h2 := mem_of_find?_eq_some hf
    exact ⟨p, by simpa using h2, by simpa using h1, h.symm⟩

theorem digits_length (p : Pat) : p.digits.length = p.letters.length + 1 := by
  simp [Pat.digits, Pat.letters]

/-- stripping leading zeros: the digit string is zeros followed by the stripped string -/
theorem stripZeros_spec (ds : List Nat) :
    ∃ z, ds.length = z + (stripZeros ds).length ∧
      ∀ m, ds.getD m 0 = if m < z then 0 else (stripZeros ds).getD (m - z) 0 := by
  induction ds with
  | nil => exact ⟨0, rfl, fun m => by simp [stripZeros]⟩
  | cons d ds ih =>
    by_cases hd : d = 0
    · subst hd
      obtain ⟨z, hz1, hz2⟩ := ih
      have e : stripZeros (0 :: ds) = stripZeros ds := by simp [stripZeros]
      refine ⟨z + 1, by rw [e, length_cons, hz1]; omega, ?_⟩
      intro m
      rw [e]
      cases m with
      | zero => simp
      | succ m =>
        rw [getD_cons_succ, hz2 m]
        by_cases c : m < z
        · have c' : m + 1 < z + 1 := by omega
          rw [if_pos c, if_pos c']
        · have c' : ¬ (m + 1 < z + 1) := by omega
          rw [if_neg c, if_neg c']
          congr 1; omega
    · have e : stripZeros (d :: ds) = d :: ds := by
        simp [stripZeros, hd]
      exact ⟨0, by rw [e]; simp, fun m => by rw [e]; simp⟩

theorem stripZeros_head_zero (d : Nat) (ds : List Nat) (h : d = 0) :
    (stripZeros (d :: ds)).length ≤ ds.length := by
  subst h
  have e : stripZeros (0 :: ds) = stripZeros ds := by simp [stripZeros]
  rw [e]
  exact (dropWhile_suffix _).length_le

end Lou.Hyph
