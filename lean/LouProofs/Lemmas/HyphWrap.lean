/-
  Lemmas/HyphWrap.lean — the lou_hyphenate wrapper: buffer writes stay inside
  [0, inlen], the result is inlen characters from {'0','1','2'} and a NUL.
-/
import LouModel.Hyph
import LouProofs.Lemmas.Hyph

namespace Lou.Hyph
open List

/-! ### buffer primitives -/

theorem getD_set (l : List Nat) (i k v : Nat) (h : i < l.length) :
    (l.set i v).getD k 0 = if k = i then v else l.getD k 0 := by
  simp only [List.getD_eq_getElem?_getD, List.getElem?_set]
  by_cases c : i = k
  · subst c; simp [h]
  · have : ¬ k = i := fun e => c e.symm
    simp [c, this]

theorem write_in (b : TBuf) (i v : Nat) (h : i < b.data.length) :
    (b.write i v).oob = b.oob ∧ (b.write i v).data.length = b.data.length ∧
    ∀ k, (b.write i v).data.getD k 0 = if k = i then v else b.data.getD k 0 := by
  unfold TBuf.write
  rw [if_pos h]
  exact ⟨rfl, by simp, fun k => getD_set _ _ _ _ h⟩

theorem writeRange_in : ∀ (vs : List Nat) (b : TBuf) (start : Nat), start + vs.length ≤ b.data.length →
    (b.writeRange start vs).oob = b.oob ∧ (b.writeRange start vs).data.length = b.data.length ∧
    ∀ k, (b.writeRange start vs).data.getD k 0 =
      if start ≤ k ∧ k < start + vs.length then vs.getD (k - start) 0 else b.data.getD k 0 := by
  intro vs
  induction vs with
  | nil =>
    intro b start _
    refine ⟨rfl, rfl, ?_⟩
    intro k
    have : ¬ (start ≤ k ∧ k < start + ([] : List Nat).length) := by simp
    rw [if_neg this]; rfl
  | cons x xs ih =>
    intro b start h
    simp only [length_cons] at h
    obtain ⟨w1, w2, w3⟩ := write_in b start x (by omega)
    obtain ⟨r1, r2, r3⟩ := ih (b.write start x) (start + 1) (by rw [w2]; omega)
    simp only [TBuf.writeRange]
    refine ⟨by rw [r1, w1], by rw [r2, w2], ?_⟩
    intro k
    rw [r3 k, w3 k]
    simp only [length_cons]
    by_cases c1 : start + 1 ≤ k ∧ k < start + 1 + xs.length
    · have c2 : start ≤ k ∧ k < start + (xs.length + 1) := by omega
      rw [if_pos c1, if_pos c2]
      have : k - start = (k - (start + 1)) + 1 := by omega
      rw [this, getD_cons_succ]
    · rw [if_neg c1]
      by_cases c3 : k = start
      · subst c3
        have c2 : k ≤ k ∧ k < k + (xs.length + 1) := by omega
        rw [if_pos rfl, if_pos c2]; simp
      · have c2 : ¬ (start ≤ k ∧ k < start + (xs.length + 1)) := by omega
        rw [if_neg c3, if_neg c2]

def norm1 (x : Nat) : Nat := if x % 2 = 1 then 49 else 48

theorem normalise_in : ∀ (cnt : Nat) (b : TBuf) (k0 : Nat), k0 + cnt ≤ b.data.length →
    (normalise b cnt k0).oob = b.oob ∧ (normalise b cnt k0).data.length = b.data.length ∧
    ∀ k, (normalise b cnt k0).data.getD k 0 =
      if k0 ≤ k ∧ k < k0 + cnt then norm1 (b.data.getD k 0) else b.data.getD k 0 := by
  intro cnt
  induction cnt with
  | zero =>
    intro b k0 _
    refine ⟨rfl, rfl, ?_⟩
    intro k
    have : ¬ (k0 ≤ k ∧ k < k0 + 0) := by omega
    rw [if_neg this]; rfl
  | succ cnt ih =>
    intro b k0 h
    obtain ⟨w1, w2, w3⟩ := write_in b k0 (norm1 (b.data.getD k0 0)) (by omega)
    obtain ⟨r1, r2, r3⟩ := ih (b.write k0 (norm1 (b.data.getD k0 0))) (k0 + 1) (by rw [w2]; omega)
    have e : normalise b (cnt + 1) k0 = normalise (b.write k0 (norm1 (b.data.getD k0 0))) cnt (k0 + 1) := rfl
    rw [e]
    refine ⟨by rw [r1, w1], by rw [r2, w2], ?_⟩
    intro k
    rw [r3 k, w3 k]
    by_cases c1 : k0 + 1 ≤ k ∧ k < k0 + 1 + cnt
    · have c2 : k0 ≤ k ∧ k < k0 + (cnt + 1) := by omega
      have c3 : ¬ k = k0 := by omega
      rw [if_pos c1, if_pos c2, if_neg c3]
    · rw [if_neg c1]
      by_cases c3 : k = k0
      · subst c3
        have c2 : k ≤ k ∧ k < k + (cnt + 1) := by omega
        rw [if_pos rfl, if_pos c2]
      · have c2 : ¬ (k0 ≤ k ∧ k < k0 + (cnt + 1)) := by omega
        rw [if_neg c3, if_neg c2]

theorem norm1_cases (x : Nat) : norm1 x = 48 ∨ norm1 x = 49 := by
  unfold norm1; split <;> simp

/-! ### hyphenateWord keeps the length, for any automaton -/

theorem apStep_length (s : List Nat) (off : Int) (acc : List Nat × Bool) (k : Nat) :
    (apStep s off acc k).1.length = acc.1.length := by
  unfold apStep
  simp only
  split
  · rfl
  · exact maxAt_length _ _ _

theorem applyPat_length (h : List Nat) (n i : Nat) (s : List Nat) : (applyPat h n i s).1.length = h.length := by
  rw [applyPat_eq]
  generalize (if (i : Int) + 1 - (s.length : Int) < 0 then (-((i : Int) + 1 - (s.length : Int))).toNat else 0) = k0
  generalize (min (s.length : Int) ((n : Int) - ((i : Int) + 1 - (s.length : Int)))).toNat - k0 = m
  induction m with
  | zero => rfl
  | succ m ih => rw [List.range'_concat, List.foldl_append]; simp only [foldl_cons, foldl_nil]; rw [apStep_length, ih]

theorem walkStep_length (d : Dict) (n : Nat) (w : Walk) (i ch : Nat) :
    (walkStep d n w i ch).hyphens.length = w.hyphens.length := by
  unfold walkStep
  simp only
  split
  · rfl
  · split
    · rfl
    · split
      · rfl
      · exact applyPat_length _ _ _ _

theorem walkFrom_length (d : Dict) (n : Nat) : ∀ (rest : List Nat) (i : Nat) (w : Walk),
    (walkFrom d n rest i w).hyphens.length = w.hyphens.length := by
  intro rest
  induction rest with
  | nil => intro i w; rfl
  | cons ch rest ih => intro i w; simp only [walkFrom]; rw [ih, walkStep_length]

theorem hyphenateWord_length (d : Dict) (lower : Nat → Nat) (w : List Nat) :
    (hyphenateWord d lower w).length = w.length := by
  unfold hyphenateWord hyphenateWalk
  rw [walkFrom_length]; simp

/-! ### the run loop -/

theorem findFrom_bounds (p : Nat → Bool) (text : List Nat) : ∀ (fuel k : Nat), k ≤ text.length →
    k ≤ findFrom p text fuel k ∧ findFrom p text fuel k ≤ text.length := by
  intro fuel
  induction fuel with
  | zero => intro k h; exact ⟨Nat.le_refl _, h⟩
  | succ fuel ih =>
    intro k h
    simp only [findFrom]
    split
    · rename_i c
      obtain ⟨a, b⟩ := ih (k + 1) (by omega)
      exact ⟨by omega, b⟩
    · exact ⟨Nat.le_refl _, h⟩

/-- what the property demands of the array: inlen characters from {'0','1','2'} and a NUL,
    nothing written beyond -/
structure Fmt (n : Nat) (b : TBuf) : Prop where
  oob : b.oob = false
  len : b.data.length = n + 1
  chars : ∀ k, k < n → b.data.getD k 0 = 48 ∨ b.data.getD k 0 = 49 ∨ b.data.getD k 0 = 50
  nul : b.data.getD n 0 = 0

theorem wordLoop_fmt (d : Dict) (cl : Classes) (text : List Nat) (hlen : text.length + 3 ≤ MAXSTRING) :
    ∀ (fuel ws0 : Nat) (b : TBuf), ws0 ≤ text.length → Fmt text.length b →
      ∃ b', wordLoop d cl text fuel ws0 b = some b' ∧ Fmt text.length b' := by
  intro fuel
  induction fuel with
  | zero => intro ws0 b _ f; exact ⟨b, rfl, f⟩
  | succ fuel ih =>
    intro ws0 b hws0 f
    simp only [wordLoop]
    obtain ⟨a1, a2⟩ := findFrom_bounds cl.isLetter text text.length ws0 hws0
    generalize findFrom cl.isLetter text text.length ws0 = ws at a1 a2
    by_cases c : ws ≥ text.length
    · rw [if_pos c]; exact ⟨b, rfl, f⟩
    · rw [if_neg c]
      obtain ⟨e1, e2⟩ := findFrom_bounds (fun c => !cl.isLetter c) text text.length (ws + 1) (by omega)
      generalize findFrom (fun c => !cl.isLetter c) text text.length (ws + 1) = we at e1 e2
      have hwl : ((text.drop ws).take (we - ws)).length = we - ws := by
        simp; omega
      have hnot : ¬ (((text.drop ws).take (we - ws)).length + 3 > MAXSTRING) := by
        rw [hwl]; omega
      rw [if_neg hnot]
      have hyl : ((hyphenateWord d cl.lower ((text.drop ws).take (we - ws))).map (· + 48)).length = we - ws := by
        rw [length_map, hyphenateWord_length, hwl]
      generalize (hyphenateWord d cl.lower ((text.drop ws).take (we - ws))).map (· + 48) = hv at hyl
      have hfirst' : ∀ c : Prop, [Decidable c] → ((if c then 50 else 48 : Nat) = 48 ∨ (if c then 50 else 48 : Nat) = 50) := by
        intro c _; split <;> simp
      have hfirst'' := hfirst' (ws ≥ 2 ∧ cl.isHyphen (text.getD (ws - 1) 0) = true ∧ cl.isLetter (text.getD (ws - 2) 0) = true)
      generalize (if ws ≥ 2 ∧ cl.isHyphen (text.getD (ws - 1) 0) = true ∧ cl.isLetter (text.getD (ws - 2) 0) = true
        then 50 else 48) = first at hfirst'' ⊢
      clear hfirst'
      have hfirst' := hfirst''
      -- the four writes of one run
      obtain ⟨p1, p2, p3⟩ := writeRange_in hv b ws (by rw [hyl, f.len]; omega)
      obtain ⟨q1, q2, q3⟩ := write_in (b.writeRange ws hv) we 0 (by rw [p2, f.len]; omega)
      obtain ⟨r1, r2, r3⟩ := write_in ((b.writeRange ws hv).write we 0) ws first (by rw [q2, p2, f.len]; omega)
      obtain ⟨s1, s2, s3⟩ := normalise_in (we - (ws + 1)) (((b.writeRange ws hv).write we 0).write ws first) (ws + 1)
        (by rw [r2, q2, p2, f.len]; omega)
      generalize hB : normalise (((b.writeRange ws hv).write we 0).write ws first) (we - (ws + 1)) (ws + 1) = B at s1 s2 s3
      have Boob : B.oob = false := by rw [s1, r1, q1, p1, f.oob]
      have Blen : B.data.length = text.length + 1 := by rw [s2, r2, q2, p2, f.len]
      have Bget : ∀ k, B.data.getD k 0 =
          if ws + 1 ≤ k ∧ k < we then norm1 (hv.getD (k - ws) 0)
          else if k = ws then first else if k = we then 0 else b.data.getD k 0 := by
        intro k
        rw [s3 k, r3 k, q3 k, p3 k, hyl]
        by_cases c1 : ws + 1 ≤ k ∧ k < we
        · have c1' : ws + 1 ≤ k ∧ k < ws + 1 + (we - (ws + 1)) := by omega
          have c2 : ¬ k = ws := by omega
          have c3 : ¬ k = we := by omega
          have c4 : ws ≤ k ∧ k < ws + (we - ws) := by omega
          rw [if_pos c1', if_pos c1, if_neg c2, if_neg c3, if_pos c4]
        · have c1' : ¬ (ws + 1 ≤ k ∧ k < ws + 1 + (we - (ws + 1))) := by omega
          rw [if_neg c1', if_neg c1]
          by_cases c2 : k = ws
          · rw [if_pos c2, if_pos c2]
          · rw [if_neg c2, if_neg c2]
            by_cases c3 : k = we
            · rw [if_pos c3, if_pos c3]
            · have c4 : ¬ (ws ≤ k ∧ k < ws + (we - ws)) := by omega
              rw [if_neg c3, if_neg c3, if_neg c4]
      by_cases cw : we = text.length
      · rw [if_pos cw]
        refine ⟨B, rfl, Boob, Blen, ?_, ?_⟩
        · intro k hk
          rw [Bget k]
          by_cases c1 : ws + 1 ≤ k ∧ k < we
          · rw [if_pos c1]; rcases norm1_cases (hv.getD (k - ws) 0) with h | h; exact Or.inl h; exact Or.inr (Or.inl h)
          · rw [if_neg c1]
            by_cases c2 : k = ws
            · rw [if_pos c2]; rcases hfirst' with h | h; exact Or.inl h; exact Or.inr (Or.inr h)
            · have c3 : ¬ k = we := by omega
              rw [if_neg c2, if_neg c3]; exact f.chars k hk
        · rw [Bget]
          have c1 : ¬ (ws + 1 ≤ text.length ∧ text.length < we) := by omega
          have c2 : ¬ text.length = ws := by omega
          rw [if_neg c1, if_neg c2, if_pos cw.symm]
      · rw [if_neg cw]
        obtain ⟨t1, t2, t3⟩ := write_in B we 48 (by rw [Blen]; omega)
        apply ih (we + 1) (B.write we 48) (by omega)
        refine ⟨by rw [t1, Boob], by rw [t2, Blen], ?_, ?_⟩
        · intro k hk
          rw [t3 k]
          by_cases c3 : k = we
          · rw [if_pos c3]; simp
          · rw [if_neg c3, Bget k]
            by_cases c1 : ws + 1 ≤ k ∧ k < we
            · rw [if_pos c1]; rcases norm1_cases (hv.getD (k - ws) 0) with h | h; exact Or.inl h; exact Or.inr (Or.inl h)
            · rw [if_neg c1]
              by_cases c2 : k = ws
              · rw [if_pos c2]; rcases hfirst' with h | h; exact Or.inl h; exact Or.inr (Or.inr h)
              · rw [if_neg c2, if_neg c3]; exact f.chars k hk
        · rw [t3]
          have c0 : ¬ text.length = we := by omega
          rw [if_neg c0, Bget]
          have c1 : ¬ (ws + 1 ≤ text.length ∧ text.length < we) := by omega
          have c2 : ¬ text.length = ws := by omega
          rw [if_neg c1, if_neg c2, if_neg c0]; exact f.nul

end Lou.Hyph
