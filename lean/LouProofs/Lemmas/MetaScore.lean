/-
  Lemmas/MetaScore.lean — what one queried key contributes (plain and language keys),
  sums, and the loop of lou_getTableInfo on a sorted list.
-/
import LouProofs.Lemmas.Meta

namespace Lou.Meta
open Lou.Gen.MetaConsts

/-- what the proofs need to know about a weight set -/
structure Weights.Sane (W : Weights) : Prop where
  neg : W.negMatch < 0
  pos : 0 ≤ W.posMatch - UCS2_FOR_UCS4_PENALTY

theorem strictW_sane : strictW.Sane := ⟨by decide, by decide⟩
theorem fuzzyW_sane : fuzzyW.Sane := ⟨by decide, by decide⟩

theorem penalty_nonneg : 0 ≤ UCS2_FOR_UCS4_PENALTY := by decide

/-! ### plain keys -/

theorem foldl_strStep_frozen (W : Weights) (isUR : Bool) (qv : Str) (b : Int) (hb : 0 ≤ b) (g : List Str) :
    g.foldl (strStep W isUR qv) b = b := by
  induction g with
  | nil => rfl
  | cons v vs ih =>
    have : strStep W isUR qv b v = b := by
      unfold strStep; rw [if_neg (by omega)]
    rw [List.foldl_cons, this, ih]

/-- the ucs4-query special case does not apply -/
def noSpecial (isUR : Bool) (qv : Str) : Prop := (isUR && cmpCI qv UR_QUERY_SPECIAL == .eq) = false

theorem foldl_strStep_plain (W : Weights) (hW : W.Sane) (isUR : Bool) (qv : Str) (hns : noSpecial isUR qv)
    (b : Int) (hb : b < 0) (g : List Str) :
    g.foldl (strStep W isUR qv) b = if g.any (fun v => cmpCI qv v == .eq) then W.posMatch else b := by
  have hpos : 0 ≤ W.posMatch := by have := hW.pos; have := penalty_nonneg; omega
  induction g with
  | nil => rfl
  | cons v vs ih =>
    rw [List.foldl_cons, List.any_cons]
    by_cases he : cmpCI qv v = .eq
    · have : strStep W isUR qv b v = W.posMatch := by
        unfold strStep; rw [if_pos hb]; simp [he]
      rw [this, foldl_strStep_frozen W isUR qv _ hpos]
      simp [he]
    · have hne : (cmpCI qv v == Ordering.eq) = false := by simpa using he
      have : strStep W isUR qv b v = b := by
        unfold strStep noSpecial at *
        rw [if_pos hb, hne]
        simp only [Bool.false_eq_true, if_false]
        rw [show (isUR && cmpCI qv UR_QUERY_SPECIAL == Ordering.eq && cmpCI v UR_TABLE_SPECIAL == Ordering.eq) = false by
          rw [hns]; rfl]
        simp
      rw [this, ih, hne]
      simp

theorem strBest_same (W : Weights) (hW : W.Sane) (isUR : Bool) (qv : Str) (hns : noSpecial isUR qv) (g : List Str)
    (h : ∃ v ∈ g, cmpCI qv v = .eq) : strBest W isUR qv g = W.posMatch := by
  unfold strBest
  rw [foldl_strStep_plain W hW isUR qv hns _ hW.neg]
  have : g.any (fun v => cmpCI qv v == .eq) = true := by
    rw [List.any_eq_true]; obtain ⟨v, hv, he⟩ := h; exact ⟨v, hv, by simp [he]⟩
  rw [this]; rfl

theorem strBest_other (W : Weights) (hW : W.Sane) (isUR : Bool) (qv : Str) (hns : noSpecial isUR qv) (g : List Str)
    (h : ∀ v ∈ g, cmpCI qv v ≠ .eq) : strBest W isUR qv g = W.negMatch := by
  unfold strBest
  rw [foldl_strStep_plain W hW isUR qv hns _ hW.neg]
  have : g.any (fun v => cmpCI qv v == .eq) = false := by
    rw [List.any_eq_false]; intro v hv; simpa using h v hv
  rw [this]; rfl

/-- a single declared value equal to the queried one: POS, special case or not -/
theorem strBest_single_same (W : Weights) (hW : W.Sane) (isUR : Bool) (qv v : Str) (h : cmpCI qv v = .eq) :
    strBest W isUR qv [v] = W.posMatch := by
  simp [strBest, strStep, hW.neg, h]

/-- with the special case the answer is still one of the three values and at least POS-1 when some
    value is equal -/
theorem strBest_ge_of_same (W : Weights) (hW : W.Sane) (isUR : Bool) (qv : Str) (g : List Str)
    (h : ∃ v ∈ g, cmpCI qv v = .eq) : W.posMatch - UCS2_FOR_UCS4_PENALTY ≤ strBest W isUR qv g := by
  have hpen := penalty_nonneg
  have hpos := hW.pos
  have key : ∀ (g : List Str) (b : Int), (∃ v ∈ g, cmpCI qv v = .eq) → b < 0 →
      W.posMatch - UCS2_FOR_UCS4_PENALTY ≤ g.foldl (strStep W isUR qv) b := by
    intro g
    induction g with
    | nil => intro b h; obtain ⟨v, hv, _⟩ := h; cases hv
    | cons v vs ih =>
      intro b h hb
      rw [List.foldl_cons]
      by_cases he : cmpCI qv v = .eq
      · have : strStep W isUR qv b v = W.posMatch := by
          unfold strStep; rw [if_pos hb]; simp [he]
        rw [this, foldl_strStep_frozen W isUR qv _ (by omega)]; omega
      · have hrest : ∃ w ∈ vs, cmpCI qv w = .eq := by
          obtain ⟨w, hw, hwe⟩ := h
          rcases List.mem_cons.1 hw with hw | hw
          · subst hw; exact absurd hwe he
          · exact ⟨w, hw, hwe⟩
        have hne : (cmpCI qv v == Ordering.eq) = false := by simpa using he
        have hstep : strStep W isUR qv b v = b ∨ strStep W isUR qv b v = W.posMatch - UCS2_FOR_UCS4_PENALTY := by
          unfold strStep
          rw [if_pos hb, hne]
          simp only [Bool.false_eq_true, if_false]
          split <;> simp
        rcases hstep with hs | hs <;> rw [hs]
        · exact ih b hrest hb
        · rw [foldl_strStep_frozen W isUR qv _ hpos]; omega
  exact key g _ h hW.neg

/-! ### language keys -/

theorem matchLangRest_self (rs ts : List Str) (q : Int) (h : ts.map lowerStr = rs.map lowerStr) :
    matchLangRest rs ts q = q := by
  induction ts generalizing rs with
  | nil =>
    cases rs with
    | nil => simp [matchLangRest]
    | cons r rs => simp at h
  | cons t ts ih =>
    cases rs with
    | nil => simp at h
    | cons r rs =>
      simp only [List.map_cons, List.cons.injEq] at h
      rw [matchLangRest]
      have : cmpCI t r = .eq := cmpCI_eq_iff.2 h.1
      simp [this, ih rs h.2]

/-- the range starts with `*` -/
def starRange (range : List Str) : Bool := (range.head?.bind List.head?) == some 42

/-- a range equal to the tag (case-insensitively) that is not a `*` range: a perfect match -/
theorem matchLanguageTags_same (tag range : List Str) (hne : tag ≠ [])
    (h : tag.map lowerStr = range.map lowerStr) (hstar : starRange range = false) :
    matchLanguageTags tag range = LANG_POS_MATCH := by
  cases tag with
  | nil => exact absurd rfl hne
  | cons t ts =>
    cases range with
    | nil => simp at h
    | cons r rs =>
      simp only [List.map_cons, List.cons.injEq] at h
      have hs : (r.head? == some 42) = false := by
        simpa [starRange] using hstar
      have he : cmpCI t r = .eq := cmpCI_eq_iff.2 h.1
      simp only [matchLanguageTags, hs, Bool.false_eq_true, if_false, he]
      simp [matchLangRest_self rs ts _ h.2]

theorem langBest_nil (W : Weights) (hW : W.Sane) (qv : List Str) : langBest W qv [] = W.negMatch := by
  have := hW.neg
  simp [langBest]; omega

/-- no range matches: the key counts as declared with another value -/
theorem langBest_none (W : Weights) (hW : W.Sane) (qv : List Str) (g : List (List Str))
    (h : ∀ v ∈ g, matchLanguageTags qv v ≤ 0) : langBest W qv g = W.negMatch := by
  have key : ∀ (g : List (List Str)) (e : Int), (∀ v ∈ g, matchLanguageTags qv v ≤ 0) →
      (g.foldl (langStep W qv) (W.negMatch, e)).1 = W.negMatch := by
    intro g
    induction g with
    | nil => intro e _; rfl
    | cons v vs ih =>
      intro e h
      rw [List.foldl_cons]
      have hv := h v (List.mem_cons_self ..)
      have hrest : ∀ w ∈ vs, matchLanguageTags qv w ≤ 0 := fun w hw => h w (List.mem_cons_of_mem _ hw)
      unfold langStep
      simp only
      rw [if_neg (by omega)]
      split
      · exact ih _ hrest
      · exact ih _ hrest
  have hneg := hW.neg
  unfold langBest
  simp only
  rw [key g 0 h, if_neg (by omega)]

/-- exactly one range and it matches with quotient `m > 0` -/
theorem langBest_single (W : Weights) (hW : W.Sane) (qv v : List Str) (hm : 0 < matchLanguageTags qv v) :
    langBest W qv [v] = matchLanguageTags qv v := by
  have hneg := hW.neg
  have h4 : (0 + EXTRA_LANG_ADD).tdiv EXTRA_LANG_DIV = 0 := by decide
  have hstep : langStep W qv (W.negMatch, 0) v = (matchLanguageTags qv v, 0) := by
    unfold langStep
    simp only
    rw [if_pos ⟨hm, by omega⟩]
  unfold langBest
  simp only [List.foldl_cons, List.foldl_nil, hstep]
  rw [if_pos hm, h4]
  omega

/-! ### `isLangKey` and the unicode-range test only depend on the folded key -/

theorem isLangKey_congr {k k' : Str} (h : cmpCI k k' = .eq) : isLangKey k = isLangKey k' := by
  have := cmpCI_eq_iff.1 h
  have hlen : k.length = k'.length := by
    have := congrArg List.length this
    simpa [lowerStr] using this
  simp [isLangKey, isLanguageTagN, strncaseEq, this, hlen]

theorem isUR_congr {k k' : Str} (h : cmpCI k k' = .eq) :
    (cmpCI k kUnicodeRange == .eq) = (cmpCI k' kUnicodeRange == .eq) := by
  rw [cmpCI_congr_left h]

theorem key_of_mem_group {k : Str} {t : List Feat} {f : Feat} (h : f ∈ group k t) : cmpCI f.key k = .eq := by
  have := (List.mem_filter.1 h).2
  simpa [sameKey] using this

/-! ### sums -/

theorem sum_map_le {α} (f g : α → Int) (l : List α) (h : ∀ a ∈ l, f a ≤ g a) :
    (l.map f).sum ≤ (l.map g).sum := by
  induction l with
  | nil => simp
  | cons a t ih =>
    simp only [List.map_cons, List.sum_cons]
    have := h a (List.mem_cons_self ..)
    have := ih (fun b hb => h b (List.mem_cons_of_mem _ hb))
    omega

theorem sum_map_lt {α} (f g : α → Int) (l : List α) (h : ∀ a ∈ l, f a ≤ g a) (hs : ∃ a ∈ l, f a < g a) :
    (l.map f).sum < (l.map g).sum := by
  induction l with
  | nil => obtain ⟨a, ha, _⟩ := hs; cases ha
  | cons a t ih =>
    simp only [List.map_cons, List.sum_cons]
    have ha := h a (List.mem_cons_self ..)
    have hle := sum_map_le f g t (fun b hb => h b (List.mem_cons_of_mem _ hb))
    obtain ⟨b, hb, hlt⟩ := hs
    rcases List.mem_cons.1 hb with hb | hb
    · subst hb; omega
    · have := ih (fun c hc => h c (List.mem_cons_of_mem _ hc)) ⟨b, hb, hlt⟩
      omega

theorem sum_map_const {α} (f : α → Int) (c : Int) (l : List α) (h : ∀ a ∈ l, f a = c) :
    (l.map f).sum = c * l.length := by
  induction l with
  | nil => simp
  | cons a t ih =>
    simp only [List.map_cons, List.sum_cons, List.length_cons]
    rw [h a (List.mem_cons_self ..), ih (fun b hb => h b (List.mem_cons_of_mem _ hb))]
    rw [Int.natCast_add, Int.mul_add]
    simp; omega

/-! ### the loop of lou_getTableInfo on a key-sorted list -/

theorem infoLoop_first (key : Str) (f : Feat) (hk : cmpCI f.key key = .eq) (hfl : 0 ≤ f.line)
    (l : List Feat) (hs : KeysSorted l)
    (hmin : ∀ g ∈ l, cmpCI g.key key = .eq → g = f ∨ f.line < g.line)
    (v : Option Val) (ln : Int)
    (hinv : (f ∈ l ∧ (ln < 0 ∨ f.line < ln)) ∨ (v = some f.val ∧ ln = f.line)) :
    infoLoop key l v ln = some f.val := by
  induction l generalizing v ln with
  | nil =>
    rcases hinv with ⟨h, _⟩ | ⟨h, _⟩
    · cases h
    · simpa [infoLoop] using h
  | cons g l' ih =>
    have hmin' : ∀ a ∈ l', cmpCI a.key key = .eq → a = f ∨ f.line < a.line :=
      fun a ha => hmin a (List.mem_cons_of_mem _ ha)
    rw [infoLoop]
    split
    · rename_i heq
      have hg := hmin g (List.mem_cons_self ..) heq
      split
      · rename_i hcond
        apply ih hs.tail hmin'
        rcases hg with hg | hg
        · subst hg; exact Or.inr ⟨rfl, rfl⟩
        · rcases hinv with ⟨hin, _⟩ | ⟨_, hln⟩
          · left
            rcases List.mem_cons.1 hin with hin | hin
            · subst hin; omega
            · exact ⟨hin, Or.inr hg⟩
          · omega
      · rename_i hcond
        apply ih hs.tail hmin'
        rcases hinv with ⟨hin, hlt⟩ | hr
        · left
          rcases List.mem_cons.1 hin with hin | hin
          · subst hin; omega
          · exact ⟨hin, hlt⟩
        · exact Or.inr hr
    · rename_i hgt
      rcases hinv with ⟨hin, _⟩ | ⟨h, _⟩
      · exfalso
        rcases List.mem_cons.1 hin with hin | hin
        · subst hin; rw [hk] at hgt; cases hgt
        · have := hs.head_le f hin
          rw [cmpCI_congr_right hk] at this
          exact this hgt
      · exact h
    · rename_i hlt
      apply ih hs.tail hmin'
      rcases hinv with ⟨hin, h2⟩ | hr
      · left
        rcases List.mem_cons.1 hin with hin | hin
        · subst hin; rw [hk] at hlt; cases hlt
        · exact ⟨hin, h2⟩
      · exact Or.inr hr

theorem infoLoop_none (key : Str) (l : List Feat) (h : ∀ g ∈ l, cmpCI g.key key ≠ .eq) (ln : Int) :
    infoLoop key l none ln = none := by
  induction l with
  | nil => rfl
  | cons g l' ih =>
    rw [infoLoop]
    have := h g (List.mem_cons_self ..)
    split
    · rename_i heq; exact absurd heq this
    · rfl
    · exact ih (fun a ha => h a (List.mem_cons_of_mem _ ha))

/-! ### line numbers: the C feature list is ordered newest line first -/

/-- features carry the number of the line they were read from, newest first -/
def LinesDescending (n : Int) (l : List Feat) : Prop :=
  l.Pairwise (fun a b => b.line ≤ a.line) ∧ ∀ f ∈ l, 1 ≤ f.line ∧ f.line < n

theorem tableAddFeature_lines (s s' : AState) (k v : Str) (n : Int) (hn : 1 ≤ n)
    (h : tableAddFeature s k v n = some s') (hs : LinesDescending n s.feats) :
    LinesDescending (n + 1) s'.feats := by
  have hcons : ∀ (f : Feat) (l : List Feat), f.line = n → LinesDescending n l → LinesDescending (n + 1) (f :: l) := by
    intro f l hf ⟨hp, hall⟩
    refine ⟨List.pairwise_cons.2 ⟨fun b hb => by have := hall b hb; omega, hp⟩, ?_⟩
    intro g hg
    rcases List.mem_cons.1 hg with hg | hg
    · subst hg; omega
    · have := hall g hg; omega
  have hcons2 : ∀ (f g : Feat) (l : List Feat), f.line = n → g.line = n → LinesDescending n l →
      LinesDescending (n + 1) (f :: g :: l) := by
    intro f g l hf hg ⟨hp, hall⟩
    refine ⟨List.pairwise_cons.2 ⟨fun b hb => ?_, List.pairwise_cons.2 ⟨fun b hb => by have := hall b hb; omega, hp⟩⟩, ?_⟩
    · rcases List.mem_cons.1 hb with hb | hb
      · subst hb; omega
      · have := hall b hb; omega
    · intro a ha
      rcases List.mem_cons.1 ha with ha | ha
      · subst ha; omega
      · rcases List.mem_cons.1 ha with ha | ha
        · subst ha; omega
        · have := hall a ha; omega
  unfold tableAddFeature at h
  split at h
  · split at h
    · cases h
    · split at h
      · injection h with h; subst h; exact hcons2 _ _ _ rfl rfl hs
      · split at h
        · injection h with h; subst h; exact hcons _ _ rfl hs
        · split at h
          · injection h with h; subst h; exact hcons _ _ rfl hs
          · injection h with h; subst h; exact hcons _ _ rfl hs
  · injection h with h; subst h; exact hcons _ _ rfl hs

theorem LinesDescending.mono {n m : Int} {l : List Feat} (h : LinesDescending n l) (hnm : n ≤ m) :
    LinesDescending m l :=
  ⟨h.1, fun f hf => by have := h.2 f hf; omega⟩

/-- every feature `analyzeTable` collects (before the defaults) has the number of its line;
    the list is ordered by non-increasing line number: an earlier line of the file is
    FURTHER in the list and has the SMALLER number -/
theorem analyzeLines_lines (activeOnly : Bool) (ls : List (List Nat)) (n : Int) (hn : 1 ≤ n) (s s' : AState)
    (h : analyzeLines activeOnly ls n s = .done s') (hs : LinesDescending n s.feats) :
    ∃ m, LinesDescending m s'.feats := by
  induction ls generalizing n s with
  | nil => simp [analyzeLines] at h; subst h; exact ⟨n, hs⟩
  | cons l ls ih =>
    rw [analyzeLines] at h
    split at h
    · exact ih (n + 1) (by omega) s h (hs.mono (by omega))
    · injection h with h; subst h; exact ⟨n, hs⟩
    · cases h
    · split at h
      · cases h
      · rename_i s1 hadd
        exact ih (n + 1) (by omega) s1 h (tableAddFeature_lines s s1 _ _ n hn hadd hs)

end Lou.Meta
