/-
  Lemmas/HyphWalk.lean — the walk of hyphenateWord over a correct automaton refines the
  property (`DictOK pats d key → hyphenateWalk d = spec`).
-/
import LouModel.Hyph
import LouProofs.Lemmas.Hyph

namespace Lou.Hyph
open List

/-- no digit-only line -/
def WFPats (pats : List Pat) : Prop := ∀ p ∈ pats, p.rest ≠ []

instance (pats : List Pat) : Decidable (WFPats pats) := by unfold WFPats; infer_instance

/-- `d` is the automaton of `pats`: state `i` stands for the string `key i`; the states are
    exactly the prefixes of the pattern letter strings; transitions extend the string by one
    character; the fallback of a state is its longest proper suffix that is a state; the
    pattern of a state is the stripped digit string of the dictionary line with these letters. -/
structure DictOK (pats : List Pat) (d : Dict) (key : Nat → List Nat) : Prop where
  ne : pats ≠ []
  size_pos : 0 < d.size
  size_le : d.size ≤ 0xffffffff
  key0 : key 0 = []
  inj : ∀ i j, i < d.size → j < d.size → key i = key j → i = j
  isP : ∀ i, i < d.size → isPatPrefix pats (key i) = true
  all : ∀ s, isPatPrefix pats s = true → ∃ i, i < d.size ∧ key i = s
  trans : ∀ i s, d[i]? = some s → ∀ ch tgt, (ch, tgt) ∈ s.trans ↔ (tgt < d.size ∧ key tgt = key i ++ [ch])
  fb0 : ∀ s, d[0]? = some s → s.fallback = DEFAULTSTATE
  fb : ∀ i s, d[i]? = some s → i ≠ 0 →
    s.fallback < d.size ∧ key s.fallback = lssD (isPatPrefix pats) (key i).tail
  pat : ∀ i s, d[i]? = some s → s.pat = (digitsOf pats (key i)).map stripZeros

section
variable {pats : List Pat} {d : Dict} {key : Nat → List Nat}

theorem DictOK.find (ok : DictOK pats d key) {i : Nat} {s : HState} (hs : d[i]? = some s) (c : Nat) :
    (isPatPrefix pats (key i ++ [c]) = true →
      ∃ e, s.trans.find? (fun e => e.1 == c) = some e ∧ e.2 < d.size ∧ key e.2 = key i ++ [c]) ∧
    (isPatPrefix pats (key i ++ [c]) = false → s.trans.find? (fun e => e.1 == c) = none) := by
  have hi : i < d.size := by
    rcases Nat.lt_or_ge i d.size with h | h
    · exact h
    · rw [Array.getElem?_eq_none h] at hs; cases hs
  constructor
  · intro hp
    obtain ⟨j, hj, hk⟩ := ok.all _ hp
    have hm : (c, j) ∈ s.trans := (ok.trans i s hs c j).mpr ⟨hj, hk⟩
    cases hf : s.trans.find? (fun e => e.1 == c) with
    | none =>
      have := find?_eq_none.mp hf (c, j) hm
      simp at this
    | some e =>
      have h1 : e.1 = c := by simpa using find?_some hf
      have h2 : e ∈ s.trans := mem_of_find?_eq_some hf
      have : (c, e.2) ∈ s.trans := by rw [← h1]; exact h2
      obtain ⟨a, b⟩ := (ok.trans i s hs c e.2).mp this
      exact ⟨e, rfl, a, b⟩
  · intro hp
    apply find?_eq_none.mpr
    intro e he
    by_cases h1 : e.1 = c
    · have : (c, e.2) ∈ s.trans := by rw [← h1]; exact he
      obtain ⟨a, b⟩ := (ok.trans i s hs c e.2).mp this
      have := ok.isP e.2 a
      rw [b, hp] at this; cases this
    · simpa using h1

theorem DictOK.get (_ok : DictOK pats d key) {i : Nat} (hi : i < d.size) : ∃ s, d[i]? = some s :=
  ⟨d[i], Array.getElem?_eq_getElem hi⟩

theorem DictOK.key_nil (ok : DictOK pats d key) {i : Nat} (hi : i < d.size) (h : key i = []) : i = 0 :=
  ok.inj i 0 hi ok.size_pos (by rw [h, ok.key0])

/-- the fallback loop finds the state of the longest extendable suffix -/
theorem seek_spec (ok : DictOK pats d key) (c : Nat) :
    ∀ (len st fuel t : Nat), st < d.size → (key st).length = len → len + 2 ≤ fuel →
      (seek d c fuel st t).fault = none ∧
      match target (isPatPrefix pats) (key st) c with
      | some v => ∃ j, (seek d c fuel st t).next = some j ∧ j < d.size ∧ key j = v ++ [c]
      | none => (seek d c fuel st t).next = none := by
  intro len
  induction len using Nat.strongRecOn with
  | _ len ih =>
    intro st fuel t hst hlen hfuel
    obtain ⟨f, rfl⟩ : ∃ f, fuel = f + 1 := ⟨fuel - 1, by omega⟩
    obtain ⟨s, hs⟩ := ok.get hst
    have hne : st ≠ DEFAULTSTATE := by
      have := ok.size_le; simp only [DEFAULTSTATE]; omega
    obtain ⟨fnd1, fnd2⟩ := ok.find hs c
    have hpre := fun a b => isPatPrefix_pre (pats := pats) a b
    unfold seek
    rw [if_neg hne]
    simp only [hs]
    cases hk : key st with
    | nil =>
      have h0 : st = 0 := ok.key_nil hst hk
      rw [target_nil]
      rw [hk] at fnd1 fnd2
      cases hp : isPatPrefix pats [c] with
      | true =>
        obtain ⟨e, he, h1, h2⟩ := fnd1 (by simpa using hp)
        simp only [he, if_true]
        exact ⟨trivial, e.2, rfl, h1, by simpa using h2⟩
      | false =>
        have he := fnd2 (by simpa using hp)
        simp only [he]
        subst h0
        rw [ok.fb0 s hs]
        obtain ⟨f', rfl⟩ : ∃ f', f = f' + 1 := ⟨f - 1, by omega⟩
        unfold seek
        simp
    | cons a tl =>
      rw [target_cons _ hpre]
      rw [hk] at fnd1 fnd2
      cases hp : isPatPrefix pats (a :: tl ++ [c]) with
      | true =>
        obtain ⟨e, he, h1, h2⟩ := fnd1 hp
        simp only [he, if_true]
        exact ⟨trivial, e.2, rfl, h1, h2⟩
      | false =>
        have he := fnd2 hp
        simp only [he]
        have hst0 : st ≠ 0 := by
          intro h; subst h; rw [ok.key0] at hk; cases hk
        obtain ⟨b1, b2⟩ := ok.fb st s hs hst0
        rw [hk] at b2
        simp only [tail_cons] at b2
        have hl : (key s.fallback).length < len := by
          rw [b2, ← hlen, hk]
          have := (lssD_suffix (isPatPrefix pats) tl).length_le
          simp; omega
        have := ih _ hl s.fallback f (t + 1) b1 rfl (by omega)
        rw [b2] at this
        simpa using this

/-- amortised cost of the fallback loop: iterations + depth reached ≤ depth before + 2 -/
theorem seek_ticks (ok : DictOK pats d key) (c : Nat) :
    ∀ (len st fuel t : Nat), st < d.size → (key st).length = len → len + 2 ≤ fuel →
      (seek d c fuel st t).ticks +
        (match target (isPatPrefix pats) (key st) c with
         | some v => v.length + 1
         | none => 0) ≤ t + len + 2 := by
  intro len
  induction len using Nat.strongRecOn with
  | _ len ih =>
    intro st fuel t hst hlen hfuel
    obtain ⟨f, rfl⟩ : ∃ f, fuel = f + 1 := ⟨fuel - 1, by omega⟩
    obtain ⟨s, hs⟩ := ok.get hst
    have hne : st ≠ DEFAULTSTATE := by
      have := ok.size_le; simp only [DEFAULTSTATE]; omega
    obtain ⟨fnd1, fnd2⟩ := ok.find hs c
    have hpre := fun a b => isPatPrefix_pre (pats := pats) a b
    unfold seek
    rw [if_neg hne]
    simp only [hs]
    cases hk : key st with
    | nil =>
      have h0 : st = 0 := ok.key_nil hst hk
      rw [target_nil]
      rw [hk] at fnd1 fnd2
      have hl0 : len = 0 := by rw [← hlen, hk]; rfl
      cases hp : isPatPrefix pats [c] with
      | true =>
        obtain ⟨e, he, _, _⟩ := fnd1 (by simpa using hp)
        simp only [he, if_true]
        show t + 1 + (([] : List Nat).length + 1) ≤ t + len + 2
        simp only [List.length_nil]; omega
      | false =>
        have he := fnd2 (by simpa using hp)
        simp only [he]
        subst h0
        rw [ok.fb0 s hs]
        obtain ⟨f', rfl⟩ : ∃ f', f = f' + 1 := ⟨f - 1, by omega⟩
        unfold seek
        simp only [if_true]
        show t + 1 + 1 + 0 ≤ t + len + 2
        omega
    | cons a tl =>
      rw [target_cons _ hpre]
      rw [hk] at fnd1 fnd2
      have hl1 : len = tl.length + 1 := by rw [← hlen, hk]; rfl
      cases hp : isPatPrefix pats (a :: tl ++ [c]) with
      | true =>
        obtain ⟨e, he, _, _⟩ := fnd1 hp
        simp only [he, if_true]
        show t + 1 + ((a :: tl).length + 1) ≤ t + len + 2
        simp only [List.length_cons]; omega
      | false =>
        have he := fnd2 hp
        simp only [he]
        have hst0 : st ≠ 0 := by
          intro h; subst h; rw [ok.key0] at hk; cases hk
        obtain ⟨b1, b2⟩ := ok.fb st s hs hst0
        rw [hk] at b2
        simp only [tail_cons] at b2
        have hl : (key s.fallback).length < len := by
          rw [b2]
          have := (lssD_suffix (isPatPrefix pats) tl).length_le
          omega
        have hjl : (key s.fallback).length = (lssD (isPatPrefix pats) tl).length := by rw [b2]
        have := ih _ hl s.fallback f (t + 1) b1 rfl (by omega)
        rw [b2] at this
        simp only [Bool.false_eq_true, if_false]
        omega

end

end Lou.Hyph

namespace Lou.Hyph
open List

theorem getD_of_le (l : List Nat) (k : Nat) (h : l.length ≤ k) : l.getD k 0 = 0 := by
  simp [List.getD_eq_getElem?_getD, List.getElem?_eq_none h]

/-- the maximum of the contributions of the first `i` characters at position `q` -/
def specUpTo (pats : List Pat) (prep : List Nat) (i q : Nat) : Nat :=
  (List.range i).foldl (fun m i' => max m (contrib pats prep i' q)) 0

theorem specUpTo_succ (pats : List Pat) (prep : List Nat) (i q : Nat) :
    specUpTo pats prep (i + 1) q = max (specUpTo pats prep i q) (contrib pats prep i q) := by
  simp [specUpTo, List.range_succ, List.foldl_append]

theorem contrib_eq {pats : List Pat} {prep u s : List Nat} {i : Nat} (q : Nat)
    (hu : prep.take (i + 1) = u) (hs : longestSuffix (isPatPrefix pats) u = some s) :
    contrib pats prep i q = match digitsOf pats s with
      | none => 0
      | some ds => if i ≤ q + s.length then ds.getD (q + s.length - i) 0 else 0 := by
  simp only [contrib, hu, hs]
  cases digitsOf pats s <;> rfl

theorem take_pre_succ (pre rest : List Nat) (ch : Nat) :
    (pre ++ ch :: rest).take (pre.length + 1) = pre ++ [ch] := by
  rw [List.take_append]
  simp [List.take_of_length_le]

section
variable {pats : List Pat} {d : Dict} {key : Nat → List Nat}

structure WInv (pats : List Pat) (d : Dict) (key : Nat → List Nat) (n : Nat) (prep pre : List Nat) (w : Walk) : Prop where
  fault : w.fault = none
  st : w.state < d.size
  kst : key w.state = lssD (isPatPrefix pats) pre
  len : w.hyphens.length = n
  hy : ∀ q, q < n → w.hyphens.getD q 0 = specUpTo pats prep pre.length q
  tk : w.ticks + (key w.state).length ≤ 2 * pre.length

theorem walkStep_inv (ok : DictOK pats d key) (wf : WFPats pats) (n : Nat) (pre rest : List Nat) (ch : Nat)
    (w : Walk)
    (inv : WInv pats d key n (pre ++ ch :: rest) pre w) :
    WInv pats d key n (pre ++ ch :: rest) (pre ++ [ch]) (walkStep d n w pre.length ch) := by
  have hnil := isPatPrefix_nil ok.ne
  have hpre := fun a b => isPatPrefix_pre (pats := pats) a b
  have hstep := lssD_concat (isPatPrefix pats) hnil hpre pre ch
  have hlen : (key w.state).length ≤ pre.length := by
    rw [inv.kst]; exact (lssD_suffix _ _).length_le
  obtain ⟨sf, sn⟩ := seek_spec ok ch (key w.state).length w.state (max (pre.length + 3) (d.size + 2)) w.ticks
    inv.st rfl (by omega)
  have stk := seek_ticks ok ch (key w.state).length w.state (max (pre.length + 3) (d.size + 2)) w.ticks
    inv.st rfl (by omega)
  have itk := inv.tk
  have hbe : (key w.state).length = (lssD (isPatPrefix pats) pre).length := by rw [inv.kst]
  rw [inv.kst] at sn stk
  obtain ⟨s', hs'⟩ := ls_exists hnil (pre ++ [ch])
  have hlss : lssD (isPatPrefix pats) (pre ++ [ch]) = s' := by simp [lssD, hs']
  have hc := fun q => contrib_eq (pats := pats) q (take_pre_succ pre rest ch) hs'
  cases ht : target (isPatPrefix pats) (lssD (isPatPrefix pats) pre) ch with
  | none =>
    rw [ht] at sn hstep
    simp only at sn hstep
    have hs'nil : s' = [] := by rw [← hlss, hstep]
    have hd : digitsOf pats [] = none := by
      cases hdg : digitsOf pats [] with
      | none => rfl
      | some ds =>
        obtain ⟨p, hp, hl, _⟩ := digitsOf_some hdg
        have := wf p hp
        simp [Pat.letters] at hl
        exact absurd hl this
    have hw : walkStep d n w pre.length ch =
        { w with state := 0, ticks := (seek d ch (max (pre.length + 3) (d.size + 2)) w.state w.ticks).ticks,
                 fault := none } := by
      simp only [walkStep, sn, sf, inv.fault, orFault]
    rw [hw]
    rw [ht] at stk
    refine ⟨rfl, ok.size_pos, ?_, inv.len, ?_, ?_⟩
    · simp only; rw [ok.key0, hstep]
    · intro q hq
      simp only [length_append, length_cons, length_nil]
      rw [specUpTo_succ, hc q, hs'nil, hd, ← inv.hy q hq]
      simp
    · simp only [ok.key0, length_append, length_cons, length_nil] at stk ⊢
      omega
  | some v =>
    rw [ht] at sn hstep stk
    simp only at sn hstep stk
    obtain ⟨j, hnext, hj, hkj⟩ := sn
    have hkjl : (key j).length = v.length + 1 := by rw [hkj]; simp
    obtain ⟨s, hs⟩ := ok.get hj
    have hkj' : key j = s' := by rw [hkj, ← hstep, hlss]
    have hpat := ok.pat j s hs
    rw [hkj'] at hpat
    have hs'suf : s' <:+ pre ++ [ch] := (ls_some hs').1
    have hs'len : s'.length ≤ pre.length + 1 := by
      have := hs'suf.length_le; simpa using this
    cases hdg : digitsOf pats s' with
    | none =>
      rw [hdg] at hpat
      simp only [Option.map_none] at hpat
      have hw : walkStep d n w pre.length ch =
          { w with state := j, ticks := (seek d ch (max (pre.length + 3) (d.size + 2)) w.state w.ticks).ticks,
                   fault := none } := by
        simp only [walkStep, hnext, hs, hpat, sf, inv.fault, orFault]
      rw [hw]
      refine ⟨rfl, hj, ?_, inv.len, ?_, ?_⟩
      · simp only; rw [hkj, hstep]
      · intro q hq
        simp only [length_append, length_cons, length_nil]
        rw [specUpTo_succ, hc q, hdg, ← inv.hy q hq]
        simp
      · simp only [hkjl, length_append, length_cons, length_nil]
        omega
    | some ds =>
      rw [hdg] at hpat
      simp only [Option.map_some] at hpat
      obtain ⟨p, hp, hl, hds⟩ := digitsOf_some hdg
      have hdl : ds.length = s'.length + 1 := by rw [hds, digits_length, hl]
      obtain ⟨z, hz1, hz2⟩ := stripZeros_spec ds
      have hLle : (stripZeros ds).length ≤ s'.length + 1 := by omega
      obtain ⟨a1, a2, a3⟩ := applyPat_spec w.hyphens n pre.length (stripZeros ds) inv.len
      have hw : walkStep d n w pre.length ch =
          { hyphens := (applyPat w.hyphens n pre.length (stripZeros ds)).1, state := j,
            ticks := (seek d ch (max (pre.length + 3) (d.size + 2)) w.state w.ticks).ticks,
            fault := none } := by
        simp only [walkStep, hnext, hs, hpat, inv.fault, orFault, a1]
        rfl
      rw [hw]
      refine ⟨rfl, hj, ?_, a2, ?_, by simp only [hkjl, length_append, length_cons, length_nil]; omega⟩
      · simp only; rw [hkj, hstep]
      · intro q hq
        simp only [length_append, length_cons, length_nil]
        rw [specUpTo_succ, hc q, hdg, ← inv.hy q hq, a3 q]
        simp only
        by_cases c1 : pre.length + 1 - (stripZeros ds).length ≤ q ∧ q < pre.length + 1 ∧ q < n
        · rw [if_pos c1]
          have c2 : pre.length ≤ q + s'.length := by omega
          rw [if_pos c2, hz2]
          have c3 : ¬ (q + s'.length - pre.length < z) := by omega
          rw [if_neg c3]
          congr 2
          omega
        · rw [if_neg c1]
          by_cases c2 : pre.length ≤ q + s'.length
          · rw [if_pos c2, hz2]
            by_cases c3 : q + s'.length - pre.length < z
            · rw [if_pos c3]; simp
            · rw [if_neg c3]
              have : (stripZeros ds).length ≤ q + s'.length - pre.length - z := by omega
              rw [getD_of_le _ _ this]; simp
          · rw [if_neg c2]; simp

end

end Lou.Hyph

namespace Lou.Hyph
open List

section
variable {pats : List Pat} {d : Dict} {key : Nat → List Nat}

theorem walkFrom_inv (ok : DictOK pats d key) (wf : WFPats pats) (n : Nat) :
    ∀ (rest pre : List Nat) (w : Walk),
      WInv pats d key n (pre ++ rest) pre w →
      WInv pats d key n (pre ++ rest) (pre ++ rest) (walkFrom d n rest pre.length w) := by
  intro rest
  induction rest with
  | nil => intro pre w inv; simpa [walkFrom] using inv
  | cons ch rest ih =>
    intro pre w inv
    have h1 := walkStep_inv ok wf n pre rest ch w inv
    have e : pre ++ ch :: rest = (pre ++ [ch]) ++ rest := by simp
    have := ih (pre ++ [ch]) (walkStep d n w pre.length ch) (by rw [← e]; exact h1)
    simp only [walkFrom]
    rw [e]
    simpa using this

theorem ext_getD (l1 l2 : List Nat) (n : Nat) (h1 : l1.length = n) (h2 : l2.length = n)
    (h : ∀ q, q < n → l1.getD q 0 = l2.getD q 0) : l1 = l2 := by
  apply List.ext_getElem (by rw [h1, h2])
  intro i hi1 hi2
  have := h i (by omega)
  simpa [List.getD_eq_getElem?_getD, List.getElem?_eq_getElem hi1, List.getElem?_eq_getElem hi2] using this

/-- Part A: over a correct automaton the walk never faults and computes the property -/
theorem walk_refines (ok : DictOK pats d key) (wf : WFPats pats) (lower : Nat → Nat) (w : List Nat) :
    (hyphenateWalk d lower w).fault = none ∧ (hyphenateWalk d lower w).hyphens = specDigits pats lower w := by
  have hnil := isPatPrefix_nil ok.ne
  have init : WInv pats d key w.length ([] ++ prepWord lower w) [] ⟨List.replicate w.length 0, 0, 0, none⟩ := by
    refine ⟨rfl, ok.size_pos, ?_, by simp, ?_, by simp [ok.key0]⟩
    · simp only; rw [ok.key0, lssD_nil]
    · intro q hq
      simp [specUpTo, List.getD_eq_getElem?_getD, hq]
  have fin := walkFrom_inv ok wf w.length (prepWord lower w) [] _ init
  simp only [List.nil_append, List.length_nil] at fin
  refine ⟨fin.fault, ?_⟩
  apply ext_getD _ _ w.length fin.len (by simp [specDigits])
  intro q hq
  have := fin.hy q hq
  rw [this]
  simp [specDigits, specDigitAt, specUpTo, List.getD_eq_getElem?_getD, hq]

end

/-! ### the empty dictionary -/

theorem ls_false (u : List Nat) : longestSuffix (isPatPrefix []) u = none := by
  induction u with
  | nil => simp [longestSuffix, isPatPrefix]
  | cons a u ih => simp [longestSuffix, isPatPrefix, ih]

theorem contrib_nil (prep : List Nat) (i q : Nat) : contrib [] prep i q = 0 := by
  simp [contrib, ls_false]

theorem specUpTo_nil (prep : List Nat) (i q : Nat) : specUpTo [] prep i q = 0 := by
  induction i with
  | zero => rfl
  | succ i ih => rw [specUpTo_succ, ih, contrib_nil]; rfl

theorem walkFrom_empty (n : Nat) : ∀ (rest : List Nat) (i : Nat) (w : Walk), w.state = 0 → w.fault = none →
    (walkFrom #[{}] n rest i w).hyphens = w.hyphens ∧ (walkFrom #[{}] n rest i w).fault = none := by
  intro rest
  induction rest with
  | nil => intro i w _ hf; exact ⟨rfl, hf⟩
  | cons ch rest ih =>
    intro i w hs hf
    have hseek : ∀ f t, (seek #[{}] ch (f + 2) 0 t).next = none ∧ (seek #[{}] ch (f + 2) 0 t).fault = none := by
      intro f t
      simp [seek, DEFAULTSTATE]
    have hm : max (i + 3) ((#[({} : HState)] : Dict).size + 2) = (max (i + 3) 3 - 2) + 2 := by
      simp
    have hstep : (walkStep #[{}] n w i ch).hyphens = w.hyphens ∧ (walkStep #[{}] n w i ch).state = 0 ∧
        (walkStep #[{}] n w i ch).fault = none := by
      simp only [walkStep, hs]
      rw [hm]
      obtain ⟨h1, h2⟩ := hseek (max (i + 3) 3 - 2) w.ticks
      simp only [h1, h2, hf, orFault]
      exact ⟨trivial, trivial, trivial⟩
    simp only [walkFrom]
    obtain ⟨r1, r2⟩ := ih (i + 1) (walkStep #[{}] n w i ch) hstep.2.1 hstep.2.2
    exact ⟨by rw [r1, hstep.1], r2⟩

theorem walk_refines_empty (lower : Nat → Nat) (w : List Nat) :
    (hyphenateWalk #[{}] lower w).fault = none ∧
    (hyphenateWalk #[{}] lower w).hyphens = specDigits [] lower w := by
  obtain ⟨h1, h2⟩ := walkFrom_empty w.length (prepWord lower w) 0 ⟨List.replicate w.length 0, 0, 0, none⟩ rfl rfl
  refine ⟨h2, ?_⟩
  unfold hyphenateWalk
  rw [h1]
  apply ext_getD _ _ w.length (by simp) (by simp [specDigits])
  intro q hq
  have : specDigitAt [] (prepWord lower w) q = 0 := specUpTo_nil _ _ _
  simp [specDigits, List.getD_eq_getElem?_getD, hq, this]

end Lou.Hyph
