/-
  Lemmas/Meta.lean — helper lemmas for LouProofs/C18.lean: the string order, sorted
  insertion, and the structure of the match loop on sorted feature lists.
-/
import LouModel.Meta

namespace Lou.Meta
open Lou.Gen.MetaConsts

/-! ### strcmp / strcasecmp as an order -/

theorem cmpStr_refl (a : Str) : cmpStr a a = .eq := by
  induction a with
  | nil => rfl
  | cons x xs ih => simp [cmpStr, ih]

theorem cmpStr_eq_iff {a b : Str} : cmpStr a b = .eq ↔ a = b := by
  induction a generalizing b with
  | nil => cases b <;> simp [cmpStr]
  | cons x xs ih =>
    cases b with
    | nil => simp [cmpStr]
    | cons y ys =>
      simp only [cmpStr]
      by_cases h1 : x < y
      · simp [h1]; omega
      · by_cases h2 : y < x
        · simp [h1, h2]; omega
        · have : x = y := by omega
          subst this
          simp [ih]

theorem cmpStr_lt_iff_gt {a b : Str} : cmpStr a b = .lt ↔ cmpStr b a = .gt := by
  induction a generalizing b with
  | nil => cases b <;> simp [cmpStr]
  | cons x xs ih =>
    cases b with
    | nil => simp [cmpStr]
    | cons y ys =>
      simp only [cmpStr]
      by_cases h1 : x < y
      · have h2 : ¬ y < x := by omega
        simp [h1, h2]
      · by_cases h2 : y < x
        · simp [h1, h2]
        · simp [h1, h2, ih]

theorem cmpStr_lt_trans {a b c : Str} (h1 : cmpStr a b = .lt) (h2 : cmpStr b c = .lt) : cmpStr a c = .lt := by
  induction a generalizing b c with
  | nil =>
    cases b with
    | nil => simp [cmpStr] at h1
    | cons y ys => cases c <;> simp_all [cmpStr]
  | cons x xs ih =>
    cases b with
    | nil => simp [cmpStr] at h1
    | cons y ys =>
      cases c with
      | nil => simp [cmpStr] at h2
      | cons z zs =>
        simp only [cmpStr] at h1 h2 ⊢
        by_cases hxy : x < y
        · by_cases hyz : y < z
          · have : x < z := by omega
            simp [this]
          · by_cases hzy : z < y
            · simp [hyz, hzy] at h2
            · have : y = z := by omega
              subst this
              simp [hxy]
        · by_cases hyx : y < x
          · simp [hxy, hyx] at h1
          · have : x = y := by omega
            subst this
            simp only [hxy, if_false] at h1
            by_cases hyz : x < z
            · simp [hyz]
            · by_cases hzy : z < x
              · simp [hyz, hzy] at h2
              · simp only [hyz, hzy, if_false] at h2 ⊢
                exact ih h1 h2

theorem cmpCI_refl (a : Str) : cmpCI a a = .eq := cmpStr_refl _

theorem cmpCI_eq_iff {a b : Str} : cmpCI a b = .eq ↔ lowerStr a = lowerStr b := cmpStr_eq_iff

theorem cmpCI_eq_symm {a b : Str} (h : cmpCI a b = .eq) : cmpCI b a = .eq :=
  cmpCI_eq_iff.2 (cmpCI_eq_iff.1 h).symm

theorem cmpCI_lt_iff_gt {a b : Str} : cmpCI a b = .lt ↔ cmpCI b a = .gt := cmpStr_lt_iff_gt

theorem cmpCI_gt_iff_lt {a b : Str} : cmpCI a b = .gt ↔ cmpCI b a = .lt := cmpStr_lt_iff_gt.symm

theorem cmpCI_lt_trans {a b c : Str} (h1 : cmpCI a b = .lt) (h2 : cmpCI b c = .lt) : cmpCI a c = .lt :=
  cmpStr_lt_trans h1 h2

/-- equal keys are interchangeable on the left -/
theorem cmpCI_congr_left {a b : Str} (h : cmpCI a b = .eq) (c : Str) : cmpCI a c = cmpCI b c := by
  unfold cmpCI; rw [cmpCI_eq_iff.1 h]

theorem cmpCI_congr_right {a b : Str} (h : cmpCI a b = .eq) (c : Str) : cmpCI c a = cmpCI c b := by
  unfold cmpCI; rw [cmpCI_eq_iff.1 h]

/-- `a ≤ b` as "not greater" -/
theorem cmpCI_le_cases {a b : Str} (h : cmpCI a b ≠ .gt) : cmpCI a b = .lt ∨ cmpCI a b = .eq := by
  cases h' : cmpCI a b <;> simp_all

theorem cmpCI_lt_of_lt_of_le {a b c : Str} (h1 : cmpCI a b = .lt) (h2 : cmpCI b c ≠ .gt) : cmpCI a c = .lt := by
  rcases cmpCI_le_cases h2 with h | h
  · exact cmpCI_lt_trans h1 h
  · rw [← cmpCI_congr_right h]; exact h1

theorem cmpCI_lt_of_le_of_lt {a b c : Str} (h1 : cmpCI a b ≠ .gt) (h2 : cmpCI b c = .lt) : cmpCI a c = .lt := by
  rcases cmpCI_le_cases h1 with h | h
  · exact cmpCI_lt_trans h h2
  · rw [cmpCI_congr_left h]; exact h2

theorem cmpCI_le_trans {a b c : Str} (h1 : cmpCI a b ≠ .gt) (h2 : cmpCI b c ≠ .gt) : cmpCI a c ≠ .gt := by
  rcases cmpCI_le_cases h1 with h | h
  · rw [cmpCI_lt_of_lt_of_le h h2]; decide
  · rw [cmpCI_congr_left h]; exact h2

/-! ### list_conj / list_sort -/

section conj
variable {α : Type} (cmp : α → α → Ordering)

theorem mem_conjSorted {x y : α} {l : List α} (h : y ∈ conjSorted cmp x l) : y = x ∨ y ∈ l := by
  induction l with
  | nil => simp [conjSorted] at h; exact Or.inl h
  | cons a t ih =>
    simp only [conjSorted] at h
    split at h
    · simp at h ⊢; rcases h with h | h | h <;> simp [h]
    · simp at h ⊢
      rcases h with h | h
      · simp [h]
      · rcases ih h with h | h <;> simp [h]
    · exact Or.inr h

theorem mem_conjSorted_of_mem {x y : α} {l : List α} (h : y ∈ l) : y ∈ conjSorted cmp x l := by
  induction l with
  | nil => cases h
  | cons a t ih =>
    simp only [conjSorted]
    split
    · simp at h ⊢; rcases h with h | h <;> simp [h]
    · simp at h ⊢
      rcases h with h | h
      · simp [h]
      · exact Or.inr (ih h)
    · exact h

theorem mem_conjSorted_self {x : α} {l : List α} (hne : ∀ a ∈ l, cmp a x ≠ .eq) : x ∈ conjSorted cmp x l := by
  induction l with
  | nil => simp [conjSorted]
  | cons a t ih =>
    simp only [conjSorted]
    split
    · simp
    · simp; exact Or.inr (ih (fun b hb => hne b (List.mem_cons_of_mem _ hb)))
    · rename_i heq; exact absurd heq (hne a (List.mem_cons_self ..))

theorem conjSorted_ne_nil (x : α) (l : List α) : conjSorted cmp x l ≠ [] := by
  cases l with
  | nil => simp [conjSorted]
  | cons a t => simp only [conjSorted]; split <;> simp

theorem pairwise_conjSorted {R : α → α → Prop} (htrans : ∀ a b c, R a b → R b c → R a c)
    (hgt : ∀ a x, cmp a x = .gt → R x a) (hlt : ∀ a x, cmp a x = .lt → R a x)
    (x : α) {l : List α} (hl : l.Pairwise R) : (conjSorted cmp x l).Pairwise R := by
  induction l with
  | nil => simp [conjSorted]
  | cons a t ih =>
    have ⟨hat, ht⟩ := List.pairwise_cons.1 hl
    simp only [conjSorted]
    split
    · rename_i h
      refine List.pairwise_cons.2 ⟨?_, hl⟩
      intro b hb
      rcases List.mem_cons.1 hb with hb | hb
      · subst hb; exact hgt _ _ h
      · exact htrans _ _ _ (hgt _ _ h) (hat b hb)
    · rename_i h
      refine List.pairwise_cons.2 ⟨?_, ih ht⟩
      intro b hb
      rcases mem_conjSorted cmp hb with hb | hb
      · subst hb; exact hlt _ _ h
      · exact hat b hb
    · exact hl

theorem mem_listSort_aux {y : α} (l acc : List α)
    (h : y ∈ l.foldl (fun acc x => conjSorted cmp x acc) acc) : y ∈ acc ∨ y ∈ l := by
  induction l generalizing acc with
  | nil => exact Or.inl h
  | cons a t ih =>
    rcases ih _ h with h | h
    · rcases mem_conjSorted cmp h with h | h
      · subst h; simp
      · exact Or.inl h
    · exact Or.inr (List.mem_cons_of_mem _ h)

theorem mem_listSort {y : α} {l : List α} (h : y ∈ listSort cmp l) : y ∈ l := by
  rcases mem_listSort_aux cmp l [] h with h | h
  · cases h
  · exact h

theorem mem_foldl_conj_of_mem_acc {y : α} (l acc : List α) (h : y ∈ acc) :
    y ∈ l.foldl (fun acc x => conjSorted cmp x acc) acc := by
  induction l generalizing acc with
  | nil => exact h
  | cons a t ih => exact ih _ (mem_conjSorted_of_mem cmp h)

/-- when no two elements compare equal nothing is dropped -/
theorem mem_listSort_aux_of_mem {y : α} (l acc : List α) (hy : y ∈ l)
    (hacc : ∀ a ∈ acc, ∀ b ∈ l, cmp a b ≠ .eq) (hl : l.Pairwise (fun a b => cmp a b ≠ .eq)) :
    y ∈ l.foldl (fun acc x => conjSorted cmp x acc) acc := by
  induction l generalizing acc with
  | nil => cases hy
  | cons a t ih =>
    have ⟨hat, ht⟩ := List.pairwise_cons.1 hl
    simp only [List.foldl_cons]
    rcases List.mem_cons.1 hy with hy | hy
    · subst hy
      apply mem_foldl_conj_of_mem_acc
      exact mem_conjSorted_self cmp (fun b hb => hacc b hb y (List.mem_cons_self ..))
    · apply ih _ hy _ ht
      intro c hc b hb
      rcases mem_conjSorted cmp hc with hc | hc
      · subst hc; exact hat b hb
      · exact hacc c hc b (List.mem_cons_of_mem _ hb)

theorem mem_listSort_of_mem {y : α} {l : List α} (hy : y ∈ l) (hl : l.Pairwise (fun a b => cmp a b ≠ .eq)) :
    y ∈ listSort cmp l :=
  mem_listSort_aux_of_mem cmp l [] hy (fun _ h => by cases h) hl

theorem pairwise_listSort {R : α → α → Prop} (htrans : ∀ a b c, R a b → R b c → R a c)
    (hgt : ∀ a x, cmp a x = .gt → R x a) (hlt : ∀ a x, cmp a x = .lt → R a x) (l : List α) :
    (listSort cmp l).Pairwise R := by
  have : ∀ (l acc : List α), acc.Pairwise R → (l.foldl (fun acc x => conjSorted cmp x acc) acc).Pairwise R := by
    intro l
    induction l with
    | nil => intro acc h; exact h
    | cons a t ih => intro acc h; exact ih _ (pairwise_conjSorted cmp htrans hgt hlt a h)
  exact this l [] List.Pairwise.nil

end conj

/-! ### sortedness of the two parsers' results -/

/-- query features: strictly increasing keys (no key twice) -/
def KeysStrictSorted (q : List Feat) : Prop := q.Pairwise (fun a b => cmpCI a.key b.key = .lt)
/-- table features: non-decreasing keys (equal keys are adjacent) -/
def KeysSorted (t : List Feat) : Prop := t.Pairwise (fun a b => cmpCI a.key b.key ≠ .gt)

instance (q : List Feat) : Decidable (KeysStrictSorted q) := by unfold KeysStrictSorted; infer_instance
instance (t : List Feat) : Decidable (KeysSorted t) := by unfold KeysSorted; infer_instance

theorem cmpFeatures_gt_key {a b : Feat} (h : cmpFeatures a b = .gt) : cmpCI b.key a.key ≠ .gt := by
  unfold cmpFeatures at h
  intro hgt
  have hlt : cmpCI a.key b.key = .lt := cmpCI_gt_iff_lt.1 hgt
  rw [hlt] at h
  simp at h

theorem cmpFeatures_lt_key {a b : Feat} (h : cmpFeatures a b = .lt) : cmpCI a.key b.key ≠ .gt := by
  unfold cmpFeatures at h
  intro hgt
  rw [hgt] at h
  simp at h

theorem listSort_cmpKeys_sorted (l : List Feat) : KeysStrictSorted (listSort cmpKeys l) :=
  pairwise_listSort cmpKeys (R := fun a b => cmpCI a.key b.key = .lt)
    (fun _ _ _ => cmpCI_lt_trans) (fun _ _ h => cmpCI_gt_iff_lt.1 h) (fun _ _ h => h) l

theorem listSort_cmpFeatures_sorted (l : List Feat) : KeysSorted (listSort cmpFeatures l) :=
  pairwise_listSort cmpFeatures (R := fun a b => cmpCI a.key b.key ≠ .gt)
    (fun _ _ _ => cmpCI_le_trans) (fun _ _ h => cmpFeatures_gt_key h) (fun _ _ h => cmpFeatures_lt_key h) l

/-! ### the two selection loops -/

theorem findLoop_some (sc : Table → Int) (l : List Table) (b : Int) (n : Str) :
    (findLoop sc l b (some n)).1 ≠ none := by
  induction l generalizing b n with
  | nil => simp [findLoop]
  | cons t ts ih =>
    simp only [findLoop]
    split
    · exact ih _ _
    · exact ih _ _

theorem findLoop_none_iff (sc : Table → Int) (l : List Table) (b : Int) :
    (findLoop sc l b none).1 = none ↔ ∀ t ∈ l, sc t ≤ b := by
  induction l generalizing b with
  | nil => simp [findLoop]
  | cons t ts ih =>
    simp only [findLoop]
    split
    · rename_i h
      constructor
      · intro h'; exact absurd h' (findLoop_some sc ts _ _)
      · intro h'; have := h' t (List.mem_cons_self ..); omega
    · rename_i h
      rw [ih]
      constructor
      · intro h' u hu
        rcases List.mem_cons.1 hu with hu | hu
        · subst hu; omega
        · exact h' u hu
      · intro h' u hu; exact h' u (List.mem_cons_of_mem _ hu)

/-- whatever `lou_findTable` answers is either what it had before or the name of a table
    of the list whose quotient exceeds the initial bound -/
theorem findLoop_result (sc : Table → Int) (l : List Table) (b : Int) (m : Option Str) (n : Str)
    (h : (findLoop sc l b m).1 = some n) : m = some n ∨ ∃ t ∈ l, t.name = n ∧ b < sc t := by
  induction l generalizing b m with
  | nil => simp [findLoop] at h; exact Or.inl h
  | cons t ts ih =>
    simp only [findLoop] at h
    split at h
    · rename_i hgt
      rcases ih _ _ h with h' | ⟨u, hu, hn, hb⟩
      · right; exact ⟨t, List.mem_cons_self .., by simpa using h', by omega⟩
      · right; exact ⟨u, List.mem_cons_of_mem _ hu, hn, by omega⟩
    · rcases ih _ _ h with h' | ⟨u, hu, hn, hb⟩
      · exact Or.inl h'
      · right; exact ⟨u, List.mem_cons_of_mem _ hu, hn, hb⟩

theorem cmpMatches_ne_eq (a b : TableMatch) : cmpMatches a b ≠ .eq := by
  unfold cmpMatches; split <;> simp

theorem mem_conjSorted_cmpMatches {x y : TableMatch} {l : List TableMatch} :
    y ∈ conjSorted cmpMatches x l ↔ y = x ∨ y ∈ l := by
  constructor
  · exact mem_conjSorted cmpMatches
  · intro h
    rcases h with h | h
    · subst h; exact mem_conjSorted_self cmpMatches (fun a _ => cmpMatches_ne_eq a y)
    · exact mem_conjSorted_of_mem cmpMatches h

theorem mem_findMatches (sc : Table → Int) (l : List Table) (ms : List TableMatch) (m : TableMatch) :
    m ∈ findMatches sc l ms ↔ m ∈ ms ∨ ∃ t ∈ l, FINDS_THRESHOLD < sc t ∧ m = ⟨t.name, sc t⟩ := by
  induction l generalizing ms with
  | nil => simp [findMatches]
  | cons t ts ih =>
    simp only [findMatches]
    split
    · rename_i h
      rw [ih, mem_conjSorted_cmpMatches]
      constructor
      · rintro ((h1 | h1) | ⟨u, hu, h2, h3⟩)
        · right; exact ⟨t, List.mem_cons_self .., by omega, h1⟩
        · exact Or.inl h1
        · right; exact ⟨u, List.mem_cons_of_mem _ hu, h2, h3⟩
      · rintro (h1 | ⟨u, hu, h2, h3⟩)
        · exact Or.inl (Or.inr h1)
        · rcases List.mem_cons.1 hu with hu | hu
          · subst hu; exact Or.inl (Or.inl h3)
          · exact Or.inr ⟨u, hu, h2, h3⟩
    · rename_i h
      rw [ih]
      constructor
      · rintro (h1 | ⟨u, hu, h2, h3⟩)
        · exact Or.inl h1
        · right; exact ⟨u, List.mem_cons_of_mem _ hu, h2, h3⟩
      · rintro (h1 | ⟨u, hu, h2, h3⟩)
        · exact Or.inl h1
        · rcases List.mem_cons.1 hu with hu | hu
          · subst hu; omega
          · exact Or.inr ⟨u, hu, h2, h3⟩

/-- a strict maximum wins wherever it stands in the list -/
theorem findLoop_strict_max (sc : Table → Int) (t : Table) (l : List Table) (b : Int) (m : Option Str)
    (hmax : ∀ u ∈ l, u = t ∨ sc u < sc t)
    (hst : (t ∈ l ∧ b < sc t) ∨ (b = sc t ∧ m = some t.name)) :
    (findLoop sc l b m).1 = some t.name := by
  induction l generalizing b m with
  | nil =>
    rcases hst with ⟨h, _⟩ | ⟨_, h⟩
    · cases h
    · simp [findLoop, h]
  | cons u us ih =>
    have hmax' : ∀ w ∈ us, w = t ∨ sc w < sc t := fun w hw => hmax w (List.mem_cons_of_mem _ hw)
    simp only [findLoop]
    split
    · rename_i hgt
      apply ih _ _ hmax'
      rcases hmax u (List.mem_cons_self ..) with hu | hu
      · subst hu; exact Or.inr ⟨rfl, rfl⟩
      · rcases hst with ⟨hin, hb⟩ | ⟨hb, _⟩
        · left
          rcases List.mem_cons.1 hin with hin | hin
          · subst hin; omega
          · exact ⟨hin, hu⟩
        · omega
    · rename_i hle
      apply ih _ _ hmax'
      rcases hst with ⟨hin, hb⟩ | hst
      · left
        rcases List.mem_cons.1 hin with hin | hin
        · subst hin; omega
        · exact ⟨hin, hb⟩
      · exact Or.inr hst

/-! ### the match quotient of sorted lists, declaratively -/

/-- the table's features that declare key `k` -/
def group (k : Str) (t : List Feat) : List Feat := t.filter (sameKey k)

/-- what one queried feature contributes: UNDEFINED when the table lacks the key, otherwise
    the best match against the values the table declares for it -/
def contrib (W : Weights) (qf : Feat) (t : List Feat) : Int :=
  match group qf.key t with
  | [] => W.undefined
  | g => bestMatch W qf g

def keyIn (q : List Feat) (k : Str) : Bool := q.any (fun qf => cmpCI qf.key k == .eq)

/-- number of distinct keys of the table that the query does not mention
    (each key is counted at its last feature) -/
def extraKeys (q : List Feat) : List Feat → Int
  | [] => 0
  | f :: t => (if keyIn q f.key || t.any (sameKey f.key) then 0 else 1) + extraKeys q t

def sumContrib (W : Weights) (q t : List Feat) : Int := (q.map (fun qf => contrib W qf t)).sum

theorem sameKey_self (f : Feat) : sameKey f.key f = true := by simp [sameKey, cmpCI_refl]

theorem sameKey_congr {k k' : Str} (h : cmpCI k k' = .eq) : sameKey k = sameKey k' := by
  funext f; simp [sameKey, cmpCI_congr_right h]

theorem keyIn_congr (q : List Feat) {k k' : Str} (h : cmpCI k k' = .eq) : keyIn q k = keyIn q k' := by
  simp [keyIn, cmpCI_congr_right h]

theorem not_sameKey_of_lt {k : Str} {g : Feat} (h : cmpCI k g.key = .lt) : sameKey k g = false := by
  have := cmpCI_lt_iff_gt.1 h
  simp [sameKey, this]

theorem not_sameKey_of_gt {k : Str} {g : Feat} (h : cmpCI k g.key = .gt) : sameKey k g = false := by
  have := cmpCI_gt_iff_lt.1 h
  simp [sameKey, this]

theorem filter_eq_takeWhile_append {α} (p : α → Bool) (l : List α) :
    l.filter p = l.takeWhile p ++ (l.dropWhile p).filter p := by
  induction l with
  | nil => rfl
  | cons a t ih =>
    by_cases h : p a
    · simp [h, ih]
    · simp [h]

theorem filter_dropWhile {α} (p r : α → Bool) (l : List α) (h : ∀ g ∈ l, p g = true → r g = false) :
    l.filter r = (l.dropWhile p).filter r := by
  induction l with
  | nil => rfl
  | cons a t ih =>
    by_cases hp : p a
    · have hr := h a (List.mem_cons_self ..) hp
      simp [hp, hr]
      exact ih (fun g hg => h g (List.mem_cons_of_mem _ hg))
    · simp [hp]

theorem KeysSorted.tail {f : Feat} {t : List Feat} (h : KeysSorted (f :: t)) : KeysSorted t :=
  (List.pairwise_cons.1 h).2

theorem KeysSorted.head_le {f : Feat} {t : List Feat} (h : KeysSorted (f :: t)) :
    ∀ g ∈ t, cmpCI f.key g.key ≠ .gt := (List.pairwise_cons.1 h).1

theorem KeysSorted.cons_tail {f g : Feat} {t : List Feat} (h : KeysSorted (f :: g :: t)) : KeysSorted (f :: t) := by
  have ⟨h1, h2⟩ := List.pairwise_cons.1 h
  exact List.pairwise_cons.2 ⟨fun a ha => h1 a (List.mem_cons_of_mem _ ha), (List.pairwise_cons.1 h2).2⟩

theorem KeysSorted.dropRun {k : Str} {t : List Feat} (h : KeysSorted t) : KeysSorted (dropRun k t) :=
  List.Pairwise.sublist (List.dropWhile_sublist _) h

/-- after the run of `f`'s key every key is strictly greater -/
theorem lt_of_mem_dropRun {f : Feat} {t : List Feat} (h : KeysSorted (f :: t)) :
    ∀ g ∈ dropRun f.key t, cmpCI f.key g.key = .lt := by
  induction t with
  | nil => intro g hg; cases hg
  | cons g0 t' ih =>
    intro g hg
    unfold dropRun at hg
    rw [List.dropWhile_cons] at hg
    split at hg
    · exact ih h.cons_tail g hg
    · rename_i hns
      have hle0 := h.head_le g0 (List.mem_cons_self ..)
      have hlt0 : cmpCI f.key g0.key = .lt := by
        rcases cmpCI_le_cases hle0 with h' | h'
        · exact h'
        · exfalso; apply hns; simp [sameKey, cmpCI_eq_symm h']
      rcases List.mem_cons.1 hg with hg | hg
      · subst hg; exact hlt0
      · exact cmpCI_lt_of_lt_of_le hlt0 (h.tail.head_le g hg)

theorem group_run {f : Feat} {t : List Feat} (h : KeysSorted (f :: t)) :
    group f.key (f :: t) = f :: takeRun f.key t := by
  unfold group takeRun
  rw [List.filter_cons, sameKey_self, if_pos rfl, filter_eq_takeWhile_append]
  have : (t.dropWhile (sameKey f.key)).filter (sameKey f.key) = [] := by
    rw [List.filter_eq_nil_iff]
    intro g hg
    simp [not_sameKey_of_lt (lt_of_mem_dropRun h g hg)]
  rw [this, List.append_nil]

/-- a key different from `f`'s sees the same features before and after `f`'s run is removed -/
theorem group_dropRun {k : Str} {f : Feat} {t : List Feat} (hk : cmpCI k f.key ≠ .eq) :
    group k (f :: t) = group k (dropRun f.key t) := by
  have hf : sameKey k f = false := by
    simp only [sameKey]
    cases h : cmpCI f.key k <;> simp
    exact hk (cmpCI_eq_symm h)
  unfold group dropRun
  rw [List.filter_cons, hf]
  simp only [Bool.false_eq_true, if_false]
  apply filter_dropWhile
  intro g _ hp
  simp only [sameKey, beq_iff_eq] at hp ⊢
  cases h : cmpCI g.key k <;> simp
  exact hk (cmpCI_eq_symm ((cmpCI_congr_left hp k).symm.trans h))

theorem extraKeys_run (q : List Feat) {f : Feat} {t : List Feat} (h : KeysSorted (f :: t)) :
    extraKeys q (f :: t) = (if keyIn q f.key then 0 else 1) + extraKeys q (dropRun f.key t) := by
  induction t generalizing f with
  | nil => simp [extraKeys, dropRun]
  | cons g t' ih =>
    by_cases hs : sameKey f.key g = true
    · have heq : cmpCI g.key f.key = .eq := by simpa [sameKey] using hs
      have hrun : dropRun f.key (g :: t') = dropRun g.key t' := by
        unfold dropRun
        rw [List.dropWhile_cons, if_pos hs, sameKey_congr (cmpCI_eq_symm heq)]
      rw [hrun, keyIn_congr q (cmpCI_eq_symm heq), ← ih h.tail]
      rw [extraKeys]
      simp [hs]
    · have hrun : dropRun f.key (g :: t') = g :: t' := by
        unfold dropRun; rw [List.dropWhile_cons, if_neg hs]
      have hall : (g :: t').any (sameKey f.key) = false := by
        rw [List.any_eq_false]
        intro a ha
        have := lt_of_mem_dropRun h a (by rw [hrun]; exact ha)
        simp [not_sameKey_of_lt this]
      rw [hrun, extraKeys, hall]
      simp

theorem extraKeys_cons_query {qf : Feat} (q : List Feat) {t : List Feat}
    (h : ∀ g ∈ t, cmpCI qf.key g.key ≠ .eq) : extraKeys (qf :: q) t = extraKeys q t := by
  induction t with
  | nil => rfl
  | cons g t' ih =>
    have hg := h g (List.mem_cons_self ..)
    have hne : (cmpCI qf.key g.key == Ordering.eq) = false := by
      cases h' : cmpCI qf.key g.key <;> simp_all
    have : keyIn (qf :: q) g.key = keyIn q g.key := by
      simp only [keyIn, List.any_cons, hne, Bool.false_or]
    rw [extraKeys, extraKeys, this, ih (fun a ha => h a (List.mem_cons_of_mem _ ha))]

theorem extraKeys_nonneg (q t : List Feat) : 0 ≤ extraKeys q t := by
  induction t with
  | nil => simp [extraKeys]
  | cons f t ih => rw [extraKeys]; split <;> omega

theorem contrib_congr (W : Weights) (qf : Feat) {t t' : List Feat} (h : group qf.key t = group qf.key t') :
    contrib W qf t = contrib W qf t' := by
  unfold contrib; rw [h]

theorem sumContrib_cons (W : Weights) (qf : Feat) (q t : List Feat) :
    sumContrib W (qf :: q) t = contrib W qf t + sumContrib W q t := by
  simp [sumContrib]

theorem sumContrib_congr (W : Weights) (q : List Feat) {t t' : List Feat}
    (h : ∀ qf ∈ q, group qf.key t = group qf.key t') : sumContrib W q t = sumContrib W q t' := by
  induction q with
  | nil => rfl
  | cons a q ih =>
    rw [sumContrib_cons, sumContrib_cons, contrib_congr W a (h a (List.mem_cons_self ..)),
      ih (fun b hb => h b (List.mem_cons_of_mem _ hb))]

/-- **the merge computes the sum of the per-key contributions** (any sufficient fuel) -/
theorem matchLoop_eq_sum (W : Weights) (n : Nat) (q t : List Feat) (hn : q.length + t.length ≤ n)
    (hq : KeysStrictSorted q) (ht : KeysSorted t) :
    matchLoop W n q t = sumContrib W q t + W.extra * extraKeys q t := by
  induction n generalizing q t with
  | zero =>
    have hq0 : q = [] := by cases q <;> simp_all
    have ht0 : t = [] := by cases t <;> simp_all
    subst hq0 ht0
    simp [matchLoop, sumContrib, extraKeys]
  | succ n ih =>
    cases q with
    | nil =>
      cases t with
      | nil => simp [matchLoop, sumContrib, extraKeys]
      | cons f t =>
        have hlen : ([] : List Feat).length + (dropRun f.key t).length ≤ n := by
          have := (List.dropWhile_sublist (sameKey f.key) (l := t)).length_le
          simp [dropRun] at hn ⊢; omega
        rw [matchLoop, ih [] _ hlen hq ht.tail.dropRun, extraKeys_run [] ht]
        simp [sumContrib, keyIn, Int.mul_add]
    | cons qf q =>
      have hq' : KeysStrictSorted q := (List.pairwise_cons.1 hq).2
      have hqlt : ∀ a ∈ q, cmpCI qf.key a.key = .lt := (List.pairwise_cons.1 hq).1
      cases t with
      | nil =>
        have hlen : q.length + ([] : List Feat).length ≤ n := by simp at hn ⊢; omega
        rw [matchLoop, ih q [] hlen hq' ht]
        simp [sumContrib, contrib, group, extraKeys]
      | cons f t =>
        have hdrop : (dropRun f.key t).length ≤ t.length :=
          (List.dropWhile_sublist (sameKey f.key) (l := t)).length_le
        rw [matchLoop]
        split
        · -- the queried key is smaller than every key of the table: UNDEFINED
          rename_i hlt
          have hlen : q.length + (f :: t).length ≤ n := by simp at hn ⊢; omega
          have hall : ∀ g ∈ f :: t, cmpCI qf.key g.key = .lt := by
            intro g hg
            rcases List.mem_cons.1 hg with hg | hg
            · subst hg; exact hlt
            · exact cmpCI_lt_of_lt_of_le hlt (ht.head_le g hg)
          have hgrp : group qf.key (f :: t) = [] := by
            unfold group; rw [List.filter_eq_nil_iff]
            intro g hg; simp [not_sameKey_of_lt (hall g hg)]
          rw [ih q (f :: t) hlen hq' ht, extraKeys_cons_query q (fun g hg => by rw [hall g hg]; decide)]
          simp only [sumContrib, List.map_cons, List.sum_cons, contrib, hgrp]
          omega
        · -- the table's key is not queried: EXTRA, skip its run
          rename_i hgt
          have hlen : (qf :: q).length + (dropRun f.key t).length ≤ n := by simp at hn ⊢; omega
          have hflt : cmpCI f.key qf.key = .lt := cmpCI_gt_iff_lt.1 hgt
          have hne : ∀ a ∈ qf :: q, cmpCI a.key f.key ≠ .eq := by
            intro a ha
            rcases List.mem_cons.1 ha with ha | ha
            · subst ha; rw [hgt]; decide
            · have := cmpCI_lt_trans hflt (hqlt a ha)
              rw [cmpCI_lt_iff_gt.1 this]; decide
          have hkin : keyIn (qf :: q) f.key = false := by
            simp only [keyIn, List.any_eq_false]
            intro a ha
            have := hne a ha
            cases h : cmpCI a.key f.key <;> simp_all
          rw [ih (qf :: q) _ hlen hq ht.tail.dropRun, extraKeys_run (qf :: q) ht, hkin,
            sumContrib_congr W (qf :: q) (t := f :: t) (t' := dropRun f.key t)
              (fun a ha => group_dropRun (hne a ha))]
          simp [Int.mul_add]
          omega
        · -- the key is declared: best match against the run, then both advance
          rename_i heq
          have hlen : q.length + (dropRun f.key t).length ≤ n := by simp at hn ⊢; omega
          have hgrp : group qf.key (f :: t) = f :: takeRun f.key t := by
            have : group qf.key (f :: t) = group f.key (f :: t) := by
              unfold group; rw [sameKey_congr heq]
            rw [this, group_run ht]
          have hne : ∀ a ∈ q, cmpCI a.key f.key ≠ .eq := by
            intro a ha
            have := hqlt a ha
            rw [cmpCI_congr_left heq] at this
            rw [cmpCI_lt_iff_gt.1 this]; decide
          have hkin : keyIn (qf :: q) f.key = true := by
            simp [keyIn, heq]
          have hx : extraKeys (qf :: q) (dropRun f.key t) = extraKeys q (dropRun f.key t) := by
            apply extraKeys_cons_query
            intro g hg
            rw [cmpCI_congr_left heq, lt_of_mem_dropRun ht g hg]; decide
          rw [ih q _ hlen hq' ht.tail.dropRun, extraKeys_run (qf :: q) ht, hkin, hx]
          have hsum : sumContrib W q (f :: t) = sumContrib W q (dropRun f.key t) :=
            sumContrib_congr W q (fun a ha => group_dropRun (hne a ha))
          simp only [sumContrib, List.map_cons, List.sum_cons, contrib, hgrp] at hsum ⊢
          rw [hsum]
          simp
          omega

end Lou.Meta
