/-
  Lemmas/Lexer.lean — refinement lemmas for the table reader: the state machines
  `getAChar` / `getALine` / `fileLines` of LouModel/Lexer.lean compute the pure functions
  `decode` / `splitLines` of the bytes.
-/
import LouModel.Lexer

namespace Lou.Lexer

/-- progress measure of the reader -/
def mu (bs : List Nat) (h : Hdr) : Nat :=
  bs.length + (if h.enc = .ascii8 ∧ h.status = 2 then 1 else 0) + (if h.enc = .noEncoding ∧ h.status = 1 then 1 else 0)

def Spec (bs : List Nat) (h : Hdr) (r : Option Nat × List Nat × Hdr) : Prop :=
  match r with
  | (none, bs', h') => remaining bs h = [] ∧ remaining bs' h' = [] ∧ h'.wf ∧ mu bs' h' ≤ mu bs h
  | (some c, bs', h') => remaining bs h = c :: remaining bs' h' ∧ h'.wf ∧ mu bs' h' < mu bs h

theorem Spec.transfer {bs bs0 : List Nat} {h h0 : Hdr} {r} (hs : Spec bs h r)
    (hr : remaining bs0 h0 = remaining bs h) (hm : mu bs h ≤ mu bs0 h0) : Spec bs0 h0 r := by
  obtain ⟨o, bs', h'⟩ := r
  cases o with
  | none => exact ⟨hr ▸ hs.1, hs.2.1, hs.2.2.1, Nat.le_trans hs.2.2.2 hm⟩
  | some c => exact ⟨hr ▸ hs.1, hs.2.1, Nat.lt_of_lt_of_le hs.2.2 hm⟩

theorem getACharLoop_spec (bs : List Nat) : ∀ (h : Hdr), h.wf → ¬(h.enc = .ascii8 ∧ h.status = 2) →
    Spec bs h (getACharLoop bs h) := by
  induction bs with
  | nil =>
    intro h hw hn
    obtain ⟨enc, status, ce0, ce1, errs⟩ := h
    simp only [getACharLoop, Spec]
    cases enc
    · refine ⟨?_, ?_, hw, Nat.le_refl _⟩ <;> simp [remaining, decode] <;> intros <;> split <;> rfl
    · refine ⟨?_, ?_, hw, Nat.le_refl _⟩ <;> simp [remaining, pairsBE]
    · refine ⟨?_, ?_, hw, Nat.le_refl _⟩ <;> simp [remaining, pairsLE]
    · have : status ≠ 2 := fun h2 => hn ⟨rfl, h2⟩
      refine ⟨?_, ?_, hw, Nat.le_refl _⟩ <;> simp [remaining, this]
  | cons ch1 bs ih =>
    intro h hw hn
    obtain ⟨enc, status, ce0, ce1, errs⟩ := h
    cases enc
    · -- noEncoding
      match status with
      | 0 =>
        have := ih ⟨.noEncoding, 1, ch1, ce1, errs⟩ (Or.inl rfl) (by simp)
        simp only [getACharLoop]
        simp
        exact this.transfer (by simp [remaining]) (by simp [mu])
      | 1 =>
        simp only [getACharLoop]
        simp
        by_cases hbe : ce0 = 254 ∧ ch1 = 255
        · rw [if_pos hbe]
          exact (ih ⟨.bigEndian, 2, ce0, ch1, errs⟩ (Or.inr (Nat.le_refl _)) (by simp)).transfer
            (by simp [remaining, decode, hbe]) (by simp [mu]; omega)
        · rw [if_neg hbe]
          by_cases hle : ce0 = 255 ∧ ch1 = 254
          · rw [if_pos hle]
            exact (ih ⟨.littleEndian, 2, ce0, ch1, errs⟩ (Or.inr (Nat.le_refl _)) (by simp)).transfer
              (by simp [remaining, decode, hle]) (by simp [mu]; omega)
          · rw [if_neg hle]
            by_cases ha : ce0 < 128 ∧ ch1 < 128
            · rw [if_pos ha]
              refine ⟨?_, Or.inr (Nat.le_refl _), ?_⟩
              · simp [remaining, decode, hbe, hle, ha]
              · simp [mu]
            · rw [if_neg ha]
              refine ⟨?_, ?_, Or.inl rfl, ?_⟩
              · simp [remaining, decode, hbe, hle, ha]
              · simp [remaining]
              · simp [mu]; omega
      | n + 2 =>
        simp only [getACharLoop]
        simp
        exact (ih ⟨.noEncoding, n + 2 + 1, ce0, ce1, errs⟩ (Or.inl rfl) (by simp)).transfer
          (by simp [remaining]) (by simp [mu])
    · -- bigEndian
      have h2 : 2 ≤ status := by cases hw with | inl h => cases h | inr h => exact h
      have hs : ¬ status + 1 = 2 := by omega
      have h0 : status ≠ 0 := by omega
      have h1 : status ≠ 1 := by omega
      simp only [getACharLoop]
      simp [hs, h0, h1]
      cases bs with
      | nil => simp [Spec, remaining, pairsBE, Hdr.wf, mu]; omega
      | cons ch2 bs' => simp [Spec, remaining, pairsBE, Hdr.wf, mu]; omega
    · have h2 : 2 ≤ status := by cases hw with | inl h => cases h | inr h => exact h
      have hs : ¬ status + 1 = 2 := by omega
      have h0 : status ≠ 0 := by omega
      have h1 : status ≠ 1 := by omega
      simp only [getACharLoop]
      simp [hs, h0, h1]
      cases bs with
      | nil => simp [Spec, remaining, pairsLE, Hdr.wf, mu]; omega
      | cons ch2 bs' => simp [Spec, remaining, pairsLE, Hdr.wf, mu]; omega
    · have h2 : 2 ≤ status := by cases hw with | inl h => cases h | inr h => exact h
      have h3 : status ≠ 2 := fun h2 => hn ⟨rfl, h2⟩
      have hs : ¬ status + 1 = 2 := by omega
      have h0 : status ≠ 0 := by omega
      have h1 : status ≠ 1 := by omega
      simp only [getACharLoop]
      simp [hs, h0, h1]
      simp [Spec, remaining, Hdr.wf, mu, h3, hs]; omega

theorem getAChar_spec (bs : List Nat) (h : Hdr) (hw : h.wf) : Spec bs h (getAChar bs h) := by
  unfold getAChar
  by_cases hp : h.enc = .ascii8 ∧ h.status = 2
  · rw [if_pos hp]
    obtain ⟨enc, status, ce0, ce1, errs⟩ := h
    obtain ⟨he, hs⟩ := hp
    simp only at he hs
    subst he hs
    simp [Spec, remaining, Hdr.wf, mu]
  · rw [if_neg hp]
    exact getACharLoop_spec bs h hw hp

theorem wf_init : ({} : Hdr).wf := Or.inl rfl

theorem remaining_init (bs : List Nat) : remaining bs {} = decode bs := by
  simp [remaining]

theorem mu_init (bs : List Nat) : mu bs {} = bs.length := by
  simp [mu]

/-! ### lou_readCharFromFile -/

theorem readCharsLoop_spec : ∀ (f : Nat) (bs : List Nat) (h : Hdr) (acc : List Nat), h.wf → mu bs h < f →
    (readCharsLoop f bs h acc).1 = acc ++ remaining bs h := by
  intro f
  induction f with
  | zero => intro bs h acc _ hf; omega
  | succ f ih =>
    intro bs h acc hw hf
    have hs := getAChar_spec bs h hw
    unfold readCharsLoop
    generalize getAChar bs h = r at hs
    obtain ⟨o, bs', h'⟩ := r
    cases o with
    | none => simp [Spec] at hs; simp [hs.1]
    | some c =>
      simp only [Spec] at hs
      simp only
      rw [ih bs' h' _ hs.2.1 (by omega), hs.1]
      simp

theorem readChars_eq_decode (bs : List Nat) : (readChars bs).1 = decode bs := by
  unfold readChars
  rw [readCharsLoop_spec _ bs {} [] wf_init (by rw [mu_init]; omega), remaining_init]
  simp

/-! ### _lou_getALine -/

/-- one line of a character stream: (hit the end, line, characters left) -/
def takeLine : List Nat → List Nat → Bool × List Nat × List Nat
  | [], cur => (true, cur, [])
  | c :: cs, cur =>
    if c = 13 then takeLine cs cur
    else if c = 10 ∨ MAXSTRING - 1 ≤ cur.length then (false, cur, cs)
    else takeLine cs (cur ++ [c])

theorem getALineLoop_spec : ∀ (f : Nat) (bs : List Nat) (h : Hdr) (line : List Nat), h.wf → mu bs h < f →
    match getALineLoop f bs h line with
    | (e, l, bs', h') =>
      takeLine (remaining bs h) line = (e, l, remaining bs' h') ∧ h'.wf ∧ mu bs' h' ≤ mu bs h ∧
      ((e = false ∨ line.length < l.length) → mu bs' h' < mu bs h) ∧ line.length ≤ l.length := by
  intro f
  induction f with
  | zero => intro bs h line _ hf; omega
  | succ f ih =>
    intro bs h line hw hf
    have hs := getAChar_spec bs h hw
    unfold getALineLoop
    generalize getAChar bs h = r at hs
    obtain ⟨o, bs', h'⟩ := r
    cases o with
    | none =>
      simp only [Spec] at hs
      simp only [hs.1, hs.2.1, takeLine, true_and]
      exact ⟨hs.2.2.1, hs.2.2.2, by simp, Nat.le_refl _⟩
    | some c =>
      simp only [Spec] at hs
      simp only [hs.1, takeLine]
      by_cases h13 : c = 13
      · rw [if_pos h13, if_pos h13]
        have := ih bs' h' line hs.2.1 (by omega)
        generalize getALineLoop f bs' h' line = r at this
        obtain ⟨e, l, bs'', h''⟩ := r
        simp only at this ⊢
        exact ⟨this.1, this.2.1, by omega, fun _ => by omega, this.2.2.2.2⟩
      · rw [if_neg h13, if_neg h13]
        by_cases hb : c = 10 ∨ MAXSTRING - 1 ≤ line.length
        · rw [if_pos hb, if_pos hb]
          dsimp only
          exact ⟨rfl, hs.2.1, by omega, fun _ => hs.2.2, Nat.le_refl _⟩
        · rw [if_neg hb, if_neg hb]
          have := ih bs' h' (line ++ [c]) hs.2.1 (by omega)
          generalize getALineLoop f bs' h' (line ++ [c]) = r at this
          obtain ⟨e, l, bs'', h''⟩ := r
          simp only at this ⊢
          have hl := this.2.2.2.2
          simp at hl
          exact ⟨this.1, this.2.1, by omega, fun _ => by omega, by omega⟩

/-- _lou_getALine in terms of the character stream -/
theorem getALine_spec (bs : List Nat) (h : Hdr) (hw : h.wf) :
    match getALine bs h with
    | (ret, l, bs', h') =>
      (∃ e, takeLine (remaining bs h) [] = (e, l, remaining bs' h') ∧ ret = !(e && l.isEmpty)) ∧ h'.wf ∧
      mu bs' h' ≤ mu bs h ∧ (ret = true → mu bs' h' < mu bs h) := by
  have := getALineLoop_spec (bs.length + 2) bs h [] hw (by unfold mu; split <;> split <;> omega)
  unfold getALine
  generalize getALineLoop (bs.length + 2) bs h [] = r at this
  obtain ⟨e, l, bs', h'⟩ := r
  simp only at this ⊢
  refine ⟨⟨e, this.1, rfl⟩, this.2.1, this.2.2.1, ?_⟩
  intro hr
  apply this.2.2.2.1
  cases e with
  | false => exact Or.inl rfl
  | true =>
    right
    cases l with
    | nil => simp at hr
    | cons a l => simp

theorem splitLines_takeLine : ∀ (cs cur : List Nat),
    splitLines cs cur =
      match takeLine cs cur with
      | (true, l, _) => if l.isEmpty then [] else [l]
      | (false, l, rest) => l :: splitLines rest [] := by
  intro cs
  induction cs with
  | nil => intro cur; simp [splitLines, takeLine]
  | cons c cs ih =>
    intro cur
    rw [splitLines, takeLine]
    by_cases h13 : c = 13
    · rw [if_pos h13, if_pos h13]; exact ih cur
    · rw [if_neg h13, if_neg h13]
      by_cases hb : c = 10 ∨ MAXSTRING - 1 ≤ cur.length
      · rw [if_pos hb, if_pos hb]
      · rw [if_neg hb, if_neg hb]; exact ih _

theorem takeLine_rest_nil : ∀ (cs cur : List Nat) (l rest : List Nat), takeLine cs cur = (true, l, rest) → rest = [] := by
  intro cs
  induction cs with
  | nil => intro cur l rest h; simp [takeLine] at h; exact h.2
  | cons c cs ih =>
    intro cur l rest h
    rw [takeLine] at h
    by_cases h13 : c = 13
    · rw [if_pos h13] at h; exact ih _ _ _ h
    · rw [if_neg h13] at h
      by_cases hb : c = 10 ∨ MAXSTRING - 1 ≤ cur.length
      · rw [if_pos hb] at h; simp at h
      · rw [if_neg hb] at h; exact ih _ _ _ h

theorem fileLinesLoop_spec : ∀ (f : Nat) (bs : List Nat) (h : Hdr) (acc : List (List Nat)), h.wf → mu bs h < f →
    (fileLinesLoop f bs h acc).1 = acc ++ splitLines (remaining bs h) [] := by
  intro f
  induction f with
  | zero => intro bs h acc _ hf; omega
  | succ f ih =>
    intro bs h acc hw hf
    have hs := getALine_spec bs h hw
    unfold fileLinesLoop
    generalize getALine bs h = r at hs
    obtain ⟨ret, l, bs', h'⟩ := r
    simp only at hs
    obtain ⟨⟨e, htl, hret⟩, hw', hle, hlt⟩ := hs
    rw [splitLines_takeLine, htl]
    cases ret with
    | false =>
      have : e = true ∧ l.isEmpty = true := by
        cases e <;> cases hl : l.isEmpty <;> simp [hl] at hret ⊢
      simp [this.1, this.2]
    | true =>
      simp only
      rw [ih bs' h' _ hw' (by have := hlt rfl; omega)]
      cases e with
      | false => simp
      | true =>
        have hne : l.isEmpty = false := by
          cases hl : l.isEmpty <;> simp [hl] at hret ⊢
        have hr := takeLine_rest_nil _ _ _ _ htl
        simp [hne, hr, splitLines]

/-- the lines compileFile sees are a function of the character stream -/
theorem fileLines_eq (bs : List Nat) : (fileLines bs).1 = splitLines (decode bs) [] := by
  unfold fileLines
  rw [fileLinesLoop_spec _ bs {} [] wf_init (by rw [mu_init]; omega), remaining_init]
  simp

/-! ### small list facts (not in core) -/

theorem dropWhile_head_false {α : Type} (p : α → Bool) : ∀ (l : List α) (c : α) (r : List α),
    l.dropWhile p = c :: r → p c = false := by
  intro l
  induction l with
  | nil => intro c r h; simp at h
  | cons a l ih =>
    intro c r h
    rw [List.dropWhile_cons] at h
    by_cases hp : p a = true
    · rw [if_pos hp] at h; exact ih c r h
    · rw [if_neg hp] at h
      injection h with h1 _
      subst h1; simpa using hp

theorem takeWhile_length_le {α : Type} (p : α → Bool) : ∀ (l : List α), (l.takeWhile p).length ≤ l.length := by
  intro l
  induction l with
  | nil => simp
  | cons a l ih => rw [List.takeWhile_cons]; split <;> simp <;> omega

theorem dropWhile_length_le {α : Type} (p : α → Bool) : ∀ (l : List α), (l.dropWhile p).length ≤ l.length := by
  intro l
  induction l with
  | nil => simp
  | cons a l ih => rw [List.dropWhile_cons]; split <;> simp <;> omega

theorem takeWhile_all {α : Type} (p : α → Bool) : ∀ (l : List α), ∀ x ∈ l.takeWhile p, p x = true := by
  intro l
  induction l with
  | nil => intro x hx; simp at hx
  | cons a l ih =>
    intro x hx
    rw [List.takeWhile_cons] at hx
    by_cases hp : p a = true
    · rw [if_pos hp] at hx
      cases hx with
      | head => exact hp
      | tail _ h => exact ih x h
    · rw [if_neg hp] at hx; simp at hx

/-! ### tokens -/

theorem tokens_skip_ws : ∀ (ws r : List Nat), (∀ c ∈ ws, c ≤ 32) → tokens (ws ++ r) [] = tokens r [] := by
  intro ws
  induction ws with
  | nil => intro r _; rfl
  | cons c ws ih =>
    intro r h
    rw [List.cons_append, tokens.eq_2, if_pos (h c (by simp))]
    simpa using ih r (fun x hx => h x (by simp [hx]))

theorem tokens_take_word : ∀ (a r cur : List Nat), (∀ c ∈ a, 32 < c) → tokens (a ++ r) cur = tokens r (cur ++ a) := by
  intro a
  induction a with
  | nil => intro r cur _; simp
  | cons c a ih =>
    intro r cur h
    have hc := h c (by simp)
    rw [List.cons_append, tokens.eq_2, if_neg (by omega), ih r _ (fun x hx => h x (by simp [hx]))]
    simp

/-- the getToken loop and the specification-level token list agree: the first call yields the first
    token, and the tokens of the rest of the line are the remaining ones -/
theorem getToken_tokens (l : List Nat) (hl : l.length < MAXSTRING) :
    match getToken l with
    | .none => tokens l [] = []
    | .tok t r => t ≠ [] ∧ t.length < MAXSTRING ∧ tokens l [] = t :: tokens r [] ∧ r.length < l.length
    | _ => False := by
  have hsplit : l = l.takeWhile (· ≤ 32) ++ l.dropWhile (· ≤ 32) := (List.takeWhile_append_dropWhile).symm
  have hws : ∀ c ∈ l.takeWhile (· ≤ 32), c ≤ 32 := fun c hc => by simpa using takeWhile_all _ l c hc
  have h1len := dropWhile_length_le (· ≤ 32) l
  generalize hl1 : l.dropWhile (· ≤ 32) = l1 at hsplit h1len
  have hsplit1 : l1 = l1.takeWhile (32 < ·) ++ l1.dropWhile (32 < ·) := (List.takeWhile_append_dropWhile).symm
  have ht : ∀ c ∈ l1.takeWhile (32 < ·), 32 < c := fun c hc => by simpa using takeWhile_all _ l1 c hc
  have htlen := takeWhile_length_le (32 < ·) l1
  have hrlen := dropWhile_length_le (32 < ·) l1
  have htok : tokens l [] = tokens (l1.dropWhile (32 < ·)) (l1.takeWhile (32 < ·)) := by
    rw [hsplit, tokens_skip_ws _ _ hws]
    conv => lhs; rw [hsplit1]
    rw [tokens_take_word _ _ _ ht]; simp
  unfold getToken
  simp only [hl1]
  rw [if_neg (by omega)]
  cases hte : l1.takeWhile (32 < ·) with
  | nil =>
    simp only [List.isEmpty_nil, if_true]
    -- l1 is empty: its head would be > 32
    cases hl1' : l1 with
    | nil => rw [htok, hl1']; simp [tokens]
    | cons c r =>
      have := dropWhile_head_false (· ≤ 32) l c r (by rw [hl1, hl1'])
      rw [hl1', List.takeWhile_cons] at hte
      simp at this
      simp [this] at hte
  | cons c t =>
    simp only [List.isEmpty_cons, Bool.false_eq_true, if_false]
    rw [hte] at htlen
    rw [if_neg (by omega)]
    refine ⟨by simp, by omega, ?_, ?_⟩
    · rw [htok, hte]
      cases hr : l1.dropWhile (32 < ·) with
      | nil => simp [tokens]
      | cons d r =>
        have hd := dropWhile_head_false (32 < ·) l1 d r hr
        simp at hd
        rw [tokens.eq_2, if_pos hd]
        simp only [List.isEmpty_cons, Bool.false_eq_true, if_false]
        congr 1
        have hsp : (d :: r) = (d :: r).takeWhile (· ≤ 32) ++ (d :: r).dropWhile (· ≤ 32) :=
          (List.takeWhile_append_dropWhile).symm
        have hws2 : ∀ c ∈ (d :: r).takeWhile (· ≤ 32), c ≤ 32 := fun c hc => by simpa using takeWhile_all _ _ c hc
        have := tokens_skip_ws _ ((d :: r).dropWhile (· ≤ 32)) hws2
        rw [← hsp, tokens.eq_2, if_pos hd] at this
        simpa using this
    · have h2 := dropWhile_length_le (· ≤ 32) (l1.dropWhile (32 < ·))
      have h3 := congrArg List.length hsplit1
      rw [List.length_append, hte] at h3
      simp only [List.length_cons] at h3 htlen
      omega

end Lou.Lexer
