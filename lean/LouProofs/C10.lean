/-
  C10 — optional output arguments do not perturb the translation (driver part).

  * `optargs_arrays`    : presence of outputPos / inputPos never reaches the engines, and
                          (ret, inlen', outlen', outbuf) do not depend on it — any engine
  * `optargs_typeform`  : typeform NULL ≡ all-zero typeform — any engine
  * `optargs_spacing`   : spacing NULL ≡ spacing supplied, for engines whose emitted cells do not
                          depend on the spacing array (E7, `SpacingBlind`)
  * `optargs_cursor`    : cursorPos NULL ≡ cursorPos supplied, for engines whose emitted cells,
                          map and consumed length do not depend on the cursor fields (E6,
                          `CursorBlind`; only claimed for modes without compbrl bits)
  * `wrapper_string`    : lou_translateString = lou_translate with the three arrays NULL
  E6/E7 are theorems for the Layer B engines and are checked on every shipped table by
  cross-pattern equality of the H4 traces (tools/lv/props/C10.py).
-/
import LouModel.Driver
import LouProofs.C07

namespace Lou.C10
open Lou Lou.Drv

/-- the four result fields the property speaks about -/
def core (r : Result) : Nat × Int × Int × List Nat := (r.ret, r.inlen, r.outlen, r.outbuf)

/-! ### position arrays -/

theorem fwdRun_arrays (t : TableInfo) (e : Engine) (a : Args) (x y : Bool) :
    fwdRun t e { a with wantOutputPos := x, wantInputPos := y } = fwdRun t e a := by
  unfold fwdRun initFwd fwdCursorInit; rfl

theorem fwdFinish_core (disp : Nat → Nat) (a b : Args) (s s' : FwdState)
    (hm : a.mode = b.mode) (hin : a.inbuf = b.inbuf) (hout : a.outlen = b.outlen)
    (ho : s.output = s'.output) (hp : s.posMapping = s'.posMapping) :
    core (fwdFinish disp a s) = core (fwdFinish disp b s') := by
  unfold core fwdFinish failResult
  simp only [hm, ho, hp, hin, hout]
  split <;> rfl

/-- **optargs_arrays** -/
theorem optargs_arrays (tbl : Option TableInfo) (disp : Nat → Nat) (e : Engine) (a : Args) (x y : Bool) :
    core (fwd tbl disp e { a with wantOutputPos := x, wantInputPos := y }) = core (fwd tbl disp e a) := by
  cases tbl with
  | none => simp [fwd, core, failResult]
  | some t =>
    simp only [fwd]
    rw [fwdRun_arrays]
    exact fwdFinish_core disp _ _ _ _ rfl rfl rfl rfl rfl

/-! ### typeform -/

theorem initFwd_typeform_zero (a : Args) (input : List Nat) (n : Nat) (_hn : input.length ≤ n) :
    initFwd { a with typeform := some (List.replicate n 0) } input = initFwd { a with typeform := none } input := by
  unfold initFwd
  have : ((List.range input.length).map fun k => (List.replicate n 0).getD k 0) = List.replicate input.length 0 := by
    apply List.ext_getElem
    · simp
    · intro i h1 h2
      simp only [List.getElem_map, List.getElem_range, List.getElem_replicate]
      simp at h1
      rw [List.getD_eq_getElem?_getD, List.getElem?_replicate]
      split <;> rfl
  simp only [this]

/-- **optargs_typeform**: an all-zero typeform array and NULL give the same translation -/
theorem optargs_typeform (tbl : Option TableInfo) (disp : Nat → Nat) (e : Engine) (a : Args) (n : Nat)
    (hn : a.inbuf.length ≤ n) :
    core (fwd tbl disp e { a with typeform := some (List.replicate n 0) }) =
    core (fwd tbl disp e { a with typeform := none }) := by
  cases tbl with
  | none => simp [fwd, core, failResult]
  | some t =>
    simp only [fwd]
    have hrun : fwdRun t e { a with typeform := some (List.replicate n 0) } = fwdRun t e { a with typeform := none } := by
      unfold fwdRun
      dsimp only
      rw [initFwd_typeform_zero a (cutAtNul a.inbuf) n
        (Nat.le_trans (by unfold cutAtNul; exact (List.takeWhile_sublist _).length_le) hn)]
      rfl
    rw [hrun]
    exact fwdFinish_core disp _ _ _ _ rfl rfl rfl rfl rfl

/-! ### spacing (E7) -/

/-- the engine's result does not depend on the spacing array -/
def SpacingBlind (e : Engine) : Prop :=
  ∀ (i : EngInit) (sp : Option (List Nat)) hist pin, e { i with srcSpacing := sp } hist pin = e i hist pin

theorem optargs_spacing (tbl : Option TableInfo) (disp : Nat → Nat) (e : Engine) (a : Args)
    (hb : SpacingBlind e) (sp : Option (List Nat)) :
    core (fwd tbl disp e { a with spacing := sp }) = core (fwd tbl disp e { a with spacing := none }) := by
  cases tbl with
  | none => simp [fwd, core, failResult]
  | some t =>
    simp only [fwd]
    have hrun : fwdRun t e { a with spacing := sp } = fwdRun t e { a with spacing := none } := by
      unfold fwdRun
      dsimp only
      have hstep : fwdStep e (initFwd { a with spacing := sp } (cutAtNul a.inbuf)) a.outlen =
                   fwdStep e (initFwd { a with spacing := none } (cutAtNul a.inbuf)) a.outlen := by
        funext s p
        unfold fwdStep
        have h1 := hb (initFwd { a with spacing := none } (cutAtNul a.inbuf))
          (initFwd { a with spacing := sp } (cutAtNul a.inbuf)).srcSpacing
        have hini : { initFwd { a with spacing := none } (cutAtNul a.inbuf) with
            srcSpacing := (initFwd { a with spacing := sp } (cutAtNul a.inbuf)).srcSpacing } =
            initFwd { a with spacing := sp } (cutAtNul a.inbuf) := by
          unfold initFwd; rfl
        rw [hini] at h1
        simp only [h1]
      rw [hstep]; rfl
    rw [hrun]
    exact fwdFinish_core disp _ _ _ _ rfl rfl rfl rfl rfl

/-! ### cursor (E6) -/

def erIn (p : PassIn) : PassIn := { p with cpos := 0, cstat := 0 }
def erOut (p : PassOut) : PassOut := { p with cpos := 0, cstat := 0 }
def erHist (h : List (PassIn × PassOut)) : List (PassIn × PassOut) := h.map fun x => (erIn x.1, erOut x.2)

/-- what a pass emits, maps and consumes does not depend on the cursor fields (now or earlier) -/
def CursorBlind (e : Engine) : Prop :=
  ∀ ini h1 h2 p1 p2, erHist h1 = erHist h2 → erIn p1 = erIn p2 → erOut (e ini h1 p1) = erOut (e ini h2 p2)

/-- two driver states that agree except for the cursor fields -/
structure CurEq (s s' : FwdState) : Prop where
  input : s.input = s'.input
  pm : s.posMapping = s'.posMapping
  output : s.output = s'.output
  first : s.first = s'.first
  hist : erHist s.hist = erHist s'.hist

theorem fwdStep_curEq (e : Engine) (ini : EngInit) (cap : Nat) (s s' : FwdState) (p : Nat)
    (hb : CursorBlind e) (h : CurEq s s') : CurEq (fwdStep e ini cap s p) (fwdStep e ini cap s' p) := by
  have hin : (if s.first = true then s.input else s.output) = (if s'.first = true then s'.input else s'.output) := by
    rw [h.first, h.input, h.output]
  have hk := hb ini s.hist s'.hist
    { passNo := p, chars := if s.first = true then s.input else s.output, maxlen := cap, cpos := s.cpos, cstat := s.cstat }
    { passNo := p, chars := if s'.first = true then s'.input else s'.output, maxlen := cap, cpos := s'.cpos, cstat := s'.cstat }
    h.hist (by simp [erIn, hin])
  have hout : ∀ (x y : PassOut), erOut x = erOut y → x.out = y.out ∧ x.map = y.map ∧ x.realInlen = y.realInlen := by
    intro x y hxy
    simp only [erOut, PassOut.mk.injEq] at hxy
    exact ⟨hxy.1, hxy.2.1, hxy.2.2.1⟩
  obtain ⟨ho, hm, hr⟩ := hout _ _ hk
  unfold fwdStep
  refine ⟨?_, ?_, ?_, rfl, ?_⟩
  · dsimp only; exact hin
  · dsimp only; rw [hm, hr, h.pm, h.first]
  · dsimp only; exact ho
  · dsimp only
    simp only [erHist, List.map_append, List.map_cons, List.map_nil]
    have := h.hist
    simp only [erHist] at this
    rw [this]
    congr 1
    congr 1
    refine Prod.ext ?_ ?_
    · simp [erIn, hin]
    · exact hk

theorem foldl_curEq (e : Engine) (ini : EngInit) (cap : Nat) (hb : CursorBlind e) :
    ∀ (ps : List Nat) (s s' : FwdState), CurEq s s' →
      CurEq (ps.foldl (fwdStep e ini cap) s) (ps.foldl (fwdStep e ini cap) s') := by
  intro ps
  induction ps with
  | nil => intro s s' h; exact h
  | cons p ps ih => intro s s' h; exact ih _ _ (fwdStep_curEq e ini cap s s' p hb h)

/-- **optargs_cursor**: passing NULL for cursorPos does not change the return value, the
    consumed and produced lengths or the output text -/
theorem optargs_cursor (tbl : Option TableInfo) (disp : Nat → Nat) (e : Engine) (a : Args)
    (hb : CursorBlind e) (c : Option Int) :
    core (fwd tbl disp e { a with cursor := c }) = core (fwd tbl disp e { a with cursor := none }) := by
  cases tbl with
  | none => simp [fwd, core, failResult]
  | some t =>
    simp only [fwd]
    have hce : CurEq (fwdRun t e { a with cursor := c }) (fwdRun t e { a with cursor := none }) := by
      unfold fwdRun
      dsimp only
      have hini : initFwd { a with cursor := c } (cutAtNul a.inbuf) = initFwd { a with cursor := none } (cutAtNul a.inbuf) := by
        unfold initFwd; rfl
      rw [hini]
      apply foldl_curEq e _ _ hb
      exact ⟨rfl, rfl, rfl, rfl, rfl⟩
    exact fwdFinish_core disp _ _ _ _ rfl rfl rfl hce.output hce.pm

/-! ### wrappers -/

/-- `lou_translateString` (lou_translateString.c:1119-1123) -/
def translateString (tbl : Option TableInfo) (disp : Nat → Nat) (e : Engine) (a : Args) : Result :=
  fwd tbl disp e { a with wantOutputPos := false, wantInputPos := false, cursor := none }

/-- **wrapper_string**: for cursor-blind engines the string wrapper agrees with the positional
    function on everything both return -/
theorem wrapper_string (tbl : Option TableInfo) (disp : Nat → Nat) (e : Engine) (a : Args)
    (hb : CursorBlind e) :
    core (translateString tbl disp e a) = core (fwd tbl disp e a) := by
  unfold translateString
  have h1 : core (fwd tbl disp e { a with wantOutputPos := false, wantInputPos := false, cursor := none }) =
      core (fwd tbl disp e { a with cursor := none }) :=
    optargs_arrays tbl disp e { a with cursor := none } false false
  have h2 : core (fwd tbl disp e { a with cursor := a.cursor }) = core (fwd tbl disp e { a with cursor := none }) :=
    optargs_cursor tbl disp e a hb a.cursor
  rw [h1, ← h2]

/-- non-vacuity: the identity engine is cursor- and spacing-blind -/
def idEngine : Engine := fun _ _ pin =>
  { out := pin.chars.take pin.maxlen,
    map := (List.range (pin.chars.take pin.maxlen).length).map (fun (i : Nat) => (i : Int)),
    realInlen := (pin.chars.take pin.maxlen).length, cpos := pin.cpos, cstat := pin.cstat }

theorem idEngine_blind : CursorBlind idEngine ∧ SpacingBlind idEngine := by
  constructor
  · intro ini h1 h2 p1 p2 _ hp
    simp only [erIn, PassIn.mk.injEq] at hp
    simp [idEngine, erOut, hp.2.1, hp.2.2.1]
  · intro i sp hist pin; rfl

end Lou.C10
