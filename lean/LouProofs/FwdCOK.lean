/-
  FwdCOK.lean — the forward main pass with context rules (`FwdC.translateC`) satisfies the engine contract E1–E4 for
  every table, mode, input, capacity and cursor (and whatever the pass variables hold).
-/
import LouModel.ForwardCtx
import LouProofs.FwdOK
import LouProofs.C06Pass

namespace Lou.FwdCOK
open Lou Lou.Gen Lou.Fwd Lou.FwdC Lou.FwdOK Lou.Pass Lou.C06Pass

theorem copyChars_ok (t : Table) (mode : Nat) (input : List Nat) (max : Nat) :
    ∀ (k : Nat) (frm to : Int) (o : Out), OutOK input.length max o →
      Grow input.length max o (copyChars t mode input max k frm to o).1 := by
  intro k
  induction k with
  | zero => intro frm to o ho; exact ⟨by simpa [copyChars] using ho, by simp [copyChars]⟩
  | succ k ih =>
    intro frm to o ho
    unfold copyChars
    split
    · cases hp : putCharacter t mode (Pass.elem input frm) frm.toNat input max o with
      | none => exact ⟨by simpa using ho, by simp⟩
      | some o' =>
        simp only []
        have h1 := putCharacter_ok _ _ _ _ _ _ _ _ ho hp
        have h2 := ih (frm + 1) to o' h1.1
        exact ⟨h2.1, Nat.le_trans h1.2 h2.2⟩
    · exact ⟨by simpa using ho, by simp⟩

def ActCOK (n max : Nat) (m : Pass.Match) : ActC → Prop
  | .unsupported => True
  | .fail o' _ => OutOK n max o'
  | .ok o' np' _ => OutOK n max o' ∧ (np' = m.endReplace ∨ np' = m.endMatch)

theorem outOK_of_acc (n max : Nat) (o : Out) (a : Acc) (h : AccOK n max a) :
    OutOK n max { o with cells := a.out, map := a.map } := h

theorem actLoopC_ok (t : Table) (mode : Nat) (p input : List Nat) (m : Pass.Match) (max dsm : Nat) (sm : Int)
    (hm : MatchOK input.length sm m) (hsm : 0 ≤ sm) :
    ∀ (fuel ic : Nat) (o : Out) (dsr : Nat) (np : Int) (vars : List Nat),
      OutOK input.length max o → dsm ≤ dsr → dsr ≤ o.cells.length → (np = m.endReplace ∨ np = m.endMatch) →
      ActCOK input.length max m (actLoopC t mode p input m max dsm fuel ic o dsr np vars) := by
  obtain ⟨hm0, hm1, hm2, hm3, hm4, hm5⟩ := hm
  intro fuel
  induction fuel with
  | zero => intro ic o dsr np vars _ _ _ _; simp [actLoopC, ActCOK]
  | succ f ih =>
    intro ic o dsr np vars ho h1 h2 hnp
    unfold actLoopC
    by_cases hend : ic ≥ p.length
    · simp only [hend, ↓reduceIte]; exact ⟨ho, hnp⟩
    · simp only [hend, ↓reduceIte]
      by_cases hlit : (Pass.ins p ic == pass_string || Pass.ins p ic == pass_dots) = true
      · simp only [hlit, ↓reduceIte]
        by_cases hcap : o.cells.length + Pass.ins p (ic + 1) > max
        · simp only [hcap, ↓reduceIte]; exact ho
        · simp only [hcap, ↓reduceIte]
          obtain ⟨o1, o2, o3⟩ := ho
          have hl : (Pass.literal p ic).length ≤ Pass.ins p (ic + 1) := by
            unfold Pass.literal; simp only [List.length_take]; omega
          apply ih
          · refine ⟨by simp only [List.length_append, List.length_replicate]; omega,
                    by simp only [List.length_append]; omega, ?_⟩
            intro x hx
            rcases List.mem_append.mp hx with hx | hx
            · exact o3 x hx
            · have := List.eq_of_mem_replicate hx; omega
          · exact h1
          · simp only [List.length_append]; omega
          · exact hnp
      · simp only [hlit, Bool.false_eq_true, ↓reduceIte]
        by_cases hom : (Pass.ins p ic == pass_omit) = true
        · simp only [hom, ↓reduceIte]; exact ih _ _ _ _ _ ho h1 h2 hnp
        · simp only [hom, Bool.false_eq_true, ↓reduceIte]
          by_cases hcp : (Pass.ins p ic == pass_copy) = true
          · simp only [hcp, ↓reduceIte]
            by_cases hcount : dsr - dsm > 0
            · simp only [hcount, ↓reduceIte]
              by_cases hcap : dsr + (dsr - dsm) > max
              · simp only [hcap, ↓reduceIte]; exact ho
              · simp only [hcap, ↓reduceIte]
                obtain ⟨hk1, hk2⟩ := memmove_ok input.length max ⟨o.cells, o.map⟩ dsm dsr ho h1 h2
                have hc := copyChars_ok t mode input max (m.endReplace - m.startReplace).toNat m.startReplace m.endReplace
                  (moveOut o dsm dsr) hk1
                generalize copyChars t mode input max (m.endReplace - m.startReplace).toNat m.startReplace m.endReplace _ = cr at hc
                obtain ⟨o2, b⟩ := cr
                cases b
                · exact hc.1
                · exact ih _ _ _ _ _ hc.1 (Nat.le_refl _) (Nat.le_trans hk2 hc.2) (Or.inr rfl)
            · simp only [hcount, ↓reduceIte]
              have hc := copyChars_ok t mode input max (m.endReplace - m.startReplace).toNat m.startReplace m.endReplace o ho
              generalize copyChars t mode input max (m.endReplace - m.startReplace).toNat m.startReplace m.endReplace o = cr at hc
              obtain ⟨o2, b⟩ := cr
              cases b
              · exact hc.1
              · exact ih _ _ _ _ _ hc.1 h1 (Nat.le_trans h2 hc.2) (Or.inr rfl)
          · simp only [hcp, Bool.false_eq_true, ↓reduceIte]
            by_cases hsw : (Pass.ins p ic == pass_swap) = true
            · simp only [hsw, ↓reduceIte]
              cases hr : Pass.refRule t p ic with
              | none => simp [ActCOK]
              | some r =>
                simp only []
                have hk := swapReplace_ok r input max (m.endReplace - m.startReplace).toNat m.startReplace ⟨o.cells, o.map⟩
                  (by omega) (by omega) ho
                split
                · exact ih _ _ _ _ _ hk.1 h1 (by have := hk.2; simp only [] at this ⊢; omega) hnp
                · exact hk.1
            · simp only [hsw, Bool.false_eq_true, ↓reduceIte]
              cases hv : Pass.varAction p ic vars with
              | none => simp [ActCOK]
              | some vl => exact ih _ _ _ _ _ ho h1 h2 hnp

theorem actionC_ok (t : Table) (mode : Nat) (p input : List Nat) (m : Pass.Match) (ic max : Nat) (o : Out) (vars : List Nat) (sm : Int)
    (hm : MatchOK input.length sm m) (hsm : 0 ≤ sm) (ho : OutOK input.length max o) :
    ActCOK input.length max m (actionC t mode p input m ic max o vars) := by
  unfold actionC
  have hc := copyChars_ok t mode input max (m.startReplace - m.startMatch).toNat m.startMatch m.startReplace o ho
  generalize copyChars t mode input max (m.startReplace - m.startMatch).toNat m.startMatch m.startReplace o = cr at hc
  obtain ⟨o1, b⟩ := cr
  cases b
  · exact hc.1
  · exact actLoopC_ok t mode p input m max o.cells.length sm hm hsm _ _ _ _ _ _ hc.1 hc.2 (Nat.le_refl _) (Or.inl rfl)


/-! ### selection: a selected context rule comes with a match inside the input -/

theorem walkChainC_ctx (t : Table) (mode : Nat) (dc : Bool) (input : List Nat) (pos length before prevOp : Nat)
    (single posInc : Bool) (vars : List Nat) :
    ∀ (chain : List Nat) (s : SelC), walkChainC t mode dc input pos length before prevOp single posInc vars chain = some s →
      ∀ r m ic, s.ctx = some (r, m, ic) → MatchOK input.length pos m := by
  intro chain
  induction chain with
  | nil => intro s h; simp [walkChainC] at h
  | cons i rest ih =>
    intro s h
    unfold walkChainC at h
    split at h
    · cases h
    · rename_i r hr
      simp only [] at h
      split at h
      · split at h
        · split at h
          · exact ih s h
          · split at h
            · cases h; intro r' m ic hc; cases hc
            · rename_i m ic ht
              cases h
              intro r' m' ic' hc
              simp only [Option.some.injEq, Prod.mk.injEq] at hc
              obtain ⟨-, rfl, -⟩ := hc
              exact fwdTest_bounds _ _ _ _ _ _ _ ht
            · exact ih s h
        · split at h
          · cases h; intro r' m ic hc; cases hc
          · exact ih s h
      · exact ih s h

theorem selectRuleC_ctx (t : Table) (mode : Nat) (dc : Bool) (input : List Nat) (pos before prevOp : Nat)
    (posInc : Bool) (vars : List Nat) (r : Rule) (m : Pass.Match) (ic : Nat)
    (h : (selectRuleC t mode dc input pos before prevOp posInc vars).ctx = some (r, m, ic)) :
    MatchOK input.length pos m := by
  unfold selectRuleC at h
  simp only [] at h
  split at h
  · rename_i s hs
    split at hs
    · exact walkChainC_ctx _ _ _ _ _ _ _ _ _ _ _ _ s hs r m ic h
    · cases hs
  · split at h
    · rename_i s hs
      split at hs
      · exact walkChainC_ctx _ _ _ _ _ _ _ _ _ _ _ _ s hs r m ic h
      · cases hs
    · cases h

/-- invariant of the main loop with context rules -/
def StInvC (n max : Nat) (sc : StC) : Prop :=
  OutOK n max sc.st.out ∧ sc.st.pos ≤ n ∧ sc.st.lastIn ≤ sc.st.pos

theorem stepC_ok (t : Table) (mode : Nat) (input : List Nat) (max : Nat) (sc : StC)
    (h : StInvC input.length max sc) : StInvC input.length max (stepC t mode input max sc).1 := by
  unfold stepC
  have h0 : OutOK input.length max (lastWord t input sc.st).out ∧ (lastWord t input sc.st).pos ≤ input.length ∧
      (lastWord t input sc.st).lastIn ≤ (lastWord t input sc.st).pos := by
    unfold lastWord
    split
    · exact ⟨h.1, h.2.1, Nat.le_refl _⟩
    · exact h
  generalize lastWord t input sc.st = s1 at h0 ⊢
  simp only []
  obtain ⟨i1, i2, i4⟩ := h0
  split
  · exact ⟨i1, i2, i4⟩
  · rename_i hne
    have hlt : s1.pos < input.length := by
      have : s1.pos ≠ input.length := by simpa using hne
      omega
    split
    · exact ⟨i1, i2, i4⟩
    · split
      · exact ⟨i1, i2, i4⟩
      · rename_i o1 hins
        have hg1 := insertNumberSign_ok _ _ _ _ _ _ _ _ i1 hins
        split
        · exact ⟨hg1.1, i2, i4⟩
        · -- a context rule
          rename_i r m ic hfound
          have hm : MatchOK input.length (s1.pos : Int) m := by
            unfold foundC at hfound
            split at hfound
            · rename_i r' m' ic' hctx
              cases hfound
              exact selectRuleC_ctx _ _ _ _ _ _ _ _ _ _ _ _ hctx
            · split at hfound
              · obtain ⟨_, _, _, _, ht, _⟩ := select_first _ _ _ _ _ _ _ _ _ hfound
                simp only [testOf, Bool.false_eq_true, ↓reduceIte] at ht
                exact fwdTest_bounds _ _ _ _ _ _ _ ht
              · cases hfound
          have ha := actionC_ok t mode r.dots input m ic max o1 sc.vars s1.pos hm (by omega) hg1.1
          obtain ⟨hm0, hm1, hm2, hm3, hm4, hm5⟩ := hm
          split
          · exact ⟨hg1.1, i2, i4⟩
          · rename_i o' vs hact
            rw [hact] at ha
            exact ⟨ha, i2, i4⟩
          · rename_i o' np vs hact
            rw [hact] at ha
            obtain ⟨ha1, ha2⟩ := ha
            refine ⟨ha1, ?_, ?_⟩ <;> dsimp only <;> omega
        · -- an ordinary rule: Forward.lean's emission
          have hem := emit_ok t mode input max
            (selectRuleC t mode s1.dontContract input s1.pos (beforeAttrs t input s1.pos) s1.prevOp sc.posInc sc.vars).sel s1.pos o1 hlt hg1.1
          generalize emit t mode input max
            (selectRuleC t mode s1.dontContract input s1.pos (beforeAttrs t input s1.pos) s1.prevOp sc.posInc sc.vars).sel s1.pos o1 = e at hem
          obtain ⟨p', o2, b⟩ := e
          simp only [] at hem
          cases b
          · simp only []; refine ⟨hem.1.1, hem.2.2, ?_⟩; dsimp only; omega
          · simp only []; refine ⟨hem.1.1, hem.2.2, ?_⟩; dsimp only; omega

theorem loopC_ok (t : Table) (mode : Nat) (input : List Nat) (max : Nat) :
    ∀ (fuel : Nat) (sc : StC), StInvC input.length max sc → StInvC input.length max (loopC t mode input max fuel sc).1 := by
  intro fuel
  induction fuel with
  | zero => intro sc h; exact h
  | succ f ih =>
    intro sc h
    unfold loopC
    have hs := stepC_ok t mode input max sc h
    generalize stepC t mode input max sc = r at hs
    obtain ⟨sc', done⟩ := r
    simp only []
    split
    · exact hs
    · exact ih sc' hs

/-- **translateC_contract**: the forward main pass with context rules satisfies E1–E4 -/
theorem translateC_contract (t : Table) (mode : Nat) (input : List Nat) (max : Nat) (cpos cstat : Int) (r : PassResult)
    (h : translateC t mode input max cpos cstat = .done r) :
    r.out.length ≤ max ∧ r.map.length = r.out.length ∧ r.realInlen ≤ input.length ∧
    ∀ x ∈ r.map, 0 ≤ x ∧ x ≤ (input.length : Int) := by
  have hinv := loopC_ok t mode input max (2 * input.length + 2) { st := { out := { cpos := cpos, cstat := cstat } } }
    ⟨⟨rfl, Nat.zero_le _, by simp⟩, Nat.zero_le _, Nat.zero_le _⟩
  unfold translateC at h
  generalize loopC t mode input max (2 * input.length + 2) { st := { out := { cpos := cpos, cstat := cstat } } } = lr at hinv h
  obtain ⟨sc, fin⟩ := lr
  simp only [] at h hinv
  split at h
  · cases h
  · split at h
    · cases h
    · obtain ⟨⟨o1, o2, o3⟩, hp, hli⟩ := hinv
      simp only [ResC.done.injEq] at h
      subst h
      dsimp only
      split
      · refine ⟨?_, ?_, ?_, ?_⟩
        · simp only [List.length_take]; omega
        · simp only [List.length_take]; omega
        · split
          · exact skip_le t input _ _ (by omega)
          · omega
        · intro x hx; exact o3 x (List.mem_of_mem_take hx)
      · refine ⟨o2, o1, ?_, o3⟩
        split
        · exact skip_le t input _ _ hp
        · exact hp

end Lou.FwdCOK
