/-
  BackOK.lean — the B0 model of the backward main pass (`Back.translate`) satisfies the clauses E1/E3 of the backward
  engine contract for every table, mode, input, capacity and cursor.
-/
import LouModel.Backward
import LouProofs.C02

namespace Lou.BackOK
open Lou Lou.Gen Lou.Back

theorem walkChain_dotslen (t : Table) (mode : Nat) (ctx : Ctx) (input : List Nat) (pos length before prevOp : Nat) :
    ∀ (chain : List Nat) (s : Sel), walkChain t mode ctx input pos length before prevOp chain = some s →
      s.dotslen ≤ length := by
  intro chain
  induction chain with
  | nil => intro s h; simp [walkChain] at h
  | cons i rest ih =>
    intro s h
    unfold walkChain at h
    split at h
    · cases h
    · rename_i r hr
      simp only [] at h
      split at h
      · rename_i hc
        cases h
        simp only [Bool.and_eq_true, decide_eq_true_eq] at hc
        exact hc.1.1.1
      · exact ih s h

theorem selectRule_dotslen (t : Table) (mode : Nat) (ctx : Ctx) (input : List Nat) (pos before prevOp : Nat)
    (hp : pos < input.length) : (selectRule t mode ctx input pos before prevOp).dotslen ≤ input.length - pos := by
  unfold selectRule
  simp only []
  split
  · rename_i s hs
    split at hs
    · cases hs
    · exact walkChain_dotslen _ _ _ _ _ _ _ _ _ _ hs
  · split
    · rename_i s hs
      split at hs
      · have := walkChain_dotslen _ _ _ _ _ _ _ _ _ _ hs; omega
      · cases hs
    · simp only []; omega

/-- updatePositions / undefinedDots / putCharacter keep the output within the capacity -/
theorem updatePositions_cap (oc : List Nat) (il pos : Nat) (input : List Nat) (max : Nat) (o o' : Out)
    (h : updatePositions oc il pos input max o = some o') : o'.chars.length ≤ max ∧ o.chars.length ≤ o'.chars.length := by
  unfold updatePositions at h
  split at h
  · cases h
  · rename_i hc
    simp only [Bool.or_eq_true, decide_eq_true_eq, not_or, Nat.not_lt] at hc
    simp only [] at h
    split at h
    · cases h
    · cases h; simp; omega

theorem undefinedDots_cap (d mode pos max : Nat) (o o' : Out) (ho : o.chars.length ≤ max)
    (h : undefinedDots d mode pos max o = some o') : o'.chars.length ≤ max ∧ o.chars.length ≤ o'.chars.length := by
  unfold undefinedDots at h
  simp only [] at h
  split at h
  · cases h; exact ⟨ho, Nat.le_refl _⟩
  · split at h
    · cases h
    · cases h; simp; omega

theorem putCharacter_cap (t : Table) (mode d pos : Nat) (input : List Nat) (max : Nat) (o o' : Out) (ho : o.chars.length ≤ max)
    (h : putCharacter t mode d pos input max o = some o') : o'.chars.length ≤ max ∧ o.chars.length ≤ o'.chars.length := by
  unfold putCharacter at h
  split at h
  · exact updatePositions_cap _ _ _ _ _ _ _ h
  · exact undefinedDots_cap _ _ _ _ _ _ ho h

theorem each_cap (t : Table) (mode : Nat) (input : List Nat) (max : Nat) :
    ∀ (k p : Nat) (o : Out) (p' : Nat) (o' : Out), o.chars.length ≤ max →
      step.each t mode input max k p o = some (p', o') →
      o'.chars.length ≤ max ∧ o.chars.length ≤ o'.chars.length ∧ p' = p + k := by
  intro k
  induction k with
  | zero => intro p o p' o' ho h; simp [step.each] at h; obtain ⟨rfl, rfl⟩ := h; exact ⟨ho, Nat.le_refl _, rfl⟩
  | succ k ih =>
    intro p o p' o' ho h
    unfold step.each at h
    split at h
    · cases h
    · rename_i o1 h1
      have hc := putCharacter_cap _ _ _ _ _ _ _ _ ho h1
      obtain ⟨a, b, c⟩ := ih (p + 1) o1 p' o' hc.1 h
      exact ⟨a, by omega, by omega⟩

def StInvB (n max : Nat) (st : St) : Prop := st.out.chars.length ≤ max ∧ st.pos ≤ n ∧ st.srcword ≤ n

theorem step_ok (t : Table) (mode : Nat) (input : List Nat) (max : Nat) (st : St)
    (h : StInvB input.length max st) (hp : st.pos < input.length) :
    StInvB input.length max (step t mode input max st).1 := by
  obtain ⟨h1, h2, h3⟩ := h
  unfold step
  simp only []
  generalize hsel : selectRule t mode _ input st.pos (beforeAttrs t st.out) st.prevOp = sel
  have hd : sel.dotslen ≤ input.length - st.pos := by
    rw [← hsel]; exact selectRule_dotslen _ _ _ _ _ _ _ hp
  split
  · exact ⟨h1, by show st.pos + sel.dotslen ≤ _; omega, h3⟩
  · -- the emission
    split
    · rename_i hem
      exact ⟨h1, h2, h3⟩
    · rename_i p' o' hem
      have key : o'.chars.length ≤ max ∧ p' ≤ input.length := by
        split at hem
        · -- CTO_None
          cases hu : undefinedDots (inAt input st.pos) mode st.pos max st.out with
          | none => simp [hu] at hem
          | some o1 =>
            simp only [hu, Option.map_some, Option.some.injEq, Prod.mk.injEq] at hem
            obtain ⟨rfl, rfl⟩ := hem
            exact ⟨(undefinedDots_cap _ _ _ _ _ _ h1 hu).1, by omega⟩
        · split at hem
          · cases hem
          · rename_i r hr
            split at hem
            · cases hu : updatePositions r.chars r.dots.length st.pos input max st.out with
              | none => simp [hu] at hem
              | some o1 =>
                simp only [hu, Option.map_some, Option.some.injEq, Prod.mk.injEq] at hem
                obtain ⟨rfl, rfl⟩ := hem
                exact ⟨(updatePositions_cap _ _ _ _ _ _ _ hu).1, by omega⟩
            · obtain ⟨a, -, c⟩ := each_cap t mode input max _ _ _ _ _ h1 hem
              exact ⟨a, by omega⟩
      simp only []
      split
      · exact ⟨key.1, key.2, key.2⟩
      · exact ⟨key.1, key.2, h3⟩

theorem loop_ok (t : Table) (mode : Nat) (input : List Nat) (max : Nat) :
    ∀ (fuel : Nat) (st : St), StInvB input.length max st → StInvB input.length max (loop t mode input max fuel st) := by
  intro fuel
  induction fuel with
  | zero => intro st h; exact h
  | succ f ih =>
    intro st h
    unfold loop
    split
    · rename_i hlt
      have hs := step_ok t mode input max st h hlt
      generalize step t mode input max st = r at hs
      obtain ⟨st', done⟩ := r
      simp only []
      split
      · exact hs
      · exact ih st' hs
    · exact h

theorem skip_le (t : Table) (input : List Nat) (len : List Nat) : ∀ (fuel p : Nat) (m : List (Option Int)), p ≤ input.length →
    (translate.skip t input len fuel p m).1 ≤ input.length := by
  intro fuel
  induction fuel with
  | zero => intro p m h; simpa [translate.skip] using h
  | succ f ih =>
    intro p m h
    unfold translate.skip
    split
    · rename_i hc
      simp only [Bool.and_eq_true, decide_eq_true_eq] at hc
      exact ih (p + 1) _ (by omega)
    · exact h

/-- **translate_contract** (backward main pass of the fragment): output within the capacity (E1), consumed length
    within the input (E3), for every table, mode, input, capacity and cursor -/
theorem translate_contract (t : Table) (mode : Nat) (input : List Nat) (max : Nat) (cpos : Int) :
    (translate t mode input max cpos).out.length ≤ max ∧ (translate t mode input max cpos).realInlen ≤ input.length := by
  have hinv := loop_ok t mode input max (input.length + 1) { out := { cpos := cpos, cstat := 0 } }
    ⟨Nat.zero_le _, Nat.zero_le _, Nat.zero_le _⟩
  unfold translate
  generalize loop t mode input max (input.length + 1) { out := { cpos := cpos, cstat := 0 } } = st at hinv
  obtain ⟨i1, i2, i3⟩ := hinv
  simp only []
  split
  · refine ⟨?_, ?_⟩
    · simp only [List.length_take]; omega
    · split
      · exact skip_le t input _ _ _ _ i3
      · exact i3
  · refine ⟨i1, ?_⟩
    split
    · exact skip_le t input _ _ _ _ i2
    · exact i2

end Lou.BackOK
