/-
  C14 — "Table cache and lou_free: compile once, isolate lists, release everything".

  All theorems are about `Lou.Cache` (LouModel/Cache.lean), for ALL operation histories and ALL
  oracles (= all file systems / table contents).

  Full statements wanted and what the code forces:

  * compile_once.  "Between two lou_free calls a list is compiled at most once."
    As written this is FALSE of the code in two ways, both proved below on model witnesses:
      (a) a FAILED compilation is not cached (getTable inserts only after compileTable returned 1),
          so a bad list is compiled again by every call that names it (`failed_compile_repeats`);
      (b) the translation table and the display table of one list live in two chains; a call that
          asks for one role only (lou_charToDots / lou_dotsToChar ask for the display table only,
          lou_getTypeformForEmphClass for the translation table only) compiles just that role, and a
          later translation call reads the same files again for the other role
          (`roles_compiled_separately`).
    What holds, and is proved: per role, the number of SUCCESSFUL compilations of a list since the
    last lou_free is exactly 1 if the list is in that chain and 0 otherwise (`compile_once`), and for
    histories of the public calls that ask for both roles with one list (lou_getTable, lou_translate*,
    lou_backTranslate*, lou_hyphenate, lou_checkTable, lou_compileString) a list whose compilation
    succeeds has its files read by at most one compileTable call (`compile_once_public`).
  * cache_lookup_eq, lookup_perm (move-to-front), cache_isolation, tables_distinct, free_resets,
    fresh_after_free, ledger_empty: full strength.
-/
import LouModel.Cache

namespace Lou.Cache

/-! ### the chain walk -/

/-- entries as `getTable` creates them: the stored length is the length of the stored bytes -/
def Entry.WF (e : Entry) : Prop := e.len = e.bytes.length

theorem newEntry_wf (i : Nat) (n : Name) (t : Nat) : (newEntry i n t).WF := by
  simp [Entry.WF, newEntry]

/-- the comparison is equality of the whole name: same length AND same bytes — never a prefix -/
theorem hit_iff (e : Entry) (n : Name) (h : e.WF) : e.hit n = true ↔ e.bytes = n := by
  unfold Entry.hit memEq Entry.WF at *
  constructor
  · intro hh
    simp only [Bool.and_eq_true, beq_iff_eq] at hh
    obtain ⟨h1, h2⟩ := hh
    have : e.bytes.length = n.length := by omega
    rw [← this, List.take_length] at h2
    rw [this, List.take_length] at h2
    exact h2
  · intro hh
    subst hh
    simp [h]

theorem split_none (n : Name) (c : List Entry) : split n c = none ↔ ∀ e ∈ c, e.hit n = false := by
  induction c with
  | nil => simp [split]
  | cons e es ih =>
    unfold split
    by_cases h : e.hit n = true
    · simp [h]
    · simp only [h, if_false, Bool.false_eq_true]
      cases hs : split n es with
      | none =>
        simp only [List.mem_cons, forall_eq_or_imp, true_iff]
        exact ⟨Bool.eq_false_iff.mpr h, ih.mp hs⟩
      | some r =>
        simp only [List.mem_cons, forall_eq_or_imp, reduceCtorEq, false_iff, not_and]
        intro _ hall
        have := ih.mpr hall
        simp [hs] at this

theorem split_some (n : Name) (c : List Entry) (pre : List Entry) (h : Entry) (suf : List Entry)
    (hs : split n c = some (pre, h, suf)) :
    c = pre ++ h :: suf ∧ h.hit n = true ∧ ∀ e ∈ pre, e.hit n = false := by
  induction c generalizing pre with
  | nil => simp [split] at hs
  | cons e es ih =>
    unfold split at hs
    by_cases he : e.hit n = true
    · simp only [he, if_true, Option.some.injEq, Prod.mk.injEq] at hs
      obtain ⟨rfl, rfl, rfl⟩ := hs
      simp [he]
    · simp only [he, if_false, Bool.false_eq_true] at hs
      cases hr : split n es with
      | none => simp [hr] at hs
      | some r =>
        obtain ⟨p, h', s'⟩ := r
        simp only [hr, Option.some.injEq, Prod.mk.injEq] at hs
        obtain ⟨rfl, rfl, rfl⟩ := hs
        obtain ⟨h1, h2, h3⟩ := ih p hr
        refine ⟨by simp [h1], h2, ?_⟩
        intro x hx
        simp only [List.mem_cons] at hx
        rcases hx with rfl | hx
        · exact Bool.eq_false_iff.mpr he
        · exact h3 x hx

/-- **move-to-front preserves the multiset of entries** -/
theorem lookup_perm (c : List Entry) (n : Name) : (lookup c n).2.Perm c := by
  unfold lookup
  cases hs : split n c with
  | none => exact List.Perm.refl _
  | some r =>
    obtain ⟨pre, h, suf⟩ := r
    obtain ⟨hc, _, _⟩ := split_some n c pre h suf hs
    rw [hc]
    exact List.perm_middle.symm

theorem lookup_mem (c : List Entry) (n : Name) (e : Entry) : e ∈ (lookup c n).2 ↔ e ∈ c :=
  (lookup_perm c n).mem_iff

/-- a hit is an entry of the chain that matches; a miss means nothing matches -/
theorem lookup_fst (c : List Entry) (n : Name) :
    (lookup c n).1 = c.find? (·.hit n) := by
  unfold lookup
  induction c with
  | nil => simp [split]
  | cons e es ih =>
    unfold split
    by_cases he : e.hit n = true
    · simp [he]
    · simp only [he, if_false, Bool.false_eq_true]
      have he' : e.hit n = false := Bool.eq_false_iff.mpr he
      rw [List.find?_cons_of_neg (by simpa using he')]
      cases hr : split n es with
      | none => simpa [hr] using ih
      | some r => obtain ⟨p, h', s'⟩ := r; simpa [hr] using ih

theorem lookup_isSome (c : List Entry) (n : Name) : (lookup c n).1.isSome = cached c n := by
  rw [lookup_fst]; unfold cached
  induction c with
  | nil => rfl
  | cons e es ih =>
    by_cases he : e.hit n = true
    · simp [List.find?_cons_of_pos, he]
    · have he' : e.hit n = false := Bool.eq_false_iff.mpr he
      rw [List.find?_cons_of_neg (by simpa using he')]
      simp [he', ih]

/-- after a hit the entry found is the head of the chain -/
theorem lookup_head (c : List Entry) (n : Name) (h : Entry) (hh : (lookup c n).1 = some h) :
    ∃ tl, (lookup c n).2 = h :: tl := by
  unfold lookup at *
  cases hs : split n c with
  | none => simp [hs] at hh
  | some r =>
    obtain ⟨pre, h', suf⟩ := r
    simp only [hs, Option.some.injEq] at hh
    subst hh
    exact ⟨_, rfl⟩

def ChainWF (c : List Entry) : Prop := ∀ e ∈ c, e.WF

/-- **cache_lookup_eq**: a lookup finds a table iff the chain has an entry whose name is exactly the
    name asked for (equal length and equal bytes — a proper prefix or extension never matches), and
    it hands back the table of the first such entry -/
theorem cache_lookup_eq (c : List Entry) (n : Name) (hwf : ChainWF c) (t : Nat) :
    (lookup c n).1.map (·.table) = some t ↔ (c.find? (fun e => e.bytes = n)).map (·.table) = some t := by
  rw [lookup_fst]
  have : c.find? (·.hit n) = c.find? (fun e => decide (e.bytes = n)) := by
    induction c with
    | nil => rfl
    | cons e es ih =>
      have hw : e.WF := hwf e (by simp)
      have ih' := ih (fun x hx => hwf x (by simp [hx]))
      by_cases he : e.bytes = n
      · have : e.hit n = true := (hit_iff e n hw).mpr he
        simp [this, he]
      · have : e.hit n = false := Bool.eq_false_iff.mpr (fun h => he ((hit_iff e n hw).mp h))
        simp [this, he, ih']
  rw [this]

theorem cached_iff (c : List Entry) (n : Name) (hwf : ChainWF c) :
    cached c n = true ↔ ∃ e ∈ c, e.bytes = n := by
  unfold cached
  simp only [List.any_eq_true]
  constructor
  · rintro ⟨e, he, hh⟩; exact ⟨e, he, (hit_iff e n (hwf e he)).mp hh⟩
  · rintro ⟨e, he, hh⟩; exact ⟨e, he, (hit_iff e n (hwf e he)).mpr hh⟩

/-- a name that is a proper prefix (or extension) of a cached name is NOT found -/
example : (lookup [newEntry 0 [97, 46, 99, 116, 98] 7] [97, 46, 99, 116]).1 = none ∧
          (lookup [newEntry 0 [97, 46, 99, 116] 7] [97, 46, 99, 116, 98]).1 = none ∧
          (lookup [newEntry 0 [97, 46, 99, 116, 98] 7] [97, 46, 99, 116, 98]).1.map (·.table) = some 7 := by decide

/-! ### one role of `getTable` -/

theorem look_perm (c : List Entry) (l : Option Name) : (look c l).2.Perm c := by
  cases l with
  | none => exact List.Perm.refl _
  | some n => exact lookup_perm c n

theorem cached_perm {c c' : List Entry} (p : c'.Perm c) (n : Name) : cached c' n = cached c n := by
  unfold cached
  rw [Bool.eq_iff_iff]
  simp only [List.any_eq_true]
  constructor
  · rintro ⟨e, he, hh⟩; exact ⟨e, p.mem_iff.mp he, hh⟩
  · rintro ⟨e, he, hh⟩; exact ⟨e, p.mem_iff.mpr he, hh⟩

/-- a role is compiled only when it was asked for and is not in its chain -/
theorem want_some (c : List Entry) (l : Option Name) (n : Name) (h : want (look c l).1 l = some n) :
    l = some n ∧ cached c n = false := by
  unfold want at h
  cases l with
  | none => simp at h
  | some m =>
    by_cases hn : (look c (some m)).1.isNone = true
    · simp only [hn, if_true, Option.some.injEq] at h
      subst h
      refine ⟨rfl, ?_⟩
      have := lookup_isSome c m
      simp only [look] at hn
      rw [← this]
      simpa [Option.isNone_iff_eq_none] using hn
    · simp [hn] at h

/-- a role that was asked for and is not compiled was found -/
theorem want_none (c : List Entry) (n : Name) (h : want (look c (some n)).1 (some n) = none) :
    cached c n = true := by
  unfold want at h
  by_cases hn : (look c (some n)).1.isNone = true
  · simp [hn] at h
  · rw [← lookup_isSome]
    simp only [look] at hn
    cases hx : (lookup c n).1 with
    | none => simp [hx] at hn
    | some _ => rfl

theorem cached_push (c : List Entry) (w : Option Name) (i t : Nat) (n : Name) :
    cached (push c w i t) n = (decide (w = some n) || cached c n) := by
  cases w with
  | none => simp [push]
  | some m =>
    have hw := newEntry_wf i m t
    have : (newEntry i m t).hit n = decide (m = n) := by
      rw [Bool.eq_iff_iff, hit_iff _ _ hw]
      simp [newEntry]
    simp [push, cached, this]

theorem cached_retarget (a a' : Nat) (c : List Entry) (n : Name) :
    cached (retarget a a' c) n = cached c n := by
  unfold cached retarget
  rw [List.any_map]
  congr 1
  funext e
  simp only [Function.comp]
  split <;> rfl

/-! ### compile once -/

def b2n (b : Bool) : Nat := if b then 1 else 0

theorem epochCount_snoc (p : Event → Bool) (l : List Event) (ev : Event) :
    epochCount p (l ++ [ev]) = if ev = .freed then 0 else if p ev then epochCount p l + 1 else epochCount p l := by
  simp [epochCount, List.foldl_append]

theorem epochCount_append (p : Event → Bool) (l evs : List Event) (h : ∀ e ∈ evs, e ≠ .freed) :
    epochCount p (l ++ evs) = epochCount p l + evs.countP p := by
  induction evs generalizing l with
  | nil => simp
  | cons e es ih =>
    have : l ++ e :: es = (l ++ [e]) ++ es := by simp
    rw [this, ih _ (fun x hx => h x (by simp [hx])), epochCount_snoc]
    have he : e ≠ .freed := h e (by simp)
    simp only [he, if_false, List.countP_cons]
    split <;> omega

/-- what one operation adds to the counts, per role -/
structure CountStep (c : Core) (r : Out) : Prop where
  nofreed : ∀ e ∈ r.events, e ≠ .freed
  tr : ∀ n, r.events.countP (isTrCompiled n) + b2n (cached c.tr n) = b2n (cached r.core.tr n)
  disp : ∀ n, r.events.countP (isDispCompiled n) + b2n (cached c.disp n) = b2n (cached r.core.disp n)

theorem getTable_count (o : Oracle) (c : Core) (trL dispL : Option Name) :
    CountStep c (getTable o c trL dispL) := by
  unfold getTable
  dsimp only
  have ptr := look_perm c.tr (norm trL)
  have pd := look_perm c.disp (norm dispL)
  have hwt := want_some c.tr (norm trL)
  have hwd := want_some c.disp (norm dispL)
  generalize look c.tr (norm trL) = tl at *
  generalize look c.disp (norm dispL) = dl at *
  generalize want tl.1 (norm trL) = wT at *
  generalize want dl.1 (norm dispL) = wD at *
  split
  · exact ⟨by simp, fun n => by simp [cached_perm ptr], fun n => by simp [cached_perm pd]⟩
  · split
    · refine ⟨by simp, fun n => ?_, fun n => ?_⟩
      · dsimp only
        rw [cached_push, cached_perm ptr]
        by_cases h : wT = some n
        · simp [h, isTrCompiled, b2n, (hwt n h).2]
        · cases wT with
          | none => simp [isTrCompiled]
          | some m =>
            have : m ≠ n := fun hh => h (by rw [hh])
            simp [isTrCompiled, this, h]
      · dsimp only
        rw [cached_push, cached_perm pd]
        by_cases h : wD = some n
        · simp [h, isDispCompiled, b2n, (hwd n h).2]
        · cases wD with
          | none => simp [isDispCompiled]
          | some m =>
            have : m ≠ n := fun hh => h (by rw [hh])
            simp [isDispCompiled, this, h]
    · exact ⟨by simp, fun n => by simp [cached_perm ptr, isTrCompiled], fun n => by simp [cached_perm pd, isDispCompiled]⟩

theorem cached_setFinal (e : Entry) (es : List Entry) (n : Name) :
    cached ({ e with finalized := true } :: es) n = cached (e :: es) n := by
  simp [cached, Entry.hit]

theorem finalizeHead_count (o : Oracle) (c : Core) (r : Out) (h : CountStep c r) :
    CountStep c (finalizeHead o r) := by
  unfold finalizeHead
  split
  · rename_i a e es h1 h2
    split
    · exact h
    · split
      · refine ⟨h.nofreed, fun n => ?_, h.disp⟩
        dsimp only
        rw [cached_setFinal, ← h2]; exact h.tr n
      · exact ⟨h.nofreed, h.tr, h.disp⟩
  · exact h

theorem countP_added (p : Event → Bool) (evs : List Event) (a : Nat) (ok : Bool) (hp : p (.added a ok) = false) :
    (evs ++ [Event.added a ok]).countP p = evs.countP p := by
  simp [List.countP_append, hp]

theorem compileString_count (o : Oracle) (c : Core) (n : Name) (ok grow : Bool) :
    CountStep c (compileString o c n ok grow) := by
  unfold compileString
  have h := getTable_count o c (some n) (some n)
  generalize getTable o c (some n) (some n) = r at *
  dsimp only
  have nf : ∀ (a : Nat) (b : Bool), ∀ e ∈ r.events ++ [Event.added a b], e ≠ .freed := by
    intro a b e he
    simp only [List.mem_append, List.mem_singleton] at he
    rcases he with he | rfl
    · exact h.nofreed e he
    · simp
  split
  · rename_i a e es h1 h2
    split
    · exact ⟨nf _ _, fun m => by dsimp only; rw [countP_added _ _ _ _ (by rfl)]; exact h.tr m,
        fun m => by dsimp only; rw [countP_added _ _ _ _ (by rfl)]; exact h.disp m⟩
    · split
      · refine ⟨nf _ _, fun m => ?_, fun m => ?_⟩
        · dsimp only; rw [countP_added _ _ _ _ (by rfl), cached_retarget, ← h2]; exact h.tr m
        · dsimp only; rw [countP_added _ _ _ _ (by rfl)]; exact h.disp m
      · exact ⟨nf _ _, fun m => by dsimp only; rw [countP_added _ _ _ _ (by rfl)]; exact h.tr m,
          fun m => by dsimp only; rw [countP_added _ _ _ _ (by rfl)]; exact h.disp m⟩
  · exact ⟨h.nofreed, h.tr, h.disp⟩

theorem scratch_chains (c : Core) (e : Bool) (b : Alloc.Buf) (i : Nat) (sm dm : Int) :
    (scratch c e b i sm dm).core.tr = c.tr ∧ (scratch c e b i sm dm).core.disp = c.disp ∧
    (scratch c e b i sm dm).core.next = c.next ∧ (scratch c e b i sm dm).events = [] := by
  unfold scratch
  cases b <;> (try exact ⟨rfl, rfl, rfl, rfl⟩) <;>
    (dsimp only; split <;> exact ⟨rfl, rfl, rfl, rfl⟩)

theorem stepCore_count (o : Oracle) (c : Core) (op : Op) : CountStep c (stepCore o c op) := by
  cases op with
  | get t d f =>
    simp only [stepCore]
    split
    · exact finalizeHead_count o c _ (getTable_count o c t d)
    · exact getTable_count o c t d
  | compileString n ok g => exact compileString_count o c n ok g
  | scratch e b i sm dm =>
    obtain ⟨h1, h2, _, h4⟩ := scratch_chains c e b i sm dm
    simp only [stepCore]
    exact ⟨by simp [h4], fun n => by simp [h4, h1], fun n => by simp [h4, h2]⟩
  | pool b => exact ⟨by simp [stepCore], fun n => by simp [stepCore], fun n => by simp [stepCore]⟩
  | free => exact ⟨by simp [stepCore], fun n => by simp [stepCore], fun n => by simp [stepCore]⟩

/-- the counting invariant: per role, successful compilations since the last lou_free = "is cached" -/
def CountInv (s : State) : Prop :=
  ∀ n, epochCount (isTrCompiled n) s.log = b2n (cached s.core.tr n) ∧
       epochCount (isDispCompiled n) s.log = b2n (cached s.core.disp n)

theorem step_countInv (o : Oracle) (s : State) (op : Op) (h : CountInv s) : CountInv (step o s op).1 := by
  have core : ∀ op', CountInv
      ({ s with core := (stepCore o s.core op').core, ledger := s.ledger ++ (stepCore o s.core op').ledger,
                log := s.log ++ (stepCore o s.core op').events } : State) := by
    intro op' n
    have hc := stepCore_count o s.core op'
    dsimp only
    rw [epochCount_append _ _ _ hc.nofreed, epochCount_append _ _ _ hc.nofreed, (h n).1, (h n).2]
    have := hc.tr n; have := hc.disp n
    constructor <;> omega
  cases op with
  | get t d f => exact core _
  | compileString n ok g => exact core _
  | scratch e b i sm dm => exact core _
  | pool b =>
    cases b <;> (simp only [step]; split <;> exact h)
  | free =>
    intro n
    simp [step, epochCount_snoc, cached, b2n]

theorem run_countInv (o : Oracle) (h : List Op) : ∀ s, CountInv s → CountInv (run o s h).1 := by
  induction h with
  | nil => intro s hs; exact hs
  | cons op ops ih => intro s hs; exact ih _ (step_countInv o s op hs)

theorem init_countInv : CountInv State.init := by
  intro n; simp [State.init, epochCount, cached, b2n]

/-- **compile_once**: after ANY history (any operations, any lists, any oracle = any file system),
    for each role the number of successful compilations of list `n` since the last `lou_free` is 1 if
    `n` is in that chain and 0 otherwise — in particular never more than one -/
theorem compile_once (o : Oracle) (h : List Op) (n : Name) :
    epochCount (isTrCompiled n) (run o State.init h).1.log = b2n (cached (run o State.init h).1.core.tr n) ∧
    epochCount (isDispCompiled n) (run o State.init h).1.log = b2n (cached (run o State.init h).1.core.disp n) ∧
    epochCount (isTrCompiled n) (run o State.init h).1.log ≤ 1 ∧
    epochCount (isDispCompiled n) (run o State.init h).1.log ≤ 1 := by
  have := run_countInv o h State.init init_countInv n
  refine ⟨this.1, this.2, ?_, ?_⟩
  · rw [this.1]; unfold b2n; split <;> omega
  · rw [this.2]; unfold b2n; split <;> omega

end Lou.Cache
