/-
  C14 — "Table cache and lou_free: compile once, isolate lists, release everything".

  All theorems are about `Lou.Cache` (LouModel/Cache.lean), for ALL operation histories and ALL
  oracles (= all file systems / table contents).

  Full statements wanted and what the code forces:

  * compile_once.  "Between two lou_free calls a list is compiled at most once."
    As written this is FALSE of the code in two ways, both proved below on model witnesses:
      (a) a FAILED compilation is not cached (getTable inserts only after compileTable returned 1),
          so a bad list is compiled again by every call that names it (`failed_compile_repeats`);
      (b) the translation table and the display table of one list live in two chains; a call that
          asks for one role only (lou_charToDots / lou_dotsToChar ask for the display table only,
          lou_getTypeformForEmphClass for the translation table only) compiles just that role, and a
          later translation call reads the same files again for the other role
          (`roles_compiled_separately`).
    What holds, and is proved: per role, the number of SUCCESSFUL compilations of a list since the
    last lou_free is exactly 1 if the list is in that chain and 0 otherwise (`compile_once`), and for
    histories of the public calls that ask for both roles with one list (lou_getTable, lou_translate*,
    lou_backTranslate*, lou_hyphenate, lou_checkTable, lou_compileString) a list whose compilation
    succeeds has its files read by at most one compileTable call (`compile_once_public`).
  * cache_lookup_eq, lookup_perm (move-to-front), cache_isolation, tables_distinct, free_resets,
    fresh_after_free, ledger_empty: full strength.
-/
import LouModel.Cache

namespace Lou.Cache

/-! ### the chain walk -/

/-- entries as `getTable` creates them: the stored length is the length of the stored bytes -/
def Entry.WF (e : Entry) : Prop := e.len = e.bytes.length

theorem newEntry_wf (i : Nat) (n : Name) (t : Nat) : (newEntry i n t).WF := by
  simp [Entry.WF, newEntry]

/-- the comparison is equality of the whole name: same length AND same bytes — never a prefix -/
theorem hit_iff (e : Entry) (n : Name) (h : e.WF) : e.hit n = true ↔ e.bytes = n := by
  unfold Entry.hit memEq Entry.WF at *
  constructor
  · intro hh
    simp only [Bool.and_eq_true, beq_iff_eq] at hh
    obtain ⟨h1, h2⟩ := hh
    have : e.bytes.length = n.length := by omega
    rw [← this, List.take_length] at h2
    rw [this, List.take_length] at h2
    exact h2
  · intro hh
    subst hh
    simp [h]

theorem split_none (n : Name) (c : List Entry) : split n c = none ↔ ∀ e ∈ c, e.hit n = false := by
  induction c with
  | nil => simp [split]
  | cons e es ih =>
    unfold split
    by_cases h : e.hit n = true
    · simp [h]
    · simp only [h, if_false, Bool.false_eq_true]
      cases hs : split n es with
      | none =>
        simp only [List.mem_cons, forall_eq_or_imp, true_iff]
        exact ⟨Bool.eq_false_iff.mpr h, ih.mp hs⟩
      | some r =>
        simp only [List.mem_cons, forall_eq_or_imp, reduceCtorEq, false_iff, not_and]
        intro _ hall
        have := ih.mpr hall
        simp [hs] at this

theorem split_some (n : Name) (c : List Entry) (pre : List Entry) (h : Entry) (suf : List Entry)
    (hs : split n c = some (pre, h, suf)) :
    c = pre ++ h :: suf ∧ h.hit n = true ∧ ∀ e ∈ pre, e.hit n = false := by
  induction c generalizing pre with
  | nil => simp [split] at hs
  | cons e es ih =>
    unfold split at hs
    by_cases he : e.hit n = true
    · simp only [he, if_true, Option.some.injEq, Prod.mk.injEq] at hs
      obtain ⟨rfl, rfl, rfl⟩ := hs
      simp [he]
    · simp only [he, if_false, Bool.false_eq_true] at hs
      cases hr : split n es with
      | none => simp [hr] at hs
      | some r =>
        obtain ⟨p, h', s'⟩ := r
        simp only [hr, Option.some.injEq, Prod.mk.injEq] at hs
        obtain ⟨rfl, rfl, rfl⟩ := hs
        obtain ⟨h1, h2, h3⟩ := ih p hr
        refine ⟨by simp [h1], h2, ?_⟩
        intro x hx
        simp only [List.mem_cons] at hx
        rcases hx with rfl | hx
        · exact Bool.eq_false_iff.mpr he
        · exact h3 x hx

/-- **move-to-front preserves the multiset of entries** -/
theorem lookup_perm (c : List Entry) (n : Name) : (lookup c n).2.Perm c := by
  unfold lookup
  cases hs : split n c with
  | none => exact List.Perm.refl _
  | some r =>
    obtain ⟨pre, h, suf⟩ := r
    obtain ⟨hc, _, _⟩ := split_some n c pre h suf hs
    rw [hc]
    exact List.perm_middle.symm

theorem lookup_mem (c : List Entry) (n : Name) (e : Entry) : e ∈ (lookup c n).2 ↔ e ∈ c :=
  (lookup_perm c n).mem_iff

/-- a hit is an entry of the chain that matches; a miss means nothing matches -/
theorem lookup_fst (c : List Entry) (n : Name) :
    (lookup c n).1 = c.find? (·.hit n) := by
  unfold lookup
  induction c with
  | nil => simp [split]
  | cons e es ih =>
    unfold split
    by_cases he : e.hit n = true
    · simp [he]
    · simp only [he, if_false, Bool.false_eq_true]
      have he' : e.hit n = false := Bool.eq_false_iff.mpr he
      rw [List.find?_cons_of_neg (by simpa using he')]
      cases hr : split n es with
      | none => simpa [hr] using ih
      | some r => obtain ⟨p, h', s'⟩ := r; simpa [hr] using ih

theorem lookup_isSome (c : List Entry) (n : Name) : (lookup c n).1.isSome = cached c n := by
  rw [lookup_fst]; unfold cached
  induction c with
  | nil => rfl
  | cons e es ih =>
    by_cases he : e.hit n = true
    · simp [List.find?_cons_of_pos, he]
    · have he' : e.hit n = false := Bool.eq_false_iff.mpr he
      rw [List.find?_cons_of_neg (by simpa using he')]
      simp [he', ih]

/-- after a hit the entry found is the head of the chain -/
theorem lookup_head (c : List Entry) (n : Name) (h : Entry) (hh : (lookup c n).1 = some h) :
    ∃ tl, (lookup c n).2 = h :: tl := by
  unfold lookup at *
  cases hs : split n c with
  | none => simp [hs] at hh
  | some r =>
    obtain ⟨pre, h', suf⟩ := r
    simp only [hs, Option.some.injEq] at hh
    subst hh
    exact ⟨_, rfl⟩

def ChainWF (c : List Entry) : Prop := ∀ e ∈ c, e.WF

/-- **cache_lookup_eq**: a lookup finds a table iff the chain has an entry whose name is exactly the
    name asked for (equal length and equal bytes — a proper prefix or extension never matches), and
    it hands back the table of the first such entry -/
theorem cache_lookup_eq (c : List Entry) (n : Name) (hwf : ChainWF c) (t : Nat) :
    (lookup c n).1.map (·.table) = some t ↔ (c.find? (fun e => e.bytes = n)).map (·.table) = some t := by
  rw [lookup_fst]
  have : c.find? (·.hit n) = c.find? (fun e => decide (e.bytes = n)) := by
    induction c with
    | nil => rfl
    | cons e es ih =>
      have hw : e.WF := hwf e (by simp)
      have ih' := ih (fun x hx => hwf x (by simp [hx]))
      by_cases he : e.bytes = n
      · have : e.hit n = true := (hit_iff e n hw).mpr he
        simp [this, he]
      · have : e.hit n = false := Bool.eq_false_iff.mpr (fun h => he ((hit_iff e n hw).mp h))
        simp [this, he, ih']
  rw [this]

theorem cached_iff (c : List Entry) (n : Name) (hwf : ChainWF c) :
    cached c n = true ↔ ∃ e ∈ c, e.bytes = n := by
  unfold cached
  simp only [List.any_eq_true]
  constructor
  · rintro ⟨e, he, hh⟩; exact ⟨e, he, (hit_iff e n (hwf e he)).mp hh⟩
  · rintro ⟨e, he, hh⟩; exact ⟨e, he, (hit_iff e n (hwf e he)).mpr hh⟩

/-- a name that is a proper prefix (or extension) of a cached name is NOT found -/
example : (lookup [newEntry 0 [97, 46, 99, 116, 98] 7] [97, 46, 99, 116]).1 = none ∧
          (lookup [newEntry 0 [97, 46, 99, 116] 7] [97, 46, 99, 116, 98]).1 = none ∧
          (lookup [newEntry 0 [97, 46, 99, 116, 98] 7] [97, 46, 99, 116, 98]).1.map (·.table) = some 7 := by decide

/-! ### one role of `getTable` -/

theorem look_perm (c : List Entry) (l : Option Name) : (look c l).2.Perm c := by
  cases l with
  | none => exact List.Perm.refl _
  | some n => exact lookup_perm c n

theorem cached_perm {c c' : List Entry} (p : c'.Perm c) (n : Name) : cached c' n = cached c n := by
  unfold cached
  rw [Bool.eq_iff_iff]
  simp only [List.any_eq_true]
  constructor
  · rintro ⟨e, he, hh⟩; exact ⟨e, p.mem_iff.mp he, hh⟩
  · rintro ⟨e, he, hh⟩; exact ⟨e, p.mem_iff.mpr he, hh⟩

/-- a role is compiled only when it was asked for and is not in its chain -/
theorem want_some (c : List Entry) (l : Option Name) (n : Name) (h : want (look c l).1 l = some n) :
    l = some n ∧ cached c n = false := by
  unfold want at h
  cases l with
  | none => simp at h
  | some m =>
    by_cases hn : (look c (some m)).1.isNone = true
    · simp only [hn, if_true, Option.some.injEq] at h
      subst h
      refine ⟨rfl, ?_⟩
      have := lookup_isSome c m
      simp only [look] at hn
      rw [← this]
      simpa [Option.isNone_iff_eq_none] using hn
    · simp [hn] at h

/-- a role that was asked for and is not compiled was found -/
theorem want_none (c : List Entry) (n : Name) (h : want (look c (some n)).1 (some n) = none) :
    cached c n = true := by
  unfold want at h
  by_cases hn : (look c (some n)).1.isNone = true
  · simp [hn] at h
  · rw [← lookup_isSome]
    simp only [look] at hn
    cases hx : (lookup c n).1 with
    | none => simp [hx] at hn
    | some _ => rfl

theorem cached_push (c : List Entry) (w : Option Name) (i t : Nat) (n : Name) :
    cached (push c w i t) n = (decide (w = some n) || cached c n) := by
  cases w with
  | none => simp [push]
  | some m =>
    have hw := newEntry_wf i m t
    have : (newEntry i m t).hit n = decide (m = n) := by
      rw [Bool.eq_iff_iff, hit_iff _ _ hw]
      simp [newEntry]
    simp [push, cached, this]

theorem cached_retarget (a a' : Nat) (c : List Entry) (n : Name) :
    cached (retarget a a' c) n = cached c n := by
  unfold cached retarget
  rw [List.any_map]
  congr 1
  funext e
  simp only [Function.comp]
  split <;> rfl

/-! ### compile once -/

def b2n (b : Bool) : Nat := if b then 1 else 0

theorem epochCount_snoc (p : Event → Bool) (l : List Event) (ev : Event) :
    epochCount p (l ++ [ev]) = if ev = .freed then 0 else if p ev then epochCount p l + 1 else epochCount p l := by
  simp [epochCount, List.foldl_append]

theorem epochCount_append (p : Event → Bool) (l evs : List Event) (h : ∀ e ∈ evs, e ≠ .freed) :
    epochCount p (l ++ evs) = epochCount p l + evs.countP p := by
  induction evs generalizing l with
  | nil => simp
  | cons e es ih =>
    have : l ++ e :: es = (l ++ [e]) ++ es := by simp
    rw [this, ih _ (fun x hx => h x (by simp [hx])), epochCount_snoc]
    have he : e ≠ .freed := h e (by simp)
    simp only [he, if_false, List.countP_cons]
    split <;> omega

/-- what one operation adds to the counts, per role -/
structure CountStep (c : Core) (r : Out) : Prop where
  nofreed : ∀ e ∈ r.events, e ≠ .freed
  tr : ∀ n, r.events.countP (isTrCompiled n) + b2n (cached c.tr n) = b2n (cached r.core.tr n)
  disp : ∀ n, r.events.countP (isDispCompiled n) + b2n (cached c.disp n) = b2n (cached r.core.disp n)

theorem getTable_count (o : Oracle) (c : Core) (trL dispL : Option Name) :
    CountStep c (getTable o c trL dispL) := by
  unfold getTable
  dsimp only
  have ptr := look_perm c.tr (norm trL)
  have pd := look_perm c.disp (norm dispL)
  have hwt := want_some c.tr (norm trL)
  have hwd := want_some c.disp (norm dispL)
  generalize look c.tr (norm trL) = tl at *
  generalize look c.disp (norm dispL) = dl at *
  generalize want tl.1 (norm trL) = wT at *
  generalize want dl.1 (norm dispL) = wD at *
  split
  · exact ⟨by simp, fun n => by simp [cached_perm ptr], fun n => by simp [cached_perm pd]⟩
  · split
    · refine ⟨by simp, fun n => ?_, fun n => ?_⟩
      · dsimp only
        rw [cached_push, cached_perm ptr]
        by_cases h : wT = some n
        · simp [h, isTrCompiled, b2n, (hwt n h).2]
        · cases wT with
          | none => simp [isTrCompiled]
          | some m =>
            have : m ≠ n := fun hh => h (by rw [hh])
            simp [isTrCompiled, this, h]
      · dsimp only
        rw [cached_push, cached_perm pd]
        by_cases h : wD = some n
        · simp [h, isDispCompiled, b2n, (hwd n h).2]
        · cases wD with
          | none => simp [isDispCompiled]
          | some m =>
            have : m ≠ n := fun hh => h (by rw [hh])
            simp [isDispCompiled, this, h]
    · exact ⟨by simp, fun n => by simp [cached_perm ptr, isTrCompiled], fun n => by simp [cached_perm pd, isDispCompiled]⟩

theorem cached_setFinal (e : Entry) (es : List Entry) (n : Name) :
    cached ({ e with finalized := true } :: es) n = cached (e :: es) n := by
  simp [cached, Entry.hit]

theorem finalizeHead_count (o : Oracle) (c : Core) (r : Out) (h : CountStep c r) :
    CountStep c (finalizeHead o r) := by
  unfold finalizeHead
  split
  · rename_i a e es h1 h2
    split
    · exact h
    · split
      · refine ⟨h.nofreed, fun n => ?_, h.disp⟩
        dsimp only
        rw [cached_setFinal, ← h2]; exact h.tr n
      · exact ⟨h.nofreed, h.tr, h.disp⟩
  · exact h

theorem countP_added (p : Event → Bool) (evs : List Event) (a : Nat) (ok : Bool) (hp : p (.added a ok) = false) :
    (evs ++ [Event.added a ok]).countP p = evs.countP p := by
  simp [List.countP_append, hp]

theorem compileString_count (o : Oracle) (c : Core) (n : Name) (ok grow : Bool) :
    CountStep c (compileString o c n ok grow) := by
  unfold compileString
  have h := getTable_count o c (some n) (some n)
  generalize getTable o c (some n) (some n) = r at *
  dsimp only
  have nf : ∀ (a : Nat) (b : Bool), ∀ e ∈ r.events ++ [Event.added a b], e ≠ .freed := by
    intro a b e he
    simp only [List.mem_append, List.mem_singleton] at he
    rcases he with he | rfl
    · exact h.nofreed e he
    · simp
  split
  · rename_i a e es h1 h2
    split
    · exact ⟨nf _ _, fun m => by dsimp only; rw [countP_added _ _ _ _ (by rfl)]; exact h.tr m,
        fun m => by dsimp only; rw [countP_added _ _ _ _ (by rfl)]; exact h.disp m⟩
    · split
      · refine ⟨nf _ _, fun m => ?_, fun m => ?_⟩
        · dsimp only; rw [countP_added _ _ _ _ (by rfl), cached_retarget, ← h2]; exact h.tr m
        · dsimp only; rw [countP_added _ _ _ _ (by rfl)]; exact h.disp m
      · exact ⟨nf _ _, fun m => by dsimp only; rw [countP_added _ _ _ _ (by rfl)]; exact h.tr m,
          fun m => by dsimp only; rw [countP_added _ _ _ _ (by rfl)]; exact h.disp m⟩
  · exact ⟨h.nofreed, h.tr, h.disp⟩

theorem scratch_chains (c : Core) (e : Bool) (b : Alloc.Buf) (i : Nat) (sm dm : Int) :
    (scratch c e b i sm dm).core.tr = c.tr ∧ (scratch c e b i sm dm).core.disp = c.disp ∧
    (scratch c e b i sm dm).core.next = c.next ∧ (scratch c e b i sm dm).events = [] := by
  unfold scratch
  cases b <;> (try exact ⟨rfl, rfl, rfl, rfl⟩) <;>
    (dsimp only; split <;> exact ⟨rfl, rfl, rfl, rfl⟩)

theorem stepCore_count (o : Oracle) (c : Core) (op : Op) : CountStep c (stepCore o c op) := by
  cases op with
  | get t d f =>
    simp only [stepCore]
    split
    · exact finalizeHead_count o c _ (getTable_count o c t d)
    · exact getTable_count o c t d
  | compileString n ok g => exact compileString_count o c n ok g
  | scratch e b i sm dm =>
    obtain ⟨h1, h2, _, h4⟩ := scratch_chains c e b i sm dm
    simp only [stepCore]
    exact ⟨by simp [h4], fun n => by simp [h4, h1], fun n => by simp [h4, h2]⟩
  | pool b => exact ⟨by simp [stepCore], fun n => by simp [stepCore], fun n => by simp [stepCore]⟩
  | free => exact ⟨by simp [stepCore], fun n => by simp [stepCore], fun n => by simp [stepCore]⟩

/-- the counting invariant: per role, successful compilations since the last lou_free = "is cached" -/
def CountInv (s : State) : Prop :=
  ∀ n, epochCount (isTrCompiled n) s.log = b2n (cached s.core.tr n) ∧
       epochCount (isDispCompiled n) s.log = b2n (cached s.core.disp n)

theorem step_countInv (o : Oracle) (s : State) (op : Op) (h : CountInv s) : CountInv (step o s op).1 := by
  have core : ∀ op', CountInv
      ({ s with core := (stepCore o s.core op').core, ledger := s.ledger ++ (stepCore o s.core op').ledger,
                log := s.log ++ (stepCore o s.core op').events } : State) := by
    intro op' n
    have hc := stepCore_count o s.core op'
    dsimp only
    rw [epochCount_append _ _ _ hc.nofreed, epochCount_append _ _ _ hc.nofreed, (h n).1, (h n).2]
    have := hc.tr n; have := hc.disp n
    constructor <;> omega
  cases op with
  | get t d f => exact core _
  | compileString n ok g => exact core _
  | scratch e b i sm dm => exact core _
  | pool b =>
    cases b <;> (simp only [step]; split <;> exact h)
  | free =>
    intro n
    simp [step, epochCount_snoc, cached, b2n]

theorem run_countInv (o : Oracle) (h : List Op) : ∀ s, CountInv s → CountInv (run o s h).1 := by
  induction h with
  | nil => intro s hs; exact hs
  | cons op ops ih => intro s hs; exact ih _ (step_countInv o s op hs)

theorem init_countInv : CountInv State.init := by
  intro n; simp [State.init, epochCount, cached, b2n]

/-- **compile_once**: after ANY history (any operations, any lists, any oracle = any file system),
    for each role the number of successful compilations of list `n` since the last `lou_free` is 1 if
    `n` is in that chain and 0 otherwise — in particular never more than one -/
theorem compile_once (o : Oracle) (h : List Op) (n : Name) :
    epochCount (isTrCompiled n) (run o State.init h).1.log = b2n (cached (run o State.init h).1.core.tr n) ∧
    epochCount (isDispCompiled n) (run o State.init h).1.log = b2n (cached (run o State.init h).1.core.disp n) ∧
    epochCount (isTrCompiled n) (run o State.init h).1.log ≤ 1 ∧
    epochCount (isDispCompiled n) (run o State.init h).1.log ≤ 1 := by
  have := run_countInv o h State.init init_countInv n
  refine ⟨this.1, this.2, ?_, ?_⟩
  · rw [this.1]; unfold b2n; split <;> omega
  · rw [this.2]; unfold b2n; split <;> omega

/-! ### structural invariant of the two chains -/

def Distinct (c : List Entry) : Prop := c.Pairwise (fun e1 e2 => e1.table ≠ e2.table ∧ e1.id ≠ e2.id)

def Below (c : List Entry) (k : Nat) : Prop := ∀ e ∈ c, e.table < k ∧ e.id < k

structure CInv (c : Core) : Prop where
  wfT : ChainWF c.tr
  wfD : ChainWF c.disp
  dT : Distinct c.tr
  dD : Distinct c.disp
  bT : Below c.tr c.next
  bD : Below c.disp c.next

theorem distinct_perm {c c' : List Entry} (p : c'.Perm c) : Distinct c' ↔ Distinct c :=
  p.pairwise_iff (fun h => ⟨fun x => h.1 x.symm, fun x => h.2 x.symm⟩)

theorem chainWF_perm {c c' : List Entry} (p : c'.Perm c) (h : ChainWF c) : ChainWF c' :=
  fun e he => h e (p.mem_iff.mp he)

theorem below_perm {c c' : List Entry} (p : c'.Perm c) {k : Nat} (h : Below c k) : Below c' k :=
  fun e he => h e (p.mem_iff.mp he)

theorem below_mono {c : List Entry} {k k' : Nat} (h : Below c k) (hk : k ≤ k') : Below c k' :=
  fun e he => ⟨Nat.lt_of_lt_of_le (h e he).1 hk, Nat.lt_of_lt_of_le (h e he).2 hk⟩

theorem push_inv (c : List Entry) (w : Option Name) (i t k k' : Nat) (hw : ChainWF c) (hd : Distinct c)
    (hb : Below c k) (hi : k ≤ i) (ht : k ≤ t) (hi' : i < k') (ht' : t < k') (hk : k ≤ k') :
    ChainWF (push c w i t) ∧ Distinct (push c w i t) ∧ Below (push c w i t) k' := by
  cases w with
  | none => exact ⟨hw, hd, below_mono hb hk⟩
  | some n =>
    simp only [push]
    refine ⟨?_, ?_, ?_⟩
    · intro e he
      simp only [List.mem_cons] at he
      rcases he with rfl | he
      · exact newEntry_wf _ _ _
      · exact hw e he
    · refine List.Pairwise.cons ?_ hd
      intro e he
      have := hb e he
      simp only [newEntry]
      exact ⟨by omega, by omega⟩
    · intro e he
      simp only [List.mem_cons] at he
      rcases he with rfl | he
      · simp only [newEntry]; exact ⟨ht', hi'⟩
      · exact below_mono hb hk e he

theorem getTable_cinv (o : Oracle) (c : Core) (trL dispL : Option Name) (h : CInv c) :
    CInv (getTable o c trL dispL).core ∧ c.next ≤ (getTable o c trL dispL).core.next := by
  unfold getTable
  dsimp only
  have ptr := look_perm c.tr (norm trL)
  have pd := look_perm c.disp (norm dispL)
  generalize look c.tr (norm trL) = tl at *
  generalize look c.disp (norm dispL) = dl at *
  generalize want tl.1 (norm trL) = wT at *
  generalize want dl.1 (norm dispL) = wD at *
  have base : CInv { c with tr := tl.2, disp := dl.2 } :=
    ⟨chainWF_perm ptr h.wfT, chainWF_perm pd h.wfD, (distinct_perm ptr).mpr h.dT, (distinct_perm pd).mpr h.dD,
     below_perm ptr h.bT, below_perm pd h.bD⟩
  split
  · exact ⟨base, Nat.le_refl _⟩
  · split
    · obtain ⟨a1, a2, a3⟩ := push_inv tl.2 wT (c.next + 2) c.next c.next (c.next + 4) base.wfT base.dT base.bT
        (by omega) (by omega) (by omega) (by omega) (by omega)
      obtain ⟨b1, b2, b3⟩ := push_inv dl.2 wD (c.next + 3) (c.next + 1) c.next (c.next + 4) base.wfD base.dD base.bD
        (by omega) (by omega) (by omega) (by omega) (by omega)
      exact ⟨⟨a1, b1, a2, b2, a3, b3⟩, by dsimp only; omega⟩
    · exact ⟨⟨base.wfT, base.wfD, base.dT, base.dD, below_mono base.bT (by dsimp only; omega),
        below_mono base.bD (by dsimp only; omega)⟩, by dsimp only; omega⟩

theorem setFinal_inv (e : Entry) (es : List Entry) (k : Nat) :
    (ChainWF (e :: es) → ChainWF ({ e with finalized := true } :: es)) ∧
    (Distinct (e :: es) → Distinct ({ e with finalized := true } :: es)) ∧
    (Below (e :: es) k → Below ({ e with finalized := true } :: es) k) := by
  refine ⟨?_, ?_, ?_⟩
  · intro h x hx
    simp only [List.mem_cons] at hx
    rcases hx with rfl | hx
    · exact h e (by simp)
    · exact h x (by simp [hx])
  · intro h
    unfold Distinct at *
    rw [List.pairwise_cons] at *
    exact h
  · intro h x hx
    simp only [List.mem_cons] at hx
    rcases hx with rfl | hx
    · exact h e (by simp)
    · exact h x (by simp [hx])

theorem finalizeHead_cinv (o : Oracle) (r : Out) (h : CInv r.core) :
    CInv (finalizeHead o r).core ∧ (finalizeHead o r).core.next = r.core.next := by
  unfold finalizeHead
  split
  · rename_i a e es h1 h2
    split
    · exact ⟨h, rfl⟩
    · split
      · obtain ⟨f1, f2, f3⟩ := setFinal_inv e es r.core.next
        refine ⟨⟨?_, h.wfD, ?_, h.dD, ?_, h.bD⟩, rfl⟩
        · exact f1 (h2 ▸ h.wfT)
        · exact f2 (h2 ▸ h.dT)
        · exact f3 (h2 ▸ h.bT)
      · exact ⟨h, rfl⟩
  · exact ⟨h, rfl⟩

theorem retarget_inv (a a' : Nat) (c : List Entry) (hw : ChainWF c) (hd : Distinct c) (hb : Below c a') :
    ChainWF (retarget a a' c) ∧ Distinct (retarget a a' c) ∧ Below (retarget a a' c) (a' + 1) := by
  refine ⟨?_, ?_, ?_⟩
  · intro e he
    simp only [retarget, List.mem_map] at he
    obtain ⟨x, hx, rfl⟩ := he
    have := hw x hx
    split <;> exact this
  · unfold Distinct retarget
    rw [List.pairwise_map]
    refine List.Pairwise.imp_of_mem ?_ hd
    intro x y hx hy hxy
    have bx := hb x hx
    have by' := hb y hy
    constructor
    · split <;> split <;> (try dsimp only) <;> first | omega | exact hxy.1
    · split <;> split <;> exact hxy.2
  · intro e he
    simp only [retarget, List.mem_map] at he
    obtain ⟨x, hx, rfl⟩ := he
    have := hb x hx
    split <;> (try dsimp only) <;> omega

theorem compileString_cinv (o : Oracle) (c : Core) (n : Name) (ok grow : Bool) (h : CInv c) :
    CInv (compileString o c n ok grow).core := by
  unfold compileString
  have hg := (getTable_cinv o c (some n) (some n) h).1
  generalize getTable o c (some n) (some n) = r at *
  dsimp only
  split
  · rename_i a e es h1 h2
    split
    · exact hg
    · split
      · obtain ⟨r1, r2, r3⟩ := retarget_inv a r.core.next (e :: es) (h2 ▸ hg.wfT) (h2 ▸ hg.dT) (h2 ▸ hg.bT)
        exact ⟨r1, hg.wfD, r2, hg.dD, r3, below_mono hg.bD (by dsimp only; omega)⟩
      · exact hg
  · exact hg

theorem scratch_cinv (c : Core) (e : Bool) (b : Alloc.Buf) (i : Nat) (sm dm : Int) (h : CInv c) :
    CInv (scratch c e b i sm dm).core := by
  obtain ⟨h1, h2, h3, _⟩ := scratch_chains c e b i sm dm
  exact ⟨h1 ▸ h.wfT, h2 ▸ h.wfD, h1 ▸ h.dT, h2 ▸ h.dD, h1 ▸ h3 ▸ h.bT, h2 ▸ h3 ▸ h.bD⟩

theorem stepCore_cinv (o : Oracle) (c : Core) (op : Op) (h : CInv c) : CInv (stepCore o c op).core := by
  cases op with
  | get t d f =>
    simp only [stepCore]
    split
    · exact (finalizeHead_cinv o _ (getTable_cinv o c t d h).1).1
    · exact (getTable_cinv o c t d h).1
  | compileString n ok g => exact compileString_cinv o c n ok g h
  | scratch e b i sm dm => exact scratch_cinv c e b i sm dm h
  | pool b => exact h
  | free => exact h

theorem init_cinv : CInv {} := by
  refine ⟨?_, ?_, ?_, ?_, ?_, ?_⟩ <;> first | (intro e he; simp at he) | exact List.Pairwise.nil

theorem step_cinv (o : Oracle) (s : State) (op : Op) (h : CInv s.core) : CInv (step o s op).1.core := by
  cases op with
  | get t d f => exact stepCore_cinv o s.core _ h
  | compileString n ok g => exact stepCore_cinv o s.core _ h
  | scratch e b i sm dm => exact stepCore_cinv o s.core _ h
  | pool b => cases b <;> (simp only [step]; split <;> exact h)
  | free => exact init_cinv

theorem run_cinv (o : Oracle) (h : List Op) : ∀ s, CInv s.core → CInv (run o s h).1.core := by
  induction h with
  | nil => intro s hs; exact hs
  | cons op ops ih => intro s hs; exact ih _ (step_cinv o s op hs)

/-! ### isolation -/

/-- one entry matches one name only -/
theorem hit_inj (e : Entry) (n m : Name) (hn : e.hit n = true) (hm : e.hit m = true) : n = m := by
  unfold Entry.hit memEq at *
  simp only [Bool.and_eq_true, beq_iff_eq] at hn hm
  have hl : n.length = m.length := by omega
  have h1 := hn.2; have h2 := hm.2
  rw [List.take_length] at h1 h2
  rw [← h1, ← h2, hl]

theorem find_skip (p : Entry → Bool) (pre suf : List Entry) (h : Entry) (hp : p h = false) :
    (pre ++ h :: suf).find? p = (pre ++ suf).find? p := by
  rw [List.find?_append, List.find?_append, List.find?_cons_of_neg (by simp [hp])]

/-- move-to-front does not change which entry any name finds -/
theorem find_lookup (c : List Entry) (m n : Name) :
    (lookup c m).2.find? (·.hit n) = c.find? (·.hit n) := by
  unfold lookup
  cases hs : split m c with
  | none => rfl
  | some r =>
    obtain ⟨pre, h, suf⟩ := r
    obtain ⟨hc, hh, hpre⟩ := split_some m c pre h suf hs
    dsimp only
    rw [hc]
    by_cases hn : h.hit n = true
    · have : n = m := hit_inj h n m hn hh
      subst this
      have : pre.find? (·.hit n) = none := by
        rw [List.find?_eq_none]; intro x hx; simp [hpre x hx]
      rw [List.find?_append, this]
      simp [hn]
    · have hn' : h.hit n = false := Bool.eq_false_iff.mpr hn
      rw [List.find?_cons_of_neg (by simpa using hn'), find_skip _ _ _ _ hn']

theorem tableOf_look (c : List Entry) (l : Option Name) (n : Name) : tableOf (look c l).2 n = tableOf c n := by
  cases l with
  | none => rfl
  | some m => simp only [look, tableOf, find_lookup]

theorem tableOf_push (c : List Entry) (w : Option Name) (i t : Nat) (n : Name) (h : w ≠ some n) :
    tableOf (push c w i t) n = tableOf c n := by
  cases w with
  | none => rfl
  | some m =>
    have : (newEntry i m t).hit n = false := by
      rw [Bool.eq_false_iff]; intro hh
      have := (hit_iff _ _ (newEntry_wf i m t)).mp hh
      simp only [newEntry, List.take_length] at this
      exact h (by rw [this])
    simp only [push, tableOf]
    rw [List.find?_cons_of_neg (by simpa using this)]

theorem tableOf_setFinal (e : Entry) (es : List Entry) (n : Name) :
    tableOf ({ e with finalized := true } :: es) n = tableOf (e :: es) n := by
  simp only [tableOf, List.find?_cons, Entry.hit]
  split <;> rfl

/-- an operation that does not name `n` leaves the table of `n` alone in the translation chain… -/
theorem getTable_other_tr (o : Oracle) (c : Core) (trL dispL : Option Name) (n : Name) (h : norm trL ≠ some n) :
    tableOf (getTable o c trL dispL).core.tr n = tableOf c.tr n := by
  unfold getTable
  dsimp only
  have hw : want (look c.tr (norm trL)).1 (norm trL) ≠ some n := by
    unfold want; split
    · exact h
    · simp
  split
  · exact tableOf_look _ _ _
  · split
    · dsimp only; rw [tableOf_push _ _ _ _ _ hw]; exact tableOf_look _ _ _
    · exact tableOf_look _ _ _

/-- …and in the display chain -/
theorem getTable_other_disp (o : Oracle) (c : Core) (trL dispL : Option Name) (n : Name) (h : norm dispL ≠ some n) :
    tableOf (getTable o c trL dispL).core.disp n = tableOf c.disp n := by
  unfold getTable
  dsimp only
  have hw : want (look c.disp (norm dispL)).1 (norm dispL) ≠ some n := by
    unfold want; split
    · exact h
    · simp
  split
  · exact tableOf_look _ _ _
  · split
    · dsimp only; rw [tableOf_push _ _ _ _ _ hw]; exact tableOf_look _ _ _
    · exact tableOf_look _ _ _

theorem tableOf_cached (c : List Entry) (n : Name) (t : Nat) (h : tableOf c n = some t) : cached c n = true := by
  unfold tableOf at h; unfold cached
  cases hf : c.find? (·.hit n) with
  | none => simp [hf] at h
  | some e =>
    have h1 := List.find?_some hf
    exact List.any_eq_true.mpr ⟨e, List.mem_of_find?_eq_some hf, by simpa using h1⟩

theorem want_cached (c : List Entry) (n : Name) (hc : cached c n = true) :
    want (look c (some n)).1 (some n) = none := by
  have h1 := lookup_isSome c n
  rw [hc] at h1
  simp only [look]
  cases hx : (lookup c n).1 with
  | none => rw [hx] at h1; simp at h1
  | some e => simp [want]

/-- what `getTable` hands back for a cached list is the cached table; nothing is compiled for that role -/
theorem getTable_tr_cached (o : Oracle) (c : Core) (trL dispL : Option Name) (n : Name) (t : Nat)
    (hn : norm trL = some n) (h : tableOf c.tr n = some t) :
    (getTable o c trL dispL).res.tr = some t ∧ tableOf (getTable o c trL dispL).core.tr n = some t ∧
    ∀ ev ∈ (getTable o c trL dispL).events, isTrCompiled n ev = false ∧ ∀ d ok, ev ≠ .compile (some n) d ok := by
  have hw := want_cached c.tr n (tableOf_cached _ _ _ h)
  have hl : (look c.tr (some n)).1.map (·.table) = some t := by
    simp only [look, lookup_fst]; exact h
  have ht := tableOf_look c.tr (some n) n
  unfold getTable
  dsimp only
  rw [hn, hw]
  generalize look c.disp (norm dispL) = dl at *
  generalize want dl.1 (norm dispL) = wD at *
  generalize look c.tr (some n) = tl at *
  split
  · exact ⟨hl, by dsimp only; rw [ht]; exact h, by simp⟩
  · split
    · refine ⟨by simpa using hl, by dsimp only; simp only [push]; rw [ht]; exact h, ?_⟩
      intro ev hev
      simp only [List.mem_singleton] at hev
      subst hev
      simp [isTrCompiled]
    · refine ⟨hl, by dsimp only; rw [ht]; exact h, ?_⟩
      intro ev hev
      simp only [List.mem_singleton] at hev
      subst hev
      simp [isTrCompiled]

/-- after `getTable` the translation table handed back belongs to the head of the chain, and that
    entry is the one for the list asked for -/
theorem getTable_head (o : Oracle) (c : Core) (m : Name) (dispL : Option Name) (a : Nat)
    (h : (getTable o c (some m) dispL).res.tr = some a) :
    ∃ e es, (getTable o c (some m) dispL).core.tr = e :: es ∧ e.table = a ∧ e.hit m = true := by
  unfold getTable at *
  dsimp only at *
  generalize look c.disp (norm dispL) = dl at *
  generalize want dl.1 (norm dispL) = wD at *
  cases m with
  | nil =>
    exfalso
    simp only [norm, look, want, Option.isNone_none, if_true, Option.map_none, Option.isSome_none] at h
    split at h
    · simp at h
    · split at h <;> simp at h
  | cons x xs =>
    have hm : norm (some (x :: xs)) = some (x :: xs) := rfl
    rw [hm] at h ⊢
    cases hl : (lookup c.tr (x :: xs)).1 with
    | some e0 =>
      obtain ⟨tl, htl⟩ := lookup_head c.tr (x :: xs) e0 hl
      have hhit : e0.hit (x :: xs) = true := by
        rw [lookup_fst] at hl
        have := List.find?_some hl
        simpa using this
      have hlk : look c.tr (some (x :: xs)) = (some e0, e0 :: tl) := by
        simp only [look]; rw [← hl, ← htl]
      rw [hlk] at h ⊢
      simp only [want, Option.isNone_some, Bool.false_eq_true, if_false, Option.isNone_none, Bool.true_and,
        Option.map_some, Option.isSome_none, push] at h ⊢
      by_cases h1 : wD.isNone = true
      · rw [if_pos h1] at h ⊢; exact ⟨e0, tl, rfl, by simpa using h, hhit⟩
      · rw [if_neg h1] at h ⊢
        by_cases h2 : o.compiles none wD = true
        · rw [if_pos h2] at h ⊢; exact ⟨e0, tl, rfl, by simpa using h, hhit⟩
        · rw [if_neg h2] at h ⊢; exact ⟨e0, tl, rfl, by simpa using h, hhit⟩
    | none =>
      have hlk : look c.tr (some (x :: xs)) = (none, (lookup c.tr (x :: xs)).2) := by
        simp only [look]; rw [← hl]
      rw [hlk] at h ⊢
      simp only [want, Option.isNone_none, if_true, Option.isNone_some, Bool.false_and, Bool.false_eq_true,
        if_false, Option.map_none, Option.isSome_some, push] at h ⊢
      by_cases h2 : o.compiles (some (x :: xs)) wD = true
      · rw [if_pos h2] at h ⊢
        refine ⟨_, _, rfl, by simpa [newEntry] using h, ?_⟩
        exact (hit_iff _ _ (newEntry_wf _ _ _)).mpr (by simp [newEntry])
      · rw [if_neg h2] at h; simp at h

theorem tableOf_retarget_other (a a' : Nat) (e : Entry) (es : List Entry) (n m : Name)
    (hd : Distinct (e :: es)) (he : e.table = a) (hm : e.hit m = true) (hnm : n ≠ m) :
    tableOf (retarget a a' (e :: es)) n = tableOf (e :: es) n := by
  have hen : e.hit n = false := Bool.eq_false_iff.mpr (fun h => hnm (hit_inj e n m h hm))
  have hes : retarget a a' es = es := by
    unfold retarget
    have : ∀ x ∈ es, (if x.table = a then { x with table := a' } else x) = x := by
      intro x hx
      have := (List.pairwise_cons.mp hd).1 x hx
      rw [if_neg (fun h => this.1 (by rw [he, h]))]
    rw [List.map_congr_left this, List.map_id']
  simp only [tableOf]
  have : retarget a a' (e :: es) = { e with table := a' } :: es := by
    have h1 : retarget a a' (e :: es) = (if e.table = a then { e with table := a' } else e) :: retarget a a' es := rfl
    rw [h1, if_pos he, hes]
  rw [this, List.find?_cons_of_neg (by simpa [Entry.hit] using hen), List.find?_cons_of_neg (by simpa using hen)]

theorem compileString_other (o : Oracle) (c : Core) (m : Name) (ok grow : Bool) (n : Name) (hc : CInv c)
    (hnm : n ≠ m) :
    tableOf (compileString o c m ok grow).core.tr n = tableOf c.tr n ∧
    tableOf (compileString o c m ok grow).core.disp n = tableOf c.disp n := by
  have hne : norm (some m) ≠ some n := by
    cases m with
    | nil => simp [norm]
    | cons x xs => simp only [norm]; intro h; exact hnm (by simpa using h.symm)
  have h1 := getTable_other_tr o c (some m) (some m) n hne
  have h2 := getTable_other_disp o c (some m) (some m) n hne
  have hg := (getTable_cinv o c (some m) (some m) hc).1
  have hh := getTable_head o c m (some m)
  unfold compileString
  generalize getTable o c (some m) (some m) = r at *
  dsimp only
  split
  · rename_i a e es e1 e2
    split
    · exact ⟨h1, h2⟩
    · split
      · obtain ⟨e', es', h3, h4, h5⟩ := hh a e1
        rw [e2] at h3
        obtain ⟨rfl, rfl⟩ := List.cons.inj h3
        dsimp only
        rw [tableOf_retarget_other a r.core.next e es n m (e2 ▸ hg.dT) h4 h5 hnm, ← e2]
        exact ⟨h1, h2⟩
      · exact ⟨h1, h2⟩
  · exact ⟨h1, h2⟩

/-- **cache_isolation**: in any reachable state an operation that does not name the list `n`
    (whatever else it names: a prefix of `n`, an extension of `n`, a list sharing files with `n`,
    a list that fails to compile, and whatever the operation is: load, translate, add a rule that
    makes the table grow and move) leaves the table handed out for `n` unchanged, in both chains -/
theorem stepCore_isolation (o : Oracle) (c : Core) (op : Op) (n : Name) (hc : CInv c) (ha : op.avoids n = true) :
    tableOf (stepCore o c op).core.tr n = tableOf c.tr n ∧
    tableOf (stepCore o c op).core.disp n = tableOf c.disp n := by
  cases op with
  | get t d f =>
    simp only [Op.avoids, Bool.and_eq_true, bne_iff_ne, ne_eq] at ha
    have h1 := getTable_other_tr o c t d n ha.1
    have h2 := getTable_other_disp o c t d n ha.2
    simp only [stepCore]
    split
    · unfold finalizeHead
      split
      · rename_i a e es e1 e2
        split
        · exact ⟨h1, h2⟩
        · split
          · dsimp only; rw [tableOf_setFinal, ← e2]; exact ⟨h1, h2⟩
          · exact ⟨h1, h2⟩
      · exact ⟨h1, h2⟩
    · exact ⟨h1, h2⟩
  | compileString m ok g =>
    simp only [Op.avoids, bne_iff_ne, ne_eq] at ha
    exact compileString_other o c m ok g n hc (fun h => ha h.symm)
  | scratch e b i sm dm =>
    obtain ⟨h1, h2, _, _⟩ := scratch_chains c e b i sm dm
    simp only [stepCore, h1, h2, and_self]
  | pool b => exact ⟨rfl, rfl⟩
  | free => exact ⟨rfl, rfl⟩

theorem cache_isolation (o : Oracle) (h : List Op) (op : Op) (n : Name) (ha : op.avoids n = true) :
    let s := (run o State.init h).1
    tableOf (step o s op).1.core.tr n = tableOf s.core.tr n ∧
    tableOf (step o s op).1.core.disp n = tableOf s.core.disp n := by
  intro s
  have hc : CInv s.core := run_cinv o h State.init init_cinv
  cases op with
  | get t d f => exact stepCore_isolation o s.core _ n hc ha
  | compileString m ok g => exact stepCore_isolation o s.core _ n hc ha
  | scratch e b i sm dm => exact stepCore_isolation o s.core _ n hc ha
  | pool b => cases b <;> (simp only [step]; split <;> exact ⟨rfl, rfl⟩)
  | free => simp [Op.avoids] at ha

theorem mem_same_table {c : List Entry} (hd : Distinct c) {x y : Entry} (hx : x ∈ c) (hy : y ∈ c)
    (ht : x.table = y.table) : x = y := by
  induction c with
  | nil => simp at hx
  | cons e es ih =>
    have hp := List.pairwise_cons.mp hd
    simp only [List.mem_cons] at hx hy
    rcases hx with rfl | hx <;> rcases hy with rfl | hy
    · rfl
    · exact absurd ht (hp.1 y hy).1
    · exact absurd ht.symm (hp.1 x hx).1
    · exact ih hp.2 hx hy

/-- **tables_distinct**: in any reachable state two different list names never share a table —
    also when one name is a prefix of the other or both name the same files -/
theorem tables_distinct (o : Oracle) (h : List Op) (n m : Name) (t : Nat) :
    let s := (run o State.init h).1
    (tableOf s.core.tr n = some t → tableOf s.core.tr m = some t → n = m) ∧
    (tableOf s.core.disp n = some t → tableOf s.core.disp m = some t → n = m) := by
  intro s
  have hc : CInv s.core := run_cinv o h State.init init_cinv
  have key : ∀ c : List Entry, Distinct c → tableOf c n = some t → tableOf c m = some t → n = m := by
    intro c hd hn hm
    unfold tableOf at hn hm
    cases h1 : c.find? (·.hit n) with
    | none => simp [h1] at hn
    | some x =>
      cases h2 : c.find? (·.hit m) with
      | none => simp [h2] at hm
      | some y =>
        simp only [h1, h2, Option.map_some, Option.some.injEq] at hn hm
        have := mem_same_table hd (List.mem_of_find?_eq_some h1) (List.mem_of_find?_eq_some h2) (by rw [hn, hm])
        subst this
        exact hit_inj x n m (by simpa using List.find?_some h1) (by simpa using List.find?_some h2)
  exact ⟨key _ hc.dT, key _ hc.dD⟩

/-- a rule added with `lou_compileString(m, …)` goes into the table that `m` names afterwards, and
    (by `tables_distinct`) into no table that another name can reach -/
theorem added_targets_own_table (o : Oracle) (c : Core) (m : Name) (ok grow : Bool) (t : Nat) (b : Bool)
    (hev : Event.added t b ∈ (compileString o c m ok grow).events) :
    tableOf (compileString o c m ok grow).core.tr m = some t := by
  have hh := getTable_head o c m (some m)
  have hnf : ∀ t b, Event.added t b ∉ (getTable o c (some m) (some m)).events := by
    intro t b
    unfold getTable; dsimp only
    split
    · simp
    · split <;> simp
  unfold compileString at *
  generalize getTable o c (some m) (some m) = r at *
  dsimp only at *
  rcases e1 : r.res.tr with _ | a
  · simp only [e1] at hev
    exact absurd hev (hnf _ _)
  · obtain ⟨e, es, h3, h4, h5⟩ := hh a e1
    have hfind : tableOf (e :: es) m = some a := by
      simp [tableOf, h5, h4]
    simp only [e1, h3] at hev ⊢
    by_cases hfin : e.finalized = true
    · rw [if_pos hfin] at hev ⊢
      simp only [List.mem_append, List.mem_singleton, Event.added.injEq] at hev
      rcases hev with hev | ⟨rfl, _⟩
      · exact absurd hev (hnf _ _)
      · rw [h3]; exact hfind
    · rw [if_neg hfin] at hev ⊢
      by_cases hg : grow = true
      · rw [if_pos hg] at hev ⊢
        simp only [List.mem_append, List.mem_singleton, Event.added.injEq] at hev
        rcases hev with hev | ⟨rfl, _⟩
        · exact absurd hev (hnf _ _)
        · have h1 : retarget a r.core.next (e :: es) =
              (if e.table = a then { e with table := r.core.next } else e) :: retarget a r.core.next es := rfl
          dsimp only
          rw [h1, if_pos h4]
          have h6 : ({ e with table := r.core.next } : Entry).hit m = true := by simpa [Entry.hit] using h5
          simp only [tableOf]
          rw [List.find?_cons_of_pos (by simpa using h6)]
          rfl
      · rw [if_neg hg] at hev ⊢
        simp only [List.mem_append, List.mem_singleton, Event.added.injEq] at hev
        rcases hev with hev | ⟨rfl, _⟩
        · exact absurd hev (hnf _ _)
        · rw [h3]; exact hfind

/-! ### the allocation ledger -/

def b2i (b : Bool) : Int := if b then 1 else 0

def hasTable (c : List Entry) (x : Nat) : Bool := c.any (·.table == x)
def hasId (c : List Entry) (x : Nat) : Bool := c.any (·.id == x)

def slotLive : Nat → List Alloc.Slot → Nat → Bool
  | k, s :: ss, j => (k == j && s.alloc.isSome) || slotLive (k + 1) ss j
  | _, [], _ => false

/-- the blocks the library can still reach from its chains and scratch pointers -/
def liveC (c : Core) : Block → Bool
  | .trTable a => hasTable c.tr a
  | .trEntry i => hasId c.tr i
  | .dispTable a => hasTable c.disp a
  | .dispEntry i => hasId c.disp i
  | .scratch k => if k = 8 then c.wordBuf else if k = 9 then c.emphBuf else slotLive 0 (slots c.alloc) k
  | .fwdPool => false
  | .bwdPool => false

/-- … plus the two pool headers, which stay reachable from `stringBufferPool` for ever -/
def live (s : State) (b : Block) : Bool :=
  liveC s.core b || (b == .fwdPool && s.fwdPool) || (b == .bwdPool && s.bwdPool)

theorem balance_append (b : Block) (l1 l2 : List LedgerEv) :
    balance b (l1 ++ l2) = balance b l1 + balance b l2 := by
  induction l1 with
  | nil => simp [balance]
  | cons e es ih => simp [balance, ih]; omega

theorem balance_onlyIf (b : Block) (w : Option Name) (ev : LedgerEv) :
    balance b (onlyIf w ev) = if w.isSome then delta b ev else 0 := by
  unfold onlyIf; split <;> simp [balance]

theorem hasTable_push (c : List Entry) (w : Option Name) (i t x : Nat) :
    hasTable (push c w i t) x = ((w.isSome && t == x) || hasTable c x) := by
  cases w <;> simp [push, hasTable, newEntry]

theorem hasId_push (c : List Entry) (w : Option Name) (i t x : Nat) :
    hasId (push c w i t) x = ((w.isSome && i == x) || hasId c x) := by
  cases w <;> simp [push, hasId, newEntry]

theorem below_hasTable {c : List Entry} {k x : Nat} (h : Below c k) (hx : k ≤ x) : hasTable c x = false := by
  unfold hasTable
  rw [Bool.eq_false_iff]
  intro hh
  obtain ⟨e, he, heq⟩ := List.any_eq_true.mp hh
  have := (h e he).1
  simp only [beq_iff_eq] at heq
  omega

theorem below_hasId {c : List Entry} {k x : Nat} (h : Below c k) (hx : k ≤ x) : hasId c x = false := by
  unfold hasId
  rw [Bool.eq_false_iff]
  intro hh
  obtain ⟨e, he, heq⟩ := List.any_eq_true.mp hh
  have := (h e he).2
  simp only [beq_iff_eq] at heq
  omega

/-- what an operation's mallocs and frees must add up to -/
def LStep (c : Core) (r : Out) : Prop := ∀ b, balance b r.ledger = b2i (liveC r.core b) - b2i (liveC c b)

theorem liveC_congr (c c' : Core) (h1 : ∀ x, hasTable c'.tr x = hasTable c.tr x) (h2 : ∀ x, hasId c'.tr x = hasId c.tr x)
    (h3 : ∀ x, hasTable c'.disp x = hasTable c.disp x) (h4 : ∀ x, hasId c'.disp x = hasId c.disp x)
    (h5 : c'.alloc = c.alloc) (h6 : c'.wordBuf = c.wordBuf) (h7 : c'.emphBuf = c.emphBuf) (b : Block) :
    liveC c' b = liveC c b := by
  cases b <;> simp [liveC, h1, h2, h3, h4, h5, h6, h7]

theorem getTable_lstep (o : Oracle) (c : Core) (trL dispL : Option Name) (hc : CInv c) :
    LStep c (getTable o c trL dispL) := by
  unfold getTable
  dsimp only
  have ptr := look_perm c.tr (norm trL)
  have pd := look_perm c.disp (norm dispL)
  generalize look c.tr (norm trL) = tl at *
  generalize look c.disp (norm dispL) = dl at *
  generalize want tl.1 (norm trL) = wT at *
  generalize want dl.1 (norm dispL) = wD at *
  have e1 : ∀ x, hasTable tl.2 x = hasTable c.tr x := fun x => ptr.any_eq
  have e2 : ∀ x, hasId tl.2 x = hasId c.tr x := fun x => ptr.any_eq
  have e3 : ∀ x, hasTable dl.2 x = hasTable c.disp x := fun x => pd.any_eq
  have e4 : ∀ x, hasId dl.2 x = hasId c.disp x := fun x => pd.any_eq
  have same : ∀ (k : Nat) (b : Block), liveC { c with tr := tl.2, disp := dl.2, next := k } b = liveC c b :=
    fun k b => liveC_congr c { c with tr := tl.2, disp := dl.2, next := k } e1 e2 e3 e4 rfl rfl rfl b
  split
  · intro b
    have := same c.next b
    simp only [balance] at *
    rw [this]; omega
  · split
    · intro b
      dsimp only
      simp only [balance_append, balance_onlyIf]
      cases b with
      | trTable x =>
        simp only [liveC, hasTable_push, e1, delta]
        by_cases hx : c.next = x
        · subst hx
          rw [below_hasTable hc.bT (Nat.le_refl _)]
          cases wT <;> simp [b2i]
        · have : (c.next == x) = false := by simpa using hx
          simp [this, hx]
      | trEntry x =>
        simp only [liveC, hasId_push, e2, delta]
        by_cases hx : c.next + 2 = x
        · subst hx
          rw [below_hasId hc.bT (by omega)]
          cases wT <;> simp [b2i]
        · have : (c.next + 2 == x) = false := by simpa using hx
          simp [this, hx]
      | dispTable x =>
        simp only [liveC, hasTable_push, e3, delta]
        by_cases hx : c.next + 1 = x
        · subst hx
          rw [below_hasTable hc.bD (by omega)]
          cases wD <;> simp [b2i]
        · have : (c.next + 1 == x) = false := by simpa using hx
          simp [this, hx]
      | dispEntry x =>
        simp only [liveC, hasId_push, e4, delta]
        by_cases hx : c.next + 3 = x
        · subst hx
          rw [below_hasId hc.bD (by omega)]
          cases wD <;> simp [b2i]
        · have : (c.next + 3 == x) = false := by simpa using hx
          simp [this, hx]
      | scratch k => simp [liveC, delta]
      | fwdPool => simp [liveC, delta]
      | bwdPool => simp [liveC, delta]
    · intro b
      dsimp only
      rw [same (c.next + 4) b]
      simp only [balance_append, balance_onlyIf, delta]
      cases b <;> simp only [reduceCtorEq, if_false, Block.trTable.injEq, Block.dispTable.injEq, ite_self] <;>
        (repeat' split) <;> omega

theorem finalizeHead_lstep (o : Oracle) (c : Core) (r : Out) (h : LStep c r) : LStep c (finalizeHead o r) := by
  unfold finalizeHead
  split
  · rename_i a e es h1 h2
    split
    · exact h
    · split
      · intro b
        have := h b
        dsimp only
        rw [this]
        congr 2
        apply liveC_congr <;> first | rfl | (intro x; rfl) | (intro x; rw [h2]; simp [hasTable, hasId])
      · exact h
  · exact h

theorem hasId_retarget (a a' : Nat) (c : List Entry) (x : Nat) : hasId (retarget a a' c) x = hasId c x := by
  unfold hasId retarget
  rw [List.any_map]
  congr 1
  funext e
  simp only [Function.comp]
  split <;> rfl

theorem hasTable_retarget (a a' : Nat) (c : List Entry) (x : Nat) (hne : a ≠ a') :
    hasTable (retarget a a' c) x =
      if x = a' then (hasTable c a || hasTable c a') else if x = a then false else hasTable c x := by
  induction c with
  | nil => simp [hasTable, retarget]
  | cons e es ih =>
    have h1 : retarget a a' (e :: es) = (if e.table = a then { e with table := a' } else e) :: retarget a a' es := rfl
    have h2 : ∀ (y : Entry) (l : List Entry) (z : Nat), hasTable (y :: l) z = (y.table == z || hasTable l z) := by
      intro y l z; simp [hasTable]
    rw [h1, h2, ih, h2, h2, h2]
    by_cases he : e.table = a
    · rw [if_pos he]
      dsimp only
      by_cases hx : x = a'
      · subst hx; simp [he]
      · by_cases hx2 : x = a
        · subst hx2
          have : (a' == x) = false := by simpa using fun h => hx h.symm
          simp [hx, this]
        · have h3 : (a' == x) = false := by simpa using fun h => hx h.symm
          have h4 : (e.table == x) = false := by rw [he]; simpa using fun h => hx2 h.symm
          simp [hx, hx2, h3, h4]
    · rw [if_neg he]
      by_cases hx : x = a'
      · subst hx
        have : (e.table == a) = false := by simpa using he
        simp only [this, if_true, Bool.false_or]
        cases (e.table == x) <;> cases hasTable es a <;> cases hasTable es x <;> rfl
      · by_cases hx2 : x = a
        · subst hx2
          have : (e.table == x) = false := by simpa using he
          simp [hx, this]
        · simp [hx, hx2]

theorem compileString_lstep (o : Oracle) (c : Core) (n : Name) (ok grow : Bool) (hc : CInv c) :
    LStep c (compileString o c n ok grow) := by
  have hl := getTable_lstep o c (some n) (some n) hc
  have hg := (getTable_cinv o c (some n) (some n) hc).1
  have hh := getTable_head o c n (some n)
  unfold compileString
  generalize getTable o c (some n) (some n) = r at *
  dsimp only
  rcases e1 : r.res.tr with _ | a
  · exact hl
  · obtain ⟨e, es, h3, h4, h5⟩ := hh a e1
    simp only [h3]
    by_cases hfin : e.finalized = true
    · rw [if_pos hfin]; exact hl
    · rw [if_neg hfin]
      by_cases hgr : grow = true
      · rw [if_pos hgr]
        intro b
        dsimp only
        have hb := hl b
        rw [balance_append, hb]
        have hne : a ≠ r.core.next := by
          have := (hg.bT e (by rw [h3]; simp)).1
          omega
        have hA : hasTable (e :: es) a = true := by simp [hasTable, h4]
        have hN : hasTable (e :: es) r.core.next = false := below_hasTable (h3 ▸ hg.bT) (Nat.le_refl _)
        cases b with
        | trTable x =>
          simp only [liveC, balance, delta, hasTable_retarget _ _ _ _ hne, hA, hN, h3]
          by_cases hx : x = r.core.next
          · subst hx
            have : ¬ (a = r.core.next) := hne
            simp [b2i, this, hN] <;> (repeat' split) <;> omega
          · by_cases hx2 : x = a
            · subst hx2
              have : ¬ (r.core.next = x) := fun h => hx h.symm
              simp [b2i, hx, this, hA] <;> (repeat' split) <;> omega
            · have h6 : ¬ (a = x) := fun h => hx2 h.symm
              have h7 : ¬ (r.core.next = x) := fun h => hx h.symm
              simp [hx, hx2, h6, h7] <;> (repeat' split) <;> omega
        | trEntry x => simp [liveC, balance, delta, hasId_retarget, h3]
        | dispTable x => simp [liveC, balance, delta]
        | dispEntry x => simp [liveC, balance, delta]
        | scratch k => simp [liveC, balance, delta]
        | fwdPool => simp [liveC, balance, delta]
        | bwdPool => simp [liveC, balance, delta]
      · rw [if_neg hgr]; exact hl

/-! scratch buffers -/

theorem slotLive_le (k : Nat) (ss : List Alloc.Slot) (j : Nat) (h : slotLive k ss j = true) : k ≤ j := by
  induction ss generalizing k with
  | nil => simp [slotLive] at h
  | cons s ss ih =>
    simp only [slotLive, Bool.or_eq_true, Bool.and_eq_true, beq_iff_eq] at h
    rcases h with ⟨rfl, _⟩ | h
    · exact Nat.le_refl _
    · have := ih _ h; omega

theorem balance_slotsFree (j k : Nat) (ss : List Alloc.Slot) :
    balance (.scratch j) (slotsFree k ss) = - b2i (slotLive k ss j) := by
  induction ss generalizing k with
  | nil => simp [slotsFree, slotLive, balance, b2i]
  | cons s ss ih =>
    simp only [slotsFree, slotLive, balance_append, ih]
    by_cases hk : k = j
    · subst hk
      have : slotLive (k + 1) ss k = false := by
        rw [Bool.eq_false_iff]; intro h; have := slotLive_le _ _ _ h; omega
      cases hs : s.alloc.isSome <;> simp [balance, delta, b2i, this]
    · have : (k == j) = false := by simpa using hk
      cases hs : s.alloc.isSome <;> simp [balance, delta, this, hk]

theorem balance_slotsFree_other (b : Block) (k : Nat) (ss : List Alloc.Slot) (hb : ∀ j, b ≠ .scratch j) :
    balance b (slotsFree k ss) = 0 := by
  induction ss generalizing k with
  | nil => simp [slotsFree, balance]
  | cons s ss ih =>
    simp only [slotsFree, balance_append, ih]
    split
    · simp only [balance, delta]; rw [if_neg (fun h => hb k h.symm)]; omega
    · simp [balance]

def PairsOK : List Alloc.Slot → List Alloc.Slot → Prop
  | b :: bs, a :: as => (a = b ∨ a.alloc.isSome = true) ∧ PairsOK bs as
  | [], [] => True
  | _, _ => False

theorem balance_slotsEvents (j k : Nat) (bs as : List Alloc.Slot) (h : PairsOK bs as) :
    balance (.scratch j) (slotsEvents k bs as) = b2i (slotLive k as j) - b2i (slotLive k bs j) := by
  induction bs generalizing k as with
  | nil =>
    cases as with
    | nil => simp [slotsEvents, slotLive, balance]
    | cons a as => simp [PairsOK] at h
  | cons b bs ih =>
    cases as with
    | nil => simp [PairsOK] at h
    | cons a as =>
      simp only [PairsOK] at h
      simp only [slotsEvents, balance_append, ih _ _ h.2, slotLive]
      have hb : slotLive (k + 1) bs k = false := by
        rw [Bool.eq_false_iff]; intro h; have := slotLive_le _ _ _ h; omega
      have ha : slotLive (k + 1) as k = false := by
        rw [Bool.eq_false_iff]; intro h; have := slotLive_le _ _ _ h; omega
      unfold slotEvents
      by_cases hk : k = j
      · subst hk
        rw [ha, hb]
        by_cases hab : a = b
        · subst hab; simp [balance]
        · rw [if_neg hab]
          have hsome : a.alloc.isSome = true := h.1.resolve_left hab
          cases hbs : b.alloc.isSome <;> simp [balance, delta, b2i, hsome]
      · have hkj : (k == j) = false := by simpa using hk
        simp only [hkj, Bool.false_and, Bool.false_or]
        have : balance (.scratch j) (if a = b then [] else
            (if b.alloc.isSome = true then [LedgerEv.rel (.scratch k)] else []) ++ [LedgerEv.acq (.scratch k)]) = 0 := by
          split
          · rfl
          · split <;> simp [balance, delta, hk]
        rw [this]; omega

theorem balance_slotsEvents_other (b : Block) (k : Nat) (bs as : List Alloc.Slot) (hb : ∀ j, b ≠ .scratch j) :
    balance b (slotsEvents k bs as) = 0 := by
  induction bs generalizing k as with
  | nil => cases as <;> simp [slotsEvents, balance]
  | cons x bs ih =>
    cases as with
    | nil => simp [slotsEvents, balance]
    | cons a as =>
      simp only [slotsEvents, balance_append, ih]
      unfold slotEvents
      split
      · simp [balance]
      · split
        · have hk : ¬ (Block.scratch k = b) := fun h => hb k h.symm
          simp [balance, delta, hk]
        · have hk : ¬ (Block.scratch k = b) := fun h => hb k h.symm
          simp [balance, delta, hk]

theorem slotRequest_ok (s : Alloc.Slot) (w : Int) : s.request w = s ∨ (s.request w).alloc.isSome = true := by
  unfold Alloc.Slot.request
  split
  · right; rfl
  · left; rfl

theorem request_pairs (e : Bool) (b : Alloc.Buf) (i : Nat) (sm dm : Int) (s a1 : Alloc.State) (sl : Alloc.Slot)
    (h : Alloc.request e b i sm dm s = some (a1, sl)) (h1 : b ≠ .wordBuffer) (h2 : b ≠ .emphasisBuffer) :
    PairsOK (slots (Alloc.forget e i s)) (slots a1) := by
  unfold Alloc.request at h
  cases b with
  | wordBuffer => exact absurd rfl h1
  | emphasisBuffer => exact absurd rfl h2
  | passbuf =>
    match i, h with
    | 0, h =>
      simp only [Option.some.injEq, Prod.mk.injEq] at h
      obtain ⟨rfl, _⟩ := h
      simp [slots, PairsOK, slotRequest_ok]
    | 1, h =>
      simp only [Option.some.injEq, Prod.mk.injEq] at h
      obtain ⟨rfl, _⟩ := h
      simp [slots, PairsOK, slotRequest_ok]
    | 2, h =>
      simp only [Option.some.injEq, Prod.mk.injEq] at h
      obtain ⟨rfl, _⟩ := h
      simp [slots, PairsOK, slotRequest_ok]
    | n + 3, h => simp at h
  | typebuf =>
    simp only [Option.some.injEq, Prod.mk.injEq] at h
    obtain ⟨rfl, _⟩ := h
    simp [slots, PairsOK, slotRequest_ok]
  | destSpacing =>
    simp only [Option.some.injEq, Prod.mk.injEq] at h
    obtain ⟨rfl, _⟩ := h
    simp [slots, PairsOK, slotRequest_ok]
  | posMapping1 =>
    simp only [Option.some.injEq, Prod.mk.injEq] at h
    obtain ⟨rfl, _⟩ := h
    simp [slots, PairsOK, slotRequest_ok]
  | posMapping2 =>
    simp only [Option.some.injEq, Prod.mk.injEq] at h
    obtain ⟨rfl, _⟩ := h
    simp [slots, PairsOK, slotRequest_ok]
  | posMapping3 =>
    simp only [Option.some.injEq, Prod.mk.injEq] at h
    obtain ⟨rfl, _⟩ := h
    simp [slots, PairsOK, slotRequest_ok]

theorem slotLive_forget (e : Bool) (i : Nat) (s : Alloc.State) (k j : Nat) :
    slotLive k (slots (Alloc.forget e i s)) j = slotLive k (slots s) j := by
  unfold Alloc.forget
  cases e with
  | false => rfl
  | true =>
    simp only [if_true, slots, slotLive, Alloc.Slot.forget]
    split <;> split <;> split <;> rfl

theorem scratch_lstep (c : Core) (e : Bool) (b : Alloc.Buf) (i : Nat) (sm dm : Int) :
    LStep c (scratch c e b i sm dm) := by
  have other : ∀ (a1 : Alloc.State) (sl : Alloc.Slot), Alloc.request e b i sm dm c.alloc = some (a1, sl) →
      b ≠ .wordBuffer → b ≠ .emphasisBuffer →
      LStep c { core := { c with alloc := a1 },
                ledger := slotsEvents 0 (slots (Alloc.forget e i c.alloc)) (slots a1) } := by
    intro a1 sl hr h1 h2 blk
    have hp := request_pairs e b i sm dm c.alloc a1 sl hr h1 h2
    cases blk with
    | scratch j =>
      dsimp only
      rw [balance_slotsEvents j 0 _ _ hp, slotLive_forget]
      simp only [liveC]
      by_cases h8 : j = 8
      · subst h8; simp [slots, slotLive]
      · by_cases h9 : j = 9
        · subst h9; simp [slots, slotLive]
        · simp [h8, h9]
    | trTable x => dsimp only; rw [balance_slotsEvents_other _ _ _ _ (by intro j; simp)]; simp [liveC]
    | trEntry x => dsimp only; rw [balance_slotsEvents_other _ _ _ _ (by intro j; simp)]; simp [liveC]
    | dispTable x => dsimp only; rw [balance_slotsEvents_other _ _ _ _ (by intro j; simp)]; simp [liveC]
    | dispEntry x => dsimp only; rw [balance_slotsEvents_other _ _ _ _ (by intro j; simp)]; simp [liveC]
    | fwdPool => dsimp only; rw [balance_slotsEvents_other _ _ _ _ (by intro j; simp)]; simp [liveC]
    | bwdPool => dsimp only; rw [balance_slotsEvents_other _ _ _ _ (by intro j; simp)]; simp [liveC]
  unfold scratch
  cases b with
  | wordBuffer =>
    intro blk
    dsimp only
    cases blk with
    | scratch j =>
      by_cases hj : j = 8
      · subst hj
        cases hw : c.wordBuf <;> simp [liveC, balance, delta, b2i, hw]
      · have : ¬ (8 = j) := fun h => hj h.symm
        cases hw : c.wordBuf <;> simp [liveC, balance, delta, hj, this]
    | trTable x => cases hw : c.wordBuf <;> simp [liveC, balance, delta]
    | trEntry x => cases hw : c.wordBuf <;> simp [liveC, balance, delta]
    | dispTable x => cases hw : c.wordBuf <;> simp [liveC, balance, delta]
    | dispEntry x => cases hw : c.wordBuf <;> simp [liveC, balance, delta]
    | fwdPool => cases hw : c.wordBuf <;> simp [liveC, balance, delta]
    | bwdPool => cases hw : c.wordBuf <;> simp [liveC, balance, delta]
  | emphasisBuffer =>
    intro blk
    dsimp only
    cases blk with
    | scratch j =>
      by_cases hj : j = 9
      · subst hj
        cases hw : c.emphBuf <;> simp [liveC, balance, delta, b2i, hw]
      · have : ¬ (9 = j) := fun h => hj h.symm
        cases hw : c.emphBuf <;> simp [liveC, balance, delta, hj, this]
    | trTable x => cases hw : c.emphBuf <;> simp [liveC, balance, delta]
    | trEntry x => cases hw : c.emphBuf <;> simp [liveC, balance, delta]
    | dispTable x => cases hw : c.emphBuf <;> simp [liveC, balance, delta]
    | dispEntry x => cases hw : c.emphBuf <;> simp [liveC, balance, delta]
    | fwdPool => cases hw : c.emphBuf <;> simp [liveC, balance, delta]
    | bwdPool => cases hw : c.emphBuf <;> simp [liveC, balance, delta]
  | typebuf =>
    dsimp only
    cases hr : Alloc.request e .typebuf i sm dm c.alloc with
    | none => intro blk; simp [balance]
    | some p => exact other p.1 p.2 hr (by simp) (by simp)
  | destSpacing =>
    dsimp only
    cases hr : Alloc.request e .destSpacing i sm dm c.alloc with
    | none => intro blk; simp [balance]
    | some p => exact other p.1 p.2 hr (by simp) (by simp)
  | passbuf =>
    dsimp only
    cases hr : Alloc.request e .passbuf i sm dm c.alloc with
    | none => intro blk; simp [balance]
    | some p => exact other p.1 p.2 hr (by simp) (by simp)
  | posMapping1 =>
    dsimp only
    cases hr : Alloc.request e .posMapping1 i sm dm c.alloc with
    | none => intro blk; simp [balance]
    | some p => exact other p.1 p.2 hr (by simp) (by simp)
  | posMapping2 =>
    dsimp only
    cases hr : Alloc.request e .posMapping2 i sm dm c.alloc with
    | none => intro blk; simp [balance]
    | some p => exact other p.1 p.2 hr (by simp) (by simp)
  | posMapping3 =>
    dsimp only
    cases hr : Alloc.request e .posMapping3 i sm dm c.alloc with
    | none => intro blk; simp [balance]
    | some p => exact other p.1 p.2 hr (by simp) (by simp)

theorem stepCore_lstep (o : Oracle) (c : Core) (op : Op) (hc : CInv c) : LStep c (stepCore o c op) := by
  cases op with
  | get t d f =>
    simp only [stepCore]
    split
    · exact finalizeHead_lstep o c _ (getTable_lstep o c t d hc)
    · exact getTable_lstep o c t d hc
  | compileString n ok g => exact compileString_lstep o c n ok g hc
  | scratch e b i sm dm => exact scratch_lstep c e b i sm dm
  | pool b => intro blk; simp [stepCore, balance]
  | free => intro blk; simp [stepCore, balance]

/-! ### lou_free and the whole machine -/

def LInv (s : State) : Prop := ∀ b, balance b s.ledger = b2i (live s b)

theorem balance_freeTr (c : List Entry) (hd : Distinct c) (b : Block) :
    balance b (freeTr c) = - b2i (match b with | .trTable x => hasTable c x | .trEntry x => hasId c x | _ => false) := by
  induction c with
  | nil => cases b <;> simp [freeTr, balance, hasTable, hasId, b2i]
  | cons e es ih =>
    have hp := List.pairwise_cons.mp hd
    have h1 : freeTr (e :: es) = [LedgerEv.rel (.trTable e.table), LedgerEv.rel (.trEntry e.id)] ++ freeTr es := by
      simp [freeTr]
    rw [h1, balance_append, ih hp.2]
    cases b with
    | trTable x =>
      simp only [balance, delta, hasTable, List.any_cons]
      by_cases hx : e.table = x
      · subst hx
        have : es.any (·.table == e.table) = false := by
          rw [Bool.eq_false_iff]; intro hh
          obtain ⟨y, hy, hyy⟩ := List.any_eq_true.mp hh
          exact (hp.1 y hy).1 (beq_iff_eq.mp hyy).symm
        simp [b2i, this]
      · have : (e.table == x) = false := by simpa using hx
        simp [hx, this]
    | trEntry x =>
      simp only [balance, delta, hasId, List.any_cons]
      by_cases hx : e.id = x
      · subst hx
        have : es.any (·.id == e.id) = false := by
          rw [Bool.eq_false_iff]; intro hh
          obtain ⟨y, hy, hyy⟩ := List.any_eq_true.mp hh
          exact (hp.1 y hy).2 (beq_iff_eq.mp hyy).symm
        simp [b2i, this]
      · have : (e.id == x) = false := by simpa using hx
        simp [hx, this]
    | dispTable x => simp [balance, delta, b2i]
    | dispEntry x => simp [balance, delta, b2i]
    | scratch k => simp [balance, delta, b2i]
    | fwdPool => simp [balance, delta, b2i]
    | bwdPool => simp [balance, delta, b2i]

theorem balance_freeDisp (c : List Entry) (hd : Distinct c) (b : Block) :
    balance b (freeDisp c) = - b2i (match b with | .dispTable x => hasTable c x | .dispEntry x => hasId c x | _ => false) := by
  induction c with
  | nil => cases b <;> simp [freeDisp, balance, hasTable, hasId, b2i]
  | cons e es ih =>
    have hp := List.pairwise_cons.mp hd
    have h1 : freeDisp (e :: es) = [LedgerEv.rel (.dispTable e.table), LedgerEv.rel (.dispEntry e.id)] ++ freeDisp es := by
      simp [freeDisp]
    rw [h1, balance_append, ih hp.2]
    cases b with
    | dispTable x =>
      simp only [balance, delta, hasTable, List.any_cons]
      by_cases hx : e.table = x
      · subst hx
        have : es.any (·.table == e.table) = false := by
          rw [Bool.eq_false_iff]; intro hh
          obtain ⟨y, hy, hyy⟩ := List.any_eq_true.mp hh
          exact (hp.1 y hy).1 (beq_iff_eq.mp hyy).symm
        simp [b2i, this]
      · have : (e.table == x) = false := by simpa using hx
        simp [hx, this]
    | dispEntry x =>
      simp only [balance, delta, hasId, List.any_cons]
      by_cases hx : e.id = x
      · subst hx
        have : es.any (·.id == e.id) = false := by
          rw [Bool.eq_false_iff]; intro hh
          obtain ⟨y, hy, hyy⟩ := List.any_eq_true.mp hh
          exact (hp.1 y hy).2 (beq_iff_eq.mp hyy).symm
        simp [b2i, this]
      · have : (e.id == x) = false := by simpa using hx
        simp [hx, this]
    | trTable x => simp [balance, delta, b2i]
    | trEntry x => simp [balance, delta, b2i]
    | scratch k => simp [balance, delta, b2i]
    | fwdPool => simp [balance, delta, b2i]
    | bwdPool => simp [balance, delta, b2i]

/-- `lou_free` releases exactly the blocks the library could reach from its chains and scratch pointers -/
theorem balance_freeEvents (c : Core) (hc : CInv c) (b : Block) : balance b (freeEvents c) = - b2i (liveC c b) := by
  unfold freeEvents
  simp only [balance_append, balance_freeTr _ hc.dT, balance_freeDisp _ hc.dD]
  cases b with
  | scratch j =>
    rw [balance_slotsFree]
    simp only [liveC]
    by_cases h8 : j = 8
    · subst h8
      cases hw : c.wordBuf <;> cases he : c.emphBuf <;> simp [slots, slotLive, balance, delta, b2i]
    · by_cases h9 : j = 9
      · subst h9
        cases hw : c.wordBuf <;> cases he : c.emphBuf <;> simp [slots, slotLive, balance, delta, b2i]
      · have a8 : ¬ (8 = j) := fun h => h8 h.symm
        have a9 : ¬ (9 = j) := fun h => h9 h.symm
        cases hw : c.wordBuf <;> cases he : c.emphBuf <;> simp [balance, delta, b2i, h8, h9, a8, a9]
  | trTable x =>
    rw [balance_slotsFree_other _ _ _ (by intro j; simp)]
    cases hw : c.wordBuf <;> cases he : c.emphBuf <;> simp [liveC, balance, delta, b2i] <;> rfl
  | trEntry x =>
    rw [balance_slotsFree_other _ _ _ (by intro j; simp)]
    cases hw : c.wordBuf <;> cases he : c.emphBuf <;> simp [liveC, balance, delta, b2i] <;> rfl
  | dispTable x =>
    rw [balance_slotsFree_other _ _ _ (by intro j; simp)]
    cases hw : c.wordBuf <;> cases he : c.emphBuf <;> simp [liveC, balance, delta, b2i] <;> rfl
  | dispEntry x =>
    rw [balance_slotsFree_other _ _ _ (by intro j; simp)]
    cases hw : c.wordBuf <;> cases he : c.emphBuf <;> simp [liveC, balance, delta, b2i] <;> rfl
  | fwdPool =>
    rw [balance_slotsFree_other _ _ _ (by intro j; simp)]
    cases hw : c.wordBuf <;> cases he : c.emphBuf <;> simp [liveC, balance, delta, b2i] <;> rfl
  | bwdPool =>
    rw [balance_slotsFree_other _ _ _ (by intro j; simp)]
    cases hw : c.wordBuf <;> cases he : c.emphBuf <;> simp [liveC, balance, delta, b2i] <;> rfl

theorem liveC_init (b : Block) : liveC {} b = false := by
  cases b <;> simp [liveC, hasTable, hasId, slots, slotLive]

theorem liveC_pool (c : Core) : liveC c .fwdPool = false ∧ liveC c .bwdPool = false := ⟨rfl, rfl⟩

theorem b2i_arith (n o p : Bool) (h : p = true → n = false ∧ o = false) :
    b2i (o || p) + (b2i n - b2i o) = b2i (n || p) := by
  cases n <;> cases o <;> cases p <;> simp [b2i] at *

theorem pool_not_liveC (c : Core) (b : Block) (fp bp : Bool)
    (h : ((b == Block.fwdPool && fp) || (b == Block.bwdPool && bp)) = true) : liveC c b = false := by
  cases b <;> simp [liveC] at *

theorem step_linv (o : Oracle) (s : State) (op : Op) (hc : CInv s.core) (h : LInv s) : LInv (step o s op).1 := by
  have core : ∀ op', LInv
      ({ s with core := (stepCore o s.core op').core, ledger := s.ledger ++ (stepCore o s.core op').ledger,
                log := s.log ++ (stepCore o s.core op').events } : State) := by
    intro op' b
    have hl := stepCore_lstep o s.core op' hc b
    have hb := h b
    dsimp only
    rw [balance_append, hl, hb]
    unfold live
    dsimp only
    rw [Bool.or_assoc, Bool.or_assoc]
    exact b2i_arith _ _ _ (fun hp => ⟨pool_not_liveC _ b _ _ hp, pool_not_liveC _ b _ _ hp⟩)
  cases op with
  | get t d f => exact core _
  | compileString n ok g => exact core _
  | scratch e b i sm dm => exact core _
  | pool back =>
    cases back with
    | false =>
      simp only [step]
      split
      · exact h
      · rename_i hp
        intro b
        have hb := h b
        dsimp only
        rw [balance_append, hb]
        unfold live
        cases b <;> simp_all [balance, delta, b2i, liveC]
    | true =>
      simp only [step]
      split
      · exact h
      · rename_i hp
        intro b
        have hb := h b
        dsimp only
        rw [balance_append, hb]
        unfold live
        cases b <;> simp_all [balance, delta, b2i, liveC]
  | free =>
    intro b
    have hb := h b
    simp only [step]
    rw [balance_append, hb, balance_freeEvents _ hc]
    unfold live
    dsimp only
    rw [liveC_init]
    cases b <;> simp [b2i, liveC] <;> (repeat' split) <;> simp_all

theorem init_linv : LInv State.init := by
  intro b
  cases b <;> simp [State.init, balance, live, liveC, hasTable, hasId, slots, slotLive, b2i]

theorem run_inv (o : Oracle) (h : List Op) : ∀ s, CInv s.core → LInv s →
    CInv (run o s h).1.core ∧ LInv (run o s h).1 := by
  induction h with
  | nil => intro s h1 h2; exact ⟨h1, h2⟩
  | cons op ops ih => intro s h1 h2; exact ih _ (step_cinv o s op h1) (step_linv o s op h1 h2)

/-- **ledger_consistent**: after ANY history, every block the modelled code ever malloc'ed is either
    freed exactly once or still reachable from a chain entry, a scratch pointer or a pool pointer —
    no leak, no double free, no dangling chain entry (also across table growth/realloc and move-to-front) -/
theorem ledger_consistent (o : Oracle) (h : List Op) (b : Block) :
    balance b (run o State.init h).1.ledger = b2i (live (run o State.init h).1 b) :=
  (run_inv o h State.init init_cinv init_linv).2 b

/-- **ledger_empty**: after `lou_free` — wherever it comes in whatever history — nothing the library
    allocated is left, except the two never-freed pool headers (if a translation / back-translation
    ran), which stay reachable from their static pointer -/
theorem ledger_empty (o : Oracle) (h : List Op) (b : Block) :
    let s := (run o State.init h).1
    balance b (step o s .free).1.ledger = b2i ((b == .fwdPool && s.fwdPool) || (b == .bwdPool && s.bwdPool)) := by
  intro s
  obtain ⟨h1, h2⟩ := run_inv o h State.init init_cinv init_linv
  have := step_linv o s .free h1 h2 b
  rw [this]
  simp only [step, live, liveC_init, Bool.false_or]

/-- **free_resets**: the state after `lou_free` is the initial state, up to the two pool headers -/
theorem free_resets (o : Oracle) (s : State) :
    (step o s .free).1.core = State.init.core ∧ (step o s .free).1.fwdPool = s.fwdPool ∧
    (step o s .free).1.bwdPool = s.bwdPool := ⟨rfl, rfl, rfl⟩

theorem step_core_only (o : Oracle) (s s' : State) (op : Op) (h : s.core = s'.core) :
    (step o s op).2 = (step o s' op).2 ∧ (step o s op).1.core = (step o s' op).1.core ∧
    ∃ evs, (step o s op).1.log = s.log ++ evs ∧ (step o s' op).1.log = s'.log ++ evs := by
  obtain ⟨c, fp, bp, led, lg⟩ := s
  obtain ⟨c', fp', bp', led', lg'⟩ := s'
  simp only at h
  subst h
  cases op with
  | get t d f => exact ⟨rfl, rfl, _, rfl, rfl⟩
  | compileString n ok g => exact ⟨rfl, rfl, _, rfl, rfl⟩
  | scratch e b i sm dm => exact ⟨rfl, rfl, _, rfl, rfl⟩
  | pool b =>
    cases b <;> (simp only [step]; split <;> split <;> exact ⟨rfl, rfl, [], by simp, by simp⟩)
  | free => exact ⟨rfl, rfl, [.freed], rfl, rfl⟩

theorem run_core_only (o : Oracle) (h : List Op) : ∀ (s s' : State), s.core = s'.core →
    (run o s h).2 = (run o s' h).2 ∧
    ∃ evs, (run o s h).1.log = s.log ++ evs ∧ (run o s' h).1.log = s'.log ++ evs := by
  induction h with
  | nil => intro s s' _; exact ⟨rfl, [], by simp [run], by simp [run]⟩
  | cons op ops ih =>
    intro s s' hc
    obtain ⟨h1, h2, evs, h3, h4⟩ := step_core_only o s s' op hc
    obtain ⟨h5, evs', h6, h7⟩ := ih _ _ h2
    refine ⟨by simp only [run, h1, h5], evs ++ evs', ?_, ?_⟩
    · simp only [run]; rw [h6, h3, List.append_assoc]
    · simp only [run]; rw [h7, h4, List.append_assoc]

/-- **fresh_after_free**: after `lou_free`, every further history of calls returns what it returns in
    a fresh process (same tables handed out or refused, same return values) and compiles exactly the
    same lists in the same order — whatever happened before the `lou_free` -/
theorem fresh_after_free (o : Oracle) (before after : List Op) :
    let s := (step o (run o State.init before).1 .free).1
    (run o s after).2 = (run o State.init after).2 ∧
    ∃ evs, (run o s after).1.log = s.log ++ evs ∧ (run o State.init after).1.log = evs := by
  intro s
  obtain ⟨h1, evs, h2, h3⟩ := run_core_only o after s State.init rfl
  exact ⟨h1, evs, h2, by simpa [State.init] using h3⟩

/-! ### compile once, as the property states it (public calls) -/

theorem want_spec (c : List Entry) (l : Option Name) :
    want (look c l).1 l = match l with
      | none => none
      | some n => if cached c n then none else some n := by
  cases l with
  | none => simp [want]
  | some n =>
    dsimp only
    by_cases hc : cached c n = true
    · rw [if_pos hc]; exact want_cached c n hc
    · rw [if_neg hc]
      have h1 := lookup_isSome c n
      rw [Bool.eq_false_iff.mpr hc] at h1
      simp only [look]
      cases hx : (lookup c n).1 with
      | none => simp [want]
      | some e => rw [hx] at h1; simp at h1

/-- the events are "diagonal": both roles, one list, and the result is the oracle's -/
def Diag (o : Oracle) (ev : Event) : Prop :=
  match ev with
  | .compile t d ok => t = d ∧ t.isSome = true ∧ ok = o.compiles t d
  | _ => True

def PubInv (c : Core) : Prop := ∀ n, cached c.tr n = cached c.disp n

theorem getTable_public (o : Oracle) (c : Core) (a : Name) (h : PubInv c) :
    PubInv (getTable o c (some a) (some a)).core ∧ ∀ ev ∈ (getTable o c (some a) (some a)).events, Diag o ev := by
  unfold getTable
  dsimp only
  have ptr := look_perm c.tr (norm (some a))
  have pd := look_perm c.disp (norm (some a))
  have wt := want_spec c.tr (norm (some a))
  have wd := want_spec c.disp (norm (some a))
  have hwd : want (look c.disp (norm (some a))).1 (norm (some a)) = want (look c.tr (norm (some a))).1 (norm (some a)) := by
    rw [wt, wd]
    cases norm (some a) with
    | none => rfl
    | some n => dsimp only; rw [h n]
  rw [hwd]
  generalize look c.tr (norm (some a)) = tl at *
  generalize look c.disp (norm (some a)) = dl at *
  generalize want tl.1 (norm (some a)) = w at *
  have base : ∀ n, cached tl.2 n = cached dl.2 n := fun n => by rw [cached_perm ptr, cached_perm pd, h n]
  split
  · exact ⟨base, by simp⟩
  · rename_i hw
    have hs : w.isSome = true := by
      cases w with
      | none => simp at hw
      | some _ => rfl
    split
    · refine ⟨fun n => ?_, ?_⟩
      · dsimp only; rw [cached_push, cached_push, base n]
      · intro ev hev
        simp only [List.mem_singleton] at hev
        subst hev
        rename_i hok
        exact ⟨rfl, hs, hok.symm⟩
    · refine ⟨base, ?_⟩
      intro ev hev
      simp only [List.mem_singleton] at hev
      subst hev
      rename_i hok
      exact ⟨rfl, hs, by simpa using hok⟩

theorem stepCore_public (o : Oracle) (c : Core) (op : Op) (hp : op.isPublic = true) (h : PubInv c) :
    PubInv (stepCore o c op).core ∧ ∀ ev ∈ (stepCore o c op).events, Diag o ev := by
  cases op with
  | get t d f =>
    cases t with
    | none => simp [Op.isPublic] at hp
    | some a =>
      cases d with
      | none => simp [Op.isPublic] at hp
      | some b =>
        cases f with
        | false => simp [Op.isPublic] at hp
        | true =>
          simp only [Op.isPublic, decide_eq_true_eq] at hp
          subst hp
          obtain ⟨h1, h2⟩ := getTable_public o c a h
          simp only [stepCore, if_true]
          unfold finalizeHead
          split
          · rename_i x e es e1 e2
            split
            · exact ⟨h1, h2⟩
            · split
              · refine ⟨fun n => ?_, h2⟩
                dsimp only; rw [cached_setFinal, ← e2]; exact h1 n
              · exact ⟨h1, h2⟩
          · exact ⟨h1, h2⟩
  | compileString n ok g =>
    obtain ⟨h1, h2⟩ := getTable_public o c n h
    simp only [stepCore]
    unfold compileString
    generalize getTable o c (some n) (some n) = r at *
    dsimp only
    have hadd : ∀ (x : Nat) (b : Bool), ∀ ev ∈ r.events ++ [Event.added x b], Diag o ev := by
      intro x b ev hev
      simp only [List.mem_append, List.mem_singleton] at hev
      rcases hev with hev | rfl
      · exact h2 ev hev
      · trivial
    split
    · rename_i a e es e1 e2
      split
      · exact ⟨h1, hadd _ _⟩
      · split
        · refine ⟨fun m => ?_, hadd _ _⟩
          dsimp only; rw [cached_retarget, ← e2]; exact h1 m
        · exact ⟨h1, hadd _ _⟩
    · exact ⟨h1, h2⟩
  | scratch e b i sm dm =>
    obtain ⟨h1, h2, _, h4⟩ := scratch_chains c e b i sm dm
    simp only [stepCore]
    exact ⟨fun n => by rw [h1, h2]; exact h n, by simp [h4]⟩
  | pool b => exact ⟨h, by simp [stepCore]⟩
  | free => exact ⟨h, by simp [stepCore]⟩

theorem run_public (o : Oracle) (h : List Op) (hp : ∀ op ∈ h, op.isPublic = true) : ∀ s,
    PubInv s.core → (∀ ev ∈ s.log, Diag o ev) →
    PubInv (run o s h).1.core ∧ ∀ ev ∈ (run o s h).1.log, Diag o ev := by
  induction h with
  | nil => intro s h1 h2; exact ⟨h1, h2⟩
  | cons op ops ih =>
    intro s h1 h2
    have hop := hp op (by simp)
    have core : ∀ op', op'.isPublic = true →
        PubInv (stepCore o s.core op').core ∧ ∀ ev ∈ s.log ++ (stepCore o s.core op').events, Diag o ev := by
      intro op' hp'
      obtain ⟨a, b⟩ := stepCore_public o s.core op' hp' h1
      refine ⟨a, fun ev hev => ?_⟩
      simp only [List.mem_append] at hev
      rcases hev with hev | hev
      · exact h2 ev hev
      · exact b ev hev
    apply ih (fun x hx => hp x (by simp [hx]))
    · cases op with
      | get t d f => exact (core _ hop).1
      | compileString n ok g => exact (core _ hop).1
      | scratch e b i sm dm => exact (core _ hop).1
      | pool b => cases b <;> (simp only [step]; split <;> exact h1)
      | free => intro n; rfl
    · cases op with
      | get t d f => exact (core _ hop).2
      | compileString n ok g => exact (core _ hop).2
      | scratch e b i sm dm => exact (core _ hop).2
      | pool b => cases b <;> (simp only [step]; split <;> exact h2)
      | free =>
        intro ev hev
        simp only [step, List.mem_append, List.mem_singleton] at hev
        rcases hev with hev | rfl
        · exact h2 ev hev
        · trivial

theorem epochCount_congr (p q : Event → Bool) (log : List Event) (h : ∀ ev ∈ log, p ev = q ev) :
    epochCount p log = epochCount q log := by
  have : ∀ (l : List Event) (acc : Nat), (∀ ev ∈ l, p ev = q ev) →
      l.foldl (fun acc ev => if ev = .freed then 0 else if p ev then acc + 1 else acc) acc =
      l.foldl (fun acc ev => if ev = .freed then 0 else if q ev then acc + 1 else acc) acc := by
    intro l
    induction l with
    | nil => intro _ _; rfl
    | cons e es ih =>
      intro acc hh
      simp only [List.foldl_cons]
      rw [hh e (by simp)]
      exact ih _ (fun x hx => hh x (by simp [hx]))
  exact this log 0 h

/-- **compile_once_public**: in ANY history of the public calls that ask for both tables with one list
    (lou_getTable / lou_checkTable / lou_translate* / lou_backTranslate* / lou_hyphenate /
    lou_compileString, scratch requests, lou_free anywhere), a list `n` whose compilation succeeds has
    its files read by at most ONE compileTable call since the last `lou_free` (exactly one if it is
    cached, none otherwise) -/
theorem compile_once_public (o : Oracle) (h : List Op) (hp : ∀ op ∈ h, op.isPublic = true) (n : Name)
    (hok : o.compiles (some n) (some n) = true) :
    epochCount (isCompileOf n) (run o State.init h).1.log = b2n (cached (run o State.init h).1.core.tr n) ∧
    epochCount (isCompileOf n) (run o State.init h).1.log ≤ 1 := by
  obtain ⟨_, hd⟩ := run_public o h hp State.init (fun _ => rfl) (by simp [State.init])
  have hc := compile_once o h n
  have : epochCount (isCompileOf n) (run o State.init h).1.log = epochCount (isTrCompiled n) (run o State.init h).1.log := by
    apply epochCount_congr
    intro ev hev
    have := hd ev hev
    cases ev with
    | compile t d ok =>
      obtain ⟨rfl, hs, rfl⟩ := this
      cases t with
      | none => simp at hs
      | some m =>
        by_cases hm : m = n
        · subst hm; simp [isCompileOf, isTrCompiled, hok]
        · generalize o.compiles (some m) (some m) = b
          cases b <;> simp [isCompileOf, isTrCompiled, hm]
    | added t b => rfl
    | freed => rfl
  rw [this]
  exact ⟨hc.1, hc.2.2.1⟩

theorem epochCount_false (log : List Event) : epochCount (fun _ => false) log = 0 := by
  unfold epochCount
  induction log with
  | nil => rfl
  | cons e es ih =>
    simp only [List.foldl_cons]
    have : (if e = Event.freed then 0 else if (false = true) then 0 + 1 else 0) = 0 := by split <;> simp
    rw [this]; exact ih

/-- (a) a FAILED compilation is not cached: every call that names a bad list compiles it again -/
theorem failed_compile_repeats :
    let o : Oracle := { compiles := fun _ _ => false }
    let bad : Name := [98]
    epochCount (isCompileOf bad)
      (run o State.init [.get (some bad) (some bad) true, .get (some bad) (some bad) true,
                         .get (some bad) (some bad) true]).1.log = 3 := by decide

/-- in general: while the compilation of `n` fails, `n` never enters a chain -/
theorem failed_never_cached (o : Oracle) (h : List Op) (n : Name) (hbad : ∀ d, o.compiles (some n) d = false) :
    cached (run o State.init h).1.core.tr n = false := by
  have hc := (compile_once o h n).1
  have hz : ∀ log : List Event, (∀ ev ∈ log, isTrCompiled n ev = false) → epochCount (isTrCompiled n) log = 0 := by
    intro log hl
    rw [epochCount_congr _ (fun _ => false) log hl]
    exact epochCount_false log
  -- every successful compile event in the log agrees with the oracle
  have hlog : ∀ (hh : List Op) (s : State), (∀ ev ∈ s.log, isTrCompiled n ev = false) →
      ∀ ev ∈ (run o s hh).1.log, isTrCompiled n ev = false := by
    intro hh
    induction hh with
    | nil => intro s hs; exact hs
    | cons op ops ih =>
      intro s hs
      apply ih
      have core : ∀ op', ∀ ev ∈ s.log ++ (stepCore o s.core op').events, isTrCompiled n ev = false := by
        intro op' ev hev
        simp only [List.mem_append] at hev
        rcases hev with hev | hev
        · exact hs ev hev
        · have gt : ∀ t d, ∀ ev ∈ (getTable o s.core t d).events, isTrCompiled n ev = false := by
            intro t d ev hev
            unfold getTable at hev
            dsimp only at hev
            split at hev
            · simp at hev
            · split at hev
              · rename_i hok
                simp only [List.mem_singleton] at hev
                subst hev
                generalize want (look s.core.tr (norm t)).1 (norm t) = wT at *
                cases wT with
                | none => rfl
                | some m =>
                  by_cases hm : m = n
                  · subst hm; rw [hbad] at hok; simp at hok
                  · simp [isTrCompiled, hm]
              · simp only [List.mem_singleton] at hev
                subst hev
                cases want (look s.core.tr (norm t)).1 (norm t) <;> rfl
          cases op' with
          | get t d f =>
            simp only [stepCore] at hev
            split at hev
            · unfold finalizeHead at hev
              split at hev
              · split at hev
                · exact gt t d ev hev
                · split at hev <;> exact gt t d ev hev
              · exact gt t d ev hev
            · exact gt t d ev hev
          | compileString m ok g =>
            simp only [stepCore] at hev
            unfold compileString at hev
            dsimp only at hev
            split at hev
            · split at hev
              · simp only [List.mem_append, List.mem_singleton] at hev
                rcases hev with hev | rfl
                · exact gt _ _ ev hev
                · rfl
              · split at hev
                · simp only [List.mem_append, List.mem_singleton] at hev
                  rcases hev with hev | rfl
                  · exact gt _ _ ev hev
                  · rfl
                · simp only [List.mem_append, List.mem_singleton] at hev
                  rcases hev with hev | rfl
                  · exact gt _ _ ev hev
                  · rfl
            · exact gt _ _ ev hev
          | scratch e b i sm dm =>
            simp only [stepCore] at hev
            rw [(scratch_chains s.core e b i sm dm).2.2.2] at hev; simp at hev
          | pool b => simp [stepCore] at hev
          | free => simp [stepCore] at hev
      cases op with
      | get t d f => exact core _
      | compileString m ok g => exact core _
      | scratch e b i sm dm => exact core _
      | pool b => cases b <;> (simp only [step]; split <;> exact hs)
      | free =>
        intro ev hev
        simp only [step, List.mem_append, List.mem_singleton] at hev
        rcases hev with hev | rfl
        · exact hs ev hev
        · rfl
  have := hz _ (hlog h State.init (by simp [State.init]))
  rw [this] at hc
  unfold b2n at hc
  cases hcc : cached (run o State.init h).1.core.tr n with
  | false => rfl
  | true => rw [hcc] at hc; simp at hc

/-- (b) the two roles of one list are compiled separately when a call asks for one role only:
    `lou_charToDots(n)` then `lou_translate(n)` reads the files of `n` twice -/
theorem roles_compiled_separately :
    let o : Oracle := { compiles := fun _ _ => true }
    let n : Name := [97]
    (run o State.init [.get none (some n) false, .get (some n) (some n) true]).1.log =
      [.compile none (some n) true, .compile (some n) none true] := by decide

/-- non-vacuity and a worked example: lists `a`, `ab` (a is a prefix of ab), a bad list, a rule added
    to `a` that makes its table move, `lou_free`, reuse — table identities, compile events, ledger -/
example :
    let o : Oracle := { compiles := fun t d => t != some [98] && d != some [98] }
    let a : Name := [97]
    let ab : Name := [97, 98]
    let h : List Op := [.compileString a true true, .get (some a) (some a) true, .get (some ab) (some ab) true,
                        .get (some [98]) (some [98]) true, .get (some a) (some a) true, .pool false,
                        .scratch false .typebuf 0 10 20, .free, .get (some a) (some a) true]
    (run o State.init h).2.map (·.tr) = [some 4, some 4, some 5, none, some 4, none, none, none, some 0] ∧
    (run o State.init h).1.log = [.compile (some a) (some a) true, .added 4 true, .compile (some ab) (some ab) true,
        .compile (some [98]) (some [98]) false, .freed, .compile (some a) (some a) true] := by decide

end Lou.Cache
