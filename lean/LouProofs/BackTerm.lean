/-
  Termination of the main pass of the backward engine model (C03, Layer B): every iteration of `Back.step` that does
  not end the loop consumes at least one cell — for EVERY table, without hypotheses — so the `n + 1` fuel of
  `Back.translate` is never what stops it.
-/
import LouProofs.BackOK

namespace Lou.BackTerm
open Lou Lou.Gen Lou.Back Lou.BackOK

theorem walkChain_pos (t : Table) (mode : Nat) (ctx : Ctx) (input : List Nat) (pos length before prevOp : Nat) :
    ∀ (chain : List Nat) (s : Sel), walkChain t mode ctx input pos length before prevOp chain = some s →
      1 ≤ s.dotslen := by
  intro chain
  induction chain with
  | nil => intro s h; simp [walkChain] at h
  | cons i rest ih =>
    intro s h
    unfold walkChain at h
    split at h
    · cases h
    · rename_i r hr
      simp only [] at h
      split at h
      · rename_i hc
        cases h
        simp only [Bool.and_eq_true, decide_eq_true_eq] at hc
        exact hc.1.1.2
      · exact ih s h

theorem selectRule_pos (t : Table) (mode : Nat) (ctx : Ctx) (input : List Nat) (pos before prevOp : Nat) :
    1 ≤ (selectRule t mode ctx input pos before prevOp).dotslen := by
  unfold selectRule
  simp only []
  split
  · rename_i s hs
    split at hs
    · cases hs
    · exact walkChain_pos _ _ _ _ _ _ _ _ _ _ hs
  · split
    · rename_i s hs
      split at hs
      · exact walkChain_pos _ _ _ _ _ _ _ _ _ _ hs
      · cases hs
    · simp

theorem each_pos (t : Table) (mode : Nat) (input : List Nat) (max : Nat) :
    ∀ (k p : Nat) (o : Out) (p' : Nat) (o' : Out), step.each t mode input max k p o = some (p', o') → p' = p + k := by
  intro k
  induction k with
  | zero => intro p o p' o' h; simp [step.each] at h; omega
  | succ k ih =>
    intro p o p' o' h
    unfold step.each at h
    split at h
    · cases h
    · rename_i o1 h1
      have := ih (p + 1) o1 p' o' h
      omega

/-- an iteration that does not end the loop moves the position forward -/
theorem step_adv (t : Table) (mode : Nat) (input : List Nat) (max : Nat) (st : St)
    (h : (step t mode input max st).2 = false) : st.pos < (step t mode input max st).1.pos := by
  unfold step at h ⊢
  simp only [] at h ⊢
  generalize hsel : selectRule t mode _ input st.pos (beforeAttrs t st.out) st.prevOp = sel at h ⊢
  have hd : 1 ≤ sel.dotslen := by rw [← hsel]; exact selectRule_pos _ _ _ _ _ _ _
  split
  · show st.pos < st.pos + sel.dotslen; omega
  · rename_i hns
    simp only [hns, ↓reduceIte] at h
    split
    · rename_i hem; simp only [hem] at h; cases h
    · rename_i p' o' hem
      have key : st.pos < p' := by
        split at hem
        · cases hu : undefinedDots (inAt input st.pos) mode st.pos max st.out with
          | none => simp [hu] at hem
          | some o1 =>
            simp only [hu, Option.map_some, Option.some.injEq, Prod.mk.injEq] at hem
            omega
        · split at hem
          · cases hem
          · rename_i r hr
            split at hem
            · cases hu : updatePositions r.chars r.dots.length st.pos input max st.out with
              | none => simp [hu] at hem
              | some o1 =>
                simp only [hu, Option.map_some, Option.some.injEq, Prod.mk.injEq] at hem
                omega
            · have c := each_pos t mode input max _ _ _ _ _ hem
              omega
      simp only []
      split <;> exact key


/-- **C03 for the backward main pass of the model**: `n - pos` iterations are enough, for every table, input, mode
    and capacity -/
theorem loop_fuel (t : Table) (mode : Nat) (input : List Nat) (max : Nat) :
    ∀ (fuel : Nat) (st : St), StInvB input.length max st → input.length - st.pos ≤ fuel →
      loop t mode input max (fuel + 1) st = loop t mode input max fuel st := by
  intro fuel
  induction fuel with
  | zero =>
    intro st hinv h
    have : ¬ st.pos < input.length := by have := hinv.2.1; omega
    simp [loop, this]
  | succ f ih =>
    intro st hinv h
    rw [loop.eq_2 (fuel := f + 1), loop.eq_2 (fuel := f)]
    by_cases hlt : st.pos < input.length
    · simp only [hlt, ↓reduceIte]
      have hs := step_ok t mode input max st hinv hlt
      have ha := step_adv t mode input max st
      generalize step t mode input max st = r at hs ha
      obtain ⟨st', done⟩ := r
      simp only [] at ha ⊢
      cases done
      · simp only [Bool.false_eq_true, ↓reduceIte]
        have := ha rfl
        exact ih st' hs (by omega)
      · simp
    · simp [hlt]

theorem translate_fuel (t : Table) (mode : Nat) (input : List Nat) (max : Nat) (cpos : Int) (k : Nat) :
    loop t mode input max (input.length + 1 + k) { out := { cpos := cpos, cstat := 0 } } =
    loop t mode input max (input.length + 1) { out := { cpos := cpos, cstat := 0 } } := by
  have hinv : StInvB input.length max ({ out := { cpos := cpos, cstat := 0 } } : St) :=
    ⟨Nat.zero_le _, Nat.zero_le _, Nat.zero_le _⟩
  induction k with
  | zero => rfl
  | succ k ih => rw [← Nat.add_assoc, loop_fuel t mode input max _ _ hinv (by show input.length - 0 ≤ _; omega), ih]

end Lou.BackTerm
