/-
  ModelEngine.lean — the Layer B engine models plugged into the Layer A driver: they satisfy the contract the driver
  theorems assume of an arbitrary engine, so C01/C02/C04 hold for the modelled `_lou_translate` / `_lou_backTranslate`
  without any hypothesis on the engines.
-/
import LouProofs.C01
import LouProofs.C04
import LouProofs.C07
import LouProofs.C06Pass
import LouProofs.FwdOK
import LouProofs.BackOK
import LouProofs.C02
import LouProofs.C04Back
import LouModel.Engine
import LouProofs.FwdCOK
import LouProofs.BackCOK

namespace Lou.ModelEngine
open Lou Lou.Gen Lou.Drv Lou.Contract

export Lou.Engine (modelEngine modelEngineBack)

/-- **modelEngine_ok**: the modelled engines satisfy the contract the Layer A theorems assume of an arbitrary
    engine (E1–E4), and E5 (no negative map entry) -/
theorem modelEngine_ok (t : Table) : EngineOKFwd (modelEngine t) ∧ EngineNonNeg (modelEngine t) := by
  constructor
  · intro ini hist pin
    unfold modelEngine
    split
    · have h := FwdOK.translate_contract t ini.mode pin.chars pin.maxlen pin.cpos pin.cstat
      simp only [] at h
      exact ⟨h.1, h.2.1, h.2.2.1, fun p hp => by have := h.2.2.2 p hp; omega⟩
    · have h := C06Pass.fwdStage_contract t pin.passNo pin.chars pin.maxlen
      cases hs : Pass.fwdStage t pin.passNo pin.chars pin.maxlen with
      | unsupported => exact ⟨Nat.zero_le _, rfl, Nat.zero_le _, by simp⟩
      | fuel => exact ⟨Nat.zero_le _, rfl, Nat.zero_le _, by simp⟩
      | done o =>
        rw [hs] at h
        obtain ⟨h1, h2, h3, h4⟩ := h
        exact ⟨h1, h2, h3, fun p hp => by have := h4 p hp; omega⟩
  · intro ini hist pin p hp
    unfold modelEngine at hp
    split at hp
    · exact ((FwdOK.translate_contract t ini.mode pin.chars pin.maxlen pin.cpos pin.cstat).2.2.2 p hp).1
    · have h := C06Pass.fwdStage_contract t pin.passNo pin.chars pin.maxlen
      cases hs : Pass.fwdStage t pin.passNo pin.chars pin.maxlen with
      | unsupported => simp [hs] at hp
      | fuel => simp [hs] at hp
      | done o =>
        rw [hs] at h hp
        exact (h.2.2.2 p hp).1

/-- **model_driver_fwd_safe** (C01 without a hypothesis on the engines): with the modelled engines plugged in, every
    access `_lou_translate` performs itself is inside its buffer, for every table, all valid arguments and capacities -/
theorem model_driver_fwd_safe (caps : Caps) (ti : TableInfo) (t : Table) (a : Args)
    (hv : C01.ArgsValid a) (hc : C01.CapsOK caps a) :
    ∀ x ∈ fwdAccesses caps ti (modelEngine t) a, x.ok = true :=
  C01.driver_fwd_safe caps ti (modelEngine t) a (modelEngine_ok t).1 hv hc

/-- **model_fwd_lengths** (C04 likewise): the reported lengths lie within the supplied ones -/
theorem model_fwd_lengths (ti : TableInfo) (disp : Nat → Nat) (t : Table) (a : Args)
    (hret : (fwd (some ti) disp (modelEngine t) a).ret = 1) :
    -1 ≤ (fwd (some ti) disp (modelEngine t) a).inlen ∧
    (fwd (some ti) disp (modelEngine t) a).inlen ≤ a.inbuf.length ∧
    0 ≤ (fwd (some ti) disp (modelEngine t) a).outlen ∧
    (fwd (some ti) disp (modelEngine t) a).outlen ≤ a.outlen :=
  C04.fwd_lengths ti disp (modelEngine t) a (modelEngine_ok t).1 hret

/-- with an engine that satisfies E1–E5 no entry of the composed position map is negative -/
theorem fwdRun_nonneg (ti : TableInfo) (e : Engine) (a : Args) (he : EngineOKFwd e) (hn : EngineNonNeg e) :
    ∀ p ∈ (fwdRun ti e a).posMapping, 0 ≤ p := by
  unfold fwdRun fwdPassList
  simp only [List.foldl_cons]
  have h1 := fwdStep_first e (initFwd a (cutAtNul a.inbuf)) a.outlen
    { input := cutAtNul a.inbuf, posMapping := [], output := [], cpos := (fwdCursorInit a).1,
      cstat := (fwdCursorInit a).2, hist := [], first := true } (if ti.corrections = true then 0 else 1) he rfl
  apply C04.foldl_nonneg e _ _ _ he _ _ h1.1
  intro p hp
  unfold fwdStep at hp
  simp only [if_true] at hp
  rcases List.mem_append.mp hp with h | h
  · exact hn _ _ _ p h
  · simp at h; subst h; omega

/-- **model_fwd_roundtrip** (C07(3) with the modelled engines, no hypothesis left): mapping an output cell to its
    input position and back never lands behind that cell -/
theorem model_fwd_roundtrip (ti : TableInfo) (disp : Nat → Nat) (t : Table) (a : Args)
    (h : (fwd (some ti) disp (modelEngine t) a).ret = 1) (hpos : 0 < (fwd (some ti) disp (modelEngine t) a).inlen)
    (k : Nat) (hk : k < (fwdRun ti (modelEngine t) a).output.length) :
    PosMap.scan (fwd (some ti) disp (modelEngine t) a).inlen (fwdRun ti (modelEngine t) a).output.length
      (fwdRun ti (modelEngine t) a).posMapping (fun _ => -1)
      (PosMap.clamp (fwd (some ti) disp (modelEngine t) a).inlen
        (((fwdRun ti (modelEngine t) a).posMapping.take (fwdRun ti (modelEngine t) a).output.length).getD k 0)) ≤ k := by
  have hi := fwdRun_inv ti (modelEngine t) a (modelEngine_ok t).1
  have hnn := fwdRun_nonneg ti (modelEngine t) a (modelEngine_ok t).1 (modelEngine_ok t).2
  generalize hs : fwdRun ti (modelEngine t) a = s at hi hnn hk ⊢
  have hfw : fwd (some ti) disp (modelEngine t) a = fwdFinish disp a s := by unfold fwd; simp only []; rw [hs]
  rw [hfw] at h hpos ⊢
  have hlen : s.output.length < s.posMapping.length := by have := hi.len; omega
  have hr := C07.fwd_roundtrip disp a s h hpos hlen (fun p hp => hnn p (List.mem_of_mem_take hp)) k hk
  have hk' : k < (s.posMapping.take s.output.length).length := by rw [List.length_take]; omega
  rw [List.getD_eq_getElem?_getD, List.getElem?_eq_getElem hk']
  exact hr

/-! ### backward -/

/-- **modelEngineBack_ok**: the backward engines of Layer B satisfy the clauses of the contract the backward driver
    theorems use (E1 output within the capacity, E3 consumed length within the input) -/
theorem modelEngineBack_ok (t : Table) : C02.EngineOKBack (modelEngineBack t) := by
  intro ini hist pin
  unfold modelEngineBack
  split
  · have h := BackOK.translate_contract t ini.mode pin.chars pin.maxlen pin.cpos
    exact ⟨h.1, h.2⟩
  · have h := C06Pass.backStage_contract t pin.passNo pin.chars pin.maxlen
    cases hs : Pass.backStage t pin.passNo pin.chars pin.maxlen with
    | unsupported => exact ⟨Nat.zero_le _, Nat.zero_le _⟩
    | fuel => exact ⟨Nat.zero_le _, Nat.zero_le _⟩
    | done o =>
      rw [hs] at h
      exact ⟨h.1, h.2.2⟩

theorem model_driver_back_safe (caps : Caps) (srcCap : Int) (ti : TableInfo) (dotsFor : Nat → Nat) (t : Table) (a : Args)
    (hv : C01.ArgsValid a) (hsrc : ((cutAtNul a.inbuf).length : Int) + 4 ≤ srcCap) (hc : C01.CapsOK caps a) :
    ∀ x ∈ backAccesses caps srcCap ti dotsFor (modelEngineBack t) a, x.ok = true :=
  C02.driver_back_safe caps srcCap ti dotsFor (modelEngineBack t) a (modelEngineBack_ok t) hv hsrc hc

theorem model_back_lengths (ti : TableInfo) (dotsFor : Nat → Nat) (t : Table) (a : Args)
    (hret : (back (some ti) dotsFor (modelEngineBack t) a).ret = 1) :
    0 ≤ (back (some ti) dotsFor (modelEngineBack t) a).inlen ∧
    (back (some ti) dotsFor (modelEngineBack t) a).inlen ≤ a.inbuf.length ∧
    0 ≤ (back (some ti) dotsFor (modelEngineBack t) a).outlen ∧
    (back (some ti) dotsFor (modelEngineBack t) a).outlen ≤ a.outlen := by
  have h := C04.back_lengths ti dotsFor (modelEngineBack t) a (modelEngineBack_ok t) hret
  exact ⟨h.1, h.2.2.1, h.2.2.2.1, h.2.2.2.2⟩

end Lou.ModelEngine

namespace Lou.ModelEngine
open Lou Lou.Gen Lou.Drv Lou.Contract

/-- the engine with the context main pass satisfies the same contract -/
theorem modelEngineC_ok (t : Table) : EngineOKFwd (Engine.modelEngineC t) ∧ EngineNonNeg (Engine.modelEngineC t) := by
  constructor
  · intro ini hist pin
    unfold Engine.modelEngineC
    split
    · cases hr : FwdC.translateC t ini.mode pin.chars pin.maxlen pin.cpos pin.cstat with
      | unsupported => exact ⟨Nat.zero_le _, rfl, Nat.zero_le _, by simp⟩
      | fuel => exact ⟨Nat.zero_le _, rfl, Nat.zero_le _, by simp⟩
      | done r =>
        have h := FwdCOK.translateC_contract t ini.mode pin.chars pin.maxlen pin.cpos pin.cstat r hr
        exact ⟨h.1, h.2.1, h.2.2.1, fun p hp => by have := h.2.2.2 p hp; omega⟩
    · have h := C06Pass.fwdStage_contract t pin.passNo pin.chars pin.maxlen
      cases hs : Pass.fwdStage t pin.passNo pin.chars pin.maxlen with
      | unsupported => exact ⟨Nat.zero_le _, rfl, Nat.zero_le _, by simp⟩
      | fuel => exact ⟨Nat.zero_le _, rfl, Nat.zero_le _, by simp⟩
      | done o =>
        rw [hs] at h
        obtain ⟨h1, h2, h3, h4⟩ := h
        exact ⟨h1, h2, h3, fun p hp => by have := h4 p hp; omega⟩
  · intro ini hist pin p hp
    unfold Engine.modelEngineC at hp
    split at hp
    · cases hr : FwdC.translateC t ini.mode pin.chars pin.maxlen pin.cpos pin.cstat with
      | unsupported => simp [hr] at hp
      | fuel => simp [hr] at hp
      | done r =>
        rw [hr] at hp
        exact ((FwdCOK.translateC_contract t ini.mode pin.chars pin.maxlen pin.cpos pin.cstat r hr).2.2.2 p hp).1
    · have h := C06Pass.fwdStage_contract t pin.passNo pin.chars pin.maxlen
      cases hs : Pass.fwdStage t pin.passNo pin.chars pin.maxlen with
      | unsupported => simp [hs] at hp
      | fuel => simp [hs] at hp
      | done o =>
        rw [hs] at h hp
        exact (h.2.2.2 p hp).1

/-- the engine `callFwd` runs satisfies the contract, whichever of the two it is -/
theorem engineFor_ok (t : Table) : EngineOKFwd (Engine.engineFor t) ∧ EngineNonNeg (Engine.engineFor t) := by
  unfold Engine.engineFor
  split
  · exact modelEngineC_ok t
  · exact modelEngine_ok t

/-- **whole_call_fwd_roundtrip** (C07(3) for every call the whole-call model covers): mapping an output cell to its input
    position and back never lands behind that cell -/
theorem whole_call_fwd_roundtrip (ti : TableInfo) (disp : Nat → Nat) (t : Table) (a : Args)
    (h : (fwd (some ti) disp (Engine.engineFor t) a).ret = 1) (hpos : 0 < (fwd (some ti) disp (Engine.engineFor t) a).inlen)
    (k : Nat) (hk : k < (fwdRun ti (Engine.engineFor t) a).output.length) :
    PosMap.scan (fwd (some ti) disp (Engine.engineFor t) a).inlen (fwdRun ti (Engine.engineFor t) a).output.length
      (fwdRun ti (Engine.engineFor t) a).posMapping (fun _ => -1)
      (PosMap.clamp (fwd (some ti) disp (Engine.engineFor t) a).inlen
        (((fwdRun ti (Engine.engineFor t) a).posMapping.take (fwdRun ti (Engine.engineFor t) a).output.length).getD k 0)) ≤ k := by
  have hi := fwdRun_inv ti (Engine.engineFor t) a (engineFor_ok t).1
  have hnn := fwdRun_nonneg ti (Engine.engineFor t) a (engineFor_ok t).1 (engineFor_ok t).2
  generalize hs : fwdRun ti (Engine.engineFor t) a = s at hi hnn hk ⊢
  have hfw : fwd (some ti) disp (Engine.engineFor t) a = fwdFinish disp a s := by unfold fwd; simp only []; rw [hs]
  rw [hfw] at h hpos ⊢
  have hlen : s.output.length < s.posMapping.length := by have := hi.len; omega
  have hr := C07.fwd_roundtrip disp a s h hpos hlen (fun p hp => hnn p (List.mem_of_mem_take hp)) k hk
  have hk' : k < (s.posMapping.take s.output.length).length := by rw [List.length_take]; omega
  rw [List.getD_eq_getElem?_getD, List.getElem?_eq_getElem hk']
  exact hr

/-- what the protocol operation MCALL prints IS the driver model run with the modelled engines: the theorems of this
    file are about exactly the function the whole-call differential compares with the code -/
theorem callFwd_eq (t : Table) (disp : Nat → Nat) (a : Args) (r : Result) (hs : List (PassIn × PassOut))
    (h : Engine.callFwd t disp a = .ok (r, hs)) :
    r = fwd (some (Engine.tableInfo t)) disp (Engine.engineFor t) a ∧ hs = (fwdRun (Engine.tableInfo t) (Engine.engineFor t) a).hist := by
  unfold Engine.callFwd at h
  split at h
  · cases h
  · split at h
    · cases h
    · simp only [] at h
      split at h
      · cases h
      · split at h
        · cases h
        · cases h; exact ⟨rfl, rfl⟩

/-- the backward engine with the context main pass satisfies the clauses the backward driver theorems use -/
theorem modelEngineBackC_ok (t : Table) : C02.EngineOKBack (Engine.modelEngineBackC t) := by
  intro ini hist pin
  unfold Engine.modelEngineBackC
  split
  · cases hr : BackC.translateC t ini.mode pin.chars pin.maxlen pin.cpos with
    | unsupported => exact ⟨Nat.zero_le _, Nat.zero_le _⟩
    | fuel => exact ⟨Nat.zero_le _, Nat.zero_le _⟩
    | failed => exact ⟨Nat.zero_le _, Nat.zero_le _⟩
    | done r =>
      have h := BackCOK.translateC_contract t ini.mode pin.chars pin.maxlen pin.cpos r hr
      exact ⟨h.1, h.2⟩
  · have h := C06Pass.backStage_contract t pin.passNo pin.chars pin.maxlen
    cases hs : Pass.backStage t pin.passNo pin.chars pin.maxlen with
    | unsupported => exact ⟨Nat.zero_le _, Nat.zero_le _⟩
    | fuel => exact ⟨Nat.zero_le _, Nat.zero_le _⟩
    | done o =>
      rw [hs] at h
      exact ⟨h.1, h.2.2⟩

theorem engineForBack_ok (t : Table) : C02.EngineOKBack (Engine.engineForBack t) := by
  unfold Engine.engineForBack
  split
  · exact modelEngineBackC_ok t
  · exact modelEngineBack_ok t

theorem callBack_eq (t : Table) (dotsFor : Nat → Nat) (a : Args) (r : Result) (hs : List (PassIn × PassOut))
    (h : Engine.callBack t dotsFor a = .ok (r, hs)) :
    r = back (some (Engine.tableInfo t)) dotsFor (Engine.engineForBack t) a := by
  unfold Engine.callBack at h
  split at h
  · cases h
  · simp only [] at h
    split at h
    · cases h
    · split at h
      · cases h
      · cases h; rfl

theorem callBack_eq_hist (t : Table) (dotsFor : Nat → Nat) (a : Args) (r : Result) (hs : List (PassIn × PassOut))
    (h : Engine.callBack t dotsFor a = .ok (r, hs)) :
    hs = (backRun (Engine.tableInfo t) dotsFor (Engine.engineForBack t) a).hist := by
  unfold Engine.callBack at h
  split at h
  · cases h
  · simp only [] at h
    split at h
    · cases h
    · split at h
      · cases h
      · cases h; rfl

/-- **whole_call_back_lengths**: every result the backward whole-call model prints has its lengths within what the
    caller passed -/
theorem whole_call_back_lengths (t : Table) (dotsFor : Nat → Nat) (a : Args) (r : Result) (hs : List (PassIn × PassOut))
    (h : Engine.callBack t dotsFor a = .ok (r, hs)) (hret : r.ret = 1) :
    0 ≤ r.inlen ∧ r.inlen ≤ a.inbuf.length ∧ 0 ≤ r.outlen ∧ r.outlen ≤ a.outlen := by
  have he := callBack_eq t dotsFor a r hs h
  subst he
  have h' := C04.back_lengths (Engine.tableInfo t) dotsFor (Engine.engineForBack t) a (engineForBack_ok t) hret
  exact ⟨h'.1, h'.2.2.1, h'.2.2.2.1, h'.2.2.2.2⟩

/-- **whole_call_fwd**: every result the whole-call model prints satisfies the length clauses of C04 — consumed and
    produced lengths within what the caller passed -/
theorem whole_call_fwd_lengths (t : Table) (disp : Nat → Nat) (a : Args) (r : Result) (hs : List (PassIn × PassOut))
    (h : Engine.callFwd t disp a = .ok (r, hs)) (hret : r.ret = 1) :
    -1 ≤ r.inlen ∧ r.inlen ≤ a.inbuf.length ∧ 0 ≤ r.outlen ∧ r.outlen ≤ a.outlen := by
  obtain ⟨rfl, -⟩ := callFwd_eq t disp a r hs h
  exact C04.fwd_lengths (Engine.tableInfo t) disp (Engine.engineFor t) a (engineFor_ok t).1 hret

/-- **whole_call_fwd_safe**: every access the driver performs in a call the whole-call model covers is inside its buffer -/
theorem whole_call_fwd_safe (caps : Caps) (t : Table) (a : Args) (hv : C01.ArgsValid a) (hc : C01.CapsOK caps a) :
    ∀ x ∈ fwdAccesses caps (Engine.tableInfo t) (Engine.engineFor t) a, x.ok = true :=
  C01.driver_fwd_safe caps (Engine.tableInfo t) (Engine.engineFor t) a (engineFor_ok t).1 hv hc

end Lou.ModelEngine

namespace Lou.ModelEngine
open Lou Lou.Drv

/-- **whole_call_back_safe**: every access the backward driver performs in a call the whole-call model covers (B0 main
    pass with or without context rules, literal multipass stages) is inside its buffer -/
theorem whole_call_back_safe (caps : Caps) (srcCap : Int) (dotsFor : Nat → Nat) (t : Table) (a : Args)
    (hv : C01.ArgsValid a) (hsrc : ((cutAtNul a.inbuf).length : Int) + 4 ≤ srcCap) (hc : C01.CapsOK caps a) :
    ∀ x ∈ backAccesses caps srcCap (Engine.tableInfo t) dotsFor (Engine.engineForBack t) a, x.ok = true :=
  C02.driver_back_safe caps srcCap (Engine.tableInfo t) dotsFor (Engine.engineForBack t) a (engineForBack_ok t) hv hsrc hc

end Lou.ModelEngine
