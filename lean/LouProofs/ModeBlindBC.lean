/-
  C09 — `ModeBlind`, part 4: the backward main pass with context rules (`BackC.translateC`).
-/
import LouModel.BackwardCtx
import LouProofs.ModeBlindB

namespace Lou.C09B
open Lou Lou.Gen Lou.Back Lou.BackC Lou.C09

theorem walkChainC_enc (t : Table) (m : Nat) (ctx : Back.Ctx) (input : List Nat) (pos length before prevOp : Nat)
    (vars : List Nat) (chain : List Nat) :
    walkChainC t (m ||| encBits) ctx input pos length before prevOp vars chain =
      walkChainC t m ctx input pos length before prevOp vars chain := by
  induction chain with
  | nil => rfl
  | cons i rest ih =>
    unfold walkChainC
    simp only [opcodeAccepts_enc, ih]

theorem selectRuleC_enc (t : Table) (m : Nat) (ctx : Back.Ctx) (input : List Nat) (pos before prevOp : Nat) (vars : List Nat) :
    selectRuleC t (m ||| encBits) ctx input pos before prevOp vars = selectRuleC t m ctx input pos before prevOp vars := by
  unfold selectRuleC
  simp only [walkChainC_enc]

theorem copyChars_enc (t : Table) (m : Nat) (input : List Nat) (max : Nat) (k : Nat) : ∀ (frm to : Int) (o : Out),
    copyChars t (m ||| encBits) input max k frm to o = copyChars t m input max k frm to o := by
  induction k with
  | zero => intro frm to o; rfl
  | succ k ih =>
    intro frm to o
    unfold copyChars
    simp only [putCharacter_enc, ih]

theorem actLoopC_enc (t : Table) (m : Nat) (p : List Nat) (input : List Nat) (mt : Pass.Match) (max dsm : Nat) (fuel : Nat) :
    ∀ (ic : Nat) (o : Out) (dsr : Nat) (newPos : Int) (vars : List Nat),
    actLoopC t (m ||| encBits) p input mt max dsm fuel ic o dsr newPos vars = actLoopC t m p input mt max dsm fuel ic o dsr newPos vars := by
  induction fuel with
  | zero => intro ic o dsr newPos vars; rfl
  | succ f ih =>
    intro ic o dsr newPos vars
    unfold actLoopC
    simp only [copyChars_enc, ih]

theorem actionC_enc (t : Table) (m : Nat) (p : List Nat) (input : List Nat) (mt : Pass.Match) (ic max : Nat) (o : Out) (vars : List Nat) :
    actionC t (m ||| encBits) p input mt ic max o vars = actionC t m p input mt ic max o vars := by
  unfold actionC
  simp only [copyChars_enc, actLoopC_enc]

theorem emitPlain_enc (t : Table) (m : Nat) (input : List Nat) (maxlen : Nat) (sel : Sel) (st : St) :
    emitPlain t (m ||| encBits) input maxlen sel st = emitPlain t m input maxlen sel st := by
  unfold emitPlain
  simp only [undefinedDots_enc, step_each_enc]

theorem replC_enc (t : Table) (m : Nat) (input : List Nat) (maxlen : Nat) (s : SelC) (st : St) (vars : List Nat) :
    replC t (m ||| encBits) input maxlen s st vars = replC t m input maxlen s st vars := by
  unfold replC
  simp only [actionC_enc, emitPlain_enc]

theorem afterC_enc (t : Table) (m : Nat) (input : List Nat) (maxlen : Nat) (p' : Nat) (o' : Out) (vars1 : List Nat) :
    afterC t (m ||| encBits) input maxlen p' o' vars1 = afterC t m input maxlen p' o' vars1 := by
  unfold afterC
  simp only [actionC_enc]

theorem stepC_enc (t : Table) (m : Nat) (input : List Nat) (maxlen : Nat) (sc : StC) :
    stepC t (m ||| encBits) input maxlen sc = stepC t m input maxlen sc := by
  unfold stepC
  simp only [selectRuleC_enc, replC_enc, afterC_enc]

theorem loopC_enc (t : Table) (m : Nat) (input : List Nat) (maxlen : Nat) (fuel : Nat) : ∀ sc : StC,
    loopC t (m ||| encBits) input maxlen fuel sc = loopC t m input maxlen fuel sc := by
  induction fuel with
  | zero => intro sc; rfl
  | succ f ih =>
    intro sc
    unfold loopC
    simp only [stepC_enc, ih]

/-- **the backward main pass with context rules ignores the encoding bits** -/
theorem translateC_enc (t : Table) (m : Nat) (input : List Nat) (maxlen : Nat) (cpos : Int) :
    translateC t (m ||| encBits) input maxlen cpos = translateC t m input maxlen cpos := by
  unfold translateC
  simp only [loopC_enc]

theorem translateC_sameEnc (t : Table) (m m' : Nat) (h : m ||| encBits = m' ||| encBits) (input : List Nat) (maxlen : Nat)
    (cpos : Int) : translateC t m input maxlen cpos = translateC t m' input maxlen cpos := by
  rw [← translateC_enc t m, ← translateC_enc t m', h]

end Lou.C09B
