/-
  BackCRefine.lean — the backward main pass with context rules (BackwardCtx.lean) restricted to tables WITHOUT context
  rules is the B0 backward main pass (Backward.lean): the two runs go through the same states except for the remembered
  previous opcode (the extended model follows the C code, where `passSelectRule` leaves `always` behind after every
  replacement; B0 remembers the selected opcode), and that field is only ever compared with `joinword`, which neither
  model can hold.  Hence `translateC = .done translate`.
-/
import LouProofs.BackCOK
import LouProofs.BackTerm
import LouProofs.CurBlindB

namespace Lou.BackCRefine
open Lou Lou.Gen Lou.Back Lou.BackC Lou.BackOK Lou.BackCOK

def NoCtx (t : Table) : Prop := (∀ r ∈ t.rules, r.opcode ≠ CTO_Context) ∧ t.backPassChain 1 = []

theorem rule_noctx (t : Table) (h : NoCtx t) (i : Nat) (r : Rule) (hr : t.rule? i = some r) : (r.opcode == CTO_Context) = false := by
  have hm : r ∈ t.rules := List.mem_of_find?_eq_some hr
  have := h.1 r hm
  simpa using this

/-- the previous opcode matters only through the comparison with `joinword` -/
theorem opcodeAccepts_prev (t : Table) (mode : Nat) (ctx : Back.Ctx) (input : List Nat) (pos : Nat) (r : Rule) (n before after p1 p2 : Nat)
    (h1 : p1 ≠ CTO_JoinableWord) (h2 : p2 ≠ CTO_JoinableWord) :
    opcodeAccepts t mode ctx input pos r n before after p1 = opcodeAccepts t mode ctx input pos r n before after p2 := by
  unfold opcodeAccepts
  have e1 : (p1 != CTO_JoinableWord) = true := by simpa using h1
  have e2 : (p2 != CTO_JoinableWord) = true := by simpa using h2
  simp only [e1, e2]

theorem walkChainC_eq (t : Table) (h : NoCtx t) (mode : Nat) (ctx : Back.Ctx) (input : List Nat) (pos length before p1 p2 : Nat)
    (vars : List Nat) (h1 : p1 ≠ CTO_JoinableWord) (h2 : p2 ≠ CTO_JoinableWord) :
    ∀ chain : List Nat, walkChainC t mode ctx input pos length before p1 vars chain =
      (walkChain t mode ctx input pos length before p2 chain).map (fun s => ({ sel := s } : SelC)) := by
  intro chain
  induction chain with
  | nil => simp [walkChainC, walkChain]
  | cons i rest ih =>
    unfold walkChainC walkChain
    cases hr : t.rule? i with
    | none => rfl
    | some r =>
      simp only [rule_noctx t h i r hr, Bool.false_eq_true, ↓reduceIte]
      rw [opcodeAccepts_prev t mode ctx input pos r r.dots.length before (afterAttrs t input pos r.dots.length) p1 p2 h1 h2]
      split
      · simp
      · exact ih

theorem selectRuleC_eq (t : Table) (h : NoCtx t) (mode : Nat) (ctx : Back.Ctx) (input : List Nat) (pos before p1 p2 : Nat)
    (vars : List Nat) (h1 : p1 ≠ CTO_JoinableWord) (h2 : p2 ≠ CTO_JoinableWord) :
    selectRuleC t mode ctx input pos before p1 vars = { sel := selectRule t mode ctx input pos before p2 } := by
  unfold selectRuleC selectRule
  simp only [walkChainC_eq t h mode ctx input pos _ before p1 p2 vars h1 h2]
  by_cases hc : (decide (input.length - pos < 2) || (ctx.itsANumber != 0 && (t.getDots (inAt input pos)).attrs &&& CTC_LitDigit != 0)) = true
  · simp only [hc, ↓reduceIte]
    by_cases h1' : input.length - pos ≥ 1
    · simp only [h1', ↓reduceIte]
      cases hw1 : walkChain t mode ctx input pos 1 before p2 (t.getDots (inAt input pos)).chain <;> simp
    · simp [h1']
  · simp only [hc, Bool.false_eq_true, ↓reduceIte]
    cases hw : walkChain t mode ctx input pos (input.length - pos) before p2
        (t.backBucket (((t.getDots (inAt input pos)).value * 256 + (t.getDots (inAt input (pos + 1))).value) % HASHNUM)) with
    | some s => simp
    | none =>
      simp only [Option.map_none]
      by_cases h1' : input.length - pos ≥ 1
      · simp only [h1', ↓reduceIte]
        cases hw1 : walkChain t mode ctx input pos 1 before p2 (t.getDots (inAt input pos)).chain <;> simp
      · simp [h1']


/-- a rule the chain walk accepts is never a `joinword` rule (the opcode is outside the fragment) -/
theorem opcodeAccepts_op (t : Table) (mode : Nat) (ctx : Back.Ctx) (input : List Nat) (pos : Nat) (r : Rule) (n before after p : Nat)
    (h : opcodeAccepts t mode ctx input pos r n before after p = true) : r.opcode ≠ CTO_JoinableWord := by
  intro he
  unfold opcodeAccepts at h
  simp only [he] at h
  simp +decide only [Bool.false_eq_true, ↓reduceIte, Bool.and_false, Bool.false_and, Bool.or_false, Bool.and_self] at h

theorem walkChain_op (t : Table) (mode : Nat) (ctx : Back.Ctx) (input : List Nat) (pos length before prevOp : Nat) :
    ∀ (chain : List Nat) (s : Sel), walkChain t mode ctx input pos length before prevOp chain = some s →
      s.opcode ≠ CTO_JoinableWord := by
  intro chain
  induction chain with
  | nil => intro s h; simp [walkChain] at h
  | cons i rest ih =>
    intro s h
    unfold walkChain at h
    split at h
    · cases h
    · rename_i r hr
      simp only [] at h
      split at h
      · rename_i hc
        cases h
        simp only [Bool.and_eq_true] at hc
        exact opcodeAccepts_op _ _ _ _ _ _ _ _ _ _ hc.2
      · exact ih s h

theorem selectRule_op (t : Table) (mode : Nat) (ctx : Back.Ctx) (input : List Nat) (pos before prevOp : Nat) :
    (selectRule t mode ctx input pos before prevOp).opcode ≠ CTO_JoinableWord := by
  unfold selectRule
  simp only []
  split
  · rename_i s hs
    split at hs
    · cases hs
    · exact walkChain_op _ _ _ _ _ _ _ _ _ _ hs
  · split
    · rename_i s hs
      split at hs
      · exact walkChain_op _ _ _ _ _ _ _ _ _ _ hs
      · cases hs
    · decide

/-- the simulation: everything equal except the remembered previous opcode, which is never `joinword` on either side -/
structure Sim (sc : StC) (st : St) : Prop where
  pos : sc.st.pos = st.pos
  out : sc.st.out = st.out
  ctx : sc.st.ctx = st.ctx
  srcword : sc.st.srcword = st.srcword
  destword : sc.st.destword = st.destword
  applied : sc.st.applied = st.applied
  p1 : sc.st.prevOp ≠ CTO_JoinableWord
  p2 : st.prevOp ≠ CTO_JoinableWord
  un : sc.unsupported = false
  fl : sc.failed = false

theorem afterC_none (t : Table) (h : NoCtx t) (mode : Nat) (input : List Nat) (max p' : Nat) (o' : Out) (vars : List Nat) :
    afterC t mode input max p' o' vars = some (p', o', vars, CTO_Always) := by
  unfold afterC
  simp only [h.2, Pass.rulesOf, List.filterMap_nil, Pass.select]

theorem emitPlain_congr (t : Table) (mode : Nat) (input : List Nat) (max : Nat) (sel : Sel) (st st' : St)
    (hp : st.pos = st'.pos) (ho : st.out = st'.out) :
    emitPlain t mode input max sel st = emitPlain t mode input max sel st' := by
  unfold emitPlain
  simp only [hp, ho]

theorem stepC_sim (t : Table) (h : NoCtx t) (mode : Nat) (input : List Nat) (max : Nat) (sc : StC) (st : St) (hs : Sim sc st) :
    Sim (stepC t mode input max sc).1 (step t mode input max st).1 ∧
    (stepC t mode input max sc).2 = (step t mode input max st).2 := by
  obtain ⟨⟨p, o, c, po, sw, dw, ap⟩, vs, un, fl⟩ := sc
  obtain ⟨p', o', c', po', sw', dw', ap'⟩ := st
  obtain ⟨h1, h2, h3, h4, h5, h6, hp1, hp2, hun, hfl⟩ := hs
  simp only at h1 h2 h3 h4 h5 h6 hp1 hp2 hun hfl
  subst h1 h2 h3 h4 h5 h6 hun hfl
  rw [CurBlindB.step_eq]
  unfold stepC
  simp only []
  have e1 : headCtx t ⟨p, o, c, po, sw, dw, ap⟩ = headCtx t ⟨p, o, c, po', sw, dw, ap⟩ := rfl
  rw [e1]
  generalize headCtx t ⟨p, o, c, po', sw, dw, ap⟩ = cx
  rw [selectRuleC_eq t h mode cx input p _ po po' vs hp1 hp2]
  have hop := selectRule_op t mode cx input p (beforeAttrs t o) po'
  generalize selectRule t mode cx input p (beforeAttrs t o) po' = sel at hop ⊢
  simp only [Bool.false_eq_true, ↓reduceIte]
  by_cases hns : (sel.opcode == CTO_NumberSign) = true
  · simp only [hns, ↓reduceIte]
    exact ⟨⟨rfl, rfl, rfl, rfl, rfl, rfl, hp1, hp2, rfl, rfl⟩, trivial⟩
  · simp only [hns, Bool.false_eq_true, ↓reduceIte]
    unfold replC
    simp only []
    have e2 : emitPlain t mode input max sel ⟨p, o, ctxAfterSel sel cx, po, sw, dw, ap ++ [sel.rule]⟩ =
              emitPlain t mode input max sel ⟨p, o, ctxAfterSel sel cx, po', sw, dw, ap ++ [sel.rule]⟩ := rfl
    rw [e2]
    cases he : emitPlain t mode input max sel ⟨p, o, ctxAfterSel sel cx, po', sw, dw, ap ++ [sel.rule]⟩ with
    | none =>
      simp only [Option.map_none, Bool.false_eq_true, ↓reduceIte]
      exact ⟨⟨rfl, rfl, rfl, rfl, rfl, rfl, hp1, hp2, rfl, rfl⟩, trivial⟩
    | some x =>
      obtain ⟨q, oq⟩ := x
      simp only [Option.map_some, Bool.false_eq_true, ↓reduceIte, afterC_none t h]
      have hjw : (sel.opcode != CTO_JoinableWord) = true := by simpa using hop
      refine ⟨?_, trivial⟩
      unfold finishC
      simp only [hjw, show (CTO_Always != CTO_JoinableWord) = true by decide, Bool.and_true]
      split <;> refine ⟨rfl, rfl, rfl, rfl, rfl, rfl, ?_, ?_, rfl, rfl⟩ <;> (dsimp only; first | decide | (split <;> first | decide | exact hop | exact hp2 | exact hp1))

/-- the two loops run in step, and with `n − pos < fuel` the extended one ends by itself -/
theorem loopC_sim (t : Table) (h : NoCtx t) (mode : Nat) (input : List Nat) (max : Nat) :
    ∀ (fuel : Nat) (sc : StC) (st : St), Sim sc st → StInvB input.length max st → input.length - st.pos < fuel →
      Sim (loopC t mode input max fuel sc).1 (loop t mode input max fuel st) ∧ (loopC t mode input max fuel sc).2 = true := by
  intro fuel
  induction fuel with
  | zero => intro sc st _ _ hf; omega
  | succ f ih =>
    intro sc st hs hinv hf
    unfold loopC loop
    rw [hs.pos]
    by_cases hlt : st.pos < input.length
    · simp only [hlt, ↓reduceIte]
      have hst := stepC_sim t h mode input max sc st hs
      have hok := step_ok t mode input max st hinv hlt
      have hadv := BackTerm.step_adv t mode input max st
      rcases hc : stepC t mode input max sc with ⟨sc', d1⟩
      rcases hb : step t mode input max st with ⟨st', d2⟩
      rw [hc, hb] at hst
      rw [hb] at hok hadv
      simp only at hst hok hadv
      obtain ⟨hsim, rfl⟩ := hst
      cases d1
      · simp only [Bool.false_eq_true, ↓reduceIte]
        have := hadv rfl
        exact ih sc' st' hsim hok (by have := hok.2.1; omega)
      · simp only [↓reduceIte]; exact ⟨hsim, trivial⟩
    · simp only [hlt, ↓reduceIte]; exact ⟨hs, trivial⟩

/-- **translateC_eq_translate** (backward): for a table without context rules the backward main pass with context rules
    IS the B0 backward main pass — for every table, mode, input, capacity and cursor -/
theorem translateC_eq_translate (t : Table) (h : NoCtx t) (mode : Nat) (input : List Nat) (max : Nat) (cpos : Int) :
    translateC t mode input max cpos = .done (translate t mode input max cpos) := by
  have hsim0 : Sim ({ st := { out := { cpos := cpos, cstat := 0 } } } : StC) ({ out := { cpos := cpos, cstat := 0 } } : St) :=
    ⟨rfl, rfl, rfl, rfl, rfl, rfl, by show CTO_None ≠ CTO_JoinableWord; decide, by show CTO_None ≠ CTO_JoinableWord; decide, rfl, rfl⟩
  have hinv : StInvB input.length max ({ out := { cpos := cpos, cstat := 0 } } : St) := ⟨Nat.zero_le _, Nat.zero_le _, Nat.zero_le _⟩
  have hl := loopC_sim t h mode input max (4 * input.length + 4) _ _ hsim0 hinv (by show input.length - 0 < _; omega)
  have hfuel := BackTerm.translate_fuel t mode input max cpos (3 * input.length + 3)
  rw [show input.length + 1 + (3 * input.length + 3) = 4 * input.length + 4 by omega] at hfuel
  rw [hfuel] at hl
  unfold translateC translate
  rcases hlc : loopC t mode input max (4 * input.length + 4) { st := { out := { cpos := cpos, cstat := 0 } } } with ⟨sc, fin⟩
  rw [hlc] at hl
  simp only at hl
  obtain ⟨hs, rfl⟩ := hl
  generalize loop t mode input max (input.length + 1) { out := { cpos := cpos, cstat := 0 } } = st at hs
  obtain ⟨q1, q2, q3, q4, q5, q6, -, -, q9, q10⟩ := hs
  simp only [q9, q10, Bool.false_eq_true, ↓reduceIte, Bool.not_true, q1, q2, q4, q5, q6]

end Lou.BackCRefine
