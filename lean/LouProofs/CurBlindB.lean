/-
  CurBlindB.lean — the backward engines of Layer B are blind to the cursor: what the backward main pass (with or
  without context rules) and the backward stages emit, map and consume does not depend on `cpos`/`cstat`.  With
  C10Back this gives C10's cursor clause for back-translation for every call the whole-call model covers.
-/
import LouProofs.C10Back
import LouProofs.ModelEngine

namespace Lou.CurBlindB
open Lou Lou.Gen Lou.Back

def er (o : Out) : Out := { o with cpos := 0, cstat := 0 }

@[simp] theorem er_chars (o : Out) : (er o).chars = o.chars := rfl
@[simp] theorem er_map (o : Out) : (er o).map = o.map := rfl

theorem er_eq_iff (o o' : Out) : er o = er o' ↔ (o.chars = o'.chars ∧ o.map = o'.map) := by
  constructor
  · intro h
    exact ⟨by have := congrArg Out.chars h; simpa using this, by have := congrArg Out.map h; simpa using this⟩
  · intro ⟨a, b⟩
    obtain ⟨c, m, p, s⟩ := o
    obtain ⟨c', m', p', s'⟩ := o'
    simp only at a b
    subst a b
    rfl

theorem map_er_cases {a b : Option Out} (h : a.map er = b.map er) :
    (a = none ∧ b = none) ∨ ∃ x y, a = some x ∧ b = some y ∧ er x = er y := by
  cases a with
  | none => cases b with
    | none => exact Or.inl ⟨rfl, rfl⟩
    | some y => simp at h
  | some x => cases b with
    | none => simp at h
    | some y => simp only [Option.map_some, Option.some.injEq] at h; exact Or.inr ⟨x, y, rfl, rfl, h⟩

theorem up_er (oc : List Nat) (il pos : Nat) (input : List Nat) (max : Nat) (o o' : Out) (h : er o = er o') :
    (updatePositions oc il pos input max o).map er = (updatePositions oc il pos input max o').map er := by
  obtain ⟨hc, hm⟩ := (er_eq_iff o o').mp h
  unfold updatePositions
  simp only [hc, hm]
  split
  · rfl
  · split
    · rfl
    · simp [er]

theorem undef_er (d mode pos max : Nat) (o o' : Out) (h : er o = er o') :
    (undefinedDots d mode pos max o).map er = (undefinedDots d mode pos max o').map er := by
  obtain ⟨hc, hm⟩ := (er_eq_iff o o').mp h
  unfold undefinedDots
  simp only [hc, hm]
  split
  · simp [er]
  · split
    · rfl
    · simp [er]

theorem putc_er (t : Table) (mode d pos : Nat) (input : List Nat) (max : Nat) (o o' : Out) (h : er o = er o') :
    (putCharacter t mode d pos input max o).map er = (putCharacter t mode d pos input max o').map er := by
  unfold putCharacter
  split
  · exact up_er _ _ _ _ _ _ _ h
  · exact undef_er _ _ _ _ _ _ h

def erP (r : Option (Nat × Out)) : Option (Nat × Out) := r.map fun x => (x.1, er x.2)

theorem each_er (t : Table) (mode : Nat) (input : List Nat) (max : Nat) :
    ∀ (k p : Nat) (o o' : Out), er o = er o' → erP (step.each t mode input max k p o) = erP (step.each t mode input max k p o') := by
  intro k
  induction k with
  | zero => intro p o o' h; simp [step.each, erP, h]
  | succ k ih =>
    intro p o o' h
    unfold step.each
    rcases map_er_cases (putc_er t mode (inAt input p) p input max o o' h) with ⟨h1, h2⟩ | ⟨x, y, h1, h2, hxy⟩
    · simp [h1, h2, erP]
    · simp only [h1, h2]; exact ih _ _ _ hxy


def erS (st : St) : St := { st with out := er st.out }

theorem beforeAttrs_er (t : Table) (o o' : Out) (h : er o = er o') : beforeAttrs t o = beforeAttrs t o' := by
  unfold beforeAttrs; rw [((er_eq_iff o o').mp h).1]

/-- the emission of an ordinary rule, on two outputs that agree except for the cursor -/
theorem emitPlain_er (t : Table) (mode : Nat) (input : List Nat) (max : Nat) (sel : Sel) (st : St) (o' : Out)
    (h : er st.out = er o') :
    erP (BackC.emitPlain t mode input max sel st) = erP (BackC.emitPlain t mode input max sel { st with out := o' }) := by
  unfold BackC.emitPlain
  simp only []
  split
  · rcases map_er_cases (undef_er (inAt input st.pos) mode st.pos max st.out o' h) with ⟨h1, h2⟩ | ⟨x, y, h1, h2, hxy⟩
    · simp [h1, h2, erP]
    · simp [h1, h2, erP, hxy]
  · split
    · rfl
    · rename_i r hr
      split
      · rcases map_er_cases (up_er r.chars r.dots.length st.pos input max st.out o' h) with ⟨h1, h2⟩ | ⟨x, y, h1, h2, hxy⟩
        · simp [h1, h2, erP]
        · simp [h1, h2, erP, hxy]
      · exact each_er t mode input max _ _ _ _ h

/-- `Back.step` written with `emitPlain` -/
theorem step_eq (t : Table) (mode : Nat) (input : List Nat) (max : Nat) (st : St) :
    step t mode input max st =
      (let before := beforeAttrs t st.out
       let ctx := BackC.headCtx t st
       let sel := selectRule t mode ctx input st.pos before st.prevOp
       let st1 := { st with ctx := ctx, applied := st.applied ++ [sel.rule] }
       if sel.opcode == CTO_NumberSign then
         let m := (List.range sel.dotslen).foldl (fun m k => setMap m (st1.pos + k) st1.out.chars.length) st1.out.map
         ({ st1 with pos := st1.pos + sel.dotslen, out := { st1.out with map := m },
                     ctx := { itsANumber := 1, itsALetter := st1.ctx.itsALetter } }, false)
       else
         let st2 := { st1 with ctx := BackC.ctxAfterSel sel ctx }
         match BackC.emitPlain t mode input max sel st2 with
         | none => (st2, true)
         | some (p', o') =>
           let st3 := { st2 with pos := p', out := o' }
           let st4 := if p' > 0 && isSpaceDots t (inAt input (p' - 1)) && sel.opcode != CTO_JoinableWord then
               { st3 with srcword := p', destword := o'.chars.length } else st3
           let prev := if (CTO_Always ≤ sel.opcode && sel.opcode ≤ CTO_None) || (CTO_Digit ≤ sel.opcode && sel.opcode ≤ CTO_LitDigit)
                       then sel.opcode else st4.prevOp
           ({ st4 with prevOp := prev }, false)) := by
  unfold step BackC.emitPlain BackC.headCtx BackC.ctxAfterSel
  rfl


theorem headCtx_er (t : Table) (st : St) (o' : Out) (h : er st.out = er o') :
    BackC.headCtx t { st with out := o' } = BackC.headCtx t st := by
  obtain ⟨hc, -⟩ := (er_eq_iff _ _).mp h
  unfold BackC.headCtx
  simp only [← beforeAttrs_er t st.out o' h, hc]

theorem erP_cases {a b : Option (Nat × Out)} (h : erP a = erP b) :
    (a = none ∧ b = none) ∨ ∃ p x y, a = some (p, x) ∧ b = some (p, y) ∧ er x = er y := by
  cases a with
  | none => cases b with
    | none => exact Or.inl ⟨rfl, rfl⟩
    | some y => simp [erP] at h
  | some x => cases b with
    | none => simp [erP] at h
    | some y =>
      obtain ⟨p, x⟩ := x
      obtain ⟨q, y⟩ := y
      simp only [erP, Option.map_some, Option.some.injEq, Prod.mk.injEq] at h
      obtain ⟨rfl, hxy⟩ := h
      exact Or.inr ⟨p, x, y, rfl, rfl, hxy⟩

theorem step_er (t : Table) (mode : Nat) (input : List Nat) (max : Nat) (st : St) (o' : Out) (h : er st.out = er o') :
    erS (step t mode input max st).1 = erS (step t mode input max { st with out := o' }).1 ∧
    (step t mode input max st).2 = (step t mode input max { st with out := o' }).2 := by
  obtain ⟨hc, hm⟩ := (er_eq_iff _ _).mp h
  rw [step_eq, step_eq]
  simp only [headCtx_er t st o' h, ← beforeAttrs_er t st.out o' h]
  generalize selectRule t mode (BackC.headCtx t st) input st.pos (beforeAttrs t st.out) st.prevOp = sel
  by_cases hns : (sel.opcode == CTO_NumberSign) = true
  · simp only [hns, ↓reduceIte]
    refine ⟨?_, trivial⟩
    simp only [erS, St.mk.injEq, true_and, and_true]
    apply (er_eq_iff _ _).mpr
    simp only [hc, hm, and_self]
  · simp only [hns, Bool.false_eq_true, ↓reduceIte]
    have he := emitPlain_er t mode input max sel
      { st with ctx := BackC.ctxAfterSel sel (BackC.headCtx t st), applied := st.applied ++ [sel.rule] } o' h
    rcases erP_cases he with ⟨h1, h2⟩ | ⟨p, x, y, h1, h2, hxy⟩
    · simp only [h1, h2]; simp [erS, h]
    · simp only [h1, h2]
      have hxc := ((er_eq_iff x y).mp hxy).1
      refine ⟨?_, trivial⟩
      split <;> simp [erS, hxy, hxc]


theorem erS_of (st st' : St) (h : erS st = erS st') : st' = { st with out := st'.out } ∧ er st.out = er st'.out := by
  obtain ⟨p, o, c, po, sw, dw, ap⟩ := st
  obtain ⟨p', o', c', po', sw', dw', ap'⟩ := st'
  simp only [erS, St.mk.injEq] at h
  obtain ⟨rfl, ho, rfl, rfl, rfl, rfl, rfl⟩ := h
  exact ⟨rfl, ho⟩

theorem loop_er (t : Table) (mode : Nat) (input : List Nat) (max : Nat) :
    ∀ (fuel : Nat) (st st' : St), erS st = erS st' →
      erS (loop t mode input max fuel st) = erS (loop t mode input max fuel st') := by
  intro fuel
  induction fuel with
  | zero => intro st st' h; exact h
  | succ f ih =>
    intro st st' h
    obtain ⟨hs, ho⟩ := erS_of st st' h
    have hst := step_er t mode input max st st'.out ho
    rw [← hs] at hst
    have hp : st.pos = st'.pos := by rw [hs]
    unfold loop
    rw [← hp]
    split
    · generalize step t mode input max st = r at hst
      generalize step t mode input max st' = r' at hst
      obtain ⟨s1, d1⟩ := r
      obtain ⟨s2, d2⟩ := r'
      simp only at hst
      obtain ⟨h1, rfl⟩ := hst
      simp only []
      split
      · exact h1
      · exact ih s1 s2 h1
    · exact h

/-- what a backward pass result says apart from the cursor -/
def erRes (r : PassResult) : PassResult := { r with cpos := 0, cstat := 0 }

/-- **translate_cursor_blind** (backward main pass B0): output, map, consumed length and applied rules do not depend on
    the cursor -/
theorem translate_cursor_blind (t : Table) (mode : Nat) (input : List Nat) (max : Nat) (c1 c2 : Int) :
    erRes (translate t mode input max c1) = erRes (translate t mode input max c2) := by
  have h := loop_er t mode input max (input.length + 1) { out := { cpos := c1, cstat := 0 } } { out := { cpos := c2, cstat := 0 } } rfl
  unfold translate
  generalize loop t mode input max (input.length + 1) { out := { cpos := c1, cstat := 0 } } = a at h
  generalize loop t mode input max (input.length + 1) { out := { cpos := c2, cstat := 0 } } = b at h
  obtain ⟨hs, ho⟩ := erS_of a b h
  obtain ⟨hc, hm⟩ := (er_eq_iff _ _).mp ho
  rw [hs]
  simp only [erRes, hc, hm]


/-! ### the backward main pass with context rules -/

open Lou.BackC in
def er2 (r : Out × Bool) : Out × Bool := (er r.1, r.2)

open Lou.BackC in
theorem copyChars_er (t : Table) (mode : Nat) (input : List Nat) (max : Nat) :
    ∀ (k : Nat) (frm to : Int) (o o' : Out), er o = er o' →
      er2 (copyChars t mode input max k frm to o) = er2 (copyChars t mode input max k frm to o') := by
  intro k
  induction k with
  | zero => intro frm to o o' h; simp [copyChars, er2, h]
  | succ k ih =>
    intro frm to o o' h
    unfold copyChars
    split
    · rcases map_er_cases (putc_er t mode (Pass.elem input frm) frm.toNat input max o o' h) with ⟨h1, h2⟩ | ⟨x, y, h1, h2, hxy⟩
      · simp [h1, h2, er2, h]
      · simp only [h1, h2]; exact ih _ _ x y hxy
    · simp [er2, h]

open Lou.BackC in
def erA : ActC → ActC
  | .unsupported => .unsupported
  | .fail o vs => .fail (er o) vs
  | .ok o np vs => .ok (er o) np vs

open Lou.BackC in
theorem moveOut_er (o o' : Out) (dsm dsr : Nat) (h : er o = er o') : er (moveOut o dsm dsr) = er (moveOut o' dsm dsr) := by
  obtain ⟨hc, hm⟩ := (er_eq_iff o o').mp h
  apply (er_eq_iff _ _).mpr
  unfold moveOut
  simp only [hc, hm, and_self]

open Lou.BackC in
theorem actLoopC_er (t : Table) (mode : Nat) (p input : List Nat) (m : Pass.Match) (max dsm : Nat) :
    ∀ (fuel ic : Nat) (o o' : Out) (dsr : Nat) (np : Int) (vars : List Nat), er o = er o' →
      erA (actLoopC t mode p input m max dsm fuel ic o dsr np vars) = erA (actLoopC t mode p input m max dsm fuel ic o' dsr np vars) := by
  intro fuel
  induction fuel with
  | zero => intro ic o o' dsr np vars _; simp [actLoopC, erA]
  | succ f ih =>
    intro ic o o' dsr np vars h
    obtain ⟨hc, hm⟩ := (er_eq_iff o o').mp h
    unfold actLoopC
    by_cases hend : ic ≥ p.length
    · simp only [hend, ↓reduceIte, erA, h]
    · simp only [hend, ↓reduceIte]
      by_cases hlit : (Pass.ins p ic == pass_string || Pass.ins p ic == pass_dots) = true
      · simp only [hlit, ↓reduceIte, hc]
        split
        · simp only [erA, h]
        · apply ih
          apply (er_eq_iff _ _).mpr
          simp only [hc, hm, and_self]
      · simp only [hlit, Bool.false_eq_true, ↓reduceIte]
        by_cases hom : (Pass.ins p ic == pass_omit) = true
        · simp only [hom, ↓reduceIte]; exact ih _ _ _ _ _ _ h
        · simp only [hom, Bool.false_eq_true, ↓reduceIte]
          by_cases hcp : (Pass.ins p ic == pass_copy) = true
          · simp only [hcp, ↓reduceIte]
            by_cases hguard : (decide (dsr - dsm > 0) && decide (dsr + (dsr - dsm) > max)) = true
            · simp only [hguard, ↓reduceIte, erA, h]
            simp only [hguard, Bool.false_eq_true, ↓reduceIte]
            have ho1 : er (if dsr - dsm > 0 then moveOut o dsm dsr else o) = er (if dsr - dsm > 0 then moveOut o' dsm dsr else o') := by
              split
              · exact moveOut_er o o' dsm dsr h
              · exact h
            have hcc := copyChars_er t mode input max (m.endReplace - m.startReplace).toNat m.startReplace m.endReplace _ _ ho1
            generalize copyChars t mode input max (m.endReplace - m.startReplace).toNat m.startReplace m.endReplace
              (if dsr - dsm > 0 then moveOut o dsm dsr else o) = c1 at hcc
            generalize copyChars t mode input max (m.endReplace - m.startReplace).toNat m.startReplace m.endReplace
              (if dsr - dsm > 0 then moveOut o' dsm dsr else o') = c2 at hcc
            obtain ⟨x, b1⟩ := c1
            obtain ⟨y, b2⟩ := c2
            simp only [er2, Prod.mk.injEq] at hcc
            obtain ⟨hxy, rfl⟩ := hcc
            obtain ⟨hxc, hxm⟩ := (er_eq_iff x y).mp hxy
            cases b1
            · simp only [erA, hxy]
            · simp only []
              apply ih
              apply (er_eq_iff _ _).mpr
              simp only [hxc, hxm, and_self]
          · simp only [hcp, Bool.false_eq_true, ↓reduceIte]
            cases hv : Pass.varAction p ic vars with
            | none => simp [erA]
            | some vl => exact ih _ _ _ _ _ _ h

open Lou.BackC in
theorem actionC_er (t : Table) (mode : Nat) (p input : List Nat) (m : Pass.Match) (ic max : Nat) (o o' : Out) (vars : List Nat)
    (h : er o = er o') : erA (actionC t mode p input m ic max o vars) = erA (actionC t mode p input m ic max o' vars) := by
  obtain ⟨hc, hm⟩ := (er_eq_iff o o').mp h
  unfold actionC
  have hcc := copyChars_er t mode input max (m.startReplace - m.startMatch).toNat m.startMatch m.startReplace o o' h
  generalize copyChars t mode input max (m.startReplace - m.startMatch).toNat m.startMatch m.startReplace o = c1 at hcc
  generalize copyChars t mode input max (m.startReplace - m.startMatch).toNat m.startMatch m.startReplace o' = c2 at hcc
  obtain ⟨x, b1⟩ := c1
  obtain ⟨y, b2⟩ := c2
  simp only [er2, Prod.mk.injEq] at hcc
  obtain ⟨hxy, rfl⟩ := hcc
  obtain ⟨hxc, hxm⟩ := (er_eq_iff x y).mp hxy
  cases b1
  · simp only [erA, hxy]
  · simp only [hc, hxc]
    apply actLoopC_er
    apply (er_eq_iff _ _).mpr
    simp only [hxc, hxm, and_self]


open Lou.BackC in
theorem replC_er (t : Table) (mode : Nat) (input : List Nat) (max : Nat) (s : SelC) (st : St) (vars : List Nat) (o' : Out)
    (h : er st.out = er o') :
    ((replC t mode input max s st vars).1.map fun x => (x.1, er x.2.1, x.2.2)) =
      ((replC t mode input max s { st with out := o' } vars).1.map fun x => (x.1, er x.2.1, x.2.2)) ∧
    (replC t mode input max s st vars).2 = (replC t mode input max s { st with out := o' } vars).2 := by
  unfold replC
  cases hctx : s.ctx with
  | some rmi =>
    obtain ⟨r, m, ic⟩ := rmi
    simp only []
    have ha := actionC_er t mode r.dots input m ic max st.out o' vars h
    generalize actionC t mode r.dots input m ic max st.out vars = a1 at ha
    generalize actionC t mode r.dots input m ic max o' vars = a2 at ha
    cases a1 <;> cases a2 <;> simp only [erA, reduceCtorEq, ActC.fail.injEq, ActC.ok.injEq] at ha
    · exact ⟨rfl, rfl⟩
    · exact ⟨rfl, rfl⟩
    · obtain ⟨ho, rfl, rfl⟩ := ha
      simp [ho]
  | none =>
    simp only []
    have he := emitPlain_er t mode input max s.sel st o' h
    rcases erP_cases he with ⟨h1, h2⟩ | ⟨p, x, y, h1, h2, hxy⟩
    · simp [h1, h2]
    · simp [h1, h2, hxy]

open Lou.BackC in
theorem afterC_er (t : Table) (mode : Nat) (input : List Nat) (max : Nat) (p' : Nat) (o o' : Out) (vars1 : List Nat)
    (h : er o = er o') :
    ((afterC t mode input max p' o vars1).map fun x => (x.1, er x.2.1, x.2.2)) =
    ((afterC t mode input max p' o' vars1).map fun x => (x.1, er x.2.1, x.2.2)) := by
  unfold afterC
  cases hsel : Pass.select ⟨t, true, vars1⟩ true 1 (Pass.rulesOf t (t.backPassChain 1)) input p' with
  | unsupported => rfl
  | none => simp [h]
  | rule r m ic =>
    simp only []
    have ha := actionC_er t mode r.dots input m ic max o o' vars1 h
    generalize actionC t mode r.dots input m ic max o vars1 = a1 at ha
    generalize actionC t mode r.dots input m ic max o' vars1 = a2 at ha
    cases a1 <;> cases a2 <;> simp only [erA, reduceCtorEq, ActC.fail.injEq, ActC.ok.injEq] at ha
    · rfl
    · obtain ⟨ho, rfl⟩ := ha; simp [ho]
    · obtain ⟨ho, rfl, rfl⟩ := ha; simp [ho]

open Lou.BackC in
theorem finishC_er (t : Table) (input : List Nat) (st : St) (o0 : Out) (p2 : Nat) (o2 o2' : Out) (op2 : Nat) (h : er o2 = er o2') :
    erS (finishC t input st p2 o2 op2) = erS (finishC t input { st with out := o0 } p2 o2' op2) := by
  obtain ⟨hc, -⟩ := (er_eq_iff _ _).mp h
  unfold finishC
  simp only [hc]
  split <;> simp [erS, h]

open Lou.BackC in
def erSC (sc : StC) : StC := { sc with st := erS sc.st }

open Lou.BackC in
theorem stepC_er (t : Table) (mode : Nat) (input : List Nat) (max : Nat) (sc : StC) (o' : Out) (h : er sc.st.out = er o') :
    erSC (stepC t mode input max sc).1 = erSC (stepC t mode input max { sc with st := { sc.st with out := o' } }).1 ∧
    (stepC t mode input max sc).2 = (stepC t mode input max { sc with st := { sc.st with out := o' } }).2 := by
  obtain ⟨hc, hm⟩ := (er_eq_iff _ _).mp h
  unfold stepC
  simp only [headCtx_er t sc.st o' h, ← beforeAttrs_er t sc.st.out o' h]
  generalize selectRuleC t mode (headCtx t sc.st) input sc.st.pos (beforeAttrs t sc.st.out) sc.st.prevOp sc.vars = s
  by_cases hu : s.unsupported = true
  · simp only [hu, ↓reduceIte]; simp [erSC, erS, h]
  · simp only [hu, Bool.false_eq_true, ↓reduceIte]
    by_cases hns : (s.sel.opcode == CTO_NumberSign) = true
    · simp only [hns, ↓reduceIte]
      refine ⟨?_, trivial⟩
      simp only [erSC, erS, StC.mk.injEq, St.mk.injEq, true_and, and_true]
      apply (er_eq_iff _ _).mpr
      simp only [hc, hm, and_self]
    · simp only [hns, Bool.false_eq_true, ↓reduceIte]
      have hr := replC_er t mode input max s
        { sc.st with ctx := ctxAfterSel s.sel (headCtx t sc.st), applied := sc.st.applied ++ [s.sel.rule] } sc.vars o' h
      generalize replC t mode input max s
        { sc.st with ctx := ctxAfterSel s.sel (headCtx t sc.st), applied := sc.st.applied ++ [s.sel.rule] } sc.vars = r1 at hr
      generalize replC t mode input max s
        { pos := sc.st.pos, out := o', ctx := ctxAfterSel s.sel (headCtx t sc.st), prevOp := sc.st.prevOp, srcword := sc.st.srcword,
          destword := sc.st.destword, applied := sc.st.applied ++ [s.sel.rule] } sc.vars = r2 at hr
      obtain ⟨x1, f1, g1⟩ := r1
      obtain ⟨x2, f2, g2⟩ := r2
      simp only [Prod.mk.injEq] at hr
      obtain ⟨hx, rfl, rfl⟩ := hr
      by_cases hf1 : f1 = true
      · simp only [hf1, ↓reduceIte]; simp [erSC, erS, h]
      · simp only [hf1, Bool.false_eq_true, ↓reduceIte]
        by_cases hg1 : g1 = true
        · simp only [hg1, ↓reduceIte]; simp [erSC, erS, h]
        · simp only [hg1, Bool.false_eq_true, ↓reduceIte]
          cases x1 with
          | none =>
            cases x2 with
            | none => simp [erSC, erS, h]
            | some v => simp at hx
          | some v1 =>
            cases x2 with
            | none => simp at hx
            | some v2 =>
              obtain ⟨p1, oa, va⟩ := v1
              obtain ⟨p2, ob, vb⟩ := v2
              simp only [Option.map_some, Option.some.injEq, Prod.mk.injEq] at hx
              obtain ⟨rfl, hab, rfl⟩ := hx
              simp only []
              have haf := afterC_er t mode input max p1 oa ob va hab
              generalize afterC t mode input max p1 oa va = q1 at haf
              generalize afterC t mode input max p1 ob va = q2 at haf
              cases q1 with
              | none =>
                cases q2 with
                | none => simp [erSC, erS, h]
                | some w => simp at haf
              | some w1 =>
                cases q2 with
                | none => simp at haf
                | some w2 =>
                  obtain ⟨pa, o2a, v2a, opa⟩ := w1
                  obtain ⟨pb, o2b, v2b, opb⟩ := w2
                  simp only [Option.map_some, Option.some.injEq, Prod.mk.injEq] at haf
                  obtain ⟨rfl, ho2, rfl, rfl⟩ := haf
                  simp only []
                  refine ⟨?_, trivial⟩
                  simp only [erSC, StC.mk.injEq, and_true]
                  exact finishC_er t input _ o' pa o2a o2b opa ho2


open Lou.BackC in
theorem erSC_of (sc sc' : StC) (h : erSC sc = erSC sc') :
    sc' = { sc with st := { sc.st with out := sc'.st.out } } ∧ er sc.st.out = er sc'.st.out := by
  obtain ⟨⟨p, o, c, po, sw, dw, ap⟩, vs, un, fl⟩ := sc
  obtain ⟨⟨p', o', c', po', sw', dw', ap'⟩, vs', un', fl'⟩ := sc'
  simp only [erSC, erS, StC.mk.injEq, St.mk.injEq] at h
  obtain ⟨⟨rfl, ho, rfl, rfl, rfl, rfl, rfl⟩, rfl, rfl, rfl⟩ := h
  exact ⟨rfl, ho⟩

open Lou.BackC in
theorem loopC_er (t : Table) (mode : Nat) (input : List Nat) (max : Nat) :
    ∀ (fuel : Nat) (sc sc' : StC), erSC sc = erSC sc' →
      erSC (loopC t mode input max fuel sc).1 = erSC (loopC t mode input max fuel sc').1 ∧
      (loopC t mode input max fuel sc).2 = (loopC t mode input max fuel sc').2 := by
  intro fuel
  induction fuel with
  | zero => intro sc sc' h; exact ⟨h, rfl⟩
  | succ f ih =>
    intro sc sc' h
    obtain ⟨hs, ho⟩ := erSC_of sc sc' h
    have hst := stepC_er t mode input max sc sc'.st.out ho
    rw [← hs] at hst
    have hp : sc.st.pos = sc'.st.pos := by rw [hs]
    unfold loopC
    rw [← hp]
    split
    · generalize stepC t mode input max sc = r at hst
      generalize stepC t mode input max sc' = r' at hst
      obtain ⟨s1, d1⟩ := r
      obtain ⟨s2, d2⟩ := r'
      simp only at hst
      obtain ⟨h1, rfl⟩ := hst
      simp only []
      split
      · exact ⟨h1, rfl⟩
      · exact ih s1 s2 h1
    · exact ⟨h, rfl⟩

open Lou.BackC in
def erR : ResC → ResC
  | .done r => .done (erRes r)
  | x => x

open Lou.BackC in
/-- **translateC_cursor_blind** (backward main pass with context rules) -/
theorem translateC_cursor_blind (t : Table) (mode : Nat) (input : List Nat) (max : Nat) (c1 c2 : Int) :
    erR (translateC t mode input max c1) = erR (translateC t mode input max c2) := by
  have h := loopC_er t mode input max (4 * input.length + 4) { st := { out := { cpos := c1, cstat := 0 } } }
    { st := { out := { cpos := c2, cstat := 0 } } } rfl
  unfold translateC
  generalize loopC t mode input max (4 * input.length + 4) { st := { out := { cpos := c1, cstat := 0 } } } = a at h
  generalize loopC t mode input max (4 * input.length + 4) { st := { out := { cpos := c2, cstat := 0 } } } = b at h
  obtain ⟨sa, fa⟩ := a
  obtain ⟨sb, fb⟩ := b
  simp only at h
  obtain ⟨h1, rfl⟩ := h
  obtain ⟨hs, ho⟩ := erSC_of sa sb h1
  obtain ⟨hc, hm⟩ := (er_eq_iff _ _).mp ho
  rw [hs]
  simp only []
  by_cases hu : sa.unsupported = true
  · simp [hu, erR]
  · simp only [hu, Bool.false_eq_true, ↓reduceIte]
    cases fa
    · simp [erR]
    · simp only [Bool.not_true, Bool.false_eq_true, ↓reduceIte]
      by_cases hf : sa.failed = true
      · simp [hf, erR]
      · simp only [hf, Bool.false_eq_true, ↓reduceIte, erR, erRes, hc, hm]

open Lou.Drv Lou.Contract Lou.ModelEngine in
/-- the backward engines of Layer B are blind to the cursor -/
theorem modelEngineBack_blind (t : Table) : C10.CursorBlind (modelEngineBack t) := by
  intro ini h1 h2 p1 p2 _ hp
  obtain ⟨n1, ch1, m1, cp1, cs1⟩ := p1
  obtain ⟨n2, ch2, m2, cp2, cs2⟩ := p2
  simp only [C10.erIn, PassIn.mk.injEq] at hp
  obtain ⟨rfl, rfl, rfl, -, -⟩ := hp
  unfold Engine.modelEngineBack
  dsimp only
  split
  · have hb := translate_cursor_blind t ini.mode ch1 m1 cp1 cp2
    simp only [erRes, PassResult.mk.injEq] at hb
    obtain ⟨a, b, c, -, -, -⟩ := hb
    simp only [C10.erOut, a, b, c]
  · cases hs : Pass.backStage t n1 ch1 m1 <;> simp [C10.erOut]

open Lou.Drv Lou.Contract in
theorem modelEngineBackC_blind (t : Table) : C10.CursorBlind (Engine.modelEngineBackC t) := by
  intro ini h1 h2 p1 p2 _ hp
  obtain ⟨n1, ch1, m1, cp1, cs1⟩ := p1
  obtain ⟨n2, ch2, m2, cp2, cs2⟩ := p2
  simp only [C10.erIn, PassIn.mk.injEq] at hp
  obtain ⟨rfl, rfl, rfl, -, -⟩ := hp
  unfold Engine.modelEngineBackC
  dsimp only
  split
  · have hb := translateC_cursor_blind t ini.mode ch1 m1 cp1 cp2
    generalize BackC.translateC t ini.mode ch1 m1 cp1 = r1 at hb
    generalize BackC.translateC t ini.mode ch1 m1 cp2 = r2 at hb
    cases r1 <;> cases r2 <;> simp only [erR, reduceCtorEq, BackC.ResC.done.injEq] at hb <;> simp only [C10.erOut]
    rename_i a b
    simp only [erRes, PassResult.mk.injEq] at hb
    obtain ⟨x, y, z, -, -, -⟩ := hb
    simp only [x, y, z]
  · cases hs : Pass.backStage t n1 ch1 m1 <;> simp [C10.erOut]

open Lou.Drv Lou.Contract in
theorem engineForBack_blind (t : Table) : C10.CursorBlind (Engine.engineForBack t) := by
  unfold Engine.engineForBack
  split
  · exact modelEngineBackC_blind t
  · exact modelEngineBack_blind t

open Lou.Drv Lou.Contract in
/-- **whole_call_back_optargs** (C10 for back-translation, every call the whole-call model covers): the presence of
    typeform, spacing, outputPos, inputPos and cursorPos changes neither return value, lengths nor output text -/
theorem whole_call_back_optargs (tbl : Option TableInfo) (d : Nat → Nat) (t : Table) (a : Args) (x y : Bool)
    (tf sp : Option (List Nat)) (c : Option Int) :
    C10.core (back tbl d (Engine.engineForBack t) { a with wantOutputPos := x, wantInputPos := y, typeform := tf, spacing := sp }) =
      C10.core (back tbl d (Engine.engineForBack t) a) ∧
    C10.core (back tbl d (Engine.engineForBack t) { a with cursor := c }) = C10.core (back tbl d (Engine.engineForBack t) { a with cursor := none }) :=
  ⟨C10Back.back_optargs_arrays tbl d _ a x y tf sp, C10Back.back_optargs_cursor tbl d _ a (engineForBack_blind t) c⟩

end Lou.CurBlindB
