/-
  C01 — forward translation never accesses memory outside its buffers
  (driver part; allocator part in C01Alloc.lean).

  `driver_fwd_safe`: for every allocator history (through `CapsOK`, which is what
  `Alloc.alloc_capacity` delivers), every engine satisfying the contract, every
  table and all valid arguments, every memory access the driver `_lou_translate`
  performs itself lies inside the buffer it touches.

  What is modelled rather than verified: the index expressions of
  `LouModel/Access.lean` are transcribed by hand from lou_translateString.c; the
  engines' own accesses are outside this theorem (E1 bounds their output writes) and
  are observed under ASan/UBSan with exact-size buffers (hook H1).

  On the tree as found, two entries of the list were out of range and the proof
  attempt showed it: `typebuf` was sized from the output length only (F4) and the
  spacing copy read `input.length` bytes of `destSpacing` (F14).  Both were confirmed
  with ASan and repaired (`fix:` commits); the theorem below is about the repaired code.
-/
import LouModel.Access
import LouProofs.Contract
import LouProofs.C04
import LouProofs.C01Alloc

namespace Lou.C01
open Lou Lou.Drv Lou.Contract

/-- what the API documents about the arguments that matter for the driver's own accesses -/
structure ArgsValid (a : Args) : Prop where
  cursor : ∀ c, a.cursor = some c → -1 ≤ c ∧ c < a.inbuf.length

/-- what `Alloc.alloc_capacity` guarantees for the four kinds of scratch buffer of this call
    (`srcmax` = cut input length, `destmax` = `*outlen`) -/
structure CapsOK (caps : Caps) (a : Args) : Prop where
  typebuf : imax (cutAtNul a.inbuf).length a.outlen + 4 ≤ caps.typebuf
  posMapping : imax (cutAtNul a.inbuf).length a.outlen + 4 ≤ caps.posMapping
  destSpacing : (a.outlen : Int) + 4 ≤ caps.destSpacing
  passbuf : (a.outlen : Int) + 4 ≤ caps.passbuf

theorem imax_ge (a b : Int) : a ≤ imax a b ∧ b ≤ imax a b := by
  unfold imax; split <;> omega

theorem mem_rangeAcc {w : String} {lo hi cap : Int} {x : Access} (h : x ∈ rangeAcc w lo hi cap) :
    lo ≤ x.idx ∧ x.idx < hi ∧ x.cap = cap := by
  unfold rangeAcc at h
  split at h
  · simp at h
    rcases h with rfl | rfl <;> simp <;> omega
  · simp at h

theorem ok_of {x : Access} (h0 : 0 ≤ x.idx) (h1 : x.idx < x.cap) : x.ok = true := by
  unfold Access.ok; simp; exact ⟨h0, h1⟩

/-- every recorded pass obeys the contract, and every pass but the first reads the previous output -/
def HistOK (cap : Nat) (hist : List (PassIn × PassOut)) : Prop :=
  ∀ x ∈ hist.zipIdx, PassOKFwd x.1.1 x.1.2 ∧ x.1.1.maxlen = cap ∧ (x.2 ≠ 0 → x.1.1.chars.length ≤ cap)

structure HInv (cap : Nat) (s : FwdState) : Prop where
  hist : HistOK cap s.hist
  firstNil : s.first = true → s.hist = []
  laterCons : s.first = false → s.hist ≠ []
  fits : s.first = false → s.output.length ≤ cap

theorem fwdStep_hinv (e : Engine) (ini : EngInit) (cap : Nat) (s : FwdState) (p : Nat)
    (he : EngineOKFwd e) (hi : HInv cap s) : HInv cap (fwdStep e ini cap s p) := by
  unfold fwdStep
  refine ⟨?_, ?_, ?_, ?_⟩
  · dsimp only
    intro x hx
    rw [List.zipIdx_append] at hx
    rcases List.mem_append.mp hx with h | h
    · exact hi.hist x h
    · simp only [List.zipIdx_singleton, List.mem_singleton, Nat.zero_add] at h
      subst h
      refine ⟨he _ _ _, rfl, ?_⟩
      dsimp only
      intro hne
      have hf : s.first = false := by
        cases hfb : s.first with
        | false => rfl
        | true => exact absurd (by rw [hi.firstNil hfb]; rfl) hne
      simp only [hf, Bool.false_eq_true, if_false]
      exact hi.fits hf
  · intro h; simp at h
  · intro _; simp
  · intro _
    exact (he _ _ _).e1

theorem foldl_hinv (e : Engine) (ini : EngInit) (cap : Nat) (he : EngineOKFwd e) :
    ∀ (ps : List Nat) (s : FwdState), HInv cap s → HInv cap (ps.foldl (fwdStep e ini cap) s) := by
  intro ps
  induction ps with
  | nil => intro s h; exact h
  | cons p ps ih => intro s h; exact ih _ (fwdStep_hinv e ini cap s p he h)

theorem fwdRun_hinv (t : TableInfo) (e : Engine) (a : Args) (he : EngineOKFwd e) :
    HInv a.outlen (fwdRun t e a) := by
  unfold fwdRun
  apply foldl_hinv e _ _ he
  refine ⟨?_, fun _ => rfl, fun h => by simp at h, fun h => by simp at h⟩
  intro x hx; simp at hx

/-- accesses of one pass's bookkeeping are in range -/
theorem fwdPassAccesses_ok (caps : Caps) (a : Args) (hc : CapsOK caps a) (first : Bool)
    (pin : PassIn) (po : PassOut) (hk : PassOKFwd pin po) (hmax : pin.maxlen = a.outlen)
    (hin : first = false → pin.chars.length ≤ a.outlen) :
    ∀ x ∈ fwdPassAccesses caps a.outlen first po, x.ok = true := by
  have hpm := hc.posMapping
  have hg := imax_ge ((cutAtNul a.inbuf).length : Int) (a.outlen : Int)
  have h1 := hk.e1
  have h3 := hk.e3
  have h4 := hk.e4
  intro x hx
  unfold fwdPassAccesses at hx
  rcases List.mem_append.mp hx with h | h
  · simp at h; subst h
    apply ok_of <;> dsimp only <;> omega
  · cases first with
    | true => simp at h
    | false =>
      have hin' := hin rfl
      simp only [Bool.false_eq_true, if_false] at h
      rcases List.mem_append.mp h with h | h
      · obtain ⟨a1, a2, a3⟩ := mem_rangeAcc h
        apply ok_of <;> omega
      · obtain ⟨p, hp, rfl⟩ := List.mem_map.mp h
        have hpr : -1 ≤ p ∧ p ≤ (pin.chars.length : Int) := by
          rcases List.mem_append.mp hp with h' | h'
          · exact h4 p h'
          · simp at h'; subst h'; constructor <;> omega
        apply ok_of <;> dsimp only
        · split <;> omega
        · split <;> omega

/-- **driver_fwd_safe** -/
theorem driver_fwd_safe (caps : Caps) (t : TableInfo) (e : Engine) (a : Args)
    (he : EngineOKFwd e) (hv : ArgsValid a) (hc : CapsOK caps a) :
    ∀ x ∈ fwdAccesses caps t e a, x.ok = true := by
  have hi := fwdRun_inv t e a he
  have hh := fwdRun_hinv t e a he
  have hcut := cutAtNul_length_le a.inbuf
  have hgk := imax_ge ((cutAtNul a.inbuf).length : Int) (a.outlen : Int)
  have hgN := imax_ge (a.inbuf.length : Int) (a.outlen : Int)
  have hfit := hi.fits
  have hlen := hi.len
  have hlast : (fwdRun t e a).posMapping.getD (fwdRun t e a).output.length 0 ≤ ((cutAtNul a.inbuf).length : Int) :=
    (hi.rng _ (getD_mem_or (by rw [hi.len]; omega))).2
  have hct := hc.typebuf
  have hcp := hc.posMapping
  have hcd := hc.destSpacing
  have hcb := hc.passbuf
  unfold fwdAccesses
  simp only [List.forall_mem_append, and_assoc]
  refine ⟨?_, ?_, ?_, ?_, ?_, ?_, ?_, ?_, ?_, ?_, ?_, ?_, ?_, ?_⟩
  · intro x h; obtain ⟨a1, a2, a3⟩ := mem_rangeAcc h; apply ok_of <;> omega
  · intro x h
    split at h
    · obtain ⟨a1, a2, a3⟩ := mem_rangeAcc h; apply ok_of <;> omega
    · simp at h
  · intro x h
    split at h
    · obtain ⟨a1, a2, a3⟩ := mem_rangeAcc h; apply ok_of <;> omega
    · simp at h
  · intro x h
    split at h
    next c hc' =>
      split at h
      next hcond =>
        simp at h; subst h
        have := hv.cursor c hc'
        apply ok_of <;> dsimp only <;> omega
      · simp at h
    · simp at h
  · intro x h
    split at h
    · obtain ⟨a1, a2, a3⟩ := mem_rangeAcc h; apply ok_of <;> omega
    · simp at h
  · intro x h
    obtain ⟨l, hl, hxl⟩ := List.mem_flatten.mp h
    obtain ⟨ph, hph, rfl⟩ := List.mem_map.mp hl
    have hk := hh.hist ph hph
    exact fwdPassAccesses_ok caps a hc _ ph.1.1 ph.1.2 hk.1 hk.2.1
      (fun hf => hk.2.2 (by simpa using hf)) x hxl
  · intro x h; obtain ⟨a1, a2, a3⟩ := mem_rangeAcc h; apply ok_of <;> omega
  · intro x h
    split at h
    · obtain ⟨a1, a2, a3⟩ := mem_rangeAcc h; apply ok_of <;> omega
    · simp at h
  · intro x h; obtain ⟨a1, a2, a3⟩ := mem_rangeAcc h; apply ok_of <;> omega
  · intro x h
    simp at h; subst h
    apply ok_of <;> dsimp only <;> omega
  · intro x h
    split at h
    · obtain ⟨a1, a2, a3⟩ := mem_rangeAcc h; apply ok_of <;> omega
    · simp at h
  · intro x h
    split at h
    · obtain ⟨a1, a2, a3⟩ := mem_rangeAcc h; apply ok_of <;> omega
    · simp at h
  · intro x h
    split at h
    · rcases List.mem_append.mp h with h | h
      · obtain ⟨a1, a2, a3⟩ := mem_rangeAcc h
        apply ok_of
        · omega
        · rw [a3]; split at a2 <;> omega
      · simp at h; subst h
        apply ok_of <;> dsimp only
        · split <;> omega
        · split <;> omega
    · simp at h
  · intro x h
    split at h
    next c hc' =>
      split at h
      · simp at h; subst h
        have := hv.cursor c hc'
        have hne : c ≠ -1 := by simp_all
        apply ok_of <;> dsimp only <;> omega
      · simp at h
    · simp at h

end Lou.C01
