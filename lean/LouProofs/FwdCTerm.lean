/-
  FwdCTerm.lean — the main pass with context rules always ends by itself (C03, Layer B): with `2n + 2` iterations of
  fuel `loopC` never runs dry.  A context rule may leave the position where it is, but then `posIncremented` is off and
  the next iteration cannot pick a context rule, so it consumes a character; the measure 2·(n − pos) + [posInc] strictly
  decreases with every iteration that does not end the loop.
-/
import LouProofs.FwdCOK
import LouProofs.FwdTerm

namespace Lou.FwdCTerm
open Lou Lou.Gen Lou.Fwd Lou.FwdC Lou.FwdOK Lou.FwdCOK Lou.FwdTerm Lou.Pass Lou.C06Pass

def mu (n : Nat) (sc : StC) : Nat := 2 * (n - sc.st.pos) + (if sc.posInc then 1 else 0)

theorem walkChainC_props (t : Table) (mode : Nat) (dc : Bool) (input : List Nat) (pos length before prevOp : Nat)
    (single posInc : Bool) (vars : List Nat) :
    ∀ (chain : List Nat) (s : SelC), walkChainC t mode dc input pos length before prevOp single posInc vars chain = some s →
      (s.ctx.isSome → posInc = true) ∧
      (s.ctx = none → s.unsupported = false → (single = false → 1 ≤ s.sel.charslen) ∧
        (single = true → ∃ i ∈ chain, ∃ r, t.rule? i = some r ∧ s.sel.charslen = r.chars.length)) := by
  intro chain
  induction chain with
  | nil => intro s h; simp [walkChainC] at h
  | cons i rest ih =>
    intro s h
    have lift : ∀ s : SelC, ((s.ctx.isSome → posInc = true) ∧
        (s.ctx = none → s.unsupported = false → (single = false → 1 ≤ s.sel.charslen) ∧
          (single = true → ∃ i ∈ rest, ∃ r, t.rule? i = some r ∧ s.sel.charslen = r.chars.length))) →
        ((s.ctx.isSome → posInc = true) ∧
        (s.ctx = none → s.unsupported = false → (single = false → 1 ≤ s.sel.charslen) ∧
          (single = true → ∃ j ∈ i :: rest, ∃ r, t.rule? j = some r ∧ s.sel.charslen = r.chars.length))) := by
      intro s ⟨a, b⟩
      refine ⟨a, fun h1 h2 => ⟨(b h1 h2).1, fun hs => ?_⟩⟩
      obtain ⟨j, hj, r', hr', he⟩ := (b h1 h2).2 hs
      exact ⟨j, List.mem_cons_of_mem _ hj, r', hr', he⟩
    unfold walkChainC at h
    split at h
    · cases h
    · rename_i r hr
      simp only [] at h
      split at h
      · rename_i hc
        split at h
        · split at h
          · exact lift s (ih s h)
          · rename_i hpi
            have hpi' : posInc = true := by simpa using hpi
            split at h
            · cases h; exact ⟨fun _ => hpi', fun _ h2 => by simp at h2⟩
            · cases h; exact ⟨fun _ => hpi', fun h1 => by simp at h1⟩
            · exact lift s (ih s h)
        · split at h
          · cases h
            refine ⟨fun h => by simp at h, fun _ _ => ⟨?_, ?_⟩⟩
            · intro hs
              subst hs
              simp only [Bool.false_or, Bool.and_eq_true, decide_eq_true_eq] at hc
              have hv := hc.2
              unfold validMatch at hv
              simp only [] at hv
              split at hv
              · cases hv
              · rename_i hn
                have : r.chars.length ≠ 0 := by simpa using hn
                simp only []; omega
            · intro _; exact ⟨i, List.mem_cons_self, r, hr, rfl⟩
          · exact lift s (ih s h)
      · exact lift s (ih s h)

theorem selectRuleC_props (t : Table) (hwf : CharChainsOK t) (mode : Nat) (dc : Bool) (input : List Nat) (pos before prevOp : Nat)
    (posInc : Bool) (vars : List Nat) :
    let s := selectRuleC t mode dc input pos before prevOp posInc vars
    (s.ctx.isSome → posInc = true) ∧ (s.ctx = none → s.unsupported = false → 1 ≤ s.sel.charslen) := by
  intro s
  show (((selectRuleC t mode dc input pos before prevOp posInc vars).ctx.isSome → posInc = true) ∧
    ((selectRuleC t mode dc input pos before prevOp posInc vars).ctx = none →
     (selectRuleC t mode dc input pos before prevOp posInc vars).unsupported = false →
     1 ≤ (selectRuleC t mode dc input pos before prevOp posInc vars).sel.charslen))
  unfold selectRuleC
  simp only []
  split
  · rename_i s hs
    split at hs
    · have := walkChainC_props _ _ _ _ _ _ _ _ _ _ _ _ _ hs
      exact ⟨this.1, fun h1 h2 => (this.2 h1 h2).1 rfl⟩
    · cases hs
  · split
    · rename_i s hs
      split at hs
      · have := walkChainC_props _ _ _ _ _ _ _ _ _ _ _ _ _ hs
        refine ⟨this.1, fun h1 h2 => ?_⟩
        obtain ⟨i, hi, r, hr, he⟩ := (this.2 h1 h2).2 rfl
        have := hwf _ i r hi hr
        omega
      · cases hs
    · exact ⟨fun h => by simp at h, fun _ _ => by simp⟩


theorem lastWord_pos (t : Table) (input : List Nat) (st : St) : (lastWord t input st).pos = st.pos := by
  unfold lastWord; split <;> rfl

/-- an iteration that does not end the loop decreases the measure -/
theorem stepC_mu (t : Table) (hwf : CharChainsOK t) (mode : Nat) (input : List Nat) (max : Nat) (sc : StC)
    (hinv : StInvC input.length max sc) :
    (stepC t mode input max sc).2 = false → mu input.length (stepC t mode input max sc).1 < mu input.length sc := by
  unfold stepC
  have h0 : OutOK input.length max (lastWord t input sc.st).out ∧ (lastWord t input sc.st).pos ≤ input.length := by
    unfold lastWord
    split
    · exact ⟨hinv.1, hinv.2.1⟩
    · exact ⟨hinv.1, hinv.2.1⟩
  have hp := lastWord_pos t input sc.st
  generalize lastWord t input sc.st = s1 at h0 hp ⊢
  simp only []
  obtain ⟨i1, i2⟩ := h0
  split
  · intro h; cases h
  · rename_i hne
    have hlt : s1.pos < input.length := by
      have : s1.pos ≠ input.length := by simpa using hne
      omega
    have hsp := selectRuleC_props t hwf mode s1.dontContract input s1.pos (beforeAttrs t input s1.pos) s1.prevOp sc.posInc sc.vars
    simp only [] at hsp
    split
    · intro h; cases h
    · rename_i hu
      split
      · intro h; cases h
      · rename_i o1 hins
        have hg1 := insertNumberSign_ok _ _ _ _ _ _ _ _ i1 hins
        split
        · intro h; cases h
        · rename_i r m ic hfound
          -- posIncremented is on, and the match lies inside the input
          unfold foundC at hfound
          have hpi : sc.posInc = true := by
            split at hfound
            · rename_i r' m' ic' hctx
              exact hsp.1 (by simp [hctx])
            · split at hfound
              · rename_i hpi; exact hpi
              · cases hfound
          have hm : MatchOK input.length (s1.pos : Int) m := by
            split at hfound
            · rename_i r' m' ic' hctx
              cases hfound
              exact selectRuleC_ctx _ _ _ _ _ _ _ _ _ _ _ _ hctx
            · simp only [hpi, ↓reduceIte] at hfound
              obtain ⟨_, _, _, _, ht, _⟩ := select_first _ _ _ _ _ _ _ _ _ hfound
              simp only [testOf, Bool.false_eq_true, ↓reduceIte] at ht
              exact fwdTest_bounds _ _ _ _ _ _ _ ht
          have ha := actionC_ok t mode r.dots input m ic max o1 sc.vars s1.pos hm (by omega) hg1.1
          obtain ⟨hm0, hm1, hm2, hm3, hm4, hm5⟩ := hm
          cases hact : actionC t mode r.dots input m ic max o1 sc.vars with
          | unsupported => intro h; cases h
          | fail o' vs => intro h; cases h
          | ok o' np vs =>
            intro _
            rw [hact] at ha
            obtain ⟨-, ha2⟩ := ha
            unfold mu
            simp only [hpi, ↓reduceIte]
            by_cases hsame : np.toNat = s1.pos
            · simp [hsame, hp]
            · have : (np.toNat != s1.pos) = true := by simpa using hsame
              simp only [this, ↓reduceIte]
              omega
        · rename_i hfound
          have hnoctx : (selectRuleC t mode s1.dontContract input s1.pos (beforeAttrs t input s1.pos) s1.prevOp sc.posInc sc.vars).ctx = none := by
            unfold foundC at hfound
            split at hfound
            · cases hfound
            · rename_i hn; exact hn
          have hcl := hsp.2 hnoctx (by simpa using hu)
          have hem := emit_ok t mode input max
            (selectRuleC t mode s1.dontContract input s1.pos (beforeAttrs t input s1.pos) s1.prevOp sc.posInc sc.vars).sel s1.pos o1 hlt hg1.1
          have had := emit_adv t mode input max
            (selectRuleC t mode s1.dontContract input s1.pos (beforeAttrs t input s1.pos) s1.prevOp sc.posInc sc.vars).sel s1.pos o1 hcl
          rcases hemit : emit t mode input max
            (selectRuleC t mode s1.dontContract input s1.pos (beforeAttrs t input s1.pos) s1.prevOp sc.posInc sc.vars).sel s1.pos o1 with ⟨p', o2, b⟩
          rw [hemit] at hem had
          cases b
          · intro h; cases h
          · intro _
            simp only [] at hem had ⊢
            have := had trivial
            have := hem.2.2
            unfold mu
            simp only [↓reduceIte]
            split <;> omega

theorem stepC_end (t : Table) (mode : Nat) (input : List Nat) (max : Nat) (sc : StC) (h : sc.st.pos = input.length) :
    (stepC t mode input max sc).2 = true := by
  unfold stepC
  have hp := lastWord_pos t input sc.st
  generalize lastWord t input sc.st = s1 at hp ⊢
  simp [hp, h]

/-- **C03 for the main pass with context rules**: the iteration bound of `translateC` is never what stops it -/
theorem loopC_total (t : Table) (hwf : CharChainsOK t) (mode : Nat) (input : List Nat) (max : Nat) :
    ∀ (fuel : Nat) (sc : StC), StInvC input.length max sc → mu input.length sc < fuel →
      (loopC t mode input max fuel sc).2 = true := by
  intro fuel
  induction fuel with
  | zero => intro sc _ h; omega
  | succ f ih =>
    intro sc hinv h
    unfold loopC
    have hs := stepC_ok t mode input max sc hinv
    have hm := stepC_mu t hwf mode input max sc hinv
    generalize stepC t mode input max sc = r at hs hm
    obtain ⟨sc', done⟩ := r
    simp only [] at hm ⊢
    cases done
    · simp only [Bool.false_eq_true, ↓reduceIte]
      exact ih sc' hs (by have := hm rfl; omega)
    · simp

theorem translateC_no_fuel (t : Table) (hwf : CharChainsOK t) (mode : Nat) (input : List Nat) (max : Nat) (cpos cstat : Int) :
    translateC t mode input max cpos cstat ≠ .fuel := by
  have hinv : StInvC input.length max ({ st := { out := { cpos := cpos, cstat := cstat } } } : StC) :=
    ⟨⟨rfl, Nat.zero_le _, by simp⟩, Nat.zero_le _, Nat.zero_le _⟩
  have h := loopC_total t hwf mode input max (2 * input.length + 2) _ hinv (by unfold mu; simp only [↓reduceIte]; omega)
  unfold translateC
  generalize loopC t mode input max (2 * input.length + 2) { st := { out := { cpos := cpos, cstat := cstat } } } = lr at h
  obtain ⟨sc, fin⟩ := lr
  simp only [] at h ⊢
  subst h
  split
  · simp
  · simp

end Lou.FwdCTerm
