/-
  C02 — back-translation and conversions never access memory outside their buffers
  (driver part).  Same construction as C01 for `_lou_backTranslate`: for every engine
  satisfying the backward contract and all valid arguments, every access the driver
  performs itself is inside the buffer it touches, and the bookkeeping of `*inlen`
  stays within `[0, srcmax]`.

  On the tree as found the statement was false: `*inlen` kept the caller's value for
  inputs with an embedded NUL, so the composition `memcpy` and the position loops ran
  over `*inlen + 1` map entries (F12, confirmed under ASan, repaired).
  The engines' own accesses are sanitizer-observed only.
-/
import LouModel.Access
import LouProofs.Contract
import LouProofs.C01

namespace Lou.C02
open Lou Lou.Drv Lou.Contract Lou.C01

/-- backward contract of one pass (what the driver's own accesses rely on) -/
structure PassOKBack (pin : PassIn) (po : PassOut) : Prop where
  e1 : po.out.length ≤ pin.maxlen
  e3 : po.realInlen ≤ pin.chars.length

def EngineOKBack (e : Engine) : Prop := ∀ ini hist pin, PassOKBack pin (e ini hist pin)

/-- the composition loop never returns an `*inlen` outside `[0, inlen]` -/
theorem composeBackLoop_inlen (prev pm : List Int) (realInlen inputLen outLen : Nat) :
    ∀ (fuel k : Nat) (acc : List Int) (inlen : Int), 0 ≤ inlen →
      0 ≤ (composeBackLoop prev pm realInlen inputLen outLen fuel k acc inlen).2 ∧
      (composeBackLoop prev pm realInlen inputLen outLen fuel k acc inlen).2 ≤ inlen := by
  intro fuel
  induction fuel with
  | zero => intro k acc inlen h; simp [composeBackLoop]; exact h
  | succ f ih =>
    intro k acc inlen h
    unfold composeBackLoop
    by_cases hk : (k : Int) > inlen
    · simp only [hk, if_true]; exact ⟨h, Int.le_refl _⟩
    · simp only [hk, if_false]
      split
      · exact ih _ _ _ h
      · split
        · exact ih _ _ _ h
        · split
          · split
            · dsimp only; omega
            · exact ih _ _ _ h
          · dsimp only; omega

/-- driver invariant: `*inlen` within the cut input, output within the capacity -/
structure BackInv (k cap : Nat) (s : BackState) : Prop where
  inlen0 : 0 ≤ s.inlen
  inlenK : s.inlen ≤ k
  fits : s.output.length ≤ cap

theorem backStepOk_inv (k cap : Nat) (s : BackState) (input : List Nat) (pin : PassIn) (po : PassOut)
    (hi : BackInv k cap s) (h1 : po.out.length ≤ cap) (_h3 : po.realInlen ≤ input.length)
    (hin : s.first = true → input.length = k) :
    BackInv k cap (backStepOk s input pin po) := by
  unfold backStepOk
  by_cases hfirst : s.first = true
  · simp only [hfirst, if_true]
    have := hin hfirst
    have := hi.inlen0
    have := hi.inlenK
    refine ⟨?_, ?_, h1⟩
    · dsimp only; split <;> omega
    · dsimp only; split <;> omega
  · simp only [hfirst, Bool.false_eq_true, if_false]
    have hl := composeBackLoop_inlen s.posMapping (List.take po.realInlen po.map ++ [(po.out.length : Int)])
      po.realInlen input.length po.out.length (s.inlen.toNat + 1) 0 [] s.inlen hi.inlen0
    have := hi.inlenK
    exact ⟨hl.1, by dsimp only; omega, h1⟩

theorem backStep_inv (e : Engine) (ini : EngInit) (k cap : Nat) (s : BackState) (p : Nat)
    (he : EngineOKBack e) (hi : BackInv k cap s) (hin : s.first = true → s.input.length = k) :
    BackInv k cap (backStep e ini cap s p) := by
  unfold backStep
  by_cases hf : s.failed = true
  · simp only [hf, if_true]; exact hi
  · simp only [hf, Bool.false_eq_true, if_false]
    generalize hinp : (if s.first = true then s.input else s.output) = input
    have hk := he ini s.hist { passNo := p, chars := input, maxlen := cap, cpos := s.cpos, cstat := s.cstat }
    by_cases hok : (!(e ini s.hist { passNo := p, chars := input, maxlen := cap, cpos := s.cpos, cstat := s.cstat }).ok) = true
    · rw [if_pos hok]; exact ⟨hi.inlen0, hi.inlenK, hi.fits⟩
    · rw [if_neg hok]
      apply backStepOk_inv k cap s _ _ _ hi hk.e1 hk.e3
      intro hfirst
      rw [← hinp]; simp only [hfirst, if_true]
      exact hin hfirst

theorem backStep_first (e : Engine) (ini : EngInit) (cap : Nat) (s : BackState) (p : Nat) :
    (backStep e ini cap s p).first = true →
      (backStep e ini cap s p) = s ∨ (backStep e ini cap s p) = { s with failed := true } := by
  unfold backStep
  by_cases hf : s.failed = true
  · simp [hf]
  · simp only [hf, Bool.false_eq_true, if_false]
    generalize (if s.first = true then s.input else s.output) = input
    by_cases hok : (!(e ini s.hist { passNo := p, chars := input, maxlen := cap, cpos := s.cpos, cstat := s.cstat }).ok) = true
    · rw [if_pos hok]; intro _; right; rfl
    · rw [if_neg hok]
      unfold backStepOk
      split <;> simp

theorem foldl_backInv (e : Engine) (ini : EngInit) (k cap : Nat) (he : EngineOKBack e) :
    ∀ (ps : List Nat) (s : BackState), BackInv k cap s → (s.first = true → s.input.length = k) →
      BackInv k cap (ps.foldl (backStep e ini cap) s) := by
  intro ps
  induction ps with
  | nil => intro s h _; exact h
  | cons p ps ih =>
    intro s h hin
    apply ih _ (backStep_inv e ini k cap s p he h hin)
    intro hf
    rcases backStep_first e ini cap s p hf with h' | h'
    · rw [h']; exact hin (by rw [h'] at hf; exact hf)
    · rw [h']; exact hin (by rw [h'] at hf; exact hf)

theorem decodeInput_length (mode : Nat) (f : Nat → Nat) (l : List Nat) : (decodeInput mode f l).length = l.length := by
  simp [decodeInput]

theorem backRun_inv (t : TableInfo) (dotsFor : Nat → Nat) (e : Engine) (a : Args) (he : EngineOKBack e) :
    BackInv (cutAtNul a.inbuf).length a.outlen (backRun t dotsFor e a) := by
  unfold backRun
  apply foldl_backInv e _ _ _ he
  · exact ⟨by simp, by simp, by simp⟩
  · intro _; simp [decodeInput_length]

/-- **driver_back_safe** (final stage and input copy): every access is in range -/
theorem driver_back_safe (caps : Caps) (srcCap : Int) (t : TableInfo) (dotsFor : Nat → Nat) (e : Engine) (a : Args)
    (he : EngineOKBack e) (hv : ArgsValid a)
    (hsrc : ((cutAtNul a.inbuf).length : Int) + 4 ≤ srcCap)
    (hc : CapsOK caps a) :
    ∀ x ∈ backAccesses caps srcCap t dotsFor e a, x.ok = true := by
  have hi := backRun_inv t dotsFor e a he
  have hcut := cutAtNul_length_le a.inbuf
  have hgk := imax_ge ((cutAtNul a.inbuf).length : Int) (a.outlen : Int)
  have hgN := imax_ge (a.inbuf.length : Int) (a.outlen : Int)
  have hcp := hc.posMapping
  have h0 := hi.inlen0
  have hK := hi.inlenK
  have hfit := hi.fits
  unfold backAccesses
  simp only [List.forall_mem_append, and_assoc]
  refine ⟨?_, ?_, ?_, ?_, ?_⟩
  · intro x h; obtain ⟨a1, a2, a3⟩ := mem_rangeAcc h; apply ok_of <;> omega
  · intro x h
    split at h
    · obtain ⟨a1, a2, a3⟩ := mem_rangeAcc h; apply ok_of <;> omega
    · simp at h
  · intro x h
    split at h
    · obtain ⟨a1, a2, a3⟩ := mem_rangeAcc h; apply ok_of <;> omega
    · simp at h
  · intro x h
    split at h
    · obtain ⟨a1, a2, a3⟩ := mem_rangeAcc h; apply ok_of <;> omega
    · simp at h
  · intro x h
    split at h
    · simp at h
    · simp only [List.mem_append, or_assoc] at h
      rcases h with h | h | h | h
      · obtain ⟨a1, a2, a3⟩ := mem_rangeAcc h; apply ok_of <;> omega
      · split at h
        · rcases List.mem_append.mp h with h | h
          · obtain ⟨a1, a2, a3⟩ := mem_rangeAcc h; apply ok_of <;> omega
          · obtain ⟨a1, a2, a3⟩ := mem_rangeAcc h; apply ok_of <;> omega
        · simp at h
      · split at h
        · obtain ⟨a1, a2, a3⟩ := mem_rangeAcc h; apply ok_of <;> omega
        · simp at h
      · split at h
        next c hc' =>
          split at h
          · simp at h; subst h
            have := hv.cursor c hc'
            have hne : c ≠ -1 := by simp_all
            apply ok_of <;> dsimp only <;> omega
          · simp at h
        · simp at h

/-- indices used by one pass's composition are guarded: `passPosMapping[prev[k]]` is only
    evaluated for `prev[k] ≤ realInlen` (index 0 otherwise), hence inside the map -/
theorem backPassAccesses_ok (caps : Caps) (a : Args) (hc : CapsOK caps a) (first : Bool) (inlenBefore : Int)
    (prev : List Int) (pin : PassIn) (po : PassOut) (hk : PassOKBack pin po)
    (hlen : (pin.chars.length : Int) ≤ imax (cutAtNul a.inbuf).length a.outlen)
    (_h0 : 0 ≤ inlenBefore) (hK : inlenBefore ≤ (cutAtNul a.inbuf).length) :
    ∀ x ∈ backPassAccesses caps first inlenBefore prev po, x.ok = true := by
  have hcp := hc.posMapping
  have hgk := imax_ge ((cutAtNul a.inbuf).length : Int) (a.outlen : Int)
  have h3 := hk.e3
  intro x hx
  unfold backPassAccesses at hx
  rcases List.mem_append.mp hx with h | h
  · simp at h; subst h; apply ok_of <;> dsimp only <;> omega
  · cases first with
    | true => simp at h
    | false =>
      simp only [Bool.false_eq_true, if_false] at h
      rcases List.mem_append.mp h with h | h
      · obtain ⟨a1, a2, a3⟩ := mem_rangeAcc h; apply ok_of <;> omega
      · obtain ⟨p, _, rfl⟩ := List.mem_map.mp h
        apply ok_of <;> dsimp only
        · split
          · omega
          · split <;> omega
        · split
          · omega
          · split <;> omega

end Lou.C02
