/-
  C05/C12 — `chain_sorted`: for EVERY list of entries of the fragment, every forward rule chain
  of the compiled table is ordered longest first, `always` last among equals, definition order
  otherwise.  Induction over the compile steps with the invariant `CInv`.
-/
import LouModel.Compile
import LouProofs.Lemmas.Chain

namespace Lou.C05
open Lou Lou.Gen Lou.Compile Lou.Chain

/-- invariant of the compile fold -/
structure CInv (t : Table) : Prop where
  idxLt : ∀ r ∈ t.rules, r.idx < t.ruleCounter
  chainRes : ∀ b ∈ t.forB, ∀ i ∈ b.2, ∃ r, t.rule? i = some r ∧ r.idx = i
  sorted : ∀ b ∈ t.forB, (b.2.filterMap t.rule?).Pairwise le

/-- a step that leaves rules, counter and forward buckets alone keeps the invariant -/
theorem cinv_congr {t t' : Table} (h : CInv t) (hr : t'.rules = t.rules) (hc : t'.ruleCounter = t.ruleCounter)
    (hf : t'.forB = t.forB) : CInv t' := by
  have hrule : ∀ i, t'.rule? i = t.rule? i := by intro i; unfold Table.rule?; rw [hr]
  refine ⟨?_, ?_, ?_⟩
  · intro r hr'; rw [hr] at hr'; rw [hc]; exact h.idxLt r hr'
  · intro b hb i hi; rw [hf] at hb; rw [hrule]; exact h.chainRes b hb i hi
  · intro b hb; rw [hf] at hb
    have : t'.rule? = t.rule? := funext hrule
    rw [this]; exact h.sorted b hb

theorem putChar_same (t : Table) (c : Nat) :
    (putChar t c).rules = t.rules ∧ (putChar t c).ruleCounter = t.ruleCounter ∧ (putChar t c).forB = t.forB := by
  unfold putChar; split <;> simp

theorem putDots_same (t : Table) (c : Nat) :
    (putDots t c).rules = t.rules ∧ (putDots t c).ruleCounter = t.ruleCounter ∧ (putDots t c).forB = t.forB := by
  unfold putDots; split <;> simp

theorem updChar_same (t : Table) (c : Nat) (f : CharRec → CharRec) :
    (updChar t c f).rules = t.rules ∧ (updChar t c f).ruleCounter = t.ruleCounter ∧ (updChar t c f).forB = t.forB := by
  unfold updChar; simp

theorem updDots_same (t : Table) (c : Nat) (f : DotsRec → DotsRec) :
    (updDots t c f).rules = t.rules ∧ (updDots t c f).ruleCounter = t.ruleCounter ∧ (updDots t c f).forB = t.forB := by
  unfold updDots; simp

theorem addFwdSingle_same (t : Table) (r : Rule) :
    (addFwdSingle t r).rules = t.rules ∧ (addFwdSingle t r).ruleCounter = t.ruleCounter ∧ (addFwdSingle t r).forB = t.forB := by
  unfold addFwdSingle
  dsimp only
  split
  · refine ⟨?_, ?_, ?_⟩ <;> simp [(updChar_same _ _ _).1, (updChar_same _ _ _).2.1, (updChar_same _ _ _).2.2,
      (putChar_same _ _).1, (putChar_same _ _).2.1, (putChar_same _ _).2.2]
  · refine ⟨?_, ?_, ?_⟩ <;> simp [(updChar_same _ _ _).1, (updChar_same _ _ _).2.1, (updChar_same _ _ _).2.2,
      (putChar_same _ _).1, (putChar_same _ _).2.1, (putChar_same _ _).2.2]

theorem addBackSingle_same (t : Table) (r : Rule) (cell : Nat) :
    (addBackSingle t r cell).rules = t.rules ∧ (addBackSingle t r cell).ruleCounter = t.ruleCounter ∧
    (addBackSingle t r cell).forB = t.forB := by
  unfold addBackSingle
  split
  · exact ⟨rfl, rfl, rfl⟩
  · dsimp only
    split
    · refine ⟨?_, ?_, ?_⟩ <;> simp [(updDots_same _ _ _).1, (updDots_same _ _ _).2.1, (updDots_same _ _ _).2.2,
        (putDots_same _ _).1, (putDots_same _ _).2.1, (putDots_same _ _).2.2]
    · refine ⟨?_, ?_, ?_⟩ <;> simp [(updDots_same _ _ _).1, (updDots_same _ _ _).2.1, (updDots_same _ _ _).2.2,
        (putDots_same _ _).1, (putDots_same _ _).2.1, (putDots_same _ _).2.2]

theorem addBackMulti_same (t : Table) (r : Rule) :
    (addBackMulti t r).rules = t.rules ∧ (addBackMulti t r).ruleCounter = t.ruleCounter ∧ (addBackMulti t r).forB = t.forB := by
  unfold addBackMulti; split <;> simp

/-- looking up an old index after a new rule with a fresh index has been appended -/
theorem rule?_append (t : Table) (r : Rule) (i : Nat) (hfresh : ∀ o ∈ t.rules, o.idx ≠ r.idx) :
    ({ t with rules := t.rules ++ [r] } : Table).rule? i =
      if i = r.idx then some r else t.rule? i := by
  unfold Table.rule?
  simp only [List.find?_append]
  by_cases hi : i = r.idx
  · subst hi
    have : t.rules.find? (fun x => x.idx == r.idx) = none := by
      rw [List.find?_eq_none]; intro o ho; simpa using hfresh o ho
    simp [this]
  · simp only [hi, if_false]
    cases h : t.rules.find? (fun x => x.idx == i) with
    | some x => simp
    | none => simp [Ne.symm hi, show (r.idx == i) = false from by simpa using Ne.symm hi]

/-- index-level insertion agrees with rule-level insertion on resolved chains -/
theorem insertBefore_resolved (stop : Rule → Bool) (t : Table) (new : Rule) (hn : t.rule? new.idx = some new) :
    ∀ (chain : List Nat), (∀ i ∈ chain, ∃ r, t.rule? i = some r ∧ r.idx = i) →
      (insertBefore stop t new.idx chain).filterMap t.rule? = insR stop new (chain.filterMap t.rule?) := by
  intro chain
  induction chain with
  | nil => intro _; simp [insertBefore, insR, hn]
  | cons i rest ih =>
    intro hres
    obtain ⟨r, hr, _⟩ := hres i (List.mem_cons_self ..)
    have ih' := ih (fun j hj => hres j (List.mem_cons_of_mem _ hj))
    unfold insertBefore
    simp only [hr]
    by_cases hs : stop r = true
    · simp [hs, List.filterMap_cons, hn, hr, insR]
    · have hs' : stop r = false := by simpa using hs
      simp [hs', List.filterMap_cons, hr, insR, ih']

theorem mem_insertBefore (stop : Rule → Bool) (t : Table) (new : Nat) :
    ∀ (chain : List Nat) (j : Nat), j ∈ insertBefore stop t new chain ↔ j = new ∨ j ∈ chain := by
  intro chain
  induction chain with
  | nil => intro j; simp [insertBefore]
  | cons i rest ih =>
    intro j
    unfold insertBefore
    cases ht : t.rule? i with
    | none => simp [ih]; constructor <;> (intro h; rcases h with h | h | h <;> simp [h])
    | some r =>
      dsimp only
      split
      · simp
      · simp [ih]; constructor <;> (intro h; rcases h with h | h | h <;> simp [h])


/-- `updBucket` touches one bucket -/
theorem mem_updBucket (bs : List (Nat × List Nat)) (h : Nat) (f : List Nat → List Nat) (b : Nat × List Nat)
    (hb : b ∈ updBucket bs h f) :
    b ∈ bs ∨ (∃ old, (h, old) ∈ bs ∧ b = (h, f old)) ∨ ((∀ x ∈ bs, x.1 ≠ h) ∧ b = (h, f [])) := by
  unfold updBucket at hb
  split at hb
  · obtain ⟨x, hx, rfl⟩ := List.mem_map.mp hb
    by_cases hxh : (x.1 == h) = true
    · simp only [hxh, if_true]
      right; left
      refine ⟨x.2, ?_, ?_⟩
      · have : x.1 = h := by simpa using hxh
        rw [← this]; exact hx
      · have : x.1 = h := by simpa using hxh
        rw [this]
    · simp only [hxh, Bool.false_eq_true, if_false]; left; exact hx
  next hany =>
    rcases List.mem_append.mp hb with hb | hb
    · left; exact hb
    · right; right
      simp at hb
      refine ⟨?_, hb⟩
      intro x hx hxe
      apply hany
      rw [List.any_eq_true]
      exact ⟨x, hx, by simpa using hxe⟩

/-- the stop closure used by `addFwdMulti` is `stopFwd` -/
theorem addFwdMulti_forB (t : Table) (r : Rule) :
    (addFwdMulti t r).forB = updBucket t.forB (rawHash (r.chars.getD 0 0) (r.chars.getD 1 0))
      (insertBefore (stopFwd r) t r.idx) ∧
    (addFwdMulti t r).rules = t.rules ∧ (addFwdMulti t r).ruleCounter = t.ruleCounter := by
  unfold addFwdMulti stopFwd; exact ⟨rfl, rfl, rfl⟩

/-- adding a registered rule with the largest index to its bucket keeps the invariant -/
theorem addFwdMulti_inv (t : Table) (r : Rule) (h : CInv t) (hreg : t.rule? r.idx = some r)
    (hmax : ∀ b ∈ t.forB, ∀ i ∈ b.2, i < r.idx) : CInv (addFwdMulti t r) := by
  obtain ⟨hf, hr, hc⟩ := addFwdMulti_forB t r
  have hrule : (addFwdMulti t r).rule? = t.rule? := by funext i; unfold Table.rule?; rw [hr]
  refine ⟨?_, ?_, ?_⟩
  · intro x hx; rw [hr] at hx; rw [hc]; exact h.idxLt x hx
  · intro b hb i hi
    rw [hrule]
    rw [hf] at hb
    rcases mem_updBucket _ _ _ _ hb with hb | ⟨old, hold, rfl⟩ | ⟨_, rfl⟩
    · exact h.chainRes b hb i hi
    · rcases (mem_insertBefore _ _ _ _ _).mp hi with rfl | hi
      · exact ⟨r, hreg, rfl⟩
      · exact h.chainRes _ hold i hi
    · rcases (mem_insertBefore _ _ _ _ _).mp hi with rfl | hi
      · exact ⟨r, hreg, rfl⟩
      · simp at hi
  · intro b hb
    rw [hrule]
    rw [hf] at hb
    rcases mem_updBucket _ _ _ _ hb with hb | ⟨old, hold, rfl⟩ | ⟨_, rfl⟩
    · exact h.sorted b hb
    · dsimp only
      rw [insertBefore_resolved (stopFwd r) t r hreg old (h.chainRes _ hold)]
      apply insR_sorted r _ (h.sorted _ hold)
      intro o ho
      obtain ⟨i, hi, hio⟩ := List.mem_filterMap.mp ho
      obtain ⟨r', hr', hidx⟩ := h.chainRes _ hold i hi
      rw [hr'] at hio; cases hio
      rw [hidx]; exact hmax _ hold i hi
    · dsimp only
      rw [insertBefore_resolved (stopFwd r) t r hreg [] (by intro i hi; simp at hi)]
      simp [insR]

/-- every chain index is below the rule counter -/
theorem chain_lt_counter (t : Table) (h : CInv t) : ∀ b ∈ t.forB, ∀ i ∈ b.2, i < t.ruleCounter := by
  intro b hb i hi
  obtain ⟨r, hr, hidx⟩ := h.chainRes b hb i hi
  have hm : r ∈ t.rules := by unfold Table.rule? at hr; exact List.mem_of_find?_eq_some hr
  rw [← hidx]; exact h.idxLt r hm

theorem filterMap_congr' {α β : Type} (f g : α → Option β) : ∀ (l : List α), (∀ x ∈ l, f x = g x) →
    l.filterMap f = l.filterMap g := by
  intro l
  induction l with
  | nil => intro _; rfl
  | cons a as ih =>
    intro h
    simp only [List.filterMap_cons, h a (List.mem_cons_self ..)]
    rw [ih (fun x hx => h x (List.mem_cons_of_mem _ hx))]

/-- registering a rule under the fresh index `t.ruleCounter` -/
theorem registerRule_inv (t : Table) (e : Entry) (h : CInv t) :
    CInv (registerRule t (newRule t e)) ∧
    (registerRule t (newRule t e)).rule? (newRule t e).idx = some (newRule t e) ∧
    (∀ b ∈ (registerRule t (newRule t e)).forB, ∀ i ∈ b.2, i < (newRule t e).idx) := by
  generalize hrdef : newRule t e = r
  have hridx : r.idx = t.ruleCounter := by rw [← hrdef]; rfl
  have hfresh : ∀ o ∈ t.rules, o.idx ≠ r.idx := by
    intro o ho; have := h.idxLt o ho; omega
  have hlook : ∀ i, (registerRule t r).rule? i = if i = r.idx then some r else t.rule? i := by
    intro i
    have := rule?_append t r i hfresh
    unfold registerRule Table.rule? at *
    exact this
  refine ⟨⟨?_, ?_, ?_⟩, ?_, ?_⟩
  · intro x hx
    unfold registerRule at hx ⊢
    rcases List.mem_append.mp hx with hx | hx
    · have := h.idxLt x hx; dsimp only; omega
    · simp at hx; subst hx; dsimp only; omega
  · intro b hb i hi
    have hlt := chain_lt_counter t h b hb i hi
    rw [hlook, if_neg (by omega)]
    exact h.chainRes b hb i hi
  · intro b hb
    have hbb : b ∈ t.forB := hb
    have : b.2.filterMap (registerRule t r).rule? = b.2.filterMap t.rule? := by
      apply filterMap_congr'
      intro i hi
      have hlt := chain_lt_counter t h b hbb i hi
      rw [hlook, if_neg (by omega)]
    rw [this]; exact h.sorted b hbb
  · rw [hlook]; simp
  · intro b hb i hi; rw [hridx]; exact chain_lt_counter t h b hb i hi

/-- **addRule** keeps the invariant -/
theorem addRule_inv (t : Table) (e : Entry) (h : CInv t) : CInv (addRule t e).1 := by
  unfold addRule
  dsimp only
  obtain ⟨h1, hreg, hmax⟩ := registerRule_inv t e h
  generalize newRule t e = r at h1 hreg hmax ⊢
  generalize registerRule t r = t1 at h1 hreg hmax ⊢
  have h2 : CInv (linkFwd t1 e r) := by
    unfold linkFwd
    split
    · exact h1
    · split
      · obtain ⟨a, b, c⟩ := addFwdSingle_same t1 r; exact cinv_congr h1 a b c
      · split
        · exact addFwdMulti_inv t1 r h1 hreg hmax
        · exact h1
  generalize linkFwd t1 e r = t2 at h2 ⊢
  unfold linkBack
  split
  · exact h2
  · split
    · obtain ⟨a, b, c⟩ := addBackSingle_same t2 r (r.dots.headD 0); exact cinv_congr h2 a b c
    · split
      · obtain ⟨a, b, c⟩ := addBackMulti_same t2 r; exact cinv_congr h2 a b c
      · exact h2

theorem foldl_putDots_same (l : List Nat) : ∀ (t : Table),
    (l.foldl putDots t).rules = t.rules ∧ (l.foldl putDots t).ruleCounter = t.ruleCounter ∧
    (l.foldl putDots t).forB = t.forB := by
  induction l with
  | nil => intro t; exact ⟨rfl, rfl, rfl⟩
  | cons d ds ih =>
    intro t
    simp only [List.foldl_cons]
    obtain ⟨a, b, c⟩ := ih (putDots t d)
    obtain ⟨a', b', c'⟩ := putDots_same t d
    exact ⟨a.trans a', b.trans b', c.trans c'⟩

theorem prepCharDef_same (t : Table) (c : Nat) (dots : List Nat) (at' : Nat) :
    (prepCharDef t c dots at').rules = t.rules ∧ (prepCharDef t c dots at').ruleCounter = t.ruleCounter ∧
    (prepCharDef t c dots at').forB = t.forB := by
  unfold prepCharDef
  dsimp only
  obtain ⟨a4, b4, c4⟩ := putChar_same t c
  obtain ⟨a3, b3, c3⟩ := updChar_same (putChar t c) c (fun cr => { cr with attrs := cr.attrs ||| at' })
  obtain ⟨a2, b2, c2⟩ := foldl_putDots_same dots.reverse (updChar (putChar t c) c fun cr => { cr with attrs := cr.attrs ||| at' })
  split
  · obtain ⟨a1, b1, c1⟩ := updDots_same
      (List.foldl putDots (updChar (putChar t c) c fun cr => { cr with attrs := cr.attrs ||| at' }) dots.reverse)
      (dots.headD 0) (fun dr => { dr with attrs := dr.attrs ||| at' })
    exact ⟨a1.trans (a2.trans (a3.trans a4)), b1.trans (b2.trans (b3.trans b4)), c1.trans (c2.trans (c3.trans c4))⟩
  · exact ⟨a2.trans (a3.trans a4), b2.trans (b3.trans b4), c2.trans (c3.trans c4)⟩

/-- one compiled entry keeps the invariant -/
theorem compileEntry_inv (t t' : Table) (e : Entry) (h : CInv t) (hc : compileEntry t e = some t') : CInv t' := by
  unfold compileEntry at hc
  split at hc
  next a _ =>
    unfold compileCharDef at hc
    split at hc
    next c _ =>
      split at hc
      · cases hc
      · simp only [Option.some.injEq] at hc
        subst hc
        apply addRule_inv
        obtain ⟨a1, b1, c1⟩ := prepCharDef_same t c e.dots
          (if a &&& (CTC_UpperCase ||| CTC_LowerCase) != 0 then a ||| CTC_Letter else a)
        exact cinv_congr h a1 b1 c1
    · cases hc
  next =>
    split at hc
    · split at hc
      · cases hc
      · simp only [Option.some.injEq] at hc
        subst hc
        exact cinv_congr (addRule_inv t { e with chars := [] } h) rfl rfl rfl
    · split at hc
      · split at hc
        · cases hc
        · simp only [Option.some.injEq] at hc
          subst hc
          exact cinv_congr (addRule_inv t { e with chars := [] } h) rfl rfl rfl
      · split at hc
        · cases hc
        · split at hc
          · cases hc
          · simp only [Option.some.injEq] at hc
            subst hc
            exact addRule_inv t e h

theorem foldlM_inv (es : List Entry) : ∀ (t t' : Table), CInv t → es.foldlM compileEntry t = some t' → CInv t' := by
  induction es with
  | nil => intro t t' h hc; simp at hc; subst hc; exact h
  | cons e es ih =>
    intro t t' h hc
    simp only [List.foldlM_cons, Option.bind_eq_bind] at hc
    cases hce : compileEntry t e with
    | none => simp [hce] at hc
    | some t1 =>
      simp only [hce, Option.bind_some] at hc
      exact ih t1 t' (compileEntry_inv t t1 e h hce) hc

theorem init_inv : CInv initTable := by
  refine ⟨?_, ?_, ?_⟩ <;> simp [initTable]

/-- **chain_sorted**: for every list of entries that compiles, every forward rule chain of the
    compiled table is ordered longest first, `always` last among equals, definition order otherwise,
    and every index in a chain denotes a rule of the table -/
theorem chain_sorted (es : List Entry) (t : Table) (hc : compile es = some t) :
    ∀ b ∈ t.forB, (b.2.filterMap t.rule?).Pairwise le ∧ ∀ i ∈ b.2, ∃ r, t.rule? i = some r ∧ r.idx = i := by
  unfold compile at hc
  obtain ⟨t0, ht0, rfl⟩ := Option.map_eq_some_iff.mp hc
  have h0 : CInv ((compileEntry initTable endSegmentEntry).getD initTable) := by
    cases hce : compileEntry initTable endSegmentEntry with
    | none => simpa using init_inv
    | some t1 => simpa using compileEntry_inv initTable t1 endSegmentEntry init_inv hce
  have hinv := foldlM_inv es _ t0 h0 ht0
  have hfin : CInv ({ t0 with numPasses := if t0.numPasses == 0 then 1 else t0.numPasses, finalized := true } : Table) :=
    cinv_congr hinv rfl rfl rfl
  intro b hb
  exact ⟨hfin.sorted b hb, hfin.chainRes b hb⟩

/-- non-vacuity: a table with a colliding bucket, equal strings, an `always` among them -/
example : ∃ t, compile [
    { opcode := CTO_LowerCase, chars := [97], dots := [0x8001] },
    { opcode := CTO_LowerCase, chars := [98], dots := [0x8003] },
    { opcode := CTO_Always, chars := [97, 98], dots := [0x8005] },
    { opcode := CTO_BegWord, chars := [97, 98], dots := [0x8006] },
    { opcode := CTO_Always, chars := [97, 98, 97], dots := [0x8007] }] = some t ∧
    t.forBucket (rawHash 97 98) = [5, 4, 3] := by
  refine ⟨_, rfl, ?_⟩; decide

end Lou.C05
